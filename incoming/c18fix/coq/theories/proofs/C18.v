(* C18 — the Raft log recovers a durable, gap-free prefix after a crash.
   Model: LogCrash.v (IO task of buffered_raft_log.rs, one step per select! arm, two-layer store).
   [handle] is handle_non_write_cmd as it is now (after the fixes 50a24e0 and 14795f4);
   [handle_old] / [run_old] is the code before them.

   Part 1 (what holds now).  For EVERY Raft-shaped sequence of calls (C19's [shaped], the hypotheses
   of the refinement BufLog -> PLog) under the schedule of the probe (after every call the IO thread
   runs until it is idle: [pstep]), the invariant [Q] holds: the written layer of the store IS the
   live log, the synced layer is a gap-free former log that holds every live entry at or below
   durable_index, durable_index and pending_max never exceed the last index.  From it: C18_* below.

   Part 2 (HISTORY).  The three witnesses that refuted the statement on the code before 50a24e0
   (durable_index not lowered by a conflict truncation) still refute it on [run_old]; the same
   schedules on [run] (code as it is) satisfy it.  One more history witness for 14795f4 (Reset on
   the IO thread did not zero durable_index).

   Part 3.  The mechanism lemmas for all states (`_partial`), re-proved for the repaired arm. *)
From Coq Require Import NArith List Bool Lia ZifyBool ZifyN.
From DE Require Import Val BufLog PLog LogCrash.
From DE.proofs Require Import C19.
Import ListNotations.
Open Scope N_scope.

Definition E (i t : N) : entry := {| e_idx := i; e_term := t; e_pl := 100 * t + i |}.

(* ------------------------------------------------------------------ *)
(* 0. lists                                                             *)
(* ------------------------------------------------------------------ *)
Lemma filter_true {A} (f : A -> bool) : forall l, (forall x, In x l -> f x = true) -> filter f l = l.
Proof.
  induction l as [|x l IH]; intros H; [reflexivity|]. cbn [filter].
  rewrite (H x (or_introl eq_refl)). f_equal. apply IH. intros y Hy. apply H. now right.
Qed.

Lemma contig_le_back : forall l n e, contig n l -> In e l -> n <= e_idx e <= back_idx l.
Proof.
  intros l n e Hc Hin. pose proof (contig_in _ _ _ Hc Hin) as H1.
  assert (Hne : l <> []) by (intros ->; destruct Hin).
  pose proof (back_idx_contig _ _ Hc Hne). lia.
Qed.

Lemma recover_contig : forall l n, contig n l -> 1 <= n -> recover l = l.
Proof.
  intros l n Hc Hn. unfold recover. destruct l as [|x l'] eqn:El; [reflexivity|]. rewrite <- El in *.
  assert (Hx : In x l) by (rewrite El; now left).
  pose proof (contig_le_back _ _ _ Hc Hx) as Hb.
  destruct (0 <? back_idx l) eqn:E0; [|lia].
  unfold range. apply filter_true. intros y Hy. pose proof (contig_le_back _ _ _ Hc Hy). unfold in_range. lia.
Qed.

Lemma gapfree_contig : forall l n, contig n l -> gapfreeb l = true.
Proof.
  induction l as [|x l IH]; intros n Hc; [reflexivity|]. destruct Hc as [Hx Hc]. cbn [gapfreeb].
  destruct l as [|y l']; [reflexivity|]. pose proof Hc as Hc'. destruct Hc' as [Hy _].
  rewrite (IH _ Hc). lia.
Qed.

Lemma ins1_in : forall l n x, contig n l -> In x l -> ins1 l x = l.
Proof.
  induction l as [|y l IH]; intros n x Hc Hin; [destruct Hin|]. destruct Hc as [Hy Hc]. cbn [ins1].
  destruct Hin as [->|Hin].
  - destruct (e_idx x <? e_idx x) eqn:E1; [lia|]. destruct (e_idx x =? e_idx x) eqn:E2; [reflexivity|lia].
  - pose proof (contig_in _ _ _ Hc Hin). destruct (e_idx x <? e_idx y) eqn:E1; [lia|].
    destruct (e_idx x =? e_idx y) eqn:E2; [lia|]. f_equal. eapply IH; eauto.
Qed.

Lemma ins_all_in : forall A l n, contig n l -> (forall x, In x A -> In x l) -> ins_all l A = l.
Proof.
  induction A as [|a A IH]; intros l n Hc H; [reflexivity|]. unfold ins_all. cbn [fold_left].
  rewrite (ins1_in l n a Hc) by (apply H; now left). apply (IH l n Hc). intros x Hx. apply H. now right.
Qed.

Lemma ins_all_cat : forall l A B, ins_all l (A ++ B) = ins_all (ins_all l A) B.
Proof. intros. unfold ins_all. apply fold_left_app. Qed.

(* persisting the range [lo, hi] of the log L ++ T over a store that holds L gives L ++ T *)
Lemma persist_ok : forall L T n lo hi, contig n (L ++ T) -> (forall e, In e T -> lo <= e_idx e) ->
  (forall e, In e (L ++ T) -> e_idx e <= hi) -> ins_all L (range (L ++ T) lo hi) = L ++ T.
Proof.
  intros L T n lo hi Hc HT Hhi. unfold range. rewrite filter_app.
  rewrite (filter_true _ T).
  2:{ intros x Hx. unfold in_range. pose proof (HT x Hx). pose proof (Hhi x (in_or_app _ _ _ (or_intror Hx))). lia. }
  rewrite ins_all_cat. apply contig_app in Hc. destruct Hc as [HcL HcT].
  rewrite (ins_all_in _ L n HcL) by (intros x Hx; apply filter_In in Hx; tauto).
  apply (ins_all_app T L (n + len L)); [|exact HcT].
  intros x Hx. pose proof (contig_in _ _ _ HcL Hx). lia.
Qed.

(* ------------------------------------------------------------------ *)
(* 1. the pieces of the IO task, field by field                         *)
(* ------------------------------------------------------------------ *)
Definition is_nilb {A} (l : list A) : bool := match l with [] => true | _ => false end.

Lemma pf_mem s lo : mem (persist_from s lo) = mem s.
Proof. unfold persist_from. destruct (lo <=? _); [destruct (range _ _ _)|]; reflexivity. Qed.
Lemma pf_sy s lo : sy (persist_from s lo) = sy s.
Proof. unfold persist_from. destruct (lo <=? _); [destruct (range _ _ _)|]; reflexivity. Qed.
Lemma pf_queue s lo : queue (persist_from s lo) = queue s.
Proof. unfold persist_from. destruct (lo <=? _); [destruct (range _ _ _)|]; reflexivity. Qed.
Lemma pf_notified s lo : notified (persist_from s lo) = notified s.
Proof. unfold persist_from. destruct (lo <=? _); [destruct (range _ _ _)|]; reflexivity. Qed.
Lemma pf_after s lo : after (persist_from s lo) = after s.
Proof. unfold persist_from. destruct (lo <=? _); [destruct (range _ _ _)|]; reflexivity. Qed.
Lemma pf_alive s lo : alive (persist_from s lo) = alive s.
Proof. unfold persist_from. destruct (lo <=? _); [destruct (range _ _ _)|]; reflexivity. Qed.
Lemma pf_wr s lo : wr (persist_from s lo) =
  if lo <=? bmax (mem s) then ins_all (wr s) (range (ents (mem s)) lo (bmax (mem s))) else wr s.
Proof. unfold persist_from. destruct (lo <=? _); [destruct (range _ _ _)|]; reflexivity. Qed.
Lemma pf_pmax s lo : pmax (persist_from s lo) =
  if (lo <=? bmax (mem s)) && negb (is_nilb (range (ents (mem s)) lo (bmax (mem s)))) then N.max (pmax s) (bmax (mem s)) else pmax s.
Proof. unfold persist_from. destruct (lo <=? _); [destruct (range _ _ _)|]; reflexivity. Qed.

Lemma fs_mem s : mem (fsync s) = if 0 <? pmax s then set_durable (mem s) (N.max (durable (mem s)) (pmax s)) else mem s.
Proof. unfold fsync. destruct (0 <? pmax s); reflexivity. Qed.
Lemma fs_wr s : wr (fsync s) = wr s.
Proof. unfold fsync. destruct (0 <? pmax s); reflexivity. Qed.
Lemma fs_sy s : sy (fsync s) = if 0 <? pmax s then wr s else sy s.
Proof. unfold fsync. destruct (0 <? pmax s); reflexivity. Qed.
Lemma fs_pmax s : pmax (fsync s) = 0.
Proof. unfold fsync. destruct (0 <? pmax s) eqn:E; [reflexivity|lia]. Qed.
Lemma fs_queue s : queue (fsync s) = queue s.
Proof. unfold fsync. destruct (0 <? pmax s); reflexivity. Qed.
Lemma fs_notified s : notified (fsync s) = notified s.
Proof. unfold fsync. destruct (0 <? pmax s); reflexivity. Qed.
Lemma fs_after s : after (fsync s) = after s.
Proof. unfold fsync. destruct (0 <? pmax s); reflexivity. Qed.
Lemma fs_alive s : alive (fsync s) = alive s.
Proof. unfold fsync. destruct (0 <? pmax s); cbn; rewrite ?andb_true_r; reflexivity. Qed.

(* control: what the arms do on a state whose channel is empty / holds one command *)
Definition idle (s : st) : Prop := alive s = true /\ queue s = [] /\ after s = [] /\ notified s = false.

Lemma resume_idle : forall s, queue s = [] -> after s = [] -> resume s = s.
Proof. intros [b w y q n p a al] Hq Ha. cbn in Hq, Ha. subst. reflexivity. Qed.

Lemma io_notify_off : forall s, notified s = false -> io_notify s = s.
Proof. intros s H. unfold io_notify, io_notify_g. rewrite H, andb_false_r. reflexivity. Qed.

Lemma io_notify_idle : forall s, alive s = true -> notified s = true -> queue s = [] ->
  io_notify s = fsync (persist_range (with_notified s false)).
Proof.
  intros [b w y q n p a al] Ha Hn Hq. cbn in Ha, Hn, Hq. subst.
  unfold io_notify, io_notify_g, persist_range, persist_from. cbn.
  destruct (durable b + 1 <=? bmax b); [destruct (range (ents b) (durable b + 1) (bmax b))|]; reflexivity.
Qed.

Lemma settle_quiet : forall s, queue s = [] -> after s = [] -> notified s = false -> settle s = s.
Proof. intros s Hq Ha Hn. unfold settle. rewrite resume_idle by assumption. apply io_notify_off. exact Hn. Qed.

Lemma settle_notified : forall s, alive s = true -> queue s = [] -> after s = [] -> notified s = true ->
  settle s = fsync (persist_range (with_notified s false)).
Proof. intros s Hal Hq Ha Hn. unfold settle. rewrite resume_idle by assumption. apply io_notify_idle; assumption. Qed.

(* one queued command that is neither Flush nor Shutdown, caller blocked on its done channel *)
Lemma settle_cmd : forall s c, alive s = true -> queue s = [] -> notified s = false ->
  (match c with TFlush | TShutdown => False | _ => True end) ->
  after s = [] ->
  settle (send s c) = handle c s.
Proof.
  intros [b w y q n p a al] c Hal Hq Hn Hc Ha. cbn in Hal, Hq, Hn, Ha. subst.
  unfold settle, resume, resume_g, send. cbn [queue with_queue app length force_cmds_g].
  unfold io_cmd_g at 1. cbn [alive with_queue queue].
  destruct c; try contradiction; cbn [handle].
  all: cbn; unfold io_notify, io_notify_g; cbn; reflexivity.
Qed.

Ltac prj := cbv beta iota zeta delta [mem wr sy queue notified pmax after alive with_mem with_store with_queue with_notified with_after sync_store andb negb].

Lemma persist_range_lit : forall b w y q n p a al, exists w' p',
  persist_range {| mem := b; wr := w; sy := y; queue := q; notified := n; pmax := p; after := a; alive := al |} =
  {| mem := b; wr := w'; sy := y; queue := q; notified := n; pmax := p'; after := a; alive := al |}.
Proof.
  intros. unfold persist_range, persist_from. prj.
  destruct (durable b + 1 <=? bmax b); [destruct (range (ents b) (durable b + 1) (bmax b))|]; unfold with_store; prj; eauto.
Qed.

Lemma io_cmd_flush_lit : forall b w y p,
  io_cmd {| mem := b; wr := w; sy := y; queue := [TFlush]; notified := false; pmax := p; after := []; alive := true |} =
  fsync (persist_range {| mem := b; wr := w; sy := y; queue := []; notified := false; pmax := p; after := []; alive := true |}).
Proof.
  intros. unfold io_cmd, io_cmd_g. prj.
  destruct (persist_range_lit b w y [] false p [] true) as [w' [p' Hp]]. rewrite Hp. prj. cbn [drain_g]. prj. reflexivity.
Qed.

Lemma settle_flush : forall s, idle s -> settle (send s TFlush) = fsync (persist_range s).
Proof.
  intros [b w y q n p a al] [Hal [Hq [Ha Hn]]]. cbn in Hal, Hq, Hn, Ha. subst.
  unfold settle, resume, resume_g, send. prj. cbn [app length force_cmds_g]. prj.
  fold io_cmd. rewrite io_cmd_flush_lit.
  destruct (persist_range_lit b w y [] false p [] true) as [w' [p' Hp]]. rewrite Hp.
  unfold fsync. prj. destruct (0 <? p'); prj; cbn [force_cmds_g]; prj; unfold c_append; prj;
    unfold io_notify, io_notify_g; prj; reflexivity.
Qed.

Lemma io_cmd_shutdown_lit : forall b w y p,
  io_cmd {| mem := b; wr := w; sy := y; queue := [TShutdown]; notified := false; pmax := p; after := []; alive := true |} =
  sync_store (fsync (persist_range {| mem := b; wr := w; sy := y; queue := []; notified := false; pmax := p; after := []; alive := true |})) true.
Proof. intros. unfold io_cmd, io_cmd_g. prj. reflexivity. Qed.

Lemma settle_close : forall s, idle s -> settle (exec s LClose) = sync_store (fsync (persist_range s)) true.
Proof.
  intros [b w y q n p a al] [Hal [Hq [Ha Hn]]]. cbn in Hal, Hq, Hn, Ha. subst.
  unfold exec, exec_g. fold resume. rewrite resume_idle by reflexivity. unfold send. prj. cbn [app length force_cmds_g]. prj.
  fold io_cmd. rewrite io_cmd_shutdown_lit.
  destruct (persist_range_lit b w y [] false p [] true) as [w' [p' Hp]]. rewrite Hp.
  unfold fsync. prj. destruct (0 <? p'); prj; cbn [force_cmds_g]; prj; unfold settle, resume, resume_g; prj;
    cbn [length force_cmds_g]; prj; unfold c_append; prj; unfold io_notify, io_notify_g; prj; reflexivity.
Qed.
Lemma settle_reset_then : forall s es, idle s ->
  settle (with_after (send s TReset) es) = settle (c_append (handle TReset s) es).
Proof.
  intros [b w y q n p a al] es [Hal [Hq [Ha Hn]]]. cbn in Hal, Hq, Hn, Ha. subst.
  destruct es as [|x es']; [reflexivity|].
  unfold settle at 1, resume, resume_g, send. cbn [queue with_queue with_after app length force_cmds_g].
  unfold io_cmd_g at 1. cbn [alive with_queue queue handle with_store with_mem mem set_durable wr sy notified pmax after].
  cbn [force_cmds_g queue after with_after].
  unfold settle. rewrite resume_idle by reflexivity. reflexivity.
Qed.

(* ------------------------------------------------------------------ *)
(* 2. the memory side: filter_act has the memory effect of BufLog.b_filter_append *)
(* ------------------------------------------------------------------ *)
Definition fact_mem (b : buf) (a : fact) (es : list entry) : buf :=
  match a with
  | FNone => b
  | FReset => b_append (b_reset b) es
  | FAppend tl => b_append b tl
  | FReplace d tl => b_insert (b_remove_range b d U64MAX) tl
  end.

Lemma filter_act_mem : forall b prev pterm es,
  fact_mem b (filter_act b prev pterm es) es = fst (b_filter_append b prev pterm es).
Proof.
  intros b prev pterm es. unfold filter_act, b_filter_append.
  destruct ((prev =? 0) && (pterm =? 0)); [reflexivity|].
  destruct (b_entry_term b prev) as [t|]; [|reflexivity].
  destruct (negb (t =? pterm)); [reflexivity|]. cbv zeta.
  match goal with |- context [if ?c then _ else _] => destruct c end.
  - destruct (skipn _ es); reflexivity.
  - destruct (position _ es) as [pos|]; [|reflexivity].
    destruct (_ <=? bmax b); reflexivity.
Qed.

Lemma position_skipn {A} (f : A -> bool) : forall l k, position f l = Some k -> exists x r, skipn k l = x :: r.
Proof.
  induction l as [|y l IH]; intros k H; [discriminate|]. cbn [position] in H.
  destruct (f y).
  - injection H as <-. cbn. eauto.
  - destruct (position f l) as [k'|] eqn:E; [|discriminate]. injection H as <-. cbn [skipn]. apply IH. reflexivity.
Qed.

Lemma skipn_contig : forall es n k, contig n es -> contig (n + len (firstn k es)) (skipn k es).
Proof. intros es n k Hc. rewrite <- (firstn_skipn k es) in Hc. apply contig_app in Hc. tauto. Qed.

Lemma fact_shape : forall b prev pterm es n, contig n es ->
  match filter_act b prev pterm es with
  | FNone => True
  | FReset => prev = 0 /\ pterm = 0
  | FAppend tl => tl <> [] /\ exists m, contig m tl /\ bmax b < m
  | FReplace d tl => tl <> [] /\ contig d tl /\ d <= bmax b
  end.
Proof.
  intros b prev pterm es n Hc. unfold filter_act.
  destruct ((prev =? 0) && (pterm =? 0)) eqn:E0; [lia|].
  destruct (b_entry_term b prev) as [t|]; [|exact I].
  destruct (negb (t =? pterm)); [exact I|]. cbv zeta.
  match goal with |- context [if ?c then _ else _] => destruct c end.
  - pose proof (take_while_spec (fun e => e_idx e <=? bmax b) es) as [_ H2].
    pose proof (skipn_contig es n (take_while (fun e => e_idx e <=? bmax b) es) Hc) as H3.
    destruct (skipn _ es) as [|x r]; [exact I|]. split; [discriminate|].
    eexists. split; [exact H3|]. destruct H3 as [H3 _]. lia.
  - destruct (position _ es) as [pos|] eqn:EP; [|exact I].
    destruct (position_skipn _ _ _ EP) as [x [r Hx]].
    pose proof (skipn_contig es n pos Hc) as H3. rewrite Hx in *.
    pose proof H3 as [H4 _].
    destruct (e_idx x <=? bmax b) eqn:EL.
    + split; [discriminate|]. split; [|lia]. rewrite H4. exact H3.
    + split; [discriminate|]. eexists. split; [exact H3|]. lia.
Qed.

Lemma ents_insert : forall b es, ents (b_insert b es) = ins_all (ents b) es.
Proof.
  intros b es. unfold b_insert. destruct es as [|f es']; [reflexivity|].
  destruct (upd_term_idx (tfirst b) (tlast b) (f :: es')) as [tf tl]. reflexivity.
Qed.
Lemma durable_insert : forall b es, durable (b_insert b es) = durable b.
Proof.
  intros b es. unfold b_insert. destruct es as [|f es']; [reflexivity|].
  destruct (upd_term_idx (tfirst b) (tlast b) (f :: es')) as [tf tl]. reflexivity.
Qed.
Lemma Inv_set_durable : forall b d, Inv b -> Inv (set_durable b d).
Proof. intros b d H. exact H. Qed.
Lemma abs_set_durable : forall b d, abs (set_durable b d) = abs b.
Proof. reflexivity. Qed.

(* ------------------------------------------------------------------ *)
(* 3. the invariant of the states in which the IO thread is idle        *)
(* ------------------------------------------------------------------ *)
Record Q (s : st) : Prop := mkQ {
  q_idle : idle s;
  q_inv : Inv (mem s);
  q_wf : p_wf (abs (mem s));
  (* the written layer of the store IS the live log *)
  q_wr : wr s = ents (mem s);
  (* durable_index and the fsync watermark never exceed the last index *)
  q_dmax : N.max (durable (mem s)) (pmax s) <= p_last_idx (abs (mem s));
  (* the synced layer is a gap-free (former) log *)
  q_sy : exists n, 1 <= n /\ contig n (sy s);
  (* every live entry at or below durable_index is in the synced layer *)
  q_dur : forall e, In e (ents (mem s)) -> e_idx e <= durable (mem s) -> In e (sy s);
  (* when everything is reported durable, the synced layer does not reach beyond the log *)
  q_top : ents (mem s) <> [] -> bmax (mem s) <= durable (mem s) -> forall e, In e (sy s) -> e_idx e <= bmax (mem s)
}.

Lemma Q_st0 : Q st0.
Proof.
  destruct Inv_buf0 as [I W]. constructor; cbn; try easy.
  - exists 1. split; [lia|exact Logic.I].
Qed.

Lemma bmax_back : forall b, Inv b -> bmax b = back_idx (ents b).
Proof. intros b [_ [H _]]. exact H. Qed.

(* persist (durable, max] + fsync from a state whose store holds L while the log is L ++ T *)
Lemma sync_Q : forall S L T, idle S -> Inv (mem S) -> p_wf (abs (mem S)) -> wr S = L -> ents (mem S) = L ++ T ->
  (forall e, In e T -> durable (mem S) < e_idx e) -> durable (mem S) < bmax (mem S) ->
  pmax S <= bmax (mem S) ->
  let X := fsync (persist_range S) in
  Q X /\ sy X = ents (mem X) /\ durable (mem X) = bmax (mem X) /\ ents (mem X) = ents (mem S) /\ pmax X = 0.
Proof.
  intros S L T [Hal [Hq [Ha Hn]]] HI Hwf Hw He HT Hlt Hp X.
  destruct (wf_facts _ Hwf) as [Hc _]. pose proof (bmax_back _ HI) as Hb.
  assert (Hne : ents (mem S) <> []).
  { intros E0. rewrite E0 in Hb. cbn in Hb. lia. }
  destruct (back_idx_in _ Hne) as [z [Hz1 [Hz2 _]]].
  assert (Hwr : wr (persist_range S) = ents (mem S)).
  { unfold persist_range. rewrite pf_wr. destruct (durable (mem S) + 1 <=? bmax (mem S)) eqn:E1; [|lia].
    rewrite Hw, He. rewrite He in Hc. apply (persist_ok L T _ _ _ Hc).
    - intros e HeT. specialize (HT e HeT). lia.
    - intros e Hin. rewrite <- He in Hin, Hc. pose proof (contig_le_back _ _ _ Hc Hin). lia. }
  assert (Hpm : pmax (persist_range S) = bmax (mem S)).
  { unfold persist_range. rewrite pf_pmax. destruct (durable (mem S) + 1 <=? bmax (mem S)) eqn:E1; [|lia].
    destruct (range (ents (mem S)) (durable (mem S) + 1) (bmax (mem S))) as [|r rs] eqn:ER.
    - exfalso. assert (Hin : In z (range (ents (mem S)) (durable (mem S) + 1) (bmax (mem S)))).
      { unfold range. apply filter_In. split; [exact Hz1|]. unfold in_range. lia. }
      rewrite ER in Hin. destruct Hin.
    - cbn [is_nilb negb andb]. lia. }
  assert (Hm : mem X = set_durable (mem S) (bmax (mem S))).
  { unfold X. rewrite fs_mem, Hpm. unfold persist_range. rewrite pf_mem.
    destruct (0 <? bmax (mem S)) eqn:E; [|lia]. f_equal. lia. }
  assert (Hsy : sy X = ents (mem S)).
  { unfold X. rewrite fs_sy, Hpm, Hwr. destruct (0 <? bmax (mem S)) eqn:E; [reflexivity|lia]. }
  assert (HwX : wr X = ents (mem S)) by (unfold X; rewrite fs_wr; exact Hwr).
  assert (HpX : pmax X = 0) by (unfold X; apply fs_pmax).
  assert (HeX : ents (mem X) = ents (mem S)) by (rewrite Hm; reflexivity).
  assert (HdX : durable (mem X) = bmax (mem S)) by (rewrite Hm; reflexivity).
  assert (HbX : bmax (mem X) = bmax (mem S)) by (rewrite Hm; reflexivity).
  destruct (bmax_facts _ HI Hwf) as [_ B1]. destruct (B1 Hne) as [_ [_ B2]].
  split; [|rewrite Hsy, HeX, HdX, HbX; auto].
  constructor.
  - unfold X, idle, persist_range. rewrite fs_alive, fs_queue, fs_after, fs_notified, pf_alive, pf_queue, pf_after, pf_notified. auto.
  - rewrite Hm. exact HI.
  - rewrite Hm. exact Hwf.
  - rewrite HwX, HeX. reflexivity.
  - rewrite HpX, HdX, Hm, abs_set_durable. lia.
  - rewrite Hsy. exists (pg_idx (mem S) + 1). split; [lia|exact Hc].
  - intros e Hin _. rewrite Hsy. rewrite HeX in Hin. exact Hin.
  - intros _ _ e Hin. rewrite Hsy in Hin. rewrite HbX, Hb. apply (contig_le_back _ _ _ Hc Hin).
Qed.

(* ------------------------------------------------------------------ *)
(* 4. one call of the Raft thread followed by the IO thread going idle  *)
(* ------------------------------------------------------------------ *)
Definition pstep (s : st) (l : label) : st := settle (exec s l).
Definition prun (ls : list label) (s : st) : st := fold_left pstep ls s.

(* Raft-shaped calls: the hypotheses of the refinement BufLog -> PLog (C19.shaped) *)
Definition lshaped (s : st) (l : label) : Prop :=
  match l with
  | LAppend es => shaped (abs (mem s)) (OAppend es)
  | LFilter prev pterm es => shaped (abs (mem s)) (OFilter prev pterm es)
  | LPurge c t => shaped (abs (mem s)) (OPurge c t)
  | LReset | LFlush => True
  | LClose | LIoNotify | LIoCmd | LIoTimer => False   (* close() is the last call (close_ok); IO arms are scheduled by settle *)
  end.
Fixpoint lshaped_run (s : st) (ls : list label) : Prop :=
  match ls with [] => True | l :: ls' => lshaped s l /\ lshaped_run (pstep s l) ls' end.

(* append-like: the log becomes L ++ T with T beyond the last index *)
Lemma Q_append : forall s b' T, Q s -> Inv b' -> p_wf (abs b') -> ents b' = ents (mem s) ++ T -> T <> [] ->
  (forall e, In e T -> p_last_idx (abs (mem s)) < e_idx e) -> durable b' = durable (mem s) ->
  forall S, idle S -> mem S = b' -> wr S = wr s -> pmax S = pmax s ->
  Q (fsync (persist_range S)).
Proof.
  intros s b' T HQ HI Hwf He HT Hgt Hd S Hid Hm Hw Hp.
  destruct HQ as [_ _ _ Qwr Qd _ _ _].
  destruct (wf_facts _ Hwf) as [Hc _].
  destruct (exists_last HT) as [T0 [z Hz]].
  assert (HzT : In z T) by (rewrite Hz; apply in_or_app; right; now left).
  assert (HzL : In z (ents b')) by (rewrite He; apply in_or_app; now right).
  pose proof (contig_le_back _ _ _ Hc HzL) as Hzb. pose proof (bmax_back _ HI) as Hb. pose proof (Hgt z HzT) as Hzg.
  refine (proj1 (sync_Q S (ents (mem s)) T Hid _ _ _ _ _ _ _)); rewrite ?Hm; auto.
  - congruence.
  - intros e HeT. specialize (Hgt e HeT). lia.
  - lia.
  - lia.
Qed.

Lemma in_filter_app_lt : forall (L tl : list entry) d e n, contig d tl -> contig n L ->
  In e (filter (fun x => e_idx x <? d) L ++ tl) -> e_idx e < d -> In e L.
Proof.
  intros L tl d e n Hc _ Hin Hlt. apply in_app_or in Hin. destruct Hin as [Hin|Hin].
  - apply filter_In in Hin. tauto.
  - pose proof (contig_in _ _ _ Hc Hin). lia.
Qed.

(* the state after a handled Reset *)
Lemma Q_reset : forall s S, Q s -> idle S -> mem S = b_reset (mem s) -> sy S = sy s -> Q (handle TReset S).
Proof.
  intros s S HQ [Hal [Hq [Ha Hn]]] Hm Hs. destruct HQ as [_ QI Qwf _ _ Qsy _ _].
  assert (Hm' : mem (handle TReset S) = b_reset (mem s)) by (cbn; rewrite Hm; reflexivity).
  destruct (refine_step (mem s) OReset QI Qwf Logic.I) as [R1 [R2 _]]. cbn [step fst] in R1, R2.
  constructor; rewrite ?Hm'; auto.
  - unfold idle. cbn. auto.
  - cbn. lia.
  - cbn. rewrite Hs. exact Qsy.
  - intros e [].
  - intros H. exfalso. apply H. reflexivity.
Qed.

Lemma Q_step_append : forall s es, Q s -> shaped (abs (mem s)) (OAppend es) -> Q (pstep s (LAppend es)).
Proof.
  intros s es HQ Hs. pose proof HQ as [[Hal [Hq [Ha Hn]]] QI Qwf Qwr Qd Qsy Qdur Qtop].
  destruct (refine_step _ _ QI Qwf Hs) as [R1 [R2 [R3 _]]]. cbn [step fst p_step] in R1, R2, R3.
  destruct Hs as [Hne [Hce _]].
  unfold pstep, exec, exec_g. fold resume. rewrite resume_idle by assumption.
  unfold c_append. destruct es as [|x es'] eqn:Ees; [congruence|]. rewrite <- Ees in *.
  rewrite settle_notified by (cbn; auto).
  eapply (Q_append s (b_append (mem s) es) es HQ R1 R2).
  - apply (f_equal pents) in R3. exact R3.
  - exact Hne.
  - intros e He. pose proof (contig_in _ _ _ Hce He). lia.
  - apply durable_insert.
  - unfold idle. cbn. auto.
  - reflexivity.
  - reflexivity.
  - reflexivity.
Qed.

Lemma Q_step_reset : forall s, Q s -> Q (pstep s LReset).
Proof.
  intros s HQ. pose proof HQ as [[Hal [Hq [Ha Hn]]] _ _ _ _ _ _ _].
  unfold pstep, exec, exec_g. fold resume. rewrite resume_idle by assumption.
  rewrite settle_cmd by (cbn; auto). apply (Q_reset s); auto. unfold idle. cbn. auto.
Qed.

Lemma Q_step_flush : forall s, Q s ->
  Q (pstep s LFlush) /\ bmax (mem (pstep s LFlush)) <= durable (mem (pstep s LFlush)) /\
  ents (mem (pstep s LFlush)) = ents (mem s).
Proof.
  intros s HQ. pose proof HQ as [[Hal [Hq [Ha Hn]]] QI Qwf Qwr Qd Qsy Qdur Qtop].
  unfold pstep, exec, exec_g. fold resume. rewrite resume_idle by assumption. unfold do_flush.
  destruct ((bmax (mem s) =? 0) || (bmax (mem s) <=? durable (mem s))) eqn:E.
  - rewrite settle_quiet by assumption. split; [exact HQ|]. split; [lia|reflexivity].
  - rewrite settle_flush by (unfold idle; auto).
    destruct (bmax_facts _ QI Qwf) as [B0 B1].
    assert (Hne : ents (mem s) <> []) by (intros E0; destruct (B0 E0); lia).
    destruct (B1 Hne) as [_ [_ B2]].
    destruct (sync_Q s (ents (mem s)) [] (conj Hal (conj Hq (conj Ha Hn))) QI Qwf Qwr) as [X1 [X2 [X3 [X4 _]]]].
    + rewrite app_nil_r. reflexivity.
    + intros e [].
    + lia.
    + lia.
    + split; [exact X1|]. split; [lia|exact X4].
Qed.

Lemma Q_step_purge : forall s c t, Q s -> shaped (abs (mem s)) (OPurge c t) -> Q (pstep s (LPurge c t)).
Proof.
  intros s c t HQ Hs. pose proof HQ as [[Hal [Hq [Ha Hn]]] QI Qwf Qwr Qd Qsy Qdur Qtop].
  destruct (refine_step _ _ QI Qwf Hs) as [R1 [R2 [R3 _]]]. cbn [step fst p_step] in R1, R2, R3.
  destruct Hs as [Hc1 [Hpg _]]. cbn [abs pb_idx] in Hpg.
  unfold pstep, exec, exec_g. fold resume. rewrite resume_idle by assumption.
  rewrite settle_cmd by (cbn; auto).
  set (b' := b_purge (mem s) c t) in *.
  assert (He : ents b' = filter (fun e => c <? e_idx e) (ents (mem s))).
  { apply (f_equal pents) in R3. exact R3. }
  assert (Hd : durable b' = if durable (mem s) <=? c then c else durable (mem s)) by reflexivity.
  assert (Hpgb : pg_idx b' = c) by reflexivity.
  destruct (wf_facts _ Qwf) as [Hc _]. destruct (wf_facts _ R2) as [Hc' _].
  pose proof (p_last_idx_len (abs (mem s)) Hc) as HL. pose proof (p_last_idx_len (abs b') Hc') as HL'.
  cbn [abs pb_idx pents] in HL, HL'. rewrite Hpgb in HL', Hc'.
  (* the last index does not go down, and is at least c *)
  assert (Hmono : p_last_idx (abs (mem s)) <= p_last_idx (abs b') /\ c <= p_last_idx (abs b')).
  { split; [|lia]. destruct (ents (mem s)) as [|x l] eqn:EL.
    - rewrite HL. cbn [length]. lia.
    - rewrite <- EL in *. assert (Hnil : ents (mem s) <> []) by (rewrite EL; discriminate).
      destruct (back_idx_in _ Hnil) as [z [Hz1 [Hz2 _]]]. pose proof (back_idx_contig _ _ Hc Hnil) as Hbk.
      destruct (c <? e_idx z) eqn:Ez.
      + assert (Hz' : In z (ents b')) by (rewrite He; apply filter_In; auto).
        pose proof (contig_in _ _ _ Hc' Hz'). lia.
      + lia. }
  constructor.
  - unfold idle. cbn. auto.
  - exact R1.
  - exact R2.
  - cbn. unfold s_purge. rewrite Qwr. symmetry. exact He.
  - cbn [handle with_store with_mem mem pmax]. fold b'. rewrite Hd. destruct (durable (mem s) <=? c); lia.
  - cbn. exact Qsy.
  - cbn [handle with_store with_mem mem sy]. fold b'. intros e Hin Hle. rewrite He in Hin. apply filter_In in Hin.
    destruct Hin as [Hin Hgt]. apply Qdur; [exact Hin|]. rewrite Hd in Hle. destruct (durable (mem s) <=? c); lia.
  - cbn [handle with_store with_mem mem sy]. fold b'. intros Hne Hle e Hin.
    destruct (bmax_facts _ R1 R2) as [_ B1]. destruct (B1 Hne) as [_ [_ B2]].
    assert (HneL : ents (mem s) <> []).
    { intros E0. apply Hne. rewrite He, E0. reflexivity. }
    destruct (bmax_facts _ QI Qwf) as [_ B1']. destruct (B1' HneL) as [_ [_ B2']].
    (* the last entry of the purged log is an entry of the log *)
    destruct (back_idx_in _ Hne) as [z [Hz1 [Hz2 _]]]. rewrite <- (bmax_back _ R1) in Hz2.
    rewrite He in Hz1. apply filter_In in Hz1. destruct Hz1 as [Hz1 Hzc].
    pose proof (contig_le_back _ _ _ Hc Hz1) as Hzb. rewrite <- (bmax_back _ QI) in Hzb.
    assert (Heq : bmax b' = bmax (mem s)) by lia.
    rewrite Heq in *. rewrite Hd in Hle.
    apply Qtop; auto. destruct (durable (mem s) <=? c) eqn:Ed; lia.
Qed.

Lemma Q_step_filter : forall s prev pterm es, Q s -> shaped (abs (mem s)) (OFilter prev pterm es) ->
  Q (pstep s (LFilter prev pterm es)).
Proof.
  intros s prev pterm es HQ Hs. pose proof HQ as [[Hal [Hq [Ha Hn]]] QI Qwf Qwr Qd Qsy Qdur Qtop].
  destruct (refine_step _ _ QI Qwf Hs) as [R1 [R2 _]].
  assert (Hfm : fst (step (mem s) (OFilter prev pterm es)) = fact_mem (mem s) (filter_act (mem s) prev pterm es) es).
  { cbn [step]. rewrite filter_act_mem. destruct (b_filter_append (mem s) prev pterm es). reflexivity. }
  rewrite Hfm in R1, R2. clear Hfm.
  destruct Hs as [Hce _].
  pose proof (fact_shape (mem s) prev pterm es _ Hce) as Hsh.
  destruct (wf_facts _ Qwf) as [Hc _].
  unfold pstep, exec, exec_g. fold resume. rewrite resume_idle by assumption. unfold do_filter.
  destruct (filter_act (mem s) prev pterm es) as [| |tl|d tl]; cbn [fact_mem] in R1, R2.
  - (* nothing to do *) rewrite settle_quiet by assumption. exact HQ.
  - (* prev = (0,0): reset, then append the request *)
    destruct Hsh as [-> ->]. replace (0 + 1) with 1 in Hce by lia.
    rewrite settle_reset_then by (unfold idle; cbn; auto).
    assert (HQ0 : Q (handle TReset (with_mem s (b_reset (mem s))))).
    { apply (Q_reset s); auto. unfold idle. cbn. auto. }
    destruct es as [|x es'] eqn:Ees.
    + cbn [c_append]. destruct (q_idle _ HQ0) as [_ [Q1 [Q2 Q3]]]. rewrite settle_quiet by assumption. exact HQ0.
    + rewrite <- Ees in *. unfold c_append. rewrite Ees. rewrite <- Ees.
      rewrite settle_notified by (cbn; auto).
      eapply (Q_append _ (b_append (b_reset (mem s)) es) es HQ0 R1 R2).
      * unfold b_append. rewrite ents_insert. cbn [b_reset ents handle with_store with_mem mem set_durable app].
        apply (ins_all_app es [] 1); [intros y []|exact Hce].
      * rewrite Ees. discriminate.
      * intros e He. pose proof (contig_in _ _ _ Hce He) as H1.
        cbn [handle with_store with_mem mem set_durable abs b_reset ents pg_idx pb_idx pents p_last_idx last_entry rev].
        destruct R2 as [R2 _]. cbn [abs pb_idx pents] in R2. unfold b_append in R2. rewrite ents_insert in R2.
        cbn [b_reset ents] in R2. rewrite (ins_all_app es [] 1) in R2 by (auto; intros y []). cbn [app] in R2.
        assert (Hp : pg_idx (b_insert (b_reset (mem s)) es) = pg_idx (mem s)).
        { unfold b_insert. rewrite Ees. destruct (upd_term_idx _ _ _). reflexivity. }
        rewrite Hp in R2. pose proof (contig_in _ _ _ R2 He). lia.
      * unfold b_append. rewrite durable_insert. reflexivity.
      * unfold idle. cbn. auto.
      * reflexivity.
      * reflexivity.
      * reflexivity.
  - (* append the tail *)
    destruct Hsh as [Hne [m [Hcm Hm]]].
    unfold c_append. destruct tl as [|x tl'] eqn:Etl; [congruence|]. rewrite <- Etl in *.
    rewrite settle_notified by (cbn; auto).
    assert (Hlt : forall y, In y (ents (mem s)) -> e_idx y < m).
    { intros y Hy. pose proof (contig_le_back _ _ _ Hc Hy). rewrite <- (bmax_back _ QI) in *. lia. }
    eapply (Q_append s (b_append (mem s) tl) tl HQ R1 R2).
    + unfold b_append. rewrite ents_insert. apply (ins_all_app tl _ m); assumption.
    + exact Hne.
    + intros e He. pose proof (contig_in _ _ _ Hcm He).
      destruct (bmax_facts _ QI Qwf) as [B0 B1]. destruct (ents (mem s)) as [|y l] eqn:EL.
      * (* empty log: the tail is contiguous from the purge boundary on, by well-formedness of the result *)
        destruct R2 as [R2 _]. cbn [abs pb_idx pents] in R2. unfold b_append in R2. rewrite ents_insert, EL in R2.
        rewrite (ins_all_app tl [] m) in R2 by (auto; intros z []). cbn [app] in R2.
        assert (Hp : pg_idx (b_insert (mem s) tl) = pg_idx (mem s)).
        { unfold b_insert. rewrite Etl. destruct (upd_term_idx _ _ _). reflexivity. }
        rewrite Hp in R2. pose proof (contig_in _ _ _ R2 He).
        unfold p_last_idx. cbn [abs pents pb_idx]. rewrite EL. cbn. lia.
      * rewrite <- EL in *. assert (Hnil : ents (mem s) <> []) by (rewrite EL; discriminate).
        destruct (B1 Hnil) as [_ [_ B2]]. lia.
    + unfold b_append. apply durable_insert.
    + unfold idle. cbn. auto.
    + reflexivity.
    + reflexivity.
    + reflexivity.
  - (* conflict truncation: ReplaceRange handled by the IO thread *)
    destruct Hsh as [Hne [Hcd Hdb]].
    rewrite settle_cmd by (cbn; auto).
    set (b' := b_insert (b_remove_range (mem s) d U64MAX) tl) in *.
    assert (Hbd : forall e, In e (ents (mem s)) -> e_idx e <= U64_MAX) by (destruct QI as [_ [_ [H _]]]; exact H).
    assert (He : ents b' = filter (fun e => e_idx e <? d) (ents (mem s)) ++ tl).
    { unfold b'. rewrite ents_insert. cbn [b_remove_range ents].
      rewrite (filter_ext_in (fun e => negb (in_range d U64MAX e)) (fun e => e_idx e <? d)).
      2:{ intros e Hin. apply in_range_hi. apply Hbd. exact Hin. }
      apply (ins_all_app tl _ d); [|exact Hcd]. intros y Hy. apply filter_In in Hy. lia. }
    assert (Hdur : durable b' = durable (mem s)) by (unfold b'; rewrite durable_insert; reflexivity).
    destruct (exists_last Hne) as [tl0 [z Hz]].
    assert (Hlast : last_entry tl = Some z) by (rewrite Hz; apply last_entry_app).
    assert (HzT : In z tl) by (rewrite Hz; apply in_or_app; right; now left).
    pose proof (contig_in _ _ _ Hcd HzT) as Hzd.
    assert (Hlast' : last_entry (ents b') = Some z) by (rewrite He, last_entry_app_ne by exact Hne; exact Hlast).
    assert (Hbm : bmax b' = e_idx z) by (rewrite (bmax_back _ R1), back_idx_last, Hlast'; reflexivity).
    assert (Hzn : e_idx z <> 0).
    { destruct (wf_facts _ R2) as [_ [Hnz _]]. apply Hnz. rewrite He. apply in_or_app. now right. }
    constructor.
    + unfold idle. cbn. auto.
    + cbn [handle with_store with_mem mem]. fold b'. apply Inv_set_durable. exact R1.
    + cbn [handle with_store with_mem mem]. fold b'. rewrite abs_set_durable. exact R2.
    + cbn [handle with_store with_mem mem wr set_durable ents]. fold b'. rewrite He, Qwr.
      unfold s_replace, s_persist, s_truncate. apply (ins_all_app tl _ d); [|exact Hcd].
      intros y Hy. apply filter_In in Hy. lia.
    + cbn [handle with_store with_mem mem pmax set_durable durable]. fold b'. rewrite abs_set_durable.
      unfold p_last_idx. cbn [abs pents]. rewrite Hlast', Hlast. lia.
    + cbn. exact Qsy.
    + cbn [handle with_store with_mem mem sy set_durable durable ents]. fold b'. intros e Hin Hle.
      destruct (wf_facts _ R2) as [_ [Hnz _]]. pose proof (Hnz e Hin) as Hnz'. rewrite He in Hin.
      apply Qdur; [|lia]. apply (in_filter_app_lt _ tl d e _ Hcd Hc Hin). lia.
    + cbn [handle with_store with_mem mem sy set_durable durable ents bmax]. fold b'. intros _ Hle. exfalso. lia.
Qed.

Theorem Q_step : forall s l, Q s -> lshaped s l -> Q (pstep s l).
Proof.
  intros s l HQ Hs. destruct l; cbn [lshaped] in Hs; try contradiction.
  - apply Q_step_append; assumption.
  - apply Q_step_filter; assumption.
  - apply Q_step_purge; assumption.
  - apply Q_step_reset; assumption.
  - apply (Q_step_flush s HQ).
Qed.

Theorem Q_run : forall ls s, Q s -> lshaped_run s ls -> Q (prun ls s).
Proof.
  induction ls as [|l ls IH]; intros s HQ Hs; [exact HQ|]. destruct Hs as [H1 H2].
  cbn [prun fold_left]. apply IH; [apply Q_step; assumption|exact H2].
Qed.

(* ------------------------------------------------------------------ *)
(* 5. the property, for every Raft-shaped run under the probe's schedule *)
(* ------------------------------------------------------------------ *)
(* process crash: the recovered log IS the live log (hence: holds every entry reported durable, has no gap,
   holds nothing that a truncation replaced) *)
Theorem process_crash_recovers_log : forall ls, lshaped_run st0 ls ->
  let s := prun ls st0 in
  recover (surviving ProcessCrash s) = ents (mem s) /\ gapfreeb (recover (surviving ProcessCrash s)) = true /\
  durable_keptb s (recover (surviving ProcessCrash s)) = true.
Proof.
  intros ls Hs s. pose proof (Q_run ls st0 Q_st0 Hs) as HQ. fold s in HQ.
  destruct HQ as [_ QI Qwf Qwr _ _ _ _]. destruct (wf_facts _ Qwf) as [Hc _].
  cbn [surviving]. rewrite Qwr. rewrite (recover_contig _ _ Hc) by lia.
  split; [reflexivity|]. split; [apply (gapfree_contig _ _ Hc)|].
  unfold durable_keptb. apply forallb_forall. intros e He. apply orb_true_iff. right.
  unfold memb. apply existsb_exists. exists e. split; [exact He|]. unfold entry_eqb. lia.
Qed.

(* power loss: the recovered log has no gap and holds every live entry at or below durable_index() *)
Theorem power_loss_keeps_durable : forall ls, lshaped_run st0 ls ->
  let s := prun ls st0 in
  gapfreeb (recover (surviving PowerLoss s)) = true /\
  (forall e, In e (ents (mem s)) -> e_idx e <= durable (mem s) -> In e (recover (surviving PowerLoss s))) /\
  durable (mem s) <= p_last_idx (abs (mem s)).
Proof.
  intros ls Hs s. pose proof (Q_run ls st0 Q_st0 Hs) as HQ. fold s in HQ.
  destruct HQ as [_ _ _ _ Qd [n [Hn Hcs]] Qdur _]. cbn [surviving].
  rewrite (recover_contig _ _ Hcs Hn). split; [apply (gapfree_contig _ _ Hcs)|]. split; [exact Qdur|lia].
Qed.

(* after a flush() that returned Ok: durable_index() >= last index, so every live entry survives power loss too,
   and no entry of the recovered log at an index of the live log is anything but the live entry (nothing that a
   conflict truncation replaced comes back) *)
Theorem flush_makes_log_durable : forall ls, lshaped_run st0 ls ->
  let s := pstep (prun ls st0) LFlush in
  bmax (mem s) <= durable (mem s) /\
  (forall e, In e (ents (mem s)) -> In e (recover (surviving PowerLoss s)) /\ In e (recover (surviving ProcessCrash s))) /\
  (forall e, In e (recover (surviving PowerLoss s)) -> front_idx (ents (mem s)) <= e_idx e -> ents (mem s) <> [] ->
             In e (ents (mem s))).
Proof.
  intros ls Hs s. pose proof (Q_run ls st0 Q_st0 Hs) as HQ0.
  destruct (Q_step_flush _ HQ0) as [HQ [Hle _]]. fold s in HQ, Hle.
  destruct HQ as [_ QI Qwf Qwr _ [n [Hn Hcs]] Qdur Qtop]. destruct (wf_facts _ Qwf) as [Hc _].
  cbn [surviving]. rewrite (recover_contig _ _ Hcs Hn), Qwr, (recover_contig _ _ Hc) by lia.
  split; [exact Hle|]. split.
  - intros e He. split; [|exact He]. apply Qdur; [exact He|].
    pose proof (contig_le_back _ _ _ Hc He). rewrite <- (bmax_back _ QI) in *. lia.
  - intros e He Hfr Hne. pose proof (Qtop Hne Hle e He) as Htop.
    rewrite (front_idx_contig _ _ Hc Hne) in Hfr. rewrite (bmax_back _ QI) in Htop.
    pose proof (back_idx_contig _ _ Hc Hne) as Hbk.
    destruct (contig_nth _ _ (e_idx e) Hc) as [e' [He'1 He'2]]; [lia|].
    assert (He's : In e' (sy s)).
    { apply Qdur; [exact He'1|]. rewrite (bmax_back _ QI) in Hle. lia. }
    rewrite (contig_unique _ _ _ _ Hcs He He's (eq_sym He'2)). exact He'1.
Qed.

(* graceful close(): both layers hold exactly the live log *)
Theorem close_persists_log : forall ls, lshaped_run st0 ls ->
  let s := pstep (prun ls st0) LClose in
  alive s = false /\ ents (mem s) = ents (mem (prun ls st0)) /\
  forall m, recover (surviving m s) = ents (mem s) /\ gapfreeb (recover (surviving m s)) = true.
Proof.
  intros ls Hs s. pose proof (Q_run ls st0 Q_st0 Hs) as HQ0.
  pose proof HQ0 as [Hid QI Qwf Qwr _ _ _ _]. destruct (wf_facts _ Qwf) as [Hc _].
  unfold s, pstep. rewrite (settle_close _ Hid). set (s0 := prun ls st0) in *.
  assert (Hw : wr (fsync (persist_range s0)) = ents (mem s0)).
  { rewrite fs_wr. unfold persist_range. rewrite pf_wr, Qwr. destruct (_ <=? _); [|reflexivity].
    apply (ins_all_in _ _ _ Hc). intros x Hx. apply filter_In in Hx. tauto. }
  assert (He : ents (mem (fsync (persist_range s0))) = ents (mem s0)).
  { rewrite fs_mem. unfold persist_range. rewrite pf_mem. destruct (0 <? _); reflexivity. }
  cbn [sync_store alive mem]. rewrite fs_alive. unfold persist_range at 1. rewrite pf_alive.
  split; [destruct Hid as [-> _]; reflexivity|]. split; [exact He|].
  intros m. assert (Hsv : surviving m (sync_store (fsync (persist_range s0)) true) = ents (mem s0)).
  { destruct m; cbn [surviving sync_store wr sy]; exact Hw. }
  rewrite Hsv, He, (recover_contig _ _ Hc) by lia. split; [reflexivity|apply (gapfree_contig _ _ Hc)].
Qed.

(* non-vacuity: a Raft-shaped run with a conflict truncation BELOW durable_index (the schedule of the old
   witness gap_run), appends, flush, purge, reset; the hypotheses of the four theorems hold for it *)
Definition demo_run : list label :=
  [ LAppend [E 1 1; E 2 1; E 3 1; E 4 1];
    LFilter 2 1 [E 3 2];
    LAppend [E 4 2; E 5 2; E 6 2];
    LFlush;
    LPurge 2 1;
    LFilter 6 2 [E 7 3];
    LAppend [E 8 3] ].

Ltac lstep :=
  match goal with |- lshaped_run ?s (?l :: ?ls) =>
    let s' := eval vm_compute in (pstep s l) in
    change (lshaped s l /\ lshaped_run s' ls); unfold lshaped, abs; cbn [mem pg_idx pg_term ents] end.
Ltac in_cases :=
  let e := fresh "e" in let H := fresh "H" in
  intros e H; cbn [In pents] in H;
  repeat (destruct H as [<-|H]; [cbn [e_idx e_term E]; lia|]); destruct H.
Ltac s_bounded := apply idx_bounded_forallb; vm_compute; reflexivity.
Ltac shape_lists :=
  split; [vm_compute; repeat split|];
  split; [vm_compute; repeat split; easy|].

Example demo_run_shaped : lshaped_run st0 demo_run.
Proof.
  unfold demo_run, st0.
  lstep. split. { unfold shaped. split; [easy|]. shape_lists. s_bounded. }
  lstep. split. { unfold shaped. shape_lists. split; [s_bounded|]. split; [lia|]. intros [H _]. lia. }
  lstep. split. { unfold shaped. split; [easy|]. shape_lists. s_bounded. }
  lstep. split. { exact Logic.I. }
  lstep. split.
  { unfold shaped. split; [lia|]. split; [cbn [pb_idx]; lia|]. split; [in_cases|].
    split; [vm_compute; easy|]. split; [lia|]. split; in_cases. }
  lstep. split. { unfold shaped. shape_lists. split; [s_bounded|]. split; [lia|]. intros [H _]. lia. }
  lstep. split. { unfold shaped. split; [easy|]. shape_lists. s_bounded. }
  exact Logic.I.
Qed.

Example demo_run_states :
  (* after the truncation at 3 (durable_index was 4): durable_index lowered to 2, fsync watermark at the new tail *)
  (let s := prun (firstn 2 demo_run) st0 in
     durable (mem s) = 2 /\ pmax s = 3 /\ map e_idx (recover (wr s)) = [1; 2; 3] /\ map e_term (recover (wr s)) = [1; 1; 2] /\
     map e_term (recover (sy s)) = [1; 1; 1; 1]) /\
  (* at the end *)
  (let s := prun demo_run st0 in
     durable (mem s) = 8 /\ map e_idx (ents (mem s)) = [3; 4; 5; 6; 7; 8] /\
     recover (wr s) = ents (mem s) /\ recover (sy s) = ents (mem s)) /\
  (* after close() *)
  (let s := pstep (prun demo_run st0) LClose in alive s = false /\ map e_idx (recover (sy s)) = [3; 4; 5; 6; 7; 8]).
Proof. vm_compute. repeat split; reflexivity. Qed.

(* ------------------------------------------------------------------ *)
(* Part 2: HISTORY — the code before 50a24e0 / 14795f4 ([run_old])      *)
(* ------------------------------------------------------------------ *)
(* log 1..10 term 1 durable; the leader of term 2 replaces 6..10 by 6'; 7', 8' follow; flush; close *)
Definition s6_run : list label :=
  [ LAppend (map (fun i => E i 1) [1;2;3;4;5;6;7;8;9;10]); LIoNotify;
    LFilter 5 1 [E 6 2]; LIoCmd;
    LAppend [E 7 2; E 8 2]; LIoNotify;
    LFlush ].

Lemma s6_state_unrepaired :
  let s := run_old s6_run st0 in
  durable (mem s) = 10 /\ bmax (mem s) = 8 /\ queue s = [] /\
  map e_idx (recover (wr s)) = [1;2;3;4;5;6] /\ map e_idx (recover (sy s)) = [1;2;3;4;5;6].
Proof. vm_compute. repeat split; reflexivity. Qed.

(* the same schedule on the code as it is: durable_index is lowered to 5 by the truncation, 6'..8' are written *)
Example s6_state_repaired :
  let s := run s6_run st0 in
  durable (mem s) = 8 /\ bmax (mem s) = 8 /\ queue s = [] /\
  map e_idx (recover (wr s)) = [1;2;3;4;5;6;7;8] /\ map e_idx (recover (sy s)) = [1;2;3;4;5;6;7;8] /\
  recover (wr s) = ents (mem s).
Proof. vm_compute. repeat split; reflexivity. Qed.

(* "contains every entry the log had reported as durable": was refuted, in both crash modes *)
Theorem unrepaired_durable_lost :
  exists ls e, forall m,
    let s := run_old ls st0 in
    In e (ents (mem s)) /\ e_idx e <= durable (mem s) /\ ~ In e (recover (surviving m s)).
Proof.
  exists s6_run, (E 7 2). intros m. cbv zeta. split; [|split].
  - vm_compute. tauto.
  - vm_compute. discriminate.
  - destruct m; vm_compute; intros H; repeat (destruct H as [H|H]; [discriminate H|]); exact H.
Qed.

Theorem unrepaired_durable_lost_over_graceful_close :
  let s := run_old (s6_run ++ [LClose]) st0 in
  alive s = false /\ In (E 8 2) (ents (mem s)) /\ durable_keptb s (recover (wr s)) = false /\
  durable_keptb s (recover (sy s)) = false.
Proof. vm_compute. repeat split; try reflexivity. tauto. Qed.

(* "no index gaps": was refuted *)
Definition gap_run : list label :=
  [ LAppend [E 1 1; E 2 1; E 3 1; E 4 1]; LIoNotify;
    LFilter 2 1 [E 3 2]; LIoCmd;
    LAppend [E 4 2; E 5 2; E 6 2]; LIoNotify; LFlush ].

Theorem unrepaired_gap :
  exists ls, forall m, gapfreeb (recover (surviving m (run_old ls st0))) = false.
Proof. exists gap_run. intros m. destruct m; vm_compute; reflexivity. Qed.

Example gap_run_recovered_unrepaired : map e_idx (recover (wr (run_old gap_run st0))) = [1;2;3;5;6].
Proof. vm_compute. reflexivity. Qed.
Example gap_run_recovered_repaired :
  map e_idx (recover (wr (run gap_run st0))) = [1;2;3;4;5;6] /\ map e_idx (recover (sy (run gap_run st0))) = [1;2;3;4;5;6].
Proof. vm_compute. split; reflexivity. Qed.

(* "never brings back an entry that a truncation had replaced": was refuted for power loss, even though
   flush() returned after the truncation (it short-circuited: durable_index >= max_index) *)
Definition back_run1 : list label := [ LAppend [E 1 1; E 2 1; E 3 1]; LIoNotify ].
Definition back_run2 : list label := [ LFilter 1 1 [E 2 2; E 3 2]; LIoCmd; LFlush ].

Theorem unrepaired_resurrection_power_loss :
  exists ls1 ls2 e,
    In e (ents (mem (run_old ls1 st0))) /\                     (* e was in the log *)
    ~ In e (ents (mem (run_old (ls1 ++ ls2) st0))) /\          (* a conflict truncation replaced it *)
    last ls2 LIoCmd = LFlush /\ queue (run_old (ls1 ++ ls2) st0) = [] /\   (* flush() has returned *)
    In e (recover (surviving PowerLoss (run_old (ls1 ++ ls2) st0))).
Proof.
  exists back_run1, back_run2, (E 2 1). split; [|split; [|split; [|split]]].
  - vm_compute. tauto.
  - vm_compute. intros H; repeat (destruct H as [H|H]; [discriminate H|]); exact H.
  - reflexivity.
  - vm_compute. reflexivity.
  - vm_compute. tauto.
Qed.
Example back_run_repaired :
  let s := run (back_run1 ++ back_run2 ++ [LIoCmd]) st0 in   (* flush() does not short-circuit any more: the IO thread serves it *)
  queue s = [] /\ map e_term (recover (sy s)) = [1; 2; 2] /\ recover (sy s) = ents (mem s).
Proof. vm_compute. repeat split; reflexivity. Qed.

(* 14795f4: Reset on the IO thread did not zero durable_index.  Model-level interleaving (an fsync between
   reset_internal's store(0) and the IO thread's Reset — here the timer arm with an un-fsynced ReplaceRange
   pending; on the real code the in-flight fsync of an append, probe `resetrace`): durable_index is raised
   again after the store(0), the re-appended entries 1, 2 are never written and are reported durable *)
Definition reset_race_run : list label :=
  [ LAppend [E 1 1; E 2 1; E 3 1]; LIoNotify;
    LFilter 1 1 [E 2 2]; LIoCmd;          (* pending_max = 2, not fsynced *)
    LReset;                               (* durable_index.store(0); Reset queued *)
    LIoTimer;                             (* fsync: durable_index.fetch_max(2) *)
    LIoCmd;                               (* Reset handled *)
    LAppend [E 1 3; E 2 3]; LIoNotify; LFlush ].

Theorem unrepaired_reset_stale_durable :
  let s := run_old reset_race_run st0 in
  queue s = [] /\ durable (mem s) = 2 /\ map e_term (ents (mem s)) = [3; 3] /\ recover (wr s) = [] /\
  map e_term (recover (sy s)) = [1; 2].   (* process crash: empty log; power loss: the log from before the reset *)
Proof. vm_compute. repeat split; reflexivity. Qed.
Example reset_race_repaired :
  let s := run reset_race_run st0 in
  queue s = [] /\ durable (mem s) = 2 /\ recover (wr s) = ents (mem s) /\ recover (sy s) = ents (mem s) /\
  map e_term (ents (mem s)) = [3; 3].
Proof. vm_compute. repeat split; reflexivity. Qed.

(* model-only windows that the fixes do not address: an IO arm that runs while the caller is blocked on a
   done channel (not reachable under the probe's schedule; they need the step-wise hook to be replayed) *)
Definition purge_race_run : list label :=
  [ LAppend (map (fun i => E i 1) [1;2;3;4;5]); LIoNotify;
    LAppend (map (fun i => E i 1) [6;7;8;9;10]);      (* permit pending, nothing persisted yet *)
    LPurge 8 1;                                        (* durable := 8, Purge queued *)
    LIoTimer ].                                        (* persists (8,10]; the store still holds 1..5 *)
Theorem purge_race_gap :
  map e_idx (recover (wr (run purge_race_run st0))) = [1;2;3;4;5;9;10] /\
  durable (mem (run purge_race_run st0)) = 10.
Proof. vm_compute. split; reflexivity. Qed.

Definition replace_race_run : list label :=
  [ LAppend [E 1 1; E 2 1; E 3 1]; LIoNotify;
    LAppend [E 4 1; E 5 1; E 6 1; E 7 1; E 8 1];       (* not yet persisted *)
    LFilter 6 1 [E 7 2]; LIoCmd ].                     (* ReplaceRange(7) lands before 4..6 are written *)
Theorem replace_race_window :
  map e_idx (recover (wr (run replace_race_run st0))) = [1;2;3;7] /\
  durable (mem (run replace_race_run st0)) = 3 /\
  (* the window closes with the next IO step: (durable, max] = 4..7 is persisted *)
  map e_idx (recover (wr (run (replace_race_run ++ [LIoNotify]) st0))) = [1;2;3;4;5;6;7].
Proof. vm_compute. repeat split; reflexivity. Qed.

(* ------------------------------------------------------------------ *)
(* Part 3: mechanism, for ALL states (not only the reachable ones)      *)
(* ------------------------------------------------------------------ *)
(* (1) a conflict truncation whose ReplaceRange is handled by the IO task lowers durable_index and the fsync
   watermark below the truncation point (code as it is); before 50a24e0 it left durable_index unchanged *)
Theorem truncation_lowers_durable : forall s prev pterm es d tl,
  filter_act (mem s) prev pterm es = FReplace d tl -> alive s = true -> queue s = [] ->
  let s' := io_cmd (do_filter s prev pterm es) in
  durable (mem s') = N.min (durable (mem s)) (d - 1) /\ queue s' = [] /\
  pmax s' = N.max (N.min (pmax s) (d - 1)) (match last_entry tl with Some e => e_idx e | None => 0 end) /\
  wr s' = s_replace (wr s) d tl /\
  bmax (mem s') = bmax (b_insert (b_remove_range (mem s) d U64MAX) tl).
Proof.
  intros s prev pterm es d tl Hact Hal Hq. cbv zeta. unfold do_filter. rewrite Hact.
  unfold io_cmd, io_cmd_g, send. cbn [with_queue with_mem alive queue mem]. rewrite Hal, Hq. cbn [app].
  unfold handle. cbn [with_queue with_store with_mem mem queue wr pmax set_durable durable bmax].
  rewrite durable_insert. unfold b_remove_range. cbn [durable]. auto.
Qed.

Theorem unrepaired_truncation_keeps_durable : forall s prev pterm es d tl,
  filter_act (mem s) prev pterm es = FReplace d tl -> alive s = true -> queue s = [] ->
  let s' := io_cmd_g handle_old (do_filter s prev pterm es) in
  durable (mem s') = durable (mem s) /\ queue s' = [] /\
  bmax (mem s') = bmax (b_insert (b_remove_range (mem s) d U64MAX) tl).
Proof.
  intros s prev pterm es d tl Hact Hal Hq. cbv zeta. unfold do_filter. rewrite Hact.
  unfold io_cmd_g, send. cbn [with_queue with_mem alive queue mem]. rewrite Hal, Hq. cbn [app].
  unfold handle_old. cbn [with_queue with_store mem queue wr pmax].
  cbn [with_mem mem].
  rewrite durable_insert. unfold b_remove_range. cbn [durable]. auto.
Qed.

(* (2) flush() does nothing at all when durable_index >= max_index *)
Theorem flush_short_circuit_partial : forall s, bmax (mem s) <= durable (mem s) -> do_flush s = s.
Proof.
  intros s H. unfold do_flush. destruct (bmax (mem s) =? 0); [reflexivity|].
  destruct (N.leb_spec (bmax (mem s)) (durable (mem s))) as [_|C]; [reflexivity|lia].
Qed.

(* (3) no arm of the IO task that persists log entries ever writes an entry at or below durable_index *)
Lemma in_ins1 : forall l x e, In e (ins1 l x) -> e = x \/ In e l.
Proof.
  induction l as [|y l IH]; intros x e H; cbn [ins1] in H.
  - destruct H as [H|[]]. left. auto.
  - destruct (e_idx x <? e_idx y).
    + destruct H as [H|H]; [left; auto|right; exact H].
    + destruct (e_idx x =? e_idx y).
      * destruct H as [H|H]; [left; auto|right; right; exact H].
      * destruct H as [H|H]; [right; left; exact H|].
        destruct (IH x e H) as [A|A]; [left; exact A|right; right; exact A].
Qed.
Lemma in_ins_all : forall es l e, In e (ins_all l es) -> In e l \/ In e es.
Proof.
  unfold ins_all. induction es as [|x es IH]; intros l e H; cbn [fold_left] in H.
  - left. exact H.
  - destruct (IH _ _ H) as [A|A].
    + destruct (in_ins1 _ _ _ A) as [B|B]; [right; left; auto|left; exact B].
    + right. right. exact A.
Qed.

Lemma persist_from_writes : forall s lo e, In e (wr (persist_from s lo)) -> In e (wr s) \/ (In e (ents (mem s)) /\ lo <= e_idx e).
Proof.
  intros s lo e H. rewrite pf_wr in H. destruct (lo <=? bmax (mem s)); [|left; exact H].
  destruct (in_ins_all _ _ _ H) as [A|A]; [left; exact A|].
  right. unfold range in A. apply filter_In in A. destruct A as [A1 A2].
  split; [exact A1|]. unfold in_range in A2. lia.
Qed.

Theorem io_never_writes_at_or_below_durable_partial : forall s e,
  queue s = [] ->
  (In e (wr (io_notify s)) \/ In e (wr (io_timer s)) \/ In e (wr (io_cmd (send s TFlush)))) ->
  In e (wr s) \/ (In e (ents (mem s)) /\ durable (mem s) < e_idx e).
Proof.
  intros s e Hq H.
  assert (P : forall s0, mem s0 = mem s -> wr s0 = wr s -> In e (wr (persist_range s0)) ->
              In e (wr s) \/ (In e (ents (mem s)) /\ durable (mem s) < e_idx e)).
  { intros s0 Hm Hw Hin. unfold persist_range in Hin. destruct (persist_from_writes _ _ _ Hin) as [A|[A B]].
    - left. rewrite <- Hw. exact A.
    - right. rewrite <- Hm. split; [exact A|lia]. }
  destruct H as [H|[H|H]].
  - unfold io_notify, io_notify_g in H. destruct (alive s && notified s); [|left; exact H].
    set (s1 := persist_range (with_notified s false)) in *.
    assert (Q1 : queue s1 = []).
    { unfold s1, persist_range. rewrite pf_queue. exact Hq. }
    rewrite Q1 in H. cbn [drain_g] in H. cbn [andb] in H.
    cbn [with_queue] in H. rewrite fs_wr in H. cbn [wr] in H.
    apply (P (with_notified s false)); try reflexivity; exact H.
  - unfold io_timer in H. destruct (alive s); [|left; exact H]. rewrite fs_wr in H. apply (P s); auto.
  - unfold io_cmd, io_cmd_g, send in H. cbn [with_queue alive queue] in H. rewrite Hq in H. cbn [app] in H.
    destruct (alive s); [|left; exact H].
    set (s1 := persist_range _) in H.
    assert (Q1 : queue s1 = []).
    { unfold s1, persist_range. rewrite pf_queue. reflexivity. }
    rewrite Q1 in H. cbn [drain_g] in H. rewrite fs_wr in H. cbn [with_queue wr] in H.
    apply (P (with_queue s [])); try reflexivity. exact H.
Qed.

(* non-vacuity of (1)-(3): the state before / after the truncation of s6_run *)
Example mechanism_nonvacuous :
  let s0 := run [ LAppend (map (fun i => E i 1) [1;2;3;4;5;6;7;8;9;10]); LIoNotify ] st0 in
  let s1 := io_cmd (do_filter s0 5 1 [E 6 2]) in
  filter_act (mem s0) 5 1 [E 6 2] = FReplace 6 [E 6 2] /\ alive s0 = true /\ queue s0 = [] /\
  durable (mem s0) = 10 /\ durable (mem s1) = 5 /\ pmax s1 = 6 /\ bmax (mem s1) = 6 /\
  durable (mem (io_cmd_g handle_old (do_filter s0 5 1 [E 6 2]))) = 10 /\
  (* flush(): short-circuits in s0 (10 <= 10), not in s1 (6 > 5) *)
  do_flush s0 = s0 /\ queue (do_flush s1) = [TFlush] /\
  (* the Flush arm writes entry 6 of term 2 again (index above durable_index = 5) and nothing at or below 5 *)
  map e_idx (wr (io_cmd (send s1 TFlush))) = [1;2;3;4;5;6] /\ durable (mem (io_cmd (send s1 TFlush))) = 6.
Proof. vm_compute. repeat split; reflexivity. Qed.

(* the four theorems instantiated on demo_run (their common hypothesis is satisfiable on a non-trivial run) *)
Example demo_process_crash := process_crash_recovers_log demo_run demo_run_shaped.
Example demo_power_loss := power_loss_keeps_durable demo_run demo_run_shaped.
Example demo_flush := flush_makes_log_durable demo_run demo_run_shaped.
Example demo_close := close_persists_log demo_run demo_run_shaped.

Print Assumptions process_crash_recovers_log.
Print Assumptions flush_makes_log_durable.
Print Assumptions unrepaired_durable_lost.
Print Assumptions io_never_writes_at_or_below_durable_partial.
