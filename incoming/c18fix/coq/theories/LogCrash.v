(* LogCrash — executable model of the persistence side of d-engine-core/src/storage/buffered_raft_log.rs
   *as coded*: the in-memory log is BufLog.buf (imported, not duplicated); this file adds
     - the log store with two layers ([wr] = what a process crash preserves: everything handed to
       persist_entries / truncate / purge / reset;  [sy] = what power loss preserves: the content of
       [wr] at the last LogStore::flush),
     - the IO task batch_processor as explicit steps, one per select! arm:
         io_notify (write_notify arm: persist (durable, max], drain the command channel, catch-up persist
                    for Flush callers, one fsync, durable := fetch_max pending_max),
         io_cmd    (receiver.recv() arm: Shutdown / Flush / handle_non_write_cmd),
         io_timer  (safety timer arm),
       handle_non_write_cmd is [handle] (the code as it is: ReplaceRange lowers pending_max and
       durable_index to truncate_from-1, Reset zeroes durable_index on the IO thread); [handle_old] is
       the same function before the fixes 50a24e0 / 14795f4, kept for the history theorems ([run_old]),
     - the caller side of append_entries, filter_out_conflicts_and_append, purge_logs_up_to, reset,
       flush, close: the memory part runs at the caller label, commands are queued (IOTask channel) and the
       caller is blocked on the done channel until an IO step has consumed the command,
     - crash + recovery (BufferedRaftLog::new over the surviving layer).
   Granularity: a crash happens between steps (an IO arm is one step).  No proofs here. *)
From Coq Require Import NArith List Bool.
From DE Require Import Val BufLog.
Import ListNotations.
Open Scope N_scope.

Definition U64MAX : N := 18446744073709551615.

(* ---------- LogStore (BTreeMap<u64, Entry>) as a list sorted by index ---------- *)
Definition s_persist (s es : list entry) : list entry := ins_all s es.
Definition s_truncate (s : list entry) (from : N) : list entry := filter (fun e => e_idx e <? from) s.
Definition s_purge (s : list entry) (c : N) : list entry := filter (fun e => c <? e_idx e) s.
(* replace_range (default impl / File / RocksDB): truncate, then persist the new entries *)
Definition s_replace (s : list entry) (from : N) (es : list entry) : list entry := s_persist (s_truncate s from) es.

Inductive iotask :=
| TReplace (d : N) (tl : list entry)
| TPurge (c : N)
| TReset
| TFlush
| TShutdown.

Record st := {
  mem : buf;                 (* SkipMap + atomics; [durable (mem s)] is durable_index *)
  wr : list entry;           (* store, written layer *)
  sy : list entry;           (* store, synced layer *)
  queue : list iotask;       (* command channel, oldest first *)
  notified : bool;           (* write_notify permit *)
  pmax : N;                  (* batch_processor's local pending_max *)
  after : list entry;        (* continuation of the caller blocked on a done channel: entries to append *)
  alive : bool               (* IO thread still running *)
}.

Definition st0 : st :=
  {| mem := buf0; wr := []; sy := []; queue := []; notified := false; pmax := 0; after := []; alive := true |}.

Definition set_durable (b : buf) (d : N) : buf :=
  {| ents := ents b; bmin := bmin b; bmax := bmax b; next_id := next_id b; durable := d;
     pg_idx := pg_idx b; pg_term := pg_term b; tfirst := tfirst b; tlast := tlast b; sg := sg b |}.

Definition with_mem (s : st) (b : buf) : st :=
  {| mem := b; wr := wr s; sy := sy s; queue := queue s; notified := notified s; pmax := pmax s; after := after s; alive := alive s |}.
Definition with_store (s : st) (w : list entry) (p : N) : st :=
  {| mem := mem s; wr := w; sy := sy s; queue := queue s; notified := notified s; pmax := p; after := after s; alive := alive s |}.
Definition with_queue (s : st) (q : list iotask) : st :=
  {| mem := mem s; wr := wr s; sy := sy s; queue := q; notified := notified s; pmax := pmax s; after := after s; alive := alive s |}.
Definition with_notified (s : st) (n : bool) : st :=
  {| mem := mem s; wr := wr s; sy := sy s; queue := queue s; notified := n; pmax := pmax s; after := after s; alive := alive s |}.
Definition with_after (s : st) (a : list entry) : st :=
  {| mem := mem s; wr := wr s; sy := sy s; queue := queue s; notified := notified s; pmax := pmax s; after := a; alive := alive s |}.
(* LogStore::flush (+ the thread exits when [stop]) *)
Definition sync_store (s : st) (stop : bool) : st :=
  {| mem := mem s; wr := wr s; sy := wr s; queue := queue s; notified := notified s; pmax := pmax s; after := after s;
     alive := alive s && negb stop |}.

(* ---------- pieces of batch_processor ---------- *)
(* persist the SkipMap range (lo ..= bmax) when it is non-empty; pending_max := max pending_max bmax *)
Definition persist_from (s : st) (lo : N) : st :=
  let hi := bmax (mem s) in
  if lo <=? hi then
    match range (ents (mem s)) lo hi with
    | [] => s
    | es => with_store s (s_persist (wr s) es) (N.max (pmax s) hi)
    end
  else s.
Definition persist_range (s : st) : st := persist_from s (durable (mem s) + 1).

(* advance_durable_after_write pending_max, only when pending_max > 0: flush, fetch_max, pending_max := 0 *)
Definition fsync (s : st) : st :=
  if 0 <? pmax s then
    let s1 := sync_store s false in
    with_store (with_mem s1 (set_durable (mem s1) (N.max (durable (mem s1)) (pmax s1)))) (wr s1) 0
  else s.

(* handle_non_write_cmd, the code as it is now (after 50a24e0 and 14795f4):
     ReplaceRange: replace_range, then  below := truncate_from.saturating_sub(1);
                   pending_max := pending_max.min(below).max(max_idx);  durable_index.fetch_min(below)
     Reset:        reset, pending_max := 0, durable_index.store(0)
   ([N.sub] is the saturating subtraction) *)
Definition handle (c : iotask) (s : st) : st :=
  match c with
  | TReplace d tl =>
      let mx := match last_entry tl with Some e => e_idx e | None => 0 end in
      let below := d - 1 in
      let s1 := with_store s (s_replace (wr s) d tl) (N.max (N.min (pmax s) below) mx) in
      with_mem s1 (set_durable (mem s1) (N.min (durable (mem s1)) below))
  | TPurge c => with_store s (s_purge (wr s) c) (pmax s)
  | TReset => let s1 := with_store s [] 0 in with_mem s1 (set_durable (mem s1) 0)
  | TFlush | TShutdown => s
  end.

(* HISTORY: handle_non_write_cmd before the two fixes.  ReplaceRange kept durable_index and only raised
   pending_max (50a24e0 repaired that); Reset did not touch durable_index on the IO thread (14795f4). *)
Definition handle_old (c : iotask) (s : st) : st :=
  match c with
  | TReplace d tl =>
      let mx := match last_entry tl with Some e => e_idx e | None => 0 end in
      with_store s (s_replace (wr s) d tl) (if 0 <? mx then N.max (pmax s) mx else pmax s)
  | TPurge c => with_store s (s_purge (wr s) c) (pmax s)
  | TReset => with_store s [] 0
  | TFlush | TShutdown => s
  end.

(* ---------- caller side: facts and labels ---------- *)
Inductive fact := FNone | FReset | FAppend (tl : list entry) | FReplace (d : N) (tl : list entry).

(* the branch structure of filter_out_conflicts_and_append (same conditions as BufLog.b_filter_append,
   which computes only the memory effect; proofs/C18.v (filter_act_mem) proves that the two agree) *)
Definition filter_act (b : buf) (prev pterm : N) (es : list entry) : fact :=
  if (prev =? 0) && (pterm =? 0) then FReset
  else match b_entry_term b prev with
  | Some t =>
    if negb (t =? pterm) then FNone else
    let last := bmax b in
    let skip := take_while (fun e => e_idx e <=? last) es in
    let overlap := firstn skip es in
    let tail := skipn skip es in
    let overlap_safe :=
      match overlap with
      | [] => true
      | first :: _ =>
          (sg_ls (sg b) <=? e_idx first) && (e_term first =? sg_lt (sg b)) &&
          match last_entry overlap with Some l => e_term l =? sg_lt (sg b) | None => true end
      end in
    if overlap_safe then
      match tail with [] => FNone | _ => FAppend tail end
    else
      match position (fun e => (last <? e_idx e) ||
                               negb (match b_entry_term b (e_idx e) with Some t' => t' =? e_term e | None => false end)) es with
      | None => FNone
      | Some pos =>
          let tl := skipn pos es in
          let d := match tl with e :: _ => e_idx e | [] => 0 end in
          if d <=? last then FReplace d tl else FAppend tl
      end
  | None => FNone
  end.

(* append_entries: insert_to_memory + notify_one (nothing at all for an empty batch) *)
Definition c_append (s : st) (es : list entry) : st :=
  match es with [] => s | _ => with_notified (with_mem s (b_append (mem s) es)) true end.
Definition send (s : st) (c : iotask) : st := with_queue s (queue s ++ [c]).

Inductive label :=
| LAppend (es : list entry)
| LFilter (prev pterm : N) (es : list entry)
| LPurge (cidx cterm : N)
| LReset
| LFlush
| LClose
| LIoNotify | LIoCmd | LIoTimer.

Definition do_filter (s : st) (prev pterm : N) (es : list entry) : st :=
  match filter_act (mem s) prev pterm es with
  | FNone => s
  | FReset => with_after (send (with_mem s (b_reset (mem s))) TReset) es
  | FAppend tl => c_append s tl
  | FReplace d tl => send (with_mem s (b_insert (b_remove_range (mem s) d U64MAX) tl)) (TReplace d tl)
  end.

Definition do_flush (s : st) : st :=
  if (bmax (mem s) =? 0) || (bmax (mem s) <=? durable (mem s)) then s else send s TFlush.

(* safety timer arm (does not handle commands) *)
Definition io_timer (s : st) : st := if alive s then fsync (persist_range s) else s.

(* everything that dispatches to handle_non_write_cmd, generic in the handler [hnd] so that the code
   before the fixes ([handle_old]) stays available for the history theorems *)
Section Generic.
Variable hnd : iotask -> st -> st.

(* the try_recv drain loop: returns (state, saw a Flush, saw Shutdown, commands left in the channel) *)
Fixpoint drain_g (q : list iotask) (s : st) (fl : bool) : st * bool * bool * list iotask :=
  match q with
  | [] => (s, fl, false, [])
  | TShutdown :: q' => (s, fl, true, q')
  | TFlush :: q' => drain_g q' s true
  | c :: q' => drain_g q' (hnd c s) fl
  end.

(* write_notify arm *)
Definition io_notify_g (s : st) : st :=
  if alive s && notified s then
    let s1 := persist_range (with_notified s false) in
    let '(s2, fl, sd, rest) := drain_g (queue s1) (with_queue s1 []) false in
    let s2 := with_queue s2 rest in
    let s3 := if fl && (pmax s2 <? bmax (mem s2)) then
                (* catch-up persist for Flush callers: (pending_max, max], pending_max := max on success *)
                match range (ents (mem s2)) (pmax s2 + 1) (bmax (mem s2)) with
                | [] => s2
                | es => with_store s2 (s_persist (wr s2) es) (bmax (mem s2))
                end
              else s2 in
    let s4 := fsync s3 in
    if sd then sync_store s4 true else s4
  else s.

(* receiver.recv() arm *)
Definition io_cmd_g (s : st) : st :=
  if alive s then
    match queue s with
    | [] => s
    | TShutdown :: q' => sync_store (fsync (persist_range (with_queue s q'))) true
    | TFlush :: q' =>
        let s1 := persist_range (with_queue s q') in
        let '(s2, _, sd, rest) := drain_g (queue s1) (with_queue s1 []) false in
        let s3 := fsync (with_queue s2 rest) in
        if sd then sync_store s3 true else s3
    | c :: q' => hnd c (with_queue s q')
    end
  else s.

(* the caller is blocked until its command has been consumed; when the schedule gives it the next
   operation without the IO steps in between, the recv arm runs until the channel is empty; then the
   continuation (the append after the awaited Reset of the prev=(0,0) branch) runs *)
Fixpoint force_cmds_g (fuel : nat) (s : st) : st :=
  match fuel with O => s | S f => match queue s with [] => s | _ => force_cmds_g f (io_cmd_g s) end end.
Definition resume_g (s : st) : st :=
  let s1 := force_cmds_g (S (length (queue s))) s in
  match queue s1 with
  | [] => c_append (with_after s1 []) (after s1)
  | _ => s1   (* IO thread gone: the caller's await fails; nothing more happens *)
  end.

Definition exec_g (s : st) (l : label) : st :=
  match l with
  | LIoNotify => io_notify_g s
  | LIoCmd => io_cmd_g s
  | LIoTimer => io_timer s
  | LAppend es => c_append (resume_g s) es
  | LFilter p t es => do_filter (resume_g s) p t es
  | LPurge c t => let s := resume_g s in send (with_mem s (b_purge (mem s) c t)) (TPurge c)
  | LReset => let s := resume_g s in send (with_mem s (b_reset (mem s))) TReset
  | LFlush => do_flush (resume_g s)
  | LClose => let s := send (resume_g s) TShutdown in force_cmds_g (S (length (queue s))) s
  end.

Definition run_g (ls : list label) (s : st) : st := fold_left exec_g ls s.
End Generic.

(* the code as it is *)
Definition drain := drain_g handle.
Definition io_notify := io_notify_g handle.
Definition io_cmd := io_cmd_g handle.
Definition force_cmds := force_cmds_g handle.
Definition resume := resume_g handle.
Definition exec := exec_g handle.
Definition run := run_g handle.
(* HISTORY: the code before 50a24e0 / 14795f4 *)
Definition exec_old := exec_g handle_old.
Definition run_old := run_g handle_old.

(* ---------- crash and recovery ---------- *)
Inductive mode := ProcessCrash | PowerLoss.
Definition surviving (m : mode) (s : st) : list entry := match m with ProcessCrash => wr s | PowerLoss => sy s end.
(* BufferedRaftLog::new: disk_len = last_index(); entries = get_entries(1 ..= disk_len) *)
Definition recover (l : list entry) : list entry :=
  let n := back_idx l in if 0 <? n then range l 1 n else [].

(* ---------- the three parts of the property, executable ---------- *)
Fixpoint gapfreeb (l : list entry) : bool :=
  match l with
  | [] => true
  | e :: l' => match l' with [] => true | e' :: _ => (e_idx e' =? e_idx e + 1) && gapfreeb l' end
  end.
Definition memb (e : entry) (l : list entry) : bool := existsb (entry_eqb e) l.
(* every entry of the live log at or below the reported durable index is in the recovered log *)
Definition durable_keptb (s : st) (rec : list entry) : bool :=
  forallb (fun e => negb (e_idx e <=? durable (mem s)) || memb e rec) (ents (mem s)).

(* ---------- val glue: the schedule the real code follows when the probe lets the IO thread go idle
   after every call (eager IO) ---------- *)
Definition settle (s : st) : st :=
  let s1 := resume s in
  io_notify s1.

Definition label_of_val (v : val) : label :=
  let k := vn (vnth v 0) in
  if k =? 0 then LAppend (map entry_of_val (vl (vnth v 1)))
  else if k =? 1 then LFilter (vn (vnth v 1)) (vn (vnth v 2)) (map entry_of_val (vl (vnth v 3)))
  else if k =? 2 then LPurge (vn (vnth v 1)) (vn (vnth v 2))
  else if k =? 3 then LReset
  else if k =? 4 then LFlush
  else LClose.

Definition observe_crash (kind : N) (s : st) : val :=
  VL [ VN (durable (mem s)); VN (bmax (mem s)); VL (map ventry (ents (mem s)));
       VL (map ventry (recover (wr s)));
       VL (if kind =? 0 then map ventry (recover (sy s)) else []) ].

(* input VL [VN kind; VL ops]; output one observation per op *)
Definition crash_probe (v : val) : val :=
  let kind := vn (vnth v 0) in
  let ops := map label_of_val (vl (vnth v 1)) in
  VL (snd (fold_left (fun acc l =>
             let '(s, outs) := acc in
             let s' := settle (exec s l) in
             (s', outs ++ [observe_crash kind s'])) ops (st0, []))).
