(* LeaderRead — executable model, as coded, of the leader's read paths in raft_role/leader_state.rs:
   lease reads (process_lease_read, pending_lease_reads, drain_pending_lease_reads), linearizable reads
   (noop gate, calculate_read_index, Phase 3 immediate serve, Path A drain in handle_append_result, Path B drain in
   handle_apply_completed), lease renewal (quorum_confirmed + last_heartbeat_send_ts), step-down branches of
   handle_inbound_event (VoteRequest and AppendEntries of a higher term: adopt the term, revoke) / handle_append_result, drain_read_buffer + become_follower.
   Scenario class of the probe: the leader's log is static (entries 1..last-1 of an older term, the noop of the current
   term at index [last]); a success ack reports match = m.
   Ghost data (not in the code): request ids on sends/acks, arrival data on reads, [s_fresh]. No proofs here. *)
From Coq Require Import NArith List Bool.
From DE Require Import Val BufLog.
Import ListNotations.
Open Scope N_scope.

Record lcfg := { k_voters : list N; k_lease : N; k_last : N; k_term0 : N }.

Record pread := { p_id : N; p_ridx : N; p_carr : N; p_gid : N; p_conf : list N }.
(* a finished read: kind 0 lease / 1 linearizable; path 0 rejected, 1 Phase 3, 2 Path A, 3 Path B, 4 lease valid, 5 lease drain *)
Record srec := { s_id : N; s_kind : N; s_ok : bool; s_ridx : N; s_carr : N; s_applied : N; s_path : N; s_fresh : bool }.

Record lc := { q_leader : bool; q_term : N; q_commit : N; q_noop : bool; q_dl : N; q_send : N; q_nsend : N;
               q_applied : N; q_now : N }.
Record lst := { lcs : lc; lmatch : N -> N; please : list (N * N) (* id, ghost send id at arrival *);
                preads : list pread; done : list srec; nextid : N }.

Definition mem (x : N) (l : list N) : bool := existsb (N.eqb x) l.
Definition updm (m : N -> N) (k v : N) : N -> N := fun x => if x =? k then v else m x.
Definition nvoters (c : lcfg) : nat := length (k_voters c) + 1.
Definition maj (c : lcfg) (k : nat) : bool := Nat.ltb (nvoters c) (2 * k).
Definition single (c : lcfg) : bool := match k_voters c with [] => true | _ => false end.

Definition with_core (s : lst) (c : lc) : lst :=
  {| lcs := c; lmatch := lmatch s; please := please s; preads := preads s; done := done s; nextid := nextid s |}.
Definition with_match (s : lst) (m : N -> N) : lst :=
  {| lcs := lcs s; lmatch := m; please := please s; preads := preads s; done := done s; nextid := nextid s |}.
Definition add_done (s : lst) (r : srec) : lst :=
  {| lcs := lcs s; lmatch := lmatch s; please := please s; preads := preads s; done := done s ++ [r]; nextid := nextid s |}.
Definition add_pread (s : lst) (p : pread) : lst :=
  {| lcs := lcs s; lmatch := lmatch s; please := please s; preads := preads s ++ [p]; done := done s; nextid := nextid s |}.
Definition bump (s : lst) : lst :=
  {| lcs := lcs s; lmatch := lmatch s; please := please s; preads := preads s; done := done s; nextid := nextid s + 1 |}.
Definition set_please (s : lst) (l : list (N * N)) : lst :=
  {| lcs := lcs s; lmatch := lmatch s; please := l; preads := preads s; done := done s; nextid := nextid s |}.

Definition lin_rec (c : lcfg) (s : lst) (path : N) (p : pread) : srec :=
  {| s_id := p_id p; s_kind := 1; s_ok := true; s_ridx := p_ridx p; s_carr := p_carr p; s_applied := q_applied (lcs s);
     s_path := path; s_fresh := maj c (length (p_conf p) + 1) |}.
(* move the pending linearizable reads selected by [sel] to [done] *)
Definition serve_where (c : lcfg) (s : lst) (sel : pread -> bool) (path : N) : lst :=
  {| lcs := lcs s; lmatch := lmatch s; please := please s;
     preads := filter (fun p => negb (sel p)) (preads s);
     done := done s ++ map (lin_rec c s path) (filter sel (preads s)); nextid := nextid s |}.
Definition err_rec (id kind : N) : srec :=
  {| s_id := id; s_kind := kind; s_ok := false; s_ridx := 0; s_carr := 0; s_applied := 0; s_path := 0; s_fresh := false |}.
Definition lease_rec (id path : N) (fresh : bool) : srec :=
  {| s_id := id; s_kind := 0; s_ok := true; s_ridx := 0; s_carr := 0; s_applied := 0; s_path := path; s_fresh := fresh |}.
Definition fail_all (s : lst) : lst :=
  {| lcs := lcs s; lmatch := lmatch s; please := []; preads := [];
     done := done s ++ map (fun p => err_rec (p_id p) 1) (preads s) ++ map (fun x => err_rec (fst x) 0) (please s);
     nextid := nextid s |}.
Definition drain_please (s : lst) (fresh_of : N -> bool) : lst :=
  {| lcs := lcs s; lmatch := lmatch s; please := []; preads := preads s;
     done := done s ++ map (fun x => lease_rec (fst x) 5 (fresh_of (snd x))) (please s); nextid := nextid s |}.

Definition set_dl (c : lc) (d : N) : lc :=
  {| q_leader := q_leader c; q_term := q_term c; q_commit := q_commit c; q_noop := q_noop c; q_dl := d; q_send := q_send c;
     q_nsend := q_nsend c; q_applied := q_applied c; q_now := q_now c |}.
Definition set_term_dl (c : lc) (t d : N) : lc :=
  {| q_leader := q_leader c; q_term := t; q_commit := q_commit c; q_noop := q_noop c; q_dl := d; q_send := q_send c;
     q_nsend := q_nsend c; q_applied := q_applied c; q_now := q_now c |}.
Definition do_send (c : lc) : lc :=
  {| q_leader := q_leader c; q_term := q_term c; q_commit := q_commit c; q_noop := q_noop c; q_dl := q_dl c; q_send := q_now c;
     q_nsend := q_nsend c + 1; q_applied := q_applied c; q_now := q_now c |}.
Definition set_commit (c : lc) (n : N) (np : bool) : lc :=
  {| q_leader := q_leader c; q_term := q_term c; q_commit := n; q_noop := np; q_dl := q_dl c; q_send := q_send c;
     q_nsend := q_nsend c; q_applied := q_applied c; q_now := q_now c |}.
Definition set_applied (c : lc) (a : N) : lc :=
  {| q_leader := q_leader c; q_term := q_term c; q_commit := q_commit c; q_noop := q_noop c; q_dl := q_dl c; q_send := q_send c;
     q_nsend := q_nsend c; q_applied := a; q_now := q_now c |}.
Definition set_now (c : lc) (t : N) : lc :=
  {| q_leader := q_leader c; q_term := q_term c; q_commit := q_commit c; q_noop := q_noop c; q_dl := q_dl c; q_send := q_send c;
     q_nsend := q_nsend c; q_applied := q_applied c; q_now := t |}.
Definition set_follower (c : lc) : lc :=
  {| q_leader := false; q_term := q_term c; q_commit := q_commit c; q_noop := q_noop c; q_dl := 0; q_send := q_send c;
     q_nsend := q_nsend c; q_applied := q_applied c; q_now := q_now c |}.

Definition lease_ok (c : lc) : bool := q_now c <? q_dl c.

(* calculate_majority_matched_index on the static log: Some last iff the median reaches [last] *)
Definition median (c : lcfg) (m : N -> N) : N :=
  let ids := sort_desc (map m (k_voters c) ++ [k_last c]) in nth (Nat.div2 (length ids)) ids 0.
Definition quorum_confirmed (c : lcfg) (s : lst) : bool :=
  (median c (lmatch s) =? k_last c) && (q_commit (lcs s) <=? k_last c) && (q_term (lcs s) =? k_term0 c).

Inductive lev :=
| PNow (t : N) | PApplied (i : N)
| PLease | PLin
| PAck (f rterm : N) (ok : bool) (m gid : N)
| PApply (i : N) | PBecome | PInVote | PInAE.

Definition add_conf (f gid : N) (p : pread) : pread :=
  if (p_gid p <=? gid) && negb (mem f (p_conf p)) then
    {| p_id := p_id p; p_ridx := p_ridx p; p_carr := p_carr p; p_gid := p_gid p; p_conf := f :: p_conf p |}
  else p.
Definition map_preads (s : lst) (g : pread -> pread) : lst :=
  {| lcs := lcs s; lmatch := lmatch s; please := please s; preads := map g (preads s); done := done s; nextid := nextid s |}.

Definition lstep (c : lcfg) (s : lst) (e : lev) : lst :=
  let k := lcs s in
  match e with
  | PNow t => with_core s (set_now k t)
  | PApplied i => with_core s (set_applied k i)
  | PLease =>
      let id := nextid s in let s := bump s in
      if negb (q_leader k) then add_done s (err_rec id 0)
      else if lease_ok k then add_done s (lease_rec id 4 true)
      else if single c then add_done (with_core s (set_dl k (q_now k + k_lease c))) (lease_rec id 4 true)
      else set_please (with_core s (do_send k)) (please s ++ [(id, q_nsend k)])
  | PLin =>
      let id := nextid s in let s := bump s in
      if negb (q_leader k) then add_done s (err_rec id 1)
      else
        let k1 := do_send k in let s1 := with_core s k1 in
        if negb (q_noop k) then add_done s1 (err_rec id 1)
        else
          let ridx := N.max (q_commit k) (k_last c) in
          let p := {| p_id := id; p_ridx := ridx; p_carr := q_commit k; p_gid := q_nsend k; p_conf := [] |} in
          if (single c || lease_ok k) && (ridx <=? q_applied k) then
            add_done s1 {| s_id := id; s_kind := 1; s_ok := true; s_ridx := ridx; s_carr := q_commit k; s_applied := q_applied k;
                           s_path := 1; s_fresh := true |}
          else add_pread s1 p
  | PAck f rterm ok m gid =>
      if negb (q_leader k) then s
      else if rterm <? q_term k then s
      else if q_term k <? rterm then with_core s (set_term_dl k rterm 0)
      else if negb ok then s
      else
        let s1 := with_match s (updm (lmatch s) f (N.max (lmatch s f) m)) in
        if negb (mem f (k_voters c)) then s1
        else
          let md := median c (lmatch s1) in
          let k2 := if (md =? k_last c) && (q_term k =? k_term0 c) && (q_commit k <? md)
                    then set_commit k md true else k in
          let s2 := map_preads (with_core s1 k2) (add_conf f gid) in
          if quorum_confirmed c s2 then
            let anchor := if q_send k2 =? 0 then q_now k2 else q_send k2 in
            let s3 := with_core s2 (set_dl k2 (anchor + k_lease c)) in
            let s4 := drain_please s3 (fun g => g <=? gid) in
            serve_where c s4 (fun p => p_ridx p <=? q_applied k2) 2
          else s2
  | PApply i =>
      if negb (q_leader k) then s
      else
        let s1 := with_core s (set_applied k (N.max (q_applied k) i)) in
        serve_where c s1 (fun p => p_ridx p <=? i) 3
  | PBecome => if q_leader k then with_core (fail_all s) (set_follower k) else s
  | PInVote =>
      if q_term k <? k_term0 c + 1 then with_core s (set_term_dl k (k_term0 c + 1) 0) else s
  | PInAE =>
      if q_leader k then (if q_term k <? k_term0 c + 1 then with_core s (set_term_dl k (k_term0 c + 1) 0) else s)
      else with_core s (set_term_dl k (N.max (q_term k) (k_term0 c + 1)) (q_dl k))
  end.
Definition lrun (c : lcfg) (es : list lev) (s : lst) : lst := fold_left (lstep c) es s.

Definition l0 (t applied0 : N) (c : lcfg) : lst :=
  {| lcs := {| q_leader := true; q_term := k_term0 c; q_commit := 0; q_noop := false; q_dl := 0; q_send := t; q_nsend := 1;
               q_applied := applied0; q_now := t |};
     lmatch := fun _ => 0; please := []; preads := []; done := []; nextid := 0 |}.

(* ------------------------------------------------------------------ val glue (probe lease_cluster, all events) *)
Inductive iev := IAck (f rterm : N) (ok : bool) (m gid : N) | IApply (i : N) | IBecome.
Record gl := { g_s : lst; g_q : list iev; g_fterm : N -> N; g_kept : N -> list (N * N) (* (2*response term + success, gid) *);
               g_lastgid : N -> N }.

Definition handle (c : lcfg) (acc : lst * list iev) (e : iev) : lst * list iev :=
  let '(s, q) := acc in
  match e with
  | IAck f rt ok m gid =>
      let s' := lstep c s (PAck f rt ok m gid) in
      (* a higher-term response makes the leader queue BecomeFollower *)
      (s', if q_leader (lcs s) && (q_term (lcs s) <? rt) then q ++ [IBecome] else q)
  | IApply i => (lstep c s (PApply i), q)
  | IBecome => (lstep c s PBecome, q)
  end.
Definition proc_all (c : lcfg) (g : gl) : gl :=
  let '(s, q) := fold_left (handle c) (g_q g) (g_s g, []) in
  {| g_s := s; g_q := q; g_fterm := g_fterm g; g_kept := g_kept g; g_lastgid := g_lastgid g |}.
Definition gset (g : gl) (s : lst) (q : list iev) : gl :=
  {| g_s := s; g_q := q; g_fterm := g_fterm g; g_kept := g_kept g; g_lastgid := g_lastgid g |}.

Definition status_of (d : list srec) (id : N) : N :=
  match find (fun r => s_id r =? id) d with Some r => if s_ok r then 1 else 2 | None => 0 end.
Definition observe (s : lst) (extra : val) : val :=
  let k := lcs s in
  VL [VN (if q_leader k then 3 else 1); VN (q_term k); VN (q_commit k); VN (q_dl k); VN (if q_dl k =? 0 then 0 else 1);
      VL (map (fun i => VN (status_of (done s) (N.of_nat i))) (seq 0 (N.to_nat (nextid s)))); extra].

Definition gstep (c : lcfg) (g : gl) (v : val) : gl * val :=
  let t := vn (vnth v 0) in let kd := vn (vnth v 1) in let a := vn (vnth v 2) in
  let s := lstep c (g_s g) (PNow t) in
  let g := gset g s (g_q g) in
  let cur := q_nsend (lcs s) - 1 in
  if kd =? 0 then let g' := gset g (lstep c s PLease) (g_q g) in (g', observe (g_s g') (VL []))
  else if kd =? 6 then let g' := gset g (lstep c s PLin) (g_q g) in (g', observe (g_s g') (VL []))
  else if kd =? 1 then
    let ft := g_fterm g a in
    let ok := ft <=? q_term (lcs s) in
    (* a leader that already stepped down to follower still has its log; the probe builds the request from verif_view's term *)
    ({| g_s := s; g_q := g_q g; g_fterm := updm (g_fterm g) a (N.max ft (q_term (lcs s)));
        g_kept := fun x => if x =? a then g_kept g a ++ [(2 * N.max ft (q_term (lcs s)) + (if ok then 1 else 0), cur)] else g_kept g x;
        g_lastgid := g_lastgid g |},
     observe s (VL [VN (if ok then 1 else 0); VN (N.max ft (q_term (lcs s)))]))
  else if kd =? 2 then
    match g_kept g a with
    | [] => (g, observe s (VL [VN 0]))
    | (code, gid) :: rest =>
        let g1 := {| g_s := s; g_q := g_q g ++ [IAck a (code / 2) (N.odd code) (k_last c) gid]; g_fterm := g_fterm g;
                     g_kept := fun x => if x =? a then rest else g_kept g x; g_lastgid := updm (g_lastgid g) a gid |} in
        let g2 := proc_all c g1 in (g2, observe (g_s g2) (VL [VN 1]))
    end
  else if kd =? 3 then
    ({| g_s := s; g_q := g_q g; g_fterm := updm (g_fterm g) a (N.max (g_fterm g a) (k_term0 c + 1)); g_kept := g_kept g;
        g_lastgid := g_lastgid g |}, observe s (VL [VN 1]))
  else if kd =? 5 then
    let stepping := q_leader (lcs s) && (q_term (lcs s) <? k_term0 c + 1) in
    let g' := gset g (lstep c s PInVote) (if stepping then g_q g ++ [IBecome] else g_q g) in (g', observe (g_s g') (VL []))
  else if kd =? 8 then
    let stepping := q_leader (lcs s) && (q_term (lcs s) <? k_term0 c + 1) in
    let g' := gset g (lstep c s PInAE) (if stepping then g_q g ++ [IBecome] else g_q g) in (g', observe (g_s g') (VL []))
  else if kd =? 7 then
    let g1 := gset g (lstep c s (PApplied a)) (g_q g ++ [IApply a]) in
    let g2 := proc_all c g1 in (g2, observe (g_s g2) (VL []))
  else if kd =? 9 then let g2 := proc_all c g in (g2, observe (g_s g2) (VL []))
  else if kd =? 10 then
    let g1 := gset g s (g_q g ++ [IAck a (k_term0 c) true (k_last c) (g_lastgid g a)]) in
    let g2 := proc_all c g1 in (g2, observe (g_s g2) (VL []))
  else if kd =? 12 then
    (gset g s (g_q g ++ [IAck a (k_term0 c) true (k_last c) (g_lastgid g a)]), observe s (VL []))
  else (g, observe s (VL [])).

(* input [nf, lease, applied0, t_elect, [[t0, kind, arg]...]]; output one row per event *)
Definition leader_probe (v : val) : val :=
  let nf := vn (vnth v 0) in
  let c := {| k_voters := map (fun i => 2 + N.of_nat i) (seq 0 (N.to_nat nf)); k_lease := vn (vnth v 1); k_last := 5; k_term0 := 3 |} in
  let g0 := {| g_s := l0 (vn (vnth v 3)) (vn (vnth v 2)) c; g_q := []; g_fterm := fun _ => 3; g_kept := fun _ => [];
               g_lastgid := fun _ => 0 |} in
  VL (snd (fold_left (fun acc e => let '(g, outs) := acc in let '(g', o) := gstep c g e in (g', outs ++ [o]))
                     (vl (vnth v 4)) (g0, []))).
