(* Lease — executable models for property C12.
   Part 1 (RL): raft_role/read_lease.rs ReadLease as coded: one 64-bit cell, [63..48] term (16 bits), [47..0] deadline.
   Part 2 (LP): a timed protocol model of one leader term with one challenger, parameterised by the three
   design decisions that make a leader lease safe; the code as it exists corresponds to all flags = false:
     c_withhold      a follower grants a vote only after its own election timer (re-armed at every AppendEntries
                     RECEIPT) has run for emin            (code: election_handler.rs handle_vote_request has no clock input)
     c_anchor_acked  the deadline is send-time-of-the-ACKED-request + lease
                                                          (code: leader_state.rs last_heartbeat_send_ts = latest send of ANY request)
     c_fresh         the quorum is counted over voters whose acked request was sent at/after the anchor
                                                          (code: calculate_majority_matched_index over cumulative match_index)
   No proofs here. *)
From Coq Require Import NArith List Bool.
From DE Require Import Val.
Import ListNotations.
Open Scope N_scope.

(* ------------------------------------------------------------------ Part 1: ReadLease *)
Definition P48 : N := 281474976710656.   (* 2^48 *)
Definition P16 : N := 65536.
Definition M48 : N := 281474976710655.   (* DEADLINE_MASK *)

(* pack: assert!(deadline <= MASK) — None models the panic *)
Definition rl_pack (term dl : N) : option N :=
  if dl <=? M48 then Some ((term mod P16) * P48 + dl) else None.
Definition rl_unpack (v : N) : N * N := (v / P48, v mod P48).

Inductive rl_op :=
| RRenew (term dl : N) | RRevoke | RInvalidate (term : N) | RIsValid (now : N) | RIsValidFor (term now : N).

Definition rl_is_valid (s now : N) : bool := now <? s mod P48.
Definition rl_is_valid_for (s term now : N) : bool := (s / P48 =? term mod P16) && (now <? s mod P48).

(* result codes of the probe: 0/1 query answer, 2 mutation done, 3 panic (state unchanged) *)
Definition rl_step (s : N) (o : rl_op) : N * N :=
  match o with
  | RRenew t d => match rl_pack t d with Some p => (p, 2) | None => (s, 3) end
  | RRevoke => (0, 2)
  | RInvalidate t => match rl_pack t 0 with Some p => (p, 2) | None => (s, 3) end
  | RIsValid now => (s, if rl_is_valid s now then 1 else 0)
  | RIsValidFor t now => (s, if rl_is_valid_for s t now then 1 else 0)
  end.
Definition rl_run (ops : list rl_op) (s : N) : N := fold_left (fun s o => fst (rl_step s o)) ops s.

Definition rl_op_of_val (v : val) : rl_op :=
  let k := vn (vnth v 0) in
  if k =? 0 then RRenew (vn (vnth v 1)) (vn (vnth v 2))
  else if k =? 1 then RRevoke
  else if k =? 2 then RInvalidate (vn (vnth v 1))
  else if k =? 3 then RIsValid (vn (vnth v 1))
  else RIsValidFor (vn (vnth v 1)) (vn (vnth v 2)).

Definition lease_ds_probe (v : val) : val :=
  VL (snd (fold_left (fun acc o => let '(s, outs) := acc in
                                   let '(s', r) := rl_step s (rl_op_of_val o) in (s', outs ++ [VN r]))
                     (vl v) (0, []))).

(* ------------------------------------------------------------------ Part 2: timed protocol *)
Record cfg := {
  c_voters : list N;       (* voting members other than the leader *)
  c_lease : N; c_emin : N;
  c_chal : N;              (* the challenger (one of c_voters) *)
  c_withhold : bool; c_anchor_acked : bool; c_fresh : bool;
  c_block : bool           (* a step-down decision blocks later renewals at once (code: yes, every branch adopts the higher term) *)
}.

Definition upd {A} (m : N -> A) (k : N) (v : A) : N -> A := fun x => if x =? k then v else m x.
Definition memN (x : N) (l : list N) : bool := existsb (N.eqb x) l.
Definition cnt (p : N -> bool) (l : list N) : nat := length (filter p l).

Record pst := {
  now : N;
  sends : list N;            (* ghost: send time of request k = nth k sends *)
  last_send : N;             (* last_heartbeat_send_ts *)
  timer : N -> N;            (* follower: time of the last accepted AppendEntries (election timer re-armed) *)
  got : N -> list N;         (* ghost: requests received and acknowledged by the follower *)
  voted : N -> bool;         (* follower granted its vote to the challenger (term+1) *)
  ack_send : N -> N;         (* leader: newest send time among the acked requests of that follower *)
  ever : N -> bool;          (* leader: match_index of that follower covers the current-term entry *)
  dl : N;                    (* lease deadline, 0 = none *)
  stepped : bool;            (* leader no longer renews (stepped down / term bumped) *)
  lvoted : bool;             (* the old leader's vote may count for the challenger *)
  won : bool                 (* the challenger holds a majority of votes for term+1 *)
}.

Definition p0 : pst :=
  {| now := 0; sends := []; last_send := 0; timer := fun _ => 0; got := fun _ => []; voted := fun _ => false;
     ack_send := fun _ => 0; ever := fun _ => false; dl := 0; stepped := false; lvoted := false; won := false |}.

Inductive pev :=
| Tick (d : N) | Send | Recv (f k : N) | Ack (f k : N) | Vote (f : N)
| LStepVote | LStepAE | LBecome | Win.

Definition majority (c : cfg) (k : nat) : bool := Nat.ltb (length (c_voters c) + 1) (2 * k).

Definition lease_valid (s : pst) : bool := now s <? dl s.

Definition set_now s t := {| now := t; sends := sends s; last_send := last_send s; timer := timer s; got := got s; voted := voted s;
  ack_send := ack_send s; ever := ever s; dl := dl s; stepped := stepped s; lvoted := lvoted s; won := won s |}.
Definition set_dl s d st lv := {| now := now s; sends := sends s; last_send := last_send s; timer := timer s; got := got s; voted := voted s;
  ack_send := ack_send s; ever := ever s; dl := d; stepped := st; lvoted := lv; won := won s |}.

Definition pstep (c : cfg) (s : pst) (e : pev) : pst :=
  match e with
  | Tick d => set_now s (now s + d)
  | Send =>
      if stepped s then s else
      {| now := now s; sends := sends s ++ [now s]; last_send := now s; timer := timer s; got := got s; voted := voted s;
         ack_send := ack_send s; ever := ever s; dl := dl s; stepped := stepped s; lvoted := lvoted s; won := won s |}
  | Recv f k =>
      if memN f (c_voters c) && Nat.ltb (N.to_nat k) (length (sends s)) && negb (voted s f) then
      {| now := now s; sends := sends s; last_send := last_send s; timer := upd (timer s) f (now s);
         got := upd (got s) f (k :: got s f); voted := voted s;
         ack_send := ack_send s; ever := ever s; dl := dl s; stepped := stepped s; lvoted := lvoted s; won := won s |}
      else s
  | Ack f k =>
      if memN f (c_voters c) && memN k (got s f) && negb (stepped s) then
        let a := nth (N.to_nat k) (sends s) 0 in
        let acks := upd (ack_send s) f (N.max (ack_send s f) a) in
        let ev := upd (ever s) f true in
        let quorum := if c_fresh c then majority c (cnt (fun g => a <=? acks g) (c_voters c) + 1)
                      else majority c (cnt ev (c_voters c) + 1) in
        let anchor := if c_anchor_acked c then a else last_send s in
        {| now := now s; sends := sends s; last_send := last_send s; timer := timer s; got := got s; voted := voted s;
           ack_send := acks; ever := ev; dl := if quorum then anchor + c_lease c else dl s;
           stepped := stepped s; lvoted := lvoted s; won := won s |}
      else s
  | Vote f =>
      if memN f (c_voters c) && ((negb (c_withhold c) && negb (f =? c_chal c)) || (timer s f + c_emin c <=? now s)) then
      {| now := now s; sends := sends s; last_send := last_send s; timer := timer s; got := got s; voted := upd (voted s) f true;
         ack_send := ack_send s; ever := ever s; dl := dl s; stepped := stepped s; lvoted := lvoted s; won := won s |}
      else s
  | LStepVote => if voted s (c_chal c) then set_dl s 0 true true else s
  | LStepAE => if won s then set_dl s 0 (c_block c || stepped s) (lvoted s) else s
  | LBecome => set_dl s 0 true (lvoted s)
  | Win =>
      if voted s (c_chal c) && majority c (cnt (voted s) (c_voters c) + (if lvoted s then 1 else 0)) then
      {| now := now s; sends := sends s; last_send := last_send s; timer := timer s; got := got s; voted := voted s;
         ack_send := ack_send s; ever := ever s; dl := dl s; stepped := stepped s; lvoted := lvoted s; won := true |}
      else s
  end.
Definition prun (c : cfg) (es : list pev) (s : pst) : pst := fold_left (pstep c) es s.

Definition ideal (c : cfg) : Prop :=
  c_withhold c = true /\ c_anchor_acked c = true /\ c_fresh c = true /\ c_lease c < c_emin c.
Definition coded (voters : list N) (lease emin chal : N) : cfg :=
  {| c_voters := voters; c_lease := lease; c_emin := emin; c_chal := chal;
     c_withhold := false; c_anchor_acked := false; c_fresh := false; c_block := true |}.

(* ---- val glue: the protocol model with the code's flags against the real leader + real followers
   (probe lease_cluster restricted to the events 0 lease-read, 1 recv, 2 ack, 3 vote, 4 sleep, 5 leader vote request).
   input  [nf, lease, t_init, [[t0, ev...]...]]   (t0 = the clock value the implementation saw for that event)
   output per event [deadline, granted]  *)
Record gst := { g_p : pst; g_kept : N -> list (N * bool) (* responses in flight: (request id, success) *) }.

Definition gstep (c : cfg) (g : gst) (v : val) : gst * val :=
  let t := vn (vnth v 0) in let k := vn (vnth v 1) in let f := vn (vnth v 2) in
  let s := set_now (g_p g) (N.max t (now (g_p g))) in
  let cur := N.of_nat (length (sends s)) - 1 in
  if k =? 0 then
    let s' := if lease_valid s && negb (stepped s) then s else pstep c s Send in
    ({| g_p := s'; g_kept := g_kept g |}, VL [VN (dl s'); VN 0])
  else if k =? 1 then
    let ok := negb (voted s f) in
    ({| g_p := pstep c s (Recv f cur); g_kept := upd (g_kept g) f (g_kept g f ++ [(cur, ok)]) |}, VL [VN (dl s); VN 0])
  else if k =? 2 then
    match g_kept g f with
    | [] => ({| g_p := s; g_kept := g_kept g |}, VL [VN (dl s); VN 0])
    | (r, ok) :: rest =>
        let s' := if ok then pstep c s (Ack f r) else if stepped s then s else set_dl s 0 true (lvoted s) in
        ({| g_p := s'; g_kept := upd (g_kept g) f rest |}, VL [VN (dl s'); VN 0])
    end
  else if k =? 3 then
    let s' := pstep c s (Vote f) in
    ({| g_p := s'; g_kept := g_kept g |}, VL [VN (dl s'); VN (if voted s' f then 1 else 0)])
  else if k =? 5 then
    let s' := if stepped s then s else set_dl s 0 true true in
    ({| g_p := s'; g_kept := g_kept g |}, VL [VN (dl s'); VN 0])
  else ({| g_p := s; g_kept := g_kept g |}, VL [VN (dl s); VN 0]).

Definition proto_probe (v : val) : val :=
  let nf := vn (vnth v 0) in
  let voters := map (fun i => 2 + N.of_nat i) (seq 0 (N.to_nat nf)) in
  let c := coded voters (vn (vnth v 1)) 0 99 in
  let t0 := vn (vnth v 2) in
  (* the election sent the noop round: request 0 at t_init *)
  let s0 := pstep c (set_now p0 t0) Send in
  VL (snd (fold_left (fun acc e => let '(g, outs) := acc in let '(g', o) := gstep c g e in (g', outs ++ [o]))
                     (vl (vnth v 3)) ({| g_p := s0; g_kept := fun _ => [] |}, []))).
