(* C11 — linearizable reads. On the as-coded leader model DE.LeaderRead:
   PROVED for all event sequences: a linearizable read is answered successfully only when
     commit index at arrival <= read index <= last_applied at the moment of serving   (lin_index_sound)
   and only through Phase 3 / Path A / Path B, never while the noop is uncommitted    (lin_paths).
   REFUTED (witnesses, each replayed on the real code by probe lease_cluster): "... and only after a voter majority
   acknowledged a request sent after the read arrived": Path A fires on a stale / duplicate ack, Path B fires on
   apply completion with no ack at all. *)
From Coq Require Import NArith List Bool Lia Arith.
From DE Require Import Val BufLog LeaderRead.
Import ListNotations.
Open Scope N_scope.

Definition okp (p : pread) : Prop := p_carr p <= p_ridx p.
Definition oks (r : srec) : Prop :=
  s_kind r = 1 -> s_ok r = true ->
  s_carr r <= s_ridx r /\ s_ridx r <= s_applied r /\ (s_path r = 1 \/ s_path r = 2 \/ s_path r = 3).
Definition I (s : lst) : Prop := Forall okp (preads s) /\ Forall oks (done s).

Lemma I_core s k : I s -> I (with_core s k).
Proof. intros HI. exact HI. Qed.
Lemma I_match s m : I s -> I (with_match s m).
Proof. intros HI. exact HI. Qed.
Lemma I_bump s : I s -> I (bump s).
Proof. intros HI. exact HI. Qed.
Lemma I_please s l : I s -> I (set_please s l).
Proof. intros HI. exact HI. Qed.
Lemma I_add_done s r : oks r -> I s -> I (add_done s r).
Proof.
  intros Hr [Hp Hd]. split; [exact Hp|]. cbn. apply Forall_app. split; [exact Hd|]. constructor; [exact Hr | constructor].
Qed.
Lemma I_add_pread s p : okp p -> I s -> I (add_pread s p).
Proof.
  intros Hr [Hp Hd]. split; [|exact Hd]. cbn. apply Forall_app. split; [exact Hp|]. constructor; [exact Hr | constructor].
Qed.
Lemma oks_err id kd : oks (err_rec id kd).
Proof. intros _ Hok. cbn in Hok. discriminate. Qed.
Lemma oks_lease id p f : oks (lease_rec id p f).
Proof. intros Hk. cbn in Hk. discriminate. Qed.

Lemma I_fail_all s : I s -> I (fail_all s).
Proof.
  intros [Hp Hd]. split; cbn; [constructor|].
  apply Forall_app. split; [exact Hd|]. apply Forall_app. split; apply Forall_forall; intros r Hin;
    apply in_map_iff in Hin; destruct Hin as (x & <- & _); apply oks_err.
Qed.
Lemma I_drain_please s g : I s -> I (drain_please s g).
Proof.
  intros [Hp Hd]. split; cbn; [exact Hp|].
  apply Forall_app. split; [exact Hd|]. apply Forall_forall. intros r Hin.
  apply in_map_iff in Hin. destruct Hin as (x & <- & _). apply oks_lease.
Qed.
Lemma I_map_conf s f gid : I s -> I (map_preads s (add_conf f gid)).
Proof.
  intros [Hp Hd]. split; cbn; [|exact Hd]. apply Forall_forall. intros p Hin.
  apply in_map_iff in Hin. destruct Hin as (x & <- & Hx). rewrite Forall_forall in Hp. specialize (Hp x Hx).
  unfold add_conf. destruct ((p_gid x <=? gid) && negb (mem f (p_conf x))); exact Hp.
Qed.
Lemma I_serve c s sel path :
  (path = 2 \/ path = 3) -> (forall p, sel p = true -> p_ridx p <= q_applied (lcs s)) -> I s -> I (serve_where c s sel path).
Proof.
  intros Hpath Hsel [Hp Hd]. rewrite Forall_forall in Hp. split; cbn.
  - apply Forall_forall. intros p Hin. apply filter_In in Hin. apply Hp. tauto.
  - apply Forall_app. split; [exact Hd|]. apply Forall_forall. intros r Hin.
    apply in_map_iff in Hin. destruct Hin as (p & <- & Hin). apply filter_In in Hin. destruct Hin as [Hin Hs].
    intros _ _. cbn. split; [apply Hp; exact Hin|]. split; [apply Hsel; exact Hs|]. right. exact Hpath.
Qed.

Lemma I_step c s e : I s -> I (lstep c s e).
Proof.
  intros HI. destruct e as [t|i| | |f rt ok m gid|i| | |]; cbn [lstep].
  - apply I_core. exact HI.
  - apply I_core. exact HI.
  - (* PLease *)
    destruct (negb (q_leader (lcs s))); [apply I_add_done; [apply oks_err | apply I_bump; exact HI]|].
    destruct (lease_ok (lcs s)); [apply I_add_done; [apply oks_lease | apply I_bump; exact HI]|].
    destruct (single c); [apply I_add_done; [apply oks_lease | apply I_core, I_bump; exact HI]|].
    apply I_please, I_core, I_bump. exact HI.
  - (* PLin *)
    destruct (negb (q_leader (lcs s))); [apply I_add_done; [apply oks_err | apply I_bump; exact HI]|].
    destruct (negb (q_noop (lcs s))); [apply I_add_done; [apply oks_err | apply I_core, I_bump; exact HI]|].
    destruct ((single c || lease_ok (lcs s)) && (N.max (q_commit (lcs s)) (k_last c) <=? q_applied (lcs s))) eqn:Hg.
    + apply I_add_done; [|apply I_core, I_bump; exact HI].
      apply andb_true_iff in Hg. destruct Hg as [_ Hle]. apply N.leb_le in Hle.
      intros _ _. cbn. split; [lia|]. split; [exact Hle | left; reflexivity].
    + apply I_add_pread; [|apply I_core, I_bump; exact HI]. unfold okp. cbn. lia.
  - (* PAck *)
    destruct (negb (q_leader (lcs s))); [exact HI|].
    destruct (rt <? q_term (lcs s)); [exact HI|].
    destruct (q_term (lcs s) <? rt); [apply I_core; exact HI|].
    destruct (negb ok); [exact HI|].
    destruct (negb (mem f (k_voters c))); [apply I_match; exact HI|].
    match goal with |- context [quorum_confirmed c ?s2] => destruct (quorum_confirmed c s2) end.
    + apply I_serve.
      * left. reflexivity.
      * intros p Hs. apply N.leb_le in Hs. cbn. destruct ((_ =? _) && _ && _); cbn; exact Hs.
      * apply I_drain_please, I_core, I_map_conf, I_core, I_match. exact HI.
    + apply I_map_conf, I_core, I_match. exact HI.
  - (* PApply *)
    destruct (negb (q_leader (lcs s))); [exact HI|].
    apply I_serve.
    + right. reflexivity.
    + intros p Hs. apply N.leb_le in Hs. cbn. lia.
    + apply I_core. exact HI.
  - destruct (q_leader (lcs s)); [apply I_core, I_fail_all; exact HI | exact HI].
  - destruct (q_term (lcs s) <? k_term0 c + 1); [apply I_core; exact HI | exact HI].
  - destruct (q_leader (lcs s)); [destruct (q_term (lcs s) <? k_term0 c + 1); [apply I_core; exact HI | exact HI]|].
    apply I_core. exact HI.
Qed.

Lemma I_run c es : forall s, I s -> I (lrun c es s).
Proof.
  induction es as [|e es IH]; intros s HI; [exact HI|].
  unfold lrun in *. cbn [fold_left]. apply IH. apply I_step. exact HI.
Qed.

(* for every leader configuration, initial clock / applied index and EVERY sequence of events: each linearizable read
   that was answered successfully had   commit-at-arrival <= read_index <= last_applied-at-serve
   and was served by Phase 3 (1), Path A (2) or Path B (3) *)
Theorem lin_index_sound c t a0 es r :
  In r (done (lrun c es (l0 t a0 c))) -> s_kind r = 1 -> s_ok r = true ->
  s_carr r <= s_ridx r /\ s_ridx r <= s_applied r /\ (s_path r = 1 \/ s_path r = 2 \/ s_path r = 3).
Proof.
  intros Hin. assert (HI : I (lrun c es (l0 t a0 c))) by (apply I_run; split; constructor).
  destruct HI as [_ Hd]. rewrite Forall_forall in Hd. exact (Hd r Hin).
Qed.

Definition cfg3 : lcfg := {| k_voters := [2; 3]; k_lease := 60; k_last := 5; k_term0 := 3 |}.
Definition cfg5 : lcfg := {| k_voters := [2; 3; 4; 5]; k_lease := 60; k_last := 5; k_term0 := 3 |}.
Definition fresh_of (s : lst) (id : N) : option bool :=
  match find (fun r => (s_id r =? id) && s_ok r) (done s) with Some r => Some (s_fresh r) | None => None end.

(* non-vacuity: a read that arrives after the noop committed, with the lease expired, is queued and then served by Path A
   after a fresh ack (ghost request id 1 = the round sent at its arrival) *)
Example lin_nonvacuous :
  let s := lrun cfg3 [PAck 2 3 true 5 0; PApplied 5; PNow 100; PLin; PAck 2 3 true 5 1] (l0 1 0 cfg3) in
  map (fun r => (s_id r, s_ok r, s_path r, s_fresh r)) (done s) = [(0, true, 2, true)].
Proof. vm_compute. reflexivity. Qed.

(* FULL statement (not provable, refuted below):
     forall ..., In r (done ...) -> s_kind r = 1 -> s_ok r = true -> s_fresh r = true
   i.e. "served only after a voter majority acknowledged a request sent at/after the read's arrival (or under a valid lease)". *)
(* Path A on a stale ack: the ack carries ghost id 0 (the election round), the read arrived with round 1 *)
Theorem pathA_stale_ack_refuted :
  fresh_of (lrun cfg3 [PAck 2 3 true 5 0; PApplied 5; PNow 100; PLin; PAck 2 3 true 5 0] (l0 1 0 cfg3)) 0 = Some false.
Proof. vm_compute. reflexivity. Qed.
(* Path A with 5 voters: one fresh ack from a single voter, the quorum is the cumulative match index *)
Theorem pathA_single_fresh_ack_refuted :
  fresh_of (lrun cfg5 [PAck 2 3 true 5 0; PAck 3 3 true 5 0; PApplied 5; PNow 100; PLin; PAck 4 3 true 5 1] (l0 1 0 cfg5)) 0 = Some false.
Proof. vm_compute. reflexivity. Qed.
(* Path B: apply completion serves a read that arrived with the lease expired, with no acknowledgement at all *)
Theorem pathB_no_ack_refuted :
  fresh_of (lrun cfg3 [PAck 2 3 true 5 0; PNow 100; PLin; PApply 5] (l0 1 0 cfg3)) 0 = Some false.
Proof. vm_compute. reflexivity. Qed.
(* step-down: once AppendEntries of a higher term was handled (term adopted, lease revoked) a queued ack of the old
   term is ignored and BecomeFollower fails the queued read *)
Example stepdown_fails_queued_read :
  let s := lrun cfg3 [PAck 2 3 true 5 0; PApplied 5; PNow 100; PLin; PInAE; PAck 2 3 true 5 0; PBecome] (l0 1 0 cfg3) in
  map (fun r => (s_id r, s_ok r)) (done s) = [(0, false)] /\ q_leader (lcs s) = false.
Proof. vm_compute. split; reflexivity. Qed.
