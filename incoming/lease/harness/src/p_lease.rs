//! Probes of the lease / linearizable-read block (C12, C11).
//!
//! `lease_ds`      the real `ReadLease` (packed term+deadline atomic) under an op sequence with explicit clock values.
//!   input  [[op...]...]: [0,term,deadline] renew | [1] revoke | [2,term] invalidate | [3,now] is_valid | [4,term,now] is_valid_for_leader
//!   output per op: 0/1 for the queries, 2 for a mutation, 3 when the call panicked (deadline above 48 bits)
//!
//! `lease_cluster` one real leader (`Raft<SimTC>` taken through BecomeCandidate/BecomeLeader, noop appended) plus real followers
//!   (`Raft<SimTC>` in Follower role); the network is the case: every message is carried by an explicit event.
//!   input  [n_voters_excluding_leader, lease_ms, [event...]] with event =
//!     [0]            leader: client lease read (valid lease -> served; expired -> queued and an empty AppendEntries round is sent:
//!                    this is the real path that stamps last_heartbeat_send_ts)
//!     [1, f]         follower f receives the leader's current AppendEntries (built from the leader's log), its real response is kept
//!     [2, f]         the oldest kept response of follower f reaches the leader (InternalEvent::AppendResult)
//!     [3, f]         follower f receives RequestVote(term+1, candidate = the highest voter id, up-to-date log); output says whether it granted
//!     [4, d]         real time passes: sleep d ms
//!     [5]            leader receives RequestVote(term+1) (steps down)
//!     [6]            leader: client linearizable read
//!     [7, i]         leader: ApplyCompleted(last_index = i) and the state machine reports last_applied = i from now on
//!     [8]            leader receives AppendEntries(term+1) from the highest voter id (inbound only; the queued BecomeFollower is NOT yet processed)
//!     [9]            leader: process pending internal events (BecomeFollower etc.)
//!     [12, f]        like [10, f] but the ack is only queued on the leader's internal channel (processed by a later event)
//!     [10, f]        leader receives a duplicate of the last success ack of f built by hand (match = leader last index, same term)
//!   output: one row for the election (same layout), then per event: [t0, t1, role, term, commit, lease_deadline, lease_term_ok, [read status...], extra]
//!     t0/t1 = now_ms() before/after the event; read status: 0 pending, 1 served ok, 2 error
use crate::sim::*;
use d_engine_core::*;
use d_engine_proto::common::{LogId, NodeStatus};
use d_engine_proto::server::cluster::NodeMeta;
use d_engine_proto::server::election::{VoteRequest, VoteResponse};
use d_engine_proto::server::replication::{append_entries_response, AppendEntriesRequest, AppendEntriesResponse, SuccessResult};
use serde_json::{json, Value};
use std::sync::atomic::{AtomicU64, Ordering};
use std::sync::Arc;

pub fn ds(case: Value) -> Value {
    let lease = ReadLease::new();
    let mut outs = vec![];
    for op in case.as_array().unwrap() {
        let g = |i: usize| op[i].as_u64().unwrap();
        let r = std::panic::catch_unwind(std::panic::AssertUnwindSafe(|| match g(0) {
            0 => {
                lease.renew(g(1), g(2));
                2
            }
            1 => {
                lease.revoke();
                2
            }
            2 => {
                lease.invalidate(g(1));
                2
            }
            3 => lease.is_valid(g(1)) as u64,
            _ => lease.is_valid_for_leader(g(1), g(2)) as u64,
        }));
        outs.push(json!(r.unwrap_or(3)));
    }
    Value::Array(outs)
}

type RdRx = MaybeCloneOneshotReceiver<std::result::Result<ClientResponse, tonic::Status>>;

fn meta(id: u32) -> NodeMeta {
    NodeMeta { id, address: format!("127.0.0.1:{}", 9000 + id), role: 1, status: NodeStatus::Active as i32 }
}

struct Node {
    raft: Raft<SimTC>,
    log: Arc<BufferedRaftLog<SimTC>>,
    itx: tokio::sync::mpsc::UnboundedSender<InternalEvent>,
}

fn mk_node(rt: &tokio::runtime::Runtime, id: u32, term: u64, es: &[d_engine_proto::common::Entry], peers: &[u32], lease_ms: u64, applied: Arc<AtomicU64>) -> Node {
    let engine = Arc::new(SimEngine::default());
    let log = new_buflog(engine);
    if !es.is_empty() {
        rt.block_on(log.append_entries(es.to_vec())).unwrap();
    }
    let mut cfg = base_config();
    cfg.raft.read_consistency.lease_duration_ms = lease_ms;
    cfg.raft.read_consistency.allow_client_override = true;
    cfg.raft.general_raft_timeout_duration_in_ms = 60_000;
    let cfg = Arc::new(cfg);
    let hs = HardState { current_term: term, voted_for: None };
    let role = RaftRole::Follower(Box::new(follower_state::FollowerState::<SimTC>::new(id, cfg.clone(), Some(hs), None)));
    let (etx, erx) = tokio::sync::mpsc::channel(1024);
    let (ctx_, crx) = tokio::sync::mpsc::channel(1024);
    let (itx, irx) = tokio::sync::mpsc::unbounded_channel();
    let (_stx, srx) = tokio::sync::watch::channel(());
    std::mem::forget(_stx);
    let sp = SignalParams::new(itx.clone(), irx, etx, erx, ctx_, crx, srx);
    let mut sm = MockStateMachine::new();
    let a2 = applied.clone();
    sm.expect_last_applied().returning(move || LogId { term: 0, index: a2.load(Ordering::SeqCst) });
    sm.expect_snapshot_metadata().returning(|| None);
    let storage = RaftStorageHandles { raft_log: log.clone(), state_machine: Arc::new(sm) };
    let mut smh = MockStateMachineHandler::<SimTC>::new();
    smh.expect_read_from_state_machine().returning(|_| Some(vec![]));
    smh.expect_should_snapshot().returning(|_| false);
    let handlers = RaftCoreHandlers {
        election_handler: ElectionHandler::new(id),
        replication_handler: ReplicationHandler::new(id),
        state_machine_handler: Arc::new(smh),
        purge_executor: Arc::new(MockPurgeExecutor::new()),
    };
    let mut mm = MockMembership::<SimTC>::new();
    let vm: Vec<NodeMeta> = peers.iter().map(|p| meta(*p)).collect();
    let v1 = vm.clone();
    mm.expect_voters().returning(move || v1.clone());
    let v2 = vm.clone();
    mm.expect_replication_peers().returning(move || v2.clone());
    let ids: Vec<u32> = peers.to_vec();
    mm.expect_get_peers_id_with_condition().returning(move |_| ids.clone());
    let single = peers.is_empty();
    mm.expect_is_single_node_cluster().returning(move || single);
    mm.expect_get_cluster_conf_version().returning(|| 1);
    let mut tr = MockTransport::<SimTC>::new();
    tr.expect_open_replication_stream().returning(|_, _, _| Err(Error::Fatal("sim: no network".into())));
    let raft = Raft::<SimTC>::new(id, role, storage, tr, handlers, Arc::new(mm), sp, cfg);
    Node { raft, log, itx }
}

fn lease_deadline(l: &ReadLease) -> u64 {
    // is_valid(now) <=> deadline > now; the deadline is the least now with is_valid(now) = false
    if !l.is_valid(0) {
        return 0;
    }
    let (mut lo, mut hi) = (0u64, (1u64 << 48) - 1); // is_valid(lo) = true, is_valid(hi) = false (deadline <= 2^48-1)
    while hi - lo > 1 {
        let mid = lo + (hi - lo) / 2;
        if l.is_valid(mid) {
            lo = mid
        } else {
            hi = mid
        }
    }
    hi
}

fn fresh_ms() -> u64 {
    let a = now_ms();
    loop {
        let b = now_ms();
        if b != a {
            return b;
        }
        std::hint::spin_loop();
    }
}

static WARM: std::sync::Once = std::sync::Once::new();

pub fn cluster(rt: &tokio::runtime::Runtime, case: Value) -> Value {
    // first-use initialisation (statics, allocator, metrics) costs several ms: do it once on a throw-away cluster
    WARM.call_once(|| {
        let _ = cluster_inner(rt, json!([2, 50, [[0], [1, 2], [2, 2], [6], [3, 2], [7, 5], [10, 2], [8], [9]], 5]));
    });
    cluster_inner(rt, case)
}

fn cluster_inner(rt: &tokio::runtime::Runtime, case: Value) -> Value {
    let nf = case[0].as_u64().unwrap() as u32;
    let lease_ms = case[1].as_u64().unwrap();
    let term = 3u64;
    let es: Vec<_> = (1..=4u64).map(|i| mk_entry(i, 2, i)).collect();
    let peers: Vec<u32> = (2..2 + nf).collect();
    let applied = Arc::new(AtomicU64::new(case[3].as_u64().unwrap_or(0)));
    let mut leader = mk_node(rt, 1, term, &es, &peers, lease_ms, applied.clone());
    let mut fol: Vec<Node> = peers
        .iter()
        .map(|p| {
            let others: Vec<u32> = std::iter::once(1u32).chain(peers.iter().cloned().filter(|q| q != p)).collect();
            mk_node(rt, *p, term, &es, &others, lease_ms, Arc::new(AtomicU64::new(0)))
        })
        .collect();
    let chal: u32 = peers.last().copied().unwrap_or(99);
    let mut kept: Vec<std::collections::VecDeque<AppendEntriesResponse>> = peers.iter().map(|_| Default::default()).collect();
    let mut reads: Vec<(RdRx, u64)> = vec![];
    let mut outs = vec![];
    // election of node 1 through the real transitions
    let te0 = fresh_ms();
    rt.block_on(async {
        let _ = leader.itx.send(InternalEvent::BecomeCandidate);
        let _ = leader.itx.send(InternalEvent::BecomeLeader);
        let _ = leader.raft.verif_process_internal().await;
    });
    let te1 = now_ms();
    let lease = leader.raft.read_lease();
    {
        let (role, lt, commit, _) = leader.raft.verif_view();
        outs.push(json!([te0, te1, role, lt, commit, lease_deadline(&lease), 0, [], []]));
    }
    let read_cmd = |policy: ReadConsistencyPolicy| {
        let (tx, rx) = <MaybeCloneOneshot as RaftOneshot<std::result::Result<ClientResponse, tonic::Status>>>::new();
        (ClientCmd::Read(ClientReadRequest { client_id: 7, keys: vec![bytes::Bytes::from_static(b"k")], consistency_policy: Some(policy) }, tx), rx)
    };
    for ev in case[2].as_array().unwrap() {
        let k = ev[0].as_u64().unwrap();
        let arg = ev[1].as_u64().unwrap_or(0);
        let mut extra = json!([]);
        let t0 = if k == 4 { now_ms() } else { fresh_ms() };
        match k {
            0 | 6 => {
                let (cmd, rx) = read_cmd(if k == 0 { ReadConsistencyPolicy::LeaseRead } else { ReadConsistencyPolicy::LinearizableRead });
                let _ = rt.block_on(leader.raft.verif_client_cmd(cmd));
                reads.push((rx, 0));
            }
            1 => {
                let i = (arg - 2) as usize;
                let last = leader.log.last_entry_id();
                let (_, lterm, lcommit, _) = leader.raft.verif_view();
                let prev = last - 1;
                let pterm = leader.log.entry(prev).ok().flatten().map(|e| e.term).unwrap_or(0);
                let ent = leader.log.entry(last).ok().flatten().unwrap();
                let req = AppendEntriesRequest { term: lterm, leader_id: 1, prev_log_index: prev, prev_log_term: pterm, entries: vec![ent], leader_commit_index: lcommit };
                let (tx, mut rx) = <MaybeCloneOneshot as RaftOneshot<std::result::Result<AppendEntriesResponse, tonic::Status>>>::new();
                let _ = rt.block_on(fol[i].raft.verif_process_inbound(vec![InboundEvent::AppendEntries(req, vec![tx])]));
                let _ = rt.block_on(fol[i].raft.verif_process_internal());
                match rx.try_recv() {
                    Ok(Ok(r)) => {
                        extra = json!([matches!(r.result, Some(append_entries_response::Result::Success(_))) as u64, r.term]);
                        kept[i].push_back(r);
                    }
                    _ => extra = json!([9, 0]),
                }
            }
            2 => {
                let i = (arg - 2) as usize;
                if let Some(r) = kept[i].pop_front() {
                    let _ = leader.itx.send(InternalEvent::AppendResult { follower_id: arg as u32, result: Ok(r) });
                    let _ = rt.block_on(leader.raft.verif_process_internal());
                    extra = json!([1]);
                } else {
                    extra = json!([0]);
                }
            }
            3 => {
                let i = (arg - 2) as usize;
                let last = leader.log.last_entry_id();
                let req = VoteRequest { term: term + 1, candidate_id: chal, last_log_index: last, last_log_term: term };
                let (tx, mut rx) = <MaybeCloneOneshot as RaftOneshot<std::result::Result<VoteResponse, tonic::Status>>>::new();
                let _ = rt.block_on(fol[i].raft.verif_process_inbound(vec![InboundEvent::ReceiveVoteRequest(req, tx)]));
                let _ = rt.block_on(fol[i].raft.verif_process_internal());
                extra = match rx.try_recv() {
                    Ok(Ok(r)) => json!([r.vote_granted as u64]),
                    _ => json!([9]),
                };
            }
            4 => {
                std::thread::sleep(std::time::Duration::from_millis(arg));
            }
            5 => {
                let last = leader.log.last_entry_id();
                let req = VoteRequest { term: term + 1, candidate_id: chal, last_log_index: last, last_log_term: term };
                let (tx, _rx) = <MaybeCloneOneshot as RaftOneshot<std::result::Result<VoteResponse, tonic::Status>>>::new();
                let _ = rt.block_on(leader.raft.verif_process_inbound(vec![InboundEvent::ReceiveVoteRequest(req, tx)]));
            }
            7 => {
                applied.store(arg, Ordering::SeqCst);
                let _ = leader.itx.send(InternalEvent::ApplyCompleted { last_index: arg, results: vec![] });
                let _ = rt.block_on(leader.raft.verif_process_internal());
            }
            8 => {
                let last = leader.log.last_entry_id();
                let req = AppendEntriesRequest { term: term + 1, leader_id: chal, prev_log_index: last, prev_log_term: term, entries: vec![], leader_commit_index: 0 };
                let (tx, _rx) = <MaybeCloneOneshot as RaftOneshot<std::result::Result<AppendEntriesResponse, tonic::Status>>>::new();
                let _ = rt.block_on(leader.raft.verif_process_inbound(vec![InboundEvent::AppendEntries(req, vec![tx])]));
            }
            9 => {
                let _ = rt.block_on(leader.raft.verif_process_internal());
            }
            12 => {
                let last = leader.log.last_entry_id();
                let r = AppendEntriesResponse { node_id: arg as u32, term, result: Some(append_entries_response::Result::Success(SuccessResult { last_match: Some(LogId { index: last, term }) })) };
                let _ = leader.itx.send(InternalEvent::AppendResult { follower_id: arg as u32, result: Ok(r) });
            }
            _ => {
                let last = leader.log.last_entry_id();
                let r = AppendEntriesResponse { node_id: arg as u32, term, result: Some(append_entries_response::Result::Success(SuccessResult { last_match: Some(LogId { index: last, term }) })) };
                let _ = leader.itx.send(InternalEvent::AppendResult { follower_id: arg as u32, result: Ok(r) });
                let _ = rt.block_on(leader.raft.verif_process_internal());
            }
        }
        let t1 = now_ms();
        for (rx, st) in reads.iter_mut() {
            if *st == 0 {
                *st = match rx.try_recv() {
                    Ok(Ok(r)) => if r.error == ErrorCode::Success { 1 } else { 2 },
                    Ok(Err(_)) => 2,
                    Err(_) => 0,
                };
            }
        }
        let (role, lt, commit, _) = leader.raft.verif_view();
        let dl = lease_deadline(&lease);
        let tok = if dl > 0 { lease.is_valid_for_leader(lt, dl - 1) as u64 } else { 0 };
        let rs: Vec<u64> = reads.iter().map(|(_, s)| *s).collect();
        outs.push(json!([t0, t1, role, lt, commit, dl, tok, rs, extra]));
    }
    rt.block_on(leader.log.close());
    for f in fol.drain(..) {
        rt.block_on(f.log.close());
    }
    Value::Array(outs)
}
