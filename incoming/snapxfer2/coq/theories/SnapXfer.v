(* SnapXfer — executable model of the follower side of a snapshot transfer as coded:
     d-engine-core/src/state_machine_handler/snapshot_assembler.rs
        SnapshotAssembler::new         open(create, write, truncate) of <dir>/temp-snapshot.part.tar.gz
        write_chunk                    index must equal expected_index; received_chunks += 1; write_all; expected += 1
        finalize                       metadata.last_included must be present; flush_to_disk() = flush() + sync_all()
                                       (the sync_all was added by the fix of finding rename-without-sync); rename(temp, final)
     d-engine-core/src/state_machine_handler/default_state_machine_handler.rs
        process_snapshot_stream        per chunk: leader (term, id) fixed by the first chunk; the first chunk must carry
                                       metadata and fixes total_chunks; CRC32 of the data must equal chunk_checksum;
                                       write_chunk; ACK.  Channel closed: received == total, metadata, finalize.
                                       Receive timeout: Failed ACK, error.
        apply_snapshot_stream_from_leader   process_snapshot_stream; decompress_to_directory (validate_compressed_format,
                                       gunzip, untar into a tempdir outside the snapshot directory);
                                       state_machine.apply_snapshot_from_file
   The `current_term` argument of apply_snapshot_stream_from_leader is only logged, never compared.
   Nothing on an error path removes the temporary assembly file.
   Storage is explicit: the run of a stream yields a list of storage steps [sop] (create-truncate / write / sync / rename);
   the visible directory is the replay of the steps; a process crash leaves the replay of a prefix; a power loss leaves a
   lossy replay of a prefix (two layers: written vs synced).
   Assumptions of the model: the snapshot directory holds plain files only (no directory named like the temp or final file),
   I/O calls succeed, streams are shorter than 2^32 chunks (u32 counters do not wrap).
   No proofs here. *)
From Coq Require Import NArith List Bool.
From DE Require Import Val.
Import ListNotations.
Open Scope N_scope.

Definition bytes := list N.

Fixpoint bytes_eqb (a b : bytes) : bool :=
  match a, b with
  | [], [] => true
  | x :: a', y :: b' => (x =? y) && bytes_eqb a' b'
  | _, _ => false
  end.

(* ---------------------------------------------------------------- the snapshot directory *)
Inductive fname :=
| FTemp                       (* temp-snapshot.part.tar.gz *)
| FFinal (idx term : N)       (* <prefix><idx>-<term>.tar.gz *)
| FOther (n : N).             (* anything else living in the directory *)

Definition fname_eqb (a b : fname) : bool :=
  match a, b with
  | FTemp, FTemp => true
  | FFinal i t, FFinal j u => (i =? j) && (t =? u)
  | FOther n, FOther m => n =? m
  | _, _ => false
  end.

Definition dir := list (fname * bytes).

Fixpoint dget (d : dir) (f : fname) : option bytes :=
  match d with
  | [] => None
  | (g, b) :: d' => if fname_eqb g f then Some b else dget d' f
  end.
Fixpoint dremove (d : dir) (f : fname) : dir :=
  match d with
  | [] => []
  | (g, b) :: d' => if fname_eqb g f then dremove d' f else (g, b) :: dremove d' f
  end.
Definition dset (d : dir) (f : fname) (b : bytes) : dir := (f, b) :: dremove d f.

(* ---------------------------------------------------------------- chunks, events, receiver state *)
Definition logid := (N * N)%type.           (* (index, term) *)
Record chunk := {
  c_term : N; c_leader : N; c_seq : N; c_total : N;
  c_meta : option (option logid);            (* None: no metadata; Some None: metadata without last_included *)
  c_data : bytes; c_ck : bytes
}.
Inductive event := EChunk (c : chunk) | ETimeout.   (* end of the list = the sender closed the channel *)

Definition ack := (N * N * N)%type.          (* (seq, status, next_requested); status 1 Accepted 2 ChecksumMismatch 3 OutOfOrder 5 Failed *)

Record rst := {
  r_tc : option (N * N);                     (* term_check *)
  r_meta : option (option logid);            (* captured_metadata *)
  r_total : N;                               (* total_chunks.unwrap_or(0) *)
  r_expected : N;                            (* assembler.expected_index *)
  r_received : N;                            (* assembler.received_chunks *)
  r_writes : list bytes                      (* data handed to write_all, oldest first *)
}.
Definition rst0 : rst := {| r_tc := None; r_meta := None; r_total := 0; r_expected := 0; r_received := 0; r_writes := [] |}.

Inductive stepres := SCont (s : rst) (a : ack) | SFail (s : rst) (a : option ack).

Section WithChecksum.
Variable ck : bytes -> bytes.                (* crc32fast::hash(data).to_be_bytes() *)

Definition step (s : rst) (c : chunk) : stepres :=
  let leader_ok := match r_tc s with
                   | Some (t, l) => (c_term c =? t) && (c_leader c =? l)
                   | None => true
                   end in
  if negb leader_ok then SFail s (Some (c_seq c, 3, 0))
  else
    let s1 := match r_tc s with
              | Some _ => s
              | None => {| r_tc := Some (c_term c, c_leader c); r_meta := c_meta c; r_total := c_total c;
                           r_expected := r_expected s; r_received := r_received s; r_writes := r_writes s |}
              end in
    match r_tc s, c_meta c with
    | None, None => SFail s1 (Some (c_seq c, 5, 0))
    | _, _ =>
        if negb (bytes_eqb (ck (c_data c)) (c_ck c)) then SFail s1 (Some (c_seq c, 2, c_seq c))
        else if negb (c_seq c =? r_expected s1) then SFail s1 None
        else SCont {| r_tc := r_tc s1; r_meta := r_meta s1; r_total := r_total s1;
                      r_expected := r_expected s1 + 1; r_received := r_received s1 + 1;
                      r_writes := r_writes s1 ++ [c_data c] |}
                   (c_seq c, 1, c_seq c + 1)
    end.

(* the receive loop: (channel closed normally?, state, acks) *)
Fixpoint run (evs : list event) (s : rst) (acks : list ack) : bool * rst * list ack :=
  match evs with
  | [] => (true, s, acks)
  | ETimeout :: _ => (false, s, acks ++ [(0, 5, 0)])
  | EChunk c :: r =>
      match step s c with
      | SCont s' a => run r s' (acks ++ [a])
      | SFail s' a => (false, s', acks ++ match a with Some x => [x] | None => [] end)
      end
  end.

(* after the loop: count check, metadata, finalize's own metadata check *)
Definition finish (s : rst) (acks : list ack) : option logid * list ack :=
  if r_received s =? r_total s then
    match r_meta s with
    | Some (Some li) => (Some li, acks)
    | _ => (None, acks)
    end
  else (None, acks ++ [(r_received s, 5, 0)]).

Definition outcome_of (evs : list event) : option logid * rst * list ack :=
  let '(closed, s, acks) := run evs rst0 [] in
  if closed then let '(o, a) := finish s acks in (o, s, a) else (None, s, acks).

(* specification predicate used by the theorems: the chunks are exactly chunks 0..n-1 of one (leader, term), in order, with
   valid checksums, n is the total announced by the first chunk, which also carries the metadata with last_included = li *)
Definition exact_stream (cs : list chunk) (li : logid) : Prop :=
  match cs with
  | [] => False
  | c0 :: _ =>
      c_meta c0 = Some (Some li) /\ c_total c0 = N.of_nat (length cs) /\
      forall i c, nth_error cs i = Some c ->
        c_seq c = N.of_nat i /\ c_term c = c_term c0 /\ c_leader c = c_leader c0 /\ ck (c_data c) = c_ck c
  end.

(* ---------------------------------------------------------------- storage steps *)
Inductive sop :=
| OCreate (f : fname)                        (* open(create, truncate) *)
| OWrite (f : fname) (b : bytes)             (* append *)
| OSync (f : fname)                          (* sync_all *)
| ORename (f g : fname).

Definition vis_step (d : dir) (o : sop) : dir :=
  match o with
  | OCreate f => dset d f []
  | OWrite f b => match dget d f with Some old => dset d f (old ++ b) | None => d end
  | OSync _ => d
  | ORename f g => match dget d f with Some b => dset (dremove d f) g b | None => d end
  end.
Definition vis_run (ops : list sop) (d : dir) : dir := fold_left vis_step ops d.

(* the storage steps of one stream, as coded: sync_all of the temp file between flush and rename *)
Definition trace (evs : list event) : list sop :=
  let '(o, s, _) := outcome_of evs in
  OCreate FTemp :: map (OWrite FTemp) (r_writes s)
    ++ match o with Some (i, t) => [OSync FTemp; ORename FTemp (FFinal i t)] | None => [] end.
(* HISTORY: the storage steps of the code before the fix (finalize renamed after flush() only, no OSync anywhere) *)
Definition trace_prev (evs : list event) : list sop :=
  let '(o, s, _) := outcome_of evs in
  OCreate FTemp :: map (OWrite FTemp) (r_writes s)
    ++ match o with Some (i, t) => [ORename FTemp (FFinal i t)] | None => [] end.

(* process_snapshot_stream: result, directory afterwards, acks *)
Definition process (evs : list event) (d : dir) : option logid * dir * list ack :=
  let '(o, _, acks) := outcome_of evs in (o, vis_run (trace evs) d, acks).

(* ---------------------------------------------------------------- power loss (two layers) *)
(* A lossy replay: [k] namespace steps (create-truncate, rename) reach the disk, in order, later ones and everything after
   them are lost; of the bytes written (all traces here write one file) only the first [cut] are on the disk; a sync step that
   was executed forbids an earlier loss ([None] = this combination cannot happen). *)
Fixpoint ploss (k cut : nat) (lost : bool) (ops : list sop) (d : dir) : option dir :=
  match ops with
  | [] => Some d
  | OCreate f :: r => match k with O => Some d | S k' => ploss k' cut lost r (dset d f []) end
  | ORename f g :: r =>
      match k with
      | O => Some d
      | S k' => ploss k' cut lost r (match dget d f with Some b => dset (dremove d f) g b | None => d end)
      end
  | OWrite f b :: r =>
      let keep := firstn cut b in
      let lost' := lost || (Nat.ltb cut (length b)) in
      ploss k (cut - length b) lost' r (match dget d f with Some old => dset d f (old ++ keep) | None => d end)
  | OSync f :: r => if lost then None else ploss k cut lost r d
  end.
(* all directories a power loss can leave when it strikes after the first p steps were issued *)
Definition power_outcome (ops : list sop) (d d' : dir) : Prop :=
  exists p k cut, ploss k cut false (firstn p ops) d = Some d'.

(* ---------------------------------------------------------------- apply_snapshot_stream_from_leader *)
Variable dec : bytes -> option bytes.        (* decompress_to_directory: Some payload iff the file is an acceptable archive *)

Definition smstate := option (logid * bytes).  (* what apply_snapshot_from_file was last given *)

(* sm_ok: whether the state machine's apply_snapshot_from_file succeeds *)
Definition apply_stream (sm_ok : bool) (evs : list event) (d : dir) (sm : smstate) : bool * dir * smstate * list ack :=
  let '(o, d', acks) := process evs d in
  match o with
  | Some (i, t) =>
      match dget d' (FFinal i t) with
      | Some file =>
          match dec file with
          | Some payload => if sm_ok then (true, d', Some ((i, t), payload), acks) else (false, d', sm, acks)
          | None => (false, d', sm, acks)
          end
      | None => (false, d', sm, acks)
      end
  | None => (false, d', sm, acks)
  end.
End WithChecksum.

(* ---------------------------------------------------------------- CRC-32 (IEEE, reflected) for the glue *)
Definition crc_poly : N := 3988292384.       (* 0xEDB88320 *)
Definition crc_bit (c : N) : N := if N.testbit c 0 then N.lxor (N.shiftr c 1) crc_poly else N.shiftr c 1.
Definition crc_byte (c b : N) : N :=
  let c := N.lxor c b in crc_bit (crc_bit (crc_bit (crc_bit (crc_bit (crc_bit (crc_bit (crc_bit c))))))).
Definition crc32 (b : bytes) : N := N.lxor (fold_left crc_byte b 4294967295) 4294967295.
Definition crc32_be (b : bytes) : bytes :=
  let c := crc32 b in
  [N.shiftr c 24; N.land (N.shiftr c 16) 255; N.land (N.shiftr c 8) 255; N.land c 255].

(* ---------------------------------------------------------------- val glue *)
(* names: [0] temp, [1,i,t] final, [2,n] other *)
Definition fname_of_val (v : val) : fname :=
  let k := vn (vnth v 0) in
  if k =? 0 then FTemp else if k =? 1 then FFinal (vn (vnth v 1)) (vn (vnth v 2)) else FOther (vn (vnth v 1)).
Definition val_of_fname (f : fname) : val :=
  match f with FTemp => VL [VN 0] | FFinal i t => VL [VN 1; VN i; VN t] | FOther n => VL [VN 2; VN n] end.
(* chunk: [term, leader, seq, total, meta, data, checksum]  meta: [] none | [[]] without last_included | [[i,t]] *)
Definition meta_of_val (v : val) : option (option logid) :=
  match vl v with
  | [] => None
  | m :: _ => match vl m with i :: t :: _ => Some (Some (vn i, vn t)) | _ => Some None end
  end.
Definition chunk_of_val (v : val) : chunk :=
  {| c_term := vn (vnth v 0); c_leader := vn (vnth v 1); c_seq := vn (vnth v 2); c_total := vn (vnth v 3);
     c_meta := meta_of_val (vnth v 4); c_data := vnl (vnth v 5); c_ck := vnl (vnth v 6) |}.
(* event: [0, chunk] | [1] timeout *)
Definition event_of_val (v : val) : event :=
  if vn (vnth v 0) =? 0 then EChunk (chunk_of_val (vnth v 1)) else ETimeout.
Definition dir_of_val (v : val) : dir :=
  fold_left (fun d e => dset d (fname_of_val (vnth e 0)) (vnl (vnth e 1))) (vl v) [].
Definition lookup_arch (tbl : list (bytes * bytes)) (b : bytes) : option bytes :=
  match find (fun p => bytes_eqb (fst p) b) tbl with Some p => Some (snd p) | None => None end.
Definition vobytes (o : option bytes) : val := match o with Some b => VL [vns b] | None => VL [] end.
Definition val_of_ack (a : ack) : val := let '(s, st, n) := a in VL [VN s; VN st; VN n].
Definition val_of_sm (s : smstate) : val :=
  match s with Some ((i, t), p) => VL [VL [VN i; VN t; vns p]] | None => VL [] end.

(* the names looked up in the outputs: temp, the initial names, every final name announced by a chunk *)
Definition universe (d0 : val) (evs : list event) : list fname :=
  FTemp :: map (fun e => fname_of_val (vnth e 0)) (vl d0)
    ++ flat_map (fun e => match e with
                          | EChunk c => match c_meta c with Some (Some (i, t)) => [FFinal i t] | _ => [] end
                          | ETimeout => [] end) evs.

(* input: [initial dir [[name, bytes]..], events, archives [[file bytes, payload bytes]..], sm_ok]
   output: [ok, [content? per universe name], sm, acks] *)
Definition xfer_probe (v : val) : val :=
  let d0 := dir_of_val (vnth v 0) in
  let evs := map event_of_val (vl (vnth v 1)) in
  let tbl := map (fun e => (vnl (vnth e 0), vnl (vnth e 1))) (vl (vnth v 2)) in
  let '(ok, d', sm, acks) := apply_stream crc32_be (lookup_arch tbl) (vbool (vnth v 3)) evs d0 None in
  VL [vb ok; VL (map (fun f => vobytes (dget d' f)) (universe (vnth v 0) evs)); val_of_sm sm; VL (map val_of_ack acks)].

(* storage trace observed by strace: [[0] create temp, [1, total bytes written to temp], [2] sync of temp (repeated), [3, i, t] rename] *)
Definition val_of_trace (ops : list sop) : val :=
  let creates := length (filter (fun o => match o with OCreate FTemp => true | _ => false end) ops) in
  let written := fold_left (fun n o => match o with OWrite FTemp b => n + N.of_nat (length b) | _ => n end) ops 0 in
  let syncs := length (filter (fun o => match o with OSync _ => true | _ => false end) ops) in
  let renames := flat_map (fun o => match o with ORename FTemp (FFinal i t) => [VL [VN i; VN t]] | _ => [] end) ops in
  VL [VN (N.of_nat creates); VN written; VN (N.of_nat syncs); VL renames].
Definition xfer_trace_probe (v : val) : val :=
  val_of_trace (trace crc32_be (map event_of_val (vl (vnth v 1)))).
