(* Proofs for C17 — snapshot transfers are all-or-nothing (model DE.SnapXfer). *)
From Coq Require Import NArith PeanoNat List Bool Lia.
From DE Require Import Val SnapXfer.
Import ListNotations.
Open Scope N_scope.

(* ---------------------------------------------------------------- equality tests *)
Lemma bytes_eqb_eq a b : bytes_eqb a b = true <-> a = b.
Proof.
  revert b; induction a as [|x a IH]; intros [|y b]; cbn; split; intro H; try discriminate; try reflexivity.
  - apply andb_true_iff in H as [H1 H2]. apply N.eqb_eq in H1. apply IH in H2. subst; reflexivity.
  - inversion H; subst. rewrite N.eqb_refl. cbn. apply IH. reflexivity.
Qed.

Lemma fname_eqb_eq a b : fname_eqb a b = true <-> a = b.
Proof.
  destruct a, b; cbn; split; intro H; try discriminate; try reflexivity.
  - apply andb_true_iff in H as [H1 H2]. apply N.eqb_eq in H1, H2. subst; reflexivity.
  - inversion H; subst. rewrite !N.eqb_refl. reflexivity.
  - apply N.eqb_eq in H; subst; reflexivity.
  - inversion H; subst. apply N.eqb_refl.
Qed.
Lemma fname_eqb_refl a : fname_eqb a a = true.
Proof. apply fname_eqb_eq; reflexivity. Qed.
Lemma fname_eqb_neq a b : a <> b -> fname_eqb a b = false.
Proof. intro H. destruct (fname_eqb a b) eqn:E; [apply fname_eqb_eq in E; contradiction | reflexivity]. Qed.
Lemma fname_eqb_sym a b : fname_eqb a b = fname_eqb b a.
Proof.
  destruct (fname_eqb a b) eqn:E.
  - apply fname_eqb_eq in E; subst. symmetry; apply fname_eqb_refl.
  - destruct (fname_eqb b a) eqn:E2; [|reflexivity]. apply fname_eqb_eq in E2; subst. rewrite fname_eqb_refl in E; discriminate.
Qed.

(* ---------------------------------------------------------------- directories as finite maps *)
Local Arguments fname_eqb : simpl never.

Lemma dget_dremove d f g : dget (dremove d f) g = if fname_eqb f g then None else dget d g.
Proof.
  induction d as [|[h b] d IH]; cbn.
  - destruct (fname_eqb f g); reflexivity.
  - destruct (fname_eqb h f) eqn:E1.
    + rewrite IH. apply fname_eqb_eq in E1; subst h. destruct (fname_eqb f g); reflexivity.
    + cbn. rewrite IH. destruct (fname_eqb h g) eqn:E2; [|reflexivity].
      apply fname_eqb_eq in E2; subst h. rewrite fname_eqb_sym, E1. reflexivity.
Qed.
Lemma dget_dset d f b g : dget (dset d f b) g = if fname_eqb f g then Some b else dget d g.
Proof. unfold dset; cbn. destruct (fname_eqb f g) eqn:E; [reflexivity|]. rewrite dget_dremove, E. reflexivity. Qed.

Definition fmap := fname -> option bytes.
Definition fstep (m : fmap) (o : sop) : fmap := fun g =>
  match o with
  | OCreate f => if fname_eqb f g then Some [] else m g
  | OWrite f b => match m f with Some old => if fname_eqb f g then Some (old ++ b) else m g | None => m g end
  | OSync _ => m g
  | ORename f h => match m f with
                   | Some b => if fname_eqb h g then Some b else if fname_eqb f g then None else m g
                   | None => m g
                   end
  end.
Definition frun (ops : list sop) (m : fmap) : fmap := fold_left fstep ops m.

Lemma fstep_ext m1 m2 o : (forall g, m1 g = m2 g) -> forall g, fstep m1 o g = fstep m2 o g.
Proof. intros H g. destruct o; cbn; rewrite ?H; reflexivity. Qed.
Lemma frun_ext ops : forall m1 m2, (forall g, m1 g = m2 g) -> forall g, frun ops m1 g = frun ops m2 g.
Proof.
  induction ops as [|o ops IH]; intros m1 m2 H g; cbn; [apply H|].
  apply IH. apply fstep_ext. exact H.
Qed.
Lemma dget_vis_step d o g : dget (vis_step d o) g = fstep (dget d) o g.
Proof.
  destruct o as [f|f b|f|f h]; cbn.
  - apply dget_dset.
  - destruct (dget d f) as [old|]; [apply dget_dset | reflexivity].
  - reflexivity.
  - destruct (dget d f) as [b|]; [|reflexivity]. rewrite dget_dset, dget_dremove. reflexivity.
Qed.
Lemma dget_vis_run ops : forall d g, dget (vis_run ops d) g = frun ops (dget d) g.
Proof.
  induction ops as [|o ops IH]; intros d g; cbn; [reflexivity|].
  unfold vis_run in IH. rewrite IH. apply frun_ext. intro g'. apply dget_vis_step.
Qed.

Lemma frun_app a b m : frun (a ++ b) m = frun b (frun a m).
Proof. apply fold_left_app. Qed.

Lemma frun_writes ws : forall m old, m FTemp = Some old ->
  forall g, frun (map (OWrite FTemp) ws) m g = if fname_eqb FTemp g then Some (old ++ concat ws) else m g.
Proof.
  induction ws as [|w ws IH]; intros m old H g; cbn.
  - rewrite app_nil_r. destruct (fname_eqb FTemp g) eqn:E; [apply fname_eqb_eq in E; subst; exact H | reflexivity].
  - unfold frun in IH. rewrite (IH (fstep m (OWrite FTemp w)) (old ++ w)).
    + destruct (fname_eqb FTemp g) eqn:E; [rewrite app_assoc; reflexivity|].
      cbn. rewrite H, E. reflexivity.
    + cbn. rewrite H. reflexivity.
Qed.

(* only the temp file is touched by create/write steps on it *)
Definition temp_only (o : sop) : Prop := match o with OCreate FTemp | OWrite FTemp _ | OSync _ => True | _ => False end.
Lemma frun_temp_only ops : Forall temp_only ops -> forall m g, g <> FTemp -> frun ops m g = m g.
Proof.
  induction 1 as [|o ops Ho _ IH]; intros m g Hg; cbn; [reflexivity|].
  unfold frun in IH. rewrite IH by exact Hg.
  assert (E : fname_eqb FTemp g = false) by (apply fname_eqb_neq; congruence).
  destruct o as [f|f b|f|f h]; cbn in *; try reflexivity.
  - destruct f; try contradiction. rewrite E. reflexivity.
  - destruct f; try contradiction. destruct (m FTemp); [rewrite E|]; reflexivity.
  - contradiction.
Qed.
Lemma Forall_firstn {A} (P : A -> Prop) n l : Forall P l -> Forall P (firstn n l).
Proof. intro H. revert n. induction H as [|x l Hx _ IH]; intros [|n]; cbn; constructor; auto. Qed.

(* ---------------------------------------------------------------- one chunk *)
Lemma step_cont ck s c s' a : step ck s c = SCont s' a ->
  ck (c_data c) = c_ck c /\ c_seq c = r_expected s /\
  r_expected s' = r_expected s + 1 /\ r_received s' = r_received s + 1 /\ r_writes s' = r_writes s ++ [c_data c] /\
  match r_tc s with
  | Some (t, l) => c_term c = t /\ c_leader c = l /\ r_tc s' = Some (t, l) /\ r_meta s' = r_meta s /\ r_total s' = r_total s
  | None => r_tc s' = Some (c_term c, c_leader c) /\ r_meta s' = c_meta c /\ c_meta c <> None /\ r_total s' = c_total c
  end.
Proof.
  unfold step. destruct (r_tc s) as [[t l]|] eqn:Etc.
  - destruct ((c_term c =? t) && (c_leader c =? l)) eqn:El; cbn [negb]; [|discriminate].
    apply andb_true_iff in El as [E1 E2]. apply N.eqb_eq in E1, E2.
    assert (G : (if negb (bytes_eqb (ck (c_data c)) (c_ck c)) then SFail s (Some (c_seq c, 2, c_seq c))
                 else if negb (c_seq c =? r_expected s) then SFail s None
                 else SCont {| r_tc := r_tc s; r_meta := r_meta s; r_total := r_total s; r_expected := r_expected s + 1;
                               r_received := r_received s + 1; r_writes := r_writes s ++ [c_data c] |} (c_seq c, 1, c_seq c + 1))
                = SCont s' a ->
                ck (c_data c) = c_ck c /\ c_seq c = r_expected s /\ r_expected s' = r_expected s + 1 /\
                r_received s' = r_received s + 1 /\ r_writes s' = r_writes s ++ [c_data c] /\
                c_term c = t /\ c_leader c = l /\ r_tc s' = Some (t, l) /\ r_meta s' = r_meta s /\ r_total s' = r_total s).
    { destruct (bytes_eqb (ck (c_data c)) (c_ck c)) eqn:Eb; cbn [negb]; [|discriminate].
      destruct (c_seq c =? r_expected s) eqn:Es; cbn [negb]; [|discriminate].
      intro H; inversion H; subst; cbn. apply bytes_eqb_eq in Eb. apply N.eqb_eq in Es. rewrite Etc. repeat split; auto. }
    destruct (c_meta c); exact G.
  - cbn [negb]. destruct (c_meta c) as [m|] eqn:Em; [|discriminate]. cbn.
    destruct (bytes_eqb (ck (c_data c)) (c_ck c)) eqn:Eb; cbn [negb]; [|discriminate].
    destruct (c_seq c =? r_expected s) eqn:Es; cbn [negb]; [|discriminate].
    intro H; inversion H; subst; cbn. apply bytes_eqb_eq in Eb. apply N.eqb_eq in Es. repeat split; auto. discriminate.
Qed.

(* the converse: a chunk that passes every test is accepted *)
Lemma step_accepts ck s c :
  ck (c_data c) = c_ck c -> c_seq c = r_expected s ->
  match r_tc s with Some (t, l) => c_term c = t /\ c_leader c = l | None => c_meta c <> None end ->
  exists s' a, step ck s c = SCont s' a.
Proof.
  intros Hck Hseq Htc. unfold step. destruct (r_tc s) as [[t l]|] eqn:Etc.
  - destruct Htc as [-> ->]. rewrite !N.eqb_refl. cbn [andb negb].
    assert (Eb : bytes_eqb (ck (c_data c)) (c_ck c) = true) by (apply bytes_eqb_eq; exact Hck).
    rewrite Eb, Hseq, N.eqb_refl. cbn [negb]. destruct (c_meta c); eexists; eexists; reflexivity.
  - cbn [negb]. destruct (c_meta c) as [m|]; [|contradiction]. cbn.
    assert (Eb : bytes_eqb (ck (c_data c)) (c_ck c) = true) by (apply bytes_eqb_eq; exact Hck).
    rewrite Eb, Hseq, N.eqb_refl. cbn [negb]. eexists; eexists; reflexivity.
Qed.

(* ---------------------------------------------------------------- the receive loop *)
Fixpoint steps (ck : bytes -> bytes) (s : rst) (cs : list chunk) (s' : rst) : Prop :=
  match cs with
  | [] => s' = s
  | c :: r => exists s1 a, step ck s c = SCont s1 a /\ steps ck s1 r s'
  end.

Lemma run_closed ck evs : forall s acks s' acks',
  run ck evs s acks = (true, s', acks') -> exists cs, evs = map EChunk cs /\ steps ck s cs s'.
Proof.
  induction evs as [|e evs IH]; intros s acks s' acks' H; cbn in H.
  - inversion H; subst. exists []. split; reflexivity.
  - destruct e as [c|]; [|discriminate].
    destruct (step ck s c) as [s1 a|s1 a] eqn:E; [|discriminate].
    apply IH in H as (cs & -> & Hs). exists (c :: cs). split; [reflexivity|]. cbn. exists s1, a. auto.
Qed.

Lemma steps_run ck cs : forall s s' acks, steps ck s cs s' -> exists acks', run ck (map EChunk cs) s acks = (true, s', acks').
Proof.
  induction cs as [|c cs IH]; intros s s' acks H; cbn in *.
  - subst. eexists; reflexivity.
  - destruct H as (s1 & a & E & H). rewrite E. apply IH. exact H.
Qed.

Lemma steps_started ck cs : forall s s' t l, r_tc s = Some (t, l) -> steps ck s cs s' ->
  r_tc s' = Some (t, l) /\ r_meta s' = r_meta s /\ r_total s' = r_total s /\
  r_expected s' = r_expected s + N.of_nat (length cs) /\ r_received s' = r_received s + N.of_nat (length cs) /\
  r_writes s' = r_writes s ++ map c_data cs /\
  forall i c, nth_error cs i = Some c ->
    c_seq c = r_expected s + N.of_nat i /\ c_term c = t /\ c_leader c = l /\ ck (c_data c) = c_ck c.
Proof.
  induction cs as [|c0 cs IH]; intros s s' t l Htc H; cbn [steps] in H.
  - subst s'. cbn. rewrite !N.add_0_r, app_nil_r. repeat split; auto; destruct i; discriminate.
  - destruct H as (s1 & a & E & H). apply step_cont in E. rewrite Htc in E.
    destruct E as (Hck & Hseq & He & Hr & Hw & Ht & Hl & Htc1 & Hm & Htot).
    destruct (IH _ _ _ _ Htc1 H) as (A1 & A2 & A3 & A4 & A5 & A6 & A7).
    cbn [length map]. rewrite Nat2N.inj_succ.
    repeat split; try congruence; try lia.
    + rewrite A6, Hw, <- app_assoc. reflexivity.
    + destruct i as [|i]; cbn in H0.
      * inversion H0; subst. cbn. lia.
      * apply A7 in H0. rewrite Nat2N.inj_succ. lia.
    + destruct i as [|i]; cbn in H0; [inversion H0; subst; auto | apply A7 in H0; tauto].
    + destruct i as [|i]; cbn in H0; [inversion H0; subst; auto | apply A7 in H0; tauto].
    + destruct i as [|i]; cbn in H0; [inversion H0; subst; auto | apply A7 in H0; tauto].
Qed.

(* ---------------------------------------------------------------- a successful stream is an exact stream *)
Lemma outcome_some ck evs li s acks : outcome_of ck evs = (Some li, s, acks) ->
  exists cs, evs = map EChunk cs /\ exact_stream ck cs li /\ r_writes s = map c_data cs.
Proof.
  unfold outcome_of. destruct (run ck evs rst0 []) as [[closed s0] a0] eqn:R.
  destruct closed; [|discriminate].
  unfold finish. destruct (r_received s0 =? r_total s0) eqn:Ec; [|discriminate].
  destruct (r_meta s0) as [[li'|]|] eqn:Em; try discriminate.
  intro H; injection H as H1 H2 H3; subst li' s0 a0.
  apply N.eqb_eq in Ec.
  apply run_closed in R as (cs & -> & Hs). exists cs. split; [reflexivity|].
  destruct cs as [|c0 cs]; cbn [steps] in Hs.
  - subst s. cbn in Em. discriminate.
  - destruct Hs as (s1 & a & E & Hs). apply step_cont in E. cbn in E.
    destruct E as (Hck & Hseq & He & Hr & Hw & Htc1 & Hm & Hmn & Htot).
    destruct (steps_started ck cs s1 s _ _ Htc1 Hs) as (A1 & A2 & A3 & A4 & A5 & A6 & A7).
    split.
    + cbn [exact_stream]. split; [congruence|]. split.
      * cbn [length]. rewrite Nat2N.inj_succ. lia.
      * intros i c Hn. destruct i as [|i]; cbn in Hn.
        -- inversion Hn; subst c. repeat split; auto.
        -- apply A7 in Hn. rewrite Nat2N.inj_succ. repeat split; try tauto. lia.
    + rewrite A6, Hw. reflexivity.
Qed.

Lemma exact_steps_started ck cs : forall s t l, r_tc s = Some (t, l) ->
  (forall i c, nth_error cs i = Some c ->
     c_seq c = r_expected s + N.of_nat i /\ c_term c = t /\ c_leader c = l /\ ck (c_data c) = c_ck c) ->
  exists s', steps ck s cs s'.
Proof.
  induction cs as [|c0 cs IH]; intros s t l Htc H; cbn [steps].
  - eexists; reflexivity.
  - destruct (H 0%nat c0 eq_refl) as (Hs & Ht & Hl & Hck). cbn in Hs. rewrite N.add_0_r in Hs.
    destruct (step_accepts ck s c0 Hck Hs) as (s1 & a & E); [rewrite Htc; auto|].
    pose proof (step_cont _ _ _ _ _ E) as F. rewrite Htc in F.
    destruct F as (_ & _ & He & _ & _ & _ & _ & Htc1 & _ & _).
    destruct (IH s1 t l Htc1) as (s' & Hs').
    + intros i c Hn. specialize (H (S i) c Hn). rewrite Nat2N.inj_succ in H. repeat split; try tauto. lia.
    + exists s', s1, a. auto.
Qed.

Theorem exact_stream_completes ck cs li d : exact_stream ck cs li ->
  exists d' acks, process ck (map EChunk cs) d = (Some li, d', acks).
Proof.
  intro H. destruct cs as [|c0 cs]; [contradiction|]. destruct H as (Hm & Htot & Hall).
  destruct (Hall 0%nat c0 eq_refl) as (Hs0 & _ & _ & Hck0). cbn in Hs0.
  destruct (step_accepts ck rst0 c0 Hck0 Hs0) as (s1 & a & E); [cbn; congruence|].
  pose proof (step_cont _ _ _ _ _ E) as F. cbn in F.
  destruct F as (_ & _ & He & Hr & Hw & Htc1 & Hm1 & _ & Htot1).
  destruct (exact_steps_started ck cs s1 _ _ Htc1) as (s' & Hs').
  { intros i c Hn. specialize (Hall (S i) c Hn). rewrite Nat2N.inj_succ in Hall. repeat split; try tauto. lia. }
  destruct (steps_started ck cs s1 s' _ _ Htc1 Hs') as (A1 & A2 & A3 & A4 & A5 & A6 & A7).
  assert (S0 : steps ck rst0 (c0 :: cs) s') by (cbn [steps]; exists s1, a; auto).
  destruct (steps_run ck _ _ _ [] S0) as (acks' & R).
  unfold process, outcome_of. rewrite R. unfold finish.
  assert (Ec : r_received s' =? r_total s' = true).
  { apply N.eqb_eq. cbn [length] in Htot. rewrite Nat2N.inj_succ in Htot. lia. }
  rewrite Ec. replace (r_meta s') with (Some (Some li)) by congruence.
  eexists; eexists; reflexivity.
Qed.

(* ---------------------------------------------------------------- the directory after a stream *)
Lemma frun_trace ws tail m g :
  frun (OCreate FTemp :: map (OWrite FTemp) ws ++ tail) m g
  = frun tail (fun g => if fname_eqb FTemp g then Some (concat ws) else m g) g.
Proof.
  unfold frun. cbn [fold_left]. rewrite fold_left_app. apply frun_ext. intro g'.
  fold (frun (map (OWrite FTemp) ws) (fstep m (OCreate FTemp))).
  rewrite (frun_writes ws (fstep m (OCreate FTemp)) []).
  - cbn. destruct (fname_eqb FTemp g'); reflexivity.
  - cbn. rewrite fname_eqb_refl. reflexivity.
Qed.

Lemma final_map ws i t m g :
  frun (OCreate FTemp :: map (OWrite FTemp) ws ++ [OSync FTemp; ORename FTemp (FFinal i t)]) m g
  = if fname_eqb (FFinal i t) g then Some (concat ws) else if fname_eqb FTemp g then None else m g.
Proof.
  rewrite frun_trace. cbn. rewrite fname_eqb_refl.
  destruct (fname_eqb (FFinal i t) g); [reflexivity|]. destruct (fname_eqb FTemp g); reflexivity.
Qed.

Theorem installed_only_if ck evs d li d' acks : process ck evs d = (Some li, d', acks) ->
  exists cs, evs = map EChunk cs /\ exact_stream ck cs li /\
    dget d' (FFinal (fst li) (snd li)) = Some (concat (map c_data cs)) /\ dget d' FTemp = None /\
    forall f, f <> FTemp -> f <> FFinal (fst li) (snd li) -> dget d' f = dget d f.
Proof.
  unfold process. destruct (outcome_of ck evs) as [[o s] a] eqn:O.
  intro H; injection H as H1 H2 H3; subst o a. 
  destruct (outcome_some _ _ _ _ _ O) as (cs & Hev & Hex & Hw). exists cs. split; [exact Hev|]. split; [exact Hex|].
  subst d'. unfold trace. rewrite O. destruct li as [i t]. cbn [fst snd].
  repeat split.
  - rewrite dget_vis_run, final_map, fname_eqb_refl, Hw. reflexivity.
  - rewrite dget_vis_run, final_map, fname_eqb_refl. reflexivity.
  - intros f Hf1 Hf2. rewrite dget_vis_run, final_map.
    rewrite (fname_eqb_neq (FFinal i t) f) by congruence. rewrite (fname_eqb_neq FTemp f) by congruence. reflexivity.
Qed.

Theorem failed_untouched ck evs d d' acks : process ck evs d = (None, d', acks) ->
  forall f, f <> FTemp -> dget d' f = dget d f.
Proof.
  unfold process. destruct (outcome_of ck evs) as [[o s] a] eqn:O.
  intro H; injection H as H1 H2 H3; subst o a d'. intros f Hf.
  unfold trace. rewrite O. rewrite dget_vis_run, frun_trace. cbn.
  rewrite (fname_eqb_neq FTemp f) by congruence. reflexivity.
Qed.

(* ---------------------------------------------------------------- apply_snapshot_stream_from_leader *)
Theorem apply_installed_only_if ck dec sm_ok evs d sm ok d' sm' acks :
  apply_stream ck dec sm_ok evs d sm = (ok, d', sm', acks) ->
  ok = true \/ sm' <> sm ->
  exists cs li p, evs = map EChunk cs /\ exact_stream ck cs li /\
    dget d' (FFinal (fst li) (snd li)) = Some (concat (map c_data cs)) /\
    dec (concat (map c_data cs)) = Some p /\ sm' = Some (li, p) /\ ok = true.
Proof.
  unfold apply_stream. destruct (process ck evs d) as [[o d1] a1] eqn:P.
  destruct o as [[i t]|].
  - destruct (installed_only_if _ _ _ _ _ _ P) as (cs & Hev & Hex & Hf & _). cbn [fst snd] in Hf.
    rewrite Hf. destruct (dec (concat (map c_data cs))) as [p|] eqn:D.
    + destruct sm_ok; intro H; injection H as H1 H2 H3 H4; subst; intros [Hc|Hc]; try discriminate; try congruence.
      exists cs, (i, t), p. repeat split; auto.
      exists cs, (i, t), p. repeat split; auto.
    + intro H; injection H as H1 H2 H3 H4; subst; intros [Hc|Hc]; try discriminate; congruence.
  - intro H; injection H as H1 H2 H3 H4; subst; intros [Hc|Hc]; try discriminate; congruence.
Qed.

Theorem apply_failure_keeps_state ck dec sm_ok evs d sm d' sm' acks :
  apply_stream ck dec sm_ok evs d sm = (false, d', sm', acks) -> sm' = sm.
Proof.
  unfold apply_stream. destruct (process ck evs d) as [[o d1] a1].
  destruct o as [[i t]|]; [destruct (dget d1 (FFinal i t)) as [b|]; [destruct (dec b); [destruct sm_ok|]|]|];
    intro H; inversion H; reflexivity.
Qed.

Theorem apply_failed_untouched ck dec sm_ok evs d sm ok d' sm' acks :
  apply_stream ck dec sm_ok evs d sm = (ok, d', sm', acks) ->
  ~ (exists cs li, evs = map EChunk cs /\ exact_stream ck cs li) ->
  ok = false /\ sm' = sm /\ forall f, f <> FTemp -> dget d' f = dget d f.
Proof.
  intros H Hn. unfold apply_stream in H. destruct (process ck evs d) as [[o d1] a1] eqn:P.
  destruct o as [li|].
  - exfalso. apply Hn. destruct (installed_only_if _ _ _ _ _ _ P) as (cs & Hev & Hex & _). exists cs, li. auto.
  - injection H as H1 H2 H3 H4; subst. repeat split; auto. apply (failed_untouched _ _ _ _ _ P).
Qed.

(* ---------------------------------------------------------------- crash atomicity *)
Lemma pre_temp_only ws : Forall temp_only (OCreate FTemp :: map (OWrite FTemp) ws).
Proof. constructor; [exact I|]. induction ws; cbn; constructor; [exact I | assumption]. Qed.

(* process crash: the directory is the replay of a prefix of the steps *)
Theorem process_crash_atomic ck evs d p f : f <> FTemp ->
  dget (vis_run (firstn p (trace ck evs)) d) f = dget d f \/
  exists cs li, evs = map EChunk cs /\ exact_stream ck cs li /\ f = FFinal (fst li) (snd li) /\
                dget (vis_run (firstn p (trace ck evs)) d) f = Some (concat (map c_data cs)).
Proof.
  intro Hf. unfold trace. destruct (outcome_of ck evs) as [[o s] a] eqn:O.
  set (pre := OCreate FTemp :: map (OWrite FTemp) (r_writes s)).
  assert (Hpre : Forall temp_only pre) by apply pre_temp_only.
  destruct o as [[i t]|].
  - change (OCreate FTemp :: map (OWrite FTemp) (r_writes s) ++ [OSync FTemp; ORename FTemp (FFinal i t)])
      with (pre ++ [OSync FTemp; ORename FTemp (FFinal i t)]).
    rewrite firstn_app. destruct (p - length pre)%nat as [|[|q]] eqn:Q.
    + left. cbn [firstn]. rewrite app_nil_r, dget_vis_run. apply frun_temp_only; [apply Forall_firstn; exact Hpre | exact Hf].
    + left. cbn [firstn]. rewrite dget_vis_run. apply frun_temp_only; [|exact Hf].
      apply Forall_app. split; [apply Forall_firstn; exact Hpre | constructor; [exact I | constructor]].
    + rewrite (firstn_all2 pre) by lia. cbn [firstn]. rewrite firstn_nil.
      unfold pre. rewrite dget_vis_run.
      change ((OCreate FTemp :: map (OWrite FTemp) (r_writes s)) ++ [OSync FTemp; ORename FTemp (FFinal i t)])
        with (OCreate FTemp :: map (OWrite FTemp) (r_writes s) ++ [OSync FTemp; ORename FTemp (FFinal i t)]).
      rewrite final_map. destruct (fname_eqb (FFinal i t) f) eqn:E.
      * right. apply fname_eqb_eq in E. destruct (outcome_some _ _ _ _ _ O) as (cs & Hev & Hex & Hw).
        exists cs, (i, t). rewrite Hw. auto.
      * left. rewrite (fname_eqb_neq FTemp f) by congruence. reflexivity.
  - left. rewrite app_nil_r. fold pre. rewrite dget_vis_run. apply frun_temp_only; [apply Forall_firstn; exact Hpre | exact Hf].
Qed.

(* HISTORY — power loss with the code before the fix (trace_prev: rename after flush() only): a truncated file could sit under
   the final name. Kept as a theorem about the previous variant; the current code is covered by power_loss_atomic below. *)
Definition wit_chunk : chunk :=
  {| c_term := 3; c_leader := 1; c_seq := 0; c_total := 1; c_meta := Some (Some (5, 2)); c_data := [31; 139; 8]; c_ck := crc32_be [31; 139; 8] |}.

Theorem power_loss_refuted :
  exists (cs : list chunk) (li : logid) (d d' : dir) (partial : bytes),
    exact_stream crc32_be cs li /\ power_outcome (trace_prev crc32_be (map EChunk cs)) d d' /\
    dget d (FFinal (fst li) (snd li)) = None /\
    dget d' (FFinal (fst li) (snd li)) = Some partial /\ partial <> concat (map c_data cs).
Proof.
  exists [wit_chunk], (5, 2), [], [(FFinal 5 2, [31])], [31].
  split; [|split; [|split; [|split]]].
  - cbn. repeat split; destruct i as [|[|i]]; cbn in H; inversion H; subst; reflexivity.
  - exists 3%nat, 2%nat, 1%nat. vm_compute. reflexivity.
  - reflexivity.
  - reflexivity.
  - cbn. discriminate.
Qed.

(* ---------------------------------------------------------------- non-vacuity *)
Definition ex_chunks : list chunk :=
  [ {| c_term := 3; c_leader := 1; c_seq := 0; c_total := 2; c_meta := Some (Some (5, 2)); c_data := [31; 139]; c_ck := crc32_be [31; 139] |};
    {| c_term := 3; c_leader := 1; c_seq := 1; c_total := 2; c_meta := None; c_data := [8; 0; 7]; c_ck := crc32_be [8; 0; 7] |} ].
Definition ex_dir : dir := [(FFinal 4 1, [1; 2]); (FOther 1, [9]); (FTemp, [6; 6; 6])].
Definition ex_dec (b : bytes) : option bytes := if bytes_eqb b [31; 139; 8; 0; 7] then Some [42] else None.

Example ex_exact : exact_stream crc32_be ex_chunks (5, 2).
Proof. cbn. repeat split; destruct i as [|[|[|i]]]; cbn in H; inversion H; subst; reflexivity. Qed.

(* the complete stream installs: final file = concatenation, temp gone, the rest untouched, state machine updated *)
Example ex_install :
  apply_stream crc32_be ex_dec true (map EChunk ex_chunks) ex_dir None
  = (true, [(FFinal 5 2, [31; 139; 8; 0; 7]); (FFinal 4 1, [1; 2]); (FOther 1, [9])], Some ((5, 2), [42]),
     [(0, 1, 1); (1, 1, 2)]).
Proof. vm_compute. reflexivity. Qed.

(* a stream that is not exact (second chunk from another leader): nothing but the temp file changes *)
Example ex_leader_change :
  let bad := {| c_term := 3; c_leader := 2; c_seq := 1; c_total := 2; c_meta := None; c_data := [8; 0; 7]; c_ck := crc32_be [8; 0; 7] |} in
  apply_stream crc32_be ex_dec true [EChunk (hd bad ex_chunks); EChunk bad] ex_dir None
  = (false, [(FTemp, [31; 139]); (FFinal 4 1, [1; 2]); (FOther 1, [9])], None, [(0, 1, 1); (1, 3, 0)]).
Proof. vm_compute. reflexivity. Qed.

(* the hypothesis of apply_failed_untouched is satisfiable: the truncated stream is not exact *)
Example ex_not_exact : ~ (exists cs li, [EChunk (hd wit_chunk ex_chunks)] = map EChunk cs /\ exact_stream crc32_be cs li).
Proof.
  intros (cs & li & Hev & Hex). destruct cs as [|c0 [|c1 cs]]; cbn in Hev; try discriminate.
  inversion Hev; subst c0. cbn in Hex. destruct Hex as (_ & Htot & _). cbn in Htot. discriminate.
Qed.

(* observation (outside the statement of C17): a complete, checksum-valid transfer of a file that is not an acceptable archive
   fails AFTER the rename — the final file stays although the state machine was not touched *)
Example ex_complete_but_rejected :
  apply_stream crc32_be (fun _ => None) true (map EChunk ex_chunks) ex_dir None
  = (false, [(FFinal 5 2, [31; 139; 8; 0; 7]); (FFinal 4 1, [1; 2]); (FOther 1, [9])], None, [(0, 1, 1); (1, 1, 2)]).
Proof. vm_compute. reflexivity. Qed.

(* ---------------------------------------------------------------- power loss, as coded (sync_all before rename) *)
Lemma ploss_temp_only ops : Forall temp_only ops -> forall k cut lost d d',
  ploss k cut lost ops d = Some d' -> forall f, f <> FTemp -> dget d' f = dget d f.
Proof.
  induction 1 as [|o ops Ho _ IH]; intros k cut lost d d' H f Hf; cbn in H.
  - inversion H; reflexivity.
  - assert (E : fname_eqb FTemp f = false) by (apply fname_eqb_neq; congruence).
    destruct o as [g|g b|g|g h]; cbn in Ho; try contradiction.
    + destruct g; try contradiction. destruct k as [|k]; [inversion H; reflexivity|].
      rewrite (IH _ _ _ _ _ H f Hf), dget_dset, E. reflexivity.
    + destruct g; try contradiction. rewrite (IH _ _ _ _ _ H f Hf).
      destruct (dget d FTemp); [rewrite dget_dset, E|]; reflexivity.
    + destruct lost; [discriminate|]. apply (IH _ _ _ _ _ H f Hf).
Qed.

Lemma ploss_sync_rename ws i t : forall k cut lost d old d',
  dget d FTemp = Some old ->
  ploss k cut lost (map (OWrite FTemp) ws ++ [OSync FTemp; ORename FTemp (FFinal i t)]) d = Some d' ->
  lost = false /\
  forall f, f <> FTemp -> dget d' f = dget d f \/ (f = FFinal i t /\ dget d' f = Some (old ++ concat ws)).
Proof.
  induction ws as [|w ws IH]; intros k cut lost d old d' Hd H; cbn in H.
  - destruct lost; [discriminate|]. split; [reflexivity|]. intros f Hf.
    destruct k as [|k]; [inversion H; left; reflexivity|].
    rewrite Hd in H. cbn in H. inversion H; subst d'. rewrite dget_dset, dget_dremove.
    destruct (fname_eqb (FFinal i t) f) eqn:E.
    + right. apply fname_eqb_eq in E. cbn. rewrite app_nil_r. auto.
    + left. rewrite (fname_eqb_neq FTemp f) by congruence. reflexivity.
  - rewrite Hd in H. apply (IH _ _ _ _ (old ++ firstn cut w)) in H; [|rewrite dget_dset, fname_eqb_refl; reflexivity].
    destruct H as (Hl & H). apply orb_false_iff in Hl as [Hl1 Hl2]. split; [exact Hl1|].
    apply Nat.ltb_ge in Hl2. rewrite firstn_all2 in H by exact Hl2.
    intros f Hf. destruct (H f Hf) as [G|[G1 G2]].
    + left. rewrite G, dget_dset, (fname_eqb_neq FTemp f) by congruence. reflexivity.
    + right. split; [exact G1|]. rewrite G2. cbn. rewrite app_assoc. reflexivity.
Qed.

Theorem power_loss_atomic ck evs d d' f : f <> FTemp ->
  power_outcome (trace ck evs) d d' ->
  dget d' f = dget d f \/
  exists cs li, evs = map EChunk cs /\ exact_stream ck cs li /\ f = FFinal (fst li) (snd li) /\
                dget d' f = Some (concat (map c_data cs)).
Proof.
  intros Hf (p & k & cut & H). unfold trace in H. destruct (outcome_of ck evs) as [[o s] a] eqn:O.
  set (pre := OCreate FTemp :: map (OWrite FTemp) (r_writes s)) in *.
  assert (Hpre : Forall temp_only pre) by apply pre_temp_only.
  destruct o as [[i t]|].
  - change (OCreate FTemp :: map (OWrite FTemp) (r_writes s) ++ [OSync FTemp; ORename FTemp (FFinal i t)])
      with (pre ++ [OSync FTemp; ORename FTemp (FFinal i t)]) in H.
    rewrite firstn_app in H. destruct (p - length pre)%nat as [|[|q]] eqn:Q.
    + left. cbn [firstn] in H. rewrite app_nil_r in H.
      apply (ploss_temp_only _ (Forall_firstn _ _ _ Hpre) _ _ _ _ _ H f Hf).
    + left. cbn [firstn] in H. refine (ploss_temp_only _ _ _ _ _ _ _ H f Hf).
      apply Forall_app. split; [apply Forall_firstn; exact Hpre | constructor; [exact I | constructor]].
    + rewrite (firstn_all2 pre) in H by lia. cbn [firstn] in H. rewrite firstn_nil in H. unfold pre in H. cbn [app ploss] in H.
      destruct k as [|k]; [inversion H; left; reflexivity|].
      apply (ploss_sync_rename _ i t _ _ _ _ []) in H; [|rewrite dget_dset, fname_eqb_refl; reflexivity].
      destruct H as (_ & H). destruct (H f Hf) as [G|[G1 G2]].
      * left. rewrite G, dget_dset, (fname_eqb_neq FTemp f) by congruence. reflexivity.
      * right. destruct (outcome_some _ _ _ _ _ O) as (cs & Hev & Hex & Hw). exists cs, (i, t).
        rewrite G2, Hw. auto.
  - left. rewrite app_nil_r in H. fold pre in H.
    apply (ploss_temp_only _ (Forall_firstn _ _ _ Hpre) _ _ _ _ _ H f Hf).
Qed.

(* non-vacuity: the trace of the example stream has the complete outcome and the nothing-happened outcome *)
Example ex_power_outcomes :
  power_outcome (trace crc32_be (map EChunk ex_chunks)) ex_dir
    [(FFinal 5 2, [31; 139; 8; 0; 7]); (FFinal 4 1, [1; 2]); (FOther 1, [9])] /\
  power_outcome (trace crc32_be (map EChunk ex_chunks)) ex_dir ex_dir.
Proof.
  split.
  - exists 5%nat, 2%nat, 5%nat. vm_compute. reflexivity.
  - exists 5%nat, 0%nat, 0%nat. vm_compute. reflexivity.
Qed.
