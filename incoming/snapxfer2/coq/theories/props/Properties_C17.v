(* Pinned statements of property C17. Nothing else lives here. *)
From Coq Require Import NArith List.
From DE Require Import Val SnapXfer proofs.C17.
Import ListNotations.
Open Scope N_scope.

(* The follower's state machine is handed a snapshot (or the handler reports success) only if the events received are exactly
   chunks 0..n-1 of one (leader, term), in order, with valid checksums, n the announced total; the final file is the
   concatenation of the chunk data and that is what gets decompressed and applied. For every checksum function, every
   decompression function, every event stream (chunks and timeouts; end of list = channel closed), every directory. *)
Theorem C17_installed_only_if :
  forall (ck : bytes -> bytes) (dec : bytes -> option bytes) (sm_ok : bool) (evs : list event) (d : dir) (sm : smstate)
         (ok : bool) (d' : dir) (sm' : smstate) (acks : list ack),
    apply_stream ck dec sm_ok evs d sm = (ok, d', sm', acks) ->
    ok = true \/ sm' <> sm ->
    exists cs li p, evs = map EChunk cs /\ exact_stream ck cs li /\
      dget d' (FFinal (fst li) (snd li)) = Some (concat (map c_data cs)) /\
      dec (concat (map c_data cs)) = Some p /\ sm' = Some (li, p) /\ ok = true.
Proof. exact apply_installed_only_if. Qed.
Print Assumptions C17_installed_only_if.

(* Any other stream (partial, reordered, duplicated, corrupted, leader/term change, early close, timeout) fails, leaves the
   state machine untouched and every file except the temporary assembly file unchanged — in particular no final file. *)
Theorem C17_failed_untouched :
  forall (ck : bytes -> bytes) (dec : bytes -> option bytes) (sm_ok : bool) (evs : list event) (d : dir) (sm : smstate)
         (ok : bool) (d' : dir) (sm' : smstate) (acks : list ack),
    apply_stream ck dec sm_ok evs d sm = (ok, d', sm', acks) ->
    ~ (exists cs li, evs = map EChunk cs /\ exact_stream ck cs li) ->
    ok = false /\ sm' = sm /\ forall f, f <> FTemp -> dget d' f = dget d f.
Proof. exact apply_failed_untouched. Qed.
Print Assumptions C17_failed_untouched.

Theorem C17_failure_keeps_state :
  forall (ck : bytes -> bytes) (dec : bytes -> option bytes) (sm_ok : bool) (evs : list event) (d : dir) (sm : smstate)
         (d' : dir) (sm' : smstate) (acks : list ack),
    apply_stream ck dec sm_ok evs d sm = (false, d', sm', acks) -> sm' = sm.
Proof. exact apply_failure_keeps_state. Qed.
Print Assumptions C17_failure_keeps_state.

(* an exact stream is accepted by process_snapshot_stream (the "only if" above is not vacuous for any exact stream) *)
Theorem C17_exact_stream_completes :
  forall (ck : bytes -> bytes) (cs : list chunk) (li : logid) (d : dir),
    exact_stream ck cs li -> exists d' acks, process ck (map EChunk cs) d = (Some li, d', acks).
Proof. exact exact_stream_completes. Qed.
Print Assumptions C17_exact_stream_completes.

(* A completed snapshot file appears atomically with respect to a process crash: after any prefix of the storage steps of any
   stream, every name other than the temp file holds its previous content, or it is the final name of an exact stream and
   holds the complete concatenation. *)
Theorem C17_process_crash_atomic :
  forall (ck : bytes -> bytes) (evs : list event) (d : dir) (p : nat) (f : fname),
    f <> FTemp ->
    dget (vis_run (firstn p (trace ck evs)) d) f = dget d f \/
    exists cs li, evs = map EChunk cs /\ exact_stream ck cs li /\ f = FFinal (fst li) (snd li) /\
                  dget (vis_run (firstn p (trace ck evs)) d) f = Some (concat (map c_data cs)).
Proof. exact process_crash_atomic. Qed.
Print Assumptions C17_process_crash_atomic.

(* Power loss, as coded (flush + sync_all of the temp file, then rename): the completed file appears atomically under power loss
   too — in every power-loss outcome of the storage steps of any stream every name other than the temp file holds its previous
   content, or it is the final name of an exact stream and holds the complete concatenation. *)
Theorem C17_power_loss_atomic :
  forall (ck : bytes -> bytes) (evs : list event) (d d' : dir) (f : fname),
    f <> FTemp ->
    power_outcome (trace ck evs) d d' ->
    dget d' f = dget d f \/
    exists cs li, evs = map EChunk cs /\ exact_stream ck cs li /\ f = FFinal (fst li) (snd li) /\
                  dget d' f = Some (concat (map c_data cs)).
Proof. exact power_loss_atomic. Qed.
Print Assumptions C17_power_loss_atomic.

(* HISTORY (previous variant of the code, finding rename-without-sync, since fixed): when finalize renamed after flush() only
   ([trace_prev], no sync step) the atomicity claim was FALSE in the two-layer storage model — an exact stream, a directory without
   the final name, and a power-loss outcome whose final name holds a strict part of the file. Not a statement about the current code. *)
Theorem C17_power_loss_refuted :
  exists (cs : list chunk) (li : logid) (d d' : dir) (partial : bytes),
    exact_stream crc32_be cs li /\ power_outcome (trace_prev crc32_be (map EChunk cs)) d d' /\
    dget d (FFinal (fst li) (snd li)) = None /\
    dget d' (FFinal (fst li) (snd li)) = Some partial /\ partial <> concat (map c_data cs).
Proof. exact power_loss_refuted. Qed.
Print Assumptions C17_power_loss_refuted.
