(* Pinned statements of property C24. Nothing else lives here.
   Model DE.Watch: [dstep]/[step]/[run] is the code as it is (abc2253: on RecvError::Lagged the dispatcher runs
   cancel_all_watchers = CANCELED to every registered watcher, exact and prefix, and unregisters it);
   [dstep_old]/[step_old]/[run_old] is the code BEFORE that fix (the Lagged arm only logged); the theorem named
   C24_history_unrepaired_... is kept as a record of what failed and why the fix was needed. *)
From Coq Require Import NArith List Bool Sorted.
From DE Require Import Val Watch proofs.C24.
Import ListNotations.
Open Scope N_scope.

(* Vocabulary (proofs.C24): stream w = w_got w ++ w_q w (received + buffered, in order); data = the put/delete
   events of a list; nocancel l = no CANCELED in l; mt w e = the dispatcher's lookup reaches w for e's key;
   shape w sent rest = exists body pre post, nocancel body /\ skipn (w_from w) sent = pre ++ post /\
     data body = filter (mt w) pre /\
     ((w_live w = true /\ stream w = body /\ post = rest) \/ (w_live w = false /\ exists k, stream w = body ++ [cancel_ev k])). *)

(* Every schedule without broadcast overflow: a held watcher's stream is progress events interleaved with exactly
   the matching events broadcast from a point not later than its registration — all of them except those still
   queued for the dispatcher — or such a gap-free run followed by one final CANCELED with the watcher unregistered. *)
Theorem C24_stream_spec :
  forall (b q m : N) (hb : bool) (a : N) (ls : list label) (w : watcher),
    let s := run (init b q m hb a) ls in
    s_lost s = 0 -> In w (s_ws s) -> w_held w = true ->
    (w_from w <= w_reg w)%nat /\
    exists body pre post,
      nocancel body = true /\ skipn (w_from w) (s_sent s) = pre ++ post /\ data body = filter (mt w) pre /\
      ((w_live w = true /\ stream w = body /\ post = s_bq s) \/
       (w_live w = false /\ exists k, stream w = body ++ [cancel_ev k])).
Proof. exact stream_spec. Qed.
Print Assumptions C24_stream_spec.

(* Every schedule, overflow or not: the same relative to what the dispatcher actually dispatched. *)
Theorem C24_stream_vs_dispatched :
  forall (b q m : N) (hb : bool) (a : N) (ls : list label) (w : watcher),
    let s := run (init b q m hb a) ls in
    In w (s_ws s) -> w_held w = true ->
    exists body pre post,
      nocancel body = true /\ skipn (w_from w) (s_disp s) = pre ++ post /\ data body = filter (mt w) pre /\
      ((w_live w = true /\ stream w = body /\ post = []) \/
       (w_live w = false /\ exists k, stream w = body ++ [cancel_ev k])).
Proof. exact stream_vs_dispatched. Qed.
Print Assumptions C24_stream_vs_dispatched.

Theorem C24_complete_when_idle :
  forall (b q m : N) (hb : bool) (a : N) (ls : list label) (w : watcher),
    let s := run (init b q m hb a) ls in
    s_lost s = 0 -> s_bq s = [] -> In w (s_ws s) -> w_held w = true -> w_live w = true ->
    nocancel (stream w) = true /\
    exists early, data (stream w) = early ++ filter (mt w) (skipn (w_reg w) (s_sent s)).
Proof. exact complete_when_idle. Qed.
Print Assumptions C24_complete_when_idle.

Theorem C24_sent_are_committed_changes :
  forall (b q m : N) (hb : bool) (a : N) (ls : list label),
    s_sent (run (init b q m hb a) ls) =
    flat_map (fun l => match l with LApply fail c => chunk_events fail c | _ => [] end) ls.
Proof. exact sent_are_committed_changes. Qed.
Print Assumptions C24_sent_are_committed_changes.

Theorem C24_events_only_for_changes :
  forall (n : entry) (e : wev), In e (entry_event n) ->
    (n_kind n = 1 \/ n_kind n = 2 \/ (n_kind n = 3 /\ n_ok n = true)) /\
    e_key e = n_key n /\ e_rev e = n_idx n /\ is_data e = true.
Proof. exact entry_event_spec. Qed.
Print Assumptions C24_events_only_for_changes.

Theorem C24_failed_cas_no_event :
  forall n : entry, n_kind n = 3 -> n_ok n = false -> entry_event n = [].
Proof. exact failed_cas_no_event. Qed.
Print Assumptions C24_failed_cas_no_event.

Theorem C24_prefix_matching :
  forall (pre : bool) (wk k : key),
    matchk pre wk k = true <->
    (if pre then (exists p0, wk = p0 ++ [47]) /\ (exists r, k = wk ++ r) else wk = k).
Proof. exact matchk_spec. Qed.
Print Assumptions C24_prefix_matching.

Theorem C24_registered_prefix_ends_with_slash :
  forall p : key, valid_prefix p = true -> exists p0, p = p0 ++ [47].
Proof. exact valid_prefix_slash. Qed.
Print Assumptions C24_registered_prefix_ends_with_slash.

(* strictly increasing revisions relative to increasing apply indexes — EVERY schedule, overflow or not *)
Theorem C24_revisions_increasing :
  forall (b q m : N) (hb : bool) (a : N) (ls : list label) (w : watcher),
    let s := run (init b q m hb a) ls in
    In w (s_ws s) -> w_held w = true ->
    StronglySorted (fun x y => e_rev x < e_rev y) (s_sent s) ->
    StronglySorted (fun x y => e_rev x < e_rev y) (data (stream w)).
Proof. exact revisions_increasing. Qed.
Print Assumptions C24_revisions_increasing.

(* ---- "no silent gaps", code as it is, EVERY configuration and EVERY schedule (broadcast overflow included) ----
   s_sent = the committed changes in apply order (C24_sent_are_committed_changes); w_reg w = how many of them had
   been broadcast when w registered. What a held watcher has received or buffered is progress events interleaved
   with exactly the matching changes of ONE contiguous segment [pre] of s_sent beginning no later than the
   registration; then either the watcher is still registered and — unless a Lagged is pending for the dispatcher's
   next iteration (s_lag > 0) — everything after [pre] is still in the dispatcher's queue (nothing was skipped), or
   the stream ends with CANCELED and the watcher is unregistered. *)
Theorem C24_no_silent_gap :
  forall (b q m : N) (hb : bool) (a : N) (ls : list label) (w : watcher),
    let s := run (init b q m hb a) ls in
    In w (s_ws s) -> w_held w = true ->
    exists start body pre post,
      (start <= w_reg w)%nat /\ nocancel body = true /\ skipn start (s_sent s) = pre ++ post /\
      data body = filter (mt w) pre /\
      ((w_live w = true /\ stream w = body /\ (s_lag s = 0 -> post = s_bq s)) \/
       (w_live w = false /\ exists k, stream w = body ++ [cancel_ev k])).
Proof. exact no_silent_gap. Qed.
Print Assumptions C24_no_silent_gap.

(* the put/delete events of any stream = the matching changes of one contiguous run of the committed changes *)
Theorem C24_stream_is_contiguous_run :
  forall (b q m : N) (hb : bool) (a : N) (ls : list label) (w : watcher),
    let s := run (init b q m hb a) ls in
    In w (s_ws s) -> w_held w = true ->
    exists start pre post, (start <= w_reg w)%nat /\ skipn start (s_sent s) = pre ++ post /\
      data (stream w) = filter (mt w) pre.
Proof. exact stream_is_contiguous_run. Qed.
Print Assumptions C24_stream_is_contiguous_run.

(* a matching change committed after the registration that the stream does not hold: the stream ends with CANCELED
   (watcher unregistered), or the change is still queued for the dispatcher, or a Lagged is pending — and then the
   dispatcher's next broadcast iteration cancels every watcher (C24_lag_iteration_...) *)
Theorem C24_missing_change_implies_canceled :
  forall (b q m : N) (hb : bool) (a : N) (ls : list label) (w : watcher) (e : wev),
    let s := run (init b q m hb a) ls in
    In w (s_ws s) -> w_held w = true ->
    In e (skipn (w_reg w) (s_sent s)) -> mt w e = true -> ~ In e (stream w) ->
    (w_live w = false /\ exists body k, stream w = body ++ [cancel_ev k]) \/
    (w_live w = true /\ (In e (s_bq s) \/ 0 < s_lag s)).
Proof. exact missing_change_implies_canceled. Qed.
Print Assumptions C24_missing_change_implies_canceled.

(* dispatcher idle (no s_lost hypothesis any more): a registered watcher holds every matching change since its
   registration and no CANCELED *)
Theorem C24_complete_when_idle_any_schedule :
  forall (b q m : N) (hb : bool) (a : N) (ls : list label) (w : watcher),
    let s := run (init b q m hb a) ls in
    s_lag s = 0 -> s_bq s = [] -> In w (s_ws s) -> w_held w = true -> w_live w = true ->
    nocancel (stream w) = true /\
    exists early, data (stream w) = early ++ filter (mt w) (skipn (w_reg w) (s_sent s)).
Proof. exact complete_when_idle_any_schedule. Qed.
Print Assumptions C24_complete_when_idle_any_schedule.

(* every schedule that ends with a dispatcher run: complete, or a gap-free run ended by CANCELED *)
Theorem C24_after_dispatcher_run_complete_or_canceled :
  forall (b q m : N) (hb : bool) (a : N) (ls : list label) (w : watcher),
    let s := run (init b q m hb a) (ls ++ [LRun]) in
    In w (s_ws s) -> w_held w = true ->
    (w_live w = true /\ nocancel (stream w) = true /\
       exists early, data (stream w) = early ++ filter (mt w) (skipn (w_reg w) (s_sent s))) \/
    (w_live w = false /\ exists body k start pre post, stream w = body ++ [cancel_ev k] /\ nocancel body = true /\
       (start <= w_reg w)%nat /\ skipn start (s_sent s) = pre ++ post /\ data body = filter (mt w) pre).
Proof. exact after_dispatcher_run_complete_or_canceled. Qed.
Print Assumptions C24_after_dispatcher_run_complete_or_canceled.

Theorem C24_run_idle_is_idle :
  forall s : st, let s' := run_idle s in s_unreg s' = [] /\ s_lag s' = 0 /\ s_bq s' = [].
Proof. exact run_idle_is_idle. Qed.
Print Assumptions C24_run_idle_is_idle.

(* the Lagged iteration of the dispatcher loop: every watcher is unregistered ... *)
Theorem C24_lag_iteration_cancels_everyone :
  forall (s : st) (w : watcher),
    s_unreg s = [] -> 0 < s_lag s -> In w (s_ws (dstep s)) -> w_live w = false.
Proof. exact lag_iteration_cancels_everyone. Qed.
Print Assumptions C24_lag_iteration_cancels_everyone.

(* ... and in every reachable state each registered, still listening watcher gets CANCELED appended (the reserved
   slot is free: the try_send of cancel_all_watchers cannot fail with Full) *)
Theorem C24_lag_iteration_appends_canceled :
  forall (b q m : N) (hb : bool) (a : N) (ls : list label) (w : watcher),
    let s := run (init b q m hb a) ls in
    s_unreg s = [] -> 0 < s_lag s -> In w (s_ws s) -> w_held w = true -> w_live w = true ->
    exists w', In w' (s_ws (dstep s)) /\ w_id w' = w_id w /\ w_live w' = false /\
      stream w' = stream w ++ [cancel_ev (w_key w)].
Proof. exact lag_iteration_appends_canceled. Qed.
Print Assumptions C24_lag_iteration_appends_canceled.

(* ---- HISTORY: the code before abc2253 (run_old): the "no silent gaps" clause was refuted (global broadcast lag) *)
Theorem C24_history_unrepaired_lag_silent_gap :
  exists ls, let s := run_old (init 8 4 10 false 0) ls in
    exists w, In w (s_ws s) /\ w_held w = true /\ w_live w = true /\ w_reg w = 0%nat /\
      s_bq s = [] /\ s_lag s = 0 /\ s_unreg s = [] /\ nocancel (stream w) = true /\
      map e_rev (filter (mt w) (skipn (w_reg w) (s_sent s))) = [1; 2; 3; 4; 5; 6] /\
      map e_rev (data (stream w)) = [3; 4; 5; 6].
Proof. exact history_unrepaired_lag_silent_gap. Qed.
Print Assumptions C24_history_unrepaired_lag_silent_gap.
