(* C24 — proofs over the Watch model. *)
From Coq Require Import NArith List Bool Lia Arith.
From DE Require Import Val Watch.
Import ListNotations.
Open Scope N_scope.

(* ---------------------------------------------------------------- vocabulary of the statements *)
Definition is_data (e : wev) : bool := (e_ty e =? T_PUT) || (e_ty e =? T_DEL).
Definition data (l : list wev) : list wev := filter is_data l.
Definition nocancel (l : list wev) : bool := forallb (fun e => negb (e_ty e =? T_CANCEL)) l.
Definition stream (w : watcher) : list wev := w_got w ++ w_q w.
Definition matchk (pre : bool) (wk k : key) : bool := if pre then existsb (keqb wk) (psegs k) else keqb wk k.
Definition mt (w : watcher) (e : wev) : bool := matchk (w_pre w) (w_key w) (e_key e).

Lemma matches_mt : forall w e, matches w (e_key e) = mt w e.
Proof. reflexivity. Qed.

(* what a held watcher's stream looks like relative to the list [disp] of events dispatched so far *)
Definition WInv (disp : list wev) (w : watcher) : Prop :=
  w_held w = true ->
  (w_from w <= length disp)%nat /\
  exists body pre post,
    nocancel body = true /\ skipn (w_from w) disp = pre ++ post /\ data body = filter (mt w) pre /\
    ((w_live w = true /\ stream w = body /\ post = [] /\ N.of_nat (length (w_q w)) < w_cap w)
     \/ (w_live w = false /\ exists k, stream w = body ++ [cancel_ev k])).

Lemma data_app : forall a b, data (a ++ b) = data a ++ data b.
Proof. intros a b. unfold data. apply filter_app. Qed.
Lemma nocancel_app : forall a b, nocancel (a ++ b) = nocancel a && nocancel b.
Proof. intros a b. unfold nocancel. apply forallb_app. Qed.

Lemma is_data_not_cancel : forall e, is_data e = true -> (e_ty e =? T_CANCEL) = false.
Proof.
  intros e H. unfold is_data, T_PUT, T_DEL, T_CANCEL in *.
  destruct (N.eqb_spec (e_ty e) 0) as [E|E]; [rewrite E; reflexivity|].
  destruct (N.eqb_spec (e_ty e) 1) as [E1|E1]; [rewrite E1; reflexivity|]. discriminate H.
Qed.

Lemma skipn_snoc : forall (A : Type) n (l : list A) x, (n <= length l)%nat -> skipn n (l ++ [x]) = skipn n l ++ [x].
Proof.
  intros A n l x H. rewrite skipn_app. replace (n - length l)%nat with 0%nat by lia. reflexivity.
Qed.

(* ---------------------------------------------------------------- field preservation *)
Lemma deliver_fields : forall e w,
  w_pre (deliver e w) = w_pre w /\ w_key (deliver e w) = w_key w /\ w_from (deliver e w) = w_from w /\
  w_cap (deliver e w) = w_cap w /\ w_held (deliver e w) = w_held w /\ w_got (deliver e w) = w_got w /\
  w_reg (deliver e w) = w_reg w.
Proof.
  intros e w. unfold deliver.
  destruct (negb (w_held w)); [cbn; repeat split; reflexivity|].
  destruct (w_cap w - N.of_nat (length (w_q w)) <=? 1).
  - destruct (w_cap w - N.of_nat (length (w_q w)) =? 1); cbn; repeat split; reflexivity.
  - cbn; repeat split; reflexivity.
Qed.

Lemma mt_deliver : forall e w x, mt (deliver e w) x = mt w x.
Proof. intros e w x. unfold mt. destruct (deliver_fields e w) as (A & B & _). rewrite A, B. reflexivity. Qed.

Lemma filter_ext_mt : forall e w l, filter (mt (deliver e w)) l = filter (mt w) l.
Proof. intros e w l. apply filter_ext. intro x. apply mt_deliver. Qed.

(* ---------------------------------------------------------------- one delivery *)
(* a data event that matches, delivered to a live watcher; the dispatched list grows by that event *)
Lemma deliver_match_inv : forall disp e w,
  is_data e = true -> WInv disp w -> w_live w = true -> mt w e = true -> WInv (disp ++ [e]) (deliver e w).
Proof.
  intros disp e w Hd Hinv Hlive Hm Hheld.
  destruct (deliver_fields e w) as (Fpre & Fkey & Ffrom & Fcap & Fheld & Fgot & _).
  rewrite Fheld in Hheld. destruct (Hinv Hheld) as (Hfrom & body & pre & post & Hnc & Hsk & Hdata & Hcase).
  destruct Hcase as [(_ & Hstr & Hpost & Hcap) | (Hl & _)]; [| rewrite Hl in Hlive; discriminate].
  subst post. rewrite Ffrom. split; [rewrite app_length; cbn; lia|].
  rewrite skipn_snoc by exact Hfrom. rewrite Hsk, app_nil_r.
  unfold deliver. rewrite Hheld. cbn [negb].
  destruct (N.leb_spec (w_cap w - N.of_nat (length (w_q w))) 1) as [Hle|Hgt].
  - (* only the reserved slot is left: CANCELED, unregistered *)
    assert (Hav : w_cap w - N.of_nat (length (w_q w)) = 1) by lia.
    rewrite Hav. cbn [N.eqb Pos.eqb].
    exists body, pre, [e]. split; [exact Hnc|]. split; [reflexivity|]. split.
    + rewrite Hdata. apply filter_ext. intro x. unfold mt. reflexivity.
    + right. split; [reflexivity|]. exists (e_key e). unfold stream. cbn. rewrite app_assoc. f_equal. exact Hstr.
  - exists (body ++ [e]), (pre ++ [e]), []. split.
    + rewrite nocancel_app, Hnc. cbn. rewrite (is_data_not_cancel e Hd). reflexivity.
    + split; [rewrite app_nil_r; reflexivity|]. split.
      * rewrite data_app, filter_app, Hdata. cbn. rewrite Hd.
        assert (Hm' : mt (set_q w (w_q w ++ [e])) e = true) by exact Hm. rewrite Hm'. reflexivity.
      * left. split; [exact Hlive|]. split; [unfold stream; cbn; rewrite app_assoc; f_equal; exact Hstr|].
        split; [reflexivity|]. cbn. rewrite app_length. cbn. lia.
Qed.

(* the dispatched list grows by an event that is not delivered to this watcher *)
Lemma skip_inv : forall disp e w,
  WInv disp w -> (w_live w = false \/ mt w e = false) -> WInv (disp ++ [e]) w.
Proof.
  intros disp e w Hinv Hwhy Hheld.
  destruct (Hinv Hheld) as (Hfrom & body & pre & post & Hnc & Hsk & Hdata & Hcase).
  split; [rewrite app_length; cbn; lia|].
  rewrite skipn_snoc by exact Hfrom. rewrite Hsk.
  destruct Hcase as [(Hl & Hstr & Hpost & Hcap) | (Hl & Hk)].
  - destruct Hwhy as [Hw|Hw]; [rewrite Hw in Hl; discriminate|].
    subst post. exists body, (pre ++ [e]), []. split; [exact Hnc|]. split; [rewrite !app_nil_r; reflexivity|]. split.
    + rewrite filter_app, Hdata. cbn. rewrite Hw. rewrite app_nil_r. reflexivity.
    + left. repeat split; assumption.
  - exists body, pre, (post ++ [e]). split; [exact Hnc|]. split; [rewrite app_assoc; reflexivity|]. split; [exact Hdata|].
    right. split; assumption.
Qed.

(* a progress event delivered to a live watcher; the dispatched list is unchanged *)
Lemma deliver_progress_inv : forall disp p w,
  is_data p = false -> (e_ty p =? T_CANCEL) = false -> WInv disp w -> w_live w = true -> WInv disp (deliver p w).
Proof.
  intros disp p w Hnd Hncp Hinv Hlive Hheld.
  destruct (deliver_fields p w) as (Fpre & Fkey & Ffrom & Fcap & Fheld & Fgot & _).
  rewrite Fheld in Hheld. destruct (Hinv Hheld) as (Hfrom & body & pre & post & Hnc & Hsk & Hdata & Hcase).
  destruct Hcase as [(_ & Hstr & Hpost & Hcap) | (Hl & _)]; [| rewrite Hl in Hlive; discriminate].
  subst post. rewrite Ffrom. split; [exact Hfrom|].
  unfold deliver. rewrite Hheld. cbn [negb].
  destruct (N.leb_spec (w_cap w - N.of_nat (length (w_q w))) 1) as [Hle|Hgt].
  - assert (Hav : w_cap w - N.of_nat (length (w_q w)) = 1) by lia.
    rewrite Hav. cbn [N.eqb Pos.eqb].
    exists body, pre, []. split; [exact Hnc|]. split; [exact Hsk|]. split; [exact Hdata|].
    right. split; [reflexivity|]. exists (e_key p). unfold stream. cbn. rewrite app_assoc. f_equal. exact Hstr.
  - exists (body ++ [p]), pre, []. split.
    + rewrite nocancel_app, Hnc. cbn. rewrite Hncp. reflexivity.
    + split; [exact Hsk|]. split.
      * rewrite data_app. cbn. rewrite Hnd, app_nil_r. exact Hdata.
      * left. split; [exact Hlive|]. split; [unfold stream; cbn; rewrite app_assoc; f_equal; exact Hstr|].
        split; [reflexivity|]. cbn. rewrite app_length. cbn. lia.
Qed.

Lemma take_inv : forall disp n w, WInv disp w -> WInv disp (take n w).
Proof.
  intros disp n w Hinv Hheld. cbn in Hheld.
  destruct (Hinv Hheld) as (Hfrom & body & pre & post & Hnc & Hsk & Hdata & Hcase).
  split; [exact Hfrom|]. exists body, pre, post. split; [exact Hnc|]. split; [exact Hsk|]. split; [exact Hdata|].
  assert (Hs : stream (take n w) = stream w).
  { unfold stream. cbn. rewrite <- app_assoc. rewrite firstn_skipn. reflexivity. }
  destruct Hcase as [(Hl & Hstr & Hpost & Hcap) | (Hl & k & Hk)].
  - left. split; [exact Hl|]. split; [rewrite Hs; exact Hstr|]. split; [exact Hpost|].
    cbn. rewrite skipn_length. lia.
  - right. split; [exact Hl|]. exists k. rewrite Hs. exact Hk.
Qed.

Lemma unhold_inv : forall disp w, WInv disp (unhold w).
Proof. intros disp w H. cbn in H. discriminate H. Qed.

Lemma kill_unheld_inv : forall disp w, w_held w = false -> WInv disp (kill w).
Proof. intros disp w H H'. cbn in H'. rewrite H in H'. discriminate H'. Qed.

(* ---------------------------------------------------------------- cancel_all_watchers (the Lagged arm) *)
Lemma cancel_one_fields : forall w,
  w_pre (cancel_one w) = w_pre w /\ w_key (cancel_one w) = w_key w /\ w_from (cancel_one w) = w_from w /\
  w_cap (cancel_one w) = w_cap w /\ w_held (cancel_one w) = w_held w /\ w_got (cancel_one w) = w_got w /\
  w_reg (cancel_one w) = w_reg w.
Proof.
  intro w. unfold cancel_one. destruct (w_live w); [|repeat split; reflexivity].
  destruct (w_held w && (N.of_nat (length (w_q w)) <? w_cap w)); cbn; repeat split; reflexivity.
Qed.

Lemma cancel_one_dead : forall w, w_live (cancel_one w) = false.
Proof.
  intro w. unfold cancel_one. destruct (w_live w) eqn:H; [|exact H].
  destruct (w_held w && (N.of_nat (length (w_q w)) <? w_cap w)); reflexivity.
Qed.

Lemma cancel_one_dead_id : forall w, w_live w = false -> cancel_one w = w.
Proof. intros w H. unfold cancel_one. rewrite H. reflexivity. Qed.

(* a registered watcher whose consumer still holds the Receiver always has the reserved slot free: CANCELED fits *)
Lemma cancel_one_live : forall w, w_live w = true -> w_held w = true -> N.of_nat (length (w_q w)) < w_cap w ->
  cancel_one w = kill (set_q w (w_q w ++ [cancel_ev (w_key w)])).
Proof.
  intros w Hl Hh Hc. unfold cancel_one. rewrite Hl, Hh. apply N.ltb_lt in Hc. rewrite Hc. reflexivity.
Qed.

Lemma cancel_one_inv : forall disp w, WInv disp w -> WInv disp (cancel_one w).
Proof.
  intros disp w Hinv Hheld.
  destruct (cancel_one_fields w) as (Fpre & Fkey & Ffrom & Fcap & Fheld & Fgot & _).
  rewrite Fheld in Hheld. destruct (Hinv Hheld) as (Hfrom & body & pre & post & Hnc & Hsk & Hdata & Hcase).
  rewrite Ffrom. split; [exact Hfrom|].
  destruct Hcase as [(Hl & Hstr & Hpost & Hcap) | (Hl & Hk)].
  - rewrite (cancel_one_live w Hl Hheld Hcap).
    exists body, pre, post. split; [exact Hnc|]. split; [exact Hsk|]. split; [exact Hdata|].
    right. split; [reflexivity|]. exists (w_key w). unfold stream. cbn. rewrite app_assoc. f_equal. exact Hstr.
  - rewrite (cancel_one_dead_id w Hl).
    exists body, pre, post. split; [exact Hnc|]. split; [exact Hsk|]. split; [exact Hdata|]. right. split; assumption.
Qed.

(* ---------------------------------------------------------------- list plumbing *)
Lemma Forall_upd_nth : forall (P : watcher -> Prop) f ws i,
  (forall w, nth_error ws i = Some w -> P w -> P (f w)) -> Forall P ws -> Forall P (upd_nth i f ws).
Proof.
  intros P f ws. induction ws as [|a ws IH]; intros i Hf Hall; [destruct i; constructor|].
  inversion Hall as [|? ? Ha Hws]; subst. destruct i as [|i]; cbn.
  - constructor; [apply Hf; [reflexivity|exact Ha]|exact Hws].
  - constructor; [exact Ha|]. apply IH; [|exact Hws]. intros w Hn. apply Hf. exact Hn.
Qed.

Lemma nth_upd_nth_same : forall f ws i w, nth_error ws i = Some w -> nth_error (upd_nth i f ws) i = Some (f w).
Proof.
  intros f ws. induction ws as [|a ws IH]; intros i w H; [destruct i; discriminate H|].
  destruct i as [|i]; cbn in *; [inversion H; reflexivity|]. apply IH. exact H.
Qed.

Lemma nth_upd_nth_any : forall f ws j i w, nth_error ws i = Some w ->
  nth_error (upd_nth j f ws) i = Some w \/ nth_error (upd_nth j f ws) i = Some (f w).
Proof.
  intros f ws. induction ws as [|a ws IH]; intros j i w H; [destruct i; discriminate H|].
  destruct j as [|j]; destruct i as [|i]; cbn in *.
  - inversion H; subst. right. reflexivity.
  - left. exact H.
  - left. exact H.
  - apply IH. exact H.
Qed.

Definition unheld_at (ws : list watcher) (i : nat) : Prop := exists w, nth_error ws i = Some w /\ w_held w = false.

Lemma unheld_upd_nth : forall f ws j i, (forall w, w_held w = false -> w_held (f w) = false) ->
  unheld_at ws i -> unheld_at (upd_nth j f ws) i.
Proof.
  intros f ws j i Hf (w & Hn & Hh). destruct (nth_upd_nth_any f ws j i w Hn) as [H|H].
  - exists w. split; assumption.
  - exists (f w). split; [exact H|apply Hf; exact Hh].
Qed.

Lemma unheld_map : forall f ws i, (forall w, w_held (f w) = w_held w) -> unheld_at ws i -> unheld_at (map f ws) i.
Proof.
  intros f ws i Hf (w & Hn & Hh). exists (f w). split; [rewrite nth_error_map, Hn; reflexivity|rewrite Hf; exact Hh].
Qed.

Lemma unheld_app : forall ws x i, unheld_at ws i -> unheld_at (ws ++ x) i.
Proof.
  intros ws x i (w & Hn & Hh). exists w. split; [|exact Hh].
  rewrite nth_error_app1; [exact Hn|]. apply nth_error_Some. rewrite Hn. discriminate.
Qed.

(* ---------------------------------------------------------------- the state invariant *)
Definition Inv (s : st) : Prop :=
  Forall (WInv (s_disp s)) (s_ws s) /\
  Forall (fun e => is_data e = true) (s_bq s) /\
  Forall (unheld_at (s_ws s)) (s_unreg s) /\
  (length (s_disp s) + length (s_bq s) <= length (s_sent s))%nat /\
  (s_lost s = 0 -> s_sent s = s_disp s ++ s_bq s /\ s_lag s = 0) /\
  Forall (fun w => (w_from w <= w_reg w)%nat) (s_ws s).

Lemma Forall_tl : forall (A : Type) (P : A -> Prop) l, Forall P l -> Forall P (tl l).
Proof. intros A P l H. destruct l; [constructor|inversion H; assumption]. Qed.

Lemma bsend_inv : forall s e, is_data e = true -> Inv s -> Inv (bsend s e).
Proof.
  intros s e Hd (I1 & I2 & I3 & I4 & I5 & I6). unfold bsend.
  assert (Hall : Forall (fun e => is_data e = true) (s_bq s ++ [e])).
  { apply Forall_app. split; [exact I2|constructor; [exact Hd|constructor]]. }
  destruct (s_qcap s <? N.of_nat (length (s_bq s ++ [e]))) eqn:Hov; unfold Inv; cbn.
  - split; [exact I1|]. split; [apply Forall_tl; exact Hall|]. split; [exact I3|]. split.
    + rewrite app_length. cbn. destruct (s_bq s); cbn in *; rewrite ?app_length; cbn; lia.
    + split; [intro H; lia|exact I6].
  - split; [exact I1|]. split; [exact Hall|]. split; [exact I3|]. split.
    + rewrite !app_length. cbn. lia.
    + split; [|exact I6]. intro H. destruct (I5 H) as (Hs & Hl). split; [rewrite Hs, app_assoc; reflexivity|exact Hl].
Qed.

Lemma entry_event_data : forall n, Forall (fun e => is_data e = true) (entry_event n).
Proof.
  intro n. unfold entry_event.
  destruct (n_kind n =? 1); [constructor; [reflexivity|constructor]|].
  destruct (n_kind n =? 2); [constructor; [reflexivity|constructor]|].
  destruct (n_kind n =? 3); [|constructor].
  destruct (n_ok n); [constructor; [reflexivity|constructor]|constructor].
Qed.

Lemma chunk_events_data : forall fail c, Forall (fun e => is_data e = true) (chunk_events fail c).
Proof.
  intros fail c. unfold chunk_events. destruct fail; [constructor|].
  induction c as [|n c IH]; cbn; [constructor|]. apply Forall_app. split; [apply entry_event_data|exact IH].
Qed.

Lemma fold_bsend_inv : forall es s, Forall (fun e => is_data e = true) es -> Inv s -> Inv (fold_left bsend es s).
Proof.
  induction es as [|e es IH]; intros s Hall Hinv; cbn; [exact Hinv|].
  inversion Hall; subst. apply IH; [assumption|]. apply bsend_inv; assumption.
Qed.

Lemma deliver_held : forall e w, w_held (deliver e w) = w_held w.
Proof. intros e w. destruct (deliver_fields e w) as (_ & _ & _ & _ & H & _). exact H. Qed.

Lemma dstep_inv : forall s, Inv s -> Inv (dstep s).
Proof.
  intros s (I1 & I2 & I3 & I4 & I5 & I6). unfold dstep.
  destruct (s_unreg s) as [|i un] eqn:Hun.
  - destruct (0 <? s_lag s) eqn:Hlag.
    + unfold Inv; cbn. rewrite ?Hun.
      split.
      { unfold cancel_all. apply Forall_forall. intros w' Hin. apply in_map_iff in Hin. destruct Hin as (w & Hw & Hin).
        subst w'. apply cancel_one_inv. rewrite Forall_forall in I1. apply I1. exact Hin. }
      split; [exact I2|]. split; [constructor|]. split; [exact I4|]. split.
      { intro H. split; [apply I5; exact H|reflexivity]. }
      { unfold cancel_all. apply Forall_forall. intros w' Hin. apply in_map_iff in Hin. destruct Hin as (w & Hw & Hin).
        subst w'. destruct (cancel_one_fields w) as (_ & _ & F1 & _ & _ & _ & F2). rewrite F1, F2.
        rewrite Forall_forall in I6. apply I6. exact Hin. }
    + destruct (s_bq s) as [|e bq] eqn:Hbq.
      * unfold Inv. rewrite ?Hun, ?Hbq. repeat split; try assumption; try (apply I5; assumption); try constructor.
      * inversion I2 as [|? ? He Hbq']; subst. unfold Inv; cbn. rewrite ?Hun.
        split.
        { unfold dispatch_event. apply Forall_forall. intros w' Hin. apply in_map_iff in Hin. destruct Hin as (w & Hw & Hin).
          rewrite Forall_forall in I1. specialize (I1 w Hin). subst w'.
          destruct (w_live w) eqn:Hl; cbn [andb].
          - rewrite matches_mt. destruct (mt w e) eqn:Hm.
            + apply deliver_match_inv; assumption.
            + apply skip_inv; [exact I1|right; exact Hm].
          - apply skip_inv; [exact I1|left; exact Hl]. }
        split; [exact Hbq'|]. split; [constructor|]. split.
        { rewrite app_length. cbn in *. lia. }
        split.
        { intro H. destruct (I5 H) as (Hs & Hl). split; [rewrite Hs, <- app_assoc; reflexivity|exact Hl]. }
        { unfold dispatch_event. apply Forall_forall. intros w' Hin. apply in_map_iff in Hin. destruct Hin as (w & Hw & Hin).
          rewrite Forall_forall in I6. specialize (I6 w Hin). subst w'.
          destruct (w_live w && matches w (e_key e)); [|exact I6].
          destruct (deliver_fields e w) as (_ & _ & F1 & _ & _ & _ & F2). rewrite F1, F2. exact I6. }
  - inversion I3 as [|? ? Hi Hrest]; subst. unfold Inv; cbn.
    split.
    { apply Forall_upd_nth; [|exact I1]. intros w Hn _. destruct Hi as (w0 & Hn0 & Hh). rewrite Hn in Hn0. inversion Hn0; subst.
      apply kill_unheld_inv. exact Hh. }
    split; [exact I2|]. split.
    { eapply Forall_impl; [|exact Hrest]. intros j Hj. apply unheld_upd_nth; [intros w H; exact H|exact Hj]. }
    split; [exact I4|]. split; [exact I5|].
    apply Forall_upd_nth; [|exact I6]. intros w _ H. exact H.
Qed.

Lemma iter_inv : forall n s, Inv s -> Inv (iter n s).
Proof. induction n as [|n IH]; intros s H; cbn; [exact H|]. apply IH. apply dstep_inv. exact H. Qed.

Lemma run_idle_inv : forall s, Inv s -> Inv (run_idle s).
Proof. intros s H. unfold run_idle. apply iter_inv. exact H. Qed.

Lemma step_inv : forall s l, Inv s -> Inv (step s l).
Proof.
  intros s l Hinv. destruct l as [pre k det|fail c| |i n|i| |]; cbn [step].
  - (* register *)
    destruct (reg_status s pre k =? 0); [|exact Hinv].
    destruct Hinv as (I1 & I2 & I3 & I4 & I5 & I6). unfold Inv; cbn.
    split.
    { apply Forall_app. split; [exact I1|]. constructor; [|constructor].
      intros _. cbn. split; [lia|]. exists [], [], []. split; [reflexivity|]. split; [apply skipn_all|]. split; [reflexivity|].
      left. unfold stream. cbn. repeat split. lia. }
    split; [exact I2|]. split.
    { eapply Forall_impl; [|exact I3]. intros j Hj. apply unheld_app. exact Hj. }
    split; [exact I4|]. split; [exact I5|].
    apply Forall_app. split; [exact I6|]. constructor; [cbn; lia|constructor].
  - apply fold_bsend_inv; [apply chunk_events_data|exact Hinv].
  - apply run_idle_inv. exact Hinv.
  - (* recv *)
    unfold nth_w. destruct (nth_error (s_ws s) i) as [w|] eqn:Hn; [|exact Hinv].
    destruct (w_held w); [|exact Hinv].
    destruct Hinv as (I1 & I2 & I3 & I4 & I5 & I6). unfold Inv; cbn.
    split; [apply Forall_upd_nth; [intros w0 _ H; apply take_inv; exact H|exact I1]|].
    split; [exact I2|]. split.
    { eapply Forall_impl; [|exact I3]. intros j Hj. apply unheld_upd_nth; [intros w0 H; exact H|exact Hj]. }
    split; [exact I4|]. split; [exact I5|].
    apply Forall_upd_nth; [|exact I6]. intros w0 _ H. exact H.
  - (* drop *)
    unfold nth_w. destruct (nth_error (s_ws s) i) as [w|] eqn:Hn; [|exact Hinv].
    destruct (w_held w); [|exact Hinv].
    destruct Hinv as (I1 & I2 & I3 & I4 & I5 & I6).
    assert (J1 : Forall (WInv (s_disp s)) (upd_nth i unhold (s_ws s))).
    { apply Forall_upd_nth; [intros w0 _ _; apply unhold_inv|exact I1]. }
    assert (J3 : Forall (unheld_at (upd_nth i unhold (s_ws s))) (s_unreg s)).
    { eapply Forall_impl; [|exact I3]. intros j Hj. apply unheld_upd_nth; [intros w0 _; reflexivity|exact Hj]. }
    assert (J6 : Forall (fun w => (w_from w <= w_reg w)%nat) (upd_nth i unhold (s_ws s))).
    { apply Forall_upd_nth; [|exact I6]. intros w0 _ H. exact H. }
    destruct (w_det w); unfold Inv; cbn.
    + split; [exact J1|]. split; [exact I2|]. split; [exact J3|]. split; [exact I4|]. split; [exact I5|exact J6].
    + split; [exact J1|]. split; [exact I2|]. split.
      { apply Forall_app. split; [exact J3|]. constructor; [|constructor].
        exists (unhold w). split; [apply nth_upd_nth_same; exact Hn|reflexivity]. }
      split; [exact I4|]. split; [exact I5|exact J6].
  - (* tick *)
    pose proof (run_idle_inv s Hinv) as H1.
    destruct (s_hb s); [|exact H1].
    destruct H1 as (I1 & I2 & I3 & I4 & I5 & I6). unfold Inv; cbn.
    split.
    { unfold dispatch_progress. apply Forall_forall. intros w' Hin. apply in_map_iff in Hin. destruct Hin as (w & Hw & Hin).
      rewrite Forall_forall in I1. specialize (I1 w Hin). subst w'.
      destruct (w_live w) eqn:Hl; [|exact I1]. apply deliver_progress_inv; try assumption; reflexivity. }
    split; [exact I2|]. split.
    { eapply Forall_impl; [|exact I3]. intros j Hj. apply unheld_map; [|exact Hj].
      intro w. destruct (w_live w); [apply deliver_held|reflexivity]. }
    split; [exact I4|]. split; [exact I5|].
    unfold dispatch_progress. apply Forall_forall. intros w' Hin. apply in_map_iff in Hin. destruct Hin as (w & Hw & Hin).
    rewrite Forall_forall in I6. specialize (I6 w Hin). subst w'.
    destruct (w_live w); [|exact I6].
    destruct (deliver_fields (progress_ev (run_idle s)) w) as (_ & _ & F1 & _ & _ & _ & F2). rewrite F1, F2. exact I6.
  - apply dstep_inv. exact Hinv.
Qed.

Lemma init_inv : forall b q m hb a, Inv (init b q m hb a).
Proof.
  intros. unfold Inv, init; cbn. repeat split; try constructor. 
Qed.

Lemma run_inv : forall ls s, Inv s -> Inv (run s ls).
Proof.
  induction ls as [|l ls IH]; intros s H; cbn; [exact H|]. apply IH. apply step_inv. exact H.
Qed.

(* ================================================================ the statements *)
Definition shape (w : watcher) (sent rest : list wev) : Prop :=
  exists body pre post,
    nocancel body = true /\ skipn (w_from w) sent = pre ++ post /\ data body = filter (mt w) pre /\
    ((w_live w = true /\ stream w = body /\ post = rest) \/
     (w_live w = false /\ exists k, stream w = body ++ [cancel_ev k])).

(* relative to what the dispatcher has dispatched: holds on every schedule, overflow or not *)
Theorem stream_vs_dispatched : forall b q m hb a ls w,
  let s := run (init b q m hb a) ls in
  In w (s_ws s) -> w_held w = true -> shape w (s_disp s) [].
Proof.
  intros b q m hb a ls w s Hin Hheld.
  destruct (run_inv ls _ (init_inv b q m hb a)) as (I1 & _). fold s in I1.
  rewrite Forall_forall in I1. destruct (I1 w Hin Hheld) as (_ & body & pre & post & Hnc & Hsk & Hd & Hc).
  exists body, pre, post. split; [exact Hnc|]. split; [exact Hsk|]. split; [exact Hd|].
  destruct Hc as [(A & B & C & _)|Hc]; [left; repeat split; assumption|right; exact Hc].
Qed.

(* relative to what was committed and broadcast, when the broadcast channel never overflowed *)
Theorem stream_spec : forall b q m hb a ls w,
  let s := run (init b q m hb a) ls in
  s_lost s = 0 -> In w (s_ws s) -> w_held w = true ->
  (w_from w <= w_reg w)%nat /\ shape w (s_sent s) (s_bq s).
Proof.
  intros b q m hb a ls w s Hlost Hin Hheld.
  destruct (run_inv ls _ (init_inv b q m hb a)) as (I1 & _ & _ & _ & I5 & I6). fold s in I1, I5, I6.
  rewrite Forall_forall in I1, I6. split; [apply I6; exact Hin|].
  destruct (I1 w Hin Hheld) as (Hfrom & body & pre & post & Hnc & Hsk & Hd & Hc).
  destruct (I5 Hlost) as (Hsent & _).
  assert (Hsk' : skipn (w_from w) (s_sent s) = pre ++ post ++ s_bq s).
  { rewrite Hsent, skipn_app, Hsk. replace (w_from w - length (s_disp s))%nat with 0%nat by lia.
    cbn. rewrite app_assoc. reflexivity. }
  exists body, pre, (post ++ s_bq s). split; [exact Hnc|]. split; [exact Hsk'|]. split; [exact Hd|].
  destruct Hc as [(A & B & C & _)|Hc]; [left; subst post; repeat split; assumption|right; exact Hc].
Qed.

Lemma skipn_skipn' : forall (A : Type) y x (l : list A), skipn x (skipn y l) = skipn (y + x) l.
Proof.
  induction y as [|y IH]; intros x l; [reflexivity|].
  destruct l as [|a l]; cbn; [rewrite skipn_nil; reflexivity|]. apply IH.
Qed.

Lemma skipn_split_filter : forall (f : wev -> bool) a b (l : list wev), (a <= b)%nat ->
  exists early, filter f (skipn a l) = early ++ filter f (skipn b l).
Proof.
  intros f a b l Hab. exists (filter f (firstn (b - a) (skipn a l))).
  rewrite <- filter_app. f_equal.
  replace (skipn b l) with (skipn (b - a) (skipn a l)); [symmetry; apply firstn_skipn|].
  rewrite skipn_skipn'. f_equal. lia.
Qed.

(* once the dispatcher is idle, a live watcher has (received or buffered) every matching event committed since
   its registration, and nothing else but progress events *)
Theorem complete_when_idle : forall b q m hb a ls w,
  let s := run (init b q m hb a) ls in
  s_lost s = 0 -> s_bq s = [] -> In w (s_ws s) -> w_held w = true -> w_live w = true ->
  nocancel (stream w) = true /\
  exists early, data (stream w) = early ++ filter (mt w) (skipn (w_reg w) (s_sent s)).
Proof.
  intros b q m hb a ls w s Hlost Hbq Hin Hheld Hlive.
  destruct (stream_spec b q m hb a ls w Hlost Hin Hheld) as (Hfr & body & pre & post & Hnc & Hsk & Hd & Hc).
  fold s in Hsk, Hc.
  destruct Hc as [(_ & Hstr & Hpost)|(Hl & _)]; [|rewrite Hl in Hlive; discriminate].
  rewrite Hstr. split; [exact Hnc|].
  rewrite Hbq in Hpost. subst post. rewrite app_nil_r in Hsk. rewrite Hd, <- Hsk.
  apply skipn_split_filter. exact Hfr.
Qed.

(* ---- the handler side *)
Definition label_events (l : label) : list wev :=
  match l with LApply fail c => chunk_events fail c | _ => [] end.

Lemma bsend_sent : forall s e, s_sent (bsend s e) = s_sent s ++ [e].
Proof. intros s e. unfold bsend. destruct (s_qcap s <? _); reflexivity. Qed.
Lemma fold_bsend_sent : forall es s, s_sent (fold_left bsend es s) = s_sent s ++ es.
Proof.
  induction es as [|e es IH]; intro s; cbn; [rewrite app_nil_r; reflexivity|].
  rewrite IH, bsend_sent, <- app_assoc. reflexivity.
Qed.
Lemma dstep_sent : forall s, s_sent (dstep s) = s_sent s.
Proof.
  intro s. unfold dstep. destruct (s_unreg s); [|reflexivity].
  destruct (0 <? s_lag s); [reflexivity|]. destruct (s_bq s); reflexivity.
Qed.
Lemma iter_sent : forall n s, s_sent (iter n s) = s_sent s.
Proof. induction n as [|n IH]; intro s; cbn; [reflexivity|]. rewrite IH. apply dstep_sent. Qed.

Lemma step_sent : forall s l, s_sent (step s l) = s_sent s ++ label_events l.
Proof.
  intros s l. destruct l as [pre k det|fail c| |i n|i| |]; cbn [step label_events]; rewrite ?app_nil_r.
  - destruct (reg_status s pre k =? 0); reflexivity.
  - apply fold_bsend_sent.
  - apply iter_sent.
  - unfold nth_w. destruct (nth_error (s_ws s) i) as [w|]; [|reflexivity]. destruct (w_held w); reflexivity.
  - unfold nth_w. destruct (nth_error (s_ws s) i) as [w|]; [|reflexivity]. destruct (w_held w); [|reflexivity].
    destruct (w_det w); reflexivity.
  - destruct (s_hb s); [cbn|]; apply iter_sent.
  - apply dstep_sent.
Qed.

(* the events broadcast are exactly those of the successfully applied chunks, in schedule order *)
Theorem sent_are_committed_changes : forall b q m hb a ls,
  s_sent (run (init b q m hb a) ls) = flat_map label_events ls.
Proof.
  intros b q m hb a ls.
  assert (H : forall ls s, s_sent (run s ls) = s_sent s ++ flat_map label_events ls).
  { induction ls0 as [|l ls0 IH]; intro s; cbn; [rewrite app_nil_r; reflexivity|].
    unfold run in IH. rewrite IH, step_sent, <- app_assoc. reflexivity. }
  rewrite H. reflexivity.
Qed.

Theorem entry_event_spec : forall n e, In e (entry_event n) ->
  (n_kind n = 1 \/ n_kind n = 2 \/ (n_kind n = 3 /\ n_ok n = true)) /\
  e_key e = n_key n /\ e_rev e = n_idx n /\ is_data e = true.
Proof.
  intros n e. unfold entry_event.
  destruct (N.eqb_spec (n_kind n) 1) as [K1|K1].
  { intros [H|[]]; subst e; cbn; repeat split; auto. }
  destruct (N.eqb_spec (n_kind n) 2) as [K2|K2].
  { intros [H|[]]; subst e; cbn; repeat split; auto. }
  destruct (N.eqb_spec (n_kind n) 3) as [K3|K3]; [|intros []].
  destruct (n_ok n) eqn:Hok; [|intros []].
  intros [H|[]]; subst e; cbn; repeat split; auto.
Qed.

Theorem failed_cas_no_event : forall n, n_kind n = 3 -> n_ok n = false -> entry_event n = [].
Proof. intros n K O. unfold entry_event. rewrite K, O. reflexivity. Qed.

Theorem failed_chunk_no_event : forall c, chunk_events true c = [].
Proof. reflexivity. Qed.

(* ---- prefix matching *)
Lemma keqb_eq : forall a b, keqb a b = true <-> a = b.
Proof.
  induction a as [|x a IH]; intros [|y b]; cbn; split; intro H; try reflexivity; try discriminate.
  - apply andb_true_iff in H. destruct H as (H1 & H2). apply N.eqb_eq in H1. apply IH in H2. subst. reflexivity.
  - inversion H; subst. rewrite N.eqb_refl. cbn. apply IH. reflexivity.
Qed.

Lemma psegs_spec : forall k p, In p (psegs k) <-> exists p0 r, p = p0 ++ [47] /\ k = p ++ r.
Proof.
  induction k as [|c k IH]; intro p; cbn [psegs].
  - split; [intros []|]. intros (p0 & r & Hp & Hk). subst p. destruct p0; discriminate Hk.
  - rewrite in_app_iff. split.
    + intros [H|H].
      * destruct (N.eqb_spec c 47) as [E|E]; [|destruct H]. destruct H as [H|[]]. subst p c.
        exists [], k. split; reflexivity.
      * apply in_map_iff in H. destruct H as (p' & Hp & Hin). apply IH in Hin. destruct Hin as (p0 & r & Hp0 & Hk).
        subst p p' k. exists (c :: p0), r. split; reflexivity.
    + intros (p0 & r & Hp & Hk). subst p. destruct p0 as [|x p0]; cbn in Hk; inversion Hk; subst.
      * left. cbn. left. reflexivity.
      * right. apply in_map_iff. exists (p0 ++ [47]). split; [reflexivity|]. apply IH. exists p0, r. split; reflexivity.
Qed.

(* the lookup the dispatcher performs = "exactly its key, or the keys under its '/'-terminated prefix" *)
Theorem matchk_spec : forall pre wk k,
  matchk pre wk k = true <->
  (if pre then (exists p0, wk = p0 ++ [47]) /\ (exists r, k = wk ++ r) else wk = k).
Proof.
  intros pre wk k. unfold matchk. destruct pre; [|apply keqb_eq].
  rewrite existsb_exists. split.
  - intros (p & Hin & He). apply keqb_eq in He. subst p. apply psegs_spec in Hin. destruct Hin as (p0 & r & Hp & Hk).
    split; [exists p0; exact Hp|exists r; exact Hk].
  - intros ((p0 & Hp) & (r & Hk)). exists wk. split; [apply psegs_spec; exists p0, r; split; assumption|apply keqb_eq; reflexivity].
Qed.

Theorem valid_prefix_slash : forall p, valid_prefix p = true -> exists p0, p = p0 ++ [47].
Proof.
  intros p H. unfold valid_prefix in H. destruct p as [|c p]; [discriminate H|].
  apply andb_true_iff in H. destruct H as (_ & Hl). apply N.eqb_eq in Hl.
  exists (removelast (c :: p)). rewrite <- Hl. apply app_removelast_last. discriminate.
Qed.

(* ---- revisions *)
From Coq Require Import Sorted.
Definition rev_lt (a b : wev) : Prop := e_rev a < e_rev b.

Lemma ss_app : forall (l1 l2 : list wev), StronglySorted rev_lt (l1 ++ l2) -> StronglySorted rev_lt l1 /\ StronglySorted rev_lt l2.
Proof.
  induction l1 as [|x l1 IH]; intros l2 H; cbn in *; [split; [constructor|exact H]|].
  inversion H as [|? ? Hs Hf]; subst. destruct (IH l2 Hs) as (A & B). split; [|exact B].
  constructor; [exact A|]. apply Forall_app in Hf. destruct Hf as (Hf & _). exact Hf.
Qed.

Lemma ss_filter : forall f (l : list wev), StronglySorted rev_lt l -> StronglySorted rev_lt (filter f l).
Proof.
  intros f l. induction l as [|x l IH]; intro H; cbn; [constructor|].
  inversion H as [|? ? Hs Hf]; subst. destruct (f x); [|apply IH; exact Hs].
  constructor; [apply IH; exact Hs|]. rewrite Forall_forall in *. intros y Hy. apply filter_In in Hy. apply Hf. tauto.
Qed.

(* Full statement: for every schedule (overflow or not) the put/delete events a watcher receives carry strictly
   increasing revisions whenever the applied indexes are strictly increasing. Proved here for the schedules
   without broadcast overflow; missing for the overflow case: the invariant that s_disp ++ s_bq is a subsequence
   of s_sent (then the same argument goes through stream_vs_dispatched). *)
Theorem revisions_increasing_partial : forall b q m hb a ls w,
  let s := run (init b q m hb a) ls in
  s_lost s = 0 -> In w (s_ws s) -> w_held w = true ->
  StronglySorted rev_lt (s_sent s) -> StronglySorted rev_lt (data (stream w)).
Proof.
  intros b q m hb a ls w s Hlost Hin Hheld Hsorted.
  destruct (stream_spec b q m hb a ls w Hlost Hin Hheld) as (_ & body & pre & post & _ & Hsk & Hd & Hc).
  fold s in Hsk, Hc.
  assert (Hb : StronglySorted rev_lt (data body)).
  { rewrite Hd. apply ss_filter. rewrite <- (firstn_skipn (w_from w) (s_sent s)) in Hsorted.
    apply ss_app in Hsorted. destruct Hsorted as (_ & H2). rewrite Hsk in H2. apply ss_app in H2. tauto. }
  destruct Hc as [(_ & Hstr & _)|(_ & k & Hstr)]; rewrite Hstr; [exact Hb|].
  rewrite data_app. cbn. rewrite app_nil_r. exact Hb.
Qed.

(* ================================================================ the invariant relative to what was BROADCAST
   (the committed changes), every schedule, overflow or not. [start] = the position in s_sent of the first event
   the watcher could see (the head of the dispatcher's queue when it registered). *)
Definition WS (sent bq : list wev) (lag : N) (w : watcher) : Prop :=
  w_held w = true ->
  exists start body pre post,
    (start <= w_reg w)%nat /\ nocancel body = true /\ skipn start sent = pre ++ post /\ data body = filter (mt w) pre /\
    ((w_live w = true /\ stream w = body /\ N.of_nat (length (w_q w)) < w_cap w /\ (lag = 0 -> post = bq))
     \/ (w_live w = false /\ exists k, stream w = body ++ [cancel_ev k])).

Definition InvS (s : st) : Prop :=
  Forall (WS (s_sent s) (s_bq s) (s_lag s)) (s_ws s) /\
  Forall (fun e => is_data e = true) (s_bq s) /\
  Forall (unheld_at (s_ws s)) (s_unreg s) /\
  Forall (fun w => (w_reg w <= length (s_sent s))%nat) (s_ws s) /\
  (exists gone, s_sent s = gone ++ s_bq s).

Lemma skipn_app_exact : forall (A : Type) (a b : list A), skipn (length a) (a ++ b) = b.
Proof. intros A a b. induction a as [|x a IH]; cbn; [reflexivity|exact IH]. Qed.

(* an event is broadcast *)
Lemma ws_send : forall sent bq lag e w bq' lag',
  (w_reg w <= length sent)%nat -> WS sent bq lag w ->
  (lag' = 0 -> lag = 0 /\ bq' = bq ++ [e]) -> WS (sent ++ [e]) bq' lag' w.
Proof.
  intros sent bq lag e w bq' lag' Hreg Hws Hq Hheld.
  destruct (Hws Hheld) as (start & body & pre & post & Hst & Hnc & Hsk & Hd & Hc).
  exists start, body, pre, (post ++ [e]). split; [exact Hst|]. split; [exact Hnc|]. split.
  { rewrite skipn_snoc by lia. rewrite Hsk, app_assoc. reflexivity. }
  split; [exact Hd|].
  destruct Hc as [(Hl & Hs & Hcap & Hp)|Hc]; [left|right; exact Hc].
  split; [exact Hl|]. split; [exact Hs|]. split; [exact Hcap|].
  intro H. destruct (Hq H) as (H0 & Hb). rewrite Hb, (Hp H0). reflexivity.
Qed.

(* the dispatcher takes the head of its queue (no lag pending) *)
Lemma ws_dispatch : forall sent e bq w, is_data e = true ->
  WS sent (e :: bq) 0 w -> WS sent bq 0 (if w_live w && matches w (e_key e) then deliver e w else w).
Proof.
  intros sent e bq w Hd Hws.
  destruct (w_live w) eqn:Hl; cbn [andb]; [rewrite matches_mt; destruct (mt w e) eqn:Hm|]; intro Hheld.
  - (* delivered *)
    destruct (deliver_fields e w) as (_ & _ & _ & _ & Fheld & _ & _).
    rewrite Fheld in Hheld. destruct (Hws Hheld) as (start & body & pre & post & Hst & Hnc & Hsk & Hdata & Hcase).
    destruct Hcase as [(_ & Hstr & Hcap & Hpost) | (Hl' & _)]; [| rewrite Hl' in Hl; discriminate].
    specialize (Hpost eq_refl). subst post.
    unfold deliver. rewrite Hheld. cbn [negb].
    destruct (N.leb_spec (w_cap w - N.of_nat (length (w_q w))) 1) as [Hle|Hgt].
    + assert (Hav : w_cap w - N.of_nat (length (w_q w)) = 1) by lia.
      rewrite Hav. cbn [N.eqb Pos.eqb].
      exists start, body, pre, (e :: bq). split; [exact Hst|]. split; [exact Hnc|]. split; [exact Hsk|]. split; [exact Hdata|].
      right. split; [reflexivity|]. exists (e_key e). unfold stream. cbn. rewrite app_assoc. f_equal. exact Hstr.
    + exists start, (body ++ [e]), (pre ++ [e]), bq. split; [exact Hst|]. split.
      { rewrite nocancel_app, Hnc. cbn. rewrite (is_data_not_cancel e Hd). reflexivity. }
      split; [rewrite Hsk, <- app_assoc; reflexivity|]. split.
      { rewrite data_app, filter_app, Hdata. cbn. rewrite Hd.
        assert (Hm' : mt (set_q w (w_q w ++ [e])) e = true) by exact Hm. rewrite Hm'. reflexivity. }
      left. split; [exact Hl|]. split; [unfold stream; cbn; rewrite app_assoc; f_equal; exact Hstr|].
      split; [cbn; rewrite app_length; cbn; lia|]. intros _. reflexivity.
  - (* live, not reached by the lookup *)
    destruct (Hws Hheld) as (start & body & pre & post & Hst & Hnc & Hsk & Hdata & Hcase).
    destruct Hcase as [(_ & Hstr & Hcap & Hpost) | (Hl' & _)]; [| rewrite Hl' in Hl; discriminate].
    specialize (Hpost eq_refl). subst post.
    exists start, body, (pre ++ [e]), bq. split; [exact Hst|]. split; [exact Hnc|].
    split; [rewrite Hsk, <- app_assoc; reflexivity|]. split.
    { rewrite filter_app, Hdata. cbn. rewrite Hm. rewrite app_nil_r. reflexivity. }
    left. split; [exact Hl|]. split; [exact Hstr|]. split; [exact Hcap|]. intros _. reflexivity.
  - (* unregistered: frozen *)
    destruct (Hws Hheld) as (start & body & pre & post & Hst & Hnc & Hsk & Hdata & Hcase).
    destruct Hcase as [(Hl' & _) | Hdead]; [rewrite Hl' in Hl; discriminate|].
    exists start, body, pre, post. split; [exact Hst|]. split; [exact Hnc|]. split; [exact Hsk|]. split; [exact Hdata|].
    right. exact Hdead.
Qed.

Lemma ws_progress : forall sent bq lag p w, is_data p = false -> (e_ty p =? T_CANCEL) = false ->
  WS sent bq lag w -> WS sent bq lag (if w_live w then deliver p w else w).
Proof.
  intros sent bq lag p w Hnd Hncp Hws. destruct (w_live w) eqn:Hl; [|exact Hws]. intro Hheld.
  destruct (deliver_fields p w) as (_ & _ & _ & _ & Fheld & _ & _).
  rewrite Fheld in Hheld. destruct (Hws Hheld) as (start & body & pre & post & Hst & Hnc & Hsk & Hdata & Hcase).
  destruct Hcase as [(_ & Hstr & Hcap & Hpost) | (Hl' & _)]; [| rewrite Hl' in Hl; discriminate].
  unfold deliver. rewrite Hheld. cbn [negb].
  destruct (N.leb_spec (w_cap w - N.of_nat (length (w_q w))) 1) as [Hle|Hgt].
  - assert (Hav : w_cap w - N.of_nat (length (w_q w)) = 1) by lia.
    rewrite Hav. cbn [N.eqb Pos.eqb].
    exists start, body, pre, post. split; [exact Hst|]. split; [exact Hnc|]. split; [exact Hsk|]. split; [exact Hdata|].
    right. split; [reflexivity|]. exists (e_key p). unfold stream. cbn. rewrite app_assoc. f_equal. exact Hstr.
  - exists start, (body ++ [p]), pre, post. split; [exact Hst|]. split.
    { rewrite nocancel_app, Hnc. cbn. rewrite Hncp. reflexivity. }
    split; [exact Hsk|]. split.
    { rewrite data_app. cbn. rewrite Hnd, app_nil_r. exact Hdata. }
    left. split; [exact Hl|]. split; [unfold stream; cbn; rewrite app_assoc; f_equal; exact Hstr|].
    split; [cbn; rewrite app_length; cbn; lia|exact Hpost].
Qed.

Lemma ws_take : forall sent bq lag n w, WS sent bq lag w -> WS sent bq lag (take n w).
Proof.
  intros sent bq lag n w Hws Hheld. cbn in Hheld.
  destruct (Hws Hheld) as (start & body & pre & post & Hst & Hnc & Hsk & Hdata & Hcase).
  exists start, body, pre, post. split; [exact Hst|]. split; [exact Hnc|]. split; [exact Hsk|]. split; [exact Hdata|].
  assert (Hs : stream (take n w) = stream w).
  { unfold stream. cbn. rewrite <- app_assoc. rewrite firstn_skipn. reflexivity. }
  destruct Hcase as [(Hl & Hstr & Hcap & Hpost) | (Hl & k & Hk)].
  - left. split; [exact Hl|]. split; [rewrite Hs; exact Hstr|]. split; [|exact Hpost].
    cbn. rewrite skipn_length. lia.
  - right. split; [exact Hl|]. exists k. rewrite Hs. exact Hk.
Qed.

(* the Lagged arm: every registered watcher gets CANCELED and is unregistered *)
Lemma ws_cancel : forall sent bq lag w, WS sent bq lag w -> WS sent bq 0 (cancel_one w).
Proof.
  intros sent bq lag w Hws Hheld.
  destruct (cancel_one_fields w) as (_ & _ & _ & _ & Fheld & _ & Freg).
  rewrite Fheld in Hheld. destruct (Hws Hheld) as (start & body & pre & post & Hst & Hnc & Hsk & Hdata & Hcase).
  destruct Hcase as [(Hl & Hstr & Hcap & _) | (Hl & Hk)].
  - rewrite (cancel_one_live w Hl Hheld Hcap).
    exists start, body, pre, post. split; [exact Hst|]. split; [exact Hnc|]. split; [exact Hsk|]. split; [exact Hdata|].
    right. split; [reflexivity|]. exists (w_key w). unfold stream. cbn. rewrite app_assoc. f_equal. exact Hstr.
  - rewrite (cancel_one_dead_id w Hl).
    exists start, body, pre, post. split; [exact Hst|]. split; [exact Hnc|]. split; [exact Hsk|]. split; [exact Hdata|].
    right. split; assumption.
Qed.

Lemma ws_unheld : forall sent bq lag w, w_held w = false -> WS sent bq lag w.
Proof. intros sent bq lag w H H'. rewrite H in H'. discriminate H'. Qed.

Lemma bsend_invS : forall s e, is_data e = true -> InvS s -> InvS (bsend s e).
Proof.
  intros s e Hd (J1 & J2 & J3 & J4 & (gone & Hg)). unfold bsend.
  assert (Hall : Forall (fun e => is_data e = true) (s_bq s ++ [e])).
  { apply Forall_app. split; [exact J2|constructor; [exact Hd|constructor]]. }
  assert (Hreg : Forall (fun w => (w_reg w <= length (s_sent s ++ [e]))%nat) (s_ws s)).
  { eapply Forall_impl; [|exact J4]. intros w H. cbn beta in *. rewrite app_length. cbn. lia. }
  rewrite Forall_forall in J1, J4.
  destruct (s_qcap s <? N.of_nat (length (s_bq s ++ [e]))) eqn:Hov; unfold InvS; cbn.
  - split.
    { apply Forall_forall. intros w Hin. apply ws_send with (bq := s_bq s) (lag := s_lag s); [apply J4; exact Hin|apply J1; exact Hin|].
      intro H. exfalso. lia. }
    split; [apply Forall_tl; exact Hall|]. split; [exact J3|]. split; [exact Hreg|].
    destruct (s_bq s ++ [e]) as [|h t] eqn:E.
    + exists (gone ++ s_bq s ++ [e]). rewrite Hg, <- app_assoc. cbn. rewrite app_nil_r. reflexivity.
    + exists (gone ++ [h]). rewrite Hg, <- !app_assoc. rewrite E. reflexivity.
  - split.
    { apply Forall_forall. intros w Hin. apply ws_send with (bq := s_bq s) (lag := s_lag s); [apply J4; exact Hin|apply J1; exact Hin|].
      intro H. split; [exact H|reflexivity]. }
    split; [exact Hall|]. split; [exact J3|]. split; [exact Hreg|].
    exists gone. rewrite Hg, app_assoc. reflexivity.
Qed.

Lemma fold_bsend_invS : forall es s, Forall (fun e => is_data e = true) es -> InvS s -> InvS (fold_left bsend es s).
Proof.
  induction es as [|e es IH]; intros s Hall Hinv; cbn; [exact Hinv|].
  inversion Hall; subst. apply IH; [assumption|]. apply bsend_invS; assumption.
Qed.

Lemma dstep_invS : forall s, InvS s -> InvS (dstep s).
Proof.
  intros s (J1 & J2 & J3 & J4 & (gone & Hg)). unfold dstep.
  destruct (s_unreg s) as [|i un] eqn:Hun.
  - destruct (0 <? s_lag s) eqn:Hlag.
    + unfold InvS; cbn. rewrite ?Hun.
      split.
      { unfold cancel_all. apply Forall_forall. intros w' Hin. apply in_map_iff in Hin. destruct Hin as (w & Hw & Hin).
        subst w'. apply ws_cancel with (lag := s_lag s). rewrite Forall_forall in J1. apply J1. exact Hin. }
      split; [exact J2|]. split; [constructor|]. split.
      { unfold cancel_all. apply Forall_forall. intros w' Hin. apply in_map_iff in Hin. destruct Hin as (w & Hw & Hin).
        subst w'. destruct (cancel_one_fields w) as (_ & _ & _ & _ & _ & _ & F2). rewrite F2.
        rewrite Forall_forall in J4. apply J4. exact Hin. }
      exists gone. exact Hg.
    + assert (Hl0 : s_lag s = 0) by (apply N.ltb_ge in Hlag; lia).
      destruct (s_bq s) as [|e bq] eqn:Hbq.
      * unfold InvS. rewrite ?Hun, ?Hbq. split; [exact J1|]. split; [exact J2|]. split; [constructor|]. split; [exact J4|].
        exists gone. exact Hg.
      * inversion J2 as [|? ? He Hbq']; subst. unfold InvS; cbn. rewrite ?Hun. rewrite Hl0 in *.
        split.
        { unfold dispatch_event. apply Forall_forall. intros w' Hin. apply in_map_iff in Hin. destruct Hin as (w & Hw & Hin).
          rewrite Forall_forall in J1. specialize (J1 w Hin). subst w'. apply ws_dispatch; assumption. }
        split; [exact Hbq'|]. split; [constructor|]. split.
        { unfold dispatch_event. apply Forall_forall. intros w' Hin. apply in_map_iff in Hin. destruct Hin as (w & Hw & Hin).
          rewrite Forall_forall in J4. specialize (J4 w Hin). subst w'.
          destruct (w_live w && matches w (e_key e)); [|exact J4].
          destruct (deliver_fields e w) as (_ & _ & _ & _ & _ & _ & F2). rewrite F2. exact J4. }
        exists (gone ++ [e]). rewrite Hg, <- app_assoc. reflexivity.
  - inversion J3 as [|? ? Hi Hrest]; subst. unfold InvS; cbn.
    split.
    { apply Forall_upd_nth; [|exact J1]. intros w Hn _. destruct Hi as (w0 & Hn0 & Hh). rewrite Hn in Hn0. inversion Hn0; subst.
      apply ws_unheld. exact Hh. }
    split; [exact J2|]. split.
    { eapply Forall_impl; [|exact Hrest]. intros j Hj. apply unheld_upd_nth; [intros w H; exact H|exact Hj]. }
    split; [|exists gone; exact Hg].
    apply Forall_upd_nth; [|exact J4]. intros w _ H. exact H.
Qed.

Lemma iter_invS : forall n s, InvS s -> InvS (iter n s).
Proof. induction n as [|n IH]; intros s H; cbn; [exact H|]. apply IH. apply dstep_invS. exact H. Qed.

Lemma run_idle_invS : forall s, InvS s -> InvS (run_idle s).
Proof. intros s H. unfold run_idle. apply iter_invS. exact H. Qed.

Lemma step_invS : forall s l, InvS s -> InvS (step s l).
Proof.
  intros s l Hinv. destruct l as [pre k det|fail c| |i n|i| |]; cbn [step].
  - (* register *)
    destruct (reg_status s pre k =? 0); [|exact Hinv].
    destruct Hinv as (J1 & J2 & J3 & J4 & (gone & Hg)). unfold InvS; cbn.
    split.
    { apply Forall_app. split; [exact J1|]. constructor; [|constructor].
      intros _. cbn. exists (length gone), [], [], (s_bq s).
      split; [rewrite Hg, app_length; lia|]. split; [reflexivity|].
      split; [rewrite Hg; apply skipn_app_exact|]. split; [reflexivity|].
      left. unfold stream. cbn. split; [reflexivity|]. split; [reflexivity|]. split; [lia|]. intros _. reflexivity. }
    split; [exact J2|]. split.
    { eapply Forall_impl; [|exact J3]. intros j Hj. apply unheld_app. exact Hj. }
    split; [|exists gone; exact Hg].
    apply Forall_app. split; [exact J4|]. constructor; [cbn; lia|constructor].
  - apply fold_bsend_invS; [apply chunk_events_data|exact Hinv].
  - apply run_idle_invS. exact Hinv.
  - (* recv *)
    unfold nth_w. destruct (nth_error (s_ws s) i) as [w|] eqn:Hn; [|exact Hinv].
    destruct (w_held w); [|exact Hinv].
    destruct Hinv as (J1 & J2 & J3 & J4 & J5). unfold InvS; cbn.
    split; [apply Forall_upd_nth; [intros w0 _ H; apply ws_take; exact H|exact J1]|].
    split; [exact J2|]. split.
    { eapply Forall_impl; [|exact J3]. intros j Hj. apply unheld_upd_nth; [intros w0 H; exact H|exact Hj]. }
    split; [|exact J5].
    apply Forall_upd_nth; [|exact J4]. intros w0 _ H. exact H.
  - (* drop *)
    unfold nth_w. destruct (nth_error (s_ws s) i) as [w|] eqn:Hn; [|exact Hinv].
    destruct (w_held w); [|exact Hinv].
    destruct Hinv as (J1 & J2 & J3 & J4 & J5).
    assert (K1 : Forall (WS (s_sent s) (s_bq s) (s_lag s)) (upd_nth i unhold (s_ws s))).
    { apply Forall_upd_nth; [intros w0 _ _; apply ws_unheld; reflexivity|exact J1]. }
    assert (K3 : Forall (unheld_at (upd_nth i unhold (s_ws s))) (s_unreg s)).
    { eapply Forall_impl; [|exact J3]. intros j Hj. apply unheld_upd_nth; [intros w0 _; reflexivity|exact Hj]. }
    assert (K4 : Forall (fun w => (w_reg w <= length (s_sent s))%nat) (upd_nth i unhold (s_ws s))).
    { apply Forall_upd_nth; [|exact J4]. intros w0 _ H. exact H. }
    destruct (w_det w); unfold InvS; cbn.
    + split; [exact K1|]. split; [exact J2|]. split; [exact K3|]. split; [exact K4|exact J5].
    + split; [exact K1|]. split; [exact J2|]. split.
      { apply Forall_app. split; [exact K3|]. constructor; [|constructor].
        exists (unhold w). split; [apply nth_upd_nth_same; exact Hn|reflexivity]. }
      split; [exact K4|exact J5].
  - (* tick *)
    pose proof (run_idle_invS s Hinv) as H1.
    destruct (s_hb s); [|exact H1].
    destruct H1 as (J1 & J2 & J3 & J4 & J5). unfold InvS; cbn.
    split.
    { unfold dispatch_progress. apply Forall_forall. intros w' Hin. apply in_map_iff in Hin. destruct Hin as (w & Hw & Hin).
      rewrite Forall_forall in J1. specialize (J1 w Hin). subst w'. apply ws_progress; [reflexivity|reflexivity|exact J1]. }
    split; [exact J2|]. split.
    { eapply Forall_impl; [|exact J3]. intros j Hj. apply unheld_map; [|exact Hj].
      intro w. destruct (w_live w); [apply deliver_held|reflexivity]. }
    split; [|exact J5].
    unfold dispatch_progress. apply Forall_forall. intros w' Hin. apply in_map_iff in Hin. destruct Hin as (w & Hw & Hin).
    rewrite Forall_forall in J4. specialize (J4 w Hin). subst w'.
    destruct (w_live w); [|exact J4].
    destruct (deliver_fields (progress_ev (run_idle s)) w) as (_ & _ & _ & _ & _ & _ & F2). rewrite F2. exact J4.
  - apply dstep_invS. exact Hinv.
Qed.

Lemma init_invS : forall b q m hb a, InvS (init b q m hb a).
Proof.
  intros. unfold InvS, init; cbn. split; [constructor|]. split; [constructor|]. split; [constructor|]. split; [constructor|].
  exists []. reflexivity.
Qed.

Lemma run_invS : forall ls s, InvS s -> InvS (run s ls).
Proof.
  induction ls as [|l ls IH]; intros s H; cbn; [exact H|]. apply IH. apply step_invS. exact H.
Qed.

(* ================================================================ the statements for the code as it is (abc2253) *)
Definition shapeS (s : st) (w : watcher) : Prop :=
  exists start body pre post,
    (start <= w_reg w)%nat /\ nocancel body = true /\ skipn start (s_sent s) = pre ++ post /\ data body = filter (mt w) pre /\
    ((w_live w = true /\ stream w = body /\ (s_lag s = 0 -> post = s_bq s)) \/
     (w_live w = false /\ exists k, stream w = body ++ [cancel_ev k])).

(* EVERY schedule, broadcast overflow included: relative to the committed changes broadcast (s_sent), what a held
   watcher has received or buffered is progress events interleaved with exactly the matching changes of ONE
   contiguous segment [pre] of s_sent that starts no later than its registration, and then
   - either it is still registered and, unless a Lagged is pending for the dispatcher's next iteration, the rest
     of s_sent is exactly what still sits in the dispatcher's queue (nothing was skipped),
   - or the stream ends with CANCELED and the watcher is unregistered. *)
Theorem no_silent_gap : forall b q m hb a ls w,
  let s := run (init b q m hb a) ls in
  In w (s_ws s) -> w_held w = true -> shapeS s w.
Proof.
  intros b q m hb a ls w s Hin Hheld.
  destruct (run_invS ls _ (init_invS b q m hb a)) as (J1 & _). fold s in J1.
  rewrite Forall_forall in J1. destruct (J1 w Hin Hheld) as (start & body & pre & post & Hst & Hnc & Hsk & Hd & Hc).
  exists start, body, pre, post. split; [exact Hst|]. split; [exact Hnc|]. split; [exact Hsk|]. split; [exact Hd|].
  destruct Hc as [(A & B & _ & C)|Hc]; [left; repeat split; assumption|right; exact Hc].
Qed.

Lemma data_snoc_cancel : forall body k, data (body ++ [cancel_ev k]) = data body.
Proof. intros body k. rewrite data_app. cbn. apply app_nil_r. Qed.

(* the put/delete events of a stream = the matching changes of one contiguous run of the committed changes: no
   hole inside, whatever the schedule *)
Theorem stream_is_contiguous_run : forall b q m hb a ls w,
  let s := run (init b q m hb a) ls in
  In w (s_ws s) -> w_held w = true ->
  exists start pre post, (start <= w_reg w)%nat /\ skipn start (s_sent s) = pre ++ post /\
    data (stream w) = filter (mt w) pre.
Proof.
  intros b q m hb a ls w s Hin Hheld.
  destruct (no_silent_gap b q m hb a ls w Hin Hheld) as (start & body & pre & post & Hst & _ & Hsk & Hd & Hc).
  exists start, pre, post. split; [exact Hst|]. split; [exact Hsk|].
  destruct Hc as [(_ & Hs & _)|(_ & k & Hs)]; rewrite Hs; [exact Hd|]. rewrite data_snoc_cancel. exact Hd.
Qed.

Lemma In_skipn : forall (A : Type) n (l : list A) x, In x (skipn n l) -> In x l.
Proof. intros A n l x H. rewrite <- (firstn_skipn n l). apply in_or_app. right. exact H. Qed.

Lemma In_skipn_le : forall (A : Type) a b (l : list A) x, (a <= b)%nat -> In x (skipn b l) -> In x (skipn a l).
Proof.
  intros A a b l x Hab H. replace (skipn b l) with (skipn (b - a) (skipn a l)) in H; [eapply In_skipn; exact H|].
  rewrite skipn_skipn'. f_equal. lia.
Qed.

(* "a missing change is always followed by CANCELED": a matching change committed after the registration that is
   not in the stream (received or buffered) => the stream ends with CANCELED and the watcher is unregistered, or
   the watcher is still registered and the change is still queued for the dispatcher, or a Lagged is pending (the
   dispatcher's next broadcast iteration cancels the watcher: lag_iteration_cancels_everyone). *)
Theorem missing_change_implies_canceled : forall b q m hb a ls w e,
  let s := run (init b q m hb a) ls in
  In w (s_ws s) -> w_held w = true ->
  In e (skipn (w_reg w) (s_sent s)) -> mt w e = true -> ~ In e (stream w) ->
  (w_live w = false /\ exists body k, stream w = body ++ [cancel_ev k]) \/
  (w_live w = true /\ (In e (s_bq s) \/ 0 < s_lag s)).
Proof.
  intros b q m hb a ls w e s Hin Hheld He Hm Hnot.
  destruct (no_silent_gap b q m hb a ls w Hin Hheld) as (start & body & pre & post & Hst & _ & Hsk & Hd & Hc).
  fold s in Hsk, Hc.
  destruct Hc as [(Hl & Hs & Hp)|(Hl & k & Hs)]; [right|left; split; [exact Hl|exists body, k; exact Hs]].
  split; [exact Hl|].
  destruct (N.eq_dec (s_lag s) 0) as [H0|H0]; [left|right; lia].
  rewrite <- (Hp H0).
  apply (In_skipn_le _ start) in He; [|exact Hst]. rewrite Hsk in He. apply in_app_or in He.
  destruct He as [He|He]; [|exact He]. exfalso. apply Hnot. rewrite Hs.
  assert (Hin' : In e (filter (mt w) pre)) by (apply filter_In; split; assumption).
  rewrite <- Hd in Hin'. unfold data in Hin'. apply filter_In in Hin'. tauto.
Qed.

(* once the dispatcher is idle (true after every LRun/LTick: run_idle_is_idle): a registered watcher has received
   or buffered EVERY matching change committed since its registration, and no CANCELED — overflow or not *)
Theorem complete_when_idle_any_schedule : forall b q m hb a ls w,
  let s := run (init b q m hb a) ls in
  s_lag s = 0 -> s_bq s = [] -> In w (s_ws s) -> w_held w = true -> w_live w = true ->
  nocancel (stream w) = true /\
  exists early, data (stream w) = early ++ filter (mt w) (skipn (w_reg w) (s_sent s)).
Proof.
  intros b q m hb a ls w s Hlag Hbq Hin Hheld Hlive.
  destruct (no_silent_gap b q m hb a ls w Hin Hheld) as (start & body & pre & post & Hst & Hnc & Hsk & Hd & Hc).
  fold s in Hsk, Hc.
  destruct Hc as [(_ & Hstr & Hpost)|(Hl & _)]; [|rewrite Hl in Hlive; discriminate].
  rewrite Hstr. split; [exact Hnc|].
  rewrite (Hpost Hlag), Hbq, app_nil_r in Hsk. rewrite Hd, <- Hsk.
  apply skipn_split_filter. exact Hst.
Qed.

(* strictly increasing revisions, every schedule (the former ..._partial needed "no overflow") *)
Theorem revisions_increasing : forall b q m hb a ls w,
  let s := run (init b q m hb a) ls in
  In w (s_ws s) -> w_held w = true ->
  StronglySorted rev_lt (s_sent s) -> StronglySorted rev_lt (data (stream w)).
Proof.
  intros b q m hb a ls w s Hin Hheld Hsorted.
  destruct (stream_is_contiguous_run b q m hb a ls w Hin Hheld) as (start & pre & post & _ & Hsk & Hd).
  fold s in Hsk. rewrite Hd. apply ss_filter.
  rewrite <- (firstn_skipn start (s_sent s)) in Hsorted.
  apply ss_app in Hsorted. destruct Hsorted as (_ & H2). rewrite Hsk in H2. apply ss_app in H2. tauto.
Qed.

(* ---- the Lagged iteration itself, and idleness of the dispatcher after LRun *)
Theorem lag_iteration_cancels_everyone : forall s w,
  s_unreg s = [] -> 0 < s_lag s -> In w (s_ws (dstep s)) -> w_live w = false.
Proof.
  intros s w Hun Hlag Hin. unfold dstep in Hin. rewrite Hun in Hin. apply N.ltb_lt in Hlag. rewrite Hlag in Hin.
  cbn in Hin. unfold cancel_all in Hin. apply in_map_iff in Hin. destruct Hin as (w0 & Hw & _). subst w.
  apply cancel_one_dead.
Qed.

(* ... and each of them that was registered and still listening has CANCELED (keyed by its own key) appended *)
Theorem lag_iteration_appends_canceled : forall b q m hb a ls w,
  let s := run (init b q m hb a) ls in
  s_unreg s = [] -> 0 < s_lag s -> In w (s_ws s) -> w_held w = true -> w_live w = true ->
  exists w', In w' (s_ws (dstep s)) /\ w_id w' = w_id w /\ w_live w' = false /\
    stream w' = stream w ++ [cancel_ev (w_key w)].
Proof.
  intros b q m hb a ls w s Hun Hlag Hin Hheld Hlive.
  destruct (run_invS ls _ (init_invS b q m hb a)) as (J1 & _). fold s in J1.
  rewrite Forall_forall in J1. destruct (J1 w Hin Hheld) as (start & body & pre & post & _ & _ & _ & _ & Hc).
  destruct Hc as [(_ & _ & Hcap & _)|(Hl & _)]; [|rewrite Hl in Hlive; discriminate].
  exists (cancel_one w). split.
  { unfold dstep. rewrite Hun. apply N.ltb_lt in Hlag. rewrite Hlag. cbn. unfold cancel_all. apply in_map. exact Hin. }
  rewrite (cancel_one_live w Hlive Hheld Hcap). cbn. split; [reflexivity|]. split; [reflexivity|].
  unfold stream. cbn. apply app_assoc.
Qed.

Definition pending (s : st) : nat := (length (s_unreg s) + (if (0 <? s_lag s)%N then 1 else 0) + length (s_bq s))%nat.

Lemma dstep_pending : forall s, pending (dstep s) = pred (pending s).
Proof.
  intro s. unfold dstep, pending. destruct (s_unreg s) as [|i un] eqn:Hun.
  - destruct (0 <? s_lag s) eqn:Hlag.
    + cbn. rewrite ?Hun. cbn. lia.
    + destruct (s_bq s) as [|e bq] eqn:Hbq.
      * rewrite ?Hun, ?Hlag, ?Hbq. cbn. lia.
      * cbn. rewrite ?Hun, ?Hlag. cbn. lia.
  - cbn. destruct (0 <? s_lag s); cbn; lia.
Qed.

Lemma iter_pending : forall n s, pending (iter n s) = (pending s - n)%nat.
Proof.
  induction n as [|n IH]; intro s; cbn [iter]; [lia|]. rewrite IH, dstep_pending. lia.
Qed.

(* "the dispatcher runs until every branch of its select! is pending" really empties all three sources *)
Theorem run_idle_is_idle : forall s,
  let s' := run_idle s in s_unreg s' = [] /\ s_lag s' = 0 /\ s_bq s' = [].
Proof.
  intros s s'. assert (H : pending s' = 0%nat).
  { unfold s', run_idle. rewrite iter_pending. unfold pending. destruct (0 <? s_lag s); lia. }
  unfold pending in H. destruct (s_unreg s') as [|? ?]; [|cbn in H; lia]. destruct (s_bq s') as [|? ?]; [|cbn in H; lia].
  destruct (0 <? s_lag s') eqn:Hl; [cbn in H; lia|]. apply N.ltb_ge in Hl. repeat split. lia.
Qed.

(* for every schedule that ends with a dispatcher run: each held watcher either holds every matching change
   committed since its registration (and no CANCELED), or its stream is a gap-free run ended by CANCELED *)
Theorem after_dispatcher_run_complete_or_canceled : forall b q m hb a ls w,
  let s := run (init b q m hb a) (ls ++ [LRun]) in
  In w (s_ws s) -> w_held w = true ->
  (w_live w = true /\ nocancel (stream w) = true /\
     exists early, data (stream w) = early ++ filter (mt w) (skipn (w_reg w) (s_sent s))) \/
  (w_live w = false /\ exists body k start pre post, stream w = body ++ [cancel_ev k] /\ nocancel body = true /\
     (start <= w_reg w)%nat /\ skipn start (s_sent s) = pre ++ post /\ data body = filter (mt w) pre).
Proof.
  intros b q m hb a ls w s Hin Hheld.
  assert (Hidle : s_unreg s = [] /\ s_lag s = 0 /\ s_bq s = []).
  { unfold s, run. rewrite fold_left_app. cbn [fold_left step]. apply run_idle_is_idle. }
  destruct Hidle as (_ & Hlag & Hbq).
  destruct (w_live w) eqn:Hlive.
  - left. split; [reflexivity|]. exact (complete_when_idle_any_schedule b q m hb a (ls ++ [LRun]) w Hlag Hbq Hin Hheld Hlive).
  - right. split; [reflexivity|].
    destruct (no_silent_gap b q m hb a (ls ++ [LRun]) w Hin Hheld) as (start & body & pre & post & Hst & Hnc & Hsk & Hd & Hc).
    destruct Hc as [(Hl & _)|(_ & k & Hs)]; [fold s in Hl; rewrite Hl in Hlive; discriminate|].
    exists body, k, start, pre, post. repeat split; assumption.
Qed.

(* ================================================================ non-vacuity and the refutation *)
Definition put (i : N) : entry := {| n_idx := i; n_kind := 1; n_key := [47; 97]; n_val := [i]; n_ok := true |}.

(* a roomy watcher on "/a", a slow prefix watcher on "/" that gets CANCELED, a failed CAS, a heartbeat *)
Definition demo : list label :=
  [LReg false [47; 97] false; LReg true [47] false;
   LApply false [put 1; {| n_idx := 2; n_kind := 3; n_key := [47; 97]; n_val := [9]; n_ok := false |}; put 3];
   LRun; LRecv 0 2; LTick; LApply false [put 4; put 5]; LRun].

Example stream_spec_nonvacuous :
  let s := run (init 3 64 10 true 0) demo in
  s_lost s = 0 /\ s_bq s = [] /\ StronglySorted rev_lt (s_sent s) /\
  exists w1 w2, In w1 (s_ws s) /\ In w2 (s_ws s) /\ w_held w1 = true /\ w_live w1 = true /\ w_held w2 = true /\ w_live w2 = false /\
    map e_rev (data (stream w1)) = [1; 3; 4; 5] /\ map e_ty (stream w2) = [0; 0; 3; 2].
Proof.
  vm_compute. split; [reflexivity|]. split; [reflexivity|]. split.
  - repeat (constructor; [|repeat (constructor; try reflexivity)]). constructor.
  - eexists. eexists. split; [left; reflexivity|]. split; [right; left; reflexivity|]. repeat split; reflexivity.
Qed.

Example prefix_matching_nonvacuous :
  matchk true [47; 97; 47] [47; 97; 47; 98] = true /\ matchk true [47; 97; 47] [47; 97; 98] = false /\
  matchk false [47; 97] [47; 97] = true /\ matchk false [47; 97] [47; 97; 47] = false /\ valid_prefix [47; 97; 47] = true.
Proof. vm_compute. repeat split; reflexivity. Qed.

(* HISTORY (code before abc2253, [run_old]): the "no silent gaps" clause was false as coded: six puts to "/a" are
   broadcast into a queue of 4 before the dispatcher runs; RecvError::Lagged was only logged, the exact watcher on
   "/a" (buffer 8, registered before the first put) stayed registered, received revisions 3..6 and no CANCELED. *)
Definition lag_schedule : list label := [LReg false [47; 97] false; LApply false (map put [1; 2; 3; 4; 5; 6]); LRun].

Theorem history_unrepaired_lag_silent_gap :
  exists ls, let s := run_old (init 8 4 10 false 0) ls in
    exists w, In w (s_ws s) /\ w_held w = true /\ w_live w = true /\ w_reg w = 0%nat /\
      s_bq s = [] /\ s_lag s = 0 /\ s_unreg s = [] /\ nocancel (stream w) = true /\
      map e_rev (filter (mt w) (skipn (w_reg w) (s_sent s))) = [1; 2; 3; 4; 5; 6] /\
      map e_rev (data (stream w)) = [3; 4; 5; 6].
Proof.
  exists lag_schedule. vm_compute. eexists. split; [left; reflexivity|]. repeat split; reflexivity.
Qed.

(* ---- non-vacuity of the statements about the code as it is, on a schedule WITH broadcast overflow:
   an exact watcher on "/a" and a prefix watcher on "/" receive revisions 1,2; six more puts are broadcast into a
   queue of 4 before the dispatcher runs (3 and 4 are overwritten); the dispatcher's Lagged iteration ends both
   streams with CANCELED (keyed by the watcher's own key); a watcher registered afterwards receives revision 9. *)
Definition lag_demo_pre : list label :=
  [LReg false [47; 97] false; LReg true [47] false; LApply false [put 1; put 2]; LRun; LRecv 0 1;
   LApply false (map put [3; 4; 5; 6; 7; 8])].
Definition lag_demo : list label := lag_demo_pre ++ [LRun; LReg false [47; 97] false; LApply false [put 9]; LRun].

Example no_silent_gap_nonvacuous :
  let s := run (init 8 4 10 false 0) lag_demo in
  s_lost s = 2 /\ s_lag s = 0 /\ s_bq s = [] /\ StronglySorted rev_lt (s_sent s) /\
  exists w0 w1 w2, s_ws s = [w0; w1; w2] /\
    w_held w0 = true /\ w_live w0 = false /\ map e_rev (data (stream w0)) = [1; 2] /\ map e_ty (stream w0) = [0; 0; 2] /\
    w_held w1 = true /\ w_live w1 = false /\ map e_ty (stream w1) = [0; 0; 2] /\
    map e_key (stream w1) = [[47; 97]; [47; 97]; [47]] /\
    w_held w2 = true /\ w_live w2 = true /\ map e_rev (data (stream w2)) = [9] /\
    map e_rev (filter (mt w0) (skipn (w_reg w0) (s_sent s))) = [1; 2; 3; 4; 5; 6; 7; 8; 9].
Proof.
  vm_compute. split; [reflexivity|]. split; [reflexivity|]. split; [reflexivity|]. split.
  - repeat (constructor; [|repeat (constructor; try reflexivity)]). constructor.
  - eexists. eexists. eexists. split; [reflexivity|]. repeat split; reflexivity.
Qed.

(* the state in which lag_iteration_appends_canceled applies: a Lagged is pending, both watchers still registered *)
Example lag_pending_nonvacuous :
  let s := run (init 8 4 10 false 0) lag_demo_pre in
  s_unreg s = [] /\ s_lag s = 2 /\ s_lost s = 2 /\ map e_rev (s_bq s) = [5; 6; 7; 8] /\
  exists w0 w1, s_ws s = [w0; w1] /\ w_held w0 = true /\ w_live w0 = true /\ w_held w1 = true /\ w_live w1 = true /\
    map e_rev (stream w0) = [1; 2].
Proof.
  vm_compute. split; [reflexivity|]. split; [reflexivity|]. split; [reflexivity|]. split; [reflexivity|].
  eexists. eexists. split; [reflexivity|]. repeat split; reflexivity.
Qed.

(* the very schedule of the history theorem, on the code as it is: CANCELED instead of the silent gap *)
Example lag_schedule_now_canceled :
  let s := run (init 8 4 10 false 0) lag_schedule in
  exists w, s_ws s = [w] /\ w_held w = true /\ w_live w = false /\ w_reg w = 0%nat /\
    stream w = [cancel_ev [47; 97]] /\ s_lag s = 0 /\ s_bq s = [].
Proof. vm_compute. eexists. split; [reflexivity|]. repeat split; reflexivity. Qed.
