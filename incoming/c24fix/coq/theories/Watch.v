(* Watch — executable model of d-engine-core/src/watch/manager.rs (WatchRegistry, WatchDispatcher::run,
   dispatch_event / dispatch_to_map / broadcast_progress, prefix_segments) fed by
   DefaultStateMachineHandler::apply_chunk -> broadcast_watch_events, as coded. No proofs here.

   Channels are modelled by their contents:
   * the global tokio broadcast channel by the list [s_bq] of events the dispatcher has not yet received; its real
     capacity is next_power_of_two(event_queue_size); when a send finds it full the oldest event is overwritten and
     the dispatcher's next recv() returns RecvError::Lagged(n): one loop iteration that runs cancel_all_watchers
     (abc2253: CANCELED to every registered watcher, exact and prefix, and unregister it; [cancel_all]). Before that
     fix the iteration only logged: [dstep_old]/[step_old]/[run_old] keep that arm as a record (history theorems);
   * each watcher's mpsc channel (capacity watcher_buffer_size + 1, the +1 being the slot reserved for CANCELED) by
     the list [w_q]; `Sender::capacity()` is [w_cap - length w_q].
   The registry's two DashMaps are modelled by one list of watchers in registration order: a watcher sits under
   exactly one (map, key), all watchers under one lookup key are visited by one dispatch_to_map call, and watchers
   never influence one another, so the visiting order is not observable. total_count = number of live watchers.
   prev_kv (read_prev_values) is not modelled: every watcher is registered with prev_kv = false.

   Ghost fields (never read by the behaviour): s_sent = every event ever sent to the broadcast channel, s_disp = the
   events the dispatcher has dispatched, s_lost = number of events overwritten in the broadcast channel,
   w_from / w_reg = length of s_disp / s_sent at registration, w_got = what the consumer has taken so far. *)
From Coq Require Import NArith List Bool.
From DE Require Import Val.
Import ListNotations.
Open Scope N_scope.

Definition key := list N.
Record wev := { e_ty : N; e_key : key; e_val : list N; e_rev : N }.
Definition T_PUT := 0. Definition T_DEL := 1. Definition T_CANCEL := 2. Definition T_PROGRESS := 3.

Fixpoint keqb (a b : list N) : bool :=
  match a, b with
  | [], [] => true
  | x :: a', y :: b' => (x =? y) && keqb a' b'
  | _, _ => false
  end.

(* prefix_segments: every prefix of the key that ends at a '/' (47), shortest first *)
Fixpoint psegs (k : key) : list key :=
  match k with
  | [] => []
  | c :: k' => (if c =? 47 then [[c]] else []) ++ map (cons c) (psegs k')
  end.

(* register_prefix: starts_with("/") && ends_with("/") *)
Definition valid_prefix (p : key) : bool :=
  match p with c :: _ => (c =? 47) && (last p 0 =? 47) | [] => false end.

Record watcher := {
  w_id : N; w_pre : bool; w_key : key; w_cap : N;
  w_q : list wev;          (* events sitting in the watcher's channel *)
  w_live : bool;           (* still in the registry (its Sender exists) *)
  w_held : bool;           (* the consumer still holds the Receiver *)
  w_det : bool;            (* into_receiver(): no unregister message on drop *)
  w_got : list wev;        (* ghost *)
  w_from : nat;            (* ghost *)
  w_reg : nat              (* ghost *)
}.

Definition set_q (w : watcher) (q : list wev) : watcher :=
  {| w_id := w_id w; w_pre := w_pre w; w_key := w_key w; w_cap := w_cap w; w_q := q; w_live := w_live w;
     w_held := w_held w; w_det := w_det w; w_got := w_got w; w_from := w_from w; w_reg := w_reg w |}.
Definition kill (w : watcher) : watcher :=
  {| w_id := w_id w; w_pre := w_pre w; w_key := w_key w; w_cap := w_cap w; w_q := w_q w; w_live := false;
     w_held := w_held w; w_det := w_det w; w_got := w_got w; w_from := w_from w; w_reg := w_reg w |}.
Definition unhold (w : watcher) : watcher :=   (* Receiver dropped: closed and drained *)
  {| w_id := w_id w; w_pre := w_pre w; w_key := w_key w; w_cap := w_cap w; w_q := []; w_live := w_live w;
     w_held := false; w_det := w_det w; w_got := w_got w; w_from := w_from w; w_reg := w_reg w |}.
Definition take (n : nat) (w : watcher) : watcher :=
  {| w_id := w_id w; w_pre := w_pre w; w_key := w_key w; w_cap := w_cap w; w_q := skipn n (w_q w); w_live := w_live w;
     w_held := w_held w; w_det := w_det w; w_got := w_got w ++ firstn n (w_q w); w_from := w_from w; w_reg := w_reg w |}.

Definition cancel_ev (k : key) : wev := {| e_ty := T_CANCEL; e_key := k; e_val := []; e_rev := 0 |}.

(* the body of the `for watcher in watchers.iter()` loop of dispatch_to_map plus the unregister that follows *)
Definition deliver (e : wev) (w : watcher) : watcher :=
  if negb (w_held w) then kill w                      (* try_send -> Closed: silent cleanup *)
  else
    let avail := w_cap w - N.of_nat (length (w_q w)) in
    if avail <=? 1 then
      kill (if avail =? 1 then set_q w (w_q w ++ [cancel_ev (e_key e)]) else w)
    else set_q w (w_q w ++ [e]).

(* which watchers dispatch_event reaches: exact map by the event key, prefix map by every prefix segment *)
Definition matches (w : watcher) (k : key) : bool :=
  if w_pre w then existsb (keqb (w_key w)) (psegs k) else keqb (w_key w) k.

Definition dispatch_event (e : wev) (ws : list watcher) : list watcher :=
  map (fun w => if w_live w && matches w (e_key e) then deliver e w else w) ws.
Definition dispatch_progress (e : wev) (ws : list watcher) : list watcher :=
  map (fun w => if w_live w then deliver e w else w) ws.

(* cancel_all_watchers: for every watcher still in either map `let _ = sender.try_send(make_cancel_event(map key))`
   (Ok only if the Receiver is still held and a slot is free; Full / Closed are ignored), then unregister it *)
Definition cancel_one (w : watcher) : watcher :=
  if w_live w then
    kill (if w_held w && (N.of_nat (length (w_q w)) <? w_cap w) then set_q w (w_q w ++ [cancel_ev (w_key w)]) else w)
  else w.
Definition cancel_all (ws : list watcher) : list watcher := map cancel_one ws.

Record st := {
  s_buf : N; s_qcap : N; s_max : N; s_hb : bool; s_applied0 : N;
  s_ws : list watcher; s_next : N;
  s_bq : list wev; s_lag : N;
  s_unreg : list nat;   (* unregister channel; a watcher is named by its position in s_ws (ids are unique: AtomicU64 fetch_add) *)
  s_sent : list wev; s_disp : list wev; s_lost : N       (* ghost *)
}.

Definition upd (s : st) (ws : list watcher) (nx : N) (bq : list wev) (lag : N) (un : list nat)
               (sent disp : list wev) (lost : N) : st :=
  {| s_buf := s_buf s; s_qcap := s_qcap s; s_max := s_max s; s_hb := s_hb s; s_applied0 := s_applied0 s;
     s_ws := ws; s_next := nx; s_bq := bq; s_lag := lag; s_unreg := un; s_sent := sent; s_disp := disp; s_lost := lost |}.
Definition set_ws (s : st) (ws : list watcher) : st :=
  upd s ws (s_next s) (s_bq s) (s_lag s) (s_unreg s) (s_sent s) (s_disp s) (s_lost s).

Definition nlive (ws : list watcher) : N := N.of_nat (length (filter w_live ws)).

(* ---- the state machine handler side: broadcast_watch_events ---- *)
Record entry := { n_idx : N; n_kind : N; n_key : key; n_val : list N; n_ok : bool }.
(* kind 0 noop, 1 insert, 2 delete, 3 compare-and-swap, 4 config *)
Definition entry_event (n : entry) : list wev :=
  if n_kind n =? 1 then [{| e_ty := T_PUT; e_key := n_key n; e_val := n_val n; e_rev := n_idx n |}]
  else if n_kind n =? 2 then [{| e_ty := T_DEL; e_key := n_key n; e_val := []; e_rev := n_idx n |}]
  else if n_kind n =? 3 then
    (if n_ok n then [{| e_ty := T_PUT; e_key := n_key n; e_val := n_val n; e_rev := n_idx n |}] else [])
  else [].
Definition chunk_events (fail : bool) (c : list entry) : list wev :=
  if fail then [] else flat_map entry_event c.     (* events only `if let Ok(ref results) = apply_result` *)

(* tokio::sync::broadcast::Sender::send with one (possibly slow) receiver *)
Definition bsend (s : st) (e : wev) : st :=
  let bq := s_bq s ++ [e] in
  if s_qcap s <? N.of_nat (length bq)
  then upd s (s_ws s) (s_next s) (tl bq) (s_lag s + 1) (s_unreg s) (s_sent s ++ [e]) (s_disp s) (s_lost s + 1)
  else upd s (s_ws s) (s_next s) bq (s_lag s) (s_unreg s) (s_sent s ++ [e]) (s_disp s) (s_lost s).

(* ---- schedule labels ---- *)
Inductive label :=
| LReg (pre : bool) (k : key) (det : bool)
| LApply (fail : bool) (c : list entry)
| LRun                         (* the dispatcher task runs until every branch of its select! is pending *)
| LRecv (i : nat) (n : nat)    (* consumer of the i-th watcher takes up to n events *)
| LDrop (i : nat)              (* consumer of the i-th watcher drops it *)
| LTick                        (* heartbeat period elapses; the dispatcher then runs until idle *)
| LDStep.                      (* one iteration of the dispatcher loop (finer than LRun) *)

Definition reg_status (s : st) (pre : bool) (k : key) : N :=
  if pre && negb (valid_prefix k) then 2
  else if s_max s <=? nlive (s_ws s) then 1 else 0.


Fixpoint upd_nth (i : nat) (f : watcher -> watcher) (ws : list watcher) : list watcher :=
  match ws, i with
  | [], _ => []
  | w :: ws', O => f w :: ws'
  | w :: ws', S i' => w :: upd_nth i' f ws'
  end.

(* one iteration of `loop { select! { biased; unregister; broadcast recv; heartbeat } }` without the heartbeat *)
Definition dstep (s : st) : st :=
  match s_unreg s with
  | i :: un => upd s (upd_nth i kill (s_ws s)) (s_next s) (s_bq s) (s_lag s) un (s_sent s) (s_disp s) (s_lost s)
  | [] =>
      if 0 <? s_lag s then upd s (cancel_all (s_ws s)) (s_next s) (s_bq s) 0 (s_unreg s) (s_sent s) (s_disp s) (s_lost s)   (* Lagged(n): cancel_all_watchers *)
      else match s_bq s with
           | e :: bq => upd s (dispatch_event e (s_ws s)) (s_next s) bq (s_lag s) (s_unreg s) (s_sent s) (s_disp s ++ [e]) (s_lost s)
           | [] => s
           end
  end.
Fixpoint iter (n : nat) (s : st) : st := match n with O => s | S n' => iter n' (dstep s) end.
Definition run_idle (s : st) : st := iter (length (s_unreg s) + 1 + length (s_bq s)) s.

(* HISTORY: the same loop iteration BEFORE abc2253 (the Lagged arm only logs) *)
Definition dstep_old (s : st) : st :=
  match s_unreg s with
  | i :: un => upd s (upd_nth i kill (s_ws s)) (s_next s) (s_bq s) (s_lag s) un (s_sent s) (s_disp s) (s_lost s)
  | [] =>
      if 0 <? s_lag s then upd s (s_ws s) (s_next s) (s_bq s) 0 (s_unreg s) (s_sent s) (s_disp s) (s_lost s)   (* Lagged(n): warn! only *)
      else match s_bq s with
           | e :: bq => upd s (dispatch_event e (s_ws s)) (s_next s) bq (s_lag s) (s_unreg s) (s_sent s) (s_disp s ++ [e]) (s_lost s)
           | [] => s
           end
  end.
Fixpoint iter_old (n : nat) (s : st) : st := match n with O => s | S n' => iter_old n' (dstep_old s) end.
Definition run_idle_old (s : st) : st := iter_old (length (s_unreg s) + 1 + length (s_bq s)) s.

Definition progress_ev (s : st) : wev := {| e_ty := T_PROGRESS; e_key := []; e_val := []; e_rev := s_applied0 s |}.

Definition nth_w (s : st) (i : nat) : option watcher := nth_error (s_ws s) i.

Definition step (s : st) (l : label) : st :=
  match l with
  | LReg pre k det =>
      if reg_status s pre k =? 0 then
        let w := {| w_id := s_next s; w_pre := pre; w_key := k; w_cap := s_buf s + 1; w_q := []; w_live := true;
                    w_held := true; w_det := det; w_got := []; w_from := length (s_disp s); w_reg := length (s_sent s) |} in
        upd s (s_ws s ++ [w]) (s_next s + 1) (s_bq s) (s_lag s) (s_unreg s) (s_sent s) (s_disp s) (s_lost s)
      else s
  | LApply fail c => fold_left bsend (chunk_events fail c) s
  | LRun => run_idle s
  | LDStep => dstep s
  | LRecv i n =>
      match nth_w s i with
      | Some w => if w_held w then set_ws s (upd_nth i (take n) (s_ws s)) else s
      | None => s
      end
  | LDrop i =>
      match nth_w s i with
      | Some w =>
          if w_held w then
            let s' := set_ws s (upd_nth i unhold (s_ws s)) in
            if w_det w then s'
            else upd s' (s_ws s') (s_next s') (s_bq s') (s_lag s') (s_unreg s' ++ [i]) (s_sent s') (s_disp s') (s_lost s')
          else s
      | None => s
      end
  | LTick =>
      let s1 := run_idle s in
      if s_hb s then set_ws s1 (dispatch_progress (progress_ev s1) (s_ws s1)) else s1
  end.

Definition run (s : st) (ls : list label) : st := fold_left step ls s.

(* HISTORY: the schedule semantics BEFORE abc2253; differs from [step] only where the dispatcher runs *)
Definition step_old (s : st) (l : label) : st :=
  match l with
  | LRun => run_idle_old s
  | LDStep => dstep_old s
  | LTick =>
      let s1 := run_idle_old s in
      if s_hb s then set_ws s1 (dispatch_progress (progress_ev s1) (s_ws s1)) else s1
  | _ => step s l
  end.
Definition run_old (s : st) (ls : list label) : st := fold_left step_old ls s.

(* broadcast::channel(capacity) rounds the capacity up to a power of two *)
Fixpoint np2 (fuel : nat) (p n : N) : N :=
  match fuel with O => p | S f => if n <=? p then p else np2 f (2 * p) n end.
Definition init (buf queue maxw : N) (hb : bool) (applied0 : N) : st :=
  {| s_buf := buf; s_qcap := np2 64 1 queue; s_max := maxw; s_hb := hb; s_applied0 := applied0;
     s_ws := []; s_next := 1; s_bq := []; s_lag := 0; s_unreg := []; s_sent := []; s_disp := []; s_lost := 0 |}.

(* ---- val glue ---- *)
Definition vev (e : wev) : val := VL [VN (e_ty e); vns (e_key e); vns (e_val e); VN (e_rev e)].
Definition entry_of_val (v : val) : entry :=
  {| n_idx := vn (vnth v 0); n_kind := vn (vnth v 1); n_key := vnl (vnth v 2); n_val := vnl (vnth v 3); n_ok := vbool (vnth v 4) |}.
Definition label_of_val (v : val) : label :=
  let k := vn (vnth v 0) in
  if k =? 0 then LReg (vbool (vnth v 1)) (vnl (vnth v 2)) (vbool (vnth v 3))
  else if k =? 1 then LApply (vbool (vnth v 1)) (map entry_of_val (vl (vnth v 2)))
  else if k =? 2 then LRun
  else if k =? 3 then LRecv (N.to_nat (vn (vnth v 1))) (N.to_nat (vn (vnth v 2)))
  else if k =? 4 then LDrop (N.to_nat (vn (vnth v 1)))
  else LTick.

(* what the consumer sees from `n` try_recv calls *)
Definition recv_obs (w : watcher) (n : nat) : val :=
  if w_held w then
    VL [VL (map vev (firstn n (w_q w))); vb (Nat.ltb (length (w_q w)) n && negb (w_live w))]
  else VL [VL []; VN 2].

Definition observe (s : st) (l : label) : val :=
  match l with
  | LReg pre k det => let r := reg_status s pre k in VL [VN r; VN (if r =? 0 then s_next s else 0)]
  | LApply fail c => VL [vb (negb fail)]
  | LRecv i n => match nth_w s i with Some w => recv_obs w n | None => VL [VL []; VN 2] end
  | _ => VL []
  end.

(* input: [[buf, queue, max, hb, applied0], labels]; output: [[per-label observation], [final drain per watcher]] *)
Definition watch_probe (v : val) : val :=
  let c := vnth v 0 in
  let s0 := init (vn (vnth c 0)) (vn (vnth c 1)) (vn (vnth c 2)) (vbool (vnth c 3)) (vn (vnth c 4)) in
  let r := fold_left (fun acc lv => let l := label_of_val lv in (step (fst acc) l, snd acc ++ [observe (fst acc) l]))
                     (vl (vnth v 1)) (s0, []) in
  let sf := run_idle (fst r) in
  VL [VL (snd r); VL (map (fun w => recv_obs w (S (length (w_q w)))) (s_ws sf))].
