"""C24 — watch streams deliver committed changes in order, with no silent gaps."""
import json
from dvlib import core, flow
from dvlib.core import Broken

ID = 'C24'
PROPS_FILE = 'theories/props/Properties_C24.v'
CONE = ['theories/Watch.v', 'theories/proofs/C24.v']
IMPORTS = 'From DE Require Import Watch.'

def B(s): return [ord(c) for c in s]

KEYS = ['/a', '/a/', '/a/b', '/a/b/c', '/b', '/b/x', '/', 'a', 'a/b', '', '/ab', '//', '/a//b']
EXACT = ['/a', '/a/b', '/b', '/a/', 'a', '/', '/a/b/c', '']
PREFIXES = ['/', '/a/', '/a/b/', '/b/', '//', '/a//']
BADPREFIXES = ['a/', '/a', '', 'a', '/a/b']

def np2(n):
    p = 1
    while p < n: p *= 2
    return p

def gen_case(r, tag, lagfree):
    buf = r.choice([1, 2, 2, 3, 3, 8, 8, 20])
    queue = r.choice([16, 64, 64, 100]) if lagfree else r.choice([1, 2, 3, 4, 5, 8])
    maxw = r.choice([1, 2, 3, 100, 100, 100])
    hb = r.choice([0, 1, 1]); applied0 = r.choice([0, 0, 7])
    labels = []; nreg = 0; idx = applied0; pending = 0; cap = np2(queue); lag = False
    hot = [r.choice(KEYS) for _ in range(3)]
    for _ in range(r.range(6, 22)):
        x = r.below(100)
        if x < 22 or (nreg == 0 and x < 50):
            if r.chance(1, 2):
                p = r.choice(BADPREFIXES) if r.chance(1, 8) else r.choice(PREFIXES)
                labels.append([0, 1, B(p), 1 if r.chance(1, 3) else 0]); tag('reg-prefix')
            else:
                labels.append([0, 0, B(r.choice(EXACT + hot)), 1 if r.chance(1, 3) else 0]); tag('reg-exact')
            nreg += 1
        elif x < 55:
            big = (not lagfree) and r.chance(1, 2)
            n = r.range(3, 12) if big else r.range(1, 4)
            fail = 1 if r.chance(1, 12) else 0
            es = []; j = idx
            for _ in range(n):
                j += 1
                kind = r.choice([1, 1, 1, 1, 2, 2, 3, 3, 0, 4])
                k = r.choice(hot) if r.chance(2, 3) else r.choice(KEYS)
                v = [r.below(256) for _ in range(r.below(3))] if kind in (1, 3) else []
                ok = 0 if (kind == 3 and r.chance(1, 2)) else 1
                es.append([j, kind, B(k) if kind in (1, 2, 3) else [], v, ok])
                if kind == 3: tag('cas-ok' if ok else 'cas-failed')
            if not fail:
                idx = j
                ne = sum(1 for e in es if e[1] in (1, 2) or (e[1] == 3 and e[4]))
                pending += ne
                if pending > cap: lag = True; pending = cap
            else: tag('apply-error')
            labels.append([1, fail, es]); tag('apply')
        elif x < 72:
            labels.append([2]); pending = 0; tag('run')
        elif x < 88 and nreg:
            labels.append([3, r.below(nreg), r.choice([1, 1, 2, 3, 50])]); tag('recv')
        elif x < 92 and nreg:
            labels.append([4, r.below(nreg)]); tag('drop')
        else:
            labels.append([5]); pending = 0; tag('tick')
    tag('broadcast-overflow' if lag else 'no-broadcast-overflow')
    return [[buf, queue, maxw, hb, applied0], labels]

def boundary_cases():
    a = B('/a')
    put = lambda i, k='/a': [i, 1, B(k), [i % 256], 1]
    cs = []
    # global broadcast lag with a roomy watcher: 6 events into a queue of 4 before the dispatcher runs
    cs.append([[8, 4, 10, 0, 0], [[0, 0, a, 0], [1, 0, [put(i) for i in range(1, 7)]], [2]]])
    # same through a prefix watcher, lag after some delivered events (a hole in the middle)
    cs.append([[20, 2, 10, 0, 0], [[0, 1, B('/'), 0], [1, 0, [put(1), put(2)]], [2], [1, 0, [put(3), put(4), put(5), put(6)]], [2], [1, 0, [put(7)]], [2]]])
    # per-watcher overflow: CANCELED, then the stream is closed
    cs.append([[2, 64, 10, 0, 0], [[0, 0, a, 0], [1, 0, [put(i) for i in range(1, 6)]], [2], [3, 0, 1], [1, 0, [put(6)]], [2]]])
    # heartbeat fills a slow watcher's buffer
    cs.append([[1, 64, 10, 1, 3], [[0, 0, a, 0], [5], [5], [5], [1, 0, [put(4)]], [2]]])
    # failed CAS, noop, config, failed chunk
    cs.append([[8, 64, 10, 0, 0], [[0, 0, a, 0], [1, 0, [[1, 3, a, [1], 0], [2, 3, a, [2], 1], [3, 0, [], [], 1], [4, 4, [], [], 1]]], [1, 1, [put(5)]], [1, 0, [put(5)]], [2]]])
    # registration while events are queued; limit; invalid prefix; drop + re-register
    cs.append([[3, 64, 2, 0, 0], [[1, 0, [put(1)]], [0, 0, a, 0], [2], [0, 1, B('/'), 1], [0, 0, a, 0], [0, 1, B('a/'), 0], [4, 0], [0, 0, a, 0], [2], [0, 0, a, 0], [1, 0, [put(2)]], [2]]])
    # prefix matching boundaries
    cs.append([[20, 64, 10, 0, 0], [[0, 1, B('/a/'), 0], [0, 1, B('/'), 0], [0, 0, B('/a/'), 0], [0, 1, B('//'), 0],
                                   [1, 0, [put(1, '/a/'), put(2, '/a'), put(3, '/a/b/c'), put(4, '/ab'), put(5, 'a/b'), put(6, '//x'), put(7, ''), [8, 2, B('/a/b'), [], 1]]], [2]]])
    return cs

def gen_cases(run, thorough):
    r = run.rng('watch'); dist = {}
    def tag(t): dist[t] = dist.get(t, 0) + 1
    cases = boundary_cases()
    for _ in cases: tag('boundary')
    n = 6000 if thorough else 600
    for k in range(n):
        cases.append(gen_case(r, tag, lagfree=(k % 4 != 0)))
    return cases, dist

# ---------------------------------------------------------------- the property, on the implementation's outputs
def covers(pre, wkey, k):
    return (k[:len(wkey)] == wkey) if pre else (k == wkey)

def oracle(case, out):
    """Returns None or (class, why)."""
    cfg, labels = case
    outs, fin = out
    cap = np2(cfg[1])
    committed = []      # (label position, [type, key, value, rev])
    failedcas = []
    watchers = []       # dict per successful registration
    pending = 0; overflow = False
    for pos, (l, o) in enumerate(zip(labels, outs)):
        if l[0] == 0:
            if o[0] == 0:
                watchers.append({'pre': bool(l[1]), 'key': l[2], 'pos': pos, 'stream': [], 'dropped': False})
        elif l[0] == 1:
            if o[0] == 1:
                for e in l[2]:
                    if e[1] == 1 or (e[1] == 3 and e[4]): committed.append((pos, [0, e[2], e[3], e[0]])); pending += 1
                    elif e[1] == 2: committed.append((pos, [1, e[2], [], e[0]])); pending += 1
                    elif e[1] == 3: failedcas.append([0, e[2], e[3], e[0]])
                if pending > cap: overflow = True; pending = cap
        elif l[0] in (2, 5):
            pending = 0
        elif l[0] == 3:
            if l[1] < len(watchers) and not watchers[l[1]]['dropped']:
                watchers[l[1]]['stream'] += o[0]
                if o[1] == 1: watchers[l[1]]['closed_early'] = True
        elif l[0] == 4:
            if l[1] < len(watchers): watchers[l[1]]['dropped'] = True
    for j, w in enumerate(watchers):
        closed = None
        if not w['dropped']:
            w['stream'] += fin[j][0]; closed = fin[j][1]
        st = w['stream']
        data = [e for e in st if e[0] in (0, 1)]
        for e in data:
            if not covers(w['pre'], w['key'], e[1]):
                return ('foreign-key-event', 'watcher %d (%s %s) received an event for key %s' % (j, 'prefix' if w['pre'] else 'exact', w['key'], e[1]))
            if e in failedcas:
                return ('event-for-failed-cas', 'watcher %d received %s for a failed compare-and-swap' % (j, e))
            if e not in [c for _, c in committed]:
                return ('uncommitted-event', 'watcher %d received %s which is no committed change' % (j, e))
        revs = [e[3] for e in data]
        if any(a >= b for a, b in zip(revs, revs[1:])):
            return ('revision-order', 'watcher %d received revisions %s (not strictly increasing / duplicate)' % (j, revs))
        canc = [i for i, e in enumerate(st) if e[0] == 2]
        if canc:
            if canc[0] != len(st) - 1:
                return ('event-after-cancel', 'watcher %d received %d events after CANCELED' % (j, len(st) - 1 - canc[0]))
            if closed == 0:
                return ('event-after-cancel', 'watcher %d: stream still open after CANCELED' % j)
            continue        # ended by CANCELED: the statement allows it
        if closed == 1:
            return ('stream-ended-without-cancel', 'watcher %d: stream closed by the server without a CANCELED event' % j)
        mall = [c for _, c in committed if covers(w['pre'], w['key'], c[1])]
        mafter = [c for p, c in committed if p > w['pos'] and covers(w['pre'], w['key'], c[1])]
        cls = 'silent-gap-on-broadcast-lag' if overflow else 'silent-gap'
        if data:
            i0 = mall.index(data[0])
            if mall[i0:i0 + len(data)] != data:
                missing = [c[3] for c in mall[i0:] if c not in data and c[3] < data[-1][3]]
                return (cls, 'watcher %d (registered at label %d) received revisions %s but never %s, and no CANCELED' % (j, w['pos'], revs, missing))
            if mafter and mafter[0][3] < data[0][3]:
                return (cls, 'watcher %d (registered at label %d) first received revision %d but revision %d was committed after its registration, and no CANCELED' % (j, w['pos'], data[0][3], mafter[0][3]))
        if not w['dropped']:
            # the dispatcher was run until idle and the stream drained: everything since registration must be there
            miss = [c[3] for c in mafter if c not in data]
            if miss:
                return (cls, 'watcher %d (registered at label %d) never received revisions %s committed after its registration (received %s), and no CANCELED' % (j, w['pos'], miss, revs))
    return None

def check(run):
    thorough = run.tier == 'thorough'
    run.cov['trusted_base'] += [
        "hand-written model DE.Watch of watch/manager.rs (WatchRegistry, WatchDispatcher::run incl. the Lagged arm cancel_all_watchers, dispatch_event/dispatch_to_map/broadcast_progress, prefix_segments) and of DefaultStateMachineHandler::broadcast_watch_events, tied to the code by the watch probe",
        "tokio channel semantics as modelled: broadcast capacity = next_power_of_two(event_queue_size) with overwrite-oldest + Lagged (one recv() error, then the retained events); mpsc capacity() = max - queued (both exercised by the probe on the real tokio)",
        "harness: real WatchRegistry/WatchDispatcher wired as in node/builder.rs, real DefaultStateMachineHandler::apply_chunk over a MockStateMachine that reports the per-entry `succeeded` flags of the case; dispatcher future polled by hand on a paused current-thread runtime",
    ]
    run.assumptions += ["apply order and uniqueness of indexes across apply_chunk calls are the commit handler's obligation (C06/C15); strictly increasing revisions are proved relative to it",
                        "schedules: the dispatcher is atomic with respect to registration per loop iteration (true per watcher because a watcher lives under exactly one DashMap key and dispatch_to_map holds that shard's lock)",
                        "prev_kv / read_prev_values is outside the statement and not modelled; dispatcher shutdown (broadcast closed) is not modelled"]
    broken = flow.proof_step(run, PROPS_FILE, CONE)
    violations = []
    try:
        core.harness_build()
        cases, dist = gen_cases(run, thorough)
        outs = core.probe_parallel('watch', cases)
        pairs = []
        for c, o in zip(cases, outs):
            if isinstance(o, str):
                broken.append(('correspondence', 'watch probe error', o[:300])); continue
            pairs.append((c, o))
            v = oracle(c, o)
            if v:
                violations.append({'class': v[0], 'probe': 'watch', 'input': c, 'output': o, 'why': v[1]})
                dist['oracle:' + v[0]] = dist.get('oracle:' + v[0], 0) + 1
        mism = core.coq_index_list(IMPORTS, '', 'watch_probe', pairs, tag='C24', shard=100)
        if mism:
            i = mism[0]
            broken.append(('correspondence', 'DE.Watch.step vs WatchRegistry/WatchDispatcher/DefaultStateMachineHandler (probe watch)',
                           '%d disagreements; first on %s -> impl %s' % (len(mism), json.dumps(pairs[i][0]), json.dumps(pairs[i][1]))))
        run.cov['disagreements'] = len(mism)
        dist['events-received'] = sum(len(w[0]) for c, o in pairs for w in o[1]) + sum(len(x[0]) for c, o in pairs for l, x in zip(c[1], o[0]) if l[0] == 3)
        dist['streams-canceled'] = sum(1 for c, o in pairs for w in o[1] if any(e[0] == 2 for e in w[0]))
        run.add_cases(len(pairs), len({json.dumps(c) for c, _ in pairs}), [{'case': pairs[j][0], 'impl': pairs[j][1]} for j in (0, len(pairs) - 1)], dist,
                      'boundary cases + seeded schedules of 6-22 labels (register exact/prefix/invalid/detached, apply_chunk with puts/deletes/CAS ok+failed/noop/config/failing chunk, dispatcher run, consumer recv, drop, heartbeat tick); 3/4 with a roomy broadcast queue, 1/4 with queue 1-8 and bursts up to 12; distinct = distinct cases')
    except Broken as b:
        broken.append(('harness', b.what, b.detail))
    return flow.conclude(run, broken, violations)

def replay(path):
    r = json.load(open(path))
    if r.get('kind') != 'counterexample':
        print('broken obligation:', [b['name'] for b in r.get('broken', [])]); return 1
    core.harness_build()
    out = core.probe('watch', [r['input']])[0]
    print('implementation output:', json.dumps(out)); v = oracle(r['input'], out)
    print('VIOLATES: %s — %s' % v if v else 'ok'); return 1 if v else 0

META = {
    'title': 'Watch streams deliver committed changes in order, with no silent gaps',
    'level': 'proof',
    'technique': 'Rocq invariant proofs (one relative to the dispatched events, one relative to the broadcast committed changes) over an executable labelled-transition model of WatchRegistry + WatchDispatcher (incl. the Lagged arm cancel_all_watchers) + broadcast_watch_events, for all schedules of register/apply/dispatch/recv/drop/heartbeat with or without broadcast overflow; history witness for the pre-fix Lagged arm; + differential check against the real code on a paused tokio runtime',
    'text': "Rocq, code as it is (abc2253), every configuration and every schedule INCLUDING broadcast overflow: C24_no_silent_gap — what any still-held watcher has received or has buffered is progress events interleaved with exactly the matching committed put/delete events of ONE contiguous segment of the broadcast changes that starts no later than its registration (none missing, none foreign, in apply order), and then either the watcher is still registered and (unless a Lagged is pending for the dispatcher's next iteration) everything later is still queued for the dispatcher, or the stream ends with CANCELED and the watcher is unregistered; C24_stream_is_contiguous_run; C24_missing_change_implies_canceled (a matching change committed after registration and absent from the stream => CANCELED at the end, or still queued, or Lagged pending); C24_lag_iteration_cancels_everyone / C24_lag_iteration_appends_canceled (the Lagged iteration unregisters every watcher and appends CANCELED, the reserved slot is always free); C24_complete_when_idle_any_schedule and C24_after_dispatcher_run_complete_or_canceled (after a dispatcher run: complete since registration, or gap-free run ended by CANCELED; C24_run_idle_is_idle); C24_revisions_increasing (all schedules, relative to increasing apply indexes); kept: C24_stream_spec, C24_stream_vs_dispatched, C24_complete_when_idle, C24_sent_are_committed_changes (events are exactly the successful puts/deletes/CAS of successful chunks; failed CAS, noop, config give none), C24_events_only_for_changes, C24_failed_cas_no_event, C24_prefix_matching, C24_registered_prefix_ends_with_slash. History: C24_history_unrepaired_lag_silent_gap — vm_compute witness on the pre-fix model (run_old) that a live watcher silently missed events when the broadcast channel overflowed.",
    'note': "Trusted: Coq kernel, hand model DE.Watch (validated by the probe on every run, overflow schedules included), tokio channel semantics as modelled. The former finding silent-gap-on-broadcast-lag (RecvError::Lagged was only logged) is fixed by abc2253 (cancel_all_watchers); the oracle is unchanged and no longer finds it. Not covered: delivery of the pending Lagged is proved per dispatcher iteration / per LRun, not as a liveness property of the tokio scheduler; prev_kv and dispatcher shutdown are not modelled.",
    'design_ref': 'DESIGN.md §4 C24',
}
