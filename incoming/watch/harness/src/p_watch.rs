//! probe `watch`: the real WatchRegistry + WatchDispatcher::run (d-engine-core/src/watch/manager.rs) fed by the real
//! DefaultStateMachineHandler::apply_chunk -> broadcast_watch_events, on a private paused current-thread runtime.
//! The dispatcher future is never spawned: it is polled by hand (wrapped in task::unconstrained so that tokio's
//! cooperative budget cannot stop it half-way), so "run the dispatcher until idle" is one schedule label.
//!
//! Input: [[buf_size, queue_size, max_watchers, heartbeat_on, start_applied], [label...]] with label =
//!   [0, is_prefix, key, detach]   register (detach=1: WatcherHandle::into_receiver, the gRPC path)   -> [status, id]
//!                                 status 0 = ok, 1 = LimitExceeded, 2 = InvalidPrefix (id 0 then)
//!   [1, fail, [[index, kind, key, value, ok]...]]  StateMachineHandler::apply_chunk of these entries; kind 0 noop,
//!                                 1 insert, 2 delete, 3 compare-and-swap, 4 config; `ok` is the `succeeded` flag the
//!                                 state machine reports for the entry; fail=1: the state machine returns Err  -> [applied_ok]
//!   [2]                           poll the dispatcher until it is idle                               -> []
//!   [3, w, k]                     consumer of watcher w (ordinal of successful registration) takes up to k events
//!                                                                                                    -> [[event...], closed]
//!   [4, w]                        drop watcher w (handle, or the detached receiver)                  -> []
//!   [5]                           advance the paused clock by one heartbeat period, then as [2]      -> []
//! After the labels the dispatcher is run until idle and every watcher still held is drained.
//! Output: [[per-label output...], [[[event...], closed] per watcher]]; event = [type, key, value, revision],
//! type 0 put, 1 delete, 2 canceled, 3 progress; closed 1 = the stream has ended (sender side dropped, queue empty),
//! 2 = this consumer had dropped the watcher itself.
use crate::sim::*;
use bytes::Bytes;
use d_engine_core::watch::{WatchDispatcher, WatchError, WatchEvent, WatchEventType, WatchRegistry, WatcherHandle};
use d_engine_core::*;
use d_engine_proto::client::write_command::{CompareAndSwap, Delete, Insert, Operation};
use d_engine_proto::client::WriteCommand;
use d_engine_proto::common::membership_change::Change;
use d_engine_proto::common::{AddNode, Entry, EntryPayload, LogId};
use prost::Message;
use serde_json::{json, Value};
use std::collections::HashMap;
use std::sync::{Arc, Mutex};
use tokio::sync::mpsc;

const HB_MS: u64 = 1000;

fn bytes_of(v: &Value) -> Bytes {
    Bytes::from(crate::ints(v).into_iter().map(|x| x as u8).collect::<Vec<u8>>())
}
fn bytes_json(b: &[u8]) -> Value {
    Value::Array(b.iter().map(|x| json!(*x)).collect())
}
fn event_json(e: &WatchEvent) -> Value {
    let t = match e.event_type {
        WatchEventType::Put => 0,
        WatchEventType::Delete => 1,
        WatchEventType::Canceled => 2,
        WatchEventType::Progress => 3,
    };
    json!([t, bytes_json(&e.key), bytes_json(&e.value), e.revision])
}

enum Held {
    Handle(WatcherHandle),
    Detached(mpsc::Receiver<WatchEvent>),
    Dropped,
}

fn take(h: &mut Held, k: u64) -> Value {
    let rx: &mut mpsc::Receiver<WatchEvent> = match h {
        Held::Handle(h) => h.receiver_mut(),
        Held::Detached(r) => r,
        Held::Dropped => return json!([[], 2]),
    };
    let mut evs = vec![];
    let mut closed = 0;
    for _ in 0..k {
        match rx.try_recv() {
            Ok(e) => evs.push(event_json(&e)),
            Err(mpsc::error::TryRecvError::Empty) => break,
            Err(mpsc::error::TryRecvError::Disconnected) => {
                closed = 1;
                break;
            }
        }
    }
    json!([evs, closed])
}

fn entry_of(v: &Value) -> Entry {
    let index = v[0].as_u64().unwrap();
    let key = bytes_of(&v[2]);
    let value = bytes_of(&v[3]);
    let cmd = |op: Operation| EntryPayload::command(Bytes::from(WriteCommand { operation: Some(op) }.encode_to_vec()));
    let payload = match v[1].as_u64().unwrap() {
        1 => cmd(Operation::Insert(Insert { key, value, ttl_secs: 0 })),
        2 => cmd(Operation::Delete(Delete { key })),
        3 => cmd(Operation::CompareAndSwap(CompareAndSwap { key, expected_value: Some(Bytes::from_static(b"x")), new_value: value })),
        4 => EntryPayload::config(Change::AddNode(AddNode { node_id: 9, address: "127.0.0.1:1".into(), status: 0 })),
        _ => EntryPayload::noop(),
    };
    Entry { index, term: 1, payload: Some(payload) }
}

pub fn run(_rt: &tokio::runtime::Runtime, case: Value) -> Value {
    let cfg = crate::ints(&case[0]);
    let (buf, queue, maxw, hb_on, start_applied) = (cfg[0] as usize, cfg[1] as usize, cfg[2] as usize, cfg[3], cfg[4]);
    let rt = tokio::runtime::Builder::new_current_thread().enable_time().start_paused(true).build().unwrap();
    rt.block_on(async move {
        // ---- wiring exactly as d-engine-server/src/node/builder.rs does it
        let (broadcast_tx, broadcast_rx) = tokio::sync::broadcast::channel(queue);
        let (unregister_tx, unregister_rx) = mpsc::unbounded_channel();
        let registry = Arc::new(WatchRegistry::new_with_limits(buf, maxw, unregister_tx));
        let last_applied_ref = Arc::new(std::sync::atomic::AtomicU64::new(start_applied));
        let dispatcher = WatchDispatcher::new(Arc::clone(&registry), broadcast_rx, unregister_rx, Arc::clone(&last_applied_ref), if hb_on != 0 { HB_MS } else { 0 });
        // the state machine: reports per entry the `succeeded` flag given in the case (or fails the whole chunk)
        let plan: Arc<Mutex<(bool, HashMap<u64, bool>)>> = Arc::new(Mutex::new((false, HashMap::new())));
        let mut sm = MockStateMachine::new();
        let p2 = plan.clone();
        sm.expect_apply_chunk().returning(move |chunk| {
            let p = p2.lock().unwrap();
            if p.0 {
                return Err(StorageError::StateMachineError("injected".into()).into());
            }
            Ok(chunk.iter().map(|e| ApplyResult { index: e.index, succeeded: *p.1.get(&e.index).unwrap_or(&true) }).collect())
        });
        sm.expect_get().returning(|_| Ok(None));
        sm.expect_last_applied().returning(|| LogId { term: 0, index: 0 });
        let handler = DefaultStateMachineHandler::<SimTC>::new(
            1,
            start_applied,
            Arc::new(sm),
            base_config().raft.snapshot.clone(),
            MockSnapshotPolicy::new(),
            Some(broadcast_tx.clone()),
            registry.prev_kv_watcher_count_arc(),
        );
        let mut disp = Box::pin(tokio::task::unconstrained(dispatcher.run()));
        macro_rules! run_idle {
            () => {
                for _ in 0..2 {
                    let _ = futures::poll!(disp.as_mut());
                    tokio::task::yield_now().await;
                }
            };
        }
        // fix the heartbeat phase: the first (jittered) tick falls in [0.9, 1.1) periods after the first poll
        run_idle!();
        if hb_on != 0 {
            tokio::time::advance(std::time::Duration::from_millis(HB_MS + HB_MS / 10)).await;
            run_idle!();
        }
        let mut held: Vec<Held> = vec![];
        let mut outs: Vec<Value> = vec![];
        for l in case[1].as_array().unwrap() {
            match l[0].as_u64().unwrap() {
                0 => {
                    let key = bytes_of(&l[2]);
                    let r = if l[1].as_u64().unwrap() != 0 { registry.register_prefix(key, false) } else { registry.register(key, false) };
                    match r {
                        Ok(h) => {
                            let id = h.id();
                            if l[3].as_u64().unwrap() != 0 {
                                let (_, _, rx) = h.into_receiver();
                                held.push(Held::Detached(rx));
                            } else {
                                held.push(Held::Handle(h));
                            }
                            outs.push(json!([0, id]));
                        }
                        Err(WatchError::LimitExceeded(_)) => outs.push(json!([1, 0])),
                        Err(WatchError::InvalidPrefix) => outs.push(json!([2, 0])),
                    }
                }
                1 => {
                    let entries: Vec<Entry> = l[2].as_array().unwrap().iter().map(entry_of).collect();
                    {
                        let mut p = plan.lock().unwrap();
                        p.0 = l[1].as_u64().unwrap() != 0;
                        p.1 = l[2].as_array().unwrap().iter().map(|e| (e[0].as_u64().unwrap(), e[4].as_u64().unwrap() != 0)).collect();
                    }
                    let r = handler.apply_chunk(entries).await;
                    outs.push(json!([if r.is_ok() { 1 } else { 0 }]));
                }
                2 => {
                    run_idle!();
                    outs.push(json!([]));
                }
                3 => {
                    let w = l[1].as_u64().unwrap() as usize;
                    let k = l[2].as_u64().unwrap();
                    outs.push(if w < held.len() { take(&mut held[w], k) } else { json!([[], 2]) });
                }
                4 => {
                    let w = l[1].as_u64().unwrap() as usize;
                    if w < held.len() {
                        held[w] = Held::Dropped;
                    }
                    outs.push(json!([]));
                }
                _ => {
                    tokio::time::advance(std::time::Duration::from_millis(HB_MS)).await;
                    run_idle!();
                    outs.push(json!([]));
                }
            }
        }
        run_idle!();
        let fin: Vec<Value> = held.iter_mut().map(|h| take(h, u64::MAX)).collect();
        json!([outs, fin])
    })
}
