(* Pinned statements of property C26. Nothing else lives here. *)
From Coq Require Import NArith List.
From DE Require Import Val Membership proofs.C26.
Import ListNotations.
Open Scope N_scope.

(* one membership change that touches a single node (AddNode, RemoveNode, Promote, a batch of at most one id):
   a majority of the view that has not applied it and a majority of the view that has applied it share a node *)
Theorem C26_single_change_quorums_intersect_partial :
  forall (ma mb0 : mstate) (c : change) (x : N) (Qa Qb : list N),
    m_nodes mb0 = m_nodes ma ->
    touches_one c x ->
    (is_active (lookup (m_self ma) (m_nodes ma)) = true \/ is_active (lookup (m_self ma) (m_nodes (app mb0 c))) = true) ->
    (is_active (lookup (m_self mb0) (m_nodes ma)) = true \/ is_active (lookup (m_self mb0) (m_nodes (app mb0 c))) = true) ->
    quorum (vset ma) Qa -> quorum (vset (app mb0 c)) Qb ->
    exists y, In y Qa /\ In y Qb.
Proof. exact single_change_quorums_intersect. Qed.
Print Assumptions C26_single_change_quorums_intersect_partial.

(* known finding: the leader promotes two learners with one entry (calculate_safe_batch_size) *)
Theorem C26_batch_promote_refuted :
  exists (ma mb0 : mstate) (ids : list N) (Qa Qb : list N),
    m_nodes mb0 = m_nodes ma /\
    N.of_nat (length ids) = safe_batch (N.of_nat (length (vset ma))) 2 /\
    is_active (lookup (m_self ma) (m_nodes ma)) = true /\
    is_active (lookup (m_self mb0) (m_nodes (app mb0 (CBatchPromote ids S_ACTIVE)))) = true /\
    quorum (vset ma) Qa /\ quorum (vset (app mb0 (CBatchPromote ids S_ACTIVE))) Qb /\
    (forall y, In y Qa -> ~ In y Qb).
Proof. exact batch_promote_disjoint_quorums. Qed.
Print Assumptions C26_batch_promote_refuted.

Theorem C26_batch_promote_refuted_3_to_5 :
  exists (ma mb0 : mstate) (ids : list N) (Qa Qb : list N),
    m_nodes mb0 = m_nodes ma /\
    N.of_nat (length ids) = safe_batch (N.of_nat (length (vset ma))) 2 /\
    quorum (vset ma) Qa /\ quorum (vset (app mb0 (CBatchPromote ids S_ACTIVE))) Qb /\
    (forall y, In y Qa -> ~ In y Qb).
Proof. exact batch_promote_disjoint_quorums_3_to_5. Qed.
Print Assumptions C26_batch_promote_refuted_3_to_5.

(* and a node two single-node changes behind (nothing in the code bounds the apply lag) *)
Theorem C26_two_changes_lag_refuted :
  exists (ma mb0 : mstate) (Qa Qb : list N),
    m_nodes mb0 = m_nodes ma /\
    quorum (vset ma) Qa /\ quorum (vset (run mb0 [CPromote 4; CPromote 5])) Qb /\ (forall y, In y Qa -> ~ In y Qb).
Proof. exact two_changes_lag_disjoint_quorums. Qed.
Print Assumptions C26_two_changes_lag_refuted.
