(* Pinned statements of property C28. Nothing else lives here. *)
From Coq Require Import NArith List.
From DE Require Import Val Membership proofs.C28.
Import ListNotations.
Open Scope N_scope.

(* as coded: a restarted node's view is the static initial configuration *)
Theorem C28_restart_falls_back_to_initial :
  forall (self : N) (init : list node) (cs : list change), restart (run (mk self init) cs) init = mk self init.
Proof. exact restart_falls_back_to_initial. Qed.
Print Assumptions C28_restart_falls_back_to_initial.

Theorem C28_changes_after_restart_start_from_initial :
  forall (self : N) (init : list node) (cs1 cs2 : list change),
    run (restart (run (mk self init) cs1) init) cs2 = run (mk self init) cs2.
Proof. exact changes_after_restart_start_from_initial. Qed.
Print Assumptions C28_changes_after_restart_start_from_initial.

(* known finding *)
Theorem C28_restart_refuted :
  exists (self : N) (init : list node) (cs : list change),
    let m := run (mk self init) cs in
    m_nodes (restart m init) <> m_nodes m /\ voters m = [2] /\ voters (restart m init) = [] /\
    won (restart m init) [] = true.
Proof. exact restart_refuted. Qed.
Print Assumptions C28_restart_refuted.

(* the property holds exactly for the histories whose applied changes left the member map as configured *)
Theorem C28_restart_view_partial :
  forall (self : N) (init : list node) (cs : list change),
    m_nodes (restart (run (mk self init) cs) init) = m_nodes (run (mk self init) cs)
    <-> m_nodes (run (mk self init) cs) = m_nodes (mk self init).
Proof. exact restart_view_partial. Qed.
Print Assumptions C28_restart_view_partial.
