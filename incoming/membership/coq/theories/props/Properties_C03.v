(* Pinned statements of property C03. Nothing else lives here. *)
From Coq Require Import NArith List.
From DE Require Import Val Membership proofs.C03 proofs.C03fix.
Import ListNotations.
Open Scope N_scope.

(* the shortcut (win, no vote request sent) is taken exactly by nodes whose INITIAL configuration had one node *)
Theorem C03_shortcut_taken_iff_booted_alone :
  forall (self : N) (init : list node) (cs : list change) (rs : list N),
    (won (run (mk self init) cs) rs = true /\ asked (run (mk self init) cs) rs = false) <-> length init = 1%nat.
Proof. exact shortcut_taken_iff_booted_alone. Qed.
Print Assumptions C03_shortcut_taken_iff_booted_alone.

(* known finding: booted alone, expanded to three voters, still elects itself without votes *)
Theorem C03_shortcut_refuted :
  exists (self : N) (init : list node) (cs : list change) (rs : list N),
    (1 <= length init <= 5)%nat /\
    let m := run (mk self init) cs in
    won m rs = true /\ asked m rs = false /\ granted (length (voters m)) rs = 0 /\ voters m = [2; 3].
Proof. exact shortcut_refuted. Qed.
Print Assumptions C03_shortcut_refuted.

(* the property, for every history outside that class *)
Theorem C03_shortcut_sound_outside_known :
  forall (self : N) (init : list node) (cs : list change) (rs : list N),
    let m := run (mk self init) cs in
    ~ (length init = 1%nat /\ voters m <> []) ->
    won m rs = true ->
    (granted (length (voters m)) rs = 0 -> voters m = []) /\
    (voters m <> [] ->
       asked m rs = true /\ 1 <= granted (length (voters m)) rs /\
       N.of_nat (length (vset m)) < 2 * (1 + granted (length (voters m)) rs)).
Proof. exact shortcut_sound_outside_known. Qed.
Print Assumptions C03_shortcut_sound_outside_known.

(* the full statement, on the model of the suggested fix (is_single_node_cluster also requires voters() to be empty) *)
Theorem C03_full_statement_on_fixed_model :
  forall (self : N) (init : list node) (cs : list change) (rs : list N),
    let m := run (mk self init) cs in
    won_fixed m rs = true ->
    (granted (length (voters m)) rs = 0 -> voters m = []) /\
    (voters m <> [] ->
       1 <= granted (length (voters m)) rs /\
       N.of_nat (length (vset m)) < 2 * (1 + granted (length (voters m)) rs)).
Proof. exact shortcut_sound_fixed. Qed.
Print Assumptions C03_full_statement_on_fixed_model.
