(* C26 — quorums of views one membership change apart. Proved on DE.Membership.
   Also the shared lemma library of the membership block (lookup / ins / del / upd, voters, vset). *)
From Coq Require Import NArith List Bool Lia Arith.
From DE Require Import Val BufLog LeaderCommit Membership.
Import ListNotations.
Open Scope N_scope.

(* ---- association list ---- *)
Lemma lookup_ins y n l : lookup y (ins n l) = if y =? n_id n then Some n else lookup y l.
Proof.
  induction l as [|h t IH]; cbn [ins lookup]; [reflexivity|].
  destruct (N.ltb_spec (n_id n) (n_id h)) as [Hlt|Hge]; [cbn [lookup]; reflexivity|].
  destruct (N.eqb_spec (n_id n) (n_id h)) as [Heq|Hne]; cbn [lookup].
  - rewrite <- Heq. destruct (y =? n_id n); reflexivity.
  - rewrite IH. destruct (N.eqb_spec y (n_id h)) as [Hyh|Hyh]; [|reflexivity].
    destruct (N.eqb_spec y (n_id n)) as [Hyn|Hyn]; [|reflexivity]. congruence.
Qed.

Lemma lookup_del y x l : lookup y (del x l) = if y =? x then None else lookup y l.
Proof.
  induction l as [|h t IH]; cbn [del filter lookup].
  - destruct (y =? x); reflexivity.
  - fold (del x t). destruct (N.eqb_spec (n_id h) x) as [Hhx|Hhx]; cbn [negb].
    + rewrite IH. destruct (N.eqb_spec y x) as [Hyx|Hyx]; [reflexivity|].
      destruct (N.eqb_spec y (n_id h)) as [Hyh|Hyh]; [congruence|reflexivity].
    + cbn [lookup]. rewrite IH. destruct (N.eqb_spec y (n_id h)) as [Hyh|Hyh]; [|reflexivity].
      destruct (N.eqb_spec y x) as [Hyx|Hyx]; [congruence|reflexivity].
Qed.

Lemma lookup_upd y x f l (Hf : forall n, n_id (f n) = n_id n) :
  lookup y (upd x f l) = if y =? x then option_map f (lookup x l) else lookup y l.
Proof.
  induction l as [|h t IH]; cbn [upd map lookup].
  - destruct (y =? x); reflexivity.
  - fold (upd x f t). destruct (N.eqb_spec (n_id h) x) as [Hhx|Hhx].
    + rewrite Hf. destruct (N.eqb_spec y x) as [Hyx|Hyx].
      * subst y. rewrite Hhx. rewrite N.eqb_refl. reflexivity.
      * rewrite IH. destruct (N.eqb_spec y (n_id h)) as [Hyh|Hyh]; [congruence|].
        destruct (N.eqb_spec y x); [contradiction|reflexivity].
    + rewrite IH. destruct (N.eqb_spec y x) as [Hyx|Hyx].
      * subst y. destruct (N.eqb_spec x (n_id h)) as [E|E]; [congruence|reflexivity].
      * reflexivity.
Qed.

Lemma promoted_id st n : n_id (promoted st n) = n_id n.
Proof. reflexivity. Qed.

Lemma lookup_some_in y l n : lookup y l = Some n -> In y (map n_id l) /\ n_id n = y.
Proof.
  induction l as [|h t IH]; cbn [lookup map]; [discriminate|].
  destruct (N.eqb_spec y (n_id h)) as [Hyh|Hyh]; intros H.
  - inversion H; subst. split; [left; reflexivity|reflexivity].
  - destruct (IH H) as [Hin Hid]. split; [right; exact Hin|exact Hid].
Qed.

Lemma batch_promote_other ids st l y : ~ In y ids -> lookup y (snd (batch_promote ids st l)) = lookup y l.
Proof.
  revert l. induction ids as [|x r IH]; intros l Hni; cbn [batch_promote snd]; [reflexivity|].
  destruct (lookup x l) eqn:E; cbn [snd]; [|reflexivity].
  rewrite IH by (intros H; apply Hni; right; exact H).
  rewrite (lookup_upd y x _ l (promoted_id st)).
  destruct (N.eqb_spec y x) as [Hyx|Hyx]; [|reflexivity]. exfalso. apply Hni. left. symmetry. exact Hyx.
Qed.

Lemma fold_del_some ids l y n : lookup y (fold_left (fun l x => del x l) ids l) = Some n -> lookup y l = Some n.
Proof.
  revert l. induction ids as [|x r IH]; intros l; cbn [fold_left]; [tauto|].
  intros H. apply IH in H. rewrite lookup_del in H. destruct (y =? x); [discriminate|exact H].
Qed.

Lemma fold_del_other ids l y : ~ In y ids -> lookup y (fold_left (fun l x => del x l) ids l) = lookup y l.
Proof.
  revert l. induction ids as [|x r IH]; intros l Hni; cbn [fold_left]; [reflexivity|].
  rewrite IH by (intros H; apply Hni; right; exact H). rewrite lookup_del.
  destruct (N.eqb_spec y x) as [Hyx|Hyx]; [|reflexivity]. exfalso. apply Hni. left. symmetry. exact Hyx.
Qed.

(* ---- changes never touch self / initial size ---- *)
Lemma app_self m c : m_self (app m c) = m_self m.
Proof.
  unfold app, apply_change. destruct c as [id st|id|id|ids st|ids]; cbn [snd].
  - destruct (lookup id (m_nodes m)); reflexivity.
  - reflexivity.
  - destruct (lookup id (m_nodes m)); reflexivity.
  - reflexivity.
  - reflexivity.
Qed.
Lemma app_init m c : m_init (app m c) = m_init m.
Proof.
  unfold app, apply_change. destruct c as [id st|id|id|ids st|ids]; cbn [snd].
  - destruct (lookup id (m_nodes m)); reflexivity.
  - reflexivity.
  - destruct (lookup id (m_nodes m)); reflexivity.
  - reflexivity.
  - reflexivity.
Qed.
Lemma run_self cs : forall m, m_self (run m cs) = m_self m.
Proof. induction cs as [|c r IH]; intros m; cbn [run fold_left]; [reflexivity|]. fold (run (app m c) r). rewrite IH. apply app_self. Qed.
Lemma run_init cs : forall m, m_init (run m cs) = m_init m.
Proof. induction cs as [|c r IH]; intros m; cbn [run fold_left]; [reflexivity|]. fold (run (app m c) r). rewrite IH. apply app_init. Qed.

(* ---- voters as a set ---- *)
Lemma In_voters m y : In y (voters m) <-> y <> m_self m /\ is_active (lookup y (m_nodes m)) = true.
Proof.
  unfold voters. rewrite filter_In. unfold keys. rewrite nodup_In. split.
  - intros [_ H]. apply andb_true_iff in H. destruct H as [H1 H2]. split; [|exact H2].
    apply negb_true_iff in H1. apply N.eqb_neq. exact H1.
  - intros [H1 H2]. split.
    + destruct (lookup y (m_nodes m)) eqn:E; [|discriminate]. apply (lookup_some_in _ _ _ E).
    + apply andb_true_iff. split; [|exact H2]. apply negb_true_iff. apply N.eqb_neq. exact H1.
Qed.

Lemma In_vset m y : In y (vset m) <-> y = m_self m \/ is_active (lookup y (m_nodes m)) = true.
Proof.
  unfold vset. cbn [In]. rewrite In_voters. split.
  - intros [H|[_ H]]; [left; symmetry; exact H|right; exact H].
  - intros [H|H]; [left; symmetry; exact H|].
    destruct (N.eq_dec y (m_self m)) as [E|E]; [left; symmetry; exact E|right; split; assumption].
Qed.

Lemma NoDup_vset m : NoDup (vset m).
Proof.
  unfold vset. constructor.
  - rewrite In_voters. intros [H _]. apply H. reflexivity.
  - unfold voters. apply NoDup_filter. unfold keys. apply NoDup_nodup.
Qed.

(* ---- majorities ---- *)
Definition quorum (V Q : list N) : Prop := NoDup Q /\ incl Q V /\ (length V < 2 * length Q)%nat.

Lemma nodup_app_disjoint (l1 l2 : list N) :
  NoDup l1 -> NoDup l2 -> (forall y, In y l1 -> ~ In y l2) -> NoDup (l1 ++ l2).
Proof.
  induction l1 as [|a t IH]; intros H1 H2 Hd; cbn [app]; [exact H2|].
  inversion H1 as [|? ? Ha Ht]; subst. constructor.
  - rewrite in_app_iff. intros [H|H]; [exact (Ha H)|]. apply (Hd a); [left; reflexivity|exact H].
  - apply IH; [exact Ht|exact H2|]. intros y Hy. apply Hd. right. exact Hy.
Qed.

Lemma quorums_meet V1 V2 x Q1 Q2 :
  NoDup V1 -> NoDup V2 -> (forall y, y <> x -> (In y V1 <-> In y V2)) ->
  quorum V1 Q1 -> quorum V2 Q2 -> exists y, In y Q1 /\ In y Q2.
Proof.
  intros HV1 HV2 Hx [HQ1 [Hi1 Hm1]] [HQ2 [Hi2 Hm2]].
  destruct (existsb (fun y => existsb (N.eqb y) Q2) Q1) eqn:E.
  - apply existsb_exists in E. destruct E as [y [Hy1 Hy2]]. apply existsb_exists in Hy2.
    destruct Hy2 as [z [Hz Hyz]]. apply N.eqb_eq in Hyz. subst z. exists y. split; assumption.
  - exfalso.
    assert (Hd : forall y, In y Q1 -> ~ In y Q2).
    { intros y Hy1 Hy2. assert (T : existsb (fun y => existsb (N.eqb y) Q2) Q1 = true).
      { apply existsb_exists. exists y. split; [exact Hy1|]. apply existsb_exists. exists y. split; [exact Hy2|apply N.eqb_refl]. }
      rewrite T in E. discriminate. }
    pose proof (nodup_app_disjoint Q1 Q2 HQ1 HQ2 Hd) as Hnd.
    destruct (in_dec N.eq_dec x V1) as [Hin|Hnin].
    + assert (Hsub : incl V2 V1).
      { intros y Hy. destruct (N.eq_dec y x) as [->|Hne]; [exact Hin|]. apply (Hx y Hne). exact Hy. }
      assert (Hall : incl (Q1 ++ Q2) V1).
      { intros y Hy. apply in_app_or in Hy. destruct Hy as [Hy|Hy]; [apply Hi1; exact Hy|apply Hsub; apply Hi2; exact Hy]. }
      pose proof (NoDup_incl_length Hnd Hall) as L1. rewrite app_length in L1.
      assert (Hb : incl V1 (x :: V2)).
      { intros y Hy. destruct (N.eq_dec y x) as [->|Hne]; [left; reflexivity|right; apply (Hx y Hne); exact Hy]. }
      pose proof (NoDup_incl_length HV1 Hb) as L2. cbn [length] in L2. lia.
    + assert (Hsub : incl V1 V2).
      { intros y Hy. destruct (N.eq_dec y x) as [->|Hne]; [contradiction|]. apply (Hx y Hne). exact Hy. }
      assert (Hall : incl (Q1 ++ Q2) V2).
      { intros y Hy. apply in_app_or in Hy. destruct Hy as [Hy|Hy]; [apply Hsub; apply Hi1; exact Hy|apply Hi2; exact Hy]. }
      pose proof (NoDup_incl_length Hnd Hall) as L1. rewrite app_length in L1.
      assert (Hb : incl V2 (x :: V1)).
      { intros y Hy. destruct (N.eq_dec y x) as [->|Hne]; [left; reflexivity|right; apply (Hx y Hne); exact Hy]. }
      pose proof (NoDup_incl_length HV2 Hb) as L2. cbn [length] in L2. lia.
Qed.

(* ---- a change that touches the membership entry of at most one node ---- *)
Definition touches_one (c : change) (x : N) : Prop :=
  match c with
  | CAdd id _ => x = id
  | CRemove id => x = id
  | CPromote id => x = id
  | CBatchPromote ids _ => ids = [] \/ ids = [x]
  | CBatchRemove ids => ids = [] \/ ids = [x]
  end.

Lemma app_lookup_other m c x y : touches_one c x -> y <> x -> lookup y (m_nodes (app m c)) = lookup y (m_nodes m).
Proof.
  intros Ht Hne. unfold app, apply_change. destruct c as [id st|id|id|ids st|ids]; cbn [touches_one] in Ht; cbn [snd].
  - subst x. destruct (lookup id (m_nodes m)); cbn [snd]; [reflexivity|]. cbn [set_nodes m_nodes].
    rewrite lookup_ins. cbn [n_id]. destruct (N.eqb_spec y id); [contradiction|reflexivity].
  - subst x. cbn [bump set_nodes m_nodes]. rewrite lookup_del. destruct (N.eqb_spec y id); [contradiction|reflexivity].
  - subst x. destruct (lookup id (m_nodes m)); cbn [snd]; [|reflexivity]. cbn [set_nodes m_nodes].
    rewrite (lookup_upd y id _ _ (promoted_id S_ACTIVE)). destruct (N.eqb_spec y id); [contradiction|reflexivity].
  - cbn [set_nodes m_nodes]. apply batch_promote_other. destruct Ht as [->| ->]; cbn [In]; [tauto|].
    intros [H|[]]. apply Hne. symmetry. exact H.
  - cbn [bump set_nodes m_nodes]. apply fold_del_other. destruct Ht as [->| ->]; cbn [In]; [tauto|].
    intros [H|[]]. apply Hne. symmetry. exact H.
Qed.

(* Node a has not applied change c yet, node b has (same member map before c). Both are voters of the old or of the
   new configuration. Any majority a may use and any majority b may use share a node. *)
Theorem single_change_quorums_intersect :
  forall (ma mb0 : mstate) (c : change) (x : N) (Qa Qb : list N),
    m_nodes mb0 = m_nodes ma ->
    touches_one c x ->
    (is_active (lookup (m_self ma) (m_nodes ma)) = true \/ is_active (lookup (m_self ma) (m_nodes (app mb0 c))) = true) ->
    (is_active (lookup (m_self mb0) (m_nodes ma)) = true \/ is_active (lookup (m_self mb0) (m_nodes (app mb0 c))) = true) ->
    quorum (vset ma) Qa -> quorum (vset (app mb0 c)) Qb ->
    exists y, In y Qa /\ In y Qb.
Proof.
  intros ma mb0 c x Qa Qb Hn Ht Ha Hb HQa HQb.
  apply (quorums_meet (vset ma) (vset (app mb0 c)) x Qa Qb (NoDup_vset ma) (NoDup_vset (app mb0 c))); [|exact HQa|exact HQb].
  intros y Hne. rewrite !In_vset. rewrite app_self.
  assert (E : lookup y (m_nodes (app mb0 c)) = lookup y (m_nodes ma)).
  { rewrite (app_lookup_other mb0 c x y Ht Hne). rewrite Hn. reflexivity. }
  rewrite E. split.
  - intros [H|H]; [|right; exact H]. subst y. right. destruct Ha as [Ha|Ha]; [exact Ha|]. rewrite <- E. exact Ha.
  - intros [H|H]; [|right; exact H]. subst y. right. destruct Hb as [Hb|Hb]; [exact Hb|]. rewrite <- E. exact Hb.
Qed.

Definition n1 := {| n_id := 1; n_role := R_FOLLOWER; n_status := S_ACTIVE |}.
Definition nf (i : N) := {| n_id := i; n_role := R_FOLLOWER; n_status := S_ACTIVE |}.
Definition nl (i : N) := {| n_id := i; n_role := R_LEARNER; n_status := S_PROMOTABLE |}.

(* non-vacuity: 3 voters + a learner, Promote of the learner; {1,2} (old view of 1) and {2,3,4} (new view of 4) meet in 2 *)
Example single_change_example :
  let ma := mk 1 [nf 1; nf 2; nf 3; nl 4] in
  let mb0 := mk 4 [nf 1; nf 2; nf 3; nl 4] in
  quorum (vset ma) [1; 2] /\ quorum (vset (app mb0 (CPromote 4))) [2; 3; 4] /\ touches_one (CPromote 4) 4.
Proof.
  cbn. repeat split; try (repeat constructor; cbn; intuition discriminate); try (cbn; lia);
  intros y Hy; cbn in Hy |- *; intuition.
Qed.

(* ---- refutation for batch promotion: the leader promotes two learners with one entry ---- *)
Definition disjoint (Q1 Q2 : list N) : bool := negb (existsb (fun y => existsb (N.eqb y) Q2) Q1).
Definition quorumb (V Q : list N) : bool :=
  (length V <? 2 * length Q)%nat && forallb (fun y => existsb (N.eqb y) V) Q &&
  (length (nodup N.eq_dec Q) =? length Q)%nat.

Lemma quorumb_sound V Q : quorumb V Q = true -> quorum V Q.
Proof.
  unfold quorumb, quorum. intros H. apply andb_true_iff in H. destruct H as [H H3]. apply andb_true_iff in H. destruct H as [H1 H2].
  split; [|split].
  - apply Nat.eqb_eq in H3. clear H1 H2. induction Q as [|a t IH]; [constructor|].
    cbn [nodup] in H3. destruct (in_dec N.eq_dec a t) as [Hin|Hnin].
    + exfalso. pose proof (NoDup_incl_length (NoDup_nodup N.eq_dec t) (fun y Hy => proj1 (nodup_In N.eq_dec t y) Hy)) as L.
      cbn [length] in H3. lia.
    + cbn [length] in H3. constructor; [exact Hnin|]. apply IH. lia.
  - intros y Hy. rewrite forallb_forall in H2. specialize (H2 y Hy). apply existsb_exists in H2.
    destruct H2 as [z [Hz E]]. apply N.eqb_eq in E. subst z. exact Hz.
  - apply Nat.ltb_lt in H1. exact H1.
Qed.

Lemma disjoint_sound Q1 Q2 : disjoint Q1 Q2 = true -> forall y, In y Q1 -> ~ In y Q2.
Proof.
  unfold disjoint. intros H y H1 H2. apply negb_true_iff in H.
  assert (T : existsb (fun y => existsb (N.eqb y) Q2) Q1 = true).
  { apply existsb_exists. exists y. split; [exact H1|]. apply existsb_exists. exists y. split; [exact H2|apply N.eqb_refl]. }
  rewrite T in H. discriminate.
Qed.

(* 1 voter + 2 caught-up learners: calculate_safe_batch_size(1, 2) = 2, one BatchPromote [2;3]; node 1 has not applied it
   and may commit / be elected with {1}; nodes 2 and 3 have applied it and elect with {2,3}. *)
Theorem batch_promote_disjoint_quorums :
  exists (ma mb0 : mstate) (ids : list N) (Qa Qb : list N),
    m_nodes mb0 = m_nodes ma /\
    N.of_nat (length ids) = safe_batch (N.of_nat (length (vset ma))) 2 /\
    is_active (lookup (m_self ma) (m_nodes ma)) = true /\
    is_active (lookup (m_self mb0) (m_nodes (app mb0 (CBatchPromote ids S_ACTIVE)))) = true /\
    quorum (vset ma) Qa /\ quorum (vset (app mb0 (CBatchPromote ids S_ACTIVE))) Qb /\
    (forall y, In y Qa -> ~ In y Qb).
Proof.
  exists (mk 1 [nf 1; nl 2; nl 3]), (mk 2 [nf 1; nl 2; nl 3]), [2; 3], [1], [2; 3].
  split; [reflexivity|]. split; [vm_compute; reflexivity|]. split; [vm_compute; reflexivity|]. split; [vm_compute; reflexivity|].
  split; [apply quorumb_sound; vm_compute; reflexivity|]. split; [apply quorumb_sound; vm_compute; reflexivity|].
  apply disjoint_sound. vm_compute. reflexivity.
Qed.

(* 3 voters + 2 learners: calculate_safe_batch_size(3, 2) = 2; {1,2} under the old view, {3,4,5} under the new one *)
Theorem batch_promote_disjoint_quorums_3_to_5 :
  exists (ma mb0 : mstate) (ids : list N) (Qa Qb : list N),
    m_nodes mb0 = m_nodes ma /\
    N.of_nat (length ids) = safe_batch (N.of_nat (length (vset ma))) 2 /\
    quorum (vset ma) Qa /\ quorum (vset (app mb0 (CBatchPromote ids S_ACTIVE))) Qb /\
    (forall y, In y Qa -> ~ In y Qb).
Proof.
  exists (mk 1 [nf 1; nf 2; nf 3; nl 4; nl 5]), (mk 3 [nf 1; nf 2; nf 3; nl 4; nl 5]), [4; 5], [1; 2], [3; 4; 5].
  split; [reflexivity|]. split; [vm_compute; reflexivity|].
  split; [apply quorumb_sound; vm_compute; reflexivity|]. split; [apply quorumb_sound; vm_compute; reflexivity|].
  apply disjoint_sound. vm_compute. reflexivity.
Qed.

(* the same happens with two single-node promotions when a node lags two applies behind (apply lag is not bounded by the code) *)
Theorem two_changes_lag_disjoint_quorums :
  exists (ma mb0 : mstate) (Qa Qb : list N),
    m_nodes mb0 = m_nodes ma /\
    quorum (vset ma) Qa /\ quorum (vset (run mb0 [CPromote 4; CPromote 5])) Qb /\ (forall y, In y Qa -> ~ In y Qb).
Proof.
  exists (mk 1 [nf 1; nf 2; nf 3; nl 4; nl 5]), (mk 3 [nf 1; nf 2; nf 3; nl 4; nl 5]), [1; 2], [3; 4; 5].
  split; [reflexivity|].
  split; [apply quorumb_sound; vm_compute; reflexivity|]. split; [apply quorumb_sound; vm_compute; reflexivity|].
  apply disjoint_sound. vm_compute. reflexivity.
Qed.
