(* C28 — what a restarted node believes about the cluster. Proved / refuted on DE.Membership
   (builder.rs: every start constructs RaftMembership::new(node_id, initial_cluster, ..) and nothing re-applies the
   config entries at or below the applied index). *)
From Coq Require Import NArith List Bool Lia Arith.
From DE Require Import Val BufLog LeaderCommit Membership proofs.C26.
Import ListNotations.
Open Scope N_scope.

(* FULL STATEMENT (false on the code as it is, see restart_refuted):
     forall self init cs, m_nodes (restart (run (mk self init) cs) init) = m_nodes (run (mk self init) cs). *)

(* as coded: the view after a restart IS the static initial configuration, whatever had been applied *)
Theorem restart_falls_back_to_initial :
  forall (self : N) (init : list node) (cs : list change), restart (run (mk self init) cs) init = mk self init.
Proof. intros self init cs. unfold restart. rewrite run_self. reflexivity. Qed.

(* changes committed after the restart are applied on top of the initial configuration, not on top of the lost view *)
Theorem changes_after_restart_start_from_initial :
  forall (self : N) (init : list node) (cs1 cs2 : list change),
    run (restart (run (mk self init) cs1) init) cs2 = run (mk self init) cs2.
Proof. intros. rewrite restart_falls_back_to_initial. reflexivity. Qed.

(* node 1 booted alone, learner 2 joined and was promoted; after a restart node 1 believes it is alone again
   (and, C03, elects itself without votes) *)
Theorem restart_refuted :
  exists (self : N) (init : list node) (cs : list change),
    let m := run (mk self init) cs in
    m_nodes (restart m init) <> m_nodes m /\ voters m = [2] /\ voters (restart m init) = [] /\
    won (restart m init) [] = true.
Proof.
  exists 1, [nf 1], [CAdd 2 S_PROMOTABLE; CBatchPromote [2] S_ACTIVE]. vm_compute.
  split; [discriminate|]. repeat split; reflexivity.
Qed.

(* the statement holds exactly when the applied changes left the member map equal to the initial one *)
Theorem restart_view_partial :
  forall (self : N) (init : list node) (cs : list change),
    m_nodes (restart (run (mk self init) cs) init) = m_nodes (run (mk self init) cs)
    <-> m_nodes (run (mk self init) cs) = m_nodes (mk self init).
Proof. intros. rewrite restart_falls_back_to_initial. split; intros H; symmetry; exact H. Qed.

Example restart_no_change_example :
  m_nodes (restart (run (mk 1 [nf 1; nf 2; nf 3]) [CAdd 2 S_PROMOTABLE]) [nf 1; nf 2; nf 3]) = m_nodes (run (mk 1 [nf 1; nf 2; nf 3]) [CAdd 2 S_PROMOTABLE]).
Proof. reflexivity. Qed.
