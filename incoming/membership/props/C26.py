"""C26 — membership changes never allow two disjoint quorums."""
import json
from dvlib import core, flow
from dvlib.core import Broken
from props import mgen

ID = 'C26'
PROPS_FILE = 'theories/props/Properties_C26.v'
CONE = mgen.CONE

def gen_cases(run, thorough):
    r = run.rng('hist'); dist = {}; cases = [mgen.expansion_case()]
    n = 4000 if thorough else 500
    for k in range(n):
        cases.append(mgen.history(r, dist, want=('change', 'query') if k % 3 else ('change', 'elect', 'restart', 'query')))
    # boundary: k voters + p caught-up learners promoted by the leader, every small combination
    for nv in range(1, 6):
        for p in range(1, 5):
            init = [[i, mgen.FOLLOWER, mgen.ACTIVE] for i in range(1, nv + 1)]
            ls = list(range(10, 10 + p))
            cases.append([1, init, [[0, i, 1] for i in ls] + [[7, nv, p], [9, ls], [9, ls[::-1]]]])
    return cases, dist

def majority(n): return n // 2 + 1

def disjoint_majorities(va, vb):
    """two disjoint sets, a majority of va inside va and a majority of vb inside vb, or None"""
    va, vb = set(va), set(vb)
    qa, qb = majority(len(va)), majority(len(vb))
    only_a, only_b, both = sorted(va - vb), sorted(vb - va), sorted(va & vb)
    need_a, need_b = max(0, qa - len(only_a)), max(0, qb - len(only_b))
    if need_a + need_b > len(both): return None
    A = only_a[:qa] + both[:need_a]
    B = only_b[:qb] + both[need_a:need_a + need_b]
    return sorted(A), sorted(B)

LEADER_MADE = (0, 1, 2, 9)      # changes the leader code path produces: AddNode (join), RemoveNode, Promote, BatchPromote via promotion of ready learners

def oracle(case, out):
    """The property on the implementation's own voter sets: the voting set (self + voters()) of a node that has not yet
    applied a change and the one of a node that has applied it must not admit disjoint majorities."""
    me = case[0]; vs = mgen.views(out)
    for k, step in enumerate(case[2]):
        kind = step[0]
        single_batch = kind in (3, 4) and len(step[1]) <= 1
        if kind not in LEADER_MADE and not single_batch: continue
        before, after = vs[k], vs[k + 1]
        va, vb = set(before[2]) | {me}, set(after[2]) | {me}
        d = disjoint_majorities(va, vb)
        if d:
            cls = 'batch-promotion-disjoint-quorums' if kind == 9 else 'single-change-disjoint-quorums'
            return (cls, 'change %s: voting set %s before, %s after applying it; %s is a majority of the first, %s of the second, and they are disjoint' % (json.dumps(step), sorted(va), sorted(vb), d[0], d[1]))
    return None

def oracle_promote(case, out):
    """the BatchPromote entries the REAL leader path appended (probe promote): the voting set before and after one entry"""
    sizes, ids = out
    active = {m[0] for m in case[0] if m[2] == mgen.ACTIVE} | {1}
    k = 0
    for n in sizes:
        batch = ids[k:k + n]; k += n
        after = active | set(batch)
        d = disjoint_majorities(active, after)
        if d:
            return ('batch-promotion-disjoint-quorums', 'the leader appended ONE BatchPromote%s: voting set %s before, %s after applying it; %s and %s are disjoint majorities' % (batch, sorted(active), sorted(after), d[0], d[1]))
        active = after
    return None

def check(run):
    thorough = run.tier == 'thorough'
    run.cov['trusted_base'] += [
        "hand-written model DE.Membership (RaftMembership::apply_config_change / voters, calculate_safe_batch_size, the batch the leader builds in handle_promote_ready_learners), tied to the code by the membership probe",
        "harness: the real RaftMembership (add-only hook verif_new) driven with committed changes; step 9 re-enacts handle_promote_ready_learners steps 2-5 with the real calculate_safe_batch_size and ONE BatchPromote entry; probe promote runs the real LeaderState::check_learner_progress + handle_promote_ready_learners and reads the BatchPromote entries they append to the log",
        "structural fact: DefaultCommitHandler::apply_config_change applies a config entry when it is committed and processed on that node (per-node apply lag), there is no joint configuration",
    ]
    run.assumptions += ["views compared are one change apart (a node that applied the change vs one that has not); C26_two_changes_lag_refuted shows that a larger lag is not safe either",
                        "BatchPromote/BatchRemove entries with several ids that the leader code never builds are replayed for the correspondence but not judged"]
    broken = flow.proof_step(run, PROPS_FILE, CONE)
    violations = []
    try:
        core.harness_build()
        cases, dist = gen_cases(run, thorough)
        outs = core.probe_parallel('membership', cases)
        pairs = []
        for c, o in zip(cases, outs):
            if isinstance(o, str):
                broken.append(('correspondence', 'membership probe error', o[:300])); continue
            pairs.append((c, o))
            why = oracle(c, o)
            if why:
                violations.append({'class': why[0], 'probe': 'membership', 'input': c, 'output': o, 'why': why[1]})
        mgen.correspondence(broken, run, 'memb_probe', pairs, 'C26', 'DE.Membership vs RaftMembership (probe membership)')
        pc = mgen.promote_cases(run.rng('promote'), 1500 if thorough else 250, dist)
        pouts = core.probe_parallel('promote', pc); ppairs = []
        for c, o in zip(pc, pouts):
            if isinstance(o, str):
                broken.append(('correspondence', 'promote probe error', o[:300])); continue
            ppairs.append((c, o[0]))
            why = oracle_promote(c, o)
            if why:
                violations.append({'class': why[0], 'probe': 'promote', 'input': c, 'output': o, 'why': why[1]})
        mgen.correspondence(broken, run, 'promote_probe', ppairs, 'C26promote', 'DE.Membership.batches vs LeaderState::check_learner_progress + handle_promote_ready_learners (probe promote)')
        dist['promote:entries-with-2+-ids'] = sum(1 for _, o in ppairs for n in o if n >= 2)
        dist['promote:two-entries-in-flight'] = sum(1 for _, o in ppairs if len(o) >= 2)
        run.cov['evaluations'] += len(ppairs); run.cov['traces_validated_against_impl'] += len(ppairs)
        dist['changes-judged'] = sum(1 for c, _ in pairs for s in c[2] if s[0] in LEADER_MADE or (s[0] in (3, 4) and len(s[1]) <= 1))
        dist['batches-of-2+'] = sum(1 for c, o in pairs for s, v in zip(c[2], mgen.views(o)[1:]) if s[0] == 9 and v[0][1] >= 2)
        run.add_cases(len(pairs), len({json.dumps(c) for c, _ in pairs}), [{'case': pairs[j][0], 'impl': pairs[j][1]} for j in (0, len(pairs) - 1)], dist,
                      'seeded membership histories (joins, leader batch promotion of 1..4 pending learners sized by the real calculate_safe_batch_size, Promote, RemoveNode, BatchRemove, invalid changes) + every combination of 1..5 voters and 1..4 pending learners; for every change the voter sets before/after are taken from the real RaftMembership and searched for disjoint majorities')
    except Broken as b:
        broken.append(('harness', b.what, b.detail))
    return flow.conclude(run, broken, violations)

def replay(path):
    r = json.load(open(path))
    if r.get('kind') != 'counterexample':
        print('broken obligation:', [b['name'] for b in r.get('broken', [])]); return 1
    core.harness_build()
    probe = r.get('probe') or 'membership'
    out = core.probe(probe, [r['input']])[0]
    print('implementation output:', json.dumps(out)); why = (oracle_promote if probe == 'promote' else oracle)(r['input'], out)
    print('VIOLATES: %s — %s' % why if why else 'ok'); return 1 if why else 0

META = {
    'title': 'Membership changes never allow two disjoint quorums',
    'level': 'proof',
    'technique': 'Rocq theorem (majorities of two views one single-node change apart intersect) + refutation witnesses for batch promotion and for a two-change lag + differential check of the real RaftMembership::apply_config_change / calculate_safe_batch_size with a search for disjoint majorities on the real voter sets',
    'text': "Rocq: C26_single_change_quorums_intersect_partial — for every member map, every change that touches one node (AddNode, RemoveNode, Promote, a batch of at most one id) and any two nodes that are voters of the old or new configuration, a majority of the not-yet-applied view and a majority of the applied view share a node; C26_batch_promote_refuted / _3_to_5 — with the batch size the leader computes (calculate_safe_batch_size(1,2)=2, (3,2)=2) one BatchPromote yields disjoint majorities ({1} vs {2,3}; {1,2} vs {3,4,5}); C26_two_changes_lag_refuted — so does a node lagging two single-node changes. The model is replayed against the real RaftMembership and the search for disjoint majorities runs on the implementation's own voter sets before/after every change.",
    'note': "Partial: the full statement (all sequences, arbitrary lag, elections during the change) is false on the code; proved for views one single-node change apart. Known finding batch-promotion-disjoint-quorums (joint consensus or one-at-a-time promotion would be the fix). Trusted: Coq kernel, hand model Membership (validated by the probe). Needs the add-only hook RaftMembership::verif_new.",
    'design_ref': 'DESIGN.md §4 C26',
}
