"""Shared case generators / helpers of the membership block (C03, C26, C27, C28). Not a property module."""
import json

FOLLOWER, LEARNER = 1, 4
PROMOTABLE, READONLY, ACTIVE = 1, 2, 3

CONE = ['theories/BufLog.v', 'theories/LeaderCommit.v', 'theories/Membership.v', 'theories/proofs/C26.v']
IMPORTS = 'From DE Require Import BufLog LeaderCommit Membership.'

def history(r, dist, want=('change', 'elect', 'restart', 'query'), nsteps=None):
    """One case of the `membership` probe: [self, init, steps]. A python mirror of the member map is kept ONLY to
    make most steps meaningful (existing learners get promoted, existing members removed ...); it is never used
    as an oracle."""
    def tag(t): dist[t] = dist.get(t, 0) + 1
    n0 = r.choice([1, 1, 1, 2, 3, 3, 3, 4, 5, 5])
    init = [[i, FOLLOWER, ACTIVE] for i in range(1, n0 + 1)]
    me = 1 if r.chance(3, 4) else r.range(1, n0)
    if n0 >= 2 and r.chance(1, 6):          # a node that was configured as a learner of an existing cluster
        init[-1] = [n0, LEARNER, PROMOTABLE]; me = n0 if r.chance(1, 2) else me
    tag('init=%d' % n0)
    mirror = {n[0]: [n[1], n[2]] for n in init}
    nxt = n0 + 1
    steps = []
    for _ in range(nsteps if nsteps is not None else r.range(2, 10)):
        x = r.below(100)
        learners = sorted(i for i, (ro, st) in mirror.items() if ro == LEARNER)
        ready = sorted(i for i, (ro, st) in mirror.items() if ro == LEARNER and st == PROMOTABLE)
        members = sorted(mirror)
        if 'change' in want and x < 22:
            st = r.choice([PROMOTABLE] * 8 + [READONLY, ACTIVE, 0, 9])
            steps.append([0, nxt, st]); mirror[nxt] = [LEARNER, st if st <= 3 else PROMOTABLE]; nxt += 1; tag('add-learner' if st == PROMOTABLE else 'add-learner-status-%d' % st)
        elif 'change' in want and x < 40 and ready:
            pend = r.shuffle(ready)[:r.range(1, len(ready))]
            steps.append([9, pend]); tag('leader-promotes-%d-pending' % len(pend))
            voters = sum(1 for ro, st in mirror.values() if st == ACTIVE)
            k = len(pend) if (voters + len(pend)) % 2 == 1 else len(pend) - 1
            for i in pend[:max(k, 0)]: mirror[i] = [FOLLOWER, ACTIVE]
        elif 'change' in want and x < 46 and learners:
            i = r.choice(learners); steps.append([2, i]); mirror[i] = [FOLLOWER, ACTIVE]; tag('promote-one')
        elif 'change' in want and x < 54 and len(members) > 1:
            i = r.choice(members)
            if r.chance(1, 2): steps.append([1, i]); tag('remove-node')
            else: steps.append([4, [i]]); tag('batch-remove-1')
            mirror.pop(i, None)
        elif 'change' in want and x < 62:
            # boundary / invalid changes
            b = r.below(8)
            if b == 0 and members: steps.append([0, r.choice(members), PROMOTABLE]); tag('add-existing')
            elif b == 1: steps.append([2, nxt + 7]); tag('promote-unknown')
            elif b == 2 and learners:
                ids = [learners[0], nxt + 9] + learners[1:2]; steps.append([3, ids, ACTIVE]); tag('batch-promote-unknown-in-middle')
                mirror[learners[0]] = [FOLLOWER, ACTIVE]
            elif b == 3: steps.append([3, [], ACTIVE]); tag('batch-promote-empty')
            elif b == 4 and len(members) > 2:
                ids = r.shuffle(members)[:2]; steps.append([4, ids]); tag('batch-remove-2')
                for i in ids: mirror.pop(i, None)
            elif b == 5 and learners:
                steps.append([3, learners[:1], r.choice([PROMOTABLE, READONLY, 9])]); tag('batch-promote-odd-status')
                st = [PROMOTABLE, READONLY, ACTIVE][0]
                mirror[learners[0]] = [FOLLOWER, ACTIVE]
            elif b == 6: steps.append([1, nxt + 3]); tag('remove-unknown')
            else: steps.append([4, []]); tag('batch-remove-empty')
        elif 'elect' in want and x < 80:
            nv = sum(1 for i, (ro, st) in mirror.items() if st == ACTIVE and i != me)
            rs = [r.choice([0, 1, 1, 1, 2]) for _ in range(nv + r.below(2))]
            if r.chance(1, 5): rs = [0] * len(rs)
            steps.append([6, rs]); tag('election')
        elif 'restart' in want and x < 88:
            steps.append([5]); tag('restart')
            mirror = {n[0]: [n[1], n[2]] for n in init}
        elif 'query' in want and x < 94:
            steps.append([7, r.range(0, 7), r.range(0, 5)]); tag('safe-batch-size')
        elif 'query' in want:
            steps.append([8, r.choice(members + [nxt, nxt + 1]), r.choice([LEARNER, LEARNER, FOLLOWER])]); tag('join-precheck')
    return [me, init, steps]

def expansion_case():
    """The documented single-node expansion (d-engine/src/docs/examples/single-node-expansion.md): node 1 boots alone,
    learners 2 and 3 join, the leader promotes them, then node 1's election timer fires; finally node 1 restarts."""
    return [1, [[1, FOLLOWER, ACTIVE]], [[0, 2, PROMOTABLE], [0, 3, PROMOTABLE], [6, []], [9, [2, 3]], [6, [0, 0]], [6, [1, 1]], [5], [6, []]]]

def views(out):
    """[(res, members, voters, peers, single, init_size, ver)] of a `membership` probe output"""
    return [(o[0], o[1][0], o[1][1], o[1][2], o[1][3], o[1][4], o[1][5]) for o in out]

def correspondence(broken, run, fexpr, pairs, tag, what):
    from dvlib import core
    mism = core.coq_index_list(IMPORTS, '', fexpr, pairs, tag=tag)
    if mism:
        i = mism[0]
        broken.append(('correspondence', what, '%d disagreements; first on %s -> impl %s' % (len(mism), json.dumps(pairs[i][0]), json.dumps(pairs[i][1]))))
    run.cov['disagreements'] = run.cov.get('disagreements', 0) + len(mism)
    return mism

def builder_facts(repo):
    """Structural facts about d-engine-server/src/node/builder.rs that the `restart` step of the probe re-enacts.
    Returns a list of facts that no longer hold."""
    import os, re
    bad = []
    src = open(os.path.join(repo, 'd-engine-server/src/node/builder.rs')).read()
    src = re.sub(r'//[^\n]*', '', src)
    flat = re.sub(r'\s+', '', src)
    if 'RaftMembership::new(node_id,node_config.cluster.initial_cluster.clone(),node_config.clone(),)' not in flat:
        bad.append('builder.rs no longer builds the membership with RaftMembership::new(node_id, node_config.cluster.initial_cluster.clone(), node_config.clone())')
    for word in ('apply_config_change', 'add_learner', 'update_cluster_conf_from_leader', 'update_node_status', 'remove_node', 'activate_node'):
        if word in src:
            bad.append('builder.rs now mentions %s (membership may be restored at start-up; the restart step of the probe must be revisited)' % word)
    mem = open(os.path.join(repo, 'd-engine-server/src/membership/raft_membership.rs')).read()
    mflat = re.sub(r'\s+', '', mem)
    if 'membership:MembershipGuard::new(initial_nodes,0),' not in mflat or 'letinitial_cluster_size=initial_nodes.len();' not in mflat:
        bad.append('RaftMembership::new no longer takes the member map and initial_cluster_size from its initial_nodes argument alone')
    core_m = open(os.path.join(repo, 'd-engine-core/src/membership.rs')).read()
    if re.sub(r'\s+', '', 'async fn is_single_node_cluster(&self) -> bool { self.initial_cluster_size().await == 1 }') not in re.sub(r'\s+', '', core_m):
        pass  # informative only: the probe observes is_single_node_cluster() on the real object anyway
    return bad

def promote_cases(r, n, dist):
    """cases of the `promote` probe: leader 1 with 0..4 voting peers, 1..4 learners (mostly Promotable) at varying lag"""
    def tag(t): dist[t] = dist.get(t, 0) + 1
    cases = []
    for _ in range(n):
        nv = r.choice([0, 0, 1, 2, 2, 3, 4])
        members = [[1, FOLLOWER, ACTIVE]] + [[i, FOLLOWER, ACTIVE] for i in range(2, 2 + nv)]
        nl = r.range(1, 4); L = r.range(3, 12); commit = r.range(1, L); th = r.choice([0, 0, 1, 2, 5])
        prog = []
        for j in range(nl):
            st = r.choice([PROMOTABLE] * 6 + [READONLY, ACTIVE])
            members.append([20 + j, LEARNER, st])
            lag = r.choice([0, 0, 0, th, th + 1, th + 3, commit])
            prog.append([20 + j, max(0, commit - lag) if r.chance(5, 6) else min(L, commit + 1)])
        if r.chance(1, 6) and nv: prog.append([2, commit])          # a voter in the progress map
        if r.chance(1, 8): prog.append([77, commit])                # a node that is not a member
        tag('promote:voters=%d' % (nv + 1)); tag('promote:learners=%d' % nl)
        cases.append([members, L, commit, th, r.shuffle(prog)])
    # boundary: every combination of 1..5 voters and 1..4 caught-up learners
    for nv in range(0, 5):
        for nl in range(1, 5):
            members = [[1, FOLLOWER, ACTIVE]] + [[i, FOLLOWER, ACTIVE] for i in range(2, 2 + nv)] + [[20 + j, LEARNER, PROMOTABLE] for j in range(nl)]
            cases.append([members, 5, 5, 0, [[20 + j, 5] for j in range(nl)]])
    return cases

def eligible(case):
    """ids the statement allows to be promoted: members, status Promotable, caught up within the threshold"""
    members, L, commit, th, prog = case
    st = {m[0]: m for m in members}
    return sorted(i for i, mi in prog if i in st and st[i][2] == PROMOTABLE and max(0, commit - mi) <= th)
