"""C27 — learners never vote or count toward quorums until promoted; join answered after commit."""
import json
from dvlib import core, flow
from dvlib.core import Broken
from props import mgen

ID = 'C27'
PROPS_FILE = 'theories/props/Properties_C27.v'
CONE = mgen.CONE + ['theories/proofs/C09.v', 'theories/proofs/C27.v']
IMPORTS = mgen.IMPORTS

def gen_learner(run, thorough):
    r = run.rng('learner'); cases = []; dist = {}
    def tag(t): dist[t] = dist.get(t, 0) + 1
    for k in range(1500 if thorough else 250):
        L = r.range(0, 4); t = 1; es = []
        for i in range(1, L + 1):
            if r.chance(1, 3): t += 1
            es.append([i, t, i])
        evs = []
        for _ in range(r.range(1, 8)):
            x = r.below(10)
            if x < 6:
                # candidates with older / equal / newer logs, lower / equal / higher terms
                evs.append([0, r.range(0, t + 3), r.choice([1, 2, 9]), r.range(0, L + 2), r.range(0, t + 1)]); tag('vote-request')
            elif x < 8: evs.append([1]); tag('tick')
            else: evs.append([2]); tag('become-candidate')
        for _ in range(r.below(3)): evs.insert(r.below(len(evs) + 1), [3, 0]); tag('membership-applied-still-learner')
        if r.chance(1, 3): evs.append([3, 1]); evs.append([0, t + 5, 2, L + 5, t + 5]); evs.append([1]); tag('membership-applied-promoted')
        cases.append([r.choice([2, 5, 7]), es, evs])
    return cases, dist

def oracle_learner(case, out):
    for ev, o in zip(case[2], out):
        if ev[0] == 0 and o[2] == 1:
            return ('learner-granted-vote', 'vote request %s answered %s by a learner' % (ev, o))
        if ev[0] == 1 and (o[1] or o[2] or o[3]):
            return ('learner-started-election', 'learner tick produced internal events=%d timer_expired=%d vote_requests_sent=%d' % (o[1], o[2], o[3]))
        if ev[0] == 2 and (o[1] or o[2]):
            return ('learner-started-election', 'LearnerState::become_candidate/become_leader succeeded: %s' % o)
    return None

def gen_join(run, thorough):
    r = run.rng('join'); cases = []; dist = {}
    def tag(t): dist[t] = dist.get(t, 0) + 1
    for k in range(1500 if thorough else 250):
        nv = r.choice([0, 0, 1, 2, 2, 4])
        members = [[1, mgen.FOLLOWER, mgen.ACTIVE]] + [[i, mgen.FOLLOWER, mgen.ACTIVE] for i in range(2, 2 + nv)]
        for j in range(r.choice([0, 0, 1])): members.append([20 + j, mgen.LEARNER, mgen.PROMOTABLE])
        L = r.range(1, 3); term = 2
        es = [[i, 1 if i < L else 2, i] for i in range(1, L + 1)]
        known = [m[0] for m in members]; peers = known[1:]; nxt = 30; last = L; evs = []
        for _ in range(r.range(2, 9)):
            x = r.below(100)
            if x < 30:
                evs.append([0, nxt, mgen.LEARNER, r.choice([1, 1, 1, 2, 3])]); known.append(nxt); peers.append(nxt); nxt += 1; last += 1; tag('join-new')
            elif x < 42:
                evs.append([0, r.choice(known), mgen.LEARNER, 1]); tag('join-existing-or-pending')
            elif x < 48:
                evs.append([0, nxt + 50, r.choice([mgen.FOLLOWER, 0, 3]), 1]); tag('join-not-as-learner')
            elif x < 80 and peers:
                evs.append([1, r.choice(peers), r.range(0, last)]); tag('ack')
            else:
                evs.append([2]); tag('flushed')
        tag('voters=%d' % nv)
        cases.append([members, es, term, evs])
    # boundary: single-node leader, join, second join before the commit, flush, join of the now existing member
    cases.append([[[1, 1, 3]], [[1, 1, 1]], 2, [[0, 2, 4, 1], [0, 2, 4, 1], [2], [0, 2, 4, 1], [0, 1, 4, 1]]])
    cases.append([[[1, 1, 3], [2, 1, 3], [3, 1, 3]], [[1, 2, 1]], 2, [[0, 4, 4, 1], [2], [1, 2, 1], [1, 2, 2], [0, 4, 4, 1], [1, 3, 2]]])
    return cases, dist

def oracle_join(case, out):
    """success answers only at or below the commit index; a join of a node that is already a member is refused"""
    members_before = sorted(m[0] for m in case[0]); answered = {}
    for k, (ev, o) in enumerate(zip(case[3], out)):
        commit, last, joins, mem = o
        for ji, (idx, st) in enumerate(joins):
            if st == 1 and ji not in answered:
                answered[ji] = k
                if idx == 0 or idx > commit:
                    return ('join-answered-before-commit', 'join #%d (log index %d) answered with success at commit index %d' % (ji, idx, commit))
        if ev[0] == 0:
            idx, st = joins[-1]
            if ev[1] in members_before and (idx != 0 or st == 1):
                return ('join-existing-accepted', 'join of node %d, already a member (%s), was %s' % (ev[1], members_before, 'answered with success' if st == 1 else 'appended at index %d' % idx))
        members_before = mem
    return None

def oracle_roles(case, out):
    """a node's role stops being Learner (or a node appears as non-learner) only through Promote / BatchPromote naming it;
    a node enters as Learner"""
    vs = mgen.views(out)
    for k, step in enumerate(case[2]):
        if step[0] == 5: continue
        before = {m[0]: m for m in vs[k][1]}; after = {m[0]: m for m in vs[k + 1][1]}
        named = [step[1]] if step[0] == 2 else (step[1] if step[0] in (3, 9) else [])
        for i, m in after.items():
            was_voter = i in before and before[i][1] != mgen.LEARNER
            if m[1] != mgen.LEARNER and not was_voter and i not in named:
                return ('voter-without-promotion', 'step %s made node %d a non-learner (%s) without a promotion' % (step, i, m))
    return None

def oracle_promote(case, out):
    """a learner is proposed for promotion only when it is a Promotable member within the catch-up threshold"""
    sizes, ids = out
    ok = mgen.eligible(case)
    bad = [i for i in ids if i not in ok]
    if bad:
        return ('promoted-without-catching-up', 'the leader proposed BatchPromote for %s; members %s, commit %d, threshold %d, progress %s allow only %s' % (bad, case[0], case[2], case[3], case[4], ok))
    return None

def check(run):
    thorough = run.tier == 'thorough'
    run.cov['trusted_base'] += [
        "hand-written model DE.Membership (LearnerState arms, RaftMembership::apply_config_change, handle_join_cluster + drain_commit_actions over DE.LeaderCommit), tied to the code by the probes learner, join, membership, leader_commit",
        "harness: real LearnerState through the RaftRoleState trait, real LeaderState::handle_join_cluster / handle_append_result / handle_log_flushed over a real BufferedRaftLog and the real RaftMembership (hook verif_new); the probe plays the commit handler (applies committed config entries, calls handle_membership_applied)",
    ]
    run.assumptions += ["lease quorum = the same voter list and majority function as the commit quorum (handle_append_result quorum_confirmed), so the commit statement covers it",
                        "'after catching up': the ids the real LeaderState::check_learner_progress + handle_promote_ready_learners put into BatchPromote entries are compared with the Promotable members within learner_catchup_threshold of the commit index (probe promote)"]
    broken = flow.proof_step(run, PROPS_FILE, CONE)
    violations = []
    try:
        core.harness_build()
        dist = {}
        def go(probe, cases, oracle, fexpr, what):
            outs = core.probe_parallel(probe, cases); pairs = []
            for c, o in zip(cases, outs):
                if isinstance(o, str):
                    broken.append(('correspondence', probe + ' probe error', o[:300])); continue
                pairs.append((c, o))
                why = oracle(c, o)
                if why: violations.append({'class': why[0], 'probe': probe, 'input': c, 'output': o, 'why': why[1]})
            mgen.correspondence(broken, run, fexpr, pairs, 'C27' + probe, what)
            return pairs
        lc, d1 = gen_learner(run, thorough); dist.update(d1)
        p1 = go('learner', lc, oracle_learner, 'learner_probe', 'DE.Membership.lrn_step vs LearnerState (probe learner)')
        jc, d2 = gen_join(run, thorough); dist.update({'join:' + k: v for k, v in d2.items()})
        p2 = go('join', jc, oracle_join, 'join_probe', 'DE.Membership.jstep vs LeaderState::handle_join_cluster (probe join)')
        r = run.rng('hist'); d3 = {}
        mc = [mgen.expansion_case()] + [mgen.history(r, d3, want=('change', 'query')) for _ in range(2000 if thorough else 300)]
        p3 = go('membership', mc, oracle_roles, 'memb_probe', 'DE.Membership vs RaftMembership (probe membership)')
        pc = mgen.promote_cases(run.rng('promote'), 1500 if thorough else 250, dist)
        pouts = core.probe_parallel('promote', pc); p5 = []
        for c, o in zip(pc, pouts):
            if isinstance(o, str):
                broken.append(('correspondence', 'promote probe error', o[:300])); continue
            p5.append((c, o[0])); why = oracle_promote(c, o)
            if why: violations.append({'class': why[0], 'probe': 'promote', 'input': c, 'output': o, 'why': why[1]})
        mgen.correspondence(broken, run, 'promote_probe', p5, 'C27promote', 'DE.Membership.promotable/batches vs LeaderState::check_learner_progress + handle_promote_ready_learners (probe promote)')
        dist['promote:proposed'] = sum(sum(o) for _, o in p5)
        # commit quorum: acknowledgements of learners never commit (C09's probe and oracle, learner cases only)
        from props import C09
        cc = [c for c in C09.gen_cases(run, False)[0] if c[3]]
        outs = core.probe_parallel('leader_commit', cc); p4 = []
        for c, o in zip(cc, outs):
            if isinstance(o, str):
                broken.append(('correspondence', 'leader_commit probe error', o[:300])); continue
            p4.append((c, o)); why = C09.oracle(c, o)
            if why and 'learner' in why:
                violations.append({'class': 'learner-ack-advanced-commit', 'probe': 'leader_commit', 'input': c, 'output': o, 'why': why})
        mgen.correspondence(broken, run, 'commit_probe', p4, 'C27commit', 'DE.LeaderCommit.lstep vs LeaderState (probe leader_commit)')
        dist['learner-acks'] = sum(1 for c, _ in p4 for e in c[4] if e[0] == 0 and e[1] in c[3])
        dist['joins-answered'] = sum(1 for c, o in p2 for j in o[-1][2] if j[1] == 1) if p2 else 0
        dist['joins-refused'] = sum(1 for c, o in p2 for j in o[-1][2] if j[1] == 2) if p2 else 0
        allp = p1 + p2 + p3 + p4 + p5
        run.add_cases(len(allp), len({json.dumps(c) for c, _ in allp}), [{'case': p[0][0], 'impl': p[0][1]} for p in (p1, p2, p3) if p], dist,
                      'learner: seeded vote requests (older/equal/newer logs, lower/equal/higher terms), ticks, become_candidate, MembershipApplied before/after promotion; join: leaders with 0-4 voting peers and learners, joins of new / pending / existing ids / non-learner roles interleaved with acks and LogFlushed; membership histories judged for role changes; leader_commit cases with learner acknowledgements')
    except Broken as b:
        broken.append(('harness', b.what, b.detail))
    return flow.conclude(run, broken, violations)

ORACLES = {'learner': oracle_learner, 'join': oracle_join, 'membership': oracle_roles, 'promote': oracle_promote}

def replay(path):
    r = json.load(open(path))
    if r.get('kind') != 'counterexample':
        print('broken obligation:', [b['name'] for b in r.get('broken', [])]); return 1
    core.harness_build()
    probe = r.get('probe', 'learner')
    out = core.probe(probe, [r['input']])[0]
    print('implementation output:', json.dumps(out))
    if probe == 'leader_commit':
        from props import C09
        w = C09.oracle(r['input'], out); why = ('learner-ack-advanced-commit', w) if w and 'learner' in w else None
    else:
        why = ORACLES[probe](r['input'], out)
    print('VIOLATES: %s — %s' % why if why else 'ok'); return 1 if why else 0

META = {
    'title': 'Learners never vote or count toward quorums until promoted',
    'level': 'proof',
    'technique': 'Rocq theorems on the learner / membership / join models (no grant over all event sequences, no campaign, commit voters exclude learners, voter only by promotion, join answered only at or below the commit index, join of a member refused) + differential checks of the real LearnerState, LeaderState::handle_join_cluster, RaftMembership and the leader commit path',
    'text': "Rocq: C27_learner_never_grants (all sequences of vote requests/ticks/role attempts), C27_learner_never_campaigns, C27_learner_ack_never_commits (re-pinned from the C09 development; the lease quorum uses the same voter list), C27_commit_voters_exclude_learners, C27_voter_only_by_promotion and C27_joined_node_is_learner (a role other than Learner arises only from Promote/BatchPromote naming the node), C27_join_answered_only_after_commit, C27_join_existing_rejected. Each model is replayed against the real code (probes learner, join, membership, leader_commit) and the property is evaluated on the implementation's outputs.",
    'note': "Trusted: Coq kernel, hand models (validated by the probes), the probe playing the commit handler in the join scenario. Observation (not a violation of the statement): RaftMembership::voters() selects by status==Active while the commit/lease quorum selects by role!=Learner; a learner that joins with status=Active is asked for votes and counted in the election denominator, never in a commit quorum. Needs the add-only hook RaftMembership::verif_new.",
    'design_ref': 'DESIGN.md §4 C27',
}
