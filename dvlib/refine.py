"""Executable refinement checking of real cluster executions against DE.AbstractRaft.

For every execution of the `cluster` probe (case = [n, cap, schedule], output = the observation after every
schedule label) `explain` reconstructs the list of ABSTRACT labels (DE.ARExec.alabel) that explains each concrete
step, in order, plus the checkpoints (the observed terms / commit indexes / logs of all nodes after the step).
`validate_refinement` renders (nodes, term offset, steps) as a `val`, and Coq evaluates (vm_compute)

    DE.ARExec.refine_ok   = every label is accepted by `aexec` from `ainit`  &&  `obs_matches` at every checkpoint

`aexec` is proved sound w.r.t. `astep` (Refine_exec_sound), so an accepted trace is an execution of the abstract
system (Refine_trace_reaches / Refine_check_meaning) and the theorems election_safety, log_matching,
leader_completeness, committed_agree, follower_commit_matches_leader apply to the states it observed.

Term offset: the real nodes start in term 1 and the first election asks for term 2, `ainit` has term 0 everywhere.
The comparison is modulo the uniform renaming  concrete term = abstract term + OFF  (OFF = 1), applied to current
terms and entry terms by `obs_matches`; labels carry abstract terms. The run starts from `ainit` itself.

Python only PROPOSES labels (using a light shadow of the ghost state: candidacies, leaders, acknowledgements,
per-term leader commit); Coq decides. A concrete step that has no counterpart in the abstract system is put into a
documented class ("outside the abstract system: <class>"): the trace is cut there (`cut` classes: the abstract and
the concrete state diverge) or continues (`continue` classes: only fields that are not observed diverge); the prefix
before the step is still checked in Coq.
"""
import json, os, re
from . import core
from .core import Broken

OFF = 1
LEADER = 3
# which abstract system the executions are checked against: 'AbstractRaft' (as pinned today) or 'AbstractRaftP'
# (the proposed generalisation, safety theorems re-proved in proofs/AR_*P.v, pinned in props/Properties_refineP.v).
# With 'AbstractRaft' the executions of the class abstract-too-strict:* are cut at the offending step, counted, and
# (when ARExecP.vo is built) additionally replayed against AbstractRaftP.
SYSTEM = os.environ.get('VERIF_REFINE_SYSTEM', 'AbstractRaft')

def props_and_cone():
    if SYSTEM == 'AbstractRaftP':
        return ('theories/props/Properties_refineP.v',
                ['theories/AbstractRaftP.v', 'theories/ARExecP.v', 'theories/proofs/ARExecPSound.v', 'theories/proofs/AR_electionP.v',
                 'theories/proofs/AR_logsP.v', 'theories/proofs/AR_completeP.v', 'theories/proofs/AR_smsP.v'])
    return ('theories/props/Properties_refine.v', ['theories/AbstractRaft.v', 'theories/ARExec.v', 'theories/proofs/ARExecSound.v'])
IMPORTS = 'From DE Require Import AbstractRaft ARExec.'
# the same check against the PROPOSED generalisation DE.AbstractRaftP (g_lcommit of a new term starts at the new
# leader's commit index); used only to show that the proposal explains the executions AbstractRaft is too strict for
IMPORTS_P = 'From DE Require Import AbstractRaftP ARExecP.'

# label tags of DE.ARExec.dec_label
L_TIMEOUT, L_GRANT, L_DENY, L_LEADER, L_APPEND, L_ACCEPT, L_REJECT, L_COMMIT = range(8)
LABEL_NAMES = ['LTimeout', 'LVoteGrant', 'LVoteDeny', 'LBecomeLeader', 'LLeaderAppend', 'LAppendAccept', 'LAppendReject', 'LAdvanceCommit']

# documented classes of concrete steps without an abstract counterpart
CUT_CLASSES = {
    'prev0-reset-discards-matching-suffix': "known finding C08: a request with prev=(0,0) resets the follower's log to the request's entries and discards a longer matching suffix; the abstract follower keeps it",
    'kill-restart-lost-state': "a killed node restarts with an older term / without its vote (known findings C02 term-decreased-after-kill, second-grant-after-kill): state loss is outside the abstract system",
    'gapped-request': "AppendEntries whose entries are not the contiguous range prev+1.. (C08 gapped-request, fixed): not a slice of the leader log",
    'abstract-too-strict:leader-commit-beyond-g_lcommit': "a leader sends a leader_commit it did not reach by SAdvanceCommit in its own term (the commit index it held when it was elected) and the follower's commit index moves with it; AbstractRaft bounds lc by g_lcommit t, which starts at 0 (see AbstractRaft.v.proposed)",
}
CONTINUE_CLASSES = {
    'regrant-to-established-leader': "known finding C02: the vote record was overwritten by the leader id and a delayed vote request of that leader is granted by a node that voted for somebody else in that term; only the (unobserved) vote differs",
    'synthetic-vote-request-granted-without-candidacy': "a schedule-injected vote request (label 10) that matches no recorded candidacy (candidate, term, last log id) is granted: no such message exists in the abstract system; the term adoption is explained as LVoteDeny, the vote is not observed",
    'kill-restart': "kill without observable state loss (the vote may be lost)",
}
IGNORED = 'unsupported-labels'   # labels 11 / 12 / drain deliveries: node-level or healing schedules


def proj(obs):
    """observed cluster state -> [[term, commit, [[entry term, payload]...]] per node] (what obs_matches compares)"""
    return [[nd[1], nd[2], [[e[1], e[2]] for e in nd[4]]] for nd in obs]


def merge_from(log, pos, es):
    """DE.AbstractRaft.merge_from on (term, payload) lists"""
    log = list(log)
    for j, e in enumerate(es):
        p = pos + j
        if p < len(log) and log[p][0] == e[0]: continue
        return log[:p] + list(es[j:])
    return log


class Explainer:
    def __init__(self, case, proposed=False):
        self.n = case[0]; self.sched = case[2]; self.proposed = proposed
        n = self.n
        self.term = {i: 0 for i in range(1, n + 1)}          # abstract current term
        self.avote = {i: None for i in range(1, n + 1)}      # abstract vote
        self.log = {i: [] for i in range(1, n + 1)}          # [(concrete term, payload)] as the abstract node holds it
        self.commit = {i: 0 for i in range(1, n + 1)}
        self.cands = {}      # (cand, aterm) -> (last idx, last aterm)
        self.leaders = set() # (node, aterm)
        self.votes = set()
        self.acks = {}       # (follower, aterm) -> highest acknowledged index
        self.lcommit = {}    # aterm -> highest commit its leader reached
        self.llog = {}       # aterm -> leader log [(concrete term, payload)]
        self.steps = []      # [[labels], [] | [obs], concrete step index]
        self.outside = []    # [(class, step, detail)]
        self.notes = {}      # approximations used: name -> count
        self.cut = None
        self.rcommit = {i: 0 for i in range(1, n + 1)}       # raw observed commit index
        self.hcommit = {i: 0 for i in range(1, n + 1)}       # highest commit index the node has held
        self.raw_commit = False

    def note(self, k): self.notes[k] = self.notes.get(k, 0) + 1

    def last_id(self, i):
        lg = self.log[i]
        return (len(lg), (lg[-1][0] - OFF) if lg else 0)

    # -------------------------------------------------------------- one concrete step
    def step(self, idx, lab, obs, res):
        labels = []
        P = proj(obs)
        new_term = {i + 1: P[i][0] - OFF for i in range(self.n)}
        new_log = {i + 1: [tuple(e) for e in P[i][2]] for i in range(self.n)}
        role = {i + 1: obs[i][0] for i in range(self.n)}
        k = lab[0]
        # the commit index is volatile (a restarted node starts again from 0): the abstract a_commit of a node is the
        # HIGHEST commit index the node has held; a drop is accepted only at the restart step of that node
        new_commit = {}
        for i in range(1, self.n + 1):
            c = P[i - 1][1]
            if c < self.rcommit[i]:
                if k == 7 and lab[1] == i: self.note('commit-index-reset-by-restart')
                else: self.raw_commit = True
            self.rcommit[i] = c
            new_commit[i] = c if self.raw_commit else max(self.hcommit[i], c)
            self.hcommit[i] = new_commit[i]
            P[i - 1][1] = new_commit[i]
        if k in (0, 13) and res:
            T, seen = res; a = lab[1]; at = T - OFF
            li, lt = self.last_id(a)
            labels.append([L_TIMEOUT, a])
            self.term[a] = self.term[a] + 1; self.avote[a] = a
            self.cands[(a, self.term[a])] = (li, lt); self.votes.add((a, self.term[a], a))
            granted = []
            for tgt, r in seen:
                if not r: continue
                if r[0] == 1:
                    labels.append([L_GRANT, tgt, a, at, li, lt]); granted.append(tgt)
                    self.term[tgt] = at; self.avote[tgt] = a; self.votes.add((tgt, at, a))
                elif new_term[tgt] > self.term[tgt] and new_term[tgt] == at:
                    labels.append([L_DENY, tgt, at]); self.term[tgt] = at; self.avote[tgt] = None
            if role[a] == LEADER and new_term[a] == at and (a, at) not in self.leaders:
                labels.append([L_LEADER, a, granted + [a]])
                self.leaders.add((a, at)); self.llog[at] = list(self.log[a])
                if self.proposed: self.lcommit[at] = self.commit[a]
        elif k == 10:
            c, b, t, rli, rlt = lab[1], lab[2], lab[3], lab[4], lab[5]
            at = t - OFF if t >= OFF else None
            alt = rlt - OFF if rlt >= OFF else 0
            if res and res[0] == 1:
                if at is not None and self.cands.get((c, at)) == (rli, alt) and not (rlt < OFF and rli > 0):
                    if self.term[b] == at and self.avote[b] not in (None, c):
                        self.outside.append(('regrant-to-established-leader', idx, 'label %s: node %d voted for %s in abstract term %d' % (lab, b, self.avote[b], at)))
                    else:
                        labels.append([L_GRANT, b, c, at, rli, alt])
                        self.term[b] = at; self.avote[b] = c; self.votes.add((b, at, c))
                else:
                    self.outside.append(('synthetic-vote-request-granted-without-candidacy', idx, 'label %s' % (lab,)))
        elif k == 1 and res:
            if len(lab) > 3 and lab[3] == 2: raise Unsupported()
            a, b = lab[1], lab[2]
            rt, pi, pt, idxs, lc = res; rat = rt - OFF; kk = len(idxs)
            if rat >= self.term[b]:
                if idxs != list(range(pi + 1, pi + kk + 1)):
                    return self.stop('gapped-request', idx, 'label %s request %s' % (lab, res))
                mine = self.log[b]
                match = (pi == 0 and pt == 0) or (0 < pi <= len(mine) and mine[pi - 1][0] == pt)
                if match:
                    es = self.llog.get(rat, [])[pi:pi + kk]
                    want = merge_from(mine, pi, es)
                    if pi == 0 and pt == 0 and kk > 0 and want != new_log[b] and new_log[b] == es and len(mine) > kk:
                        return self.stop('prev0-reset-discards-matching-suffix', idx, 'label %s request %s: node %d held %d entries, keeps %d' % (lab, res, b, len(mine), kk))
                    g = self.lcommit.get(rat, 0); lc2 = lc
                    if lc > g:
                        c0 = self.commit[b]
                        if max(c0, min(lc, pi + kk)) == max(c0, min(g, pi + kk)):
                            lc2 = g; self.note('leader_commit-clipped-to-g_lcommit-without-effect')
                        else:
                            return self.stop('abstract-too-strict:leader-commit-beyond-g_lcommit', idx,
                                             'label %s request %s: leader %d of term %d (abstract %d) sends leader_commit %d, reached only %d by SAdvanceCommit; follower %d commit %d -> %d'
                                             % (lab, res, a, rt, rat, lc, g, b, c0, new_commit[b]))
                    labels.append([L_ACCEPT, b, a, rat, pi, kk, lc2])
                    self.acks[(b, rat)] = max(self.acks.get((b, rat), 0), pi + kk)
                    if rat > self.term[b]: self.avote[b] = None
                    self.term[b] = rat; self.log[b] = want
                    self.commit[b] = max(self.commit[b], min(lc2, pi + kk))
                else:
                    labels.append([L_REJECT, b, rat])
                    if rat > self.term[b]: self.avote[b] = None
                    self.term[b] = rat
        elif k == 7 and len(lab) > 2 and lab[2] == 0:
            b = lab[1]
            if new_term[b] < self.term[b] or new_log[b] != self.log[b] or new_commit[b] != self.commit[b]:
                return self.stop('kill-restart-lost-state', idx, 'label %s: node %d term %d -> %d' % (lab, b, self.term[b] + OFF, new_term[b] + OFF))
            self.outside.append(('kill-restart', idx, 'label %s' % (lab,)))
        elif k in (11, 12) or (k == 3 and len(lab) > 3 and lab[3] == 2):
            raise Unsupported()
        # ---- generic part: what the observation shows beyond the label-specific explanation
        for i in range(1, self.n + 1):
            if new_term[i] > self.term[i]:
                labels.append([L_DENY, i, new_term[i]]); self.term[i] = new_term[i]; self.avote[i] = None
            if (i, self.term[i]) in self.leaders:
                old = self.log[i]; nl = new_log[i]
                if len(nl) > len(old) and nl[:len(old)] == old and all(e[0] == self.term[i] + OFF for e in nl[len(old):]):
                    for e in nl[len(old):]:
                        labels.append([L_APPEND, i, e[1]])
                    self.log[i] = list(nl); self.llog[self.term[i]] = list(nl)
                if new_commit[i] > self.commit[i] and new_term[i] == self.term[i]:
                    N = new_commit[i]
                    vs = [i] + [v for v in range(1, self.n + 1) if v != i and self.acks.get((v, self.term[i]), 0) >= N]
                    labels.append([L_COMMIT, i, N, vs])
                    self.commit[i] = N; self.lcommit[self.term[i]] = max(self.lcommit.get(self.term[i], 0), N)
        changed = any(new_term[i] != self.pterm[i] or new_log[i] != self.plog[i] or new_commit[i] != self.pcommit[i] for i in range(1, self.n + 1))
        if labels or changed:
            self.steps.append([labels, [P], idx])
        self.pterm, self.plog, self.pcommit = new_term, new_log, new_commit
        return True

    def stop(self, cls, idx, detail):
        self.outside.append((cls, idx, detail)); self.cut = idx
        return False

    def run(self, out):
        self.pterm = dict(self.term); self.plog = {i: [] for i in self.log}; self.pcommit = dict(self.commit)
        for idx, (lab, (obs, res)) in enumerate(zip(self.sched, out)):
            if not self.step(idx, lab, obs, res): break
        return self


class Unsupported(Exception):
    pass


def explain(case, out, proposed=False):
    """-> dict(trace=<value rendered as val>, steps, outside=[(class, step, detail)], cut, nlabels, notes) or None
    when the case uses labels this mapping does not cover (node-level injections, canned rounds, drains)."""
    try:
        ex = Explainer(case, proposed).run(out)
    except Unsupported:
        return None
    nodes = list(range(1, case[0] + 1))
    return {'trace': [nodes, OFF, [[ls, cp] for ls, cp, _ in ex.steps]], 'steps': ex.steps, 'outside': ex.outside, 'cut': ex.cut,
            'nlabels': sum(len(s[0]) for s in ex.steps), 'notes': ex.notes}


def show_label(l):
    return '%s %s' % (LABEL_NAMES[l[0]], ' '.join(str(x) for x in l[1:])) if 0 <= l[0] < len(LABEL_NAMES) else str(l)


def coq_fail_codes(traces, tag='refine', imports=IMPORTS):
    """second evaluation: DE.ARExec.refine_fail on each trace -> code (0 ok; 1 + 1000*step + label; 1 + 1000*step + 999 = checkpoint)"""
    if not traces: return []
    body = 'Definition traces : list val := [\n %s ].\nEval vm_compute in (map refine_fail traces).' % ';\n '.join(core.to_val(t) for t in traces)
    rc, o, e = core._coq_eval(core.PRELUDE % imports, body, tag)
    if rc != 0: raise Broken('refinement evaluation in Coq failed (%s)' % tag, (o + e)[-3000:])
    m = re.search(r'=\s*\[(.*?)\]\s*:\s*list N', o, re.S)
    if not m: raise Broken('cannot parse Coq output (%s)' % tag, o[-2000:])
    return [int(x) for x in re.findall(r'\d+', m.group(1))]


def validate_refinement(run, cases, outs, broken, shard=20, proposed=None, nested=False):
    """Check in Coq that every real execution is an execution of DE.AbstractRaft (up to its first documented
    'outside' step). Returns the failing cases as dicts {case, step, label_index, label, why}; every failure
    that is not in a documented class is appended to `broken` as a ('refinement', ...) obligation.
    Evidence: traces_refined_in_coq, labels_checked, outside_abstract_system, refinement_* counters in run.cov."""
    # /verif's DE.AbstractRaft IS the generalised system (g_lcommit of a new term starts at the new leader's commit
    # index; safety theorems re-proved in proofs/AR_*.v): explain executions with those semantics
    if proposed is None: proposed = True
    exps = []; ignored = 0
    for i, o in enumerate(outs):
        if isinstance(o, str): continue
        ex = explain(cases[i], o, proposed)
        if ex is None: ignored += 1; continue
        ex['i'] = i; exps.append(ex)
    pairs = [(ex['trace'], 0) for ex in exps]
    imports = IMPORTS
    bad = core.coq_index_list(imports, '', 'refine_ok', pairs, mode='failing', tag=run.prop + 'refine', shard=shard) if pairs else []
    codes = dict(zip(bad, coq_fail_codes([exps[j]['trace'] for j in bad], tag=run.prop + 'refinefail', imports=imports)))
    full = 0; labels_checked = 0; outside = {}; after_outside = 0; failing = []; notes = {}
    for j, ex in enumerate(exps):
        for k, v in ex['notes'].items(): notes[k] = notes.get(k, 0) + v
        classes = sorted({c for c, _, _ in ex['outside']})
        if j not in codes:
            labels_checked += ex['nlabels']
            if classes:
                for c in classes: outside[c] = outside.get(c, 0) + 1
            else: full += 1
            continue
        code = codes[j] - 1; si, lj = code // 1000, code % 1000
        stp = ex['steps'][si] if 0 <= si < len(ex['steps']) else [[], [], -1]
        labels_checked += sum(len(s[0]) for s in ex['steps'][:si])
        first_out = min([s for _, s, _ in ex['outside']] or [10 ** 9])
        if first_out <= stp[2]:
            # an unobserved field already diverged at a documented step: not attributable to the abstract system
            after_outside += 1
            for c in classes: outside[c] = outside.get(c, 0) + 1
            continue
        lab = show_label(stp[0][lj]) if lj < len(stp[0]) else 'checkpoint (observed state after the step differs from the abstract state)'
        f = {'case': cases[ex['i']], 'step': stp[2], 'schedule_label': cases[ex['i']][2][stp[2]] if stp[2] >= 0 else None,
             'label_index': sum(len(s[0]) for s in ex['steps'][:si]) + (lj if lj < 999 else len(stp[0])), 'label': lab,
             'labels_of_step': [show_label(l) for l in stp[0]], 'observed': stp[1]}
        failing.append(f)
    cov = run.cov
    cov['refinement_system'] = 'DE.' + SYSTEM
    if nested:
        cov = run.cov.setdefault('refinement_against_proposed_AbstractRaftP', {})
    elif not proposed:
        strict = [ex['i'] for ex in exps if any(c.startswith('abstract-too-strict') for c, _, _ in ex['outside'])]
        if strict and os.path.exists(os.path.join(core.COQ, 'theories', 'ARExecP.vo')):
            # not a weakening of the check: the same executions are ALSO replayed against the proposed generalisation
            validate_refinement(run, [cases[i] for i in strict], [outs[i] for i in strict], [], shard=shard, proposed=True, nested=True)
    cov['traces_refined_in_coq'] = cov.get('traces_refined_in_coq', 0) + full
    cov['traces_submitted_to_refinement'] = cov.get('traces_submitted_to_refinement', 0) + len(exps)
    cov['labels_checked'] = cov.get('labels_checked', 0) + labels_checked
    oa = cov.setdefault('outside_abstract_system', {})
    for c, v in outside.items(): oa[c] = oa.get(c, 0) + v
    if outside:
        doc = cov.setdefault('outside_abstract_system_doc', {})
        for c in outside: doc[c] = CUT_CLASSES.get(c) or CONTINUE_CLASSES.get(c, '')
    if after_outside: cov['refinement_unexplained_after_outside_step'] = cov.get('refinement_unexplained_after_outside_step', 0) + after_outside
    if ignored: cov['refinement_cases_ignored_unsupported_labels'] = cov.get('refinement_cases_ignored_unsupported_labels', 0) + ignored
    if notes:
        an = cov.setdefault('refinement_mapping_notes', {})
        for k, v in notes.items(): an[k] = an.get(k, 0) + v
    cov['refinement_failures'] = cov.get('refinement_failures', 0) + len(failing)
    if failing:
        f = failing[0]
        broken.append(('refinement', 'real execution is not explained by DE.AbstractRaft (label %d: %s)' % (f['label_index'], f['label']),
                       '%d executions fail; first: schedule step %d %s, abstract labels of the step %s, case %s'
                       % (len(failing), f['step'], f['schedule_label'], f['labels_of_step'], json.dumps(f['case']))))
    return failing
