"""Shared machinery of the /verif driver (python3, stdlib only)."""
import fcntl, hashlib, json, os, re, subprocess, sys, time, concurrent.futures

ROOT = os.path.dirname(os.path.dirname(os.path.abspath(__file__)))
REPO = os.environ.get('VERIF_REPO', '/repo')
COQ = os.path.join(ROOT, 'coq')
BUILD = os.path.join(ROOT, 'build')
HARNESS = os.path.join(ROOT, 'harness')
DPROBE = os.path.join(BUILD, 'target', 'debug', 'dprobe')
OUT = os.path.join(ROOT, 'out')
KNOWN = os.path.join(ROOT, 'known_findings.json')

TRUSTED_BASE_COMMON = [
    "Coq 8.16.1 kernel (coqc; vm_compute used in witness lemmas and in the correspondence evaluation; no native_compute)",
    "dvlib driver (python): case generation, rendering of implementation I/O as Coq terms, verdict logic",
    "harness/dprobe (Rust): drives the real d-engine code built from /repo's working tree with --cfg d_engine_verif",
]

class Broken(Exception):
    """A proof obligation or the tie does not check any more."""
    def __init__(self, what, detail=''):
        super().__init__(what); self.what = what; self.detail = detail

def splitmix64(x):
    x = (x + 0x9E3779B97F4A7C15) & 0xFFFFFFFFFFFFFFFF
    z = x
    z = ((z ^ (z >> 30)) * 0xBF58476D1CE4E5B9) & 0xFFFFFFFFFFFFFFFF
    z = ((z ^ (z >> 27)) * 0x94D049BB133111EB) & 0xFFFFFFFFFFFFFFFF
    return x, z ^ (z >> 31)

class Rng:
    """The single seeded PRNG every random choice derives from (replayable)."""
    def __init__(self, seed, *salt):
        h = hashlib.sha256(('%d|' % seed + '|'.join(map(str, salt))).encode()).digest()
        self.s = int.from_bytes(h[:8], 'big')
    def u64(self):
        self.s, z = splitmix64(self.s); return z
    def below(self, n): return self.u64() % n if n > 0 else 0
    def range(self, lo, hi): return lo + self.below(hi - lo + 1)
    def choice(self, xs): return xs[self.below(len(xs))]
    def chance(self, num, den): return self.below(den) < num
    def shuffle(self, xs):
        xs = list(xs)
        for i in range(len(xs) - 1, 0, -1):
            j = self.below(i + 1); xs[i], xs[j] = xs[j], xs[i]
        return xs

def sh(cmd, cwd=None, timeout=1800, env=None, inp=None):
    e = dict(os.environ); e.update(env or {})
    try:
        p = subprocess.run(cmd, cwd=cwd, shell=isinstance(cmd, str), input=inp, capture_output=True,
                           text=True, timeout=timeout, env=e)
        return p.returncode, p.stdout, p.stderr
    except subprocess.TimeoutExpired as ex:
        return 124, (ex.stdout or b'').decode() if isinstance(ex.stdout, bytes) else (ex.stdout or ''), 'TIMEOUT after %ss' % timeout

class Lock:
    def __init__(self, name):
        os.makedirs(BUILD, exist_ok=True); self.path = os.path.join(BUILD, name + '.lock')
    def __enter__(self):
        self.f = open(self.path, 'w'); fcntl.flock(self.f, fcntl.LOCK_EX); return self
    def __exit__(self, *a):
        fcntl.flock(self.f, fcntl.LOCK_UN); self.f.close()

# ------------------------------------------------------------------ T: translation
def gen():
    """Regenerate coq/theories/Gen/*.v from the current /repo sources. Returns status dict."""
    with Lock('coq'):
        rc, out, err = sh([sys.executable, os.path.join(ROOT, 'tools', 'rs2v.py'), REPO,
                           os.path.join(COQ, 'theories', 'Gen')], timeout=120)
    try:
        st = json.loads(out.strip().splitlines()[-1])
    except Exception:
        raise Broken('rs2v crashed', out + err)
    return st

# ------------------------------------------------------------------ Coq
def coq_files():
    fs = []
    for l in open(os.path.join(COQ, '_CoqProject')):
        l = l.strip()
        if l.endswith('.v'): fs.append(l)
    return fs

def coq_make(targets, force=(), timeout=1500):
    """make the given .vo targets (relative to coq/). `force` .vo files are removed first so that their
    Print Assumptions output is produced again. Returns (ok, log)."""
    with Lock('coq'):
        if not os.path.exists(os.path.join(COQ, 'Makefile')):
            sh('coq_makefile -f _CoqProject -o Makefile', cwd=COQ)
        for f in force:
            for ext in ('.vo', '.glob', '.vok', '.vos'):
                try: os.remove(os.path.join(COQ, f[:-3] + ext if f.endswith('.vo') else f + ext))
                except OSError: pass
        rc, out, err = sh(['make', '-j16'] + list(targets), cwd=COQ, timeout=timeout)
    return rc == 0, out + err

AX_OK = re.compile(r'Closed under the global context')
ALLOWED_AXIOMS = {
    # axioms declared by the standard library / std++ that may be used (named in the trusted base)
    'functional_extensionality_dep', 'proof_irrelevance', 'Eqdep.Eq_rect_eq.eq_rect_eq', 'eq_rect_eq',
    'classic', 'JMeq_eq', 'propositional_extensionality',
}

def parse_assumptions(log):
    """From make output of a props file: list of axiom names reported by Print Assumptions."""
    axioms = set()
    for blk in re.findall(r'Axioms:\n((?:.+\n?)+?)(?=\n\S|\Z)', log):
        for l in blk.splitlines():
            m = re.match(r'\s*([A-Za-z_][\w.\']*)\s*:', l)
            if m: axioms.add(m.group(1))
    return sorted(axioms)

def count_obligations(files):
    """Number of named statements (Theorem/Lemma/Corollary/Example/Fact) in the given coq files."""
    n = 0; names = []
    for f in files:
        src = open(os.path.join(COQ, f)).read()
        src = re.sub(r'\(\*.*?\*\)', '', src, flags=re.S)
        for m in re.finditer(r'^\s*(?:Local\s+|Global\s+)?(Theorem|Lemma|Corollary|Example|Fact|Remark)\s+([\w\']+)', src, re.M):
            n += 1; names.append(m.group(2))
    return n, names

FORBIDDEN = re.compile(r'\b(Admitted|admit|Axiom|Axioms|Parameter|Parameters|Conjecture|Admit Obligations|Unset Guard Checking|bypass_check|Unset Positivity Checking|Unset Universe Checking|type-in-type|native_compute)\b')

def scan_forbidden(files):
    bad = []
    for f in files:
        src = open(os.path.join(COQ, f)).read()
        src = re.sub(r'\(\*.*?\*\)', '', src, flags=re.S)
        for i, l in enumerate(src.splitlines(), 1):
            if FORBIDDEN.search(l): bad.append('%s:%d: %s' % (f, i, l.strip()))
            if re.match(r'\s*(Variable|Variables|Hypothesis|Hypotheses|Context)\b', l) and not _in_section(src, i):
                bad.append('%s:%d: %s (outside a section)' % (f, i, l.strip()))
    return bad

def _in_section(src, line):
    depth = 0
    for i, l in enumerate(src.splitlines(), 1):
        if i >= line: break
        if re.match(r'\s*Section\s+\w+', l): depth += 1
        elif re.match(r'\s*End\s+\w+', l) and depth > 0: depth -= 1
    return depth > 0

# ------------------------------------------------------------------ val rendering
def to_val(x):
    if x is None: return '(VL [])'
    if isinstance(x, bool): return '(VN %d)' % (1 if x else 0)
    if isinstance(x, int):
        if x < 0: raise ValueError('negative value in val')
        return '(VN %d)' % x
    if isinstance(x, (list, tuple)): return '(VL [%s])' % '; '.join(to_val(y) for y in x)
    if isinstance(x, (bytes, bytearray)): return '(VL [%s])' % '; '.join('(VN %d)' % b for b in x)
    raise ValueError('cannot render %r as val' % (x,))

def _coq_eval(prelude, body, tag):
    d = os.path.join(BUILD, 'cases'); os.makedirs(d, exist_ok=True)
    name = 'case_%s_%d_%s' % (re.sub(r'\W', '_', tag), os.getpid(), hashlib.sha1(body.encode()).hexdigest()[:10])
    path = os.path.join(d, name + '.v')
    open(path, 'w').write(prelude + '\n' + body + '\n')
    rc, out, err = sh(['coqc', '-noglob', '-Q', os.path.join(COQ, 'theories'), 'DE', '-w', '-all', path], cwd=d, timeout=1200)
    for ext in ('.v', '.vo', '.vok', '.vos', '.glob'):
        try: os.remove(os.path.join(d, name + ext))
        except OSError: pass
    try: os.remove(os.path.join(d, '.' + name + '.aux'))
    except OSError: pass
    return rc, out, err

PRELUDE = "From Coq Require Import NArith List String Bool.\nFrom DE Require Import Val.\n%s\nImport ListNotations.\nOpen Scope N_scope.\n"

def coq_index_list(imports, defs, fexpr, pairs, mode='mismatches', tag='x', shard=300):
    """Evaluate `mismatches fexpr cases` (or `failing fexpr cases`) in Coq on (input, impl output) pairs.
    `pairs` are python values rendered with to_val, or ready-made Coq strings. Returns sorted index list."""
    pre = PRELUDE % imports + defs
    chunks = [(i, pairs[i:i + shard]) for i in range(0, len(pairs), shard)]
    def one(ch):
        base, ps = ch
        items = ';\n '.join('(%s, %s)' % (a if isinstance(a, str) else to_val(a), b if isinstance(b, str) else to_val(b)) for a, b in ps)
        body = 'Definition cases : list (val * val) := [\n %s ].\nEval vm_compute in (%s (%s) cases).' % (items, mode, fexpr)
        rc, out, err = _coq_eval(pre, body, tag)
        if rc != 0:
            raise Broken('correspondence evaluation in Coq failed (%s)' % tag, (out + err)[-3000:])
        m = re.search(r'=\s*\[(.*?)\]\s*:\s*list N', out, re.S)
        if not m:
            raise Broken('cannot parse Coq output (%s)' % tag, out[-2000:])
        return [base + int(x) for x in re.findall(r'\d+', m.group(1))]
    res = []
    with concurrent.futures.ThreadPoolExecutor(max_workers=14) as ex:
        for r in ex.map(one, chunks): res += r
    return sorted(res)

def coq_multi(imports, defs, evals, pairs, tag='x', shard=150):
    """Like coq_index_list but evaluates several (mode, fexpr) on the same cases in one coqc run per shard.
    Returns a list of sorted index lists, one per element of `evals`."""
    pre = PRELUDE % imports + defs
    chunks = [(i, pairs[i:i + shard]) for i in range(0, len(pairs), shard)]
    def one(ch):
        base, ps = ch
        items = ';\n '.join('(%s, %s)' % (a if isinstance(a, str) else to_val(a), b if isinstance(b, str) else to_val(b)) for a, b in ps)
        body = 'Definition cases : list (val * val) := [\n %s ].\n' % items
        body += '\n'.join('Eval vm_compute in (%s (%s) cases).' % (m, f) for m, f in evals)
        rc, out, err = _coq_eval(pre, body, tag)
        if rc != 0:
            raise Broken('correspondence evaluation in Coq failed (%s)' % tag, (out + err)[-3000:])
        ms = re.findall(r'=\s*\[(.*?)\]\s*:\s*list N', out, re.S)
        if len(ms) != len(evals):
            raise Broken('cannot parse Coq output (%s)' % tag, out[-2000:])
        return [[base + int(x) for x in re.findall(r'\d+', m)] for m in ms]
    res = [[] for _ in evals]
    with concurrent.futures.ThreadPoolExecutor(max_workers=14) as ex:
        for r in ex.map(one, chunks):
            for k, lst in enumerate(r): res[k] += lst
    return [sorted(x) for x in res]

def coq_eval_term(imports, defs, term, tag='t'):
    rc, out, err = _coq_eval(PRELUDE % imports + defs, 'Eval vm_compute in (%s).' % term, tag)
    if rc != 0: raise Broken('Coq evaluation failed', (out + err)[-3000:])
    return out.strip()

# ------------------------------------------------------------------ harness
def harness_build(timeout=3000):
    with Lock('cargo'):
        if not os.path.exists(os.path.join(HARNESS, 'Cargo.lock')):
            sh(['cp', os.path.join(REPO, 'Cargo.lock'), os.path.join(HARNESS, 'Cargo.lock')])
        rc, out, err = sh(['cargo', 'build', '--offline', '--quiet'], cwd=HARNESS, timeout=timeout,
                          env={'CARGO_NET_OFFLINE': 'true'})
    if rc != 0:
        raise Broken('harness (and /repo crates with --cfg d_engine_verif) no longer builds', (out + err)[-4000:])
    return DPROBE

def probe(name, cases, timeout=900, args=()):
    """Run `dprobe <name>` on JSON cases (one per line); returns list of decoded outputs."""
    inp = '\n'.join(json.dumps(c, separators=(',', ':')) for c in cases) + '\n'
    rc, out, err = sh([DPROBE, name] + list(args), inp=inp, timeout=timeout, env={'RUST_BACKTRACE': '0'})
    vals = []
    for l in out.splitlines():
        # the real code prints role transitions etc. on stdout; keep only the lines that are JSON values
        if not l or not (l[0] in '[{"' or l[0].isdigit() or l in ('null', 'true', 'false')): continue
        try: vals.append(json.loads(l))
        except ValueError: continue
    if rc != 0 or len(vals) != len(cases):
        raise Broken('dprobe %s failed (rc=%s, %d/%d outputs)' % (name, rc, len(vals), len(cases)), (out[-1500:] + err[-2500:]))
    return vals

def probe_parallel(name, cases, jobs=12, timeout=900, args=()):
    if len(cases) < 64: return probe(name, cases, timeout, args)
    n = (len(cases) + jobs - 1) // jobs
    chunks = [cases[i:i + n] for i in range(0, len(cases), n)]
    with concurrent.futures.ThreadPoolExecutor(max_workers=jobs) as ex:
        outs = list(ex.map(lambda c: probe(name, c, timeout, args), chunks))
    return [o for ch in outs for o in ch]

# ------------------------------------------------------------------ verdicts
def load_known(prop):
    if not os.path.exists(KNOWN): return []
    return [k for k in json.load(open(KNOWN)) if k.get('property') == prop]

class Run:
    def __init__(self, prop, tier, seed, level='proof'):
        self.prop, self.tier, self.seed, self.level = prop, tier, seed, level
        self.t0 = time.time()
        self.cov = {'obligations': 0, 'discharged': 0, 'checker_cmd': '', 'trusted_base': list(TRUSTED_BASE_COMMON),
                    'traces_validated_against_impl': 0, 'evaluations': 0, 'distinct_nontrivial': 0,
                    'rule': '', 'samples': [], 'input_distribution': {}, 'axioms': [], 'known_findings': []}
        self.assumptions = []
        self.violations = 0
        self.nreplay = 0
    def rng(self, *salt): return Rng(self.seed, self.prop, *salt)
    def add_cases(self, cases_n, distinct_n, samples, dist=None, rule=None):
        self.cov['evaluations'] += cases_n; self.cov['traces_validated_against_impl'] += cases_n
        self.cov['distinct_nontrivial'] += distinct_n
        self.cov['samples'] += samples[:3]
        if dist:
            for k, v in dist.items(): self.cov['input_distribution'][k] = self.cov['input_distribution'].get(k, 0) + v
        if rule: self.cov['rule'] = (self.cov['rule'] + ' | ' if self.cov['rule'] else '') + rule
    def write_evidence(self):
        os.makedirs(os.path.join(ROOT, 'evidence'), exist_ok=True)
        ev = {'property_id': self.prop, 'tier': self.tier, 'seed': self.seed, 'level': self.level,
              'coverage': self.cov, 'assumptions': self.assumptions, 'wall_s': round(time.time() - self.t0, 2),
              'violations': self.violations}
        tmp = os.path.join(ROOT, 'evidence', self.prop + '.json.tmp')
        json.dump(ev, open(tmp, 'w'), indent=1, sort_keys=True)
        os.replace(tmp, os.path.join(ROOT, 'evidence', self.prop + '.json'))
    def replay_file(self, payload):
        os.makedirs(OUT, exist_ok=True)
        self.nreplay += 1
        p = os.path.join(OUT, '%s-%d.replay.json' % (self.prop, self.nreplay))
        payload = dict(payload); payload['property'] = self.prop; payload['seed'] = self.seed; payload['tier'] = self.tier
        json.dump(payload, open(p, 'w'), indent=1, sort_keys=True, default=str)
        return p
    def violation(self, payload, found_input=True):
        self.violations += 1
        p = self.replay_file(payload)
        print('VIOLATION property=%s replay=%s%s' % (self.prop, p, '' if found_input else ' no-failing-input-found'), flush=True)
    def known(self, what):
        self.cov['known_findings'].append(what)
        print('KNOWN-FINDING: property=%s %s' % (self.prop, what), flush=True)
    def finish(self):
        self.write_evidence()
        return 1 if self.violations else 0
