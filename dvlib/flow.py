"""Reusable steps of a property check: translation, proof build, verdict assembly."""
import os, re, json
from . import core
from .core import Broken

def proof_step(run, props_file, cone, extra_targets=()):
    """Regenerate Gen, scan for forbidden constructs, (re)build the pinned statements.
    Returns list of broken items [(kind, name, detail)] — empty when every obligation is discharged."""
    broken = []
    st = core.gen()
    for fname, s in st.items():
        if not s.get('ok'):
            broken.append(('translation', 'Gen/' + fname, s.get('error', '')))
    run.cov['gen_status'] = st
    files = list(cone) + [props_file]
    bad = core.scan_forbidden([f for f in files if os.path.exists(os.path.join(core.COQ, f))])
    if bad:
        broken.append(('forbidden-construct', ';'.join(bad)[:300], '\n'.join(bad)))
    target = props_file[:-2] + '.vo'
    cmd = 'make -C /verif/coq -j16 %s' % ' '.join([target] + [t for t in extra_targets])
    ok, log = core.coq_make([target] + list(extra_targets), force=[target])
    nobl, names = core.count_obligations(files)
    run.cov['obligations'] += nobl
    run.cov['checker_cmd'] = (run.cov['checker_cmd'] + ' && ' if run.cov['checker_cmd'] else '') + cmd
    run.cov['pinned_statements'] = core.count_obligations([props_file])[1]
    if ok:
        run.cov['discharged'] += nobl
        axioms = core.parse_assumptions(log)
        run.cov['axioms'] = sorted(set(run.cov['axioms']) | set(axioms))
        closed = len(core.AX_OK.findall(log))
        run.cov['print_assumptions_closed'] = run.cov.get('print_assumptions_closed', 0) + closed
        notallowed = [a for a in axioms if a.split('.')[-1] not in core.ALLOWED_AXIOMS and a not in core.ALLOWED_AXIOMS]
        if notallowed:
            broken.append(('axiom', ','.join(notallowed), log[-2000:]))
        for a in axioms:
            run.cov['trusted_base'].append('axiom (standard library): ' + a)
    else:
        m = re.search(r'File "\./([^"]+)", line (\d+)', log)
        where = '%s:%s' % (m.group(1), m.group(2)) if m else 'unknown'
        # which statements were still compiled: count those in files whose .vo exists and is newer
        done = 0
        for f in files:
            vo = os.path.join(core.COQ, f[:-2] + '.vo')
            if os.path.exists(vo) and os.path.getmtime(vo) >= os.path.getmtime(os.path.join(core.COQ, f)):
                done += core.count_obligations([f])[0]
        run.cov['discharged'] += done
        broken.append(('theorem', where, log[-3000:]))
    return broken

def conclude(run, broken, violations, known_classes=None, extra=None):
    """violations: list of dicts {class, input, output, why}. Applies the known-findings file, prints lines,
    writes replay files; returns exit code."""
    known = {k['class']: k for k in core.load_known(run.prop) if k.get('status') == 'known'}
    reported = set(); seen_known = set()
    for v in violations:
        c = v.get('class', 'unclassified')
        if c in known:
            if c not in seen_known:
                seen_known.add(c); run.known('%s — %s' % (c, known[c].get('what', v.get('why', ''))))
            continue
        if c in reported: continue
        reported.add(c)
        run.violation({'kind': 'counterexample', 'class': c, 'why': v.get('why'), 'probe': v.get('probe'),
                       'input': v.get('input'), 'impl_output': v.get('output'), 'how_to_replay': v.get('replay', '')})
    # a known finding that no longer reproduces is fine (maybe fixed); not reported
    if broken and not reported:
        # the proof or the tie no longer checks: when the only violations found belong to known classes,
        # a broken obligation still has to be reported
        run.violation({'kind': 'broken-obligation', 'broken': [{'kind': k, 'name': n, 'detail': d[-1500:]} for k, n, d in broken],
                       'note': 'no concrete failing input found by the search; the named theorem/correspondence no longer checks'},
                      found_input=False)
    elif broken:
        run.cov['broken'] = [{'kind': k, 'name': n} for k, n, d in broken]
    return run.finish()
