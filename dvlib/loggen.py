"""Generators of operation sequences on a Raft log (shared by C19/C08/C18/C29)."""

class Ref:
    """plain-log reference used only to *shape* generated ops (not an oracle)."""
    def __init__(self):
        self.base = (0, 0); self.ents = []   # (idx, term, pl)
    def last_idx(self): return self.ents[-1][0] if self.ents else self.base[0]
    def last_term(self): return self.ents[-1][1] if self.ents else self.base[1]
    def term_at(self, i):
        for e in self.ents:
            if e[0] == i: return e[1]
        if self.base[0] > 0 and i == self.base[0]: return self.base[1]
        return None
    def append(self, es): self.ents += es
    def filter_append(self, prev, pterm, es):
        ok = (prev == 0 and pterm == 0) or (self.term_at(prev) == pterm)
        if not ok: return
        if prev == 0 and pterm == 0:
            self.ents = list(es); return      # what the code does (reset + append)
        for k, e in enumerate(es):
            t = self.term_at(e[0])
            if t is None or t != e[1] or e[0] > self.last_idx():
                self.ents = [x for x in self.ents if x[0] < e[0]] + list(es[k:]); return
    def purge(self, ci, ct):
        self.ents = [x for x in self.ents if x[0] > ci]; self.base = (ci, ct)
    def reset(self): self.ents = []

def gen_shaped_seq(r, nops, pl_counter, allow_prev0=True, allow_purge=True, allow_reset=True, maxlen=4):
    """One Raft-shaped op sequence (list of ops in probe syntax) driven by rng r."""
    ref = Ref(); ops = []; tags = []
    def fresh():
        pl_counter[0] += 1; return pl_counter[0]
    for _ in range(nops):
        k = r.below(100)
        if k < 30 or (not ref.ents and ref.base == (0, 0) and k < 60):
            n = r.range(1, maxlen); t = max(1, ref.last_term()); es = []
            for j in range(n):
                if r.chance(1, 4): t += 1
                es.append([ref.last_idx() + 1 + j, t, fresh()])
            ops.append([0, es]); ref.append([tuple(e) for e in es]); tags.append('append')
        elif k < 75:
            # a request from a (possibly new) leader: shares a prefix with the local log, may diverge
            lo = ref.base[0]; hi = ref.last_idx()
            if hi == 0 and lo == 0:
                prev = 0
            else:
                prev = r.range(max(lo, 0 if allow_prev0 else lo), hi) if hi >= lo else lo
                if prev < lo: prev = lo
                if prev == 0 and not allow_prev0 and hi > 0: prev = max(1, lo)
            pterm = ref.term_at(prev) if prev > 0 else 0
            kind = r.below(10)
            if prev > 0 and kind == 0 and pterm is not None:
                pterm = pterm + 1 if r.chance(1, 2) else max(1, pterm - 1)      # mismatching prev term
                tags.append('filter-prev-term-mismatch')
            elif kind == 1:
                prev = hi + r.range(1, 2); pterm = max(1, ref.last_term()); tags.append('filter-prev-beyond')
            else:
                tags.append('filter-match')
            if pterm is None: pterm = max(1, ref.last_term())
            n = r.range(0 if prev > 0 else 1, maxlen + 1); es = []
            diverged = False; t = max(1, pterm)
            # a (0,0) request must cover the local log to be Raft-shaped for the reset branch
            if prev == 0 and pterm == 0: n = max(n, hi)
            for j in range(n):
                i = prev + 1 + j
                lt = ref.term_at(i) if i > ref.base[0] else None
                if not diverged and lt is not None and lt >= t and r.chance(3, 4):
                    t = lt
                    old = [x for x in ref.ents if x[0] == i][0]
                    es.append([i, t, old[2]])
                else:
                    if not diverged:
                        diverged = True
                        if lt is not None: t = max(t, lt) + 1       # conflicting entry from a newer leader
                        elif r.chance(1, 3): t += 1
                    elif r.chance(1, 5): t += 1
                    es.append([i, t, fresh()])
            ops.append([1, prev, pterm, es]); ref.filter_append(prev, pterm, [tuple(e) for e in es])
        elif k < 87 and allow_purge and ref.ents:
            i = r.range(ref.ents[0][0], ref.last_idx()); t = ref.term_at(i)
            ops.append([2, i, t]); ref.purge(i, t); tags.append('purge')
        elif k < 92 and allow_reset:
            ops.append([3]); ref.reset(); tags.append('reset')
        else:
            ops.append([4, r.range(1, 3)]); tags.append('alloc')
    return ops, tags

CORPUS_C19 = [
    # truncate into the current term segment, then re-extend
    [[0, [[1, 1, 1], [2, 1, 2], [3, 2, 3], [4, 2, 4]]], [1, 2, 1, [[3, 3, 5]]], [0, [[4, 3, 6], [5, 4, 7]]], [1, 3, 3, [[4, 3, 6], [5, 5, 8]]]],
    # truncation below the last segment start with the same term as the segment (pull-back)
    [[0, [[1, 1, 1], [2, 1, 2], [3, 1, 3], [4, 2, 4]]], [1, 1, 1, [[2, 2, 5], [3, 2, 6]]]],
    # purge boundary used as prev
    [[0, [[1, 1, 1], [2, 1, 2], [3, 2, 3]]], [2, 3, 2], [1, 3, 2, [[4, 2, 4]]], [1, 3, 2, [[4, 2, 4], [5, 3, 5]]]],
    # purge in the middle, then conflict right after the boundary
    [[0, [[1, 1, 1], [2, 1, 2], [3, 1, 3], [4, 1, 4]]], [2, 2, 1], [1, 2, 1, [[3, 2, 9]]]],
    # reset then rebuild
    [[0, [[1, 1, 1], [2, 2, 2]]], [3], [1, 0, 0, [[1, 3, 3], [2, 3, 4]]]],
    # idempotent re-delivery and pipelined overlap
    [[0, [[1, 1, 1], [2, 1, 2], [3, 1, 3]]], [1, 1, 1, [[2, 1, 2], [3, 1, 3]]], [1, 1, 1, [[2, 1, 2], [3, 1, 3], [4, 1, 4]]], [1, 2, 1, [[3, 1, 3]]]],
    # overlap across a term boundary without conflict (slow path, no truncation)
    [[0, [[1, 1, 1], [2, 2, 2], [3, 2, 3]]], [1, 0, 0, [[1, 1, 1], [2, 2, 2], [3, 2, 3], [4, 2, 4]]], [1, 1, 1, [[2, 2, 2], [3, 2, 3], [4, 2, 4], [5, 3, 5]]]],
]
