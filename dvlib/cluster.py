"""Schedules for, and oracles over, the `cluster` probe (N real Raft nodes over a simulated network).

Observation per label: [[role, term, commit, vote|[], entries, notif|[]] per node, event_result].
role: 1 follower, 2 candidate, 3 leader, 4 learner."""
import json

LEADER = 3

def gen_schedule(r, n, length, faults=True, kills=False):
    """A blind but structured schedule: elections with partial vote delivery, replication rounds with
    delivery / drop / duplication / reordering across peers, client writes, heartbeats, same-term
    step-downs, restarts, delayed vote requests."""
    sched = []; lead = None; tags = {}
    def tag(t): tags[t] = tags.get(t, 0) + 1
    peers = list(range(1, n + 1))
    def elect():
        nonlocal lead
        a = r.choice(peers)
        others = [p for p in peers if p != a]
        k = r.choice([0, 1, len(others), len(others), len(others) // 2 + 0, (n // 2)])
        targets = r.shuffle(others)[:k]
        sched.append([0, a, targets]); tag('election')
        if len(targets) + 1 > n // 2: lead = a
        sched.append([9, a])
    def replicate():
        if lead is None: return
        a = lead
        sched.append([9, a])
        for b in r.shuffle([p for p in peers if p != a]):
            x = r.below(100)
            if not faults: x = 0
            if x < 70:
                sched.append([1, a, b, 0]); tag('deliver')
                y = r.below(100) if faults else 0
                if y < 75: sched.append([3, a, b, 0]); tag('ack')
                elif y < 85: sched.append([4, a, b]); tag('ack-dropped')
                elif y < 92: sched.append([3, a, b, 1]); sched.append([3, a, b, 0]); tag('ack-duplicated')
                else: tag('ack-delayed')
            elif x < 80: sched.append([2, a, b]); tag('request-dropped')
            elif x < 90: sched.append([1, a, b, 1]); sched.append([1, a, b, 0]); sched.append([3, a, b, 0]); tag('request-duplicated')
            else: tag('request-delayed')
        sched.append([9, a])
    elect()
    while len(sched) < length:
        x = r.below(100)
        if x < 30: replicate()
        elif x < 50:
            a = lead if (lead and r.chance(4, 5)) else r.choice(peers)
            sched.append([5, a, r.below(1000)]); tag('write'); sched.append([9, a])
        elif x < 60:
            if lead: sched.append([6, lead]); tag('heartbeat')
        elif x < 75: elect()
        elif x < 80 and faults:
            if lead: sched.append([8, lead]); tag('same-term-step-down')
        elif x < 88 and faults:
            b = r.choice(peers); g = 1 if (not kills or r.chance(1, 2)) else 0
            sched.append([7, b, g]); tag('restart-graceful' if g else 'restart-kill')
            if b == lead: lead = None
        elif x < 94 and faults:
            # a delayed / duplicated vote request of an earlier or the current term
            a, b = r.choice(peers), r.choice(peers)
            if a != b: sched.append([10, a, b, r.range(1, 6), r.range(0, 6), r.range(0, 5)]); tag('stray-vote-request')
        else:
            replicate()
    return sched, tags

# ---------------------------------------------------------------- oracles (each returns None or (class, why))

def leaders_by_term(out):
    seen = {}
    for step, (obs, _) in enumerate(out):
        for i, nd in enumerate(obs):
            if nd[0] == LEADER: seen.setdefault(nd[1], {}).setdefault(i + 1, step)
    return seen

def election_safety(case, out):
    """C01: at most one node is ever leader in a given term."""
    for t, who in leaders_by_term(out).items():
        if len(who) > 1:
            return ('two-leaders-in-one-term', 'term %d has leaders %s (first seen at steps %s)' % (t, sorted(who), [who[k] for k in sorted(who)]))
    return None

def votes_and_terms(case, out, allow_kill=False):
    """C02: a node never grants two different candidates in one term; its term never decreases."""
    n = case[0]; sched = case[2]
    grants = {}   # (voter, term) -> candidate
    prev_term = [0] * n
    for step, ((obs, res), lab) in enumerate(zip(out, sched)):
        for i, nd in enumerate(obs):
            if nd[1] < prev_term[i]:
                killed = lab[0] == 7 and lab[1] == i + 1 and lab[2] == 0
                cls = 'term-decreased-after-kill' if killed else 'term-decreased'
                return (cls, 'node %d: term %d -> %d at step %d (label %s)' % (i + 1, prev_term[i], nd[1], step, lab))
            prev_term[i] = nd[1]
        new = []
        if lab[0] == 0 and res:
            req_term, seen = res
            new.append((lab[1], req_term, lab[1]))          # the candidate votes for itself in its new term
            for tgt, r in seen:
                if r and r[0] == 1: new.append((tgt, req_term, lab[1]))
        if lab[0] == 10 and res and res[0] == 1:
            new.append((lab[2], lab[3], lab[1]))
        for voter, term, cand in new:
            k = (voter, term)
            if k in grants and grants[k][0] != cand:
                cls = 'second-grant-after-kill' if grants[k][1] else 'two-grants-in-one-term'
                return (cls, 'node %d granted term %d to %d and later to %d (step %d, label %s)' % (voter, term, grants[k][0], cand, step, lab))
            grants.setdefault(k, [cand, False])
        if lab[0] == 7 and lab[2] == 0:
            for k in grants:
                if k[0] == lab[1]: grants[k][1] = True
    return None

def log_matching(case, out):
    """C04: same (index, term) on two nodes => same payload, and all earlier entries identical."""
    for step, (obs, _) in enumerate(out):
        logs = [{e[0]: e for e in nd[4]} for nd in obs]
        for i in range(len(logs)):
            for j in range(i + 1, len(logs)):
                common = sorted(set(logs[i]) & set(logs[j]), reverse=True)
                for idx in common:
                    if logs[i][idx][1] == logs[j][idx][1]:
                        if logs[i][idx] != logs[j][idx]:
                            return ('same-index-term-different-payload', 'step %d: nodes %d,%d differ at index %d: %s vs %s' % (step, i + 1, j + 1, idx, logs[i][idx], logs[j][idx]))
                        for k in range(1, idx):
                            if logs[i].get(k) != logs[j].get(k) and k in logs[i] and k in logs[j]:
                                return ('matching-entry-but-different-prefix', 'step %d: nodes %d,%d agree at index %d but differ at %d' % (step, i + 1, j + 1, idx, k))
                            if (k in logs[i]) != (k in logs[j]):
                                return ('log-gap', 'step %d: nodes %d,%d agree at index %d but only one holds index %d' % (step, i + 1, j + 1, idx, k))
                        break
        for i, lg in enumerate(logs):
            ks = sorted(lg)
            if ks and ks != list(range(ks[0], ks[0] + len(ks))):
                return ('log-gap', 'step %d: node %d log indexes %s' % (step, i + 1, ks))
    return None

def committed_never_lost(case, out):
    """C05: an entry some node marked committed is held by every later leader and never replaced on any node
    that marked it committed."""
    committed = {}   # idx -> (entry, term when first seen committed)
    for step, (obs, _) in enumerate(out):
        for i, nd in enumerate(obs):
            lg = {e[0]: e for e in nd[4]}
            for idx in range(1, nd[2] + 1):
                if idx in lg and idx not in committed:
                    committed[idx] = (lg[idx], nd[1], step, i + 1)
        for i, nd in enumerate(obs):
            lg = {e[0]: e for e in nd[4]}
            for idx, (e, t, s0, who) in committed.items():
                if nd[2] >= idx and idx in lg and lg[idx] != e:
                    return ('committed-entry-differs', 'step %d: node %d has commit %d but holds %s at index %d; %s was committed at step %d by node %d' % (step, i + 1, nd[2], lg[idx], idx, e, s0, who))
                if nd[0] == LEADER and nd[1] > t and lg.get(idx) != e:
                    return ('leader-lacks-committed-entry', 'step %d: node %d leads term %d but holds %s at index %d; %s was committed in term %d (step %d, node %d)' % (step, i + 1, nd[1], lg.get(idx), idx, e, t, s0, who))
    return None

def notifications(case, out):
    """C31: per node the reported terms never decrease; one leader per reported term; only real leaders.
    nd[5] is the list of every distinct value the node's leader-change watch took (Some(leader, term) only)."""
    real = leaders_by_term(out)
    obs = out[-1][0]
    per_term = {}
    for i, nd in enumerate(obs):
        seq = nd[5]
        for a, b in zip(seq, seq[1:]):
            if b[1] < a[1]:
                return ('notified-term-decreased', 'node %d was notified %s after %s' % (i + 1, b, a))
        for l, t in seq:
            per_term.setdefault(t, {}).setdefault(l, i + 1)
    for t, ls in sorted(per_term.items()):
        if len(ls) > 1: return ('two-leaders-notified-for-one-term', 'term %d: leaders %s were notified' % (t, sorted(ls)))
        l = next(iter(ls))
        if l not in real.get(t, {}):
            return ('notified-leader-was-not-leader-in-that-term', 'node %d was told leader %d for term %d, but node %d was observed leading only terms %s' % (ls[l], l, t, l, sorted(tt for tt, w in real.items() if l in w)))
    return None
