"""Schedules for, and oracles over, the `cluster` probe (N real Raft nodes over a simulated network).

Observation per label: [[role, term, commit, vote|[], entries, notif|[]] per node, event_result].
role: 1 follower, 2 candidate, 3 leader, 4 learner."""
import json

LEADER = 3

def gen_schedule(r, n, length, faults=True, kills=False):
    """A blind but structured schedule: elections with partial vote delivery, replication rounds with
    delivery / drop / duplication / reordering across peers, client writes, heartbeats, same-term
    step-downs, restarts, delayed vote requests."""
    sched = []; lead = None; tags = {}
    def tag(t): tags[t] = tags.get(t, 0) + 1
    peers = list(range(1, n + 1))
    def elect():
        nonlocal lead
        a = r.choice(peers)
        others = [p for p in peers if p != a]
        k = r.choice([0, 1, len(others), len(others), len(others) // 2 + 0, (n // 2)])
        targets = r.shuffle(others)[:k]
        sched.append([0, a, targets]); tag('election')
        if len(targets) + 1 > n // 2: lead = a
        sched.append([9, a])
    def replicate():
        if lead is None: return
        a = lead
        sched.append([9, a])
        for b in r.shuffle([p for p in peers if p != a]):
            x = r.below(100)
            if not faults: x = 0
            if x < 70:
                sched.append([1, a, b, 0]); tag('deliver')
                y = r.below(100) if faults else 0
                if y < 75: sched.append([3, a, b, 0]); tag('ack')
                elif y < 85: sched.append([4, a, b]); tag('ack-dropped')
                elif y < 92: sched.append([3, a, b, 1]); sched.append([3, a, b, 0]); tag('ack-duplicated')
                else: tag('ack-delayed')
            elif x < 80: sched.append([2, a, b]); tag('request-dropped')
            elif x < 90: sched.append([1, a, b, 1]); sched.append([1, a, b, 0]); sched.append([3, a, b, 0]); tag('request-duplicated')
            else: tag('request-delayed')
        sched.append([9, a])
    elect()
    while len(sched) < length:
        x = r.below(100)
        if x < 30: replicate()
        elif x < 50:
            a = lead if (lead and r.chance(4, 5)) else r.choice(peers)
            sched.append([5, a, r.below(1000)]); tag('write'); sched.append([9, a])
        elif x < 60:
            if lead: sched.append([6, lead]); tag('heartbeat')
        elif x < 75: elect()
        elif x < 80 and faults:
            if lead: sched.append([8, lead]); tag('same-term-step-down')
        elif x < 88 and faults:
            b = r.choice(peers); g = 1 if (not kills or r.chance(1, 2)) else 0
            sched.append([7, b, g]); tag('restart-graceful' if g else 'restart-kill')
            if b == lead: lead = None
        elif x < 94 and faults:
            # a delayed / duplicated vote request of an earlier or the current term
            a, b = r.choice(peers), r.choice(peers)
            if a != b: sched.append([10, a, b, r.range(1, 6), r.range(0, 6), r.range(0, 5)]); tag('stray-vote-request')
        else:
            replicate()
    return sched, tags

def directed_schedules(r, n, kills=True):
    """Scenario templates derived from the local obligations (each with random variation): the places where a
    broken local guard turns into a global violation."""
    P = list(range(1, n + 1)); out = []
    maj = n // 2 + 1
    def pick(k, excl=()):
        return r.shuffle([p for p in P if p not in excl])[:k]
    # 1. same-term step-down, then a rival that never heard of the term collects the stepped-down node's vote
    a = r.choice(P); x = r.choice([p for p in P if p != a])
    voters = [p for p in P if p not in (a, x)][:maj - 1]
    rest = [p for p in P if p not in voters and p not in (a, x)]
    out.append(('stepdown-then-rival', [[0, a, voters], [9, a], [8, a], [0, x, [a] + rest], [9, x], [6, x], [9, x]]))
    # 2. a deposed leader learns of its successor from an AppendEntries
    a = r.choice(P); b = r.choice([p for p in P if p != a])
    out.append(('stale-leader-hears-successor', [[0, a, pick(n - 1, (a,))], [9, a], [0, b, pick(n - 1, (a, b))[:maj - 1] + []], [9, b], [1, b, a, 0], [9, a], [3, b, a, 0], [9, b]]))
    # 3. vote, kill, vote again in the same term
    v = r.choice(P); c1, c2 = pick(2, (v,))
    if kills: out.append(('vote-kill-vote', [[10, c1, v, 3, 0, 0], [7, v, 0], [10, c2, v, 3, 0, 0]]))
    # 4. a follower lags behind by more than the per-request cap while writes continue
    a = r.choice(P); others = [p for p in P if p != a]; lag = others[-1]
    s = [[0, a, others], [9, a]]
    for k in range(r.range(4, 7)):
        s += [[5, a, k], [9, a]]
        for b in others[:-1]: s += [[1, a, b, 0], [3, a, b, 0]]
        s += [[9, a]]
    for k in range(6):
        s += [[5, a, 50 + k], [9, a], [1, a, lag, 0], [3, a, lag, 0], [9, a]]
    out.append(('lagging-follower-with-cap', s))
    # 5. an isolated leader accumulates uncommitted entries, a new leader is elected, the old one rejoins
    a = r.choice(P); others = [p for p in P if p != a]; b = others[0]
    s = [[0, a, others], [9, a]]
    for b2 in others: s += [[1, a, b2, 0], [3, a, b2, 0]]
    s += [[9, a], [5, a, 1], [5, a, 2], [9, a]]          # never delivered
    s += [[0, b, [p for p in others if p != b]], [9, b], [5, b, 3], [9, b]]
    for b2 in P:
        if b2 != b: s += [[1, b, b2, 0], [9, b2], [3, b, b2, 0], [9, b]]
    for _ in range(3):
        for b2 in P:
            if b2 != b: s += [[6, b], [1, b, b2, 0], [3, b, b2, 0], [9, b]]
    out.append(('old-leader-rejoins', s))
    # 6. a fresh leader whose requests reach nobody must not commit
    a = r.choice(P)
    out.append(('leader-without-acks', [[0, a, pick(n - 1, (a,))], [9, a], [5, a, 1], [9, a], [6, a], [9, a], [9, a]]))
    # 7. delayed vote request of the established leader reaches a node that voted for somebody else in that term
    a, b, c = (pick(3) + pick(3))[:3] if n >= 3 else (1, 2, 3)
    out.append(('late-vote-request-of-leader', [[0, c, []], [0, a, [p for p in P if p not in (a, c)]], [9, a], [1, a, c, 0], [9, c], [10, a, c, 2, 0, 0]]))
    # 8. Figure 8: a leader keeps an uncommitted tail of its earlier term, is re-elected in a later term and appends
    #    its noop; a follower catches up one capped request at a time, so the majority match index sits inside the
    #    old-term region for several acknowledgements: nothing there may be committed by counting replicas
    a = r.choice(P); others = [p for p in P if p != a]
    s = [[0, a, others], [9, a]]
    for b2 in others: s += [[1, a, b2, 0], [3, a, b2, 0]]
    s += [[9, a]]
    for k in range(r.range(3, 6)): s += [[5, a, 70 + k]]
    s += [[9, a]]
    for b2 in others: s += [[2, a, b2]]                   # the tail reaches nobody
    s += [[8, a], [9, a], [0, a, others], [9, a]]          # step down, re-elected in the next term, noop appended
    for _ in range(8):
        for b2 in r.shuffle(others)[:maj - 1]: s += [[1, a, b2, 0], [3, a, b2, 0], [9, a]]
        s += [[6, a], [9, a]]
    out.append(('old-term-tail-slow-catchup', s))
    return out

# ---------------------------------------------------------------- oracles (each returns None or (class, why))

def leaders_by_term(out):
    seen = {}
    for step, (obs, _) in enumerate(out):
        for i, nd in enumerate(obs):
            if nd[0] == LEADER: seen.setdefault(nd[1], {}).setdefault(i + 1, step)
    return seen

def election_safety(case, out):
    """C01: at most one node is ever leader in a given term."""
    for t, who in leaders_by_term(out).items():
        if len(who) > 1:
            return ('two-leaders-in-one-term', 'term %d has leaders %s (first seen at steps %s)' % (t, sorted(who), [who[k] for k in sorted(who)]))
    return None

def votes_and_terms(case, out, allow_kill=False):
    """C02: a node never grants two different candidates in one term; its term never decreases."""
    n = case[0]; sched = case[2]
    grants = {}   # (voter, term) -> candidate
    prev_term = [0] * n
    for step, ((obs, res), lab) in enumerate(zip(out, sched)):
        for i, nd in enumerate(obs):
            if nd[1] < prev_term[i]:
                killed = lab[0] == 7 and lab[1] == i + 1 and lab[2] == 0
                cls = 'term-decreased-after-kill' if killed else 'term-decreased'
                return (cls, 'node %d: term %d -> %d at step %d (label %s)' % (i + 1, prev_term[i], nd[1], step, lab))
            prev_term[i] = nd[1]
        new = []
        if lab[0] in (0, 13) and res:
            req_term, seen = res
            new.append((lab[1], req_term, lab[1]))          # the candidate votes for itself in its new term
            for tgt, r in seen:
                if r and r[0] == 1: new.append((tgt, req_term, lab[1]))
        if lab[0] == 10 and res and res[0] == 1:
            new.append((lab[2], lab[3], lab[1]))
        for voter, term, cand in new:
            k = (voter, term)
            if k in grants and grants[k][0] != cand:
                cls = 'second-grant-after-kill' if grants[k][1] else 'two-grants-in-one-term'
                return (cls, 'node %d granted term %d to %d and later to %d (step %d, label %s)' % (voter, term, grants[k][0], cand, step, lab))
            grants.setdefault(k, [cand, False])
        if lab[0] == 7 and lab[2] == 0:
            for k in grants:
                if k[0] == lab[1]: grants[k][1] = True
    return None

def log_matching(case, out):
    """C04: same (index, term) on two nodes => same payload, and all earlier entries identical."""
    for step, (obs, _) in enumerate(out):
        logs = [{e[0]: e for e in nd[4]} for nd in obs]
        for i in range(len(logs)):
            for j in range(i + 1, len(logs)):
                common = sorted(set(logs[i]) & set(logs[j]), reverse=True)
                for idx in common:
                    if logs[i][idx][1] == logs[j][idx][1]:
                        if logs[i][idx] != logs[j][idx]:
                            return ('same-index-term-different-payload', 'step %d: nodes %d,%d differ at index %d: %s vs %s' % (step, i + 1, j + 1, idx, logs[i][idx], logs[j][idx]))
                        for k in range(1, idx):
                            if logs[i].get(k) != logs[j].get(k) and k in logs[i] and k in logs[j]:
                                return ('matching-entry-but-different-prefix', 'step %d: nodes %d,%d agree at index %d but differ at %d' % (step, i + 1, j + 1, idx, k))
                            if (k in logs[i]) != (k in logs[j]):
                                return ('log-gap', 'step %d: nodes %d,%d agree at index %d but only one holds index %d' % (step, i + 1, j + 1, idx, k))
                        break
        for i, lg in enumerate(logs):
            ks = sorted(lg)
            if ks and ks != list(range(ks[0], ks[0] + len(ks))):
                nd = obs[i]
                hole = [k for k in range(ks[0], ks[-1] + 1) if k not in lg]
                after = [lg[k] for k in ks if k > hole[-1]]
                if nd[0] == LEADER and ks[0] == 1 and all(e[1] == nd[1] for e in after) and all(k < hole[0] or k > hole[-1] for k in ks):
                    # one hole, everything behind it written by this node as leader of its current term: the stale next_id
                    # of a log that a conflict truncation had cut back (known finding; any other gap stays 'log-gap')
                    return ('leader-appends-beyond-hole-after-conflict-truncation', 'step %d: leader %d of term %d holds log indexes %s: its own entries start at %d although its log ended at %d (next_id is never lowered by a conflict truncation)' % (step, i + 1, nd[1], ks, hole[-1] + 1, hole[0] - 1))
                return ('log-gap', 'step %d: node %d log indexes %s' % (step, i + 1, ks))
    return None

def committed_never_lost(case, out):
    """C05: an entry some node marked committed is held by every later leader and never replaced on any node
    that marked it committed."""
    committed = {}   # idx -> (entry, term when first seen committed)
    for step, (obs, _) in enumerate(out):
        for i, nd in enumerate(obs):
            lg = {e[0]: e for e in nd[4]}
            for idx in range(1, nd[2] + 1):
                if idx in lg and idx not in committed:
                    committed[idx] = (lg[idx], nd[1], step, i + 1)
        for i, nd in enumerate(obs):
            lg = {e[0]: e for e in nd[4]}
            for idx, (e, t, s0, who) in committed.items():
                if nd[2] >= idx and idx in lg and lg[idx] != e:
                    return ('committed-entry-differs', 'step %d: node %d has commit %d but holds %s at index %d; %s was committed at step %d by node %d' % (step, i + 1, nd[2], lg[idx], idx, e, s0, who))
                if nd[0] == LEADER and nd[1] > t and lg.get(idx) != e:
                    return ('leader-lacks-committed-entry', 'step %d: node %d leads term %d but holds %s at index %d; %s was committed in term %d (step %d, node %d)' % (step, i + 1, nd[1], lg.get(idx), idx, e, t, s0, who))
    return None

def commit_backed(case, out):
    """C09 at cluster level: when a leader's commit index reaches N, a strict majority of the nodes holds the
    leader's entry N at that moment, and that entry is of the leader's term."""
    n = case[0]; prev = [0] * n
    for step, (obs, _) in enumerate(out):
        for i, nd in enumerate(obs):
            if nd[0] == LEADER and nd[2] > prev[i]:
                N = nd[2]; lg = {e[0]: e for e in nd[4]}
                e = lg.get(N)
                holders = sum(1 for o2 in obs if e is not None and e in o2[4])
                if e is None or 2 * holders <= n:
                    return ('commit-without-majority', 'step %d: leader %d (term %d) committed %d held by %d of %d nodes' % (step, i + 1, nd[1], N, holders, n))
                if e[1] != nd[1]:
                    return ('commit-of-older-term-entry', 'step %d: leader %d of term %d committed index %d whose entry has term %d' % (step, i + 1, nd[1], N, e[1]))
            prev[i] = nd[2] if nd[0] == LEADER else prev[i]
            if nd[0] != LEADER: prev[i] = nd[2]
    return None

def notifications(case, out):
    """C31: per node the reported terms never decrease; one leader per reported term; only real leaders.
    nd[5] is the list of every distinct value the node's leader-change watch took (Some(leader, term) only)."""
    real = leaders_by_term(out)
    obs = out[-1][0]
    per_term = {}
    for i, nd in enumerate(obs):
        seq = nd[5]
        for a, b in zip(seq, seq[1:]):
            if b[1] < a[1]:
                return ('notified-term-decreased', 'node %d was notified %s after %s' % (i + 1, b, a))
        for l, t in seq:
            per_term.setdefault(t, {}).setdefault(l, i + 1)
    for t, ls in sorted(per_term.items()):
        if len(ls) > 1: return ('two-leaders-notified-for-one-term', 'term %d: leaders %s were notified' % (t, sorted(ls)))
        l = next(iter(ls))
        if l not in real.get(t, {}):
            return ('notified-leader-was-not-leader-in-that-term', 'node %d was told leader %d for term %d, but node %d was observed leading only terms %s' % (ls[l], l, t, l, sorted(tt for tt, w in real.items() if l in w)))
    return None

# ---------------------------------------------------------------- shared check flow for the cluster-level properties
import os
from . import core, flow
from .core import Broken

ELECTION_IMPORTS = 'From DE Require Import Election.'

def node_events(r, nev):
    evs = []
    for _ in range(nev):
        x = r.below(100)
        if x < 40: evs.append([0, r.range(2, 3), r.range(1, 6), r.range(0, 2), r.range(0, 3)])
        elif x < 55: evs.append([1, r.range(2, 3), r.range(1, 6)])
        elif x < 80: evs.append([2, r.range(0, 2), r.choice([0, 0, r.range(2, 8)]), 2, r.range(0, 2)])
        elif x < 90: evs.append([3])
        else: evs.append([4, r.choice([0, 1, 1])])
    return evs

def node_labels(evs):
    labs = []
    for e in evs:
        if e[0] == 0: labs.append([10, e[1], 1, e[2], e[3], e[4]])
        elif e[0] == 1: labs.append([11, e[1], 1, e[2], 0, 0, [], 0])
        elif e[0] == 2: labs.append([12, 1, e[1], e[2], e[4]])
        elif e[0] == 3: labs.append([8, 1])
        else: labs.append([7, 1, e[1]])
    return labs

def node_shape(evs, out):
    res = []; prev_role = 1
    for e, (obs, r) in zip(evs, out):
        nd = obs[0]
        if e[0] == 0: x = r[0] if r else 0
        elif e[0] == 2: x = 1 if (nd[0] == 3 and prev_role != 3) else 0
        else: x = 0
        res.append([nd[0], nd[1], nd[3], x]); prev_role = nd[0]
    return res

def election_correspondence(run, ncases, broken):
    """One real Raft node (node 1 of a 3-node sim) driven by vote requests / AppendEntries of phantom peers,
    election timeouts with canned vote rounds, same-term step-downs and restarts, against DE.Election."""
    r = run.rng('election-node')
    evss = [node_events(r, r.range(2, 10)) for _ in range(ncases)]
    outs = core.probe_parallel('cluster', [[3, 2, node_labels(e)] for e in evss])
    pairs = [([1, [0, 0], e], node_shape(e, o)) for e, o in zip(evss, outs)]
    mism = core.coq_index_list(ELECTION_IMPORTS, '', 'election_probe', pairs, tag=run.prop + 'node')
    if mism:
        i = mism[0]
        broken.append(('correspondence', 'DE.Election.estep vs the real role states / ElectionHandler (probe cluster, node level)',
                       '%d disagreements; first on events %s -> impl %s' % (len(mism), json.dumps(pairs[i][0][2]), json.dumps(pairs[i][1]))))
    dist = {}
    for e in evss:
        for x in e:
            k = ['vote-request', 'append-entries', 'election-timeout', 'same-term-step-down', 'restart'][x[0]]
            dist['node:' + k] = dist.get('node:' + k, 0) + 1
    run.add_cases(len(pairs), len({json.dumps(p[0]) for p in pairs}), [{'node_events': pairs[0][0][2], 'impl': pairs[0][1]}], dist,
                  'node level: one real Raft node under 2-9 seeded events (vote requests with arbitrary term/log, AppendEntries, election timeouts with canned vote rounds incl. higher-term denials, same-term step-downs, graceful and kill restarts)')
    run.cov['disagreements'] = run.cov.get('disagreements', 0) + len(mism)
    return evss, outs

def cluster_runs(run, ncases, length, kills, faults=True):
    r = run.rng('cluster')
    cases = []; dist = {}
    for k in range(ncases):
        n = (5, 3, 4, 3)[k % 4]    # even sizes too: a majority of 4 is 3, where median/quorum slips show
        s, t = gen_schedule(r, n, length, faults=faults, kills=kills)
        cases.append([n, r.choice([1, 2, 3]), s])
        for kk, v in t.items(): dist[kk] = dist.get(kk, 0) + v
    for k in range(max(4, ncases // 10)):
        n = (5, 3, 4)[k % 3]
        for name, sch in directed_schedules(r, n, kills):
            cases.append([n, r.choice([1, 2]), sch]); dist['directed:' + name] = dist.get('directed:' + name, 0) + 1
    # recorded histories of repaired defects (dvlib/recorded_cases.json): kept as directed cases of every run
    rp = os.path.join(os.path.dirname(os.path.abspath(__file__)), 'recorded_cases.json')
    if os.path.exists(rp):
        for name, c in json.load(open(rp)):
            cases.append(c); dist['directed:recorded:' + name] = dist.get('directed:recorded:' + name, 0) + 1
    outs = core.probe_parallel('cluster', cases, jobs=12, timeout=1500)
    return cases, outs, dist

def check_cluster_property(run, props_file, cone, oracles, kills=False, quick=(150, 40), thorough=(1500, 70), node_level=True,
                           classify=None, histories=False, refine=False, extra=None):
    """Shared flow: proofs, node-level correspondence of the election model, cluster schedules on the real nodes,
    the property oracles on the real executions. refine=True: every execution is also replayed in Coq as an
    execution of DE.AbstractRaft (dvlib.refine.validate_refinement); evidence keys traces_refined_in_coq,
    labels_checked, outside_abstract_system; an unexplained execution is a broken obligation of kind 'refinement'."""
    thorough_t = run.tier == 'thorough'
    broken = []
    if props_file and os.path.exists(os.path.join(core.COQ, props_file)):
        broken += flow.proof_step(run, props_file, cone)
    if refine:
        # soundness of the executable abstract steps used by the refinement check below
        pinned = run.cov.get('pinned_statements', [])
        from . import refine as refine_mod
        broken += flow.proof_step(run, *refine_mod.props_and_cone())
        pinned += run.cov.get('pinned_statements', [])
        # node-level models meet the guards of the abstract system
        broken += flow.proof_step(run, 'theories/props/Properties_bridge.v',
                                  ['theories/Election.v', 'theories/PLog.v', 'theories/BufLog.v', 'theories/AbstractRaft.v', 'theories/proofs/C02.v', 'theories/proofs/C19.v', 'theories/proofs/C07.v', 'theories/proofs/AR_election.v', 'theories/proofs/AR_logs.v', 'theories/proofs/AR_bridge.v'])
        run.cov['pinned_statements'] = pinned + run.cov.get('pinned_statements', [])
    violations = []
    try:
        core.harness_build()
        if node_level:
            election_correspondence(run, 400 if thorough_t else 120, broken)
        if extra:
            extra(run, broken, violations, thorough_t)
        ncases, length = thorough if thorough_t else quick
        cases, outs, dist = cluster_runs(run, ncases, length, kills)
        ok = 0
        for c, o in zip(cases, outs):
            if isinstance(o, str):
                broken.append(('harness', 'cluster probe error', o[:300])); continue
            ok += 1
            for f in oracles:
                v = f(c, o)
                if v:
                    cls, why = v
                    if classify: cls = classify(cls, c, o, why)
                    # every BufferedRaftLog runs its IO task on an OS thread of its own, so one schedule can come out
                    # differently on another run: a counterexample is only reported if it replays (3 more runs)
                    again = [o2 for o2 in core.probe_parallel('cluster', [c] * 3, jobs=3, timeout=600) if not isinstance(o2, str)]
                    hits = [f(c, o2) for o2 in again]
                    if any(hits):
                        h = [x for x in hits if x][0]
                        violations.append({'class': classify(h[0], c, o, h[1]) if classify else h[0], 'probe': 'cluster', 'input': c, 'output': None, 'why': h[1]})
                    else:
                        run.cov.setdefault('unreproduced_observations', []).append({'class': cls, 'why': why, 'input': c})
                        print('UNREPRODUCED-OBSERVATION property=%s %s: %s (seen once, not in 3 re-runs of the same schedule; not a verdict)' % (run.prop, cls, why))
        if histories:
            for cs, h in validate_histories(run, cases, outs, broken)[:2]:
                violations.append({'class': 'history-fails-vote-once-or-majority-backing', 'probe': 'cluster', 'input': cs, 'output': h,
                                   'why': 'the execution history (voters, grants, leaders) fails DE.proofs.C01.vote_once_b / backed_b: a double vote or a leader not backed by a majority of recorded grants'})
        if refine:
            # executable refinement check: every real execution is replayed, label by label, as an execution of
            # DE.AbstractRaft inside Coq (DE.ARExec.refine_ok, sound by Refine_exec_sound / Refine_trace_reaches);
            # an execution that is not explained and not in a documented 'outside' class is a broken obligation
            from . import refine as refine_mod
            # quick tier: refine a seeded-stable subset (the Coq replay dominates the running time)
            lim = len(cases) if thorough_t else 110
            rc, ro = [], []
            for c, o in zip(cases[-lim:], outs[-lim:]):
                # an execution that shows the known finding 'leader-appends-beyond-hole-after-conflict-truncation' (a leader log
                # with a hole) has no counterpart in the abstract system: it is reported by the oracle, not replayed
                v = None if isinstance(o, str) else log_matching(c, o)
                if v and v[0] == 'leader-appends-beyond-hole-after-conflict-truncation':
                    run.cov['not_replayed_known_leader_log_hole'] = run.cov.get('not_replayed_known_leader_log_hole', 0) + 1; continue
                rc.append(c); ro.append(o)
            refine_mod.validate_refinement(run, rc, ro, broken)
        dist['terms-with-a-leader'] = sum(len(leaders_by_term(o)) for o in outs if not isinstance(o, str))
        dist['max-commit-sum'] = sum(max(nd[2] for obs, _ in o for nd in obs) for o in outs if not isinstance(o, str))
        run.add_cases(ok, len({json.dumps(c) for c in cases}), [{'n': cases[0][0], 'cap': cases[0][1], 'schedule': cases[0][2][:12]}], dist,
                      'cluster level: 3-, 4- and 5-node clusters of real Raft objects over a simulated network, seeded schedules of %d+ labels (elections with partial vote delivery, AppendEntries delivery/drop/duplication/delay, acks dropped/duplicated/delayed, client writes, heartbeats, same-term step-downs, restarts%s, stray vote requests)' % (length, ' incl. kills' if kills else ''))
    except Broken as b:
        broken.append(('harness', b.what, b.detail))
    return flow.conclude(run, broken, violations)

def _is_election(lab): return lab[0] in (0, 13)

def history_of(case, out):
    """(U, G, Ls): voters, grants (voter, term, candidate) and leaders (node, term) of a real execution."""
    n = case[0]; G = []; Ls = []
    for (obs, res), lab in zip(out, case[2]):
        if lab[0] in (0, 13) and res:
            req_term, seen = res
            G.append([lab[1], req_term, lab[1]])
            for tgt, r in seen:
                if r and r[0] == 1: G.append([tgt, req_term, lab[1]])
        # a grant to the node already established as leader of that term is the known re-grant class (C02);
        # it cannot contribute to any election and is left out of the history
        if lab[0] == 10 and res and res[0] == 1 and [lab[1], lab[3]] not in Ls: G.append([lab[2], lab[3], lab[1]])
        for i, nd in enumerate(obs):
            if nd[0] == LEADER and [i + 1, nd[1]] not in Ls: Ls.append([i + 1, nd[1]])
    return [list(range(1, n + 1)), G, Ls]

TRACE_DEFS = """Definition trace_ok (inp out : val) : bool :=
  let U := vnl (vnth inp 0) in
  let G := map (fun g => (vn (vnth g 0), vn (vnth g 1), vn (vnth g 2))) (vl (vnth inp 1)) in
  let Ls := map (fun l => (vn (vnth l 0), vn (vnth l 1))) (vl (vnth inp 2)) in
  vote_once_b G && backed_b U G Ls."""

def validate_histories(run, cases, outs, broken):
    """Evaluate the proved-sound checkers (DE.proofs.C01.vote_once_b / backed_b) inside Coq on the histories of
    the real executions: every observed leader is backed by recorded grants of a majority, no double votes."""
    idx = [i for i, o in enumerate(outs) if not isinstance(o, str)]
    hs = [(history_of(cases[i], outs[i]), 0) for i in idx]
    bad = core.coq_index_list('From DE Require Import proofs.C01.', TRACE_DEFS, 'trace_ok', hs, mode='failing', tag=run.prop + 'hist')
    run.cov['histories_validated_in_coq'] = len(hs)
    return [(cases[idx[i]], hs[i][0]) for i in bad]

def replay_cluster(path, oracles):
    r = json.load(open(path))
    if r.get('kind') != 'counterexample':
        print('broken obligation:', [b['name'] for b in r.get('broken', [])]); return 1
    core.harness_build()
    out = core.probe('cluster', [r['input']], timeout=600)[0]
    bad = None
    for f in oracles:
        bad = bad or f(r['input'], out)
    print('VIOLATES: %s' % (bad,) if bad else 'ok'); return 1 if bad else 0

# ---------------------------------------------------------------- C32: recovery once faults stop
def replication_rounds(n, rounds):
    P = list(range(1, n + 1)); s = []
    for _ in range(rounds):
        for a in P:
            s += [[6, a], [9, a]]
            for b in P:
                if b != a: s += [[1, a, b, 2], [9, b], [3, a, b, 2]]
            s += [[9, a]]
    return s

def healing_suffix(n, sweeps, rounds):
    """Faults stop: `sweeps` times, every node that does not follow a live leader gets an election timeout whose
    vote requests reach everybody, followed by one replication round; then `rounds` rounds in which whoever
    leads ticks and every request and every acknowledgement is delivered."""
    P = list(range(1, n + 1)); s = []
    for _ in range(sweeps):
        for a in P:
            s += [[13, a, [p for p in P if p != a]], [9, a]]
            s += replication_rounds(n, 1)
    return s + replication_rounds(n, rounds)

def recovered(case, out):
    """C32 on a fair suffix: one leader of the highest term, a new write is accepted and committed, every node holds
    the leader's log and has marked all of it committed."""
    obs = out[-1][0]
    top = max(nd[1] for nd in obs)
    leaders = [i + 1 for i, nd in enumerate(obs) if nd[0] == LEADER and nd[1] == top]
    if len(leaders) != 1:
        return ('no-leader-after-healing', 'after the healing suffix the nodes are %s' % [[nd[0], nd[1]] for nd in obs])
    l = obs[leaders[0] - 1]
    if not l[4] or l[2] != l[4][-1][0]:
        return ('leader-did-not-commit-its-log', 'leader %d: commit %d, last index %s' % (leaders[0], l[2], l[4][-1][0] if l[4] else 0))
    for i, nd in enumerate(obs):
        if nd[4] != l[4]:
            return ('follower-did-not-catch-up', 'node %d log %s vs leader log %s' % (i + 1, [e[:2] for e in nd[4]], [e[:2] for e in l[4]]))
        if nd[2] != l[2]:
            return ('follower-commit-lags', 'node %d commit %d vs leader commit %d' % (i + 1, nd[2], l[2]))
    return None
