(* SMCrash — executable model of the persistence steps of the two state machines as coded:
     d-engine-server/src/storage/adaptors/file/file_state_machine.rs
        apply_chunk  (PHASE 2 WAL append of *outcomes*, PHASE 3 memory update, PHASE 4 last_applied in memory)
        checkpoint   (persist_data_async: open(truncate) ; write_all  |  persist_metadata_async: open(truncate) ; write
                      |  clear_wal_async)
        save_hard_state (Drop: persist_metadata ; flush() = persist_data + persist_metadata ; WAL kept)
        load_from_disk (load_metadata, load_data, replay_wal — the parsed entry index is ignored —, clear WAL)
     d-engine-server/src/storage/adaptors/rocksdb/rocksdb_state_machine.rs
        apply_chunk  (one write batch with the data only; last_applied only in memory)
        flush / save_hard_state / close_db / drop (persist_state_machine_metadata: the only place the applied index
                     reaches the DB)
        new          (load_state_machine_metadata)
   plus the reference key-value semantics [apply : kv -> cmd -> kv * bool].
   Storage is explicit: every write / truncate is a step, a crash may happen at every step boundary
   (and inside the WAL append: any prefix of the batch's records may have reached the file).
   No proofs here. *)
From Coq Require Import NArith List Bool.
From DE Require Import Val.
Import ListNotations.
Open Scope N_scope.

(* ---------------------------------------------------------------- reference KV semantics *)
Definition kv := N -> option N.
Definition kv0 : kv := fun _ => None.
Definition oeqb (a b : option N) : bool :=
  match a, b with Some x, Some y => x =? y | None, None => true | _, _ => false end.
Definition kput (k v : N) (s : kv) : kv := fun k' => if k' =? k then Some v else s k'.
Definition kdel (k : N) (s : kv) : kv := fun k' => if k' =? k then None else s k'.

Inductive cmd :=
| CPut (k v : N)
| CDel (k : N)
| CCas (k : N) (exp : option N) (v : N)     (* exp = None: the key must be absent *)
| CPutTtl (k v ttl : N)                     (* expiry itself is not modelled here (C23) *)
| CNoop.

Definition apply (s : kv) (c : cmd) : kv * bool :=
  match c with
  | CPut k v => (kput k v s, true)
  | CPutTtl k v _ => (kput k v s, true)
  | CDel k => (kdel k s, true)
  | CCas k e v => if oeqb (s k) e then (kput k v s, true) else (s, false)
  | CNoop => (s, true)
  end.
Definition apply_all (cs : list cmd) (s : kv) : kv := fold_left (fun s c => fst (apply s c)) cs s.

Definition is_cas (c : cmd) : bool := match c with CCas _ _ _ => true | _ => false end.
Definition cas_free (cs : list cmd) : bool := forallb (fun c => negb (is_cas c)) cs.

(* ---------------------------------------------------------------- File state machine *)
(* WAL records are outcomes (encode_wal_entry): a successful CAS is written as Insert, a failed one as CasFailed *)
Inductive wrec := WPut (k v : N) | WDel (k : N) | WNop.
Definition wapply (s : kv) (w : wrec) : kv :=
  match w with WPut k v => kput k v s | WDel k => kdel k s | WNop => s end.
Definition replay (w : list wrec) (s : kv) : kv := fold_left wapply w s.
Definition outcome (s : kv) (c : cmd) : wrec :=
  match c with
  | CPut k v => WPut k v
  | CPutTtl k v _ => WPut k v
  | CDel k => WDel k
  | CCas k e v => if oeqb (s k) e then WPut k v else WNop
  | CNoop => WNop
  end.
(* outcomes are evaluated in chunk order against memory + the chunk's own earlier writes (base + delta) *)
Fixpoint wal_of (s : kv) (cs : list cmd) : list wrec :=
  match cs with [] => [] | c :: r => outcome s c :: wal_of (fst (apply s c)) r end.

Record fdisk := { d_data : kv; d_meta : option N; d_wal : list wrec }.
Record fstate := { f_disk : fdisk; f_kv : kv; f_la : N }.
Definition fdisk0 : fdisk := {| d_data := kv0; d_meta := None; d_wal := [] |}.
Definition fstate0 : fstate := {| f_disk := fdisk0; f_kv := kv0; f_la := 0 |}.

Inductive fmstep :=
| MWal (b : list cmd) (j : nat)   (* the first j records of the chunk's WAL buffer reach wal.log (j = length b: all) *)
| MMem (b : list cmd)             (* PHASE 3 + 4: memory update, last_applied (memory only) *)
| MDataTrunc                      (* persist_data_async: OpenOptions.truncate(true).open(state.data) *)
| MDataWrite                      (*                     write_all(serialised memory) *)
| MMetaTrunc                      (* persist_metadata_async: open(truncate) metadata.bin *)
| MMetaWrite                      (*                         write index, term *)
| MWalClear.                      (* clear_wal_async *)

Definition set_disk (st : fstate) (d : fdisk) : fstate := {| f_disk := d; f_kv := f_kv st; f_la := f_la st |}.
Definition fstep (st : fstate) (m : fmstep) : fstate :=
  let d := f_disk st in
  match m with
  | MWal b j => set_disk st {| d_data := d_data d; d_meta := d_meta d; d_wal := d_wal d ++ firstn j (wal_of (f_kv st) b) |}
  | MMem b => {| f_disk := d; f_kv := apply_all b (f_kv st); f_la := f_la st + N.of_nat (length b) |}
  | MDataTrunc => set_disk st {| d_data := kv0; d_meta := d_meta d; d_wal := d_wal d |}
  | MDataWrite => set_disk st {| d_data := f_kv st; d_meta := d_meta d; d_wal := d_wal d |}
  | MMetaTrunc => set_disk st {| d_data := d_data d; d_meta := None; d_wal := d_wal d |}
  | MMetaWrite => set_disk st {| d_data := d_data d; d_meta := Some (f_la st); d_wal := d_wal d |}
  | MWalClear => set_disk st {| d_data := d_data d; d_meta := d_meta d; d_wal := [] |}
  end.

(* FileStateMachine::new on the files as they are: (data, reported last_applied) *)
Definition frecover (d : fdisk) : kv * N :=
  (replay (d_wal d) (d_data d), match d_meta d with Some n => n | None => 0 end).

Inductive op :=
| OApply (b : list cmd)
| OCkpt      (* File: checkpoint() (flush_async, or should_checkpoint in apply_chunk) / RocksDB: flush() *)
| OSave.     (* save_hard_state() as run by Drop on shutdown. File: persist_metadata ; flush() = persist_data
                (std::fs::write: truncate, write) ; persist_metadata — the WAL is NOT cleared. RocksDB: metadata keys. *)

Definition fsteps_of (o : op) : list fmstep :=
  match o with
  | OApply b => [MWal b (length b); MMem b]
  | OCkpt => [MDataTrunc; MDataWrite; MMetaTrunc; MMetaWrite; MWalClear]
  | OSave => [MMetaTrunc; MMetaWrite; MDataTrunc; MDataWrite; MMetaTrunc; MMetaWrite]
  end.
Definition frun_op (st : fstate) (o : op) : fstate := fold_left fstep (fsteps_of o) st.

(* A crash point: the files, the commands whose effect reached the files ("acked"), the rest of the chunk that
   was being applied (committed, not yet written), and whether the crash is inside the truncate..write window
   of state.data. *)
Record cpoint := { cp_disk : fdisk; cp_acked : list cmd; cp_rest : list cmd; cp_torn : bool }.

Definition fpoints_op (st : fstate) (done : list cmd) (o : op) : list cpoint :=
  match o with
  | OApply b =>
      map (fun j => {| cp_disk := f_disk (fstep st (MWal b j)); cp_acked := done ++ firstn j b;
                       cp_rest := skipn j b; cp_torn := false |}) (seq 1 (length b))
      ++ [ {| cp_disk := f_disk (frun_op st o); cp_acked := done ++ b; cp_rest := []; cp_torn := false |} ]
  | OCkpt =>
      let s1 := fstep st MDataTrunc in let s2 := fstep s1 MDataWrite in
      let s3 := fstep s2 MMetaTrunc in let s4 := fstep s3 MMetaWrite in let s5 := fstep s4 MWalClear in
      {| cp_disk := f_disk s1; cp_acked := done; cp_rest := []; cp_torn := true |}
      :: map (fun s => {| cp_disk := f_disk s; cp_acked := done; cp_rest := []; cp_torn := false |}) [s2; s3; s4; s5]
  | OSave =>
      let s1 := fstep st MMetaTrunc in let s2 := fstep s1 MMetaWrite in let s3 := fstep s2 MDataTrunc in
      let s4 := fstep s3 MDataWrite in let s5 := fstep s4 MMetaTrunc in let s6 := fstep s5 MMetaWrite in
      map (fun s => {| cp_disk := f_disk s; cp_acked := done; cp_rest := []; cp_torn := false |}) [s1; s2]
      ++ {| cp_disk := f_disk s3; cp_acked := done; cp_rest := []; cp_torn := true |}
      :: map (fun s => {| cp_disk := f_disk s; cp_acked := done; cp_rest := []; cp_torn := false |}) [s4; s5; s6]
  end.
Definition done_after (done : list cmd) (o : op) : list cmd :=
  match o with OApply b => done ++ b | OCkpt | OSave => done end.
Fixpoint fpoints (st : fstate) (done : list cmd) (ops : list op) : list cpoint :=
  match ops with
  | [] => []
  | o :: r => fpoints_op st done o ++ fpoints (frun_op st o) (done_after done o) r
  end.
Definition file_crash_points (ops : list op) : list cpoint :=
  {| cp_disk := fdisk0; cp_acked := []; cp_rest := []; cp_torn := false |} :: fpoints fstate0 [] ops.

(* ---------------------------------------------------------------- RocksDB state machine *)
Record rdisk := { r_kv : kv; r_meta : option N }.
Record rstate := { r_disk : rdisk; r_la : N }.
Definition rstate0 : rstate := {| r_disk := {| r_kv := kv0; r_meta := None |}; r_la := 0 |}.
Definition rrun_op (st : rstate) (o : op) : rstate :=
  match o with
  | OApply b => {| r_disk := {| r_kv := apply_all b (r_kv (r_disk st)); r_meta := r_meta (r_disk st) |};
                   r_la := r_la st + N.of_nat (length b) |}
  | OCkpt | OSave => {| r_disk := {| r_kv := r_kv (r_disk st); r_meta := Some (r_la st) |}; r_la := r_la st |}
  end.
Definition rrecover (d : rdisk) : kv * N := (r_kv d, match r_meta d with Some n => n | None => 0 end).
Record rpoint := { rp_disk : rdisk; rp_acked : list cmd }.
Fixpoint rpoints (st : rstate) (done : list cmd) (ops : list op) : list rpoint :=
  match ops with
  | [] => []
  | o :: r => {| rp_disk := r_disk (rrun_op st o); rp_acked := done_after done o |}
              :: rpoints (rrun_op st o) (done_after done o) r
  end.
Definition rocks_crash_points (ops : list op) : list rpoint :=
  {| rp_disk := r_disk rstate0; rp_acked := [] |} :: rpoints rstate0 [] ops.

(* what the restarted node does: re-apply every committed entry above the reported index *)
Definition reapply (la : N) (committed : list cmd) (s : kv) : kv := apply_all (skipn (N.to_nat la) committed) s.

(* ---------------------------------------------------------------- val glue *)
Definition cmd_of_val (v : val) : cmd :=
  let t := vn (vnth v 0) in
  if t =? 0 then CPut (vn (vnth v 1)) (vn (vnth v 2))
  else if t =? 1 then CDel (vn (vnth v 1))
  else if t =? 2 then CCas (vn (vnth v 1)) (match vl (vnth v 2) with [] => None | e :: _ => Some (vn e) end) (vn (vnth v 3))
  else if t =? 3 then CPutTtl (vn (vnth v 1)) (vn (vnth v 2)) (vn (vnth v 3))
  else CNoop.
Definition op_of_val (v : val) : op :=
  if vn (vnth v 0) =? 0 then OApply (map cmd_of_val (vl (vnth v 1))) else if vn (vnth v 0) =? 1 then OCkpt else OSave.
Definition dump (keys : list N) (s : kv) : val := VL (map (fun k => vopt (s k)) keys).

Definition observe (keys : list N) (rec : kv * N) (committed : list cmd) : val :=
  VL [VN (snd rec); dump keys (fst rec); dump keys (reapply (snd rec) committed (fst rec))].

(* the probe cuts wal.log twice per record of a chunk: in the middle of record j+1 (j whole records survive) and at
   the boundary after record j+1; the first cut of a chunk (j = 0) leaves the previous files *)
Definition fobs_op (keys : list N) (st : fstate) (done : list cmd) (o : op) : list val :=
  match o with
  | OApply b =>
      let pt j := observe keys (frecover (f_disk (fstep st (MWal b j)))) (done ++ b) in
      flat_map (fun j => [pt j; pt (S j)]) (seq 0 (length b))
  | OCkpt | OSave => map (fun p => observe keys (frecover (cp_disk p)) done) (fpoints_op st done o)
  end.
Fixpoint fobs (keys : list N) (st : fstate) (done : list cmd) (ops : list op) : list val :=
  match ops with
  | [] => []
  | o :: r => fobs_op keys st done o ++ fobs keys (frun_op st o) (done_after done o) r
  end.
Definition robs (keys : list N) (ops : list op) : list val :=
  map (fun p => observe keys (rrecover (rp_disk p)) (rp_acked p)) (rpoints rstate0 [] ops).

(* input: [engine (0 = File, 1 = RocksDB), keys, ops]; output: one [la, state, state after re-application] per crash point *)
Definition smcrash_probe (v : val) : val :=
  let keys := vnl (vnth v 1) in
  let ops := map op_of_val (vl (vnth v 2)) in
  if vn (vnth v 0) =? 0 then VL (fobs keys fstate0 [] ops) else VL (robs keys ops).
