(* AbstractRaft — the abstract Raft transition system whose guards are the local obligations the
   concrete handlers are shown to meet (node-level theorems C02/C07/C08/C09/C19 + probes), and on which the
   global safety properties (C01 election safety, C04 log matching, C05 leader completeness, C06/C07
   agreement on committed entries) are proved once, for every execution.

   Messages are not state: a vote request is the candidate's recorded (term, last log id); an
   AppendEntries of term t is any slice of the *leader log of term t* (ghost [g_llog t], append-only) sent
   with any commit index the leader of t has reached so far. This covers loss, duplication, delay and
   reordering. Crashes with intact persistent state are stutter steps; state loss is outside this
   system (it is what the known findings of C02/C21 are about).  No proofs here. *)
From Coq Require Import NArith List Bool.
Import ListNotations.
Open Scope N_scope.

Record aentry := { a_term : N; a_pl : N }.

Definition upd {A} (f : N -> A) (k : N) (v : A) : N -> A := fun x => if x =? k then v else f x.

Record astate := {
  a_cur : N -> N;                (* current term *)
  a_vote : N -> option N;        (* vote in the current term *)
  a_log : N -> list aentry;      (* index i (1-based) is nth (i-1) *)
  a_commit : N -> N;
  (* ghost history, only ever growing *)
  g_votes : list (N * N * N);          (* (voter, term, candidate): every grant, self-votes included *)
  g_cand : list (N * N * (N * N));     (* (candidate, term, (last index, last term) when it timed out) *)
  g_leaders : list (N * N);            (* (node, term) *)
  g_llog : N -> list aentry;           (* term -> log of that term's leader *)
  g_lcommit : N -> N;                  (* term -> highest commit index its leader reached *)
  g_acks : list (N * N * N)            (* (follower, term, index up to which it accepted the leader log of that term) *)
}.

Definition last_id (l : list aentry) : N * N :=
  (N.of_nat (length l), match rev l with e :: _ => a_term e | [] => 0 end).
Definition term_at (l : list aentry) (i : N) : N :=
  if i =? 0 then 0 else match nth_error l (N.to_nat (i - 1)) with Some e => a_term e | None => 0 end.
Definition has_index (l : list aentry) (i : N) : bool := (0 <? i) && (i <=? N.of_nat (length l)).
Definition prefix (l : list aentry) (i : N) : list aentry := firstn (N.to_nat i) l.
Definition slice (l : list aentry) (prev k : N) : list aentry := firstn (N.to_nat k) (skipn (N.to_nat prev) l).

(* candidate's log (last index, last term) is at least as up to date as mine *)
Definition up_to_date (mine cand : N * N) : bool :=
  (snd mine <? snd cand) || ((snd cand =? snd mine) && (fst mine <=? fst cand)).

(* the follower rule (same as PLog.p_filter_append on a purge-free log): keep the agreeing prefix of the
   request, truncate at the first index whose term differs (or that is missing), append the rest *)
Fixpoint merge_from (l : list aentry) (pos : nat) (es : list aentry) : list aentry :=
  match es with
  | [] => l
  | e :: es' =>
      match nth_error l pos with
      | Some x => if a_term x =? a_term e then merge_from l (S pos) es' else firstn pos l ++ es
      | None => firstn pos l ++ es
      end
  end.

Definition majority (nodes vs : list N) : Prop :=
  NoDup vs /\ incl vs nodes /\ (length nodes < 2 * length vs)%nat.

Section Steps.
Variable nodes : list N.

Inductive astep : astate -> astate -> Prop :=
| STimeout s n :
    In n nodes ->
    astep s {| a_cur := upd (a_cur s) n (a_cur s n + 1); a_vote := upd (a_vote s) n (Some n);
               a_log := a_log s; a_commit := a_commit s;
               g_votes := (n, a_cur s n + 1, n) :: g_votes s;
               g_cand := (n, a_cur s n + 1, last_id (a_log s n)) :: g_cand s;
               g_leaders := g_leaders s; g_llog := g_llog s; g_lcommit := g_lcommit s; g_acks := g_acks s |}
| SVoteGrant s v c t last :
    In v nodes -> In (c, t, last) (g_cand s) -> v <> c -> a_cur s v <= t ->
    up_to_date (last_id (a_log s v)) last = true ->
    (a_cur s v < t \/ a_vote s v = None \/ a_vote s v = Some c) ->
    astep s {| a_cur := upd (a_cur s) v t; a_vote := upd (a_vote s) v (Some c);
               a_log := a_log s; a_commit := a_commit s;
               g_votes := (v, t, c) :: g_votes s; g_cand := g_cand s;
               g_leaders := g_leaders s; g_llog := g_llog s; g_lcommit := g_lcommit s; g_acks := g_acks s |}
| SVoteDeny s v t :            (* a request of a newer term is refused but its term is adopted *)
    In v nodes -> a_cur s v < t ->
    astep s {| a_cur := upd (a_cur s) v t; a_vote := upd (a_vote s) v None;
               a_log := a_log s; a_commit := a_commit s;
               g_votes := g_votes s; g_cand := g_cand s;
               g_leaders := g_leaders s; g_llog := g_llog s; g_lcommit := g_lcommit s; g_acks := g_acks s |}
| SBecomeLeader s n vs last :
    In n nodes -> In (n, a_cur s n, last) (g_cand s) ->
    (forall m, ~ In (m, a_cur s n) (g_leaders s)) ->
    majority nodes vs -> (forall v, In v vs -> In (v, a_cur s n, n) (g_votes s)) ->
    astep s {| a_cur := a_cur s; a_vote := a_vote s; a_log := a_log s; a_commit := a_commit s;
               g_votes := g_votes s; g_cand := g_cand s;
               g_leaders := (n, a_cur s n) :: g_leaders s;
               g_llog := upd (g_llog s) (a_cur s n) (a_log s n);
               (* the new leader's own commit index — what it learnt as a
                  follower or reached as the leader of an earlier term — is a commit index "the leader of this term
                  has reached": the real leader sends it as leader_commit before it commits anything in its term *)
               g_lcommit := upd (g_lcommit s) (a_cur s n) (a_commit s n); g_acks := g_acks s |}
| SLeaderAppend s n pl :
    In (n, a_cur s n) (g_leaders s) ->
    astep s {| a_cur := a_cur s; a_vote := a_vote s;
               a_log := upd (a_log s) n (a_log s n ++ [{| a_term := a_cur s n; a_pl := pl |}]);
               a_commit := a_commit s;
               g_votes := g_votes s; g_cand := g_cand s; g_leaders := g_leaders s;
               g_llog := upd (g_llog s) (a_cur s n) (a_log s n ++ [{| a_term := a_cur s n; a_pl := pl |}]);
               g_lcommit := g_lcommit s; g_acks := g_acks s |}
| SAppendAccept s f l t prev k lc :
    In f nodes -> In (l, t) (g_leaders s) -> f <> l -> a_cur s f <= t ->
    prev + k <= N.of_nat (length (g_llog s t)) -> lc <= g_lcommit s t ->
    term_at (a_log s f) prev = term_at (g_llog s t) prev -> prev <= N.of_nat (length (a_log s f)) ->
    astep s {| a_cur := upd (a_cur s) f t;
               a_vote := upd (a_vote s) f (if a_cur s f <? t then None else a_vote s f);
               a_log := upd (a_log s) f (merge_from (a_log s f) (N.to_nat prev) (slice (g_llog s t) prev k));
               a_commit := upd (a_commit s) f (N.max (a_commit s f) (N.min lc (prev + k)));
               g_votes := g_votes s; g_cand := g_cand s; g_leaders := g_leaders s;
               g_llog := g_llog s; g_lcommit := g_lcommit s;
               g_acks := (f, t, prev + k) :: g_acks s |}
| SAppendReject s f t :        (* mismatching prev: only the term is adopted *)
    In f nodes -> a_cur s f <= t -> (exists l, In (l, t) (g_leaders s)) ->
    astep s {| a_cur := upd (a_cur s) f t;
               a_vote := upd (a_vote s) f (if a_cur s f <? t then None else a_vote s f);
               a_log := a_log s; a_commit := a_commit s;
               g_votes := g_votes s; g_cand := g_cand s; g_leaders := g_leaders s;
               g_llog := g_llog s; g_lcommit := g_lcommit s; g_acks := g_acks s |}
| SAdvanceCommit s n N vs :
    In (n, a_cur s n) (g_leaders s) -> a_commit s n < N -> N <= N.of_nat (length (a_log s n)) ->
    term_at (a_log s n) N = a_cur s n ->
    majority nodes vs ->
    (forall v, In v vs -> v = n \/ exists m, N <= m /\ In (v, a_cur s n, m) (g_acks s)) ->
    astep s {| a_cur := a_cur s; a_vote := a_vote s; a_log := a_log s;
               a_commit := upd (a_commit s) n N;
               g_votes := g_votes s; g_cand := g_cand s; g_leaders := g_leaders s; g_llog := g_llog s;
               g_lcommit := upd (g_lcommit s) (a_cur s n) (N.max (g_lcommit s (a_cur s n)) N);
               g_acks := g_acks s |}.

Definition ainit : astate :=
  {| a_cur := fun _ => 0; a_vote := fun _ => None; a_log := fun _ => []; a_commit := fun _ => 0;
     g_votes := []; g_cand := []; g_leaders := []; g_llog := fun _ => []; g_lcommit := fun _ => 0; g_acks := [] |}.

Inductive reach : astate -> Prop :=
| reach0 : reach ainit
| reachS s s' : reach s -> astep s s' -> reach s'.

End Steps.
