(* Membership — executable model, as coded, of
     d-engine-server/src/membership/raft_membership.rs  (RaftMembership: members / voters / replication_peers /
       apply_config_change / add_learner / remove_node / contains_node / can_rejoin / new),
     d-engine-server/src/membership/membership_guard.rs (blocking_write stores the modified clone even when the
       closure returns Err: a BatchPromote that meets an unknown id keeps the promotions made before it),
     d-engine-core/src/membership.rs                    (is_single_node_cluster = initial_cluster_size == 1 && voters().is_empty()),
     d-engine-core/src/election/election_handler.rs     (broadcast_vote_requests: shortcut, vote counting),
     d-engine-core/src/raft_role/leader_state.rs        (calculate_safe_batch_size, is_learner_caught_up,
       handle_join_cluster / drain_commit_actions NodeJoin on top of DE.LeaderCommit),
     d-engine-core/src/raft_role/learner_state.rs       (vote request arm, tick, become_candidate, handle_membership_applied),
     d-engine-server/src/node/builder.rs                (restart: RaftMembership::new(node_id, initial_cluster, ..)).
   No proofs here. *)
From Coq Require Import NArith List Bool.
From DE Require Import Val BufLog LeaderCommit.
Import ListNotations.
Open Scope N_scope.

(* proto enums: NodeRole Follower=1 Candidate=2 Leader=3 Learner=4; NodeStatus Unspecified=0 Promotable=1 ReadOnly=2 Active=3 *)
Definition R_FOLLOWER : N := 1.
Definition R_LEARNER : N := 4.
Definition S_PROMOTABLE : N := 1.
Definition S_READONLY : N := 2.
Definition S_ACTIVE : N := 3.

Record node := { n_id : N; n_role : N; n_status : N }.

(* HashMap<u32, NodeMeta> as an association list kept in key order by [ins] *)
Fixpoint lookup (y : N) (l : list node) : option node :=
  match l with
  | [] => None
  | n :: t => if y =? n_id n then Some n else lookup y t
  end.
Fixpoint ins (n : node) (l : list node) : list node :=
  match l with
  | [] => [n]
  | h :: t => if n_id n <? n_id h then n :: h :: t
              else if n_id n =? n_id h then n :: t
              else h :: ins n t
  end.
Definition del (x : N) (l : list node) : list node := filter (fun n => negb (n_id n =? x)) l.
Definition upd (x : N) (f : node -> node) (l : list node) : list node :=
  map (fun n => if n_id n =? x then f n else n) l.

Record mstate := { m_self : N; m_init : N; m_nodes : list node; m_ver : N }.

(* RaftMembership::new: initial_cluster_size = initial_nodes.len(); nodes collected into the map *)
Definition mk (self : N) (init : list node) : mstate :=
  {| m_self := self; m_init := N.of_nat (length init);
     m_nodes := fold_left (fun l n => ins n l) init []; m_ver := 0 |}.

Definition set_nodes (m : mstate) (l : list node) : mstate :=
  {| m_self := m_self m; m_init := m_init m; m_nodes := l; m_ver := m_ver m |}.
Definition bump (m : mstate) : mstate :=
  {| m_self := m_self m; m_init := m_init m; m_nodes := m_nodes m; m_ver := m_ver m + 1 |}.

Inductive change :=
| CAdd (id st : N)
| CRemove (id : N)
| CPromote (id : N)
| CBatchPromote (ids : list N) (st : N)
| CBatchRemove (ids : list N).

(* NodeStatus::try_from(i32) accepts 0..3 *)
Definition add_status (s : N) : N := if s <=? 3 then s else S_PROMOTABLE.
Definition bp_status (s : N) : N := if s <=? 3 then s else S_ACTIVE.
Definition promoted (st : N) (n : node) : node := {| n_id := n_id n; n_role := R_FOLLOWER; n_status := st |}.

Fixpoint batch_promote (ids : list N) (st : N) (l : list node) : bool * list node :=
  match ids with
  | [] => (true, l)
  | x :: r => match lookup x l with
              | None => (false, l)
              | Some _ => batch_promote r st (upd x (promoted st) l)
              end
  end.

(* Membership::apply_config_change; the boolean is Result::is_ok *)
Definition apply_change (m : mstate) (c : change) : bool * mstate :=
  match c with
  | CAdd id st =>
      match lookup id (m_nodes m) with
      | Some e => (n_role e =? R_LEARNER, m)
      | None => (true, set_nodes m (ins {| n_id := id; n_role := R_LEARNER; n_status := add_status st |} (m_nodes m)))
      end
  | CRemove id => (true, bump (set_nodes m (del id (m_nodes m))))
  | CPromote id =>
      match lookup id (m_nodes m) with
      | Some _ => (true, set_nodes m (upd id (promoted S_ACTIVE) (m_nodes m)))
      | None => (false, m)
      end
  | CBatchPromote ids st =>
      let r := batch_promote ids (bp_status st) (m_nodes m) in (fst r, set_nodes m (snd r))
  | CBatchRemove ids => (true, bump (set_nodes m (fold_left (fun l x => del x l) ids (m_nodes m))))
  end.
Definition app (m : mstate) (c : change) : mstate := snd (apply_change m c).
Definition run (m : mstate) (cs : list change) : mstate := fold_left app cs m.

(* views *)
Definition keys (l : list node) : list N := nodup N.eq_dec (map n_id l).
Definition is_active (o : option node) : bool := match o with Some n => n_status n =? S_ACTIVE | None => false end.
Definition is_peer (o : option node) : bool :=
  match o with Some n => (n_status n =? S_ACTIVE) || (n_status n =? S_PROMOTABLE) || (n_status n =? S_READONLY) | None => false end.
Definition role_of (m : mstate) (y : N) : option N := option_map n_role (lookup y (m_nodes m)).
(* Membership::voters: non-self nodes whose status is Active *)
Definition voters (m : mstate) : list N :=
  filter (fun y => negb (y =? m_self m) && is_active (lookup y (m_nodes m))) (keys (m_nodes m)).
Definition repl_peers (m : mstate) : list N :=
  filter (fun y => negb (y =? m_self m) && is_peer (lookup y (m_nodes m))) (keys (m_nodes m)).
(* Membership::is_single_node_cluster (trait default, not overridden by RaftMembership), as repaired by the C03 fix:
   initial_cluster_size == 1 && voters().is_empty(). The previous variant (initial_cluster_size == 1 alone) lives in
   proofs/C03hist.v as history. *)
Definition is_single (m : mstate) : bool := (m_init m =? 1) && match voters m with [] => true | _ => false end.
Definition contains (m : mstate) (y : N) : bool := match lookup y (m_nodes m) with Some _ => true | None => false end.
Definition can_rejoin (m : mstate) (y role : N) : bool := (role =? R_LEARNER) && negb (contains m y).

(* the set a node counts its election / commit majority over: itself plus voters() *)
Definition vset (m : mstate) : list N := m_self m :: voters m.

(* ElectionHandler::broadcast_vote_requests. rs: one answer per voter (ascending id): 1 grant, 2 rpc error, else plain refusal.
   result [won; vote requests sent; peers asked] *)
Definition granted (n : nat) (rs : list N) : N := N.of_nat (length (filter (N.eqb 1) (firstn n rs))).
Definition elect (m : mstate) (rs : list N) : list N :=
  if is_single m then [1; 0; 0]
  else match voters m with
       | [] => [0; 0; 0]
       | vs => let total := N.of_nat (length vs) + 1 in
               let succeed := 1 + granted (length vs) rs in
               [if total / 2 <? succeed then 1 else 0; 1; N.of_nat (length vs)]
       end.
Definition won (m : mstate) (rs : list N) : bool := nth 0 (elect m rs) 0 =? 1.
Definition asked (m : mstate) (rs : list N) : bool := nth 1 (elect m rs) 0 =? 1.

(* leader_state.rs calculate_safe_batch_size / is_learner_caught_up / find_promotable_learners' status test *)
Definition safe_batch (current available : N) : N :=
  if (current + available) mod 2 =? 1 then available else available - 1.
Definition caught_up (match_index leader_commit threshold : N) : bool := (leader_commit - match_index) <=? threshold.
Definition promotable (m : mstate) (y match_index leader_commit threshold : N) : bool :=
  contains m y && caught_up match_index leader_commit threshold &&
  match lookup y (m_nodes m) with Some n => n_status n =? S_PROMOTABLE | None => false end.

(* handle_promote_ready_learners steps 2-5 + the committed BatchPromote applied: ((ok, batch size), state) *)
Definition promote_ready (m : mstate) (pending : list N) : (bool * N) * mstate :=
  let n := safe_batch (N.of_nat (length (voters m)) + 1) (N.of_nat (length pending)) in
  if n =? 0 then ((false, 0), m)
  else let r := apply_change m (CBatchPromote (firstn (N.to_nat n) pending) S_ACTIVE) in ((fst r, n), snd r).

(* builder.rs on every start: RaftMembership::new(node_id, initial_cluster, ..) — nothing else is reloaded *)
Definition restart (m : mstate) (init : list node) : mstate := mk (m_self m) init.

(* ---- LearnerState ---- *)
Record lrn := { lr_term : N }.
Inductive lev := LVote (term cand lidx lterm : N) | LTick | LCandidate | LApplied (promoted_ : bool).
(* ReceiveVoteRequest arm: term adopted, vote never granted *)
Definition lrn_step (s : lrn) (e : lev) : lrn * list N :=
  match e with
  | LVote t _ _ _ => let s' := {| lr_term := N.max (lr_term s) t |} in (s', [0; 1; 0; lr_term s'])
  | LTick => (s, [1; 0; 0; 0])
  | LCandidate => (s, [2; 0; 0])
  | LApplied p => (s, [3; if p then 1 else 0])
  end.
Definition lrn_granted (out : list N) : N := nth 2 out 0.

(* ---- join through the leader: DE.LeaderCommit.lstep + pending_commit_actions ---- *)
Record jstate := { j_l : lstate; j_m : mstate; j_joins : list (N * N) (* log index (0 = rejected), state *); j_applied : N;
                   j_cfg : list (N * change) (* config entries in the log *) }.
Inductive jev := JJoin (id role st : N) | JAck (peer mi : N) | JFlushed.

Definition set_l (s : jstate) (l : lstate) : jstate :=
  {| j_l := l; j_m := j_m s; j_joins := j_joins s; j_applied := j_applied s; j_cfg := j_cfg s |}.
(* update_cluster_metadata after MembershipApplied: voter = replication target whose role is not Learner *)
Definition refresh (m : mstate) (l : lstate) : lstate :=
  let ps := repl_peers m in
  let vs := filter (fun y => match role_of m y with Some r => negb (r =? R_LEARNER) | None => false end) ps in
  let ls := filter (fun y => match role_of m y with Some r => r =? R_LEARNER | None => false end) ps in
  let news := filter (fun y => negb (mem y (l_voters l ++ l_learners l))) ps in
  let l1 := {| l_log := l_log l; l_term := l_term l; l_commit := l_commit l; l_voters := vs; l_learners := ls;
               l_match := l_match l; l_next := l_next l |} in
  fold_left (fun s p => upd_match (upd_next s p (bmax (l_log s) + 1)) p 0) news l1.
Definition single_voter (m : mstate) : bool := match voters m with [] => true | _ => false end.

Definition jcommit_apply (s : jstate) : jstate :=
  let c := l_commit (j_l s) in
  (* send_join_success for every pending join whose index is committed (drain_commit_actions) *)
  let joins := map (fun j => if (negb (fst j =? 0)) && (snd j =? 0) && (fst j <=? c) then (fst j, 1) else j) (j_joins s) in
  (* the commit handler applies the newly committed config entries *)
  let todo := filter (fun e => (j_applied s <? fst e) && (fst e <=? c)) (j_cfg s) in
  let r := fold_left (fun acc e => let m' := app (fst acc) (snd e) in (m', refresh m' (snd acc))) todo (j_m s, j_l s) in
  {| j_l := snd r; j_m := fst r; j_joins := joins; j_applied := N.max (j_applied s) c; j_cfg := j_cfg s |}.

Definition jstep (s : jstate) (e : jev) : jstate :=
  match e with
  | JJoin id role st =>
      if contains (j_m s) id || negb (can_rejoin (j_m s) id role) then
        {| j_l := j_l s; j_m := j_m s; j_joins := j_joins s ++ [(0, 2)]; j_applied := j_applied s; j_cfg := j_cfg s |}
      else
        let l' := lstep (j_l s) (ELocalAppend 1) in
        let idx := bmax (l_log l') in
        jcommit_apply {| j_l := l'; j_m := j_m s; j_joins := j_joins s ++ [(idx, 0)]; j_applied := j_applied s;
                         j_cfg := j_cfg s ++ [(idx, CAdd id st)] |}
  | JAck p mi => jcommit_apply (set_l s (lstep (j_l s) (EAckSuccess p (l_term (j_l s)) mi (l_term (j_l s)))))
  | JFlushed =>
      (* handle_log_flushed decides on the cached ClusterMetadata.single_voter = (voters().len() + 1 == 1) *)
      let l := j_l s in
      let l' := if single_voter (j_m s)
                then (if l_commit l <? bmax (l_log l) then set_commit l (bmax (l_log l)) else l)
                else try_commit l in
      jcommit_apply (set_l s l')
  end.

(* ---- val glue ---- *)
Definition node_of_val (v : val) : node := {| n_id := vn (vnth v 0); n_role := vn (vnth v 1); n_status := vn (vnth v 2) |}.
Definition val_of_node (n : node) : val := VL [VN (n_id n); VN (n_role n); VN (n_status n)].
Definition view (m : mstate) : val :=
  VL [VL (map val_of_node (m_nodes m)); vns (voters m); vns (repl_peers m); vb (is_single m); VN (m_init m); VN (m_ver m)].
Definition change_of_val (v : val) : change :=
  let k := vn (vnth v 0) in
  if k =? 0 then CAdd (vn (vnth v 1)) (vn (vnth v 2))
  else if k =? 1 then CRemove (vn (vnth v 1))
  else if k =? 2 then CPromote (vn (vnth v 1))
  else if k =? 3 then CBatchPromote (vnl (vnth v 1)) (vn (vnth v 2))
  else CBatchRemove (vnl (vnth v 1)).

Definition memb_step (init : list node) (m : mstate) (v : val) : mstate * val :=
  let k := vn (vnth v 0) in
  if k <=? 4 then let r := apply_change m (change_of_val v) in (snd r, VL [vb (fst r)])
  else if k =? 5 then (restart m init, VL [VN 1])
  else if k =? 6 then (m, vns (let e := elect m (vnl (vnth v 1)) in e ++ [nth 0 e 0]))
  else if k =? 7 then (m, VL [VN (safe_batch (vn (vnth v 1)) (vn (vnth v 2)))])
  else if k =? 9 then
    let r := promote_ready m (vnl (vnth v 1)) in (snd r, VL [vb (fst (fst r)); VN (snd (fst r))])
  else (m, VL [vb (contains m (vn (vnth v 1))); vb (can_rejoin m (vn (vnth v 1)) (vn (vnth v 2)))]).

(* input [self, init nodes, steps]; output [[res, view] ...] starting with [[], initial view] *)
Definition memb_probe (v : val) : val :=
  let init := map node_of_val (vl (vnth v 1)) in
  let m0 := mk (vn (vnth v 0)) init in
  VL (snd (fold_left (fun acc st => let r := memb_step init (fst acc) st in
                                     (fst r, snd acc ++ [VL [snd r; view (fst r)]]))
                     (vl (vnth v 2)) (m0, [VL [VL []; view m0]]))).

Definition lev_of_val (v : val) : lev :=
  let k := vn (vnth v 0) in
  if k =? 0 then LVote (vn (vnth v 1)) (vn (vnth v 2)) (vn (vnth v 3)) (vn (vnth v 4))
  else if k =? 1 then LTick
  else if k =? 2 then LCandidate
  else LApplied (vbool (vnth v 1)).
(* input [my id, entries, events] *)
Definition learner_probe (v : val) : val :=
  VL (snd (fold_left (fun acc e => let r := lrn_step (fst acc) (lev_of_val e) in (fst r, snd acc ++ [vns (snd r)]))
                     (vl (vnth v 2)) ({| lr_term := 1 |}, []))).

Definition jev_of_val (v : val) : jev :=
  let k := vn (vnth v 0) in
  if k =? 0 then JJoin (vn (vnth v 1)) (vn (vnth v 2)) (vn (vnth v 3))
  else if k =? 1 then JAck (vn (vnth v 1)) (vn (vnth v 2))
  else JFlushed.
Definition jobserve (s : jstate) : val :=
  VL [VN (l_commit (j_l s)); VN (bmax (l_log (j_l s)));
      VL (map (fun j => VL [VN (fst j); VN (snd j)]) (j_joins s)); vns (map n_id (m_nodes (j_m s)))].
(* input [members of leader 1, entries, term, events] *)
Definition join_probe (v : val) : val :=
  let m0 := mk 1 (map node_of_val (vl (vnth v 0))) in
  let es := map entry_of_val (vl (vnth v 1)) in
  let b := match es with [] => buf0 | _ => b_append buf0 es end in
  let l0 := refresh m0 {| l_log := b; l_term := vn (vnth v 2); l_commit := 0; l_voters := []; l_learners := [];
                          l_match := []; l_next := [] |} in
  let s0 := {| j_l := l0; j_m := m0; j_joins := []; j_applied := 0; j_cfg := [] |} in
  VL (snd (fold_left (fun acc e => let s' := jstep (fst acc) (jev_of_val e) in (s', snd acc ++ [jobserve s']))
                     (vl (vnth v 3)) (s0, []))).

(* probe node_restart, graceful mode (a real Node built by NodeBuilder, joins through JoinCluster, shutdown, reopen):
   input [[ids], mode] -> [[join results: 1 accepted, 2 refused], members before, members after the restart, 0] *)
Definition node_restart_probe (v : val) : val :=
  let init := [{| n_id := 1; n_role := R_FOLLOWER; n_status := S_ACTIVE |}] in
  let step := fun (acc : mstate * list val) (id : N) =>
      if contains (fst acc) id then (fst acc, snd acc ++ [VN 2])
      else (app (fst acc) (CAdd id S_PROMOTABLE), snd acc ++ [VN 1]) in
  let r := fold_left step (vnl (vnth v 0)) (mk 1 init, []) in
  let members := fun m => VL (map val_of_node (m_nodes m)) in
  VL [VL (snd r); members (fst r); members (restart (fst r) init); VN 0].

(* probe promote: check_learner_progress + handle_promote_ready_learners rounds (the membership is NOT re-read between
   rounds because nothing has been applied yet: current_voters stays the same).
   input [members, log length, commit, threshold, [[id, match]...]] -> [batch sizes] *)
Fixpoint batches (fuel : nat) (current avail : N) : list N :=
  match fuel with
  | O => []
  | S f => if avail =? 0 then [] else
           let n := safe_batch current avail in
           if n =? 0 then [] else n :: batches f current (avail - n)
  end.
Definition promote_probe (v : val) : val :=
  let m := mk 1 (map node_of_val (vl (vnth v 0))) in
  let commit := vn (vnth v 2) in
  let th := vn (vnth v 3) in
  let elig := filter (fun p => promotable m (vn (vnth p 0)) (vn (vnth p 1)) commit th) (vl (vnth v 4)) in
  vns (batches 8 (N.of_nat (length (voters m)) + 1) (N.of_nat (length elig))).
