(* C09 — leaders commit only current-term entries backed by a voter majority.
   Proved on DE.LeaderCommit (model of the commit path of leader_state.rs +
   calculate_majority_matched_index of buffered_raft_log.rs). *)
From Coq Require Import NArith List Bool Lia Arith Permutation Sorted.
From DE Require Import Val BufLog LeaderCommit.
Import ListNotations.
Open Scope N_scope.

Definition count_ge (m : N) (l : list N) : nat := length (filter (fun x => m <=? x) l).

(* ---- insertion sort, descending ---- *)
Lemma insert_desc_perm x l : Permutation (insert_desc x l) (x :: l).
Proof.
  induction l as [|y l IH]; cbn [insert_desc]; [reflexivity|].
  destruct (y <=? x); [reflexivity|].
  rewrite IH. apply perm_swap.
Qed.

Lemma sort_desc_perm l : Permutation (sort_desc l) l.
Proof.
  induction l as [|x l IH]; cbn [sort_desc fold_right]; [reflexivity|].
  fold (sort_desc l). rewrite insert_desc_perm. constructor. exact IH.
Qed.

Definition desc (l : list N) : Prop := forall i j, (i <= j)%nat -> (j < length l)%nat -> nth j l 0 <= nth i l 0.

Lemma desc_cons x l : (forall y, In y l -> y <= x) -> desc l -> desc (x :: l).
Proof.
  intros Hx Hl i j Hij Hj. destruct i as [|i], j as [|j]; cbn [nth length] in *; try lia.
  - apply Hx. apply nth_In. lia.
  - apply Hl; lia.
Qed.

Lemma desc_tail x l : desc (x :: l) -> desc l /\ (forall y, In y l -> y <= x).
Proof.
  intros H. split.
  - intros i j Hij Hj. apply (H (S i) (S j)); cbn [length]; lia.
  - intros y Hy. destruct (In_nth _ _ 0 Hy) as [k [Hk <-]]. apply (H O (S k)); cbn [length]; lia.
Qed.

Lemma insert_desc_desc x l : desc l -> desc (insert_desc x l).
Proof.
  induction l as [|y l IH]; intros Hd; cbn [insert_desc].
  - intros i j Hij Hj. cbn [length] in Hj. assert (j = O) by lia. assert (i = O) by lia. subst. lia.
  - destruct (N.leb_spec y x) as [Hyx|Hyx].
    + apply desc_cons; [|exact Hd]. destruct (desc_tail _ _ Hd) as [_ Hall].
      intros z [<-|Hz]; [exact Hyx|]. specialize (Hall z Hz). lia.
    + destruct (desc_tail _ _ Hd) as [Hl Hall]. apply desc_cons; [|apply IH; exact Hl].
      intros z Hz. apply (Permutation_in _ (insert_desc_perm x l)) in Hz.
      destruct Hz as [<-|Hz]; [lia | apply Hall; exact Hz].
Qed.

Lemma sort_desc_desc l : desc (sort_desc l).
Proof.
  induction l as [|x l IH]; cbn [sort_desc fold_right].
  - intros i j _ Hj. cbn in Hj. lia.
  - fold (sort_desc l). apply insert_desc_desc. exact IH.
Qed.

Lemma count_ge_perm m l l' : Permutation l l' -> count_ge m l = count_ge m l'.
Proof.
  intros P. unfold count_ge. induction P as [|x l l' P IH|x y l|l l' l'' P1 IH1 P2 IH2]; cbn [filter].
  - reflexivity.
  - destruct (m <=? x); cbn [length]; rewrite IH; reflexivity.
  - destruct (m <=? x), (m <=? y); reflexivity.
  - rewrite IH1. exact IH2.
Qed.

(* in a descending list at least k+1 elements are >= the element at position k *)
Lemma count_ge_desc l : desc l -> forall k, (k < length l)%nat -> (k + 1 <= count_ge (nth k l 0%N) l)%nat.
Proof.
  induction l as [|x l IH]; intros Hd k Hk; cbn [length] in Hk; [lia|].
  destruct (desc_tail _ _ Hd) as [Hl Hall].
  destruct k as [|k]; cbn [nth]; unfold count_ge; cbn [filter].
  - rewrite N.leb_refl. cbn [length]. lia.
  - assert (Hk' : (k < length l)%nat) by lia.
    assert (Hle : nth k l 0 <= x) by (apply Hall, nth_In; exact Hk').
    destruct (N.leb_spec (nth k l 0) x) as [_|C]; [|lia].
    cbn [length]. specialize (IH Hl k Hk'). unfold count_ge in IH. lia.
Qed.

Lemma div2_bound n : (0 < n)%nat -> (Nat.div2 n < n)%nat /\ (n < 2 * (Nat.div2 n + 1))%nat.
Proof.
  intros Hn. destruct (Nat.Even_or_Odd n) as [[k ->]|[k ->]].
  - rewrite Nat.div2_double. lia.
  - replace (2 * k + 1)%nat with (S (2 * k)) by lia. rewrite Nat.div2_succ_double. lia.
Qed.

(* the median of the descending sort is held by a strict majority *)
Lemma median_majority (l : list N) :
  l <> [] ->
  let ids := sort_desc l in
  (length l < 2 * count_ge (nth (Nat.div2 (length ids)) ids 0%N) l)%nat.
Proof.
  intros Hne ids.
  assert (Hlen : length ids = length l) by (apply Permutation_length, sort_desc_perm).
  assert (Hpos : (0 < length ids)%nat) by (rewrite Hlen; destruct l; [congruence | cbn; lia]).
  destruct (div2_bound _ Hpos) as [Hk Hn].
  pose proof (count_ge_desc ids (sort_desc_desc l) _ Hk) as Hc.
  rewrite (count_ge_perm _ _ _ (sort_desc_perm l)) in Hc. rewrite <- Hlen. lia.
Qed.

(* ---- calculate_majority_matched_index ---- *)
Lemma b_majority_sound b term commit peers n :
  b_majority b term commit peers = Some n ->
  commit <= n /\
  (exists e, lookup (ents b) n = Some e /\ e_term e = term) /\
  (length (peers ++ [bmax b]) < 2 * count_ge n (peers ++ [bmax b]))%nat.
Proof.
  unfold b_majority. intros H.
  set (ids := sort_desc (peers ++ [bmax b])) in *.
  set (m := nth (Nat.div2 (length ids)) ids 0) in *.
  destruct (N.ltb_spec m commit) as [Hlt|Hge]; [discriminate|].
  destruct (lookup (ents b) m) as [e|] eqn:He; [|discriminate].
  destruct (N.eqb_spec (e_term e) term) as [Ht|Ht]; [|discriminate].
  inversion H; subst n. split; [exact Hge|]. split; [exists e; split; [exact He | exact Ht]|].
  apply median_majority. destruct peers; discriminate.
Qed.

(* ---- the leader's commit step ---- *)
Definition quorum_holds (s : lstate) (n : N) : Prop :=
  (length (l_voters s) + 1 < 2 * count_ge n (voter_matches s ++ [bmax (l_log s)]))%nat.

Lemma try_commit_sound s :
  l_commit (try_commit s) <> l_commit s ->
  l_commit s < l_commit (try_commit s) /\
  (exists e, lookup (ents (l_log s)) (l_commit (try_commit s)) = Some e /\ e_term e = l_term s) /\
  quorum_holds s (l_commit (try_commit s)).
Proof.
  unfold try_commit, commit_calc.
  destruct (b_majority (l_log s) (l_term s) (l_commit s) (voter_matches s)) as [n|] eqn:Hm; [|intros C; congruence].
  destruct (N.ltb_spec (l_commit s) n) as [Hlt|Hge]; [|intros C; congruence].
  cbn [set_commit l_commit]. intros _.
  destruct (b_majority_sound _ _ _ _ _ Hm) as (_ & He & Hq).
  split; [exact Hlt|]. split; [exact He|].
  unfold quorum_holds. rewrite app_length in Hq. unfold voter_matches in *. rewrite map_length in Hq.
  cbn [length] in Hq. exact Hq.
Qed.

Lemma try_commit_rest s :
  l_log (try_commit s) = l_log s /\ l_term (try_commit s) = l_term s /\ l_voters (try_commit s) = l_voters s /\
  l_match (try_commit s) = l_match s.
Proof. unfold try_commit. destruct (commit_calc s); cbn; repeat split; reflexivity. Qed.

Lemma upd_next_fields s p n :
  l_log (upd_next s p n) = l_log s /\ l_term (upd_next s p n) = l_term s /\ l_commit (upd_next s p n) = l_commit s /\
  l_voters (upd_next s p n) = l_voters s /\ l_match (upd_next s p n) = l_match s.
Proof. unfold upd_next; cbn; repeat split; reflexivity. Qed.

Lemma upd_match_fields s p m :
  l_log (upd_match s p m) = l_log s /\ l_term (upd_match s p m) = l_term s /\ l_commit (upd_match s p m) = l_commit s /\
  l_voters (upd_match s p m) = l_voters s.
Proof. unfold upd_match; destruct (_ <? _); cbn; repeat split; reflexivity. Qed.

(* Main statement: whenever a step of the leader changes its commit index, the new index N is larger,
   and - in a cluster with other voters - entry N carries the leader's current term and a strict
   majority of the voting members (leader included, learners excluded, absent voters counting 0)
   hold a match index >= N *in the state the decision was taken in*. *)
Theorem commit_sound s e :
  let s' := lstep s e in
  l_commit s' <> l_commit s ->
  l_commit s < l_commit s' /\
  (l_voters s <> [] ->
     (exists en, lookup (ents (l_log s')) (l_commit s') = Some en /\ e_term en = l_term s') /\
     quorum_holds s' (l_commit s')).
Proof.
  destruct e as [p rt mi mt|p rt ct ci|d|n]; cbn [lstep]; cbv zeta.
  - destruct (rt <? l_term s); [intros C; congruence|].
    destruct (l_term s <? rt); [cbn; intros C; congruence|].
    set (s2 := upd_match (upd_next s p (N.max (mi + 1) (get1 (l_next s) p))) p mi).
    assert (Hc2 : l_commit s2 = l_commit s).
    { unfold s2. destruct (upd_match_fields (upd_next s p (N.max (mi + 1) (get1 (l_next s) p))) p mi) as (_ & _ & -> & _).
      destruct (upd_next_fields s p (N.max (mi + 1) (get1 (l_next s) p))) as (_ & _ & -> & _). reflexivity. }
    destruct (mem p (l_voters s)); [|intros C; congruence].
    intros Hne. rewrite <- Hc2 in Hne. destruct (try_commit_sound s2 Hne) as (Hlt & He & Hq).
    destruct (try_commit_rest s2) as (Hl & Ht & Hv & Hm).
    split; [rewrite <- Hc2; exact Hlt|]. intros _. split.
    + rewrite Hl, Ht. exact He.
    + unfold quorum_holds in *. unfold voter_matches in *. rewrite Hl, Hv, Hm. exact Hq.
  - destruct (rt <? l_term s); [intros C; congruence|].
    destruct (l_term s <? rt); cbn; intros C; congruence.
  - destruct (l_voters s) as [|v vs] eqn:Hv.
    + destruct (N.ltb_spec (l_commit s) (bmax (l_log s))) as [Hlt|Hge]; cbn; [|intros C; congruence].
      intros _. split; [exact Hlt | intros C; congruence].
    + intros Hne. destruct (try_commit_sound s Hne) as (Hlt & He & Hq).
      destruct (try_commit_rest s) as (Hl & Ht & Hvv & Hm).
      split; [exact Hlt|]. intros _. split.
      * rewrite Hl, Ht. exact He.
      * unfold quorum_holds in *. unfold voter_matches in *. rewrite Hl, Hvv, Hm. exact Hq.
  - destruct (map _ _); cbn; intros C; congruence.
Qed.

(* learners never count: an acknowledgement from a non-voter never moves the commit index *)
Theorem learner_ack_no_commit s p rt mi mt :
  mem p (l_voters s) = false -> l_commit (lstep s (EAckSuccess p rt mi mt)) = l_commit s.
Proof.
  intros Hm. cbn [lstep]. destruct (rt <? l_term s); [reflexivity|].
  destruct (l_term s <? rt); [reflexivity|]. rewrite Hm.
  destruct (upd_match_fields (upd_next s p (N.max (mi + 1) (get1 (l_next s) p))) p mi) as (_ & _ & -> & _).
  destruct (upd_next_fields s p (N.max (mi + 1) (get1 (l_next s) p))) as (_ & _ & -> & _). reflexivity.
Qed.

(* and a learner's match index is not even an input of the decision *)
Lemma voter_matches_ignores_learners s p m :
  mem p (l_voters s) = false ->
  voter_matches {| l_log := l_log s; l_term := l_term s; l_commit := l_commit s; l_voters := l_voters s;
                   l_learners := l_learners s; l_match := aset (l_match s) p m; l_next := l_next s |} = voter_matches s.
Proof.
  intros Hm. unfold voter_matches; cbn [l_match l_voters]. apply map_ext_in. intros v Hv.
  unfold get0, aset.
  assert (Hne : v <> p).
  { intros ->. unfold mem in Hm. rewrite <- not_true_iff_false in Hm. apply Hm.
    apply existsb_exists. exists p. split; [exact Hv | apply N.eqb_refl]. }
  clear Hm Hv. induction (l_match s) as [|[k x] mm IH]; cbn [aupd aget].
  - destruct (N.eqb_spec p v); [congruence | reflexivity].
  - destruct (N.eqb_spec k p) as [->|Hkp]; cbn [aget].
    + destruct (N.eqb_spec p v); [congruence | reflexivity].
    + destruct (k =? v); [reflexivity | exact IH].
Qed.

(* stale / out-of-order acknowledgements: a match index never decreases *)
Lemma aget_aset m k v k' : aget (aset m k v) k' = if k =? k' then Some v else aget m k'.
Proof.
  unfold aset. induction m as [|[a x] m IH]; cbn [aupd aget].
  - reflexivity.
  - destruct (N.eqb_spec a k) as [->|Hak]; cbn [aget].
    + destruct (k =? k'); reflexivity.
    + destruct (N.eqb_spec a k') as [->|Hak'].
      * destruct (N.eqb_spec k k'); [congruence | reflexivity].
      * exact IH.
Qed.

Theorem match_monotone s e p : get0 (l_match s) p <= get0 (l_match (lstep s e)) p.
Proof.
  assert (Hum : forall s q m, get0 (l_match s) p <= get0 (l_match (upd_match s q m)) p).
  { intros s0 q m. unfold upd_match. destruct (N.ltb_spec (get0 (l_match s0) q) m) as [Hlt|Hge]; [|lia].
    cbn [l_match]. unfold get0 at 2. rewrite aget_aset. destruct (N.eqb_spec q p) as [->|]; [lia|].
    unfold get0. lia. }
  destruct e as [q rt mi mt|q rt ct ci|d|n]; cbn [lstep].
  - destruct (rt <? l_term s); [lia|]. destruct (l_term s <? rt); [cbn; lia|].
    set (s1 := upd_next s q (N.max (mi + 1) (get1 (l_next s) q))).
    assert (H1 : l_match s1 = l_match s) by reflexivity.
    pose proof (Hum s1 q mi) as H2. rewrite H1 in H2.
    destruct (mem q (l_voters s)); [|exact H2].
    destruct (try_commit_rest (upd_match s1 q mi)) as (_ & _ & _ & ->). exact H2.
  - destruct (rt <? l_term s); [lia|]. destruct (l_term s <? rt); cbn; lia.
  - destruct (l_voters s); [destruct (_ <? _); cbn; lia|].
    destruct (try_commit_rest s) as (_ & _ & _ & ->). lia.
  - destruct (map _ _); cbn; lia.
Qed.

(* Non-vacuity: a three-voter leader (self + 2 peers) with a 3-entry log of its term commits
   nothing on its own flush, and commits index 3 after one voter acknowledged it. *)
Definition demo : lstate :=
  init_peers {| l_log := b_append buf0 [{| e_idx := 1; e_term := 1; e_pl := 0 |}; {| e_idx := 2; e_term := 2; e_pl := 0 |};
                                      {| e_idx := 3; e_term := 2; e_pl := 0 |}];
               l_term := 2; l_commit := 0; l_voters := [2; 3]; l_learners := [4]; l_match := []; l_next := [] |}.
Example demo_no_commit_alone : l_commit (lstep demo (EFlushed 3)) = 0.
Proof. vm_compute. reflexivity. Qed.
Example demo_learner_ack : l_commit (lstep (lstep demo (EFlushed 3)) (EAckSuccess 4 2 3 2)) = 0.
Proof. vm_compute. reflexivity. Qed.
Example demo_commit_with_majority : l_commit (lstep demo (EAckSuccess 2 2 3 2)) = 3.
Proof. vm_compute. reflexivity. Qed.
Example demo_old_term_entry_not_committed : l_commit (lstep demo (EAckSuccess 2 2 1 1)) = 0.
Proof. vm_compute. reflexivity. Qed.
