(* C15 on the REPAIRED models DE.SMCrashFix: with the applied index written atomically with the data (RocksDB: same
   write batch; File: atomic file replacement + replay_wal advancing last_applied to the highest replayed index) the
   full statement of C15 holds for every op sequence and every crash point. This backs the suggested fixes; it says
   nothing about the code that exists. *)
From Coq Require Import NArith List Bool Lia Arith.
From DE Require Import Val SMCrash SMCrashFix proofs.C15.
Import ListNotations.
Open Scope N_scope.

Definition exact (rec : kv * N) (acked : list cmd) : Prop :=
  keq (fst rec) (apply_all acked kv0) /\ snd rec = N.of_nat (length acked).

Lemma exact_reapply rec acked rest :
  exact rec acked -> keq (reapply (snd rec) (acked ++ rest) (fst rec)) (apply_all (acked ++ rest) kv0).
Proof.
  intros [Hs Hla]. apply reapply_ok; [exact Hs | lia |].
  rewrite Hla, Nat2N.id, skipn_all. reflexivity.
Qed.

(* ================================================================ RocksDB, repaired *)
Definition rinv_fx (st : rstate) (done : list cmd) : Prop :=
  keq (r_kv (r_disk st)) (apply_all done kv0) /\ r_la st = N.of_nat (length done) /\
  la_of (r_meta (r_disk st)) = r_la st.

Lemma rinv_fx_run_op st done o : rinv_fx st done -> rinv_fx (rrun_op_fx st o) (done_after done o).
Proof.
  intros (Hkv & Hla & Hmeta). destruct o as [b| |]; unfold rinv_fx;
    cbn [rrun_op_fx rrun_op r_disk r_kv r_meta r_la done_after la_of].
  - repeat split.
    + rewrite apply_all_app. apply apply_all_keq. exact Hkv.
    + rewrite app_length, Nat2N.inj_add. lia.
  - repeat split; assumption.
  - repeat split; assumption.
Qed.

Lemma rpoints_fx_ok ops : forall st done p,
  rinv_fx st done -> In p (rpoints_fx st done ops) -> exact (rrecover (rp_disk p)) (rp_acked p).
Proof.
  induction ops as [|o ops IH]; intros st done p Hinv Hin; [destruct Hin|].
  cbn [rpoints_fx] in Hin. destruct Hin as [<-|Hin].
  - destruct (rinv_fx_run_op st done o Hinv) as (Hkv & Hla & Hmeta).
    unfold exact, rrecover. cbn [rp_disk rp_acked fst snd]. split; [exact Hkv|].
    fold (la_of (r_meta (r_disk (rrun_op_fx st o)))). lia.
  - eapply IH; [apply rinv_fx_run_op; exact Hinv | exact Hin].
Qed.

Theorem rocks_fixed_exact :
  forall (ops : list op) (p : rpoint),
    In p (rocks_crash_points_fx ops) ->
    (forall k, fst (rrecover (rp_disk p)) k = apply_all (rp_acked p) kv0 k) /\
    snd (rrecover (rp_disk p)) = N.of_nat (length (rp_acked p)) /\
    forall rest k, reapply (snd (rrecover (rp_disk p))) (rp_acked p ++ rest) (fst (rrecover (rp_disk p))) k
                   = apply_all (rp_acked p ++ rest) kv0 k.
Proof.
  intros ops p Hin.
  assert (H : exact (rrecover (rp_disk p)) (rp_acked p)).
  { destruct Hin as [<-|Hin].
    - split; [intros k; reflexivity | reflexivity].
    - apply (rpoints_fx_ok ops rstate0 [] p); [|exact Hin]. repeat split; cbn; try apply keq_refl; reflexivity. }
  split; [exact (proj1 H) | split; [exact (proj2 H)|]].
  intros rest. apply exact_reapply. exact H.
Qed.

(* ================================================================ File, repaired *)
Lemma map_snd_number l : forall n, map snd (number n l) = l.
Proof. induction l as [|r l IH]; intros n; [reflexivity|]. cbn [number map snd]. f_equal. apply IH. Qed.

Lemma hi_fold l : forall m, fold_left (fun m ir => N.max m (fst ir)) l m = N.max m (wal_hi l).
Proof.
  unfold wal_hi. induction l as [|[i r] l IH]; intros m; cbn [fold_left fst]; [lia|].
  rewrite IH, (IH (N.max 0 i)). lia.
Qed.
Lemma wal_hi_app a b : wal_hi (a ++ b) = N.max (wal_hi a) (wal_hi b).
Proof. unfold wal_hi at 1. rewrite fold_left_app. fold (wal_hi a). apply hi_fold. Qed.
Lemma wal_hi_number l : forall n, N.max n (wal_hi (number (n + 1) l)) = n + N.of_nat (length l).
Proof.
  induction l as [|r l IH]; intros n; [cbn; lia|].
  cbn [number length]. unfold wal_hi. cbn [fold_left fst]. rewrite hi_fold.
  pose proof (IH (n + 1)) as H. rewrite Nat2N.inj_succ. lia.
Qed.
Lemma wal_of_length cs : forall s, length (wal_of s cs) = length cs.
Proof. induction cs as [|c cs IH]; intros s; [reflexivity|]. cbn [wal_of length]. f_equal. apply IH. Qed.

Definition xinv (st : fstate_fx) (done : list cmd) : Prop :=
  keq (x_kv st) (apply_all done kv0) /\ x_la st = N.of_nat (length done) /\
  keq (replay (map snd (x_wal (x_disk st))) (x_data (x_disk st))) (x_kv st) /\
  N.max (la_of (x_meta (x_disk st))) (wal_hi (x_wal (x_disk st))) = x_la st.

Lemma xwal_point st done b j :
  xinv st done -> (j <= length b)%nat ->
  exact (xrecover (x_disk (xstep st (XWal b j)))) (done ++ firstn j b).
Proof.
  intros (Hkv & Hla & Hdisk & Hmax) Hj. unfold exact, xrecover.
  cbn [xstep xset x_disk x_wal x_data x_meta fst snd]. split.
  - rewrite map_app, map_snd_number, replay_app, firstn_wal_of, apply_all_app.
    eapply keq_trans; [apply replay_keq; exact Hdisk|].
    rewrite replay_wal_of. apply apply_all_keq. exact Hkv.
  - fold (la_of (x_meta (x_disk st))). rewrite wal_hi_app, N.max_assoc, Hmax, wal_hi_number.
    rewrite firstn_length, wal_of_length, app_length, firstn_length, Nat2N.inj_add. lia.
Qed.

Lemma xinv_self st done : xinv st done -> keq (replay (map snd (x_wal (x_disk st))) (x_kv st)) (x_kv st).
Proof.
  intros (Hkv & Hla & Hdisk & Hmax).
  eapply keq_trans; [|exact Hdisk]. apply replay_absorb. apply keq_sym. exact Hdisk.
Qed.

Lemma xinv_run_op st done o : xinv st done -> xinv (xrun_op st o) (done_after done o).
Proof.
  intros Hinv. pose proof Hinv as (Hkv & Hla & Hdisk & Hmax). pose proof (xinv_self st done Hinv) as Hself.
  destruct o as [b| |].
  - destruct (xwal_point st done b (length b) Hinv (le_n _)) as [Hd Hl].
    unfold xrecover in Hd, Hl. cbn [xstep xset x_disk x_wal x_data x_meta fst snd] in Hd, Hl. rewrite firstn_all in Hd, Hl.
    unfold xinv, xrun_op. cbn [xsteps_of fold_left xstep xset x_disk x_kv x_la x_wal x_data x_meta done_after].
    repeat split.
    + rewrite apply_all_app. apply apply_all_keq. exact Hkv.
    + rewrite app_length, Nat2N.inj_add. lia.
    + eapply keq_trans; [exact Hd|]. rewrite apply_all_app. apply keq_sym. apply apply_all_keq. exact Hkv.
    + fold (la_of (x_meta (x_disk st))). fold (la_of (x_meta (x_disk st))) in Hl. rewrite Hl, app_length, Nat2N.inj_add. lia.
  - unfold xinv, xrun_op. cbn [xsteps_of fold_left xstep xset x_disk x_kv x_la x_wal x_data x_meta done_after la_of map replay].
    repeat split; try assumption; try apply keq_refl. cbn. lia.
  - unfold xinv, xrun_op. cbn [xsteps_of fold_left xstep xset x_disk x_kv x_la x_wal x_data x_meta done_after la_of].
    repeat split; try assumption. lia.
Qed.

Lemma xpoints_op_ok st done o p :
  xinv st done -> In p (xpoints_op st done o) -> exact (xrecover (xp_disk p)) (xp_acked p).
Proof.
  intros Hinv Hin. pose proof Hinv as (Hkv & Hla & Hdisk & Hmax). pose proof (xinv_self st done Hinv) as Hself.
  assert (Hdk : keq (replay (map snd (x_wal (x_disk st))) (x_data (x_disk st))) (apply_all done kv0)).
  { eapply keq_trans; [exact Hdisk | exact Hkv]. }
  destruct o as [b| |].
  - cbn [xpoints_op] in Hin. apply in_map_iff in Hin. destruct Hin as (j & <- & Hj). apply in_seq in Hj.
    cbn [xp_disk xp_acked]. apply xwal_point; [exact Hinv | lia].
  - cbn [xpoints_op map In] in Hin.
    destruct Hin as [<-|[<-|[<-|[]]]]; unfold exact, xrecover;
      cbn [xp_disk xp_acked xstep xset x_disk x_kv x_la x_wal x_data x_meta fst snd map replay fold_left]; split;
      try exact Hkv; try (eapply keq_trans; [exact Hself | exact Hkv]);
      fold (la_of (x_meta (x_disk st))); cbn [wal_hi fold_left]; lia.
  - cbn [xpoints_op map In] in Hin.
    destruct Hin as [<-|[<-|[<-|[]]]]; unfold exact, xrecover;
      cbn [xp_disk xp_acked xstep xset x_disk x_kv x_la x_wal x_data x_meta fst snd]; split;
      try exact Hdk; try (eapply keq_trans; [exact Hself | exact Hkv]); lia.
Qed.

Lemma xpoints_ok ops : forall st done p,
  xinv st done -> In p (xpoints st done ops) -> exact (xrecover (xp_disk p)) (xp_acked p).
Proof.
  induction ops as [|o ops IH]; intros st done p Hinv Hin; [destruct Hin|].
  cbn [xpoints] in Hin. apply in_app_or in Hin. destruct Hin as [Hin|Hin].
  - eapply xpoints_op_ok; eassumption.
  - eapply IH; [apply xinv_run_op; exact Hinv | exact Hin].
Qed.

Theorem file_fixed_exact :
  forall (ops : list op) (p : xpoint),
    In p (file_crash_points_fx ops) ->
    (forall k, fst (xrecover (xp_disk p)) k = apply_all (xp_acked p) kv0 k) /\
    snd (xrecover (xp_disk p)) = N.of_nat (length (xp_acked p)) /\
    forall k, reapply (snd (xrecover (xp_disk p))) (xp_acked p ++ xp_rest p) (fst (xrecover (xp_disk p))) k
              = apply_all (xp_acked p ++ xp_rest p) kv0 k.
Proof.
  intros ops p Hin.
  assert (H : exact (xrecover (xp_disk p)) (xp_acked p)).
  { destruct Hin as [<-|Hin].
    - split; [intros k; reflexivity | reflexivity].
    - apply (xpoints_ok ops fstate_fx0 [] p); [|exact Hin]. repeat split; cbn; try apply keq_refl; reflexivity. }
  split; [exact (proj1 H) | split; [exact (proj2 H)|]].
  apply exact_reapply. exact H.
Qed.

(* non-vacuity: the witness of C15_file_reapply_refuted / C15_rocks_reapply_refuted on the repaired models *)
Example fixed_witness_points :
  length (file_crash_points_fx w_cas_ops) = 7%nat /\ length (rocks_crash_points_fx w_cas_ops) = 4%nat /\
  (let p := nth 6 (file_crash_points_fx w_cas_ops) {| xp_disk := x_disk fstate_fx0; xp_acked := []; xp_rest := [] |} in
   snd (xrecover (xp_disk p)) = 3 /\ fst (xrecover (xp_disk p)) 1 = Some 2) /\
  (let p := nth 3 (rocks_crash_points_fx w_cas_ops) {| rp_disk := r_disk rstate0; rp_acked := [] |} in
   snd (rrecover (rp_disk p)) = 3 /\ fst (rrecover (rp_disk p)) 1 = Some 2).
Proof. vm_compute. repeat split; reflexivity. Qed.
