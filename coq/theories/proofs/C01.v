(* C01 — election safety over histories: at most one leader per term.
   Abstract argument (pigeonhole on majorities of a fixed voter universe) plus the executable
   checkers run on implementation traces, with their soundness. Plain lists of N; no model dependency. *)
From Coq Require Import NArith List Bool Arith Lia.
Import ListNotations.

Definition grants := list (N * N * N).   (* voter, term, candidate *)
Definition leaders := list (N * N).      (* node, term *)

(* ---- pigeonhole: two duplicate-free sublists of U whose lengths sum to more than |U| meet ---- *)
Lemma pigeonhole : forall (l1 l2 U : list N),
  NoDup l1 -> NoDup l2 -> incl l1 U -> incl l2 U ->
  length U < length l1 + length l2 -> exists x, In x l1 /\ In x l2.
Proof.
  induction l1 as [|a l1 IH]; intros l2 U Hnd1 Hnd2 Hin1 Hin2 Hlen.
  - cbn [length] in Hlen. pose proof (NoDup_incl_length Hnd2 Hin2) as Hle. lia.
  - destruct (in_dec N.eq_dec a l2) as [Hal2 | Hnal2].
    + exists a. split; [left; reflexivity | exact Hal2].
    + inversion Hnd1 as [|a' l1' Hnotin Hnd1' Heq]; subst a' l1'.
      assert (Hnd2' : NoDup (a :: l2)) by (constructor; assumption).
      assert (Hin1' : incl l1 U) by (intros x Hx; apply Hin1; right; exact Hx).
      assert (Hin2' : incl (a :: l2) U).
      { intros x [Hx | Hx]; [subst x; apply Hin1; left; reflexivity | apply Hin2; exact Hx]. }
      assert (Hlen' : length U < length l1 + length (a :: l2)) by (cbn [length] in *; lia).
      destruct (IH (a :: l2) U Hnd1' Hnd2' Hin1' Hin2' Hlen') as [x [Hx1 Hx2]].
      destruct Hx2 as [Hx2 | Hx2].
      * subst x. contradiction.
      * exists x. split; [right; exact Hx1 | exact Hx2].
Qed.

Section ElectionSafety.
  Variable U : list N.                 (* the voters *)
  Hypothesis U_nodup : NoDup U.        (* not needed by the argument below; kept as the standing assumption *)

  Definition vote_once (G : grants) : Prop :=
    forall v t c1 c2, In (v, t, c1) G -> In (v, t, c2) G -> c1 = c2.

  Definition backed (G : grants) (Ls : leaders) : Prop :=
    forall l t, In (l, t) Ls ->
      exists vs, NoDup vs /\ incl vs U /\ length U < 2 * length vs /\ forall v, In v vs -> In (v, t, l) G.

  Theorem election_safety : forall G Ls, vote_once G -> backed G Ls ->
    forall a b t, In (a, t) Ls -> In (b, t) Ls -> a = b.
  Proof.
    intros G Ls Hvo Hbk a b t Ha Hb.
    destruct (Hbk a t Ha) as [va [Hnda [Hinca [Hlena Hga]]]].
    destruct (Hbk b t Hb) as [vb [Hndb [Hincb [Hlenb Hgb]]]].
    assert (Hlen : length U < length va + length vb) by lia.
    destruct (pigeonhole va vb U Hnda Hndb Hinca Hincb Hlen) as [v [Hva Hvb]].
    exact (Hvo v t a b (Hga v Hva) (Hgb v Hvb)).
  Qed.
End ElectionSafety.

(* ---- executable checkers ---- *)
Definition same_vt (x y : N * N * N) : bool :=
  let '(v1, t1, _) := x in let '(v2, t2, _) := y in (v1 =? v2)%N && (t1 =? t2)%N.
Definition cand_of (x : N * N * N) : N := let '(_, _, c) := x in c.

Definition vote_once_b (G : grants) : bool :=
  forallb (fun x => forallb (fun y => negb (same_vt x y) || (cand_of x =? cand_of y)%N) G) G.

Definition granted_b (G : grants) (t l v : N) : bool :=
  existsb (fun g => let '(v', t', c') := g in (v' =? v)%N && (t' =? t)%N && (c' =? l)%N) G.

(* the voters of U (without repetition) that granted l their vote in term t *)
Definition backers (U : list N) (G : grants) (l t : N) : list N :=
  filter (granted_b G t l) (nodup N.eq_dec U).

Definition backed_b (U : list N) (G : grants) (Ls : leaders) : bool :=
  forallb (fun lt => let '(l, t) := lt in length U <? 2 * length (backers U G l t)) Ls.

Lemma vote_once_b_sound : forall G, vote_once_b G = true -> vote_once G.
Proof.
  intros G Hb v t c1 c2 H1 H2.
  unfold vote_once_b in Hb. rewrite forallb_forall in Hb.
  pose proof (Hb _ H1) as Hb1. cbv beta in Hb1. rewrite forallb_forall in Hb1.
  pose proof (Hb1 _ H2) as Hb2. cbv beta in Hb2.
  unfold same_vt, cand_of in Hb2.
  rewrite !N.eqb_refl in Hb2. cbn [andb negb orb] in Hb2.
  apply N.eqb_eq in Hb2. exact Hb2.
Qed.

Lemma granted_b_sound : forall G t l v, granted_b G t l v = true -> In (v, t, l) G.
Proof.
  intros G t l v Hg. unfold granted_b in Hg. apply existsb_exists in Hg.
  destruct Hg as [[[v' t'] c'] [Hin Heq]].
  apply andb_true_iff in Heq. destruct Heq as [Heq Hc].
  apply andb_true_iff in Heq. destruct Heq as [Hv Ht].
  apply N.eqb_eq in Hv. apply N.eqb_eq in Ht. apply N.eqb_eq in Hc. subst v' t' c'. exact Hin.
Qed.

Lemma backed_b_sound : forall U G Ls, backed_b U G Ls = true -> backed U G Ls.
Proof.
  intros U G Ls Hb l t Hin.
  unfold backed_b in Hb. rewrite forallb_forall in Hb.
  pose proof (Hb _ Hin) as Hlt. cbv beta iota in Hlt. apply Nat.ltb_lt in Hlt.
  exists (backers U G l t). unfold backers in *.
  split; [apply NoDup_filter; apply NoDup_nodup |].
  split.
  - intros x Hx. apply filter_In in Hx. destruct Hx as [Hx _]. apply nodup_In in Hx. exact Hx.
  - split; [exact Hlt |].
    intros v Hv. apply filter_In in Hv. destruct Hv as [_ Hv]. apply granted_b_sound. exact Hv.
Qed.

Corollary trace_safe : forall U G Ls, NoDup U -> vote_once_b G = true -> backed_b U G Ls = true ->
  forall a b t, In (a, t) Ls -> In (b, t) Ls -> a = b.
Proof.
  intros U G Ls _ Hvo Hbk a b t Ha Hb.
  exact (election_safety U G Ls (vote_once_b_sound G Hvo) (backed_b_sound U G Ls Hbk) a b t Ha Hb).
Qed.

(* a 3-node history: term 2 won by node 1 (votes of 1 and 2; 3 voted for itself),
   term 3 won by node 3 (votes of 3 and 2; 1 voted for itself) *)
Definition ex_U : list N := [1; 2; 3]%N.
Definition ex_G : grants := [(1,2,1); (2,2,1); (3,2,3); (3,3,3); (2,3,3); (1,3,1)]%N.
Definition ex_Ls : leaders := [(1,2); (3,3)]%N.

Example ex_checkers_true : vote_once_b ex_G = true /\ backed_b ex_U ex_G ex_Ls = true.
Proof. split; vm_compute; reflexivity. Qed.

Example ex_safe : forall a b t, In (a, t) ex_Ls -> In (b, t) ex_Ls -> a = b.
Proof.
  apply (trace_safe ex_U ex_G ex_Ls).
  - repeat constructor; cbn [In]; intros H; repeat destruct H as [H | H]; try discriminate H; exact H.
  - vm_compute; reflexivity.
  - vm_compute; reflexivity.
Qed.

(* the checkers do reject: node 2 voting for both 1 and 3 in term 2 *)
Example ex_double_vote_rejected : vote_once_b ((2,2,3)%N :: ex_G) = false.
Proof. vm_compute; reflexivity. Qed.
(* and a leader without a majority *)
Example ex_unbacked_rejected : backed_b ex_U ex_G [(2,3)%N] = false.
Proof. vm_compute; reflexivity. Qed.

Print Assumptions election_safety.
Print Assumptions trace_safe.
