(* C12 — lease reads are served only under a valid leader lease.
   (a) configuration: reuse of C34 (validation => lease + rtt/2 < election_timeout_min, in N, no overflow artefact);
   (b) data-structure laws of the packed ReadLease cell (DE.Lease part 1);
   (c) timed protocol (DE.Lease part 2): the lease is safe for ALL event sequences when the three protections are
       present; each of them is necessary (one witness per flag); the code has none of the three. *)
From Coq Require Import NArith List Bool Lia Arith.
From DE Require Import Val Lease.
Import ListNotations.
Open Scope N_scope.

(* ------------------------------------------------------------------ (b) ReadLease *)
Lemma P48_pos : P48 <> 0. Proof. discriminate. Qed.
Lemma P16_pos : P16 <> 0. Proof. discriminate. Qed.

Lemma pack_some t d : d <= M48 -> rl_pack t d = Some ((t mod P16) * P48 + d).
Proof. intros Hd. unfold rl_pack. destruct (N.leb_spec d M48) as [_|Hc]; [reflexivity | lia]. Qed.

Lemma pack_none t d : M48 < d -> rl_pack t d = None.
Proof. intros Hd. unfold rl_pack. destruct (N.leb_spec d M48) as [Hc|_]; [lia | reflexivity]. Qed.

Lemma unpack_pack t d p : rl_pack t d = Some p -> rl_unpack p = (t mod P16, d).
Proof.
  unfold rl_pack. destruct (N.leb_spec d M48) as [Hd|Hd]; [|discriminate].
  intros Hp. injection Hp as <-. unfold rl_unpack.
  assert (Hlt : d < P48) by (unfold M48, P48 in *; lia).
  f_equal.
  - symmetry. apply (N.div_unique _ P48 _ d); [exact Hlt | lia].
  - symmetry. apply (N.mod_unique _ P48 (t mod P16) d); [exact Hlt | lia].
Qed.

(* the packed value fits the 64-bit cell *)
Lemma pack_fits t d p : rl_pack t d = Some p -> p < 18446744073709551616.
Proof.
  unfold rl_pack. destruct (N.leb_spec d M48) as [Hd|Hd]; [|discriminate].
  intros Hp. injection Hp as <-.
  pose proof (N.mod_upper_bound t P16 P16_pos) as Hm. unfold M48, P48, P16 in *. nia.
Qed.

(* the 16-bit term wrap, stated: terms that differ by 65536 are indistinguishable *)
Lemma pack_term_wrap t d : rl_pack (t + P16) d = rl_pack t d.
Proof.
  unfold rl_pack. replace (t + P16) with (t + 1 * P16) by lia.
  rewrite N.mod_add by exact P16_pos. reflexivity.
Qed.
Lemma valid_for_term_wrap s t now : rl_is_valid_for s (t + P16) now = rl_is_valid_for s t now.
Proof.
  unfold rl_is_valid_for. replace (t + P16) with (t + 1 * P16) by lia.
  rewrite N.mod_add by exact P16_pos. reflexivity.
Qed.

Lemma revoke_invalidates s now t :
  rl_is_valid (fst (rl_step s RRevoke)) now = false /\ rl_is_valid_for (fst (rl_step s RRevoke)) t now = false.
Proof.
  cbn [rl_step fst]. unfold rl_is_valid, rl_is_valid_for. rewrite N.mod_0_l by exact P48_pos.
  destruct (N.ltb_spec now 0) as [Hc|_]; [lia|]. split; [reflexivity | apply andb_false_r].
Qed.

Lemma invalidate_invalidates s t now t' :
  rl_is_valid (fst (rl_step s (RInvalidate t))) now = false /\ rl_is_valid_for (fst (rl_step s (RInvalidate t))) t' now = false.
Proof.
  cbn [rl_step]. rewrite pack_some by (unfold M48; lia). cbn [fst].
  unfold rl_is_valid, rl_is_valid_for. rewrite N.add_0_r, N.mod_mul by exact P48_pos.
  destruct (N.ltb_spec now 0) as [Hc|_]; [lia|]. split; [reflexivity | apply andb_false_r].
Qed.

Lemma renew_spec s t d now t' :
  d <= M48 ->
  rl_is_valid (fst (rl_step s (RRenew t d))) now = (now <? d) /\
  rl_is_valid_for (fst (rl_step s (RRenew t d))) t' now = ((t mod P16 =? t' mod P16) && (now <? d)).
Proof.
  intros Hd. cbn [rl_step]. pose proof (unpack_pack t d _ (pack_some t d Hd)) as Hu.
  rewrite pack_some by exact Hd. cbn [fst]. unfold rl_unpack in Hu. injection Hu as Hq Hr.
  unfold rl_is_valid, rl_is_valid_for. rewrite Hq, Hr. split; reflexivity.
Qed.

(* a renew whose deadline does not fit 48 bits panics and leaves the cell unchanged *)
Lemma renew_overflow_panics s t d : M48 < d -> rl_step s (RRenew t d) = (s, 3).
Proof. intros Hd. cbn [rl_step]. rewrite pack_none by exact Hd. reflexivity. Qed.

(* validity is monotone in time: once the clock passed the deadline the cell stays invalid *)
Lemma valid_antitone s n1 n2 : n1 <= n2 -> rl_is_valid s n2 = true -> rl_is_valid s n1 = true.
Proof.
  unfold rl_is_valid. intros Hle Hv. apply N.ltb_lt in Hv. apply N.ltb_lt. lia.
Qed.
Lemma valid_for_implies_valid s t now : rl_is_valid_for s t now = true -> rl_is_valid s now = true.
Proof. unfold rl_is_valid_for, rl_is_valid. intros Hv. apply andb_true_iff in Hv. tauto. Qed.

(* over ALL op sequences: after a revoke, the cell is invalid until a renew is executed *)
Definition is_renew (o : rl_op) : bool := match o with RRenew _ _ => true | _ => false end.
Lemma no_renew_stays_invalid ops : forall s,
  s mod P48 = 0 -> forallb (fun o => negb (is_renew o)) ops = true -> (rl_run ops s) mod P48 = 0.
Proof.
  induction ops as [|o ops IH]; intros s Hs Hall; [exact Hs|].
  cbn [forallb] in Hall. apply andb_true_iff in Hall. destruct Hall as [Ho Hall].
  unfold rl_run in *. cbn [fold_left]. apply IH; [|exact Hall].
  destruct o as [t d| |t|n|t n]; cbn [rl_step fst]; try exact Hs.
  - discriminate Ho.
  - apply N.mod_0_l. exact P48_pos.
  - rewrite pack_some by (unfold M48; lia). cbn [fst]. rewrite N.add_0_r. apply N.mod_mul. exact P48_pos.
Qed.
Lemma revoke_until_renew ops s now :
  forallb (fun o => negb (is_renew o)) ops = true -> rl_is_valid (rl_run (RRevoke :: ops) s) now = false.
Proof.
  intros Hall. unfold rl_run. cbn [fold_left rl_step fst].
  pose proof (no_renew_stays_invalid ops 0 (N.mod_0_l P48 P48_pos) Hall) as Hz. unfold rl_run in Hz.
  unfold rl_is_valid. rewrite Hz. destruct (N.ltb_spec now 0) as [Hc|_]; [lia | reflexivity].
Qed.

Example ds_nonvacuous :
  rl_is_valid_for (rl_run [RRenew 7 1000] 0) 7 999 = true /\ rl_is_valid (rl_run [RRenew 7 1000; RRevoke] 0) 0 = false /\
  rl_is_valid_for (rl_run [RRenew 7 1000] 0) (7 + 65536) 999 = true.
Proof. vm_compute. repeat split. Qed.

(* ------------------------------------------------------------------ (c) timed protocol *)
Lemma memN_In x l : memN x l = true -> In x l.
Proof.
  unfold memN. intros Hm. apply existsb_exists in Hm. destruct Hm as (y & Hy & He).
  apply N.eqb_eq in He. subst y. exact Hy.
Qed.

Lemma cnt_mono (p q : N -> bool) l : (forall x, p x = true -> q x = true) -> (cnt p l <= cnt q l)%nat.
Proof.
  intros Hpq. unfold cnt. induction l as [|a l IH]; [apply le_n|].
  cbn [filter]. destruct (p a) eqn:Hp.
  - rewrite (Hpq a Hp). cbn [length]. lia.
  - destruct (q a); cbn [length]; lia.
Qed.

Lemma cnt_pigeon (p q : N -> bool) l :
  (length l < cnt p l + cnt q l)%nat -> exists x, In x l /\ p x = true /\ q x = true.
Proof.
  unfold cnt. induction l as [|a l IH]; cbn [filter length]; intros Hlt; [lia|].
  destruct (p a) eqn:Hp; destruct (q a) eqn:Hq; cbn [length] in Hlt.
  - exists a. split; [left; reflexivity | split; assumption].
  - destruct IH as (x & Hx & Hpx & Hqx); [lia|]. exists x. split; [right; exact Hx | split; assumption].
  - destruct IH as (x & Hx & Hpx & Hqx); [lia|]. exists x. split; [right; exact Hx | split; assumption].
  - destruct IH as (x & Hx & Hpx & Hqx); [lia|]. exists x. split; [right; exact Hx | split; assumption].
Qed.

Lemma majority_mono c k k' : (k <= k')%nat -> majority c k = true -> majority c k' = true.
Proof. unfold majority. intros Hle Hm. apply Nat.ltb_lt in Hm. apply Nat.ltb_lt. lia. Qed.

Lemma nth_le_all (l : list N) n k : Forall (fun t => t <= n) l -> nth k l 0 <= n.
Proof.
  intros Hall. destruct (nth_in_or_default k l 0) as [Hin|Hd].
  - rewrite Forall_forall in Hall. apply Hall. exact Hin.
  - rewrite Hd. lia.
Qed.

Record Inv (c : cfg) (s : pst) : Prop := {
  iA : Forall (fun t => t <= now s) (sends s);
  iB : forall f k, In k (got s f) -> (N.to_nat k < length (sends s))%nat /\ nth (N.to_nat k) (sends s) 0 <= timer s f;
  iC : forall f, timer s f <= now s;
  iD : forall f, voted s f = true -> timer s f + c_emin c <= now s;
  iE : forall f, ack_send s f <= timer s f;
  iF : dl s = 0 \/ exists a, dl s <= a + c_lease c /\
                            majority c (cnt (fun g => a <=? ack_send s g) (c_voters c) + 1) = true;
  iG : (lvoted s = true -> stepped s = true) /\ (stepped s = true -> dl s = 0);
  iH : won s = true -> majority c (cnt (voted s) (c_voters c) + (if lvoted s then 1 else 0)) = true
}.

Lemma inv_init c : Inv c p0.
Proof.
  constructor; cbn.
  - constructor.
  - intros f k Hin. contradiction.
  - intros f. lia.
  - intros f Hv. discriminate.
  - intros f. lia.
  - left. reflexivity.
  - split; intros Hx; [discriminate | reflexivity].
  - intros Hw. discriminate.
Qed.

Lemma inv_step c s e : ideal c -> Inv c s -> Inv c (pstep c s e).
Proof.
  intros (Hw & Ha & Hf & Hlt) HI0. pose proof HI0 as HI. destruct HI as [A B C D E F G H].
  destruct e as [d| |f k|f k|f| | | |]; cbn [pstep].
  - (* Tick *)
    constructor; cbn.
    + eapply Forall_impl; [|exact A]. cbn. intros t Ht. lia.
    + exact B.
    + intros f. specialize (C f). lia.
    + intros f Hv. specialize (D f Hv). lia.
    + exact E.
    + exact F.
    + exact G.
    + exact H.
  - (* Send *)
    destruct (stepped s) eqn:Hst; [exact HI0|].
    constructor; cbn.
    + apply Forall_app. split; [exact A|]. constructor; [lia | constructor].
    + intros f k Hin. destruct (B f k Hin) as [Hk Hn]. split.
      * rewrite app_length. cbn. lia.
      * rewrite app_nth1 by exact Hk. exact Hn.
    + exact C.
    + exact D.
    + exact E.
    + exact F.
    + exact G.
    + exact H.
  - (* Recv *)
    destruct (memN f (c_voters c) && Nat.ltb (N.to_nat k) (length (sends s)) && negb (voted s f)) eqn:Hg;
      [|exact HI0].
    apply andb_true_iff in Hg. destruct Hg as [Hg Hnv]. apply andb_true_iff in Hg. destruct Hg as [Hmem Hk].
    apply Nat.ltb_lt in Hk. apply negb_true_iff in Hnv.
    constructor; cbn.
    + exact A.
    + intros x k' Hin. unfold upd in *. destruct (N.eqb_spec x f) as [->|Hne].
      * destruct Hin as [<-|Hin].
        -- split; [exact Hk | apply nth_le_all; exact A].
        -- destruct (B f k' Hin) as [Hk' Hn]. split; [exact Hk'|]. specialize (C f). lia.
      * apply B. exact Hin.
    + intros x. unfold upd. destruct (N.eqb_spec x f) as [->|Hne]; [lia | apply C].
    + intros x Hv. unfold upd. destruct (N.eqb_spec x f) as [->|Hne]; [congruence | apply D; exact Hv].
    + intros x. unfold upd. destruct (N.eqb_spec x f) as [->|Hne]; [specialize (E f); specialize (C f); lia | apply E].
    + exact F.
    + exact G.
    + exact H.
  - (* Ack *)
    destruct (memN f (c_voters c) && memN k (got s f) && negb (stepped s)) eqn:Hg; [|exact HI0].
    apply andb_true_iff in Hg. destruct Hg as [Hg Hns]. apply andb_true_iff in Hg. destruct Hg as [Hmem Hgot].
    apply negb_true_iff in Hns. apply memN_In in Hgot. destruct (B f k Hgot) as [Hk Hn].
    rewrite Hf, Ha.
    assert (Hmono : forall a0 x, (a0 <=? ack_send s x) = true ->
                    (a0 <=? upd (ack_send s) f (N.max (ack_send s f) (nth (N.to_nat k) (sends s) 0)) x) = true).
    { intros a0 x Hx. apply N.leb_le in Hx. apply N.leb_le. unfold upd.
      destruct (N.eqb_spec x f) as [->|Hne]; lia. }
    constructor; cbn.
    + exact A.
    + exact B.
    + exact C.
    + exact D.
    + intros x. unfold upd. destruct (N.eqb_spec x f) as [->|Hne]; [specialize (E f); lia | apply E].
    + match goal with |- context [if ?q then _ else _] => destruct q eqn:Hq end.
      * right. exists (nth (N.to_nat k) (sends s) 0). split; [lia | exact Hq].
      * destruct F as [F0|(a0 & Hd & Hm)]; [left; exact F0|]. right. exists a0. split; [exact Hd|].
        eapply majority_mono; [|exact Hm]. apply Nat.add_le_mono_r. apply cnt_mono. intros x Hx. apply Hmono. exact Hx.
    + split; [apply G | intros Hx; congruence].
    + exact H.
  - (* Vote *)
    destruct (memN f (c_voters c) && (negb (c_withhold c) && negb (f =? c_chal c) || (timer s f + c_emin c <=? now s))) eqn:Hg;
      [|exact HI0].
    apply andb_true_iff in Hg. destruct Hg as [Hmem Hg]. rewrite Hw in Hg. cbn in Hg. apply N.leb_le in Hg.
    constructor; cbn.
    + exact A.
    + exact B.
    + exact C.
    + intros x Hv. unfold upd in Hv. destruct (N.eqb_spec x f) as [Heq|Hne]; [rewrite Heq; exact Hg | apply D; exact Hv].
    + exact E.
    + exact F.
    + exact G.
    + intros Hwon. eapply majority_mono; [|exact (H Hwon)]. apply Nat.add_le_mono_r. apply cnt_mono.
      intros x Hx. unfold upd. destruct (x =? f); [reflexivity | exact Hx].
  - (* LStepVote *)
    destruct (voted s (c_chal c)); [|exact HI0].
    constructor; cbn; try assumption.
    + left. reflexivity.
    + split; intros Hx; reflexivity.
    + intros Hwon. eapply majority_mono; [|exact (H Hwon)]. destruct (lvoted s); lia.
  - (* LStepAE *)
    destruct (won s) eqn:Hwon; [|exact HI0].
    constructor; cbn; try assumption.
    + left. reflexivity.
    + split; [intros Hx; rewrite (proj1 G Hx); apply orb_true_r | intros Hx; reflexivity].
    + intros Hx. apply H. first [exact Hx | reflexivity].
  - (* LBecome *)
    constructor; cbn; try assumption.
    + left. reflexivity.
    + split; intros Hx; reflexivity.
  - (* Win *)
    destruct (voted s (c_chal c) && majority c (cnt (voted s) (c_voters c) + (if lvoted s then 1 else 0))) eqn:Hg;
      [|exact HI0].
    apply andb_true_iff in Hg. destruct Hg as [_ Hm].
    constructor; cbn; try assumption. intros _. exact Hm.
Qed.

Lemma inv_run c es : ideal c -> forall s, Inv c s -> Inv c (prun c es s).
Proof.
  intros Hid. induction es as [|e es IH]; intros s Hs; [exact Hs|].
  unfold prun in *. cbn [fold_left]. apply IH. apply inv_step; assumption.
Qed.

Lemma inv_safe c s : ideal c -> Inv c s -> won s = true -> lease_valid s = false.
Proof.
  intros (Hw & Ha & Hf & Hlt) [A B C D E F G H] Hwon. unfold lease_valid.
  destruct (N.ltb_spec (now s) (dl s)) as [Hv|Hv]; [exfalso | reflexivity].
  specialize (H Hwon). destruct (lvoted s) eqn:Hlv.
  - rewrite (proj2 G (proj1 G eq_refl)) in Hv. lia.
  - destruct F as [F0|(a & Hd & Hm)]; [lia|].
    unfold majority in H, Hm. apply Nat.ltb_lt in H. apply Nat.ltb_lt in Hm.
    destruct (cnt_pigeon (voted s) (fun g => a <=? ack_send s g) (c_voters c)) as (g & Hin & Hvg & Hag); [lia|].
    apply N.leb_le in Hag. specialize (D g Hvg). specialize (E g). lia.
Qed.

(* THE protocol theorem: with vote withholding, acked-request anchoring and a fresh quorum, and lease < emin,
   in every reachable state in which another node has won the election of the next term the lease is invalid
   (a lease read is refused). One global clock (no drift) is the model's standing assumption. *)
Theorem lease_safe c es : ideal c -> won (prun c es p0) = true -> lease_valid (prun c es p0) = false.
Proof. intros Hid. apply (inv_safe c); [exact Hid|]. apply inv_run; [exact Hid | apply inv_init]. Qed.

Definition ideal_cfg : cfg :=
  {| c_voters := [2; 3]; c_lease := 250; c_emin := 500; c_chal := 3;
     c_withhold := true; c_anchor_acked := true; c_fresh := true; c_block := true |}.
(* non-vacuity: under the ideal flags the lease does become valid, and the challenger does win later *)
Example lease_safe_nonvacuous :
  ideal ideal_cfg /\
  lease_valid (prun ideal_cfg [Tick 10; Send; Recv 2 0; Ack 2 0; Tick 100] p0) = true /\
  won (prun ideal_cfg [Tick 10; Send; Recv 2 0; Ack 2 0; Tick 500; Vote 3; Vote 2; Win] p0) = true.
Proof. split; [unfold ideal; cbn; repeat split; lia|]. vm_compute. split; reflexivity. Qed.

(* each protection is necessary: drop one, keep the other two *)
Definition cfg_flags (n : list N) (chal : N) (w a f : bool) : cfg :=
  {| c_voters := n; c_lease := 250; c_emin := 500; c_chal := chal; c_withhold := w; c_anchor_acked := a; c_fresh := f; c_block := true |}.
Definition unsafe (c : cfg) (es : list pev) : Prop := won (prun c es p0) = true /\ lease_valid (prun c es p0) = true.

(* no vote withholding: follower 2 acknowledged at 400 and votes at 510 *)
Theorem no_withholding_refuted :
  unsafe (cfg_flags [2; 3] 3 false true true)
         [Tick 10; Send; Recv 2 0; Ack 2 0; Tick 390; Send; Recv 2 1; Ack 2 1; Tick 110; Vote 3; Vote 2; Win].
Proof. vm_compute. split; reflexivity. Qed.
(* latest-send anchoring: the ack of request 0 (sent at 10) arrives after request 1 was sent at 500 *)
Theorem latest_send_anchor_refuted :
  unsafe (cfg_flags [2; 3] 3 true false true)
         [Tick 10; Send; Recv 2 0; Tick 490; Send; Ack 2 0; Tick 10; Vote 3; Vote 2; Win].
Proof. vm_compute. split; reflexivity. Qed.
(* cumulative quorum: 5 voters, 2 and 3 acknowledged long ago, only 4 acknowledges the fresh request *)
Theorem cumulative_quorum_refuted :
  unsafe (cfg_flags [2; 3; 4; 5] 5 true true false)
         [Tick 10; Send; Recv 2 0; Recv 3 0; Ack 2 0; Ack 3 0; Tick 490; Send; Recv 4 1; Ack 4 1; Tick 10; Vote 5; Vote 2; Vote 3; Win].
Proof. vm_compute. split; reflexivity. Qed.
(* the code (all three absent): the shortest trace *)
Theorem coded_refuted :
  unsafe (coded [2; 3] 250 500 3) [Tick 500; Send; Recv 2 0; Ack 2 0; Vote 3; Vote 2; Win].
Proof. vm_compute. split; reflexivity. Qed.

(* stepping down: once [stepped] is set no event sequence makes the lease valid again (any flags) ... *)
Lemma stepped_step c s e : stepped s = true -> dl s = 0 -> stepped (pstep c s e) = true /\ dl (pstep c s e) = 0.
Proof.
  intros Hs Hd. destruct e as [d| |f k|f k|f| | | |]; cbn [pstep].
  - cbn. auto.
  - rewrite Hs. auto.
  - match goal with |- context [if ?q then _ else _] => destruct q end; cbn; auto.
  - rewrite Hs, andb_false_r. auto.
  - match goal with |- context [if ?q then _ else _] => destruct q end; cbn; auto.
  - destruct (voted s (c_chal c)); cbn; auto.
  - destruct (won s); cbn; [rewrite Hs, orb_true_r|]; auto.
  - cbn. auto.
  - match goal with |- context [if ?q then _ else _] => destruct q end; cbn; auto.
Qed.
Theorem stepdown_sticks c es : forall s, stepped s = true -> dl s = 0 -> lease_valid (prun c es s) = false.
Proof.
  induction es as [|e es IH]; intros s Hs Hd.
  - cbn. unfold lease_valid. rewrite Hd. destruct (N.ltb_spec (now s) 0) as [Hc|_]; [lia | reflexivity].
  - unfold prun in *. cbn [fold_left]. destruct (stepped_step c s e Hs Hd) as [Hs' Hd']. apply IH; assumption.
Qed.
(* ... and every step-down event sets it when the decision blocks renewals at once *)
Theorem stepdown_events_block c s :
  c_block c = true ->
  (voted s (c_chal c) = true -> stepped (pstep c s LStepVote) = true /\ dl (pstep c s LStepVote) = 0) /\
  (won s = true -> stepped (pstep c s LStepAE) = true /\ dl (pstep c s LStepAE) = 0) /\
  (stepped (pstep c s LBecome) = true /\ dl (pstep c s LBecome) = 0).
Proof.
  intros Hb. split; [|split].
  - intros Hx. cbn [pstep]. rewrite Hx. cbn. auto.
  - intros Hx. cbn [pstep]. rewrite Hx. cbn. rewrite Hb. auto.
  - cbn. auto.
Qed.
(* without that (a step-down branch that revokes but keeps the term, as the AppendEntries branch did before it adopted
   the sender's term) a queued ack re-validates the lease *)
Definition coded_noblock : cfg :=
  {| c_voters := [2; 3]; c_lease := 250; c_emin := 500; c_chal := 3;
     c_withhold := false; c_anchor_acked := false; c_fresh := false; c_block := false |}.
Theorem stepdown_race_without_block :
  let s := prun coded_noblock [Tick 500; Send; Recv 2 0; Ack 2 0; Vote 3; Vote 2; Win; Send; Recv 3 1; LStepAE] p0 in
  lease_valid s = false /\ lease_valid (pstep coded_noblock s (Ack 2 0)) = true.
Proof. vm_compute. split; reflexivity. Qed.
