(* C16 — snapshot install plus log replay reproduces the state.
   Proved / refuted on DE.SnapReplay (create_snapshot / install / replay as coded) with the KV semantics of DE.SMCrash.

   FULL STATEMENT (false on the faithful model, see the *_refuted theorems):
     forall cmds p r c (1 <= r, as RaftConfig validation demands),
       install_and_replay cmds p r c ≈ apply_all cmds kv0                                   (replay reproduces the state)
       /\ s_content snap ≈ apply_all (firstn (s_label snap) cmds) kv0                        (boundary matches content)
   What IS true for all command sequences, snapshot points, retention settings and interleavings (proved below):
     - the label is never ahead of the content; the content is the state at capture time;
     - replay reproduces the reference whenever the overlap (label, captured] is CAS-free, or has at most one entry
       (so with the default retained_log_entries = 1 and no concurrent apply the final state is right although
       the boundary does not match the content);
     - with retained_log_entries = 0 and no concurrent apply both parts hold (the suggested fix). *)
From Coq Require Import NArith List Bool Lia Arith.
From DE Require Import Val SMCrash SnapReplay proofs.C15.
Import ListNotations.
Open Scope N_scope.

Definition label_nat (cmds : list cmd) (p : nat) (r : N) (c : nat) : nat := N.to_nat (s_label (create_snapshot cmds p r c)).
(* the commands whose effect is in the snapshot although they lie above its label *)
Definition overlap (cmds : list cmd) (p : nat) (r : N) (c : nat) : list cmd :=
  skipn (label_nat cmds p r c) (firstn (applied_at_capture cmds p c) cmds).

Lemma label_capture cmds p c : (applied_at_label cmds p <= applied_at_capture cmds p c)%nat.
Proof. unfold applied_at_capture. lia. Qed.
Lemma capture_le cmds p c : (applied_at_capture cmds p c <= length cmds)%nat.
Proof. unfold applied_at_capture, applied_at_label. lia. Qed.
Lemma label_le cmds p r c : (label_nat cmds p r c <= applied_at_capture cmds p c)%nat.
Proof.
  pose proof (label_capture cmds p c) as H. unfold label_nat, create_snapshot. cbn [s_label]. lia.
Qed.

(* re-application of a block M on top of itself is harmless as soon as M is idempotent *)
Definition idem (M : list cmd) : Prop := forall t, keq (apply_all M (apply_all M t)) (apply_all M t).

Lemma reapply_idem (la : nat) (acked rest : list cmd) (s : kv) :
  keq s (apply_all acked kv0) -> (la <= length acked)%nat -> idem (skipn la acked) ->
  keq (apply_all (skipn la (acked ++ rest)) s) (apply_all (acked ++ rest) kv0).
Proof.
  intros Hs Hla Hid.
  rewrite skipn_app. replace (la - length acked)%nat with O by lia. cbn [skipn].
  rewrite !apply_all_app. apply apply_all_keq.
  eapply keq_trans; [apply apply_all_keq; exact Hs|].
  assert (Hsplit : apply_all acked kv0 = apply_all (skipn la acked) (apply_all (firstn la acked) kv0)).
  { rewrite <- apply_all_app, firstn_skipn. reflexivity. }
  rewrite Hsplit. exact (Hid (apply_all (firstn la acked) kv0)).
Qed.

Lemma idem_nil : idem [].
Proof. intros t. apply keq_refl. Qed.

Lemma apply_idem s c : keq (fst (apply (fst (apply s c)) c)) (fst (apply s c)).
Proof.
  destruct c as [k v|k|k e v|k v t|]; cbn [apply fst]; intros k'.
  - unfold kput. destruct (k' =? k); reflexivity.
  - unfold kdel. destruct (k' =? k); reflexivity.
  - destruct (oeqb (s k) e) eqn:E; cbn [fst].
    + destruct (oeqb (kput k v s k) e) eqn:E2; cbn [fst]; [|reflexivity].
      unfold kput. destruct (k' =? k); reflexivity.
    + rewrite E. reflexivity.
  - unfold kput. destruct (k' =? k); reflexivity.
  - reflexivity.
Qed.
Lemma idem_single c : idem [c].
Proof. intros t. cbn [apply_all fold_left]. apply apply_idem. Qed.

Lemma idem_cas_free M : cas_free M = true -> idem M.
Proof. intros Hc t. apply apply_all_absorb; [exact Hc | apply keq_refl]. Qed.

Lemma short_idem M : (length M <= 1)%nat -> idem M.
Proof.
  destruct M as [|c [|c' M]]; intros H; [apply idem_nil | apply idem_single | cbn in H; lia].
Qed.

(* the general replay lemma *)
Lemma replay_idem cmds p r c :
  idem (overlap cmds p r c) -> keq (install_and_replay cmds p r c) (apply_all cmds kv0).
Proof.
  intros Hid. unfold install_and_replay, replay_log, install, reapply. cbn [fst snd].
  change (N.to_nat (s_label (create_snapshot cmds p r c))) with (label_nat cmds p r c).
  change (s_content (create_snapshot cmds p r c)) with (apply_all (firstn (applied_at_capture cmds p c) cmds) kv0).
  pose proof (label_le cmds p r c) as Hl. pose proof (capture_le cmds p c) as Hm. unfold overlap in Hid.
  set (L := label_nat cmds p r c) in *. set (m := applied_at_capture cmds p c) in *.
  assert (H : keq (apply_all (skipn L (firstn m cmds ++ skipn m cmds)) (apply_all (firstn m cmds) kv0))
                  (apply_all (firstn m cmds ++ skipn m cmds) kv0)).
  { apply reapply_idem; [apply keq_refl | rewrite firstn_length; lia | exact Hid]. }
  rewrite firstn_skipn in H. exact H.
Qed.

(* T1: replay reproduces the reference whenever the overlap is CAS-free *)
Theorem replay_without_cas_overlap :
  forall (cmds : list cmd) (p : nat) (r : N) (c : nat),
    cas_free (overlap cmds p r c) = true ->
    forall k, install_and_replay cmds p r c k = apply_all cmds kv0 k.
Proof. intros cmds p r c Hc. apply replay_idem. apply idem_cas_free. exact Hc. Qed.

(* T2: ... or has at most one entry, CAS or not *)
Theorem replay_single_overlap :
  forall (cmds : list cmd) (p : nat) (r : N) (c : nat),
    (length (overlap cmds p r c) <= 1)%nat ->
    forall k, install_and_replay cmds p r c k = apply_all cmds kv0 k.
Proof. intros cmds p r c Hl. apply replay_idem. apply short_idem. exact Hl. Qed.

Lemma overlap_length cmds p r c :
  length (overlap cmds p r c) = (applied_at_capture cmds p c - label_nat cmds p r c)%nat.
Proof.
  unfold overlap. rewrite skipn_length, firstn_length. pose proof (capture_le cmds p c). lia.
Qed.

(* T3: the default configuration (retained_log_entries = 1) without a concurrent apply ends in the right state *)
Theorem replay_default_retention :
  forall (cmds : list cmd) (p : nat) (k : N), install_and_replay cmds p 1 0 k = apply_all cmds kv0 k.
Proof.
  intros cmds p. apply replay_single_overlap. rewrite overlap_length.
  unfold label_nat, create_snapshot, applied_at_capture. cbn [s_label]. lia.
Qed.

(* T4: the label is never ahead of the content, and the content is the state at capture time *)
Theorem boundary_never_ahead :
  forall (cmds : list cmd) (p : nat) (r : N) (c : nat),
    let s := create_snapshot cmds p r c in
    (N.to_nat (s_label s) <= applied_at_capture cmds p c)%nat /\
    forall k, s_content s k = apply_all (firstn (applied_at_capture cmds p c) cmds) kv0 k.
Proof. intros cmds p r c s. split; [apply label_le | intros k; reflexivity]. Qed.

(* T5: without retention and without a concurrent apply the statement holds in full *)
Theorem exact_without_retention :
  forall (cmds : list cmd) (p : nat),
    let s := create_snapshot cmds p 0 0 in
    (forall k, s_content s k = apply_all (firstn (N.to_nat (s_label s)) cmds) kv0 k) /\
    (forall k, install_and_replay cmds p 0 0 k = apply_all cmds kv0 k).
Proof.
  intros cmds p s. split.
  - intros k. subst s. unfold create_snapshot, applied_at_capture. cbn [s_label s_content].
    rewrite N.sub_0_r, Nat2N.id. replace (applied_at_label cmds p + Nat.min 0 _)%nat with (applied_at_label cmds p) by lia.
    reflexivity.
  - apply replay_single_overlap. rewrite overlap_length.
    unfold label_nat, create_snapshot, applied_at_capture. cbn [s_label]. lia.
Qed.

(* ---- refutations ---- *)
Definition w_cmds : list cmd := [CPut 1 1; CCas 1 (Some 2) 3; CCas 1 (Some 1) 2; CPut 2 5].

(* T6: the recorded boundary does not match the content, already with the default retention of 1 *)
Theorem boundary_matches_content_refuted :
  exists (cmds : list cmd) (p : nat) (r : N),
    1 <= r /\
    let s := create_snapshot cmds p r 0 in
    exists k, s_content s k <> apply_all (firstn (N.to_nat (s_label s)) cmds) kv0 k.
Proof. exists [CPut 1 1], 1%nat, 1. split; [lia|]. exists 1. vm_compute. discriminate. Qed.

(* T7: with retained_log_entries = 2 install + replay ends in a different state (CAS chain in the overlap) *)
Theorem replay_refuted_retention :
  exists (cmds : list cmd) (p : nat) (r : N),
    1 <= r /\ exists k, install_and_replay cmds p r 0 k <> apply_all cmds kv0 k.
Proof. exists w_cmds, 3%nat, 2. split; [lia|]. exists 1. vm_compute. discriminate. Qed.

(* T8: with the default retention of 1, one entry applied between the label and the capture is enough *)
Theorem replay_refuted_concurrent_apply :
  exists (cmds : list cmd) (p : nat) (c : nat),
    exists k, install_and_replay cmds p 1 c k <> apply_all cmds kv0 k.
Proof. exists w_cmds, 2%nat, 1%nat. exists 1. vm_compute. discriminate. Qed.

(* ---- non-vacuity ---- *)
Definition demo_cmds : list cmd := [CPut 1 5; CPutTtl 2 6 60; CDel 1; CCas 2 (Some 6) 7; CPut 3 8; CPut 1 9].
Example demo_snapshot :
  let s := create_snapshot demo_cmds 5 3 1 in
  s_label s = 2 /\ map (s_content s) [1; 2; 3] = [Some 9; Some 7; Some 8] /\
  length (overlap demo_cmds 5 3 1) = 4%nat /\ cas_free (overlap demo_cmds 5 3 1) = false.
Proof. vm_compute. repeat split; reflexivity. Qed.
Example demo_cas_free_overlap :
  cas_free (overlap demo_cmds 3 2 0) = true /\ length (overlap demo_cmds 3 2 0) = 2%nat /\
  map (install_and_replay demo_cmds 3 2 0) [1; 2; 3] = [Some 9; Some 7; Some 8].
Proof. vm_compute. repeat split; reflexivity. Qed.
Example demo_single_overlap_with_cas :
  overlap demo_cmds 4 1 0 = [CCas 2 (Some 6) 7] /\ map (install_and_replay demo_cmds 4 1 0) [1; 2; 3] = [Some 9; Some 7; Some 8].
Proof. vm_compute. split; reflexivity. Qed.
Example w_cmds_reference : map (apply_all w_cmds kv0) [1; 2] = [Some 2; Some 5] /\ map (install_and_replay w_cmds 3 2 0) [1; 2] = [Some 3; Some 5].
Proof. vm_compute. split; reflexivity. Qed.
