(* C27 — learners never vote, never campaign, never count; voters arise only by promotion; join answered after commit.
   Proved on DE.Membership (LearnerState arms, RaftMembership::apply_config_change, LeaderState::handle_join_cluster +
   drain_commit_actions over DE.LeaderCommit). The commit-quorum part re-uses the C09 development. *)
From Coq Require Import NArith List Bool Lia Arith.
From DE Require Import Val BufLog LeaderCommit Membership proofs.C26.
Import ListNotations.
Open Scope N_scope.

(* ---- LearnerState ---- *)
Lemma learner_vote_answer s t c li lt :
  snd (lrn_step s (LVote t c li lt)) = [0; 1; 0; N.max (lr_term s) t].
Proof. reflexivity. Qed.

Lemma learner_step_never_grants s e : lrn_granted (snd (lrn_step s e)) = 0.
Proof. destruct e as [t c li lt| | |p]; cbn; try reflexivity. Qed.

Definition lrn_outs (s : lrn) (es : list lev) : list (list N) :=
  snd (fold_left (fun acc e => let r := lrn_step (fst acc) e in (fst r, snd acc ++ [snd r])) es (s, [])).

Lemma lrn_outs_gen es : forall s acc,
  Forall (fun o => lrn_granted o = 0) acc ->
  Forall (fun o => lrn_granted o = 0)
    (snd (fold_left (fun acc e => let r := lrn_step (fst acc) e in (fst r, snd acc ++ [snd r])) es (s, acc))).
Proof.
  induction es as [|e r IH]; intros s acc H; cbn [fold_left]; [exact H|].
  cbn [fst snd]. apply IH. apply Forall_app. split; [exact H|]. constructor; [apply learner_step_never_grants|constructor].
Qed.

(* over every sequence of vote requests (any term, any candidate, any log), ticks and role-change attempts *)
Theorem learner_never_grants : forall s es, Forall (fun o => lrn_granted o = 0) (lrn_outs s es).
Proof. intros s es. unfold lrn_outs. apply lrn_outs_gen. constructor. Qed.

(* tick: no internal event, timer never expired, no vote request sent; become_candidate / become_leader refused *)
Theorem learner_never_campaigns : forall s, lrn_step s LTick = (s, [1; 0; 0; 0]) /\ lrn_step s LCandidate = (s, [2; 0; 0]).
Proof. intros s. split; reflexivity. Qed.

Example learner_example :
  lrn_outs {| lr_term := 1 |} [LVote 7 9 100 7; LTick; LCandidate; LVote 8 3 0 0] = [[0; 1; 0; 7]; [1; 0; 0; 0]; [2; 0; 0]; [0; 1; 0; 8]].
Proof. reflexivity. Qed.

(* ---- a node's role stops being Learner only through Promote / BatchPromote naming it ---- *)
Definition promotes (c : change) (y : N) : Prop :=
  match c with CPromote id => y = id | CBatchPromote ids _ => In y ids | _ => False end.

Theorem voter_only_by_promotion :
  forall (m : mstate) (c : change) (y r : N),
    role_of (app m c) y = Some r -> r <> R_LEARNER ->
    (exists r0, role_of m y = Some r0 /\ r0 <> R_LEARNER) \/ promotes c y.
Proof.
  intros m c y r Hr Hn. unfold role_of in *. unfold app, apply_change in Hr.
  destruct c as [id st|id|id|ids st|ids]; cbn [snd promotes] in *.
  - destruct (lookup id (m_nodes m)) eqn:E; cbn [snd] in Hr.
    + left. exists r. split; assumption.
    + cbn [set_nodes m_nodes] in Hr. rewrite lookup_ins in Hr. cbn [n_id] in Hr.
      destruct (N.eqb_spec y id) as [Hy|Hy].
      * cbn in Hr. inversion Hr. subst r. contradiction.
      * left. exists r. split; assumption.
  - cbn [bump set_nodes m_nodes] in Hr. rewrite lookup_del in Hr. destruct (y =? id); [discriminate|].
    left. exists r. split; assumption.
  - destruct (lookup id (m_nodes m)) eqn:E; cbn [snd] in Hr.
    + cbn [set_nodes m_nodes] in Hr. rewrite (lookup_upd y id _ _ (promoted_id S_ACTIVE)) in Hr.
      destruct (N.eqb_spec y id) as [Hy|Hy]; [right; exact Hy|]. left. exists r. split; assumption.
    + left. exists r. split; assumption.
  - cbn [set_nodes m_nodes] in Hr. destruct (in_dec N.eq_dec y ids) as [Hin|Hnin]; [right; exact Hin|].
    rewrite batch_promote_other in Hr by exact Hnin. left. exists r. split; assumption.
  - cbn [bump set_nodes m_nodes] in Hr. destruct (lookup y (fold_left (fun l x => del x l) ids (m_nodes m))) eqn:E; [|discriminate].
    apply fold_del_some in E. rewrite E. left. exists r. split; assumption.
Qed.

(* a node that was not a member enters as Learner (AddNode is the only way in) *)
Theorem joined_node_is_learner :
  forall (m : mstate) (id st : N), contains m id = false -> role_of (app m (CAdd id st)) id = Some R_LEARNER.
Proof.
  intros m id st H. unfold contains in H. unfold role_of, app, apply_change.
  destruct (lookup id (m_nodes m)); [discriminate|]. cbn [snd set_nodes m_nodes]. rewrite lookup_ins. cbn [n_id].
  rewrite N.eqb_refl. reflexivity.
Qed.

Example promotion_example :
  let m := run (mk 1 [nf 1]) [CAdd 2 S_PROMOTABLE] in
  role_of m 2 = Some R_LEARNER /\ voters m = [] /\ role_of (app m (CBatchPromote [2] S_ACTIVE)) 2 = Some R_FOLLOWER
  /\ voters (app m (CBatchPromote [2] S_ACTIVE)) = [2].
Proof. vm_compute. repeat split; reflexivity. Qed.

(* ---- the leader's commit/lease voter list never contains a node whose role is Learner ---- *)
Lemma fold_init_voters news : forall l,
  l_voters (fold_left (fun s p => upd_match (upd_next s p (bmax (l_log s) + 1)) p 0) news l) = l_voters l.
Proof.
  induction news as [|p r IH]; intros l; cbn [fold_left]; [reflexivity|]. rewrite IH.
  unfold upd_match. destruct (get0 (l_match (upd_next l p (bmax (l_log l) + 1))) p <? 0); reflexivity.
Qed.
Lemma fold_init_commit news : forall l,
  l_commit (fold_left (fun s p => upd_match (upd_next s p (bmax (l_log s) + 1)) p 0) news l) = l_commit l.
Proof.
  induction news as [|p r IH]; intros l; cbn [fold_left]; [reflexivity|]. rewrite IH.
  unfold upd_match. destruct (get0 (l_match (upd_next l p (bmax (l_log l) + 1))) p <? 0); reflexivity.
Qed.

Theorem commit_voters_exclude_learners :
  forall (m : mstate) (l : lstate) (y : N), In y (l_voters (refresh m l)) -> role_of m y <> Some R_LEARNER /\ role_of m y <> None.
Proof.
  intros m l y H. unfold refresh in H. rewrite fold_init_voters in H. cbn [l_voters] in H.
  apply filter_In in H. destruct H as [_ H]. destruct (role_of m y) as [r|]; [|discriminate].
  split; [|discriminate]. intros E. inversion E. subst r. cbn in H. discriminate.
Qed.

Lemma refresh_commit m l : l_commit (refresh m l) = l_commit l.
Proof. unfold refresh. rewrite fold_init_commit. reflexivity. Qed.

(* ---- join ---- *)
Theorem join_existing_rejected :
  forall (s : jstate) (id role st : N), contains (j_m s) id = true ->
    let s' := jstep s (JJoin id role st) in
    j_joins s' = j_joins s ++ [(0, 2)] /\ j_l s' = j_l s /\ j_m s' = j_m s.
Proof. intros s id role st H. cbn [jstep]. rewrite H. cbn. repeat split; reflexivity. Qed.

Lemma fold_apply_commit todo : forall m l,
  l_commit (snd (fold_left (fun acc (e : N * change) => let m' := app (fst acc) (snd e) in (m', refresh m' (snd acc))) todo (m, l))) = l_commit l.
Proof.
  induction todo as [|e r IH]; intros m l; cbn [fold_left]; [reflexivity|]. cbn [fst snd]. rewrite IH. apply refresh_commit.
Qed.

Lemma jcommit_apply_commit s : l_commit (j_l (jcommit_apply s)) = l_commit (j_l s).
Proof. unfold jcommit_apply. cbn [j_l]. apply fold_apply_commit. Qed.

Lemma jcommit_apply_joins s j :
  In j (j_joins (jcommit_apply s)) -> snd j = 1 -> In j (j_joins s) \/ (fst j <> 0 /\ fst j <= l_commit (j_l s)).
Proof.
  unfold jcommit_apply. cbn [j_joins]. intros H H1. apply in_map_iff in H. destruct H as [j0 [E Hin]].
  destruct (negb (fst j0 =? 0) && (snd j0 =? 0) && (fst j0 <=? l_commit (j_l s))) eqn:C.
  - subst j. cbn [fst snd] in *. right. apply andb_true_iff in C. destruct C as [C C3]. apply andb_true_iff in C. destruct C as [C1 _].
    apply negb_true_iff in C1. apply N.eqb_neq in C1. apply N.leb_le in C3. split; assumption.
  - subst j0. left. exact Hin.
Qed.

(* a join is answered with success only when its AddNode entry is at or below the commit index *)
Theorem join_answered_only_after_commit :
  forall (s : jstate) (e : jev) (j : N * N),
    In j (j_joins (jstep s e)) -> snd j = 1 ->
    In j (j_joins s) \/ (fst j <> 0 /\ fst j <= l_commit (j_l (jstep s e))).
Proof.
  intros s e j H H1. destruct e as [id role st|p mi|]; cbn [jstep] in *.
  - destruct (contains (j_m s) id || negb (can_rejoin (j_m s) id role)).
    + cbn [j_joins] in H. apply in_app_or in H. destruct H as [H|[H|[]]]; [left; exact H|]. subst j. cbn in H1. discriminate.
    + rewrite jcommit_apply_commit. apply jcommit_apply_joins in H; [|exact H1]. cbn [j_joins j_l] in H |- *.
      destruct H as [H|H]; [|right; exact H]. apply in_app_or in H. destruct H as [H|[H|[]]]; [left; exact H|].
      subst j. cbn in H1. discriminate.
  - rewrite jcommit_apply_commit. apply jcommit_apply_joins in H; [|exact H1]. exact H.
  - rewrite jcommit_apply_commit. apply jcommit_apply_joins in H; [|exact H1]. exact H.
Qed.

Definition j0 : jstate :=
  let m0 := mk 1 [nf 1] in
  {| j_l := refresh m0 {| l_log := buf0; l_term := 2; l_commit := 0; l_voters := []; l_learners := []; l_match := []; l_next := [] |};
     j_m := m0; j_joins := []; j_applied := 0; j_cfg := [] |}.
Example join_example :
  j_joins (jstep j0 (JJoin 2 R_LEARNER S_PROMOTABLE)) = [(1, 0)] /\
  j_joins (jstep (jstep j0 (JJoin 2 R_LEARNER S_PROMOTABLE)) JFlushed) = [(1, 1)] /\
  j_joins (jstep (jstep (jstep j0 (JJoin 2 R_LEARNER S_PROMOTABLE)) JFlushed) (JJoin 2 R_LEARNER S_PROMOTABLE)) = [(1, 1); (0, 2)].
Proof. vm_compute. repeat split; reflexivity. Qed.
