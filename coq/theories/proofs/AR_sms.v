(* AR_sms for the PROPOSED system DE.AbstractRaft: cwit / sinv / sinv_step now live in AR_complete; statements unchanged *)
(* AR_sms — commit index within the log (T4a), state machine safety (T4b), follower commit matches the
   leader of its term (T4c, property C07 at the cluster level). *)
From Coq Require Import NArith List Bool Lia ZifyBool ZifyN PeanoNat.
From DE Require Import AbstractRaft.
From DE.proofs Require Import AR_election AR_logs AR_complete.
Import ListNotations.
Open Scope N_scope.

Section SMS.
Variable nodes : list N.

Lemma lcommit_le_len s : reach nodes s -> forall t, g_lcommit s t <= N.of_nat (length (g_llog s t)).
Proof. intros R t. apply (c_Llen _ _ (reach_cinv nodes s R)). Qed.

(* a committed prefix of an earlier term is in every later leader log *)
Lemma committed_in_later s : reach nodes s -> forall t t' l' i, t <= t' -> In (l',t') (g_leaders s) ->
  i <= g_lcommit s t -> prefix (g_llog s t') i = prefix (g_llog s t) i.
Proof. intros R. apply (committed_in_later_inv nodes s (reach_cinv nodes s R)). Qed.

(* T4a *)
Theorem commit_within_log : forall s, reach nodes s ->
  forall n, a_commit s n <= N.of_nat (length (a_log s n)).
Proof.
  intros s R n. destruct (reach_sinv nodes s R n) as [Z|[tw (_ & _ & W3 & W4)]]; [lia|].
  eapply prefix_len; [exact W4|]. pose proof (lcommit_le_len s R tw). lia.
Qed.

Lemma committed_prefix_agree s : reach nodes s -> forall n m i,
  i <= a_commit s n -> i <= a_commit s m -> prefix (a_log s n) i = prefix (a_log s m) i.
Proof.
  intros R n m i Hn Hm.
  destruct (reach_sinv nodes s R n) as [Z|[tn (_ & (ln & Ln) & N3 & N4)]]; [assert (i = 0) by lia; now subst|].
  destruct (reach_sinv nodes s R m) as [Z|[tm (_ & (lm & Lm) & M3 & M4)]]; [assert (i = 0) by lia; now subst|].
  unfold holds in *.
  rewrite (prefix_le _ _ _ i N4 Hn), (prefix_le _ _ _ i M4 Hm).
  destruct (N.le_ge_cases tn tm) as [Hle|Hle].
  - symmetry. eapply committed_in_later; eauto. lia.
  - eapply committed_in_later; eauto. lia.
Qed.

(* T4b: state machine safety *)
Theorem committed_agree : forall s, reach nodes s -> forall n m i,
  0 < i -> i <= a_commit s n -> i <= a_commit s m ->
  nth_error (a_log s n) (N.to_nat (i - 1)) = nth_error (a_log s m) (N.to_nat (i - 1)).
Proof.
  intros s R n m i H0 Hn Hm.
  pose proof (committed_prefix_agree s R n m i Hn Hm) as E. unfold prefix in E.
  apply (firstn_eq_nth _ _ _ _ E). lia.
Qed.

(* T4c: a follower's committed prefix is a prefix of the log of the leader of its term *)
Theorem follower_commit_matches_leader : forall s, reach nodes s -> forall l t f,
  In (l,t) (g_leaders s) -> a_cur s f = t ->
  forall i, i <= a_commit s f -> prefix (a_log s f) i = prefix (g_llog s t) i.
Proof.
  intros s R l t f Hl Hc i Hi.
  destruct (reach_sinv nodes s R f) as [Z|[tw (W1 & _ & W3 & W4)]]; [assert (i = 0) by lia; now subst|].
  unfold holds in W4. rewrite (prefix_le _ _ _ i W4 Hi). symmetry.
  eapply committed_in_later; eauto; lia.
Qed.

End SMS.

Print Assumptions commit_within_log.
Print Assumptions committed_agree.
Print Assumptions follower_commit_matches_leader.
