(* AR_sms — commit index within the log (T4a), state machine safety (T4b), follower commit matches the
   leader of its term (T4c, property C07 at the cluster level). *)
From Coq Require Import NArith List Bool Lia ZifyBool ZifyN PeanoNat.
From DE Require Import AbstractRaft.
From DE.proofs Require Import AR_election AR_logs AR_complete.
Import ListNotations.
Open Scope N_scope.

Section SMS.
Variable nodes : list N.

(* the committed prefix of n is a committed prefix of the leader log of some term tw <= cur n *)
Definition cwit (s : astate) (n tw : N) : Prop :=
  tw <= a_cur s n /\ (exists m, In (m,tw) (g_leaders s)) /\
  a_commit s n <= g_lcommit s tw /\ holds s tw (a_commit s n) (a_log s n).

Definition sinv (s : astate) : Prop := forall n, a_commit s n = 0 \/ exists tw, cwit s n tw.

Lemma lcommit_le_len s : reach nodes s -> forall t, g_lcommit s t <= N.of_nat (length (g_llog s t)).
Proof. intros R t. destruct (lcommit_facts nodes s R t) as [Z|[H _]]; lia. Qed.

Lemma lcommit_mono s s' : astep nodes s s' -> forall t', g_lcommit s t' <= g_lcommit s' t'.
Proof. intros H t'. step_cases H; try lia. unfold upd. destruct (N.eqb_spec t' (a_cur s0 n)); subst; lia. Qed.

(* a committed prefix of an earlier term is in every later leader log *)
Lemma committed_in_later s : reach nodes s -> forall t t' l' i, t <= t' -> In (l',t') (g_leaders s) ->
  i <= g_lcommit s t -> prefix (g_llog s t') i = prefix (g_llog s t) i.
Proof.
  intros R t t' l' i Hle Hin Hi. destruct (N.eqb_spec t t') as [->|Hne]; [reflexivity|].
  eapply leader_completeness; eauto; [lia|]. pose proof (lcommit_le_len s R t). lia.
Qed.

Lemma sinv_init : sinv ainit.
Proof. intros n. now left. Qed.

(* witnesses survive steps that leave n's commit index alone and only extend/keep its log prefix *)
Lemma cwit_keep s s' n' tw : reach nodes s -> astep nodes s s' ->
  a_commit s' n' = a_commit s n' ->
  (prefix (a_log s' n') (a_commit s n') = prefix (a_log s n') (a_commit s n')) ->
  cwit s n' tw -> cwit s' n' tw.
Proof.
  intros R H Ec El (H1 & (m & H2) & H3 & H4). pose proof (reach_binv nodes s R) as B.
  split; [pose proof (cur_mono nodes s s' H n'); lia|].
  split; [exists m; eapply leaders_mono; eauto|].
  split; [rewrite Ec; pose proof (lcommit_mono s s' H tw); lia|].
  unfold holds in *. rewrite Ec, El, H4. symmetry. apply (llog_prefix_step nodes); auto.
  pose proof (lcommit_le_len s R tw). lia.
Qed.

Lemma sinv_step s s' : reach nodes s -> sinv s -> astep nodes s s' -> sinv s'.
Proof.
  intros R S H n'.
  pose proof (reach_binv nodes s R) as B. pose proof (reach_linv nodes s R) as L.
  pose proof (fun tw Ec El => cwit_keep s s' n' tw R H Ec El) as Keep.
  pose proof (fun t => lcommit_le_len s R t) as LL.
  pose proof (committed_in_later s R) as CL.
  assert (Same : a_commit s' n' = a_commit s n' -> a_log s' n' = a_log s n' ->
                 a_commit s' n' = 0 \/ exists tw, cwit s' n' tw).
  { intros Ec El. destruct (S n') as [Z|[tw W]]; [left; congruence|right].
    exists tw. apply Keep; auto. now rewrite El. }
  step_cases H; try (apply Same; reflexivity).
  - (* SLeaderAppend *)
    unfold upd in *. destruct (N.eqb_spec n' n) as [->|Hne]; [|apply Same; reflexivity].
    destruct (S n) as [Z|[tw W]]; [now left|right]. exists tw. apply Keep; auto.
    apply prefix_app_le. destruct W as (_ & _ & W3 & W4). unfold holds in W4.
    eapply prefix_len; [exact W4|]. specialize (LL tw). lia.
  - (* SAppendAccept *)
    clear Keep. unfold upd in *. destruct (N.eqb_spec n' f) as [->|Hne]; [|apply Same; reflexivity].
    clear Same. unfold cwit, holds. cbn [a_cur a_commit a_log g_leaders g_lcommit g_llog].
    rewrite !N.eqb_refl.
    set (R0 := merge_from (a_log s0 f) (N.to_nat prev) (slice (g_llog s0 t) prev k)).
    assert (E1 : prefix R0 (prev + k) = prefix (g_llog s0 t) (prev + k)).
    { eapply accept_result; eauto using l_glog_log, l_glog_llog. }
    destruct (N.max_spec (a_commit s0 f) (N.min lc (prev + k))) as [[Hlt ->]|[Hge ->]].
    + right. exists t. split; [lia|]. split; [eauto|]. split; [lia|].
      eapply prefix_le; [exact E1|lia].
    + destruct (S f) as [Z|[tw (W1 & W2 & W3 & W4)]]; [now left|right]. unfold holds in W4.
      exists tw. split; [lia|]. split; [exact W2|]. split; [exact W3|].
      assert (E0 : prefix (a_log s0 f) (a_commit s0 f) = prefix (g_llog s0 t) (a_commit s0 f)).
      { rewrite W4. symmetry. eapply CL; eauto. lia. }
      unfold R0. rewrite (accept_keeps _ _ prev k _ Hprev E0). congruence.
  - (* SAdvanceCommit *)
    unfold upd in *. destruct (N.eqb_spec n' n) as [->|Hne]; [|apply Same; reflexivity].
    right. exists (a_cur s0 n). unfold cwit, holds. cbn [a_cur a_commit a_log g_leaders g_lcommit g_llog].
    rewrite !N.eqb_refl. split; [lia|]. split; [eauto|]. split; [lia|].
    now rewrite (b_leader_log _ _ B _ Hl).
Qed.

Lemma reach_sinv s : reach nodes s -> sinv s.
Proof. induction 1 as [|s s' R IH H]; [exact sinv_init|]. eapply sinv_step; eauto. Qed.

(* T4a *)
Theorem commit_within_log : forall s, reach nodes s ->
  forall n, a_commit s n <= N.of_nat (length (a_log s n)).
Proof.
  intros s R n. destruct (reach_sinv s R n) as [Z|[tw (_ & _ & W3 & W4)]]; [lia|].
  eapply prefix_len; [exact W4|]. pose proof (lcommit_le_len s R tw). lia.
Qed.

Lemma committed_prefix_agree s : reach nodes s -> forall n m i,
  i <= a_commit s n -> i <= a_commit s m -> prefix (a_log s n) i = prefix (a_log s m) i.
Proof.
  intros R n m i Hn Hm.
  destruct (reach_sinv s R n) as [Z|[tn (_ & (ln & Ln) & N3 & N4)]]; [assert (i = 0) by lia; now subst|].
  destruct (reach_sinv s R m) as [Z|[tm (_ & (lm & Lm) & M3 & M4)]]; [assert (i = 0) by lia; now subst|].
  unfold holds in *.
  rewrite (prefix_le _ _ _ i N4 Hn), (prefix_le _ _ _ i M4 Hm).
  destruct (N.le_ge_cases tn tm) as [Hle|Hle].
  - symmetry. eapply committed_in_later; eauto. lia.
  - eapply committed_in_later; eauto. lia.
Qed.

(* T4b: state machine safety *)
Theorem committed_agree : forall s, reach nodes s -> forall n m i,
  0 < i -> i <= a_commit s n -> i <= a_commit s m ->
  nth_error (a_log s n) (N.to_nat (i - 1)) = nth_error (a_log s m) (N.to_nat (i - 1)).
Proof.
  intros s R n m i H0 Hn Hm.
  pose proof (committed_prefix_agree s R n m i Hn Hm) as E. unfold prefix in E.
  apply (firstn_eq_nth _ _ _ _ E). lia.
Qed.

(* T4c: a follower's committed prefix is a prefix of the log of the leader of its term *)
Theorem follower_commit_matches_leader : forall s, reach nodes s -> forall l t f,
  In (l,t) (g_leaders s) -> a_cur s f = t ->
  forall i, i <= a_commit s f -> prefix (a_log s f) i = prefix (g_llog s t) i.
Proof.
  intros s R l t f Hl Hc i Hi.
  destruct (reach_sinv s R f) as [Z|[tw (W1 & _ & W3 & W4)]]; [assert (i = 0) by lia; now subst|].
  unfold holds in W4. rewrite (prefix_le _ _ _ i W4 Hi). symmetry.
  eapply committed_in_later; eauto; lia.
Qed.

End SMS.

Print Assumptions commit_within_log.
Print Assumptions committed_agree.
Print Assumptions follower_commit_matches_leader.
