(* C15 — each committed entry is applied exactly once across crashes.
   Proved / refuted on DE.SMCrash (persistence steps of FileStateMachine and RocksDBStateMachine).

   FULL STATEMENT (false on the faithful model of both engines, see the *_refuted theorems):
     forall ops p, In p (crash points of ops) ->
       let (s, la) := recover p in
       s ≈ apply_all (firstn la acked) kv0                            (index matches data)
       /\ reapply la committed s ≈ apply_all committed kv0           (re-application reproduces the reference)
   What IS true for every op sequence and every crash point (proved below, *_partial):
     - the recovered data reflects exactly the entries whose write reached the files, the reported index never
       exceeds that count (so nothing committed is lost, File: outside the truncate..write window of state.data);
     - re-application reproduces the reference whenever the re-applied overlap (la, acked] contains no CAS. *)
From Coq Require Import NArith List Bool Lia Arith.
From DE Require Import Val SMCrash.
Import ListNotations.
Open Scope N_scope.

Definition keq (a b : kv) : Prop := forall k, a k = b k.

Lemma keq_refl a : keq a a. Proof. intros k; reflexivity. Qed.
Lemma keq_sym a b : keq a b -> keq b a. Proof. intros H k; symmetry; apply H. Qed.
Lemma keq_trans a b c : keq a b -> keq b c -> keq a c.
Proof. intros H1 H2 k. rewrite (H1 k). apply H2. Qed.

Lemma kput_keq k v a b : keq a b -> keq (kput k v a) (kput k v b).
Proof. intros H k'. unfold kput. destruct (k' =? k); [reflexivity | apply H]. Qed.
Lemma kdel_keq k a b : keq a b -> keq (kdel k a) (kdel k b).
Proof. intros H k'. unfold kdel. destruct (k' =? k); [reflexivity | apply H]. Qed.

Lemma apply_keq a b c : keq a b -> keq (fst (apply a c)) (fst (apply b c)).
Proof.
  intros H. destruct c as [k v|k|k e v|k v t|]; cbn [apply fst].
  - apply kput_keq; exact H.
  - apply kdel_keq; exact H.
  - rewrite (H k). destruct (oeqb (b k) e); cbn [fst]; [apply kput_keq; exact H | exact H].
  - apply kput_keq; exact H.
  - exact H.
Qed.

Lemma apply_all_cons c cs s : apply_all (c :: cs) s = apply_all cs (fst (apply s c)).
Proof. reflexivity. Qed.
Lemma apply_all_app a b s : apply_all (a ++ b) s = apply_all b (apply_all a s).
Proof. unfold apply_all. apply fold_left_app. Qed.
Lemma apply_all_keq cs : forall a b, keq a b -> keq (apply_all cs a) (apply_all cs b).
Proof.
  induction cs as [|c cs IH]; intros a b H; [exact H|].
  rewrite !apply_all_cons. apply IH. apply apply_keq. exact H.
Qed.

Lemma replay_cons r w s : replay (r :: w) s = replay w (wapply s r).
Proof. reflexivity. Qed.
Lemma replay_app a b s : replay (a ++ b) s = replay b (replay a s).
Proof. unfold replay. apply fold_left_app. Qed.
Lemma wapply_keq a b r : keq a b -> keq (wapply a r) (wapply b r).
Proof. intros H. destruct r; cbn [wapply]; [apply kput_keq | apply kdel_keq |]; exact H. Qed.
Lemma replay_keq w : forall a b, keq a b -> keq (replay w a) (replay w b).
Proof.
  induction w as [|r w IH]; intros a b H; [exact H|].
  rewrite !replay_cons. apply IH. apply wapply_keq. exact H.
Qed.

(* the WAL holds exactly the outcomes: replaying a chunk's records on the state it was evaluated on = applying it *)
Lemma wapply_outcome s c : wapply s (outcome s c) = fst (apply s c).
Proof.
  destruct c as [k v|k|k e v|k v t|]; cbn [outcome apply wapply fst]; try reflexivity.
  destruct (oeqb (s k) e); reflexivity.
Qed.
Lemma replay_wal_of cs : forall s, replay (wal_of s cs) s = apply_all cs s.
Proof.
  induction cs as [|c cs IH]; intros s; [reflexivity|].
  cbn [wal_of]. rewrite replay_cons, apply_all_cons, wapply_outcome. apply IH.
Qed.
Lemma firstn_wal_of j : forall cs s, firstn j (wal_of s cs) = wal_of s (firstn j cs).
Proof.
  induction j as [|j IH]; intros cs s; [reflexivity|].
  destruct cs as [|c cs]; [reflexivity|]. cbn [wal_of firstn]. f_equal. apply IH.
Qed.

(* ---- per-key characterisation of a replay: the last record touching the key wins ---- *)
Definition wtouch (k : N) (r : wrec) : option (option N) :=
  match r with
  | WPut k' v => if k =? k' then Some (Some v) else None
  | WDel k' => if k =? k' then Some None else None
  | WNop => None
  end.
Fixpoint wlast (k : N) (w : list wrec) : option (option N) :=
  match w with
  | [] => None
  | r :: w' => match wlast k w' with Some o => Some o | None => wtouch k r end
  end.
Lemma wapply_char s r k : wapply s r k = match wtouch k r with Some o => o | None => s k end.
Proof.
  destruct r as [k' v|k'|]; cbn [wapply wtouch]; unfold kput, kdel; try reflexivity;
    destruct (k =? k'); reflexivity.
Qed.
Lemma replay_char w : forall s k, replay w s k = match wlast k w with Some o => o | None => s k end.
Proof.
  induction w as [|r w IH]; intros s k; [reflexivity|].
  rewrite replay_cons, IH. cbn [wlast]. destruct (wlast k w); [reflexivity|]. apply wapply_char.
Qed.
(* replaying records over a state that already contains them changes nothing *)
Lemma replay_absorb w s t : keq t (replay w s) -> keq (replay w t) (replay w s).
Proof.
  intros H k. rewrite (replay_char w t k), (replay_char w s k).
  destruct (wlast k w) eqn:E; [reflexivity|]. rewrite (H k), (replay_char w s k), E. reflexivity.
Qed.

(* CAS-free command lists are state-independent record lists *)
Lemma apply_all_cas_free cs : cas_free cs = true -> forall s, apply_all cs s = replay (map (outcome kv0) cs) s.
Proof.
  induction cs as [|c cs IH]; intros Hc s; [reflexivity|].
  cbn [cas_free forallb] in Hc. apply andb_prop in Hc. destruct Hc as [Hc1 Hc2].
  rewrite apply_all_cons. cbn [map]. rewrite replay_cons. rewrite (IH Hc2).
  f_equal. destruct c as [k v|k|k e v|k v t|]; try reflexivity. discriminate Hc1.
Qed.
Lemma apply_all_absorb M s t : cas_free M = true -> keq s (apply_all M t) -> keq (apply_all M s) (apply_all M t).
Proof.
  intros Hc H. rewrite !(apply_all_cas_free M Hc) in *. apply replay_absorb. exact H.
Qed.

(* the general re-application lemma: A already reflected and reported, M reflected but not reported (re-applied on top
   of itself), P not yet reflected *)
Lemma reapply_overlap A M P s :
  cas_free M = true -> keq s (apply_all M (apply_all A kv0)) ->
  keq (apply_all (M ++ P) s) (apply_all (A ++ M ++ P) kv0).
Proof.
  intros Hc H. rewrite !apply_all_app. apply apply_all_keq. apply apply_all_absorb; assumption.
Qed.

Lemma reapply_ok (la : N) (acked rest : list cmd) (s : kv) :
  keq s (apply_all acked kv0) -> (la <= N.of_nat (length acked)) ->
  cas_free (skipn (N.to_nat la) acked) = true ->
  keq (reapply la (acked ++ rest) s) (apply_all (acked ++ rest) kv0).
Proof.
  intros Hs Hla Hc. unfold reapply.
  assert (Hn : (N.to_nat la <= length acked)%nat) by lia.
  rewrite skipn_app. replace (N.to_nat la - length acked)%nat with O by lia. cbn [skipn].
  rewrite <- (firstn_skipn (N.to_nat la) acked) at 2. rewrite <- app_assoc.
  apply reapply_overlap; [exact Hc|].
  rewrite <- apply_all_app, firstn_skipn. exact Hs.
Qed.

(* ================================================================ File *)
Definition la_of (m : option N) : N := match m with Some n => n | None => 0 end.
Definition acked_ok (rec : kv * N) (acked : list cmd) : Prop :=
  keq (fst rec) (apply_all acked kv0) /\ snd rec <= N.of_nat (length acked).

Definition finv (st : fstate) (done : list cmd) : Prop :=
  keq (f_kv st) (apply_all done kv0) /\ f_la st = N.of_nat (length done) /\
  keq (replay (d_wal (f_disk st)) (d_data (f_disk st))) (f_kv st) /\
  la_of (d_meta (f_disk st)) <= f_la st.

Lemma finv0 : finv fstate0 [].
Proof. repeat split; cbn; try apply keq_refl; lia. Qed.

Lemma wal_point st done b j :
  finv st done -> acked_ok (frecover (f_disk (fstep st (MWal b j)))) (done ++ firstn j b).
Proof.
  intros (Hkv & Hla & Hdisk & Hmeta). unfold acked_ok, frecover. cbn [fstep set_disk f_disk d_wal d_data d_meta fst snd].
  split.
  - rewrite replay_app, firstn_wal_of, apply_all_app.
    eapply keq_trans; [apply replay_keq; exact Hdisk|].
    rewrite replay_wal_of. apply apply_all_keq. exact Hkv.
  - fold (la_of (d_meta (f_disk st))). rewrite app_length. lia.
Qed.

(* replaying the WAL over the memory state it was derived from changes nothing *)
Lemma finv_self st done : finv st done -> keq (replay (d_wal (f_disk st)) (f_kv st)) (f_kv st).
Proof.
  intros (Hkv & Hla & Hdisk & Hmeta).
  eapply keq_trans; [|exact Hdisk]. apply replay_absorb. apply keq_sym. exact Hdisk.
Qed.

Lemma finv_run_op st done o : finv st done -> finv (frun_op st o) (done_after done o).
Proof.
  intros Hinv. pose proof Hinv as (Hkv & Hla & Hdisk & Hmeta). destruct o as [b| |].
  - destruct (wal_point st done b (length b) Hinv) as [Hd _].
    unfold frecover in Hd. cbn [fstep set_disk f_disk d_wal d_data fst] in Hd. rewrite firstn_all in Hd.
    unfold finv, frun_op. cbn [fsteps_of fold_left fstep set_disk f_disk f_kv f_la d_wal d_data d_meta done_after].
    repeat split.
    + rewrite apply_all_app. apply apply_all_keq. exact Hkv.
    + rewrite app_length, Nat2N.inj_add. lia.
    + eapply keq_trans; [exact Hd|]. rewrite apply_all_app. apply keq_sym. apply apply_all_keq. exact Hkv.
    + lia.
  - unfold finv, frun_op. cbn [fsteps_of fold_left fstep set_disk f_disk f_kv f_la d_wal d_data d_meta done_after la_of replay].
    repeat split; try assumption; try apply keq_refl; lia.
  - pose proof (finv_self st done Hinv) as Hself.
    unfold finv, frun_op. cbn [fsteps_of fold_left fstep set_disk f_disk f_kv f_la d_wal d_data d_meta done_after la_of].
    repeat split; try assumption; lia.
Qed.

Lemma fpoints_op_ok st done o p :
  finv st done -> In p (fpoints_op st done o) -> cp_torn p = false ->
  acked_ok (frecover (cp_disk p)) (cp_acked p).
Proof.
  intros Hinv Hin Htorn. pose proof Hinv as (Hkv & Hla & Hdisk & Hmeta). destruct o as [b| |].
  - cbn [fpoints_op] in Hin. apply in_app_or in Hin. destruct Hin as [Hin|[<-|[]]].
    + apply in_map_iff in Hin. destruct Hin as (j & <- & _). cbn [cp_disk cp_acked]. apply wal_point. exact Hinv.
    + cbn [cp_disk cp_acked]. rewrite <- (firstn_all b) at 2. apply (wal_point st done b (length b) Hinv).
  - cbn [fpoints_op] in Hin. destruct Hin as [<-|Hin]; [discriminate Htorn|].
    cbn [map In] in Hin.
    assert (Hself : keq (replay (d_wal (f_disk st)) (f_kv st)) (f_kv st)).
    { eapply keq_trans; [|exact Hdisk]. apply replay_absorb. apply keq_sym. exact Hdisk. }
    destruct Hin as [<-|[<-|[<-|[<-|[]]]]]; unfold acked_ok, frecover;
      cbn [cp_disk cp_acked fstep set_disk f_disk f_kv f_la d_wal d_data d_meta fst snd replay fold_left]; split;
      try (eapply keq_trans; [exact Hself | exact Hkv]); try exact Hkv; try lia.
    fold (la_of (d_meta (f_disk st))). lia.
  - cbn [fpoints_op map app In] in Hin.
    pose proof (finv_self st done Hinv) as Hself.
    assert (Hdk : keq (replay (d_wal (f_disk st)) (d_data (f_disk st))) (apply_all done kv0)).
    { eapply keq_trans; [exact Hdisk | exact Hkv]. }
    destruct Hin as [<-|[<-|[<-|[<-|[<-|[<-|[]]]]]]]; try discriminate Htorn; unfold acked_ok, frecover;
      cbn [cp_disk cp_acked fstep set_disk f_disk f_kv f_la d_wal d_data d_meta fst snd]; split;
      try exact Hdk; try (eapply keq_trans; [exact Hself | exact Hkv]); lia.
Qed.

Lemma fpoints_ok ops : forall st done p,
  finv st done -> In p (fpoints st done ops) -> cp_torn p = false -> acked_ok (frecover (cp_disk p)) (cp_acked p).
Proof.
  induction ops as [|o ops IH]; intros st done p Hinv Hin Htorn; [destruct Hin|].
  cbn [fpoints] in Hin. apply in_app_or in Hin. destruct Hin as [Hin|Hin].
  - eapply fpoints_op_ok; eassumption.
  - eapply IH; [apply finv_run_op; exact Hinv | exact Hin | exact Htorn].
Qed.

(* T1: what reached the files is what the restarted state machine holds; the reported index never runs ahead *)
Theorem file_recovered_data_complete :
  forall (ops : list op) (p : cpoint),
    In p (file_crash_points ops) -> cp_torn p = false ->
    (forall k, fst (frecover (cp_disk p)) k = apply_all (cp_acked p) kv0 k) /\
    snd (frecover (cp_disk p)) <= N.of_nat (length (cp_acked p)).
Proof.
  intros ops p [<-|Hin] Htorn.
  - split; [intros k; reflexivity | cbn; lia].
  - exact (fpoints_ok ops fstate0 [] p finv0 Hin Htorn).
Qed.

(* T2: re-applying (la, committed] reproduces the reference when the overlap (la, acked] is CAS-free *)
Theorem file_reapply_without_cas :
  forall (ops : list op) (p : cpoint),
    In p (file_crash_points ops) -> cp_torn p = false ->
    cas_free (skipn (N.to_nat (snd (frecover (cp_disk p)))) (cp_acked p)) = true ->
    forall k, reapply (snd (frecover (cp_disk p))) (cp_acked p ++ cp_rest p) (fst (frecover (cp_disk p))) k
              = apply_all (cp_acked p ++ cp_rest p) kv0 k.
Proof.
  intros ops p Hin Htorn Hc. destruct (file_recovered_data_complete ops p Hin Htorn) as [Hs Hla].
  apply reapply_ok; assumption.
Qed.

(* after a completed checkpoint the reported index is exact *)
Theorem file_checkpoint_exact :
  forall (ops : list op) (st := fold_left frun_op (ops ++ [OCkpt]) fstate0),
    snd (frecover (f_disk st)) = f_la st /\ forall k, fst (frecover (f_disk st)) k = f_kv st k.
Proof.
  intros ops st. subst st. rewrite fold_left_app. cbn [fold_left].
  set (s := fold_left frun_op ops fstate0). split; [reflexivity | intros k; reflexivity].
Qed.

(* ---- the witnesses ---- *)
Definition w_cas_ops : list op :=
  [OApply [CPut 1 1]; OCkpt; OApply [CCas 1 (Some 2) 3; CCas 1 (Some 1) 2]].
Definition w_file_cas_pt : cpoint := nth 9 (file_crash_points w_cas_ops) {| cp_disk := fdisk0; cp_acked := []; cp_rest := []; cp_torn := true |}.

Example w_file_cas_pt_shape :
  cp_torn w_file_cas_pt = false /\ cp_rest w_file_cas_pt = [] /\ length (cp_acked w_file_cas_pt) = 3%nat /\
  snd (frecover (cp_disk w_file_cas_pt)) = 1 /\ fst (frecover (cp_disk w_file_cas_pt)) 1 = Some 2.
Proof. vm_compute. repeat split; reflexivity. Qed.

(* T3: the statement is false for the File engine: data at 3, reported index 1, re-applying entries 2..3 (a CAS chain)
   ends with k1 = 3 where the reference has k1 = 2 *)
Theorem file_reapply_refuted :
  exists (ops : list op) (p : cpoint),
    In p (file_crash_points ops) /\ cp_torn p = false /\
    exists k, reapply (snd (frecover (cp_disk p))) (cp_acked p ++ cp_rest p) (fst (frecover (cp_disk p))) k
              <> apply_all (cp_acked p ++ cp_rest p) kv0 k.
Proof.
  exists w_cas_ops, w_file_cas_pt. split; [|split; [reflexivity|]].
  - unfold w_file_cas_pt. apply nth_In. vm_compute. lia.
  - exists 1. vm_compute. discriminate.
Qed.

Theorem file_index_behind_data :
  exists (ops : list op) (p : cpoint),
    In p (file_crash_points ops) /\ cp_torn p = false /\
    exists k, fst (frecover (cp_disk p)) k
              <> apply_all (firstn (N.to_nat (snd (frecover (cp_disk p)))) (cp_acked p)) kv0 k.
Proof.
  exists [OApply [CPut 1 1]].
  exists (nth 1 (file_crash_points [OApply [CPut 1 1]]) {| cp_disk := fdisk0; cp_acked := []; cp_rest := []; cp_torn := true |}).
  split; [|split; [reflexivity|]].
  - apply nth_In. vm_compute. lia.
  - exists 1. vm_compute. discriminate.
Qed.

Definition w_torn_ops : list op := [OApply [CPut 1 1]; OCkpt; OApply [CPut 2 2]; OCkpt].
(* T4: a crash between open(truncate) and write_all of state.data loses every key written before the previous
   checkpoint, even for plain puts *)
Theorem file_checkpoint_truncation_loses_data :
  exists (ops : list op) (p : cpoint),
    In p (file_crash_points ops) /\ cp_torn p = true /\ cas_free (cp_acked p) = true /\
    exists k, reapply (snd (frecover (cp_disk p))) (cp_acked p ++ cp_rest p) (fst (frecover (cp_disk p))) k
              <> apply_all (cp_acked p ++ cp_rest p) kv0 k.
Proof.
  exists w_torn_ops.
  exists (nth 10 (file_crash_points w_torn_ops) {| cp_disk := fdisk0; cp_acked := []; cp_rest := []; cp_torn := false |}).
  split; [|split; [reflexivity|split; [reflexivity|]]].
  - apply nth_In. vm_compute. lia.
  - exists 1. vm_compute. discriminate.
Qed.

Definition w_save_ops : list op := [OApply [CPut 1 1]; OCkpt; OApply [CPut 2 2]; OSave].
(* T5: the shutdown path (Drop -> save_hard_state) writes the current index first and then rewrites state.data in
   place: a crash after the truncate leaves a node that reports EVERY entry applied (nothing will be re-applied)
   while the keys of older checkpoints are gone *)
Theorem file_save_truncation_loses_data :
  exists (ops : list op) (p : cpoint),
    In p (file_crash_points ops) /\ cp_torn p = true /\ cas_free (cp_acked p) = true /\
    snd (frecover (cp_disk p)) = N.of_nat (length (cp_acked p)) /\
    exists k, fst (frecover (cp_disk p)) k <> apply_all (cp_acked p) kv0 k.
Proof.
  exists w_save_ops.
  exists (nth 12 (file_crash_points w_save_ops) {| cp_disk := fdisk0; cp_acked := []; cp_rest := []; cp_torn := false |}).
  split; [|split; [reflexivity|split; [reflexivity|split; [reflexivity|]]]].
  - apply nth_In. vm_compute. lia.
  - exists 1. vm_compute. discriminate.
Qed.

(* ================================================================ RocksDB *)
Definition rinv (st : rstate) (done : list cmd) : Prop :=
  keq (r_kv (r_disk st)) (apply_all done kv0) /\ r_la st = N.of_nat (length done) /\
  la_of (r_meta (r_disk st)) <= r_la st.

Lemma rinv_run_op st done o : rinv st done -> rinv (rrun_op st o) (done_after done o).
Proof.
  intros (Hkv & Hla & Hmeta). destruct o as [b| |]; unfold rinv; cbn [rrun_op r_disk r_kv r_meta r_la done_after la_of].
  - repeat split.
    + rewrite apply_all_app. apply apply_all_keq. exact Hkv.
    + rewrite app_length, Nat2N.inj_add. lia.
    + lia.
  - repeat split; try assumption. lia.
  - repeat split; try assumption. lia.
Qed.

Lemma rpoints_ok ops : forall st done p,
  rinv st done -> In p (rpoints st done ops) -> acked_ok (rrecover (rp_disk p)) (rp_acked p).
Proof.
  induction ops as [|o ops IH]; intros st done p Hinv Hin; [destruct Hin|].
  cbn [rpoints] in Hin. destruct Hin as [<-|Hin].
  - destruct (rinv_run_op st done o Hinv) as (Hkv & Hla & Hmeta).
    unfold acked_ok, rrecover. cbn [rp_disk rp_acked fst snd]. split; [exact Hkv|].
    fold (la_of (r_meta (r_disk (rrun_op st o)))). lia.
  - eapply IH; [apply rinv_run_op; exact Hinv | exact Hin].
Qed.

Theorem rocks_recovered_data_complete :
  forall (ops : list op) (p : rpoint),
    In p (rocks_crash_points ops) ->
    (forall k, fst (rrecover (rp_disk p)) k = apply_all (rp_acked p) kv0 k) /\
    snd (rrecover (rp_disk p)) <= N.of_nat (length (rp_acked p)).
Proof.
  intros ops p [<-|Hin].
  - split; [intros k; reflexivity | cbn; lia].
  - apply (rpoints_ok ops rstate0 [] p); [|exact Hin]. repeat split; cbn; try apply keq_refl; lia.
Qed.

Theorem rocks_reapply_without_cas :
  forall (ops : list op) (p : rpoint),
    In p (rocks_crash_points ops) ->
    cas_free (skipn (N.to_nat (snd (rrecover (rp_disk p)))) (rp_acked p)) = true ->
    forall k, reapply (snd (rrecover (rp_disk p))) (rp_acked p) (fst (rrecover (rp_disk p))) k
              = apply_all (rp_acked p) kv0 k.
Proof.
  intros ops p Hin Hc. destruct (rocks_recovered_data_complete ops p Hin) as [Hs Hla].
  pose proof (reapply_ok _ (rp_acked p) [] _ Hs Hla Hc) as H. rewrite app_nil_r in H. exact H.
Qed.

Theorem rocks_flush_exact :
  forall (ops : list op) (st := fold_left rrun_op (ops ++ [OCkpt]) rstate0),
    snd (rrecover (r_disk st)) = r_la st.
Proof. intros ops st. subst st. rewrite fold_left_app. reflexivity. Qed.

Definition w_rocks_ops : list op := w_cas_ops.
Theorem rocks_reapply_refuted :
  exists (ops : list op) (p : rpoint),
    In p (rocks_crash_points ops) /\
    exists k, reapply (snd (rrecover (rp_disk p))) (rp_acked p) (fst (rrecover (rp_disk p))) k
              <> apply_all (rp_acked p) kv0 k.
Proof.
  exists w_rocks_ops, (nth 3 (rocks_crash_points w_rocks_ops) {| rp_disk := r_disk rstate0; rp_acked := [] |}). split.
  - apply nth_In. vm_compute. lia.
  - exists 1. vm_compute. discriminate.
Qed.

Theorem rocks_index_behind_data :
  exists (ops : list op) (p : rpoint),
    In p (rocks_crash_points ops) /\
    exists k, fst (rrecover (rp_disk p)) k
              <> apply_all (firstn (N.to_nat (snd (rrecover (rp_disk p)))) (rp_acked p)) kv0 k.
Proof.
  exists [OApply [CPut 1 1]], (nth 1 (rocks_crash_points [OApply [CPut 1 1]]) {| rp_disk := r_disk rstate0; rp_acked := [] |}). split.
  - apply nth_In. vm_compute. lia.
  - exists 1. vm_compute. discriminate.
Qed.

(* ---- non-vacuity of the positive theorems: crash points with a non-trivial state exist and satisfy the hypotheses *)
Definition demo_ops : list op := [OApply [CPut 1 5; CPutTtl 2 6 60]; OCkpt; OApply [CDel 1; CCas 2 (Some 6) 7; CPut 3 8]; OApply [CPut 1 9]].
Example demo_points : length (file_crash_points demo_ops) = 15%nat /\ length (rocks_crash_points demo_ops) = 5%nat.
Proof. vm_compute. split; reflexivity. Qed.
Example demo_file_last_point :
  let p := nth 14 (file_crash_points demo_ops) {| cp_disk := fdisk0; cp_acked := []; cp_rest := []; cp_torn := true |} in
  cp_torn p = false /\ snd (frecover (cp_disk p)) = 2 /\ length (cp_acked p) = 6%nat /\
  map (fst (frecover (cp_disk p))) [1; 2; 3] = [Some 9; Some 7; Some 8].
Proof. vm_compute. repeat split; reflexivity. Qed.
Example demo_file_no_cas_overlap :
  let p := nth 10 (file_crash_points [OApply [CPut 1 5]; OCkpt; OApply [CDel 1; CPut 3 8]]) {| cp_disk := fdisk0; cp_acked := []; cp_rest := []; cp_torn := true |} in
  cas_free (skipn (N.to_nat (snd (frecover (cp_disk p)))) (cp_acked p)) = true.
Proof. vm_compute. reflexivity. Qed.
Example demo_rocks_last_point :
  let p := nth 4 (rocks_crash_points demo_ops) {| rp_disk := r_disk rstate0; rp_acked := [] |} in
  snd (rrecover (rp_disk p)) = 2 /\ map (fst (rrecover (rp_disk p))) [1; 2; 3] = [Some 9; Some 7; Some 8].
Proof. vm_compute. repeat split; reflexivity. Qed.
