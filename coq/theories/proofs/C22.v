(* C22 — key-value commands have the documented semantics on every engine.
   Proved on DE.KV: both engines' apply_chunk (as coded) equal the reference semantics on every chunk, hence on
   every chunking of every command sequence; CAS succeeds exactly when current = expected (absent = absent);
   get / get_multi / scan_prefix are characterised by lookup. *)
From Coq Require Import NArith List Bool Lia.
From DE Require Import Val KV.
Import ListNotations.
Open Scope N_scope.

(* ---- byte strings ---- *)
Lemma bytes_eqb_spec (a b : bytes) : reflect (a = b) (bytes_eqb a b).
Proof.
  revert b. induction a as [|x a IH]; intros [|y b]; cbn [bytes_eqb]; try (constructor; congruence).
  destruct (N.eqb_spec x y) as [->|Hxy]; cbn [andb].
  - destruct (IH b) as [->|Hab]; constructor; congruence.
  - constructor; congruence.
Qed.

Lemma bytes_eqb_refl a : bytes_eqb a a = true.
Proof. destruct (bytes_eqb_spec a a); congruence. Qed.

Lemma bytes_eqb_neq a b : a <> b -> bytes_eqb a b = false.
Proof. intros H. destruct (bytes_eqb_spec a b); congruence. Qed.

Lemma obytes_eqb_spec (a b : option bytes) : reflect (a = b) (obytes_eqb a b).
Proof.
  destruct a as [x|], b as [y|]; cbn [obytes_eqb]; try (constructor; congruence).
  destruct (bytes_eqb_spec x y) as [->|H]; constructor; congruence.
Qed.

Lemma is_prefix_spec p k : is_prefix p k = true <-> exists s, k = p ++ s.
Proof.
  revert k. induction p as [|x p IH]; intros k; cbn [is_prefix].
  - split; [intros _; exists k; reflexivity | reflexivity].
  - destruct k as [|y k].
    + split; [discriminate | intros [s Hs]; discriminate].
    + destruct (N.eqb_spec x y) as [->|Hxy]; cbn [andb].
      * rewrite IH. split; intros [s Hs]; exists s; cbn [app] in *; congruence.
      * split; [discriminate | intros [s Hs]; cbn [app] in Hs; congruence].
Qed.

(* ---- lookup / set / del ---- *)
Lemma lookup_del_same k m : lookup (del k m) k = None.
Proof.
  induction m as [|[k' v] m IH]; cbn [del filter lookup fst]; [reflexivity|].
  destruct (bytes_eqb_spec k' k) as [->|Hk]; cbn [negb].
  - exact IH.
  - cbn [lookup]. rewrite (bytes_eqb_neq _ _ Hk). exact IH.
Qed.

Lemma lookup_del_other k k' m : k <> k' -> lookup (del k m) k' = lookup m k'.
Proof.
  intros Hne. induction m as [|[k2 v] m IH]; cbn [del filter lookup fst]; [reflexivity|].
  destruct (bytes_eqb_spec k2 k) as [->|Hk]; cbn [negb].
  - rewrite (bytes_eqb_neq _ _ Hne). exact IH.
  - cbn [lookup]. destruct (bytes_eqb k2 k'); [reflexivity | exact IH].
Qed.

Lemma lookup_set_same k v m : lookup (set k v m) k = Some v.
Proof. unfold set. cbn [lookup]. rewrite bytes_eqb_refl. reflexivity. Qed.

Lemma lookup_set_other k v k' m : k <> k' -> lookup (set k v m) k' = lookup m k'.
Proof. intros Hne. unfold set. cbn [lookup]. rewrite (bytes_eqb_neq _ _ Hne). apply lookup_del_other. exact Hne. Qed.

Lemma lookup_filter_key (f : key -> bool) m k :
  lookup (filter (fun p => f (fst p)) m) k = if f k then lookup m k else None.
Proof.
  induction m as [|[k' v] m IH]; cbn [filter lookup fst]; [destruct (f k); reflexivity|].
  destruct (f k') eqn:Hf; cbn [lookup].
  - destruct (bytes_eqb_spec k' k) as [->|Hk]; [rewrite Hf; reflexivity | exact IH].
  - destruct (bytes_eqb_spec k' k) as [->|Hk]; [rewrite Hf in IH |- *; exact IH | exact IH].
Qed.

Lemma mem_key_in k ks : In k ks -> mem_key k ks = true.
Proof.
  intros H. unfold mem_key. apply existsb_exists. exists k. split; [exact H | apply bytes_eqb_refl].
Qed.

(* ---- the documented meaning of the three commands, on lookup ---- *)
Lemma put_semantics m k v k' :
  snd (apply m (Put k v)) = true /\
  lookup (fst (apply m (Put k v))) k' = if bytes_eqb k k' then Some v else lookup m k'.
Proof.
  cbn [apply fst snd]. split; [reflexivity|].
  destruct (bytes_eqb_spec k k') as [->|Hne]; [apply lookup_set_same | apply lookup_set_other; exact Hne].
Qed.

Lemma del_semantics m k k' :
  snd (apply m (Del k)) = true /\
  lookup (fst (apply m (Del k))) k' = if bytes_eqb k k' then None else lookup m k'.
Proof.
  cbn [apply fst snd]. split; [reflexivity|].
  destruct (bytes_eqb_spec k k') as [->|Hne]; [apply lookup_del_same | apply lookup_del_other; exact Hne].
Qed.

Lemma cas_succeeds_iff m k e v : snd (apply m (Cas k e v)) = true <-> lookup m k = e.
Proof.
  cbn [apply]. destruct (obytes_eqb_spec (lookup m k) e) as [He|He]; cbn [snd]; split; congruence.
Qed.

Lemma cas_semantics m k e v k' :
  (lookup m k = e ->
     snd (apply m (Cas k e v)) = true /\
     lookup (fst (apply m (Cas k e v))) k' = if bytes_eqb k k' then Some v else lookup m k') /\
  (lookup m k <> e -> apply m (Cas k e v) = (m, false)).
Proof.
  cbn [apply]. destruct (obytes_eqb_spec (lookup m k) e) as [He|He]; split; intros H; try congruence.
  cbn [fst snd]. split; [reflexivity|].
  destruct (bytes_eqb_spec k k') as [->|Hne]; [apply lookup_set_same | apply lookup_set_other; exact Hne].
Qed.

(* ---- overlay view ---- *)
Definition oview (d : overlay) (m : kv) (k : key) : option value :=
  match olookup d k with Some x => x | None => lookup m k end.

Lemma oview_cons_some d m m' k v :
  (forall k', oview d m k' = lookup m' k') ->
  forall k', oview ((k, Some v) :: d) m k' = lookup (set k v m') k'.
Proof.
  intros H k'. unfold oview. cbn [olookup].
  destruct (bytes_eqb_spec k k') as [->|Hne].
  - rewrite lookup_set_same. reflexivity.
  - rewrite (lookup_set_other _ _ _ _ Hne). apply H.
Qed.

Lemma oview_cons_none d m m' k :
  (forall k', oview d m k' = lookup m' k') ->
  forall k', oview ((k, None) :: d) m k' = lookup (del k m') k'.
Proof.
  intros H k'. unfold oview. cbn [olookup].
  destruct (bytes_eqb_spec k k') as [->|Hne].
  - rewrite lookup_del_same. reflexivity.
  - rewrite (lookup_del_other _ _ _ Hne). apply H.
Qed.

(* ---- FileStateMachine::apply_chunk = reference ---- *)
Lemma file_spec base data0 : forall cs delta m,
  (forall k, In k (cas_keys cs) -> lookup base k = lookup data0 k) ->
  (forall k, oview delta data0 k = lookup m k) ->
  file_pass3 m cs (file_pass1 base delta cs) = apply_all m cs.
Proof.
  induction cs as [|c cs IH]; intros delta m Hbase Hview; [reflexivity|].
  destruct c as [k v|k|k e v|].
  - cbn [file_pass1 file_pass3 apply_all apply].
    rewrite (IH ((k, Some v) :: delta) (set k v m)).
    + destruct (apply_all (set k v m) cs); reflexivity.
    + intros k' Hin. apply Hbase. exact Hin.
    + apply oview_cons_some. exact Hview.
  - cbn [file_pass1 file_pass3 apply_all apply].
    rewrite (IH ((k, None) :: delta) (del k m)).
    + destruct (apply_all (del k m) cs); reflexivity.
    + intros k' Hin. apply Hbase. exact Hin.
    + apply oview_cons_none. exact Hview.
  - cbn [file_pass1 file_pass3 apply_all apply].
    assert (Hcur : match olookup delta k with Some x => x | None => lookup base k end = lookup m k).
    { rewrite <- Hview. unfold oview. destruct (olookup delta k); [reflexivity|].
      apply Hbase. cbn [cas_keys flat_map app]. left. reflexivity. }
    rewrite Hcur.
    assert (Hbase' : forall k', In k' (cas_keys cs) -> lookup base k' = lookup data0 k').
    { intros k' Hin. apply Hbase. cbn [cas_keys flat_map app]. right. exact Hin. }
    destruct (obytes_eqb (lookup m k) e).
    + rewrite (IH ((k, Some v) :: delta) (set k v m) Hbase').
      * destruct (apply_all (set k v m) cs); reflexivity.
      * apply oview_cons_some. exact Hview.
    + rewrite (IH delta m Hbase' Hview). destruct (apply_all m cs); reflexivity.
  - cbn [file_pass1 file_pass3 apply_all apply].
    rewrite (IH delta m).
    + destruct (apply_all m cs); reflexivity.
    + intros k' Hin. apply Hbase. exact Hin.
    + exact Hview.
Qed.

Lemma file_chunk_correct m chunk : file_apply_chunk m chunk = apply_all m chunk.
Proof.
  unfold file_apply_chunk. apply (file_spec _ m).
  - intros k Hin. unfold file_base. rewrite (lookup_filter_key (fun k => mem_key k (cas_keys chunk))).
    rewrite (mem_key_in _ _ Hin). reflexivity.
  - intros k. reflexivity.
Qed.

(* ---- RocksDBStateMachine::apply_chunk = reference ---- *)
Lemma lookup_rocks_write db batch k : lookup (rocks_write db batch) k = oview batch db k.
Proof.
  induction batch as [|[k' x] batch IH]; [reflexivity|].
  unfold oview in *. cbn [rocks_write fold_right fst snd olookup]. fold (rocks_write db batch).
  destruct x as [v|]; destruct (bytes_eqb_spec k' k) as [->|Hne].
  - apply lookup_set_same.
  - rewrite (lookup_set_other _ _ _ _ Hne). exact IH.
  - apply lookup_del_same.
  - rewrite (lookup_del_other _ _ _ Hne). exact IH.
Qed.

Lemma rocks_spec db : forall cs batch,
  rocks_write db (fst (rocks_loop db batch cs)) = fst (apply_all (rocks_write db batch) cs) /\
  snd (rocks_loop db batch cs) = snd (apply_all (rocks_write db batch) cs).
Proof.
  induction cs as [|c cs IH]; intros batch; [split; reflexivity|].
  destruct c as [k v|k|k e v|]; cbn [rocks_loop apply_all apply].
  - specialize (IH ((k, Some v) :: batch)). cbn [rocks_write fold_right fst snd] in IH. fold (rocks_write db batch) in IH.
    destruct (rocks_loop db ((k, Some v) :: batch) cs) as [b2 rs]; destruct (apply_all (set k v (rocks_write db batch)) cs) as [m2 bs].
    cbn [fst snd] in *. destruct IH as [-> ->]. split; reflexivity.
  - specialize (IH ((k, None) :: batch)). cbn [rocks_write fold_right fst snd] in IH. fold (rocks_write db batch) in IH.
    destruct (rocks_loop db ((k, None) :: batch) cs) as [b2 rs]; destruct (apply_all (del k (rocks_write db batch)) cs) as [m2 bs].
    cbn [fst snd] in *. destruct IH as [-> ->]. split; reflexivity.
  - assert (Hcur : match olookup batch k with Some x => x | None => lookup db k end = lookup (rocks_write db batch) k).
    { rewrite lookup_rocks_write. reflexivity. }
    rewrite Hcur. destruct (obytes_eqb (lookup (rocks_write db batch) k) e).
    + specialize (IH ((k, Some v) :: batch)). cbn [rocks_write fold_right fst snd] in IH. fold (rocks_write db batch) in IH.
      destruct (rocks_loop db ((k, Some v) :: batch) cs) as [b2 rs]; destruct (apply_all (set k v (rocks_write db batch)) cs) as [m2 bs].
      cbn [fst snd] in *. destruct IH as [-> ->]. split; reflexivity.
    + specialize (IH batch).
      destruct (rocks_loop db batch cs) as [b2 rs]; destruct (apply_all (rocks_write db batch) cs) as [m2 bs].
      cbn [fst snd] in *. destruct IH as [-> ->]. split; reflexivity.
  - specialize (IH batch).
    destruct (rocks_loop db batch cs) as [b2 rs]; destruct (apply_all (rocks_write db batch) cs) as [m2 bs].
    cbn [fst snd] in *. destruct IH as [-> ->]. split; reflexivity.
Qed.

Lemma rocks_chunk_correct m chunk : rocks_apply_chunk m chunk = apply_all m chunk.
Proof.
  unfold rocks_apply_chunk. pose proof (rocks_spec m chunk []) as H.
  cbn [rocks_write fold_right] in H.
  destruct (rocks_loop m [] chunk) as [b rs]; destruct (apply_all m chunk) as [m2 bs].
  cbn [fst snd] in H. destruct H as [-> ->]. reflexivity.
Qed.

(* ---- chunking is irrelevant ---- *)
Lemma apply_all_app m a b :
  apply_all m (a ++ b) =
  (fst (apply_all (fst (apply_all m a)) b), snd (apply_all m a) ++ snd (apply_all (fst (apply_all m a)) b)).
Proof.
  revert m. induction a as [|c a IH]; intros m; cbn [app apply_all fst snd].
  - destruct (apply_all m b); reflexivity.
  - destruct (apply m c) as [m1 r]. rewrite IH.
    destruct (apply_all m1 a) as [m2 bs]. cbn [fst snd]. reflexivity.
Qed.

Lemma run_chunks_correct step :
  (forall m ch, step m ch = apply_all m ch) ->
  forall chunks m, run_chunks step m chunks = apply_all m (concat chunks).
Proof.
  intros Hstep. induction chunks as [|ch rest IH]; intros m; cbn [run_chunks concat]; [reflexivity|].
  rewrite Hstep, apply_all_app. destruct (apply_all m ch) as [m1 r1]. cbn [fst snd].
  rewrite IH. destruct (apply_all m1 (concat rest)); reflexivity.
Qed.

Theorem engines_equal_reference :
  forall (m : kv) (cmds : list cmd) (chunks_f chunks_r : list (list cmd)),
    concat chunks_f = cmds -> concat chunks_r = cmds ->
    run_chunks file_apply_chunk m chunks_f = apply_all m cmds /\
    run_chunks rocks_apply_chunk m chunks_r = apply_all m cmds.
Proof.
  intros m cmds cf cr <- Hr. split.
  - apply run_chunks_correct. exact file_chunk_correct.
  - rewrite <- Hr. apply run_chunks_correct. exact rocks_chunk_correct.
Qed.

(* ---- well-formed stores and the reads ---- *)
Definition wf (m : kv) : Prop := NoDup (map fst m).

Lemma in_map_fst_filter (f : key * value -> bool) m k : In k (map fst (filter f m)) -> In k (map fst m).
Proof.
  intros H. apply in_map_iff in H. destruct H as [[k' v] [<- Hin]]. apply filter_In in Hin.
  apply in_map_iff. exists (k', v). split; [reflexivity | tauto].
Qed.

Lemma wf_filter (f : key * value -> bool) m : wf m -> wf (filter f m).
Proof.
  unfold wf. induction m as [|[k v] m IH]; intros H; cbn [filter map]; [constructor|].
  inversion H as [|? ? Hnin Hnd]; subst.
  destruct (f (k, v)); cbn [map fst].
  - constructor; [|apply IH; exact Hnd]. intros Hin. apply Hnin. exact (in_map_fst_filter _ _ _ Hin).
  - apply IH; exact Hnd.
Qed.

Lemma not_in_del k m : ~ In k (map fst (del k m)).
Proof.
  intros H. apply in_map_iff in H. destruct H as [[k' v] [Hk Hin]]. cbn [fst] in Hk. subst k'.
  unfold del in Hin. apply filter_In in Hin. destruct Hin as [_ Hf]. cbn [fst] in Hf.
  rewrite bytes_eqb_refl in Hf. discriminate.
Qed.

Lemma wf_set k v m : wf m -> wf (set k v m).
Proof.
  intros H. unfold wf, set. cbn [map fst]. constructor; [apply not_in_del | apply wf_filter; exact H].
Qed.

Lemma wf_apply m c : wf m -> wf (fst (apply m c)).
Proof.
  intros H. destruct c as [k v|k|k e v|]; cbn [apply fst].
  - apply wf_set; exact H.
  - apply wf_filter; exact H.
  - destruct (obytes_eqb (lookup m k) e); cbn [fst]; [apply wf_set; exact H | exact H].
  - exact H.
Qed.

Lemma wf_apply_all cs : forall m, wf m -> wf (fst (apply_all m cs)).
Proof.
  induction cs as [|c cs IH]; intros m H; cbn [apply_all fst]; [exact H|].
  pose proof (wf_apply m c H) as H1. destruct (apply m c) as [m1 r]. cbn [fst] in H1.
  specialize (IH m1 H1). destruct (apply_all m1 cs) as [m2 bs]. exact IH.
Qed.

Lemma lookup_none_not_in m k : lookup m k = None <-> ~ In k (map fst m).
Proof.
  induction m as [|[k' v] m IH]; cbn [lookup map fst In]; [tauto|].
  destruct (bytes_eqb_spec k' k) as [->|Hne].
  - split; [discriminate | intros H; exfalso; apply H; left; reflexivity].
  - rewrite IH. tauto.
Qed.

Lemma in_lookup m k v : wf m -> (In (k, v) m <-> lookup m k = Some v).
Proof.
  unfold wf. induction m as [|[k' v'] m IH]; intros H; cbn [lookup In map fst] in *.
  - split; [tauto | discriminate].
  - inversion H as [|? ? Hnin Hnd]; subst. specialize (IH Hnd).
    destruct (bytes_eqb_spec k' k) as [->|Hne].
    + split.
      * intros [Heq|Hin]; [congruence|]. exfalso. apply Hnin. apply in_map_iff. exists (k, v). split; [reflexivity | exact Hin].
      * intros Heq. left. congruence.
    + rewrite <- IH. split; [intros [Heq|Hin]; [congruence | exact Hin] | intros Hin; right; exact Hin].
Qed.

Lemma scan_spec m p k v :
  wf m -> (In (k, v) (scan_prefix m p) <-> lookup m k = Some v /\ is_prefix p k = true).
Proof.
  intros H. unfold scan_prefix. rewrite filter_In. cbn [fst]. rewrite (in_lookup m k v H). tauto.
Qed.

Lemma scan_nodup m p : wf m -> NoDup (map fst (scan_prefix m p)).
Proof. intros H. apply wf_filter. exact H. Qed.

Lemma get_multi_aligned m ks :
  length (get_multi m ks) = length ks /\
  forall i, (i < length ks)%nat -> nth i (get_multi m ks) None = lookup m (nth i ks []).
Proof.
  unfold get_multi. split; [apply map_length|].
  intros i Hi. rewrite (nth_indep _ None (lookup m []))by (rewrite map_length; exact Hi).
  apply (map_nth (lookup m)).
Qed.

Lemma wf_nil : wf [].
Proof. constructor. Qed.

(* the observation of a run from the empty store: flags, get, get_multi, scan_prefix *)
Theorem reads_of_any_run :
  forall (cmds : list cmd) (chunks : list (list cmd)) (step : kv -> list cmd -> kv * list bool),
    step = file_apply_chunk \/ step = rocks_apply_chunk ->
    concat chunks = cmds ->
    let st := fst (run_chunks step [] chunks) in
    let ref := fst (apply_all [] cmds) in
    snd (run_chunks step [] chunks) = snd (apply_all [] cmds) /\
    (forall k, get st k = lookup ref k) /\
    (forall ks, length (get_multi st ks) = length ks /\
                forall i, (i < length ks)%nat -> nth i (get_multi st ks) None = lookup ref (nth i ks [])) /\
    (forall p k v, In (k, v) (scan_prefix st p) <-> lookup ref k = Some v /\ is_prefix p k = true) /\
    (forall p, NoDup (map fst (scan_prefix st p))).
Proof.
  intros cmds chunks step Hstep Hc st ref.
  assert (Hrun : run_chunks step [] chunks = apply_all [] cmds).
  { rewrite <- Hc. destruct Hstep as [->| ->]; apply run_chunks_correct; [exact file_chunk_correct | exact rocks_chunk_correct]. }
  subst st ref. rewrite Hrun.
  pose proof (wf_apply_all cmds [] wf_nil) as Hwf.
  split; [reflexivity|]. split; [reflexivity|]. split; [intros ks; apply get_multi_aligned|].
  split; [intros p k v; apply scan_spec; exact Hwf | intros p; apply scan_nodup; exact Hwf].
Qed.

(* the engines' scan_prefix as coded: equal for every non-empty prefix ... *)
Lemma rocks_scan_nonempty m p : p <> [] -> rocks_scan m p = file_scan m p.
Proof. intros H. destruct p; [congruence | reflexivity]. Qed.

(* ... and different on the empty prefix as soon as the store is not empty *)
Lemma scan_empty_prefix_refuted :
  exists cmds, file_scan (fst (run_chunks file_apply_chunk [] [cmds])) [] <>
               rocks_scan (fst (run_chunks rocks_apply_chunk [] [cmds])) [].
Proof. exists [Put [1] [2]]. vm_compute. discriminate. Qed.

(* ---- non-vacuity ---- *)
Example ex_overlay_matters :
  (* one chunk in which a CAS must see the put and the delete of earlier entries of the same chunk *)
  let cmds := [Put [1] [7]; Cas [1] (Some [7]) [8]; Del [1]; Cas [1] None [9]; Cas [1] (Some [8]) [5]; Cas [2] (Some []) [1]] in
  file_apply_chunk [([2], [])] cmds = ([([2], [1]); ([1], [9])], [true; true; true; true; false; true]) /\
  rocks_apply_chunk [([2], [])] cmds = ([([2], [1]); ([1], [9])], [true; true; true; true; false; true]) /\
  run_chunks file_apply_chunk [([2], [])] [[Put [1] [7]]; [Cas [1] (Some [7]) [8]; Del [1]]; []; [Cas [1] None [9]; Cas [1] (Some [8]) [5]; Cas [2] (Some []) [1]]]
    = apply_all [([2], [])] cmds.
Proof. vm_compute. repeat split. Qed.

Example ex_cas_absent_matches_absent :
  snd (apply [] (Cas [1] None [2])) = true /\ snd (apply [([1], [])] (Cas [1] None [2])) = false /\
  snd (apply [] (Cas [1] (Some []) [2])) = false /\ snd (apply [([1], [])] (Cas [1] (Some []) [2])) = true.
Proof. vm_compute. repeat split. Qed.

Example ex_scan :
  scan_prefix (fst (apply_all [] [Put [1; 2] [5]; Put [1] [6]; Put [2; 1] [7]; Del [1]])) [1] = [([1; 2], [5])].
Proof. vm_compute. reflexivity. Qed.
