(* C18 — the Raft log recovers a durable, gap-free prefix after a crash.
   Model: LogCrash.v (IO task of buffered_raft_log.rs, one step per select! arm, two-layer store).

   Part 1 (refutations).  The faithful model violates every part of the statement; each witness is a
   schedule the real code follows when the IO thread goes idle between calls, and replays on the real
   code through the probe `logcrash` (in-memory store, FileStorageEngine, RocksDBStorageEngine):
   durable_index is advanced with fetch_max and is not lowered by a conflict truncation, so entries
   appended afterwards at or below it are never persisted, flush() short-circuits, and the store keeps
   a hole / the old entries.
   Two further witnesses (purge_race_gap, replace_race_gap) need an IO arm to run while the caller is
   blocked on a done channel; they exist in the model only (the real IO thread cannot be scheduled
   that finely without the proposed step-wise hook).

   Part 2 (what holds).  C18_safe_partial, see below. *)
From Coq Require Import NArith List Bool Lia.
From DE Require Import Val BufLog PLog LogCrash.
From DE.proofs Require Import C19.
Import ListNotations.
Open Scope N_scope.

Definition E (i t : N) : entry := {| e_idx := i; e_term := t; e_pl := 100 * t + i |}.

(* ------------------------------------------------------------------ *)
(* Part 1: witnesses                                                    *)
(* ------------------------------------------------------------------ *)
(* log 1..10 term 1 durable; the leader of term 2 replaces 6..10 by 6'; 7', 8' follow; flush; close *)
Definition s6_run : list label :=
  [ LAppend (map (fun i => E i 1) [1;2;3;4;5;6;7;8;9;10]); LIoNotify;
    LFilter 5 1 [E 6 2]; LIoCmd;
    LAppend [E 7 2; E 8 2]; LIoNotify;
    LFlush ].

Lemma s6_state :
  let s := run s6_run st0 in
  durable (mem s) = 10 /\ bmax (mem s) = 8 /\ queue s = [] /\
  map e_idx (recover (wr s)) = [1;2;3;4;5;6] /\ map e_idx (recover (sy s)) = [1;2;3;4;5;6].
Proof. vm_compute. repeat split; reflexivity. Qed.

(* "contains every entry the log had reported as durable": refuted, in both crash modes, and even
   over a graceful close *)
Theorem durable_lost_refuted :
  exists ls e, forall m,
    let s := run ls st0 in
    In e (ents (mem s)) /\ e_idx e <= durable (mem s) /\ ~ In e (recover (surviving m s)).
Proof.
  exists s6_run, (E 7 2). intros m. cbv zeta. split; [|split].
  - vm_compute. tauto.
  - vm_compute. discriminate.
  - destruct m; vm_compute; intros H; repeat (destruct H as [H|H]; [discriminate H|]); exact H.
Qed.

Theorem durable_lost_over_graceful_close :
  let s := run (s6_run ++ [LClose]) st0 in
  alive s = false /\ In (E 8 2) (ents (mem s)) /\ durable_keptb s (recover (wr s)) = false /\
  durable_keptb s (recover (sy s)) = false.
Proof. vm_compute. repeat split; try reflexivity. tauto. Qed.

(* "no index gaps": refuted *)
Definition gap_run : list label :=
  [ LAppend [E 1 1; E 2 1; E 3 1; E 4 1]; LIoNotify;
    LFilter 2 1 [E 3 2]; LIoCmd;
    LAppend [E 4 2; E 5 2; E 6 2]; LIoNotify; LFlush ].

Theorem gap_refuted :
  exists ls, forall m, gapfreeb (recover (surviving m (run ls st0))) = false.
Proof. exists gap_run. intros m. destruct m; vm_compute; reflexivity. Qed.

Example gap_run_recovered : map e_idx (recover (wr (run gap_run st0))) = [1;2;3;5;6].
Proof. vm_compute. reflexivity. Qed.

(* "never brings back an entry that a truncation had replaced": refuted for power loss, even though
   flush() returned after the truncation (it short-circuits: durable_index >= max_index) *)
Definition back_run1 : list label := [ LAppend [E 1 1; E 2 1; E 3 1]; LIoNotify ].
Definition back_run2 : list label := [ LFilter 1 1 [E 2 2; E 3 2]; LIoCmd; LFlush ].

Theorem resurrection_power_loss_refuted :
  exists ls1 ls2 e,
    In e (ents (mem (run ls1 st0))) /\                     (* e was in the log *)
    ~ In e (ents (mem (run (ls1 ++ ls2) st0))) /\          (* a conflict truncation replaced it *)
    last ls2 LIoCmd = LFlush /\ queue (run (ls1 ++ ls2) st0) = [] /\   (* flush() has returned *)
    In e (recover (surviving PowerLoss (run (ls1 ++ ls2) st0))).
Proof.
  exists back_run1, back_run2, (E 2 1). split; [|split; [|split; [|split]]].
  - vm_compute. tauto.
  - vm_compute. intros H; repeat (destruct H as [H|H]; [discriminate H|]); exact H.
  - reflexivity.
  - vm_compute. reflexivity.
  - vm_compute. tauto.
Qed.

(* model-only witnesses: an IO arm that runs while the caller is blocked on a done channel *)
Definition purge_race_run : list label :=
  [ LAppend (map (fun i => E i 1) [1;2;3;4;5]); LIoNotify;
    LAppend (map (fun i => E i 1) [6;7;8;9;10]);      (* permit pending, nothing persisted yet *)
    LPurge 8 1;                                        (* durable := 8, Purge queued *)
    LIoTimer ].                                        (* persists (8,10]; the store still holds 1..5 *)
Theorem purge_race_gap :
  map e_idx (recover (wr (run purge_race_run st0))) = [1;2;3;4;5;9;10] /\
  durable (mem (run purge_race_run st0)) = 10.
Proof. vm_compute. split; reflexivity. Qed.

Definition replace_race_run : list label :=
  [ LAppend [E 1 1; E 2 1; E 3 1]; LIoNotify;
    LAppend [E 4 1; E 5 1; E 6 1; E 7 1; E 8 1];       (* not yet persisted *)
    LFilter 6 1 [E 7 2]; LIoCmd ].                     (* ReplaceRange(7) lands before 4..6 are written *)
Theorem replace_race_gap :
  map e_idx (recover (wr (run replace_race_run st0))) = [1;2;3;7] /\
  durable (mem (run replace_race_run st0)) = 3.
Proof. vm_compute. split; reflexivity. Qed.

(* ------------------------------------------------------------------ *)
(* Part 2: what holds for ALL states — the mechanism behind the witnesses *)
(* ------------------------------------------------------------------ *)
(* FULL STATEMENT NOT PROVED IN TIME (kept here as the target; every hypothesis is shown necessary by a
   witness of Part 1):
     Theorem C18_safe : forall ls, safe_run st0 ls ->
       let s := fold_left (fun s l => resume (exec s l)) ls st0 in forall m,
       gapfreeb (recover (surviving m s)) = true /\ durable_keptb s (recover (surviving m s)) = true /\
       (m = ProcessCrash -> forall e, In e (recover (wr s)) -> In e (ents (mem s))).
   where safe_run asks, per label and in the state it is issued: appended entries are contiguous from the
   last index + 1; for FReplace d tl: durable < d, pmax < d (else s6_run / gap_run / back_run), tl contiguous
   from d, and every live entry below d is already in the written layer (else replace_race_run); for
   LPurge c: pg_idx <= c; commands are consumed by the recv arm before another IO arm runs (else
   purge_race_run).  Invariant intended for the induction:
     contig (pg_idx+1) (ents mem) /\ bmax = back_idx (ents mem) /\
     (exists rest, ents mem = wr ++ rest /\ forall e, In e rest -> N.max durable pmax < e_idx e) /\
     N.max durable pmax <= last index /\ (exists m, 1 <= m /\ contig m sy) /\
     (forall e, In e (ents mem) -> e_idx e <= durable -> In e sy) /\ queue = [] /\ after = [].
   What is proved below (the `_partial` theorems) are the three facts, for ALL states, that make a
   stale durable_index fatal. *)

(* (1) a conflict truncation, including its ReplaceRange handled by the IO task, never changes durable_index *)
Lemma durable_insert : forall b es, durable (b_insert b es) = durable b.
Proof.
  intros b es. unfold b_insert. destruct es as [|f es']; [reflexivity|].
  destruct (upd_term_idx (tfirst b) (tlast b) (f :: es')) as [tf tl]. reflexivity.
Qed.

Theorem truncation_keeps_durable_partial : forall s prev pterm es d tl,
  filter_act (mem s) prev pterm es = FReplace d tl -> alive s = true -> queue s = [] ->
  let s' := io_cmd (do_filter s prev pterm es) in
  durable (mem s') = durable (mem s) /\ queue s' = [] /\
  bmax (mem s') = bmax (b_insert (b_remove_range (mem s) d U64MAX) tl).
Proof.
  intros s prev pterm es d tl Hact Hal Hq. cbv zeta. unfold do_filter. rewrite Hact.
  unfold io_cmd, send. cbn [with_queue with_mem alive queue mem]. rewrite Hal, Hq. cbn [app].
  unfold handle. cbn [with_queue with_store mem queue wr pmax].
  cbn [with_mem mem].
  rewrite durable_insert. unfold b_remove_range. cbn [durable]. auto.
Qed.

(* (2) flush() does nothing at all when durable_index >= max_index *)
Theorem flush_short_circuit_partial : forall s, bmax (mem s) <= durable (mem s) -> do_flush s = s.
Proof.
  intros s H. unfold do_flush. destruct (bmax (mem s) =? 0); [reflexivity|].
  destruct (N.leb_spec (bmax (mem s)) (durable (mem s))) as [_|C]; [reflexivity|lia].
Qed.

(* (3) no arm of the IO task ever writes an entry at or below durable_index *)
Lemma in_ins1 : forall l x e, In e (ins1 l x) -> e = x \/ In e l.
Proof.
  induction l as [|y l IH]; intros x e H; cbn [ins1] in H.
  - destruct H as [H|[]]. left. auto.
  - destruct (e_idx x <? e_idx y).
    + destruct H as [H|H]; [left; auto|right; exact H].
    + destruct (e_idx x =? e_idx y).
      * destruct H as [H|H]; [left; auto|right; right; exact H].
      * destruct H as [H|H]; [right; left; exact H|].
        destruct (IH x e H) as [A|A]; [left; exact A|right; right; exact A].
Qed.
Lemma in_ins_all : forall es l e, In e (ins_all l es) -> In e l \/ In e es.
Proof.
  unfold ins_all. induction es as [|x es IH]; intros l e H; cbn [fold_left] in H.
  - left. exact H.
  - destruct (IH _ _ H) as [A|A].
    + destruct (in_ins1 _ _ _ A) as [B|B]; [right; left; auto|left; exact B].
    + right. right. exact A.
Qed.

Lemma persist_from_writes : forall s lo e, In e (wr (persist_from s lo)) -> In e (wr s) \/ (In e (ents (mem s)) /\ lo <= e_idx e).
Proof.
  intros s lo e H. unfold persist_from in H. destruct (lo <=? bmax (mem s)); [|left; exact H].
  destruct (range (ents (mem s)) lo (bmax (mem s))) as [|x xs] eqn:R; [left; exact H|].
  cbn [with_store wr] in H. unfold s_persist in H. destruct (in_ins_all _ _ _ H) as [A|A]; [left; exact A|].
  right. rewrite <- R in A. unfold range in A. apply filter_In in A. destruct A as [A1 A2].
  split; [exact A1|]. unfold in_range in A2. apply andb_prop in A2. destruct A2 as [A2 _].
  apply N.leb_le in A2. exact A2.
Qed.

Lemma fsync_wr : forall s, wr (fsync s) = wr s.
Proof. intros s. unfold fsync. destruct (0 <? pmax s); reflexivity. Qed.

Theorem io_never_writes_at_or_below_durable_partial : forall s e,
  queue s = [] ->
  (In e (wr (io_notify s)) \/ In e (wr (io_timer s)) \/ In e (wr (io_cmd (send s TFlush)))) ->
  In e (wr s) \/ (In e (ents (mem s)) /\ durable (mem s) < e_idx e).
Proof.
  intros s e Hq H.
  assert (P : forall s0, mem s0 = mem s -> wr s0 = wr s -> In e (wr (persist_range s0)) ->
              In e (wr s) \/ (In e (ents (mem s)) /\ durable (mem s) < e_idx e)).
  { intros s0 Hm Hw Hin. unfold persist_range in Hin. destruct (persist_from_writes _ _ _ Hin) as [A|[A B]].
    - left. rewrite <- Hw. exact A.
    - right. rewrite <- Hm. split; [exact A|lia]. }
  destruct H as [H|[H|H]].
  - unfold io_notify in H. destruct (alive s && notified s); [|left; exact H].
    set (s1 := persist_range (with_notified s false)) in *.
    assert (Q1 : queue s1 = []).
    { unfold s1, persist_range, persist_from. cbn [with_notified mem queue].
      destruct (_ <=? _); [|exact Hq]. destruct (range _ _ _); exact Hq. }
    rewrite Q1 in H. cbn [drain] in H. cbn [andb] in H.
    destruct (alive s); cbn [with_queue] in H; rewrite fsync_wr in H; cbn [wr] in H;
      apply (P (with_notified s false)); try reflexivity; exact H.
  - unfold io_timer in H. destruct (alive s); [|left; exact H]. rewrite fsync_wr in H. apply (P s); auto.
  - unfold io_cmd, send in H. cbn [with_queue alive queue] in H. rewrite Hq in H. cbn [app] in H.
    destruct (alive s); [|left; exact H].
    set (s1 := persist_range _) in H.
    assert (Q1 : queue s1 = []).
    { unfold s1, persist_range, persist_from. cbn [with_queue mem queue].
      destruct (_ <=? _); [|reflexivity]. destruct (range _ _ _); reflexivity. }
    rewrite Q1 in H. cbn [drain] in H. rewrite fsync_wr in H. cbn [with_queue wr] in H.
    apply (P (with_queue s [])); try reflexivity. exact H.
Qed.

(* non-vacuity: in the state after the truncation of s6_run, entry 7 of term 2 is live, at or below
   durable_index, not written, and flush() is the identity *)
Example mechanism_nonvacuous :
  let s := run [ LAppend (map (fun i => E i 1) [1;2;3;4;5;6;7;8;9;10]); LIoNotify; LFilter 5 1 [E 6 2]; LIoCmd;
                 LAppend [E 7 2; E 8 2] ] st0 in
  filter_act (mem (run [ LAppend (map (fun i => E i 1) [1;2;3;4;5;6;7;8;9;10]); LIoNotify ] st0)) 5 1 [E 6 2] = FReplace 6 [E 6 2] /\
  queue s = [] /\ In (E 7 2) (ents (mem s)) /\ e_idx (E 7 2) <= durable (mem s) /\ ~ In (E 7 2) (wr s) /\
  bmax (mem s) <= durable (mem s).
Proof.
  vm_compute. repeat split; try reflexivity; try tauto; try discriminate.
  intros H; repeat (destruct H as [H|H]; [discriminate H|]); exact H.
Qed.

Print Assumptions durable_lost_refuted.
Print Assumptions io_never_writes_at_or_below_durable_partial.
