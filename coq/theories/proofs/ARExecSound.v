(* Soundness of the executable abstract steps: whatever [aexec] accepts is an [astep] of DE.AbstractRaft,
   hence a label list accepted from [ainit] ends in a [reach]able state, to which every safety theorem of
   AR_election / AR_logs / AR_complete / AR_sms applies. *)
From Coq Require Import NArith PeanoNat List Bool Lia.
From DE Require Import Val AbstractRaft ARExec.
Import ListNotations.
Open Scope N_scope.

(* ---------------------------------------------------------------- reflection of the boolean tests *)
Lemma mem_n_In : forall x l, mem_n x l = true -> In x l.
Proof.
  intros x l H. unfold mem_n in H. apply existsb_exists in H. destruct H as [y [Hy He]].
  apply N.eqb_eq in He. subst y. exact Hy.
Qed.

Lemma mem_n_false : forall x l, mem_n x l = false -> ~ In x l.
Proof.
  intros x l H Hin. unfold mem_n in H.
  assert (Ht : existsb (N.eqb x) l = true).
  { apply existsb_exists. exists x. split; [exact Hin | apply N.eqb_refl]. }
  rewrite Ht in H. discriminate H.
Qed.

Lemma pair_eqb_eq : forall a b, pair_eqb a b = true -> a = b.
Proof.
  intros [a1 a2] [b1 b2] H. unfold pair_eqb in H. cbn [fst snd] in H.
  apply andb_true_iff in H. destruct H as [H1 H2].
  apply N.eqb_eq in H1. apply N.eqb_eq in H2. subst. reflexivity.
Qed.

Lemma trip_eqb_eq : forall a b, trip_eqb a b = true -> a = b.
Proof.
  intros [a1 a2] [b1 b2] H. unfold trip_eqb in H. cbn [fst snd] in H.
  apply andb_true_iff in H. destruct H as [H1 H2].
  apply pair_eqb_eq in H1. apply N.eqb_eq in H2. subst. reflexivity.
Qed.

Lemma cand_eqb_eq : forall a b, cand_eqb a b = true -> a = b.
Proof.
  intros [a1 a2] [b1 b2] H. unfold cand_eqb in H. cbn [fst snd] in H.
  apply andb_true_iff in H. destruct H as [H1 H2].
  apply pair_eqb_eq in H1. apply pair_eqb_eq in H2. subst. reflexivity.
Qed.

Lemma mem_pair_In : forall x l, mem_pair x l = true -> In x l.
Proof.
  intros x l H. unfold mem_pair in H. apply existsb_exists in H. destruct H as [y [Hy He]].
  apply pair_eqb_eq in He. subst y. exact Hy.
Qed.

Lemma mem_trip_In : forall x l, mem_trip x l = true -> In x l.
Proof.
  intros x l H. unfold mem_trip in H. apply existsb_exists in H. destruct H as [y [Hy He]].
  apply trip_eqb_eq in He. subst y. exact Hy.
Qed.

Lemma mem_cand_In : forall x l, mem_cand x l = true -> In x l.
Proof.
  intros x l H. unfold mem_cand in H. apply existsb_exists in H. destruct H as [y [Hy He]].
  apply cand_eqb_eq in He. subst y. exact Hy.
Qed.

Lemma nodup_b_NoDup : forall l, nodup_b l = true -> NoDup l.
Proof.
  induction l as [|x r IH]; intros H.
  - constructor.
  - cbn [nodup_b] in H. apply andb_true_iff in H. destruct H as [H1 H2].
    constructor.
    + apply mem_n_false. destruct (mem_n x r); [discriminate H1 | reflexivity].
    + apply IH. exact H2.
Qed.

Lemma incl_b_incl : forall a b, incl_b a b = true -> incl a b.
Proof.
  intros a b H x Hx. unfold incl_b in H. rewrite forallb_forall in H.
  apply mem_n_In. apply H. exact Hx.
Qed.

Lemma majority_b_majority : forall nodes vs, majority_b nodes vs = true -> majority nodes vs.
Proof.
  intros nodes vs H. unfold majority_b in H.
  apply andb_true_iff in H. destruct H as [H H3].
  apply andb_true_iff in H. destruct H as [H1 H2].
  unfold majority. split; [|split].
  - apply nodup_b_NoDup. exact H1.
  - apply incl_b_incl. exact H2.
  - apply Nat.ltb_lt. exact H3.
Qed.

Lemma has_cand_In : forall n t l, has_cand n t l = true -> exists last, In (n, t, last) l.
Proof.
  intros n t l H. unfold has_cand in H. apply existsb_exists in H.
  destruct H as [[[c t'] last] [Hy He]]. cbn [fst] in He. apply pair_eqb_eq in He.
  injection He as E1 E2. subst c t'. exists last. exact Hy.
Qed.

Lemma has_leader_false : forall t l, has_leader t l = false -> forall m, ~ In (m, t) l.
Proof.
  intros t l H m Hin. unfold has_leader in H.
  assert (Ht : existsb (fun x : N * N => snd x =? t) l = true).
  { apply existsb_exists. exists (m, t). split; [exact Hin | cbn [snd]; apply N.eqb_refl]. }
  rewrite Ht in H. discriminate H.
Qed.

Lemma has_leader_In : forall t l, has_leader t l = true -> exists m, In (m, t) l.
Proof.
  intros t l H. unfold has_leader in H. apply existsb_exists in H.
  destruct H as [[m t'] [Hy He]]. cbn [snd] in He. apply N.eqb_eq in He. subst t'.
  exists m. exact Hy.
Qed.

Lemma has_ack_In : forall v t i l, has_ack v t i l = true -> exists m, i <= m /\ In (v, t, m) l.
Proof.
  intros v t i l H. unfold has_ack in H. apply existsb_exists in H.
  destruct H as [[[v' t'] m] [Hy He]]. cbn [fst snd] in He.
  apply andb_true_iff in He. destruct He as [He1 He2].
  apply pair_eqb_eq in He1. injection He1 as E1 E2. subst v' t'.
  apply N.leb_le in He2. exists m. split; [exact He2 | exact Hy].
Qed.

(* ---------------------------------------------------------------- one step *)
Ltac split_guard H :=
  repeat match type of H with
         | (_ && _) = true => let H1 := fresh "G" in apply andb_true_iff in H; destruct H as [H H1]
         end.

Theorem aexec_sound : forall nodes s l s', aexec nodes s l = Some s' -> astep nodes s s'.
Proof.
  intros nodes s l s' H. destruct l as [n | v c t last | v t | n vs | n pl | f l t prev k lc | f t | n ci vs];
    cbn [aexec] in H.
  - (* LTimeout *)
    destruct (mem_n n nodes) eqn:G; [|discriminate H].
    injection H as H. subst s'. apply STimeout. apply mem_n_In. exact G.
  - (* LVoteGrant *)
    match type of H with (if ?g then _ else _) = _ => destruct g eqn:G; [|discriminate H] end.
    injection H as H. subst s'. split_guard G.
    apply SVoteGrant with (last := last).
    + apply mem_n_In. exact G.
    + apply mem_cand_In. exact G4.
    + intro E. subst c. rewrite N.eqb_refl in G3. discriminate G3.
    + apply N.leb_le. exact G2.
    + exact G1.
    + apply orb_true_iff in G0. destruct G0 as [G0 | G0].
      * left. apply N.ltb_lt. exact G0.
      * right. unfold vote_free_b in G0. destruct (a_vote s v) as [x|].
        -- right. apply N.eqb_eq in G0. subst x. reflexivity.
        -- left. reflexivity.
  - (* LVoteDeny *)
    match type of H with (if ?g then _ else _) = _ => destruct g eqn:G; [|discriminate H] end.
    injection H as H. subst s'. split_guard G.
    apply SVoteDeny.
    + apply mem_n_In. exact G.
    + apply N.ltb_lt. exact G0.
  - (* LBecomeLeader *)
    match type of H with (if ?g then _ else _) = _ => destruct g eqn:G; [|discriminate H] end.
    injection H as H. subst s'. split_guard G.
    destruct (has_cand_In _ _ _ G3) as [last Hlast].
    apply SBecomeLeader with (vs := vs) (last := last).
    + apply mem_n_In. exact G.
    + exact Hlast.
    + apply has_leader_false. destruct (has_leader (a_cur s n) (g_leaders s)); [discriminate G2 | reflexivity].
    + apply majority_b_majority. exact G1.
    + intros v Hv. rewrite forallb_forall in G0. apply mem_trip_In. apply G0. exact Hv.
  - (* LLeaderAppend *)
    match type of H with (if ?g then _ else _) = _ => destruct g eqn:G; [|discriminate H] end.
    injection H as H. subst s'. apply SLeaderAppend. apply mem_pair_In. exact G.
  - (* LAppendAccept *)
    match type of H with (if ?g then _ else _) = _ => destruct g eqn:G; [|discriminate H] end.
    injection H as H. subst s'. split_guard G.
    apply SAppendAccept with (l := l).
    + apply mem_n_In. exact G.
    + apply mem_pair_In. exact G6.
    + intro E. subst l. rewrite N.eqb_refl in G5. discriminate G5.
    + apply N.leb_le. exact G4.
    + apply N.leb_le. exact G3.
    + apply N.leb_le. exact G2.
    + apply N.eqb_eq. exact G1.
    + apply N.leb_le. exact G0.
  - (* LAppendReject *)
    match type of H with (if ?g then _ else _) = _ => destruct g eqn:G; [|discriminate H] end.
    injection H as H. subst s'. split_guard G.
    apply SAppendReject.
    + apply mem_n_In. exact G.
    + apply N.leb_le. exact G1.
    + apply has_leader_In. exact G0.
  - (* LAdvanceCommit *)
    match type of H with (if ?g then _ else _) = _ => destruct g eqn:G; [|discriminate H] end.
    injection H as H. subst s'. split_guard G.
    apply SAdvanceCommit with (vs := vs).
    + apply mem_pair_In. exact G.
    + apply N.ltb_lt. exact G4.
    + apply N.leb_le. exact G3.
    + apply N.eqb_eq. exact G2.
    + apply majority_b_majority. exact G1.
    + intros v Hv. rewrite forallb_forall in G0. specialize (G0 v Hv).
      apply orb_true_iff in G0. destruct G0 as [G0 | G0].
      * left. apply N.eqb_eq. exact G0.
      * right. apply has_ack_In. exact G0.
Qed.

(* ---------------------------------------------------------------- label lists *)
Lemma aexec_all_reach : forall nodes ls s s', reach nodes s -> aexec_all nodes s ls = Some s' -> reach nodes s'.
Proof.
  intros nodes ls. induction ls as [|l ls IH]; intros s s' Hr H.
  - cbn [aexec_all] in H. injection H as H. subst s'. exact Hr.
  - cbn [aexec_all] in H. destruct (aexec nodes s l) as [s1|] eqn:E; [|discriminate H].
    apply (IH s1 s').
    + apply reachS with (s := s); [exact Hr | apply aexec_sound with (l := l); exact E].
    + exact H.
Qed.

Theorem aexec_all_sound : forall nodes ls s, aexec_all nodes (ainit) ls = Some s -> reach nodes s.
Proof.
  intros nodes ls s H. apply aexec_all_reach with (ls := ls) (s := ainit); [apply reach0 | exact H].
Qed.

(* the run with checkpoints is a run of its labels: every intermediate state is reachable and matches the
   observation of its checkpoint *)
Lemma run_steps_reach : forall off nodes steps s s', reach nodes s -> run_steps off nodes s steps = Some s' -> reach nodes s'.
Proof.
  intros off nodes steps. induction steps as [|[ls cp] rest IH]; intros s s' Hr H.
  - cbn [run_steps] in H. injection H as H. subst s'. exact Hr.
  - cbn [run_steps] in H. destruct (aexec_all nodes s ls) as [s1|] eqn:E; [|discriminate H].
    match type of H with (if ?g then _ else _) = _ => destruct g eqn:G; [|discriminate H] end.
    apply (IH s1 s'); [|exact H].
    apply aexec_all_reach with (ls := ls) (s := s); [exact Hr | exact E].
Qed.

Lemma run_steps_labels : forall off nodes steps s s',
  run_steps off nodes s steps = Some s' -> aexec_all nodes s (labels_of steps) = Some s'.
Proof.
  intros off nodes steps. induction steps as [|[ls cp] rest IH]; intros s s' H.
  - exact H.
  - cbn [run_steps] in H. destruct (aexec_all nodes s ls) as [s1|] eqn:E; [|discriminate H].
    match type of H with (if ?g then _ else _) = _ => destruct g eqn:G; [|discriminate H] end.
    unfold labels_of. cbn [map concat fst].
    assert (App : forall l1 l2 a b c, aexec_all nodes a l1 = Some b -> aexec_all nodes b l2 = Some c ->
                                      aexec_all nodes a (l1 ++ l2) = Some c).
    { induction l1 as [|x l1 IH1]; intros l2 a b c H1 H2.
      - cbn [aexec_all] in H1. injection H1 as H1. subst b. exact H2.
      - cbn [app aexec_all] in *. destruct (aexec nodes a x) as [a1|]; [|discriminate H1].
        apply (IH1 l2 a1 b c H1 H2). }
    apply (App ls (concat (map fst rest)) s s1 s' E). apply IH. exact H.
Qed.

(* every checkpoint of an accepted run is matched by a reachable state *)
Lemma run_steps_checkpoints : forall off nodes steps s s', reach nodes s -> run_steps off nodes s steps = Some s' ->
  forall ls obs, In (ls, Some obs) steps -> exists sk, reach nodes sk /\ obs_matches off nodes sk obs = true.
Proof.
  intros off nodes steps. induction steps as [|[ls0 cp0] rest IH]; intros s s' Hr H ls obs Hin.
  - destruct Hin.
  - cbn [run_steps] in H. destruct (aexec_all nodes s ls0) as [s1|] eqn:E; [|discriminate H].
    match type of H with (if ?g then _ else _) = _ => destruct g eqn:G; [|discriminate H] end.
    assert (Hr1 : reach nodes s1) by (apply aexec_all_reach with (ls := ls0) (s := s); [exact Hr | exact E]).
    destruct Hin as [Hin | Hin].
    + injection Hin as E1 E2. subst ls0 cp0. exists s1. split; [exact Hr1 | exact G].
    + apply (IH s1 s' Hr1 H ls obs Hin).
Qed.

Theorem refine_ok_reaches : forall inp out, refine_ok inp out = true ->
  exists steps s, dec_steps (vl (vnth inp 2)) = Some steps /\
    reach (vnl (vnth inp 0)) s /\
    aexec_all (vnl (vnth inp 0)) ainit (labels_of steps) = Some s /\
    forall ls obs, In (ls, Some obs) steps ->
      exists sk, reach (vnl (vnth inp 0)) sk /\ obs_matches (vn (vnth inp 1)) (vnl (vnth inp 0)) sk obs = true.
Proof.
  intros inp out H. unfold refine_ok in H.
  destruct (dec_steps (vl (vnth inp 2))) as [steps|] eqn:D; [|discriminate H].
  destruct (run_steps (vn (vnth inp 1)) (vnl (vnth inp 0)) ainit steps) as [s|] eqn:R; [|discriminate H].
  exists steps, s. split; [reflexivity|]. split; [|split].
  - apply run_steps_reach with (off := vn (vnth inp 1)) (steps := steps) (s := ainit); [apply reach0 | exact R].
  - apply run_steps_labels with (off := vn (vnth inp 1)). exact R.
  - intros ls obs Hin.
    apply (run_steps_checkpoints (vn (vnth inp 1)) (vnl (vnth inp 0)) steps ainit s (reach0 _) R ls obs Hin).
Qed.

(* what a matching observation means, so that the safety theorems can be read on observed data *)
Lemma log_matches_length : forall off al ol, log_matches off al ol = true -> length al = length ol.
Proof.
  intros off al. induction al as [|e al IH]; intros [|[t p] ol] H; cbn [log_matches] in H; try discriminate H.
  - reflexivity.
  - apply andb_true_iff in H. destruct H as [_ H]. cbn [length]. f_equal. apply IH. exact H.
Qed.

Lemma log_matches_nth : forall off al ol, log_matches off al ol = true ->
  forall i e, nth_error al i = Some e -> nth_error ol i = Some (a_term e + off, a_pl e).
Proof.
  intros off al. induction al as [|e0 al IH]; intros [|[t p] ol] H i e Hi; cbn [log_matches] in H; try discriminate H.
  - destruct i; discriminate Hi.
  - apply andb_true_iff in H. destruct H as [H H3]. apply andb_true_iff in H. destruct H as [H1 H2].
    apply N.eqb_eq in H1. apply N.eqb_eq in H2.
    destruct i as [|i].
    + cbn [nth_error] in *. injection Hi as Hi. subst e0. subst t p. reflexivity.
    + cbn [nth_error] in *. apply (IH ol H3 i e Hi).
Qed.

(* non-vacuity: a three-node election, a no-op, its replication and commit are accepted and observed *)
Example aexec_example :
  let ls := [LTimeout 1; LVoteGrant 2 1 1 (0, 0); LVoteDeny 3 1; LBecomeLeader 1 [2; 1]; LLeaderAppend 1 7;
             LAppendAccept 2 1 1 0 1 0; LAdvanceCommit 1 1 [1; 2]; LAppendAccept 3 1 1 0 1 1; LAppendReject 3 1] in
  match aexec_all [1; 2; 3] ainit ls with
  | Some s => obs_matches 1 [1; 2; 3] s
                [ {| o_term := 2; o_commit := 1; o_log := [(2, 7)] |};
                  {| o_term := 2; o_commit := 0; o_log := [(2, 7)] |};
                  {| o_term := 2; o_commit := 1; o_log := [(2, 7)] |} ]
  | None => false
  end = true.
Proof. vm_compute. reflexivity. Qed.

Example aexec_refuses_second_leader :
  aexec_all [1; 2; 3] ainit [LTimeout 1; LVoteGrant 2 1 1 (0, 0); LBecomeLeader 1 [2; 1];
                             LTimeout 3; LBecomeLeader 3 [3]] = None
  /\ aexec_all [1; 2; 3] ainit [LTimeout 1; LVoteGrant 2 1 1 (0, 0); LVoteGrant 2 1 1 (0, 0); LBecomeLeader 1 [2; 1]] <> None
  /\ aexec_all [1; 2; 3] ainit [LTimeout 1; LTimeout 3; LVoteGrant 2 1 1 (0, 0); LVoteGrant 2 3 1 (0, 0)] = None.
Proof. split; [|split]; vm_compute; try reflexivity. discriminate. Qed.
