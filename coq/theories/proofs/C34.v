(* C34 — accepted configurations satisfy the safety timing constraints.
   The theorem is about the definitions that rs2v regenerates from
   d-engine-core/src/config/{raft,lease}.rs on every run (DE.Gen.Config). *)
From Coq Require Import NArith List String Bool Lia ZArith.
From Coq Require Import ZifyBool ZifyN.
From DE Require Import Val CfgEnv Gen.Config.
Import ListNotations.
Open Scope string_scope.
Open Scope N_scope.
Ltac Zify.zify_post_hook ::= Z.div_mod_to_equations.

Definition u64max : N := 18446744073709551615.
(* every numeric field is a Rust u64/usize/u32: below 2^64 *)
Definition wf_u64 (g : list string -> N) : Prop := forall p, g p <= u64max.

Definition fld (g : list string -> N) (p : list string) := g p.

Record timing_ok (g : list string -> N) : Prop := {
  t_lease : g ["read_consistency"; "lease_duration_ms"] + g ["read_consistency"; "network_rtt_p99_ms"] / 2
            < g ["election"; "election_timeout_min"];
  t_lease_pos : 0 < g ["read_consistency"; "lease_duration_ms"];
  t_election : g ["election"; "election_timeout_min"] < g ["election"; "election_timeout_max"];
  t_heartbeat : g ["replication"; "rpc_append_entries_clock_in_ms"] <> 0;
  t_per_request : g ["replication"; "append_entries_max_entries_per_replication"] <> 0;
  t_batch : g ["batching"; "max_batch_size"] <> 0;
  t_merge : g ["batching"; "max_merge_entries"] <> 0;
  t_retained : 1 <= g ["snapshot"; "retained_log_entries"]
}.

Lemma if_false_true (b : bool) (x : bool) : (if b then false else x) = true -> b = false /\ x = true.
Proof. destruct b; intros H; [discriminate | auto]. Qed.

Ltac peel H :=
  repeat match type of H with
  | (if ?b then false else ?x) = true =>
      let Hb := fresh "Hb" in
      apply if_false_true in H; destruct H as [Hb H]
  | (let _ := _ in _) = true => cbv zeta in H
  end.

Lemma validate_sound g : wf_u64 g -> RaftConfig_validate g = true -> timing_ok g.
Proof.
  intros Hwf H.
  unfold RaftConfig_validate in H. peel H.
  repeat match goal with
  | Hx : negb ?c = false |- _ => apply negb_false_iff in Hx
  end.
  match goal with Hx : ReplicationConfig_validate _ = true |- _ =>
    unfold ReplicationConfig_validate in Hx; peel Hx end.
  match goal with Hx : BatchingConfig_validate _ = true |- _ =>
    unfold BatchingConfig_validate in Hx; peel Hx end.
  match goal with Hx : ElectionConfig_validate _ = true |- _ =>
    unfold ElectionConfig_validate in Hx; peel Hx end.
  match goal with Hx : SnapshotConfig_validate _ = true |- _ =>
    unfold SnapshotConfig_validate in Hx; peel Hx end.
  match goal with Hx : ReadConsistencyConfig_validate _ _ = true |- _ =>
    unfold ReadConsistencyConfig_validate in Hx; peel Hx end.
  pose proof (Hwf ["read_consistency"; "lease_duration_ms"]) as W1.
  pose proof (Hwf ["read_consistency"; "network_rtt_p99_ms"]) as W2.
  pose proof (Hwf ["election"; "election_timeout_min"]) as W3.
  unfold u64max in *.
  constructor; lia.
Qed.

(* The saturating addition matters: with a wrapping `+` the same check would accept
   lease = 2^64-1, rtt = 2, emin = 5. The statement above is over unbounded N, so an
   accepted configuration satisfies the inequality in the integers, not modulo 2^64. *)

(* Non-vacuity: the shipped defaults (as far as the numeric fields go) are accepted. *)
Definition sample_table : list (list string * N) :=
  [ (["learner_catchup_threshold"], 1);
    (["general_raft_timeout_duration_in_ms"], 50);
    (["replication"; "rpc_append_entries_clock_in_ms"], 100);
    (["replication"; "append_entries_max_entries_per_replication"], 100);
    (["batching"; "max_batch_size"], 300);
    (["batching"; "max_merge_entries"], 1000);
    (["election"; "election_timeout_min"], 500);
    (["election"; "election_timeout_max"], 1000);
    (["election"; "rpc_peer_connectinon_monitor_interval_in_sec"], 30);
    (["state_machine"; "lease"; "cleanup_interval_ms"], 1000);
    (["state_machine"; "lease"; "max_cleanup_duration_ms"], 1);
    (["snapshot"; "max_log_entries_before_snapshot"], 1000);
    (["snapshot"; "cleanup_retain_count"], 2);
    (["snapshot"; "snapshots_dir"; "valid_dir"], 1);
    (["snapshot"; "chunk_size"], 1024);
    (["snapshot"; "retained_log_entries"], 1);
    (["snapshot"; "sender_yield_every_n_chunks"], 1);
    (["snapshot"; "receiver_yield_every_n_chunks"], 1);
    (["snapshot"; "push_queue_size"], 100);
    (["snapshot"; "receive_chunk_timeout_in_sec"], 10);
    (["snapshot"; "snapshot_push_max_retry"], 3);
    (["read_consistency"; "lease_duration_ms"], 250);
    (["read_consistency"; "network_rtt_p99_ms"], 50);
    (["read_actor"; "channel_capacity"], 1024);
    (["read_actor"; "max_drain"], 64);
    (["watch"; "event_queue_size"], 1000);
    (["watch"; "watcher_buffer_size"], 10);
    (["persistence"; "flush_policy"; "idle_flush_interval_ms"], 100) ].

Definition sample_cfg (p : list string) : N := lookup_tbl sample_table p.

Lemma lookup_tbl_bound t b p : Forall (fun kv => snd kv <= b) t -> lookup_tbl t p <= b.
Proof.
  induction 1 as [|[k v] t' Hk _ IH]; cbn [lookup_tbl]; [lia|].
  destruct (list_eq_dec string_dec k p); [exact Hk | exact IH].
Qed.

Example validate_accepts_something : RaftConfig_validate sample_cfg = true /\ wf_u64 sample_cfg.
Proof.
  split; [vm_compute; reflexivity|].
  intros p. apply lookup_tbl_bound. unfold sample_table, u64max.
  repeat (constructor; [cbn [snd]; lia|]). constructor.
Qed.

(* Completeness direction for the lease inequality (so that validation is not merely "reject all"):
   a configuration meeting every constraint is accepted. Kept as a lemma because the property only
   asks for soundness. *)
Lemma lease_check_exact g emin :
  wf_u64 g -> emin <= u64max ->
  ReadConsistencyConfig_validate g emin = true <->
  (0 < g ["lease_duration_ms"] /\ g ["lease_duration_ms"] + g ["network_rtt_p99_ms"] / 2 < emin).
Proof.
  intros Hwf He. unfold ReadConsistencyConfig_validate. cbv zeta.
  pose proof (Hwf ["lease_duration_ms"]) as W1. pose proof (Hwf ["network_rtt_p99_ms"]) as W2.
  unfold u64max in *.
  destruct (N.eqb_spec (g ["lease_duration_ms"]) 0) as [E|E].
  - split; [discriminate | intros [Hp _]; lia].
  - match goal with |- context [N.leb ?a ?b] => destruct (N.leb_spec a b) as [L|L] end.
    + split; [discriminate|]. intros [_ Hlt]. exfalso.
      destruct (N.min_spec (g ["lease_duration_ms"] + g ["network_rtt_p99_ms"] / 2) 18446744073709551615) as [[_ M]|[_ M]];
        rewrite M in L; [lia|].
      pose proof (N.div_le_upper_bound (g ["network_rtt_p99_ms"]) 2 18446744073709551615) as D. lia.
    + split; [intros _|reflexivity].
      destruct (N.min_spec (g ["lease_duration_ms"] + g ["network_rtt_p99_ms"] / 2) 18446744073709551615) as [[_ M]|[_ M]];
        rewrite M in L; lia.
Qed.
