(* C02 — "a node never grants its vote to two different candidates in the same term, and its current
   term never decreases; both hold across crash + restart from the persisted state".
   Over the Election model (one node, as coded):
     - term monotone for every event except a kill-restart (hard state is persisted only on a graceful stop);
     - vote once, for runs without kill, up to the candidate whose established leadership of that term
       the node recorded from AppendEntries (see vote_once_run and vote_once_as_stated_refuted below);
     - the kill case refuted by concrete runs;
     - a node becomes leader only with a strict majority of the voters. *)
From Coq Require Import NArith List Bool Lia.
From DE Require Import Val Election.
Import ListNotations.
Open Scope N_scope.

Definition nonkill (e : eev) : Prop := match e with ERestart false => False | _ => True end.
Definition no_kill (es : list eev) : Prop :=
  Forall (fun e => match e with ERestart false => False | _ => True end) es.

Ltac bdestr :=
  repeat match goal with
  | |- context [N.ltb ?a ?b] => destruct (N.ltb_spec a b)
  | |- context [N.leb ?a ?b] => destruct (N.leb_spec a b)
  | |- context [N.eqb ?a ?b] => destruct (N.eqb_spec a b)
  end.

(* ---------- erun unfolding ---------- *)
Lemma erun_cons_fst : forall s e es, fst (erun s (e :: es)) = fst (erun (fst (estep s e)) es).
Proof. intros s e es. cbn [erun]. destruct (erun (fst (estep s e)) es) as [s' gs]. reflexivity. Qed.

Lemma erun_cons_snd : forall s e es,
  snd (erun s (e :: es)) =
  match grant_of s e with Some g => g :: snd (erun (fst (estep s e)) es) | None => snd (erun (fst (estep s e)) es) end.
Proof. intros s e es. cbn [erun]. destruct (erun (fst (estep s e)) es) as [s' gs]. reflexivity. Qed.

(* ---------- term never decreases (no kill) ---------- *)
Lemma follower_vote_term : forall s cand t cl, en_term s <= en_term (fst (follower_vote s cand t cl)).
Proof.
  intros s cand t cl. unfold follower_vote. cbn [fst set_rtv en_term]. bdestr; lia.
Qed.

Lemma become_follower_term : forall s, en_term (become_follower s) = en_term s.
Proof. intros s. reflexivity. Qed.

Theorem term_monotone_step : forall s e,
  (match e with ERestart false => False | _ => True end) -> en_term s <= en_term (fst (estep s e)).
Proof.
  intros s e Hnk. destruct e as [cand t li lt | l t | g h v d | | gr].
  - (* EVoteReq *)
    cbn [estep]. destruct (en_role s).
    + destruct (follower_vote s cand t (li, lt)) as [s' g] eqn:Hfv. cbn [fst].
      pose proof (follower_vote_term s cand t (li, lt)) as Hm. rewrite Hfv in Hm. exact Hm.
    + destruct (candidate_legal s t (li, lt)) eqn:Hleg; [| cbn [fst]; lia].
      assert (Hle : en_term s <= t).
      { unfold candidate_legal in Hleg. destruct (N.ltb_spec t (en_term s)) as [Hlt | Hge]; [discriminate Hleg | exact Hge]. }
      destruct (follower_vote (become_follower (set_rtv s Candidate t (en_vote s))) cand t (li, lt)) as [s' g] eqn:Hfv.
      cbn [fst].
      pose proof (follower_vote_term (become_follower (set_rtv s Candidate t (en_vote s))) cand t (li, lt)) as Hm.
      rewrite Hfv in Hm. cbn [fst] in Hm. rewrite become_follower_term in Hm. cbn [set_rtv en_term] in Hm. lia.
    + destruct (N.ltb_spec (en_term s) t) as [Hlt | Hge]; [| cbn [fst]; lia].
      destruct (follower_vote (become_follower (set_rtv s Leader t (en_vote s))) cand t (li, lt)) as [s' g] eqn:Hfv.
      cbn [fst].
      pose proof (follower_vote_term (become_follower (set_rtv s Leader t (en_vote s))) cand t (li, lt)) as Hm.
      rewrite Hfv in Hm. cbn [fst] in Hm. rewrite become_follower_term in Hm. cbn [set_rtv en_term] in Hm. lia.
  - (* EAppend *)
    cbn [estep]. destruct (en_role s); bdestr; cbn [fst set_rtv en_term become_follower]; lia.
  - (* ETimeout *)
    cbn [estep]. destruct (en_role s).
    + destruct (v =? 0); [cbn [fst lead en_term]; lia |].
      destruct ((0 <? d) && (0 <? h) && (en_term s + 1 <? h)) eqn:Hhi.
      * cbn [fst become_follower set_rtv en_term].
        apply andb_true_iff in Hhi. destruct Hhi as [_ Hhi]. apply N.ltb_lt in Hhi. lia.
      * destruct ((0 <? d) && log_ok (en_last s) (0, 0)); [cbn [fst set_rtv en_term]; lia |].
        destruct (is_majority (g + 1) (v + 1)); cbn [fst lead set_rtv en_term]; lia.
    + destruct (v =? 0); [cbn [fst lead en_term]; lia |].
      destruct ((0 <? d) && (0 <? h) && (en_term s + 1 <? h)) eqn:Hhi.
      * cbn [fst become_follower set_rtv en_term].
        apply andb_true_iff in Hhi. destruct Hhi as [_ Hhi]. apply N.ltb_lt in Hhi. lia.
      * destruct ((0 <? d) && log_ok (en_last s) (0, 0)); [cbn [fst set_rtv en_term]; lia |].
        destruct (is_majority (g + 1) (v + 1)); cbn [fst lead set_rtv en_term]; lia.
    + cbn [fst]. lia.
  - (* EStepDownSame *)
    cbn [estep]. destruct (en_role s); cbn [fst become_follower set_rtv en_term]; lia.
  - (* ERestart *)
    destruct gr; [| contradiction]. cbn [estep fst en_term]. lia.
Qed.

Lemma no_kill_cons : forall e es, no_kill (e :: es) -> nonkill e /\ no_kill es.
Proof. intros e es H. inversion H as [| e' es' He Hes]; subst. split; assumption. Qed.

Theorem term_monotone_run : forall es s, no_kill es -> en_term s <= en_term (fst (erun s es)).
Proof.
  induction es as [| e es IH]; intros s Hnk.
  - cbn [erun fst]. lia.
  - apply no_kill_cons in Hnk. destruct Hnk as [He Hes].
    rewrite erun_cons_fst.
    pose proof (term_monotone_step s e He) as H1.
    pose proof (IH (fst (estep s e)) Hes) as H2. lia.
Qed.

(* ---------- well-formed node states ---------- *)
Definition vote_le (t : N) (ov : option vote) : Prop := forall v, ov = Some v -> v_term v <= t.

Record wf_node (s : enode) : Prop := {
  wf_vote_term : vote_le (en_term s) (en_vote s);   (* the vote record's term never exceeds the node's term *)
  wf_candidate : en_role s = Candidate ->
                 en_vote s = Some {| v_id := en_id s; v_term := en_term s; v_committed := false |};
  wf_leader : en_role s = Leader ->
              en_vote s = Some {| v_id := en_id s; v_term := en_term s; v_committed := true |};
  wf_saved : vote_le (fst (en_saved s)) (snd (en_saved s))   (* same for what the meta store holds *)
}.

Lemma wf_node0 : forall id last, wf_node (enode0 id last).
Proof.
  intros id last. constructor; cbn [enode0 en_term en_vote en_role en_saved fst snd].
  - intros v Hv. discriminate Hv.
  - intros Hr. discriminate Hr.
  - intros Hr. discriminate Hr.
  - intros v Hv. discriminate Hv.
Qed.

Lemma wf_follower : forall s id t ov last sv,
  s = {| en_id := id; en_role := Follower; en_term := t; en_vote := ov; en_last := last; en_saved := sv |} ->
  vote_le t ov -> vote_le (fst sv) (snd sv) -> wf_node s.
Proof.
  intros s id t ov last sv Hs Hv Hsv. subst s.
  constructor; cbn [en_term en_vote en_role en_saved]; try assumption; intros Hr; discriminate Hr.
Qed.

Lemma vote_le_mono : forall t t' ov, vote_le t ov -> t <= t' -> vote_le t' ov.
Proof. intros t t' ov H Hle v Hv. pose proof (H v Hv). lia. Qed.

Lemma vote_le_some : forall t c t' b, t' <= t -> vote_le t (Some {| v_id := c; v_term := t'; v_committed := b |}).
Proof. intros t c t' b Hle v Hv. injection Hv as Hv. subst v. cbn [v_term]. exact Hle. Qed.

Lemma vote_le_none : forall t, vote_le t None.
Proof. intros t v Hv. discriminate Hv. Qed.

Lemma wf_become_follower : forall s, vote_le (en_term s) (en_vote s) -> vote_le (fst (en_saved s)) (snd (en_saved s)) ->
  wf_node (become_follower s).
Proof.
  intros s Hv Hsv. unfold become_follower, set_rtv.
  eapply wf_follower; [reflexivity | | exact Hsv].
  destruct (en_vote s) as [v |]; [| apply vote_le_none].
  destruct (en_term s <=? v_term v); [exact Hv | apply vote_le_none].
Qed.

Lemma wf_follower_vote : forall s cand t cl,
  vote_le (en_term s) (en_vote s) -> vote_le (fst (en_saved s)) (snd (en_saved s)) ->
  wf_node (fst (follower_vote s cand t cl)).
Proof.
  intros s cand t cl Hv Hsv. unfold follower_vote. cbn [fst set_rtv].
  eapply wf_follower; [reflexivity | | exact Hsv].
  destruct (N.ltb_spec t (en_term s)) as [Hlt | Hge].
  - destruct (N.ltb_spec (en_term s) t) as [Hlt2 | Hge2]; [lia | exact Hv].
  - match goal with |- vote_le _ (if ?g then _ else _) => destruct g end.
    + apply vote_le_some. destruct (N.ltb_spec (en_term s) t); lia.
    + eapply vote_le_mono; [exact Hv |]. destruct (N.ltb_spec (en_term s) t); lia.
Qed.

Lemma become_follower_vote_le : forall s t, vote_le t (en_vote s) -> vote_le t (en_vote (become_follower s)).
Proof.
  intros s t Hv. unfold become_follower. cbn [set_rtv en_vote].
  destruct (en_vote s) as [v |]; [| apply vote_le_none].
  destruct (en_term s <=? v_term v); [exact Hv | apply vote_le_none].
Qed.

Lemma become_follower_saved : forall s, en_saved (become_follower s) = en_saved s.
Proof. intros s. reflexivity. Qed.

(* preserved by every event, the kill-restart included *)
Theorem wf_node_step : forall s e, wf_node s -> wf_node (fst (estep s e)).
Proof.
  intros s e Hwf. destruct Hwf as [Hv Hc Hl Hsv].
  assert (Hwf : wf_node s) by (constructor; assumption).
  destruct e as [cand t li lt | l t | g h v d | | gr].
  - (* EVoteReq *)
    cbn [estep]. destruct (en_role s) eqn:Hr.
    + destruct (follower_vote s cand t (li, lt)) as [s' gg] eqn:Hfv. cbn [fst].
      pose proof (wf_follower_vote s cand t (li, lt) Hv Hsv) as H. rewrite Hfv in H. exact H.
    + destruct (candidate_legal s t (li, lt)) eqn:Hleg; [| cbn [fst]; exact Hwf].
      assert (Hle : en_term s <= t).
      { unfold candidate_legal in Hleg. destruct (N.ltb_spec t (en_term s)) as [Hlt | Hge]; [discriminate Hleg | exact Hge]. }
      set (s1 := become_follower (set_rtv s Candidate t (en_vote s))).
      destruct (follower_vote s1 cand t (li, lt)) as [s' gg] eqn:Hfv. cbn [fst].
      assert (H : wf_node (fst (follower_vote s1 cand t (li, lt)))).
      { apply wf_follower_vote.
        - subst s1. apply become_follower_vote_le. cbn [set_rtv en_vote en_term become_follower].
          eapply vote_le_mono; [exact Hv | exact Hle].
        - subst s1. rewrite become_follower_saved. cbn [set_rtv en_saved]. exact Hsv. }
      rewrite Hfv in H. exact H.
    + destruct (N.ltb_spec (en_term s) t) as [Hlt | Hge]; [| cbn [fst]; exact Hwf].
      set (s1 := become_follower (set_rtv s Leader t (en_vote s))).
      destruct (follower_vote s1 cand t (li, lt)) as [s' gg] eqn:Hfv. cbn [fst].
      assert (H : wf_node (fst (follower_vote s1 cand t (li, lt)))).
      { apply wf_follower_vote.
        - subst s1. apply become_follower_vote_le. cbn [set_rtv en_vote en_term become_follower].
          eapply vote_le_mono; [exact Hv | lia].
        - subst s1. rewrite become_follower_saved. cbn [set_rtv en_saved]. exact Hsv. }
      rewrite Hfv in H. exact H.
  - (* EAppend *)
    cbn [estep]. destruct (en_role s) eqn:Hr.
    + destruct (N.ltb_spec t (en_term s)) as [Hlt | Hge]; cbn [fst]; [exact Hwf |].
      unfold set_rtv. eapply wf_follower; [reflexivity | | exact Hsv]. apply vote_le_some. lia.
    + destruct (N.leb_spec (en_term s) t) as [Hle | Hgt]; cbn [fst]; [| exact Hwf].
      unfold set_rtv at 1. eapply wf_follower; [reflexivity | |].
      * apply vote_le_some. cbn [become_follower set_rtv en_term]. lia.
      * rewrite become_follower_saved. cbn [set_rtv en_saved]. exact Hsv.
    + destruct (N.ltb_spec (en_term s) t) as [Hlt | Hge]; cbn [fst]; [| exact Hwf].
      unfold set_rtv at 1. eapply wf_follower; [reflexivity | |].
      * apply vote_le_some. cbn [become_follower set_rtv en_term]. lia.
      * rewrite become_follower_saved. cbn [set_rtv en_saved]. exact Hsv.
  - (* ETimeout *)
    assert (Hs1 : wf_node (set_rtv s Candidate (en_term s + 1)
                     (Some {| v_id := en_id s; v_term := en_term s + 1; v_committed := false |}))).
    { constructor; cbn [set_rtv en_term en_vote en_role en_id en_saved].
      - apply vote_le_some. lia.
      - intros _. reflexivity.
      - intros Hx. discriminate Hx.
      - exact Hsv. }
    assert (Hld : wf_node (lead (set_rtv s Candidate (en_term s + 1)
                     (Some {| v_id := en_id s; v_term := en_term s + 1; v_committed := false |})) (en_term s + 1))).
    { constructor; cbn [lead set_rtv en_term en_vote en_role en_id en_saved].
      - apply vote_le_some. lia.
      - intros Hx. discriminate Hx.
      - intros _. reflexivity.
      - exact Hsv. }
    assert (Hhi : (0 <? d) && (0 <? h) && (en_term s + 1 <? h) = true ->
              wf_node (become_follower (set_rtv (set_rtv s Candidate (en_term s + 1)
                     (Some {| v_id := en_id s; v_term := en_term s + 1; v_committed := false |})) Candidate h
                     (en_vote (set_rtv s Candidate (en_term s + 1)
                     (Some {| v_id := en_id s; v_term := en_term s + 1; v_committed := false |})))))).
    { intros Hb. apply andb_true_iff in Hb. destruct Hb as [_ Hb]. apply N.ltb_lt in Hb.
      apply wf_become_follower; cbn [set_rtv en_term en_vote en_saved].
      - apply vote_le_some. lia.
      - exact Hsv. }
    cbn [estep]. destruct (en_role s) eqn:Hr.
    + destruct (v =? 0); [cbn [fst]; exact Hld |].
      destruct ((0 <? d) && (0 <? h) && (en_term s + 1 <? h)) eqn:Hb; [cbn [fst]; apply Hhi; reflexivity |].
      destruct ((0 <? d) && log_ok (en_last s) (0, 0)); [cbn [fst]; exact Hs1 |].
      destruct (is_majority (g + 1) (v + 1)); cbn [fst]; assumption.
    + destruct (v =? 0); [cbn [fst]; exact Hld |].
      destruct ((0 <? d) && (0 <? h) && (en_term s + 1 <? h)) eqn:Hb; [cbn [fst]; apply Hhi; reflexivity |].
      destruct ((0 <? d) && log_ok (en_last s) (0, 0)); [cbn [fst]; exact Hs1 |].
      destruct (is_majority (g + 1) (v + 1)); cbn [fst]; assumption.
    + cbn [fst]. exact Hwf.
  - (* EStepDownSame *)
    cbn [estep]. destruct (en_role s); cbn [fst]; try exact Hwf.
    apply wf_become_follower; assumption.
  - (* ERestart *)
    cbn [estep fst]. destruct gr.
    + eapply wf_follower; [reflexivity | cbn [fst snd]; exact Hv | cbn [fst snd]; exact Hv].
    + eapply wf_follower; [reflexivity | exact Hsv | exact Hsv].
Qed.

Corollary wf_node_step_nonkill : forall s e,
  (match e with ERestart false => False | _ => True end) -> wf_node s -> wf_node (fst (estep s e)).
Proof. intros s e _ Hwf. apply wf_node_step. exact Hwf. Qed.

Lemma wf_node_run : forall es s, wf_node s -> wf_node (fst (erun s es)).
Proof.
  induction es as [| e es IH]; intros s Hwf.
  - cbn [erun fst]. exact Hwf.
  - rewrite erun_cons_fst. apply IH. apply wf_node_step. exact Hwf.
Qed.

(* ---------- the grant invariant ---------- *)
Definition gl := list (N * N * bool).

(* G = the grants handed out so far. Every grant is of a term <= the current term; an unflagged grant
   (t,c) of the current term is reflected in the vote record: its term is t and its id is c, unless the
   record was overwritten by an established-leader record (committed), or it is the id of a candidate
   that already received a flagged grant in this term (the regrant itself clears the committed flag). *)
Record ginv (s : enode) (G : gl) : Prop := {
  gi_le : forall t c b, In (t, c, b) G -> t <= en_term s;
  gi_rec : forall c, In (en_term s, c, false) G ->
           exists v, en_vote s = Some v /\ v_term v = en_term s /\
                     (v_id v = c \/ v_committed v = true \/ In (en_term s, v_id v, true) G);
  gi_once : forall t c1 c2, In (t, c1, false) G -> In (t, c2, false) G ->
            c1 = c2 \/ In (t, c1, true) G \/ In (t, c2, true) G
}.

Lemma ginv_nil : forall s, ginv s [].
Proof.
  intros s. constructor.
  - intros t c b H. destruct H.
  - intros c H. destruct H.
  - intros t c1 c2 H. destruct H.
Qed.

Lemma ginv_ext : forall s G G', (forall x, In x G <-> In x G') -> ginv s G -> ginv s G'.
Proof.
  intros s G G' Heq [Hle Hrec Honce]. constructor.
  - intros t c b H. apply Heq in H. exact (Hle t c b H).
  - intros c H. apply Heq in H. destruct (Hrec c H) as [v [Hv [Ht Hd]]].
    exists v. split; [exact Hv |]. split; [exact Ht |].
    destruct Hd as [Hd | [Hd | Hd]]; [left; exact Hd | right; left; exact Hd | right; right; apply Heq; exact Hd].
  - intros t c1 c2 H1 H2. apply Heq in H1. apply Heq in H2.
    destruct (Honce t c1 c2 H1 H2) as [Hd | [Hd | Hd]];
      [left; exact Hd | right; left; apply Heq; exact Hd | right; right; apply Heq; exact Hd].
Qed.

(* a step that hands out no vote *)
Lemma ginv_nogrant : forall s s' G,
  ginv s G -> en_term s <= en_term s' ->
  (en_term s' = en_term s -> forall v, en_vote s = Some v -> v_term v = en_term s ->
     exists v', en_vote s' = Some v' /\ v_term v' = en_term s /\ (v' = v \/ v_committed v' = true)) ->
  ginv s' G.
Proof.
  intros s s' G [Hle Hrec Honce] Hmono Hsame. constructor.
  - intros t c b H. pose proof (Hle t c b H). lia.
  - intros c H. pose proof (Hle _ _ _ H) as Hle'.
    assert (Heq : en_term s' = en_term s) by lia.
    rewrite Heq in H |- *.
    destruct (Hrec c H) as [v [Hv [Ht Hd]]].
    destruct (Hsame Heq v Hv Ht) as [v' [Hv' [Ht' Hd']]].
    exists v'. split; [exact Hv' |]. split; [exact Ht' |].
    destruct Hd' as [Hd' | Hd'].
    + subst v'. exact Hd.
    + right; left; exact Hd'.
  - exact Honce.
Qed.

(* a step that hands out the vote (tg, c, b) *)
Lemma ginv_grant : forall s s' G tg c b,
  ginv s G -> en_term s <= tg -> tg <= en_term s' ->
  (tg = en_term s' -> exists v', en_vote s' = Some v' /\ v_term v' = tg /\ v_id v' = c) ->
  (en_term s = tg -> forall v, en_vote s = Some v -> v_term v = tg ->
     v_id v = c /\ (v_committed v = true -> b = true)) ->
  ginv s' ((tg, c, b) :: G).
Proof.
  intros s s' G tg c b [Hle Hrec Honce] Hlo Hhi Hnew Hold. constructor.
  - intros t c0 b0 [H | H].
    + injection H as H1 H2 H3. subst t. exact Hhi.
    + pose proof (Hle _ _ _ H). lia.
  - intros c0 [H | H].
    + injection H as H1 H2 H3. subst c0.
      destruct (Hnew H1) as [v' [Hv' [Ht' Hi']]].
      exists v'. split; [exact Hv' |]. split; [lia |]. left. exact Hi'.
    + pose proof (Hle _ _ _ H) as Hle'.
      assert (Heq : en_term s = tg) by lia.
      assert (Heq' : tg = en_term s') by lia.
      destruct (Hnew Heq') as [v' [Hv' [Ht' Hi']]].
      exists v'. split; [exact Hv' |]. split; [lia |].
      rewrite <- Heq' in H |- *. rewrite <- Heq in H.
      destruct (Hrec c0 H) as [v [Hv [Ht Hd]]].
      rewrite Heq in Ht.
      destruct (Hold Heq v Hv Ht) as [Hid Hcm].
      destruct Hd as [Hd | [Hd | Hd]].
      * left. rewrite Hi'. rewrite <- Hid. exact Hd.
      * right; right. left. rewrite (Hcm Hd). rewrite Hi'. reflexivity.
      * right; right. right. rewrite Hi'. rewrite <- Hid. rewrite <- Heq. exact Hd.
  - intros t c1 c2 [H1 | H1] [H2 | H2].
    + injection H1 as A1 A2 A3. injection H2 as B1 B2 B3. left. subst c1 c2. reflexivity.
    + injection H1 as A1 A2 A3. subst t c1 b.
      pose proof (Hle _ _ _ H2) as Hle'.
      assert (Heq : en_term s = tg) by lia.
      rewrite <- Heq in H2.
      destruct (Hrec c2 H2) as [v [Hv [Ht Hd]]].
      rewrite Heq in Ht.
      destruct (Hold Heq v Hv Ht) as [Hid Hcm].
      destruct Hd as [Hd | [Hd | Hd]].
      * left. rewrite <- Hid. exact Hd.
      * pose proof (Hcm Hd) as Hx. discriminate Hx.
      * right; left. right. rewrite <- Hid. rewrite <- Heq. exact Hd.
    + injection H2 as A1 A2 A3. subst t c2 b.
      pose proof (Hle _ _ _ H1) as Hle'.
      assert (Heq : en_term s = tg) by lia.
      rewrite <- Heq in H1.
      destruct (Hrec c1 H1) as [v [Hv [Ht Hd]]].
      rewrite Heq in Ht.
      destruct (Hold Heq v Hv Ht) as [Hid Hcm].
      destruct Hd as [Hd | [Hd | Hd]].
      * left. rewrite <- Hid. symmetry. exact Hd.
      * pose proof (Hcm Hd) as Hx. discriminate Hx.
      * right; right. right. rewrite <- Hid. rewrite <- Heq. exact Hd.
    + destruct (Honce t c1 c2 H1 H2) as [Hd | [Hd | Hd]];
        [left; exact Hd | right; left; right; exact Hd | right; right; right; exact Hd].
Qed.

(* ---------- the vote-request handler ---------- *)
Lemma follower_vote_spec : forall s cand t cl,
  let r := follower_vote s cand t cl in
  (snd r = false /\ en_term s <= en_term (fst r) /\ en_vote (fst r) = en_vote s) \/
  (snd r = true /\ en_term s <= t /\ en_term (fst r) = t /\
   en_vote (fst r) = Some {| v_id := cand; v_term := t; v_committed := false |} /\
   (en_term s = t -> forall v, en_vote s = Some v -> v_id v = cand)).
Proof.
  intros s cand t cl. cbv zeta. unfold follower_vote. cbn [fst snd set_rtv en_term en_vote].
  destruct (N.ltb_spec t (en_term s)) as [Hlt | Hge].
  - left. split; [reflexivity |]. split; [| reflexivity]. destruct (N.ltb_spec (en_term s) t); lia.
  - destruct (negb (log_ok (en_last s) cl)).
    + left. split; [reflexivity |]. split; [| reflexivity]. destruct (N.ltb_spec (en_term s) t); lia.
    + destruct (N.ltb_spec (en_term s) t) as [Hlt2 | Hge2].
      * right. split; [reflexivity |]. split; [lia |]. split; [reflexivity |]. split; [reflexivity |].
        intros Heq. lia.
      * destruct (en_vote s) as [v |] eqn:Hv.
        -- destruct ((v_term v =? t) && (v_id v =? cand)) eqn:Hb.
           ++ right. split; [reflexivity |]. split; [lia |]. split; [lia |]. split; [reflexivity |].
              intros Heq v0 Hv0. injection Hv0 as Hv0. subst v0.
              apply andb_true_iff in Hb. destruct Hb as [_ Hb]. apply N.eqb_eq in Hb. exact Hb.
           ++ left. split; [reflexivity |]. split; [lia | reflexivity].
        -- right. split; [reflexivity |]. split; [lia |]. split; [lia |]. split; [reflexivity |].
           intros Heq v0 Hv0. discriminate Hv0.
Qed.

Definition vflag (s : enode) (cand t : N) : bool :=
  match en_vote s with
  | Some v => v_committed v && (v_id v =? cand) && (v_term v =? t) && negb (en_term s <? t)
  | None => false
  end.

(* s1 = the state the follower handler runs on: s itself, or s stepped down into the request's term *)
Lemma ginv_votereq_via : forall s s1 G cand t cl,
  ginv s G -> en_term s <= en_term s1 ->
  (en_term s1 = en_term s -> forall v, en_vote s = Some v -> v_term v = en_term s -> en_vote s1 = Some v) ->
  ginv (fst (follower_vote s1 cand t cl))
       (if snd (follower_vote s1 cand t cl) then (t, cand, vflag s cand t) :: G else G).
Proof.
  intros s s1 G cand t cl HG Hmono Hkeep.
  destruct (follower_vote_spec s1 cand t cl) as [[Hg [Ht Hv]] | [Hg [Hle [Ht [Hv Hold]]]]]; rewrite Hg.
  - apply (ginv_nogrant s _ G HG); [lia |].
    intros Heq v Hvs Hvt. exists v. split; [| split; [exact Hvt | left; reflexivity]].
    rewrite Hv. apply Hkeep; [lia | exact Hvs | exact Hvt].
  - apply (ginv_grant s _ G t cand (vflag s cand t) HG); [lia | lia | |].
    + intros _. eexists. split; [exact Hv |]. split; reflexivity.
    + intros Heq v Hvs Hvt.
      assert (Heq1 : en_term s1 = en_term s) by lia.
      assert (Hvs1 : en_vote s1 = Some v) by (apply Hkeep; [exact Heq1 | exact Hvs | lia]).
      assert (Hid : v_id v = cand) by (apply Hold; [lia | exact Hvs1]).
      split; [exact Hid |].
      intros Hc. unfold vflag. rewrite Hvs. rewrite Hc, Hid, Hvt, Heq. rewrite !N.eqb_refl, N.ltb_irrefl. reflexivity.
Qed.

Lemma become_follower_keep : forall s v, en_vote s = Some v -> en_term s <= v_term v -> en_vote (become_follower s) = Some v.
Proof.
  intros s v Hv Hle. unfold become_follower. cbn [set_rtv en_vote]. rewrite Hv.
  destruct (N.leb_spec (en_term s) (v_term v)) as [H | H]; [reflexivity | lia].
Qed.

Lemma grant_of_votereq : forall s cand t li lt,
  grant_of s (EVoteReq cand t li lt) =
  if snd (estep s (EVoteReq cand t li lt)) =? 1 then Some (t, cand, vflag s cand t) else None.
Proof. intros. reflexivity. Qed.

Lemma ginv_step : forall s e G,
  (match e with ERestart false => False | _ => True end) -> ginv s G ->
  ginv (fst (estep s e)) (match grant_of s e with Some g => g :: G | None => G end).
Proof.
  intros s e G Hnk HG. destruct e as [cand t li lt | l t | g h v d | | gr].
  - (* EVoteReq *)
    rewrite grant_of_votereq. cbn [estep]. destruct (en_role s) eqn:Hr.
    + pose proof (ginv_votereq_via s s G cand t (li, lt) HG (N.le_refl _)) as H.
      destruct (follower_vote s cand t (li, lt)) as [s' gg] eqn:Hfv. cbn [fst snd] in H |- *.
      destruct gg; cbn [N.eqb Pos.eqb]; apply H; intros _ v0 Hv0 _; exact Hv0.
    + destruct (candidate_legal s t (li, lt)) eqn:Hleg; [| cbn [fst snd N.eqb]; exact HG].
      assert (Hle : en_term s <= t).
      { unfold candidate_legal in Hleg. destruct (N.ltb_spec t (en_term s)) as [Hlt | Hge]; [discriminate Hleg | exact Hge]. }
      set (s1 := become_follower (set_rtv s Candidate t (en_vote s))).
      assert (Ht1 : en_term s1 = t) by reflexivity.
      pose proof (ginv_votereq_via s s1 G cand t (li, lt) HG) as H.
      destruct (follower_vote s1 cand t (li, lt)) as [s' gg] eqn:Hfv. cbn [fst snd] in H |- *.
      destruct gg; cbn [N.eqb Pos.eqb]; (apply H; [lia |]);
        intros Heq v0 Hv0 Hvt; subst s1; apply become_follower_keep; cbn [set_rtv en_vote en_term]; [exact Hv0 | lia | exact Hv0 | lia].
    + destruct (N.ltb_spec (en_term s) t) as [Hlt | Hge]; [| cbn [fst snd N.eqb]; exact HG].
      set (s1 := become_follower (set_rtv s Leader t (en_vote s))).
      assert (Ht1 : en_term s1 = t) by reflexivity.
      pose proof (ginv_votereq_via s s1 G cand t (li, lt) HG) as H.
      destruct (follower_vote s1 cand t (li, lt)) as [s' gg] eqn:Hfv. cbn [fst snd] in H |- *.
      destruct gg; cbn [N.eqb Pos.eqb]; (apply H; [lia |]); intros Heq; lia.
  - (* EAppend *)
    cbn [grant_of estep]. destruct (en_role s) eqn:Hr.
    + destruct (N.ltb_spec t (en_term s)) as [Hlt | Hge]; cbn [fst]; [exact HG |].
      apply (ginv_nogrant s _ G HG); cbn [set_rtv en_term en_vote]; [lia |].
      intros Heq v0 _ _. eexists. split; [reflexivity |]. cbn [v_term v_committed]. split; [lia | right; reflexivity].
    + destruct (N.leb_spec (en_term s) t) as [Hle | Hgt]; cbn [fst]; [| exact HG].
      apply (ginv_nogrant s _ G HG); cbn [set_rtv en_term en_vote become_follower]; [lia |].
      intros Heq v0 _ _. eexists. split; [reflexivity |]. cbn [v_term v_committed]. split; [lia | right; reflexivity].
    + destruct (N.ltb_spec (en_term s) t) as [Hlt | Hge]; cbn [fst]; [| exact HG].
      apply (ginv_nogrant s _ G HG); cbn [set_rtv en_term en_vote become_follower]; [lia |].
      intros Heq. lia.
  - (* ETimeout *)
    cbn [grant_of estep].
    assert (Hcase : en_role s <> Leader ->
      ginv (fst (let t := en_term s + 1 in
          let s1 := set_rtv s Candidate t (Some {| v_id := en_id s; v_term := t; v_committed := false |}) in
          if (v =? 0) then (lead s1 t, 1)
          else if (0 <? d) && (0 <? h) && (t <? h) then (become_follower (set_rtv s1 Candidate h (en_vote s1)), 0)
          else if (0 <? d) && log_ok (en_last s) (0, 0) then (s1, 0)
          else if is_majority (g + 1) (v + 1) then (lead s1 t, 1)
          else (s1, 0))) ((en_term s + 1, en_id s, false) :: G)).
    { intros _. cbv zeta.
      assert (Hs1 : ginv (set_rtv s Candidate (en_term s + 1)
                     (Some {| v_id := en_id s; v_term := en_term s + 1; v_committed := false |}))
                     ((en_term s + 1, en_id s, false) :: G)).
      { apply (ginv_grant s _ G _ _ _ HG); cbn [set_rtv en_term en_vote]; [lia | lia | | intros Heq; lia].
        intros _. eexists. split; [reflexivity |]. split; reflexivity. }
      assert (Hld : ginv (lead (set_rtv s Candidate (en_term s + 1)
                     (Some {| v_id := en_id s; v_term := en_term s + 1; v_committed := false |})) (en_term s + 1))
                     ((en_term s + 1, en_id s, false) :: G)).
      { apply (ginv_grant s _ G _ _ _ HG); cbn [lead set_rtv en_term en_vote en_id]; [lia | lia | | intros Heq; lia].
        intros _. eexists. split; [reflexivity |]. split; reflexivity. }
      destruct (v =? 0); [cbn [fst]; exact Hld |].
      destruct ((0 <? d) && (0 <? h) && (en_term s + 1 <? h)) eqn:Hb.
      - cbn [fst]. apply andb_true_iff in Hb. destruct Hb as [_ Hb]. apply N.ltb_lt in Hb.
        apply (ginv_grant s _ G _ _ _ HG); cbn [become_follower set_rtv en_term en_vote]; [lia | lia | |]; intros Heq; lia.
      - destruct ((0 <? d) && log_ok (en_last s) (0, 0)); [cbn [fst]; exact Hs1 |].
        destruct (is_majority (g + 1) (v + 1)); cbn [fst]; assumption. }
    destruct (en_role s) eqn:Hr.
    + apply Hcase. intros Hx; discriminate Hx.
    + apply Hcase. intros Hx; discriminate Hx.
    + cbn [fst]. exact HG.
  - (* EStepDownSame *)
    cbn [grant_of estep]. destruct (en_role s) eqn:Hr; cbn [fst]; try exact HG.
    apply (ginv_nogrant s _ G HG); [rewrite become_follower_term; lia |].
    intros _ v0 Hv0 Hvt. exists v0. split; [| split; [exact Hvt | left; reflexivity]].
    apply become_follower_keep; [exact Hv0 | lia].
  - (* ERestart *)
    destruct gr; [| contradiction]. cbn [grant_of estep fst].
    apply (ginv_nogrant s _ G HG); cbn [en_term en_vote fst snd]; [lia |].
    intros _ v0 Hv0 Hvt. exists v0. split; [exact Hv0 |]. split; [exact Hvt | left; reflexivity].
Qed.

Lemma ginv_run : forall es s G, no_kill es -> ginv s G -> ginv (fst (erun s es)) (snd (erun s es) ++ G).
Proof.
  induction es as [| e es IH]; intros s G Hnk HG.
  - cbn [erun fst snd app]. exact HG.
  - apply no_kill_cons in Hnk. destruct Hnk as [He Hes].
    rewrite erun_cons_fst, erun_cons_snd.
    pose proof (ginv_step s e G He HG) as Hstep.
    pose proof (IH (fst (estep s e)) _ Hes Hstep) as Hrun.
    destruct (grant_of s e) as [g |]; [| exact Hrun].
    eapply ginv_ext; [| exact Hrun].
    intros x. rewrite !in_app_iff. cbn [In]. tauto.
Qed.

(* ---------- vote once ---------- *)
(* The statement "two unflagged grants of one term go to the same candidate" is FALSE for this model:
   the regrant overwrites the committed leader record by an uncommitted vote record for the same
   candidate, so a further (duplicate) request of that candidate is granted again and unflagged. *)
Example vote_once_as_stated_refuted :
  exists es, no_kill es /\ wf_node (enode0 1 (0, 0)) /\
    exists t c1 c2, c1 <> c2 /\
      In (t, c1, false) (snd (erun (enode0 1 (0, 0)) es)) /\ In (t, c2, false) (snd (erun (enode0 1 (0, 0)) es)).
Proof.
  exists [EVoteReq 5 2 0 0; EAppend 7 2; EVoteReq 7 2 0 0; EVoteReq 7 2 0 0].
  split; [repeat constructor |]. split; [apply wf_node0 |].
  exists 2, 5, 7. split; [discriminate |].
  vm_compute. split; [left; reflexivity | right; right; left; reflexivity].
Qed.

(* vote once, as it holds: among the grants of a run without kill, two unflagged grants of the same term
   go to the same candidate, unless one of them goes to a candidate that also received a flagged grant
   (regrant) in that term, i.e. whose leadership of the term the node had recorded from AppendEntries. *)
Theorem vote_once_run : forall es s, no_kill es -> wf_node s ->
  forall t c1 c2 b1 b2,
    In (t, c1, b1) (snd (erun s es)) -> In (t, c2, b2) (snd (erun s es)) -> b1 = false -> b2 = false ->
    c1 = c2 \/ In (t, c1, true) (snd (erun s es)) \/ In (t, c2, true) (snd (erun s es)).
Proof.
  intros es s Hnk _ t c1 c2 b1 b2 H1 H2 Hb1 Hb2. subst b1 b2.
  pose proof (ginv_run es s [] Hnk (ginv_nil s)) as HG. rewrite app_nil_r in HG.
  exact (gi_once _ _ HG t c1 c2 H1 H2).
Qed.

(* hence: in a term in which the node made no regrant, all its grants go to one candidate *)
Corollary vote_once_run_noregrant : forall es s, no_kill es -> wf_node s ->
  forall t c1 c2 b1 b2,
    (forall c, ~ In (t, c, true) (snd (erun s es))) ->
    In (t, c1, b1) (snd (erun s es)) -> In (t, c2, b2) (snd (erun s es)) -> c1 = c2.
Proof.
  intros es s Hnk Hwf t c1 c2 b1 b2 Hno H1 H2.
  destruct b1; [exfalso; exact (Hno c1 H1) |].
  destruct b2; [exfalso; exact (Hno c2 H2) |].
  destruct (vote_once_run es s Hnk Hwf t c1 c2 false false H1 H2 eq_refl eq_refl) as [H | [H | H]];
    [exact H | exfalso; exact (Hno c1 H) | exfalso; exact (Hno c2 H)].
Qed.

(* the grants of a run never exceed the final term, and the final vote record reflects the unflagged
   grants of the final term *)
Theorem grants_reflected_run : forall es s, no_kill es -> ginv (fst (erun s es)) (snd (erun s es)).
Proof.
  intros es s Hnk. pose proof (ginv_run es s [] Hnk (ginv_nil s)) as HG. rewrite app_nil_r in HG. exact HG.
Qed.

(* the unflagged-only restriction is necessary *)
Example regrant_witness :
  exists es, no_kill es /\ exists t c1 c2 b1 b2, c1 <> c2 /\
    In (t, c1, b1) (snd (erun (enode0 1 (0, 0)) es)) /\ In (t, c2, b2) (snd (erun (enode0 1 (0, 0)) es)).
Proof.
  exists [ETimeout 0 0 2 0; EAppend 2 2; EVoteReq 2 2 0 0].
  split; [repeat constructor |].
  exists 2, 1, 2, false, true. split; [discriminate |].
  vm_compute. split; [left; reflexivity | right; left; reflexivity].
Qed.

(* ---------- restart ---------- *)
Theorem graceful_restart_keeps : forall s,
  en_term (fst (estep s (ERestart true))) = en_term s /\ en_vote (fst (estep s (ERestart true))) = en_vote s.
Proof. intros s. cbn [estep fst en_term en_vote snd]. split; reflexivity. Qed.

(* grant, kill-restart, grant another candidate in the same term *)
Example kill_refuted :
  exists es t c1 c2, c1 <> c2 /\
    In (t, c1, false) (snd (erun (enode0 1 (0, 0)) es)) /\ In (t, c2, false) (snd (erun (enode0 1 (0, 0)) es)).
Proof.
  exists [EVoteReq 5 2 0 0; ERestart false; EVoteReq 7 2 0 0], 2, 5, 7.
  split; [discriminate |].
  vm_compute. split; [left; reflexivity | right; left; reflexivity].
Qed.

(* the term after a kill-restart is below the term reached before it *)
Example kill_term_decreases :
  exists es, en_term (fst (erun (enode0 1 (0, 0)) es)) < en_term (fst (erun (enode0 1 (0, 0)) (firstn 1 es))).
Proof.
  exists [EVoteReq 5 2 0 0; ERestart false]. vm_compute. reflexivity.
Qed.

(* ---------- leadership needs a majority ---------- *)
Lemma is_majority_spec : forall g v, is_majority (g + 1) (v + 1) = true -> v + 1 < 2 * (g + 1).
Proof.
  intros g v H. unfold is_majority in H. apply N.ltb_lt in H.
  assert (H2 : 2 <> 0) by lia.
  pose proof (N.div_mod (v + 1) 2 H2) as Hdm.
  pose proof (N.mod_lt (v + 1) 2 H2) as Hml.
  remember ((v + 1) / 2) as q. remember ((v + 1) mod 2) as r. lia.
Qed.

Theorem leader_backed : forall s g h v d,
  en_role s <> Leader -> en_role (fst (estep s (ETimeout g h v d))) = Leader ->
  v = 0 \/ v + 1 < 2 * (g + 1).
Proof.
  intros s g h v d Hnl Hl. cbn [estep] in Hl.
  assert (Hcase :
    en_role (fst (let t := en_term s + 1 in
          let s1 := set_rtv s Candidate t (Some {| v_id := en_id s; v_term := t; v_committed := false |}) in
          if (v =? 0) then (lead s1 t, 1)
          else if (0 <? d) && (0 <? h) && (t <? h) then (become_follower (set_rtv s1 Candidate h (en_vote s1)), 0)
          else if (0 <? d) && log_ok (en_last s) (0, 0) then (s1, 0)
          else if is_majority (g + 1) (v + 1) then (lead s1 t, 1)
          else (s1, 0))) = Leader -> v = 0 \/ v + 1 < 2 * (g + 1)).
  { cbv zeta. intros H.
    destruct (N.eqb_spec v 0) as [Hv0 | Hv0]; [left; exact Hv0 |].
    destruct ((0 <? d) && (0 <? h) && (en_term s + 1 <? h)); [cbn [fst become_follower set_rtv en_role] in H; discriminate H |].
    destruct ((0 <? d) && log_ok (en_last s) (0, 0)); [cbn [fst set_rtv en_role] in H; discriminate H |].
    destruct (is_majority (g + 1) (v + 1)) eqn:Hm; [| cbn [fst set_rtv en_role] in H; discriminate H].
    right. apply is_majority_spec. exact Hm. }
  destruct (en_role s) eqn:Hr.
  - apply Hcase. exact Hl.
  - apply Hcase. exact Hl.
  - exfalso. apply Hnl. reflexivity.
Qed.

Print Assumptions term_monotone_run.
Print Assumptions vote_once_run.
Print Assumptions wf_node_step.
Print Assumptions leader_backed.

(* ---- the electorate of a vote round is every listed voter but the candidate, each once ---- *)
Lemma electorate_spec : forall me vs seen x,
  In x (map fst (electorate me seen vs)) <-> In x (map fst vs) /\ x <> me /\ ~ In x seen.
Proof.
  intros me vs. induction vs as [|v r IH]; intros seen x; cbn [electorate map In].
  - tauto.
  - destruct (N.eqb_spec (fst v) me) as [Eme|Nme]; cbn [orb].
    + rewrite IH. subst me. split; [tauto|]. intros ([E|H] & Hx & Hs); [congruence|tauto].
    + destruct (existsb (N.eqb (fst v)) seen) eqn:Ex.
      * rewrite IH. apply existsb_exists in Ex. destruct Ex as (y & Hy & Ey). apply N.eqb_eq in Ey. subst y.
        split; [tauto|]. intros ([E|H] & Hx & Hs); [subst x; contradiction|tauto].
      * cbn [map In fst]. rewrite IH. cbn [In].
        assert (Hns : ~ In (fst v) seen).
        { intros H. assert (existsb (N.eqb (fst v)) seen = true); [|congruence].
          apply existsb_exists. exists (fst v). split; [exact H|apply N.eqb_refl]. }
        split.
        -- intros [E|(H & Hx & Hs)]; [subst x; tauto|]. split; [tauto|]. split; [exact Hx|]. intros H'. apply Hs. now right.
        -- intros ([E|H] & Hx & Hs); [now left|]. destruct (N.eq_dec (fst v) x) as [E|NE]; [now left|right].
           split; [exact H|]. split; [exact Hx|]. intros [E|H']; [contradiction|contradiction].
Qed.

Lemma electorate_nodup : forall me vs seen, NoDup (map fst (electorate me seen vs)).
Proof.
  intros me vs. induction vs as [|v r IH]; intros seen; cbn [electorate map]; [constructor|].
  destruct ((fst v =? me) || existsb (N.eqb (fst v)) seen); [apply IH|].
  cbn [map]. constructor; [|apply IH]. intros H. apply electorate_spec in H. destruct H as (_ & _ & H). apply H. now left.
Qed.

(* a round is won only with the candidate's own vote plus grants adding up to a strict majority of ALL voters
   (reachable or not), the candidate included *)
Theorem round_won_needs_majority_of_all_voters : forall me t vs,
  round_won me t vs = 1 ->
  let el := electorate me [] vs in
  N.of_nat (length el) + 1 < 2 * (round_granted el + 1).
Proof.
  intros me t vs H el. unfold round_won in H. fold el in H.
  destruct el as [|e0 el0] eqn:E; [discriminate|].
  set (g := round_granted (e0 :: el0)) in *. set (d := round_denied (e0 :: el0)) in *.
  set (v := N.of_nat (length (e0 :: el0))) in *.
  assert (Hl : en_role (fst (estep (round_node me t) (ETimeout g 0 v d))) = Leader).
  { cbn [estep round_node en_role] in *. cbv zeta in *.
    destruct (v =? 0); [reflexivity|].
    destruct ((0 <? d) && (0 <? 0) && _); [cbn in H; discriminate|].
    destruct ((0 <? d) && log_ok _ (0, 0)); [cbn in H; discriminate|].
    destruct (is_majority (g + 1) (v + 1)); [reflexivity|cbn in H; discriminate]. }
  destruct (leader_backed (round_node me t) g 0 v d ltac:(cbn; discriminate) Hl) as [V0|Hm]; [|exact Hm].
  subst v. cbn [length] in V0. lia.
Qed.
Print Assumptions round_won_needs_majority_of_all_voters.
