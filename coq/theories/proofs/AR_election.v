(* generated from AR_election.v for the PROPOSED system DE.AbstractRaft (only the example state x3 differs) *)
(* AR_election — library of list / merge_from facts, basic ghost-history invariants of AbstractRaft,
   election safety (T1), the quorum form of election safety, and a non-vacuity example. *)
From Coq Require Import NArith List Bool Lia ZifyBool ZifyN PeanoNat.
From DE Require Import AbstractRaft.
Import ListNotations.
Open Scope N_scope.

(* ------------------------------------------------------------------ *)
(* list library (nat level)                                            *)
(* ------------------------------------------------------------------ *)
Section ListLib.
Context {A : Type}.
Implicit Types l L x : list A.

Lemma firstn_le_firstn i p l : (i <= p)%nat -> firstn i (firstn p l) = firstn i l.
Proof. intros H. rewrite firstn_firstn. f_equal. lia. Qed.

Lemma firstn_app_le i l x : (i <= length l)%nat -> firstn i (l ++ x) = firstn i l.
Proof.
  intros H. rewrite firstn_app. replace (i - length l)%nat with 0%nat by lia.
  cbn. apply app_nil_r.
Qed.

Lemma firstn_eq_len i l L : firstn i l = firstn i L -> (i <= length L)%nat -> (i <= length l)%nat.
Proof.
  intros E H. apply (f_equal (@length A)) in E. rewrite !firstn_length in E. lia.
Qed.

Lemma firstn_eq_le i k l L : firstn i l = firstn i L -> (k <= i)%nat -> firstn k l = firstn k L.
Proof.
  intros E H. apply (f_equal (firstn k)) in E. rewrite !firstn_le_firstn in E by lia. exact E.
Qed.

Lemma nth_error_firstn_lt p j l : (j < p)%nat -> nth_error (firstn p l) j = nth_error l j.
Proof.
  revert j l. induction p as [|p IH]; intros j l H; [lia|].
  destruct l as [|a l]; [reflexivity|]. destruct j as [|j]; [reflexivity|].
  cbn. apply IH. lia.
Qed.

Lemma firstn_eq_nth i j l L : firstn i l = firstn i L -> (j < i)%nat -> nth_error l j = nth_error L j.
Proof.
  intros E H. rewrite <- (nth_error_firstn_lt i j l H), <- (nth_error_firstn_lt i j L H). now rewrite E.
Qed.

Lemma firstn_S_snoc j l e : nth_error l j = Some e -> firstn (S j) l = firstn j l ++ [e].
Proof.
  revert l. induction j as [|j IH]; intros l H; destruct l as [|a l]; cbn in H; try discriminate.
  - inversion H; reflexivity.
  - cbn. f_equal. now apply IH.
Qed.

Lemma firstn_seg pos k L : firstn pos L ++ firstn k (skipn pos L) = firstn (pos + k) L.
Proof.
  revert L. induction pos as [|pos IH]; intros L; [reflexivity|].
  destruct L as [|a L]; cbn.
  - now rewrite firstn_nil.
  - f_equal. apply IH.
Qed.

Lemma skipn_cons_nth pos L e : nth_error L pos = Some e -> skipn pos L = e :: skipn (S pos) L.
Proof.
  revert L. induction pos as [|pos IH]; intros L H; destruct L as [|a L]; cbn in H; try discriminate.
  - inversion H; reflexivity.
  - cbn. now apply IH.
Qed.

Lemma skipn_nil_nth pos L : nth_error L pos = None -> skipn pos L = [].
Proof. intros H. apply skipn_all2. now apply nth_error_None. Qed.

Lemma nth_error_lt_Some j l : (j < length l)%nat -> exists e, nth_error l j = Some e.
Proof.
  intros H. destruct (nth_error l j) eqn:E; [eauto|]. apply nth_error_None in E. lia.
Qed.

Lemma nth_error_Some_lt j l e : nth_error l j = Some e -> (j < length l)%nat.
Proof. intros H. apply nth_error_Some. congruence. Qed.

Lemma firstn_all_eq i l L : firstn i l = firstn i L -> (length l < i)%nat -> l = L.
Proof.
  intros E H. assert (HL : (length L < i)%nat).
  { apply (f_equal (@length A)) in E. rewrite !firstn_length in E. lia. }
  rewrite !firstn_all2 in E by lia. exact E.
Qed.

(* two majorities intersect *)
End ListLib.

Lemma NoDup_disjoint_app (a b : list N) :
  NoDup a -> NoDup b -> (forall x, In x a -> ~ In x b) -> NoDup (a ++ b).
Proof.
  induction a as [|x a IH]; intros Ha Hb D; [exact Hb|].
  cbn. inversion Ha; subst. constructor.
  - intros Hin. apply in_app_or in Hin. destruct Hin as [Hin|Hin]; [tauto|].
    apply (D x); [now left|exact Hin].
  - apply IH; auto. intros y Hy. apply D. now right.
Qed.

Lemma majority_intersect nodes vs1 vs2 :
  majority nodes vs1 -> majority nodes vs2 -> exists v, In v vs1 /\ In v vs2.
Proof.
  intros (N1 & I1 & L1) (N2 & I2 & L2).
  assert (D : forall l, {exists v, In v l /\ In v vs2} + {forall x, In x l -> ~ In x vs2}).
  { induction l as [|x l [IH|IH]].
    - right. intros ? [].
    - left. destruct IH as (v & ? & ?). exists v. split; [now right|assumption].
    - destruct (in_dec N.eq_dec x vs2) as [i|n].
      + left. exists x. split; [now left|assumption].
      + right. intros y [<-|Hy]; auto. }
  destruct (D vs1) as [E|Dj]; [exact E|exfalso].
  assert (ND : NoDup (vs1 ++ vs2)) by (apply NoDup_disjoint_app; auto).
  assert (IN : incl (vs1 ++ vs2) nodes) by (apply incl_app; auto).
  pose proof (NoDup_incl_length ND IN) as Hlen. rewrite app_length in Hlen. lia.
Qed.

(* ------------------------------------------------------------------ *)
(* merge_from                                                          *)
(* ------------------------------------------------------------------ *)
Lemma merge_below i l es : forall pos, (i <= pos)%nat -> (pos <= length l)%nat ->
  firstn i (merge_from l pos es) = firstn i l.
Proof.
  induction es as [|e es IH]; intros pos H Hl; [reflexivity|].
  cbn [merge_from].
  assert (T : firstn i (firstn pos l ++ e :: es) = firstn i l).
  { rewrite firstn_app_le by (rewrite firstn_length; lia). now apply firstn_le_firstn. }
  destruct (nth_error l pos) as [x|] eqn:E; [|exact T].
  destruct (a_term x =? a_term e); [|exact T].
  apply IH; [lia|]. apply nth_error_Some_lt in E. lia.
Qed.

Lemma merge_In e l es : forall pos, In e (merge_from l pos es) -> In e l \/ In e es.
Proof.
  induction es as [|a es IH]; intros pos H; [now left|].
  cbn [merge_from] in H.
  assert (T : In e (firstn pos l ++ a :: es) -> In e l \/ In e (a :: es)).
  { intros Hin. apply in_app_or in Hin. destruct Hin as [Hin|Hin]; [left|now right].
    rewrite <- (firstn_skipn pos l). apply in_or_app. now left. }
  destruct (nth_error l pos) as [x|] eqn:E; [|auto].
  destruct (a_term x =? a_term a); [|auto].
  destruct (IH _ H); [now left|right; now right].
Qed.

(* M1: a prefix on which l already agrees with L survives merging a slice of L *)
Lemma merge_keeps i l L : forall k pos, (pos <= length l)%nat ->
  firstn i l = firstn i L ->
  firstn i (merge_from l pos (firstn k (skipn pos L))) = firstn i L.
Proof.
  induction k as [|k IH]; intros pos Hl E; [exact E|].
  destruct (nth_error L pos) as [e|] eqn:EL.
  2:{ rewrite (skipn_nil_nth _ _ EL). rewrite firstn_nil. exact E. }
  rewrite (skipn_cons_nth _ _ _ EL). cbn [firstn merge_from].
  assert (T : (i <= pos)%nat -> firstn i (firstn pos l ++ e :: firstn k (skipn (S pos) L)) = firstn i L).
  { intros Hi. rewrite firstn_app_le by (rewrite firstn_length; lia).
    rewrite firstn_le_firstn by lia. exact E. }
  destruct (Nat.le_gt_cases i pos) as [Hi|Hi].
  - destruct (nth_error l pos) as [x|] eqn:El; [|auto].
    destruct (a_term x =? a_term e); [|auto].
    apply IH; [|exact E]. apply nth_error_Some_lt in El. lia.
  - pose proof (firstn_eq_nth _ _ _ _ E Hi) as Hn. rewrite EL in Hn. rewrite Hn.
    rewrite N.eqb_refl. apply IH; [|exact E]. apply nth_error_Some_lt in Hn. lia.
Qed.

(* log-matching condition between two lists *)
Definition lmc (l L : list aentry) : Prop :=
  forall j x y, nth_error l j = Some x -> nth_error L j = Some y -> a_term x = a_term y ->
                firstn (S j) l = firstn (S j) L.

(* M2: the result of a merge is either the old log (which then agrees with L on the slice) or a prefix of L *)
Lemma merge_dich l L : lmc l L -> forall k pos,
  firstn pos l = firstn pos L -> (pos + k <= length L)%nat ->
  (merge_from l pos (firstn k (skipn pos L)) = l /\ firstn (pos + k) l = firstn (pos + k) L)
  \/ merge_from l pos (firstn k (skipn pos L)) = firstn (pos + k) L.
Proof.
  intros LM. induction k as [|k IH]; intros pos E Hk.
  - left. cbn. rewrite Nat.add_0_r. auto.
  - destruct (nth_error_lt_Some pos L) as [e EL]; [lia|].
    rewrite (skipn_cons_nth _ _ _ EL). cbn [firstn merge_from].
    assert (T : firstn pos l ++ e :: firstn k (skipn (S pos) L) = firstn (pos + S k) L).
    { rewrite E. rewrite <- firstn_seg. rewrite (skipn_cons_nth _ _ _ EL). reflexivity. }
    destruct (nth_error l pos) as [x|] eqn:El; [|now right].
    destruct (N.eqb_spec (a_term x) (a_term e)) as [Et|Et]; [|now right].
    replace (pos + S k)%nat with (S pos + k)%nat by lia.
    apply IH; [|lia]. now apply (LM pos x e).
Qed.

Lemma merge_result l L : lmc l L -> forall k pos,
  firstn pos l = firstn pos L -> (pos + k <= length L)%nat ->
  firstn (pos + k) (merge_from l pos (firstn k (skipn pos L))) = firstn (pos + k) L.
Proof.
  intros LM k pos E Hk. destruct (merge_dich l L LM k pos E Hk) as [[-> H]| ->]; [exact H|].
  now rewrite firstn_le_firstn.
Qed.

(* ------------------------------------------------------------------ *)
(* tactics                                                             *)
(* ------------------------------------------------------------------ *)
Ltac proj_simpl :=
  cbn [a_cur a_vote a_log a_commit g_votes g_cand g_leaders g_llog g_lcommit g_acks fst snd] in *.

Ltac inv_step H := inversion H; subst; clear H; proj_simpl.

Ltac in_cases :=
  repeat match goal with
  | H : In _ (_ :: _) |- _ => destruct H as [H|H]; [inversion H; subst; clear H|]
  end.

Ltac upd_cases :=
  unfold upd in *;
  repeat match goal with
  | |- context [N.eqb ?a ?b] => destruct (N.eqb_spec a b); subst
  | H : context [N.eqb ?a ?b] |- _ => destruct (N.eqb_spec a b); subst
  end.

Ltac ltb_cases :=
  repeat match goal with
  | |- context [N.ltb ?a ?b] => destruct (N.ltb_spec a b)
  | H : context [N.ltb ?a ?b] |- _ => destruct (N.ltb_spec a b)
  end.

Ltac step_cases H :=
  destruct H as [s0 n Hn
    | s0 v c t last Hv Hc Hvc Hle Hup Hor
    | s0 v t Hv Hlt
    | s0 n vs last Hn Hc Hnl Hmaj Hvs
    | s0 n pl Hl
    | s0 f l t prev k lc Hf Hl Hfl Hle Hpk Hlc Hta Hprev
    | s0 f t Hf Hle Hex
    | s0 n N vs Hl Hcn HN Hta Hmaj Hvs]; proj_simpl.

(* ------------------------------------------------------------------ *)
(* basic invariants                                                    *)
(* ------------------------------------------------------------------ *)
Section Basic.
Variable nodes : list N.

Record binv (s : astate) : Prop := {
  b_votes_le : forall v t c, In (v,t,c) (g_votes s) -> t <= a_cur s v;
  b_votes_cur : forall v c, In (v, a_cur s v, c) (g_votes s) -> a_vote s v = Some c;
  b_vote_once : forall v t c1 c2, In (v,t,c1) (g_votes s) -> In (v,t,c2) (g_votes s) -> c1 = c2;
  b_cand_le : forall c t last, In (c,t,last) (g_cand s) -> t <= a_cur s c;
  b_cand_uniq : forall c t l1 l2, In (c,t,l1) (g_cand s) -> In (c,t,l2) (g_cand s) -> l1 = l2;
  b_vote_cand : forall v t c, In (v,t,c) (g_votes s) -> exists last, In (c,t,last) (g_cand s);
  b_leader_le : forall n t, In (n,t) (g_leaders s) -> t <= a_cur s n;
  b_leader_uniq : forall a b t, In (a,t) (g_leaders s) -> In (b,t) (g_leaders s) -> a = b;
  b_leader_backed : forall n t, In (n,t) (g_leaders s) ->
      exists vs, majority nodes vs /\ forall v, In v vs -> In (v,t,n) (g_votes s);
  b_ack_leader : forall v t m, In (v,t,m) (g_acks s) -> exists l, In (l,t) (g_leaders s);
  b_ack_le : forall v t m, In (v,t,m) (g_acks s) -> t <= a_cur s v;
  b_ack_len : forall v t m, In (v,t,m) (g_acks s) -> m <= N.of_nat (length (g_llog s t));
  b_llog_nil : forall t, (forall m, ~ In (m,t) (g_leaders s)) -> g_llog s t = [];
  b_leader_log : forall n, In (n, a_cur s n) (g_leaders s) -> a_log s n = g_llog s (a_cur s n)
}.

Lemma binv_init : binv ainit.
Proof. constructor; cbn; intros; try contradiction; auto. Qed.

Lemma cur_mono s s' : astep nodes s s' -> forall n, a_cur s n <= a_cur s' n.
Proof. intros H n. inv_step H; upd_cases; lia. Qed.

Ltac vote_cur B :=
  match goal with Hin : In (?v, ?t, ?c) (g_votes ?s) |- _ =>
    let E := fresh "E" in
    pose proof (b_votes_le _ B _ _ _ Hin);
    assert (E : t = a_cur s v) by lia; rewrite E in Hin; pose proof (b_votes_cur _ B _ _ Hin)
  end.

Lemma binv_step s s' : binv s -> astep nodes s s' -> binv s'.
Proof.
  intros B H. constructor.
  - (* votes_le *)
    intros v' t' c' Hin. step_cases H; in_cases; upd_cases; try lia;
      try (pose proof (b_votes_le _ B _ _ _ Hin); lia).
  - (* votes_cur *)
    intros v' c' Hin. step_cases H; in_cases; upd_cases; ltb_cases; eauto using b_votes_cur; try lia;
      try (pose proof (b_votes_le _ B _ _ _ Hin); lia).
    + vote_cur B. destruct Hor as [?|[?|?]]; try lia; congruence.
    + vote_cur B. assumption.
    + vote_cur B. assumption.
  - (* vote_once *)
    intros v' t' c1 c2 H1 H2. step_cases H; in_cases; eauto using b_vote_once;
      try (match goal with Hin : In (_, a_cur _ _ + 1, _) _ |- _ => pose proof (b_votes_le _ B _ _ _ Hin); lia end).
    + vote_cur B. destruct Hor as [?|[?|?]]; try lia; congruence.
    + vote_cur B. destruct Hor as [?|[?|?]]; try lia; congruence.
  - (* cand_le *)
    intros c' t' last' Hin. step_cases H; in_cases; upd_cases; try lia;
      try (pose proof (b_cand_le _ B _ _ _ Hin); lia).
  - (* cand_uniq *)
    intros c' t' l1 l2 H1 H2. step_cases H; in_cases; eauto using b_cand_uniq;
      match goal with Hin : In (_, a_cur _ _ + 1, _) _ |- _ => pose proof (b_cand_le _ B _ _ _ Hin); lia end.
  - (* vote_cand *)
    intros v' t' c' Hin. step_cases H; in_cases; eauto using b_vote_cand.
    + eexists; left; reflexivity.
    + destruct (b_vote_cand _ B _ _ _ Hin) as [l0 Hl0]. exists l0. now right.
  - (* leader_le *)
    intros n' t' Hin. step_cases H; in_cases; upd_cases; try lia;
      try (pose proof (b_leader_le _ B _ _ Hin); lia).
  - (* leader_uniq *)
    intros a b t' H1 H2. step_cases H; in_cases; eauto using b_leader_uniq;
      exfalso; eapply Hnl; eauto.
  - (* leader_backed *)
    intros n' t' Hin. step_cases H; in_cases; eauto using b_leader_backed;
      try (destruct (b_leader_backed _ B _ _ Hin) as (vs' & M & Hv'); exists vs'; split; [exact M|]; intros; right; auto).
  - (* ack_leader *)
    intros v' t' m' Hin. step_cases H; in_cases; eauto using b_ack_leader.
    destruct (b_ack_leader _ B _ _ _ Hin) as [l0 ?]. exists l0. now right.
  - (* ack_le *)
    intros v' t' m' Hin. step_cases H; in_cases; upd_cases; try lia;
      try (pose proof (b_ack_le _ B _ _ _ Hin); lia).
  - (* ack_len *)
    intros v' t' m' Hin. step_cases H; in_cases; upd_cases; try lia; eauto using b_ack_len.
    + destruct (b_ack_leader _ B _ _ _ Hin) as [l0 Hl0]. exfalso; eapply Hnl; eauto.
    + pose proof (b_ack_len _ B _ _ _ Hin) as HH. rewrite (b_leader_log _ B _ Hl).
      rewrite app_length. cbn [length]. lia.
  - (* llog_nil *)
    intros t' Hno. step_cases H; upd_cases; eauto using b_llog_nil.
    + exfalso. eapply Hno. left; reflexivity.
    + apply (b_llog_nil _ B). intros m Hm. eapply Hno. right; eauto.
    + exfalso. eapply Hno; eauto.
  - (* leader_log *)
    intros n' Hin. step_cases H; in_cases; upd_cases; eauto using b_leader_log; try lia;
      try (pose proof (b_leader_le _ B _ _ Hin); lia).
    + pose proof (b_leader_le _ B _ _ Hin). assert (E : t = a_cur s0 v) by lia. subst t.
      eauto using b_leader_log.
    + exfalso. eapply Hnl. rewrite <- e. eauto.
    + exfalso. rewrite e in Hin. pose proof (b_leader_uniq _ B _ _ _ Hin Hl). congruence.
    + exfalso. pose proof (b_leader_uniq _ B _ _ _ Hin Hl). congruence.
    + pose proof (b_leader_le _ B _ _ Hin). assert (E : t = a_cur s0 f) by lia. subst t.
      eauto using b_leader_log.
Qed.

Lemma reach_binv s : reach nodes s -> binv s.
Proof. induction 1; eauto using binv_init, binv_step. Qed.

(* T1 *)
Theorem election_safety : forall s, reach nodes s ->
  forall a b t, In (a,t) (g_leaders s) -> In (b,t) (g_leaders s) -> a = b.
Proof. intros s R. exact (b_leader_uniq _ (reach_binv s R)). Qed.

(* Election safety does not rest on the freshness guard of SBecomeLeader: two nodes that each hold a
   majority of grants in one term are the same node (vote-once + quorum intersection). *)
Theorem election_safety_quorum : forall s, reach nodes s ->
  forall a b t vs1 vs2, majority nodes vs1 -> majority nodes vs2 ->
  (forall v, In v vs1 -> In (v,t,a) (g_votes s)) ->
  (forall v, In v vs2 -> In (v,t,b) (g_votes s)) -> a = b.
Proof.
  intros s R a b t vs1 vs2 M1 M2 V1 V2.
  destruct (majority_intersect _ _ _ M1 M2) as (v & I1 & I2).
  exact (b_vote_once _ (reach_binv s R) _ _ _ _ (V1 _ I1) (V2 _ I2)).
Qed.

Theorem leader_has_quorum : forall s, reach nodes s -> forall n t, In (n,t) (g_leaders s) ->
  exists vs, majority nodes vs /\ forall v, In v vs -> In (v,t,n) (g_votes s).
Proof. intros s R. exact (b_leader_backed _ (reach_binv s R)). Qed.

End Basic.


(* ------------------------------------------------------------------ *)
(* non-vacuity: node 1 is elected in term 1 by {1,2}, appends one entry, node 2 accepts it, and the
   leader commits it.                                                  *)
(* ------------------------------------------------------------------ *)
Module Example.
Definition nodes3 : list N := [1;2;3].
Definition e1 : aentry := {| a_term := 1; a_pl := 7 |}.

Definition x1 : astate :=  (* STimeout 1 *)
  {| a_cur := upd (a_cur ainit) 1 (a_cur ainit 1 + 1); a_vote := upd (a_vote ainit) 1 (Some 1);
     a_log := a_log ainit; a_commit := a_commit ainit;
     g_votes := (1, a_cur ainit 1 + 1, 1) :: g_votes ainit;
     g_cand := (1, a_cur ainit 1 + 1, last_id (a_log ainit 1)) :: g_cand ainit;
     g_leaders := g_leaders ainit; g_llog := g_llog ainit; g_lcommit := g_lcommit ainit; g_acks := g_acks ainit |}.
Definition x2 : astate :=  (* SVoteGrant 2 -> 1 in term 1 *)
  {| a_cur := upd (a_cur x1) 2 1; a_vote := upd (a_vote x1) 2 (Some 1);
     a_log := a_log x1; a_commit := a_commit x1;
     g_votes := (2, 1, 1) :: g_votes x1; g_cand := g_cand x1;
     g_leaders := g_leaders x1; g_llog := g_llog x1; g_lcommit := g_lcommit x1; g_acks := g_acks x1 |}.
Definition x3 : astate :=  (* SBecomeLeader 1 *)
  {| a_cur := a_cur x2; a_vote := a_vote x2; a_log := a_log x2; a_commit := a_commit x2;
     g_votes := g_votes x2; g_cand := g_cand x2;
     g_leaders := (1, a_cur x2 1) :: g_leaders x2;
     g_llog := upd (g_llog x2) (a_cur x2 1) (a_log x2 1);
     g_lcommit := upd (g_lcommit x2) (a_cur x2 1) (a_commit x2 1); g_acks := g_acks x2 |}.
Definition x4 : astate :=  (* SLeaderAppend 1 *)
  {| a_cur := a_cur x3; a_vote := a_vote x3;
     a_log := upd (a_log x3) 1 (a_log x3 1 ++ [{| a_term := a_cur x3 1; a_pl := 7 |}]);
     a_commit := a_commit x3;
     g_votes := g_votes x3; g_cand := g_cand x3; g_leaders := g_leaders x3;
     g_llog := upd (g_llog x3) (a_cur x3 1) (a_log x3 1 ++ [{| a_term := a_cur x3 1; a_pl := 7 |}]);
     g_lcommit := g_lcommit x3; g_acks := g_acks x3 |}.
Definition x5 : astate :=  (* SAppendAccept 2 from leader 1, prev = 0, k = 1, lc = 0 *)
  {| a_cur := upd (a_cur x4) 2 1;
     a_vote := upd (a_vote x4) 2 (if a_cur x4 2 <? 1 then None else a_vote x4 2);
     a_log := upd (a_log x4) 2 (merge_from (a_log x4 2) (N.to_nat 0) (slice (g_llog x4 1) 0 1));
     a_commit := upd (a_commit x4) 2 (N.max (a_commit x4 2) (N.min 0 (0 + 1)));
     g_votes := g_votes x4; g_cand := g_cand x4; g_leaders := g_leaders x4;
     g_llog := g_llog x4; g_lcommit := g_lcommit x4;
     g_acks := (2, 1, 0 + 1) :: g_acks x4 |}.
Definition x6 : astate :=  (* SAdvanceCommit 1 to index 1 with {1,2} *)
  {| a_cur := a_cur x5; a_vote := a_vote x5; a_log := a_log x5;
     a_commit := upd (a_commit x5) 1 1;
     g_votes := g_votes x5; g_cand := g_cand x5; g_leaders := g_leaders x5; g_llog := g_llog x5;
     g_lcommit := upd (g_lcommit x5) (a_cur x5 1) (N.max (g_lcommit x5 (a_cur x5 1)) 1);
     g_acks := g_acks x5 |}.

Lemma maj12 : majority nodes3 [1;2].
Proof.
  repeat split.
  - repeat constructor; cbn; intuition discriminate.
  - intros x [<-|[<-|[]]]; cbn; auto.
  - cbn. lia.
Qed.

Lemma reach_x6 : reach nodes3 x6.
Proof.
  assert (R1 : reach nodes3 x1).
  { eapply reachS; [apply reach0|]. apply (STimeout nodes3 ainit 1). cbn; auto. }
  assert (R2 : reach nodes3 x2).
  { eapply reachS; [exact R1|].
    apply (SVoteGrant nodes3 x1 2 1 1 (0,0)); cbn; auto; try discriminate; try lia. }
  assert (R3 : reach nodes3 x3).
  { eapply reachS; [exact R2|].
    apply (SBecomeLeader nodes3 x2 1 [1;2] (0,0)); cbn; auto.
    - apply maj12.
    - intros v [<-|[<-|[]]]; auto. }
  assert (R4 : reach nodes3 x4).
  { eapply reachS; [exact R3|]. apply (SLeaderAppend nodes3 x3 1 7). cbn; auto. }
  assert (R5 : reach nodes3 x5).
  { eapply reachS; [exact R4|].
    apply (SAppendAccept nodes3 x4 2 1 1 0 1 0); cbn; auto; try discriminate; try lia. }
  eapply reachS; [exact R5|].
  apply (SAdvanceCommit nodes3 x5 1 1 [1;2]); cbn; auto; try lia.
  - apply maj12.
  - intros v [<-|[<-|[]]]; [left; reflexivity|right]. exists 1. split; [lia|]. cbn. auto.
Qed.

Example nonvacuous :
  reach nodes3 x6 /\ g_leaders x6 = [(1,1)] /\
  a_log x6 1 = [e1] /\ a_log x6 2 = [e1] /\ a_log x6 3 = [] /\
  a_commit x6 1 = 1 /\ g_lcommit x6 1 = 1 /\ g_llog x6 1 = [e1].
Proof. split; [exact reach_x6|]. cbn. repeat split; reflexivity. Qed.
End Example.

Print Assumptions election_safety.
Print Assumptions election_safety_quorum.
Print Assumptions Example.nonvacuous.
