(* C03 on the model of the SUGGESTED FIX (is_single_node_cluster := initial_cluster_size == 1 && voters().is_empty()):
   the full statement holds for every history. Kept next to the as-coded development so that the integrator can
   switch DE.Membership.is_single to [is_single_fixed] when the fix is committed. *)
From Coq Require Import NArith List Bool Lia Arith.
From DE Require Import Val BufLog LeaderCommit Membership proofs.C26 proofs.C03.
Import ListNotations.
Open Scope N_scope.

Definition is_single_fixed (m : mstate) : bool := (m_init m =? 1) && match voters m with [] => true | _ => false end.
Definition elect_fixed (m : mstate) (rs : list N) : list N :=
  if is_single_fixed m then [1; 0; 0]
  else match voters m with
       | [] => [0; 0; 0]
       | vs => let total := N.of_nat (length vs) + 1 in
               let succeed := 1 + granted (length vs) rs in
               [if total / 2 <? succeed then 1 else 0; 1; N.of_nat (length vs)]
       end.
Definition won_fixed (m : mstate) (rs : list N) : bool := nth 0 (elect_fixed m rs) 0 =? 1.

Theorem shortcut_sound_fixed :
  forall (self : N) (init : list node) (cs : list change) (rs : list N),
    let m := run (mk self init) cs in
    won_fixed m rs = true ->
    (granted (length (voters m)) rs = 0 -> voters m = []) /\
    (voters m <> [] ->
       1 <= granted (length (voters m)) rs /\
       N.of_nat (length (vset m)) < 2 * (1 + granted (length (voters m)) rs)).
Proof.
  intros self init cs rs. cbv zeta. set (m := run (mk self init) cs).
  unfold won_fixed, elect_fixed, is_single_fixed, vset. intros Hw.
  destruct (voters m) as [|v vs] eqn:V.
  - split; [reflexivity|intros H; contradiction].
  - rewrite andb_false_r in Hw. cbn [nth] in Hw.
    destruct (N.ltb_spec ((N.of_nat (length (v :: vs)) + 1) / 2) (1 + granted (length (v :: vs)) rs)) as [Hlt|Hge];
      [|cbn in Hw; discriminate].
    apply half_lt in Hlt. cbn [length] in *. split.
    + intros G. rewrite G in Hlt. lia.
    + intros _. split; lia.
Qed.

(* the witness of shortcut_refuted no longer wins *)
Example refuted_witness_fixed :
  let m := run (mk 1 [nf 1]) [CAdd 2 S_PROMOTABLE; CAdd 3 S_PROMOTABLE; CBatchPromote [2; 3] S_ACTIVE] in
  won_fixed m [0; 0] = false /\ won_fixed m [1; 0] = true /\ won_fixed (mk 1 [nf 1]) [] = true.
Proof. vm_compute. repeat split; reflexivity. Qed.
