(* C08 (leader half) — every AppendEntries request assembled by the leader carries consecutive
   indexes starting right after prev_log_index. Proved on DE.Repl.leader_prepare for every log state,
   cap, peer next index and batch of new entries. *)
From Coq Require Import NArith List Bool Lia.
From DE Require Import Val BufLog PLog Repl.
Import ListNotations.
Open Scope N_scope.

Lemma contig_prefix_contig first es : contig first (contig_prefix first es).
Proof.
  revert first; induction es as [|e es IH]; intros first; cbn [contig_prefix contig]; [exact I|].
  destruct (N.eqb_spec (e_idx e) first) as [E|E]; cbn [contig]; [split; [exact E | apply IH] | exact I].
Qed.

Lemma contig_prefix_id first es : contig first es -> contig_prefix first es = es.
Proof.
  revert first; induction es as [|e es IH]; intros first H; cbn [contig_prefix]; [reflexivity|].
  destruct H as [H1 H2]. rewrite H1, N.eqb_refl. f_equal. apply IH; exact H2.
Qed.

(* the kept part is a prefix of what was collected: nothing is reordered or invented *)
Lemma contig_prefix_prefix first es : exists rest, es = contig_prefix first es ++ rest.
Proof.
  revert first; induction es as [|e es IH]; intros first; cbn [contig_prefix]; [exists []; reflexivity|].
  destruct (N.eqb_spec (e_idx e) first) as [E|E].
  - destruct (IH (first + 1)) as [rest Hr]. exists rest. cbn [app]. f_equal. exact Hr.
  - exists (e :: es). reflexivity.
Qed.

Lemma build_request_contig b term commit next entries :
  contig (rq_prev (build_request b term commit next entries) + 1)
         (rq_entries (build_request b term commit next entries)).
Proof. unfold build_request; cbn [rq_prev rq_entries]. apply contig_prefix_contig. Qed.

Lemma leader_prepare_reqs_in b cap term commit peers pls p r :
  In (p, r) (snd (fst (leader_prepare b cap term commit peers pls))) ->
  exists b1 next entries, r = build_request b1 term commit next entries.
Proof.
  unfold leader_prepare.
  destruct (generate_new b term pls) as [b1 new_es]. cbn [fst snd].
  induction peers as [|[q nx] peers IH]; cbn [fold_right]; [intros []|].
  destruct ((1 <? bmin b1) && (nx <? bmin b1)); [exact IH|].
  intros [H|H]; [|exact (IH H)].
  inversion H; subst. eexists _, _, _. reflexivity.
Qed.

Theorem request_contiguous b cap term commit peers pls p r :
  In (p, r) (snd (fst (leader_prepare b cap term commit peers pls))) ->
  contig (rq_prev r + 1) (rq_entries r).
Proof.
  intros H. destruct (leader_prepare_reqs_in _ _ _ _ _ _ _ _ H) as (b1 & next & entries & ->).
  apply build_request_contig.
Qed.

(* Non-vacuity and usefulness: on a concrete lagging peer the request is non-empty and, when the
   backlog fits under the cap, carries backlog and new entries in full. *)
Definition demo_log : buf :=
  b_append buf0 (map (fun i => {| e_idx := i; e_term := 1; e_pl := i |}) [1;2;3;4;5;6;7;8;9;10]).

Example request_demo_capped :
  map (fun pr => map e_idx (rq_entries (snd pr)))
      (snd (fst (leader_prepare demo_log 2 1 5 [(2, 1); (3, 11); (4, 9)] [77]))) =
  [[1; 2]; [11]; [9; 10; 11]].
Proof. vm_compute. reflexivity. Qed.
