(* C12 (server read actor): a lease read is served only if the lease is valid at the moment of its own state machine
   read; once the lease is revoked no further lease read of the batch is served. *)
From Coq Require Import NArith List Bool Lia.
From DE Require Import Val ReadActor.
Import ListNotations.
Open Scope N_scope.

(* the served commands, in order, paired with the validity flag recorded at their state machine read *)
Fixpoint served_flags (pols cs vs : list N) : list (N * N) :=
  match pols, cs with
  | p :: ps, c :: cs' =>
      if c =? 1 then match vs with v :: vs' => (p, v) :: served_flags ps cs' vs' | [] => [] end
      else served_flags ps cs' vs
  | _, _ => []
  end.

Lemma ra_run_lengths : forall pols valid reads k, length (fst (ra_run pols valid reads k)) = length pols.
Proof.
  induction pols as [|p rest IH]; intros valid reads k; cbn [ra_run]; [reflexivity|].
  destruct ((p =? 3) || ((p =? 2) && valid)).
  - destruct (ra_run rest _ (reads + 1) k) as [cs vs] eqn:E. cbn. f_equal. specialize (IH (if (0 <? k) && (reads + 1 =? k) then false else valid) (reads + 1) k). rewrite E in IH. exact IH.
  - destruct (ra_run rest valid reads k) as [cs vs] eqn:E. cbn. f_equal. specialize (IH valid reads k). rewrite E in IH. exact IH.
Qed.

(* every served lease read saw a valid lease at its own read *)
Theorem served_lease_reads_saw_valid_lease : forall pols valid reads k p v,
  In (p, v) (served_flags pols (fst (ra_run pols valid reads k)) (snd (ra_run pols valid reads k))) -> p = 2 -> v = 1.
Proof.
  induction pols as [|q rest IH]; intros valid reads k p v Hin Hp; cbn [ra_run] in Hin; [destruct Hin|].
  destruct ((q =? 3) || ((q =? 2) && valid)) eqn:S.
  - destruct (ra_run rest (if (0 <? k) && (reads + 1 =? k) then false else valid) (reads + 1) k) as [cs vs] eqn:E.
    cbn [fst snd] in Hin. cbn [served_flags] in Hin. change (1 =? 1) with true in Hin. cbv iota in Hin.
    destruct Hin as [H|H].
    + injection H as Hq Hv. subst q. rewrite Hp in S. change (2 =? 3) with false in S. cbn [orb] in S.
      change (2 =? 2) with true in S. cbn [andb] in S. rewrite S in Hv. symmetry. exact Hv.
    + eapply (IH _ (reads + 1) k p v); [|exact Hp]. rewrite E. exact H.
  - destruct (ra_run rest valid reads k) as [cs vs] eqn:E. cbn [fst snd served_flags] in Hin.
    change (2 =? 1) with false in Hin. cbv iota in Hin.
    eapply (IH valid reads k p v); [|exact Hp]. rewrite E. exact Hin.
Qed.

(* with an invalid lease no lease read is served at all (a revoked lease stays invalid for the rest of the batch) *)
Theorem no_lease_read_without_lease : forall pols reads k,
  (k = 0 \/ k <= reads) ->
  forall i, nth_error pols i = Some 2 -> nth_error (fst (ra_run pols false reads k)) i = Some 2.
Proof.
  induction pols as [|q rest IH]; intros reads k Hk i Hi; [destruct i; discriminate|].
  cbn [ra_run]. rewrite andb_false_r, orb_false_r.
  destruct (N.eqb_spec q 3) as [E3|N3].
  - assert (Hv : (if (0 <? k) && (reads + 1 =? k) then false else false) = false) by (destruct ((0 <? k) && (reads + 1 =? k)); reflexivity).
    rewrite Hv. destruct (ra_run rest false (reads + 1) k) as [cs vs] eqn:E. cbn [fst].
    destruct i as [|i]; [cbn in Hi; inversion Hi; subst; discriminate|]. cbn [nth_error] in *.
    specialize (IH (reads + 1) k ltac:(lia) i Hi). rewrite E in IH. exact IH.
  - destruct (ra_run rest false reads k) as [cs vs] eqn:E. cbn [fst].
    destruct i as [|i]; [reflexivity|]. cbn [nth_error] in *.
    specialize (IH reads k Hk i Hi). rewrite E in IH. exact IH.
Qed.

Example batch_with_stepdown :
  ra_run [2; 2; 2; 3; 2] true 0 2 = ([1; 1; 2; 1; 2], [1; 1; 0]).
Proof. reflexivity. Qed.
Print Assumptions served_lease_reads_saw_valid_lease.
Print Assumptions no_lease_read_without_lease.
