(* AR_bridge — the node-level executable models (tied to the code by their probes) meet the guards of the abstract
   system DE.AbstractRaft on which the global safety properties are proved. *)
From Coq Require Import NArith List Bool Lia ZifyBool ZifyN.
From DE Require Import Val Election AbstractRaft.
From DE.proofs Require Import C02.
Import ListNotations.
Open Scope N_scope.

(* the abstract "vote in the current term" of a concrete node: its vote record if it is of the node's term *)
Definition abs_vote (s : enode) : option N :=
  match en_vote s with Some v => if v_term v =? en_term s then Some (v_id v) else None | None => None end.

Lemma log_ok_is_up_to_date a b : log_ok a b = up_to_date a b.
Proof. reflexivity. Qed.

(* the guard and the effect of AbstractRaft.SVoteGrant *)
Definition grant_guard (s s' : enode) (cand t : N) (cl : N * N) : Prop :=
  en_term s <= t /\ up_to_date (en_last s) cl = true /\
  (en_term s < t \/ abs_vote s = None \/ abs_vote s = Some cand) /\
  en_term s' = t /\ abs_vote s' = Some cand /\ en_last s' = en_last s.
(* a refusal is SVoteDeny (newer term adopted, no vote in it) or a stutter step (term and vote unchanged) *)
Definition deny_effect (s s' : enode) (t : N) : Prop :=
  en_last s' = en_last s /\
  ((en_term s < t /\ en_term s' = t /\ abs_vote s' = None) \/
   (en_term s' = en_term s /\ abs_vote s' = abs_vote s)).

Lemma follower_vote_grant s cand t cl s' :
  vote_le (en_term s) (en_vote s) -> follower_vote s cand t cl = (s', true) -> grant_guard s s' cand t cl.
Proof.
  intros Hle H. unfold follower_vote in H. unfold grant_guard, abs_vote.
  destruct (N.ltb_spec t (en_term s)) as [Hlt|Hge]; [cbn in H; inversion H|].
  destruct (log_ok (en_last s) cl) eqn:Hok; [|cbn in H; inversion H]. cbn [negb] in H.
  rewrite log_ok_is_up_to_date in Hok.
  destruct (N.ltb_spec (en_term s) t) as [Hlt2|Hge2].
  - inversion H; subst; cbn. rewrite N.eqb_refl. repeat split; auto; lia.
  - assert (en_term s = t) by lia. subst t.
    destruct (en_vote s) as [v|] eqn:Ev.
    + destruct ((v_term v =? en_term s) && (v_id v =? cand)) eqn:Hb; inversion H; subst; cbn.
      rewrite N.eqb_refl. apply andb_true_iff in Hb. destruct Hb as (Hb1 & Hb2).
      apply N.eqb_eq in Hb2. rewrite Hb1, Hb2. repeat split; auto; lia.
    + inversion H; subst; cbn. rewrite N.eqb_refl. repeat split; auto; lia.
Qed.

Lemma follower_vote_deny s cand t cl s' :
  vote_le (en_term s) (en_vote s) -> follower_vote s cand t cl = (s', false) -> deny_effect s s' t.
Proof.
  intros Hle H. unfold follower_vote in H. unfold deny_effect, abs_vote.
  assert (G : forall g : bool, (set_rtv s Follower (if en_term s <? t then t else en_term s)
                (if g then Some {| v_id := cand; v_term := t; v_committed := false |} else en_vote s), g) = (s', false) ->
              s' = set_rtv s Follower (if en_term s <? t then t else en_term s) (en_vote s)).
  { intros g E. inversion E; subst. reflexivity. }
  apply G in H. subst s'. cbn. split; [reflexivity|].
  destruct (N.ltb_spec (en_term s) t) as [Hlt|Hge]; [left|right; split; reflexivity].
  repeat split; auto. destruct (en_vote s) as [v|] eqn:Ev; [|reflexivity].
  pose proof (Hle v eq_refl). destruct (N.eqb_spec (v_term v) t); [lia|reflexivity].
Qed.

Lemma fv_fresh s1 cand t cl : en_term s1 = t -> en_vote s1 = None ->
  follower_vote s1 cand t cl =
    (set_rtv s1 Follower t (if log_ok (en_last s1) cl then Some {| v_id := cand; v_term := t; v_committed := false |} else None),
     log_ok (en_last s1) cl).
Proof.
  intros Et Ev. unfold follower_vote. rewrite Et, Ev, N.ltb_irrefl. destruct (log_ok (en_last s1) cl); reflexivity.
Qed.

(* a candidate or leader that accepts a request of a newer term first steps down into that term, without a vote *)
Lemma stepped_down s r t v : en_vote s = Some v -> v_term v < t ->
  let s1 := become_follower (set_rtv s r t (en_vote s)) in
  en_term s1 = t /\ en_vote s1 = None /\ en_last s1 = en_last s.
Proof.
  intros Ev Hlt. cbn. rewrite Ev. cbn. destruct (N.leb_spec t (v_term v)); [lia|]. repeat split.
Qed.

(* the same for a vote request handled in any role *)
Theorem vote_request_meets_abstract_guard s cand t li lt s' r :
  wf_node s -> en_id s <> 0 -> estep s (EVoteReq cand t li lt) = (s', r) ->
  (r = 1 /\ grant_guard s s' cand t (li, lt)) \/ (r = 0 /\ deny_effect s s' t).
Proof.
  intros W Hid H. pose proof (wf_vote_term _ W) as Hle. cbn [estep] in H.
  assert (Stutter : (s, 0) = (s', r) -> (r = 1 /\ grant_guard s s' cand t (li, lt)) \/ (r = 0 /\ deny_effect s s' t)).
  { intros E. inversion E; subst. right. split; [reflexivity|]. split; [reflexivity|]. right. split; reflexivity. }
  assert (Fresh : forall rl v, en_vote s = Some v -> v_term v = en_term s -> en_term s < t ->
            (let '(s2, g) := follower_vote (become_follower (set_rtv s rl t (en_vote s))) cand t (li, lt) in (s2, if g then 1 else 0)) = (s', r) ->
            (r = 1 /\ grant_guard s s' cand t (li, lt)) \/ (r = 0 /\ deny_effect s s' t)).
  { intros rl v Ev Evt Hlt E.
    destruct (stepped_down s rl t v Ev ltac:(lia)) as (A & B & C).
    rewrite (fv_fresh _ cand t (li, lt) A B) in E. rewrite C in E.
    destruct (log_ok (en_last s) (li, lt)) eqn:Hok; inversion E; subst; cbn.
    - left. split; [reflexivity|]. unfold grant_guard, abs_vote. cbn. rewrite N.eqb_refl.
      rewrite log_ok_is_up_to_date in Hok. repeat split; auto; lia.
    - right. split; [reflexivity|]. unfold deny_effect, abs_vote. cbn. split; [reflexivity|]. left. repeat split; auto. }
  destruct (en_role s) eqn:Er.
  - destruct (follower_vote s cand t (li, lt)) as [s1 g] eqn:F. destruct g; inversion H; subst.
    + left. split; [reflexivity|]. eapply follower_vote_grant; eauto.
    + right. split; [reflexivity|]. eapply follower_vote_deny; eauto.
  - pose proof (wf_candidate _ W Er) as Ev.
    destruct (candidate_legal s t (li, lt)) eqn:Hl; [|auto].
    eapply (Fresh Candidate); eauto.
    unfold candidate_legal in Hl. rewrite Ev in Hl. cbn in Hl.
    destruct (N.ltb_spec t (en_term s)); [discriminate|].
    destruct (log_ok (en_last s) (li, lt)); cbn in Hl; [|discriminate].
    apply N.eqb_neq in Hid. rewrite Hid in Hl. cbn in Hl. apply N.ltb_lt in Hl. exact Hl.
  - pose proof (wf_leader _ W Er) as Ev.
    destruct (N.ltb_spec (en_term s) t) as [Hlt|Hge]; [|auto].
    eapply (Fresh Leader); eauto.
Qed.
Print Assumptions vote_request_meets_abstract_guard.

(* ------------------------------------------------------------------ *)
(* the follower's conflict rule of the plain log (PLog.p_filter_append, refined by the buffered log: C19) on a
   purge-free log is AbstractRaft.merge_from                            *)
(* ------------------------------------------------------------------ *)
From DE Require Import BufLog PLog.
From DE.proofs Require Import C19.

Definition fg (e : entry) : aentry := {| a_term := e_term e; a_pl := e_pl e |}.

Lemma lookup_nth : forall l n k, contig n l -> lookup l (n + N.of_nat k) = nth_error l k.
Proof.
  induction l as [|x l IH]; intros n k Hc.
  - destruct k; reflexivity.
  - destruct Hc as (Hx & Hc). unfold lookup. cbn [find]. destruct k as [|k].
    + replace (n + N.of_nat 0) with n by lia. rewrite Hx, N.eqb_refl. reflexivity.
    + destruct (N.eqb_spec (e_idx x) (n + N.of_nat (S k))) as [E|_]; [lia|].
      replace (n + N.of_nat (S k)) with (n + 1 + N.of_nat k) by lia. apply (IH (n + 1) k Hc).
Qed.

Lemma pta_nth p k : pb_idx p = 0 -> contig 1 (pents p) ->
  p_term_at p (1 + N.of_nat k) = option_map e_term (nth_error (pents p) k).
Proof.
  intros Hb Hc. unfold p_term_at. rewrite (lookup_nth _ 1 k Hc), Hb.
  destruct (nth_error (pents p) k); reflexivity.
Qed.

Definition after_drop (p : plog) (es : list entry) : list entry :=
  match drop_agreeing p es with
  | [] => pents p
  | d :: rest => filter (fun e => e_idx e <? e_idx d) (pents p) ++ d :: rest
  end.

Lemma drop_is_merge p : pb_idx p = 0 -> contig 1 (pents p) ->
  forall es j, contig (N.of_nat j + 1) es ->
  map fg (after_drop p es) = merge_from (map fg (pents p)) j (map fg es).
Proof.
  intros Hb Hc. pose proof (p_last_idx_len p ltac:(rewrite Hb; exact Hc)) as Hlast. rewrite Hb in Hlast.
  assert (Cut : forall e es' j, e_idx e = N.of_nat j + 1 ->
            map fg (filter (fun x => e_idx x <? e_idx e) (pents p) ++ e :: es') =
            firstn j (map fg (pents p)) ++ map fg (e :: es')).
  { intros e es' j He. rewrite map_app, firstn_map. f_equal. f_equal.
    replace (e_idx e) with (1 + N.of_nat j) by lia. apply filter_lt_firstn. exact Hc. }
  induction es as [|e es IH]; intros j Hes; [reflexivity|].
  destruct Hes as (He & Hes). unfold after_drop. cbn [drop_agreeing map merge_from].
  replace (e_idx e) with (1 + N.of_nat j) at 1 by lia. rewrite (pta_nth p j Hb Hc), nth_error_map.
  destruct (nth_error (pents p) j) as [x|] eqn:Ex; cbn [option_map].
  - assert (Hj : (j < length (pents p))%nat) by (apply nth_error_Some; congruence).
    cbn [fg a_term]. destruct (N.eqb_spec (e_term x) (e_term e)) as [Et|Et]; cbn [andb].
    + destruct (N.leb_spec (e_idx e) (p_last_idx p)) as [_|Hgt]; [|lia].
      specialize (IH (S j)). unfold after_drop in IH. apply IH.
      replace (N.of_nat (S j) + 1) with (N.of_nat j + 1 + 1) by lia. exact Hes.
    + apply Cut. lia.
  - apply Cut. lia.
Qed.

Theorem follower_rule_is_merge_from p prev pterm es :
  pb_idx p = 0 -> contig 1 (pents p) -> contig (prev + 1) es -> p_prev_matches p prev pterm = true ->
  map fg (pents (fst (p_filter_append p prev pterm es))) =
  merge_from (map fg (pents p)) (N.to_nat prev) (map fg es).
Proof.
  intros Hb Hc Hes Hm. unfold p_filter_append. rewrite Hm.
  rewrite <- (drop_is_merge p Hb Hc es (N.to_nat prev)) by (rewrite N2Nat.id; exact Hes).
  unfold after_drop. destruct (drop_agreeing p es); reflexivity.
Qed.

(* and its acceptance test implies the guard of AbstractRaft.SAppendAccept *)
Theorem prev_matches_meets_abstract_guard p prev pterm :
  pb_idx p = 0 -> contig 1 (pents p) -> p_prev_matches p prev pterm = true ->
  prev <= N.of_nat (length (pents p)) /\ term_at (map fg (pents p)) prev = pterm.
Proof.
  intros Hb Hc Hm. unfold p_prev_matches in Hm. unfold term_at.
  destruct (N.eqb_spec prev 0) as [->|Hp0].
  - cbn [andb orb] in Hm. split; [lia|].
    destruct (N.eqb_spec pterm 0) as [->|_]; [reflexivity|]. cbn [orb] in Hm.
    unfold p_term_at in Hm. rewrite (lookup_contig_none _ 1 0 Hc) in Hm by lia. rewrite Hb in Hm. discriminate.
  - cbn [andb orb] in Hm.
    replace prev with (1 + N.of_nat (N.to_nat (prev - 1))) in Hm by lia.
    rewrite (pta_nth p _ Hb Hc) in Hm. rewrite nth_error_map.
    destruct (nth_error (pents p) (N.to_nat (prev - 1))) as [x|] eqn:Ex; cbn [option_map] in *; [|discriminate].
    apply N.eqb_eq in Hm. split; [|exact Hm].
    assert ((N.to_nat (prev - 1) < length (pents p))%nat) by (apply nth_error_Some; congruence). lia.
Qed.
Print Assumptions follower_rule_is_merge_from.
Print Assumptions prev_matches_meets_abstract_guard.

(* ------------------------------------------------------------------ *)
(* the count form of the leader's commit rule (C09_commit_sound: more than half of voters + leader have
   match >= N) yields the acknowledging majority that AbstractRaft.SAdvanceCommit asks for *)
(* ------------------------------------------------------------------ *)
Lemma filter_map_length {A B} (f : A -> B) (P : B -> bool) l :
  length (filter P (map f l)) = length (filter (fun x => P (f x)) l).
Proof. induction l as [|a l IH]; cbn; [reflexivity|]. destruct (P (f a)); cbn; rewrite IH; reflexivity. Qed.

Theorem commit_count_gives_majority (self : N) (voters : list N) (m : N -> N) (self_last c : N) :
  NoDup voters -> ~ In self voters ->
  (length voters + 1 < 2 * length (filter (fun x => c <=? x) (map m voters ++ [self_last])))%nat ->
  exists vs, majority (self :: voters) vs /\ forall v, In v vs -> v = self \/ (In v voters /\ c <= m v).
Proof.
  intros ND Hs Hcnt.
  set (acks := filter (fun v => c <=? m v) voters).
  assert (NDa : NoDup acks) by (apply NoDup_filter; exact ND).
  assert (Ia : incl acks voters) by (intros x Hx; apply filter_In in Hx; tauto).
  rewrite filter_app, app_length, filter_map_length in Hcnt. fold acks in Hcnt.
  assert (Hone : (length (filter (fun x => c <=? x) [self_last]) <= 1)%nat) by (cbn; destruct (c <=? self_last); cbn; lia).
  exists (self :: acks). split.
  - split; [constructor; [intros H; apply Hs, Ia, H|exact NDa]|]. split.
    + intros x [<-|Hx]; [now left|right; apply Ia, Hx].
    + cbn [length]. lia.
  - intros v [<-|Hv]; [now left|right]. apply filter_In in Hv. destruct Hv as (Hv & Hc). split; [exact Hv|lia].
Qed.
Print Assumptions commit_count_gives_majority.

(* ------------------------------------------------------------------ *)
(* what a leader builds (C07.built_from: the entries right after prev in its log, with the log's term at prev) is a
   slice of the leader log in the sense of AbstractRaft.SAppendAccept *)
(* ------------------------------------------------------------------ *)
From DE.proofs Require Import C07 AR_election AR_logs.

Lemma built_entries_are_slice L : contig 1 (pents L) ->
  forall es prev, contig (N.of_nat prev + 1) es -> (forall e, In e es -> p_entry L (e_idx e) = Some e) ->
  map fg es = firstn (length es) (skipn prev (map fg (pents L))) /\ (es <> [] -> (prev + length es <= length (pents L))%nat).
Proof.
  intros Hc. induction es as [|e es IH]; intros prev Hes Hin; [split; [reflexivity|congruence]|].
  destruct Hes as (He & Hes).
  assert (Hn : nth_error (pents L) prev = Some e).
  { rewrite <- (lookup_nth _ 1 prev Hc). replace (1 + N.of_nat prev) with (e_idx e) by lia. apply Hin. now left. }
  destruct (IH (S prev)) as (E & Hl).
  { replace (N.of_nat (S prev) + 1) with (N.of_nat prev + 1 + 1) by lia. exact Hes. }
  { intros x Hx. apply Hin. now right. }
  assert (Hm : nth_error (map fg (pents L)) prev = Some (fg e)) by (rewrite nth_error_map, Hn; reflexivity).
  split.
  - cbn [map length]. rewrite (skipn_cons_nth _ _ _ Hm). cbn [firstn]. f_equal. exact E.
  - intros _. cbn [length]. apply nth_error_Some_lt in Hn.
    destruct es as [|x es']; [cbn [length]; lia|]. specialize (Hl ltac:(discriminate)). cbn [length] in *. lia.
Qed.

Theorem leader_request_is_slice L prev pterm es :
  pb_idx L = 0 -> contig 1 (pents L) -> built_from L prev pterm es ->
  map fg es = slice (map fg (pents L)) prev (N.of_nat (length es)) /\
  prev + N.of_nat (length es) <= N.of_nat (length (pents L)) /\
  term_at (map fg (pents L)) prev = pterm.
Proof.
  intros Hb Hc (Hes & Hin & Hp).
  assert (Hm : p_prev_matches L prev pterm = true).
  { unfold p_prev_matches. destruct Hp as [(-> & ->)|(H0 & Ht)]; [reflexivity|]. rewrite Ht, N.eqb_refl. apply orb_true_r. }
  destruct (prev_matches_meets_abstract_guard L prev pterm Hb Hc Hm) as (Hle & Hta).
  destruct (built_entries_are_slice L Hc es (N.to_nat prev)) as (E & Hl); [rewrite N2Nat.id; exact Hes|exact Hin|].
  split; [|split; [|exact Hta]].
  - rewrite slice_nat, Nat2N.id. exact E.
  - destruct es as [|e es']; [cbn [length]; lia|]. specialize (Hl ltac:(discriminate)). lia.
Qed.
Print Assumptions leader_request_is_slice.
