(* C36 — merging queued AppendEntries requests is equivalent to handling them one at a time,
   at the level of the plain log (PLog.v).  Depends only on Val, BufLog (definitions), PLog, Repl, Merge.

   Contents
     p_check_legal / p_follower_handle / p_follower_wf / p_run_seq : plain-log mirror of
        Repl.check_legal / Repl.follower_handle / Merge.follower_wf / Merge.run_seq
     merge_all, chain, chain_wf          : the merged request, the shape of a mergeable queue sent by one leader
     fa_two_step (fa_log_two_step)       : key lemma, two consecutive filter-appends = one on the concatenation
     merge_equiv_accept                  : accepted and refused-by-term cases (conjuncts 3,4 adjusted, see there)
     merge_equiv_accept_last_nonempty    : the merged answer = the answer to the last request carrying entries
     merge_equiv_accept_no_heartbeat     : the first formulation verbatim, when no request of the chain is empty
     merge_equiv_conflict                : rejected-prev case
     demo_*, cexA..cexD                  : satisfiability of the hypotheses, counterexamples (vm_compute)
   No axioms. *)
From Coq Require Import NArith List Bool Lia ZifyBool ZifyN.
From DE Require Import Val BufLog PLog Repl Merge.
Import ListNotations.
Open Scope N_scope.

Record pstate := { ps_log : plog; ps_term : N; ps_commit : N }.

Definition p_check_legal (p : plog) (my_term : N) (r : request) : resp :=
  if rq_term r <? my_term then RHigher my_term
  else if (rq_prev r =? 0) && (rq_pterm r =? 0) then RSuccess my_term (p_last_log_id p)
  else match p_term_at p (rq_prev r) with
       | Some t =>
           if t =? rq_pterm r then RSuccess my_term (Some (rq_prev r, rq_pterm r))
           else RConflict my_term (Some t)
                  (Some (match p_first_index_for_term p t with Some i => i | None => rq_prev r - 1 end))
       | None =>
           let last := match p_last_log_id p with Some (i, _) => i | None => 0 end in
           RConflict my_term None (Some (last + 1))
       end.

Definition p_follower_handle (p : plog) (my_term my_commit : N) (r : request) : plog * resp * option N :=
  match p_check_legal p my_term r with
  | RSuccess _ _ =>
      let '(p', lid) :=
        match rq_entries r with
        | [] => (p, p_last_log_id p)
        | _ => p_filter_append p (rq_prev r) (rq_pterm r) (rq_entries r)
        end in
      let covered := rq_prev r + N.of_nat (length (rq_entries r)) in
      let cu := match follower_commit my_commit (N.min (p_last_entry_id p') covered) (rq_commit r) with
                | Some c => if my_commit <? c then Some c else None
                | None => None end in
      (p', RSuccess my_term lid, cu)
  | other => (p, other, None)
  end.

Definition p_follower_wf (s : pstate) (r : request) : pstate * resp :=
  if rq_term r <? ps_term s then (s, RHigher (ps_term s))
  else
    let term' := N.max (ps_term s) (rq_term r) in
    let '(p', rs, cu) := p_follower_handle (ps_log s) term' (ps_commit s) r in
    ({| ps_log := p'; ps_term := term'; ps_commit := match cu with Some c => c | None => ps_commit s end |}, rs).

Fixpoint p_run_seq (s : pstate) (rs : list request) : pstate * list resp :=
  match rs with
  | [] => (s, [])
  | r :: rs' => let '(s', a) := p_follower_wf s r in
                let '(s'', out) := p_run_seq s' rs' in (s'', a :: out)
  end.

Fixpoint merge_all (r1 : request) (rest : list request) : request :=
  match rest with
  | [] => r1
  | r2 :: rest' =>
      merge_all {| rq_term := rq_term r1; rq_prev := rq_prev r1; rq_pterm := rq_pterm r1;
                   rq_entries := rq_entries r1 ++ rq_entries r2;
                   rq_commit := N.max (rq_commit r1) (rq_commit r2) |} rest'
  end.

Fixpoint chain (r1 : request) (rest : list request) : Prop :=
  match rest with
  | [] => True
  | r2 :: rest' =>
      rq_term r2 = rq_term r1 /\
      rq_prev r2 = rq_prev r1 + N.of_nat (length (rq_entries r1)) /\
      rq_pterm r2 = (match last_entry (rq_entries r1) with Some e => e_term e | None => rq_pterm r1 end) /\
      rq_commit r1 <= rq_commit r2 /\ chain r2 rest'
  end.

Definition resp_kind (a : resp) : N :=
  match a with RSuccess _ _ => 0 | RConflict _ _ _ => 1 | RHigher _ => 2 end.
Definition resp_term (a : resp) : N :=
  match a with RSuccess t _ => t | RConflict t _ _ => t | RHigher t => t end.

Arguments N.add : simpl never.
Arguments N.sub : simpl never.
Arguments N.ltb : simpl never.
Arguments N.leb : simpl never.
Arguments N.eqb : simpl never.
Arguments N.max : simpl never.
Arguments N.min : simpl never.
Arguments N.of_nat : simpl never.

Notation len l := (N.of_nat (length l)).

(* ------------------------------------------------------------------ *)
(* contiguous lists, lookup, last_entry                                 *)
(* ------------------------------------------------------------------ *)
Lemma len_cons {A} (x : A) l : len (x :: l) = 1 + len l.
Proof. cbn [length]. lia. Qed.
Lemma len_app {A} (l1 l2 : list A) : len (l1 ++ l2) = len l1 + len l2.
Proof. rewrite app_length. lia. Qed.
Lemma len_nil {A} : len (@nil A) = 0.
Proof. reflexivity. Qed.

Lemma contig_in : forall l n e, contig n l -> In e l -> n <= e_idx e < n + len l.
Proof.
  induction l as [|x l IH]; intros n e Hc Hin; [easy|].
  cbn [contig] in Hc. destruct Hc as [Hx Hc]. rewrite len_cons.
  destruct Hin as [->|Hin]; [lia|]. specialize (IH _ _ Hc Hin). lia.
Qed.

Lemma contig_app : forall l1 l2 n, contig n (l1 ++ l2) <-> contig n l1 /\ contig (n + len l1) l2.
Proof.
  induction l1 as [|x l1 IH]; intros l2 n; cbn [app contig].
  - replace (n + len []) with n by (cbn; lia). tauto.
  - rewrite IH, len_cons. replace (n + (1 + len l1)) with (n + 1 + len l1) by lia. tauto.
Qed.

Lemma lookup_some : forall l i e, lookup l i = Some e -> In e l /\ e_idx e = i.
Proof. intros l i e H. apply find_some in H. destruct H as [H1 H2]. split; [easy|lia]. Qed.

Lemma lookup_in_contig : forall l n e, contig n l -> In e l -> lookup l (e_idx e) = Some e.
Proof.
  induction l as [|x l IH]; intros n e Hc Hin; [easy|].
  destruct Hc as [Hx Hc]. unfold lookup. cbn [find].
  destruct Hin as [->|Hin].
  - rewrite N.eqb_refl. reflexivity.
  - pose proof (contig_in _ _ _ Hc Hin).
    destruct (e_idx x =? e_idx e) eqn:E; [lia|]. eapply IH; eauto.
Qed.

Lemma lookup_none_out : forall l i, (forall e, In e l -> e_idx e <> i) -> lookup l i = None.
Proof.
  intros l i H. destruct (lookup l i) as [e|] eqn:E; [|easy].
  apply lookup_some in E. destruct E as [E1 E2]. now apply H in E1.
Qed.

Lemma lookup_app_r : forall l1 l2 i, (forall e, In e l1 -> e_idx e <> i) -> lookup (l1 ++ l2) i = lookup l2 i.
Proof.
  induction l1 as [|x l1 IH]; intros l2 i H; [easy|]. unfold lookup. cbn [app find].
  pose proof (H x (or_introl eq_refl)). destruct (e_idx x =? i) eqn:E; [lia|].
  apply IH. intros. apply H. now right.
Qed.

Lemma last_entry_app : forall l e, last_entry (l ++ [e]) = Some e.
Proof. intros. unfold last_entry. rewrite rev_unit. reflexivity. Qed.

Lemma last_entry_nil_iff : forall l, last_entry l = None <-> l = [].
Proof.
  intros l. unfold last_entry. split.
  - destruct (rev l) eqn:E; [|easy]. intros _. apply (f_equal (@rev _)) in E. rewrite rev_involutive in E. easy.
  - intros ->. reflexivity.
Qed.

Lemma last_entry_app_ne : forall l1 l2, l2 <> [] -> last_entry (l1 ++ l2) = last_entry l2.
Proof.
  intros l1 l2 Hne. destruct (exists_last Hne) as [l' [a ->]].
  rewrite app_assoc, !last_entry_app. reflexivity.
Qed.

Lemma last_entry_app_nil : forall l, last_entry (l ++ []) = last_entry l.
Proof. intros. rewrite app_nil_r. reflexivity. Qed.

Lemma last_entry_contig : forall l n, contig n l -> l <> [] ->
  exists e, last_entry l = Some e /\ In e l /\ e_idx e + 1 = n + len l.
Proof.
  intros l n Hc Hne. destruct (exists_last Hne) as [l' [a ->]].
  exists a. rewrite last_entry_app. split; [easy|]. split; [apply in_or_app; right; now left|].
  apply contig_app in Hc. destruct Hc as [_ [Ha _]]. rewrite len_app. cbn [length]. lia.
Qed.

Lemma filter_lt_all : forall l m, (forall e, In e l -> e_idx e < m) -> filter (fun e => e_idx e <? m) l = l.
Proof.
  induction l as [|x l IH]; intros m H; [easy|]. cbn [filter].
  pose proof (H x (or_introl eq_refl)). destruct (e_idx x <? m) eqn:E; [|lia].
  f_equal. apply IH. intros. apply H. now right.
Qed.

Lemma filter_in_lt : forall l m e, In e (filter (fun e => e_idx e <? m) l) -> In e l /\ e_idx e < m.
Proof. intros l m e H. apply filter_In in H. destruct H. split; [easy|lia]. Qed.

(* ------------------------------------------------------------------ *)
(* plain log facts                                                      *)
(* ------------------------------------------------------------------ *)
Lemma pta_above : forall p i, pb_idx p < i -> p_term_at p i = option_map e_term (lookup (pents p) i).
Proof.
  intros p i Hi. unfold p_term_at. destruct (lookup (pents p) i); [easy|].
  destruct (i =? pb_idx p) eqn:E; [lia|]. rewrite andb_false_r. reflexivity.
Qed.

Lemma p_last_idx_len : forall p, contig (pb_idx p + 1) (pents p) -> p_last_idx p = pb_idx p + len (pents p).
Proof.
  intros p Hc. unfold p_last_idx. destruct (pents p) as [|x l] eqn:E.
  - cbn. lia.
  - rewrite <- E in *. destruct (last_entry_contig _ _ Hc) as [e [E1 [_ E2]]]; [now rewrite E|].
    rewrite E1. lia.
Qed.

(* a matching prev is at or above the purge boundary *)
Lemma prev_above : forall p prev pterm, contig (pb_idx p + 1) (pents p) -> (prev = 0 -> pb_idx p = 0) ->
  p_prev_matches p prev pterm = true -> pb_idx p <= prev.
Proof.
  intros p prev pterm Hc H0 Hm. destruct (N.eq_dec prev 0) as [Hz|Hz]; [rewrite H0 by easy; lia|].
  unfold p_prev_matches in Hm. destruct (prev =? 0) eqn:E; [lia|]. cbn [andb orb] in Hm.
  unfold p_term_at in Hm. destruct (lookup (pents p) prev) as [e|] eqn:El.
  - apply lookup_some in El. destruct El as [E1 E2]. pose proof (contig_in _ _ _ Hc E1). lia.
  - destruct (prev =? pb_idx p) eqn:E2; [lia|]. rewrite andb_false_r in Hm. easy.
Qed.

(* ------------------------------------------------------------------ *)
(* drop_agreeing                                                        *)
(* ------------------------------------------------------------------ *)
Lemma da_app : forall p l1 l2, drop_agreeing p (l1 ++ l2) =
  match drop_agreeing p l1 with [] => drop_agreeing p l2 | d :: r => (d :: r) ++ l2 end.
Proof.
  induction l1 as [|e l1 IH]; intros l2; [reflexivity|]. cbn [app drop_agreeing].
  destruct (p_term_at p (e_idx e)) as [t|]; [|reflexivity].
  destruct ((t =? e_term e) && (e_idx e <=? p_last_idx p)); [apply IH|reflexivity].
Qed.

Lemma da_nil_agree : forall p es, drop_agreeing p es = [] ->
  forall e, In e es -> p_term_at p (e_idx e) = Some (e_term e) /\ e_idx e <= p_last_idx p.
Proof.
  induction es as [|x es IH]; intros H e Hin; [easy|]. cbn [drop_agreeing] in H.
  destruct (p_term_at p (e_idx x)) as [t|] eqn:Et; [|easy].
  destruct ((t =? e_term x) && (e_idx x <=? p_last_idx p)) eqn:Ea; [|easy].
  destruct Hin as [<-|Hin]; [|now apply IH]. rewrite Et. split; [f_equal|]; lia.
Qed.

Lemma da_suffix : forall p es, exists A, es = A ++ drop_agreeing p es.
Proof.
  induction es as [|x es [A IH]]; [now exists []|]. cbn [drop_agreeing].
  destruct (p_term_at p (e_idx x)) as [t|]; [|now exists []].
  destruct ((t =? e_term x) && (e_idx x <=? p_last_idx p)); [|now exists []].
  exists (x :: A). cbn [app]. now f_equal.
Qed.

Lemma da_none : forall p es, (forall e, In e es -> p_term_at p (e_idx e) = None) -> drop_agreeing p es = es.
Proof.
  intros p [|x es] H; [reflexivity|]. cbn [drop_agreeing]. now rewrite (H x (or_introl eq_refl)).
Qed.

(* ------------------------------------------------------------------ *)
(* the key lemma: two consecutive filter-appends = one on the concatenation *)
(* ------------------------------------------------------------------ *)
Definition next_pterm (pterm : N) (E1 : list entry) : N :=
  match last_entry E1 with Some e => e_term e | None => pterm end.

Lemma pm_of_term_at : forall p i t, p_term_at p i = Some t -> p_prev_matches p i t = true.
Proof. intros p i t H. unfold p_prev_matches. rewrite H, N.eqb_refl. apply orb_true_r. Qed.

Definition fa_log (p : plog) (es : list entry) : plog :=
  match drop_agreeing p es with
  | [] => p
  | d :: rest => {| pb_idx := pb_idx p; pb_term := pb_term p;
                    pents := filter (fun e => e_idx e <? e_idx d) (pents p) ++ d :: rest |}
  end.

Lemma fa_fst : forall p prev pterm es, p_prev_matches p prev pterm = true ->
  fst (p_filter_append p prev pterm es) = fa_log p es.
Proof.
  intros p prev pterm es Hm. unfold p_filter_append, fa_log. rewrite Hm.
  destruct (drop_agreeing p es); reflexivity.
Qed.

Lemma fa_snd : forall p prev pterm es, p_prev_matches p prev pterm = true ->
  snd (p_filter_append p prev pterm es) = lid_of (last_entry es).
Proof.
  intros p prev pterm es Hm. unfold p_filter_append. rewrite Hm.
  destruct (drop_agreeing p es); reflexivity.
Qed.

Lemma fa_log_two_step : forall p prev pterm E1 E2,
  contig (pb_idx p + 1) (pents p) -> pb_idx p <= prev ->
  p_prev_matches p prev pterm = true -> contig (prev + 1) (E1 ++ E2) ->
  p_prev_matches (fa_log p E1) (prev + len E1) (next_pterm pterm E1) = true /\
  fa_log (fa_log p E1) E2 = fa_log p (E1 ++ E2).
Proof.
  intros p prev pterm E1 E2 Hc Hb Hm Hce. apply contig_app in Hce. destruct Hce as [Hc1 Hc2].
  unfold fa_log at 1 3 4. rewrite da_app.
  destruct (drop_agreeing p E1) as [|d rest1] eqn:Ed.
  - (* all of E1 already present and agreeing: first step is the identity *)
    split; [|reflexivity].
    destruct E1 as [|x E1'] eqn:EE.
    + unfold next_pterm. cbn [last_entry rev]. rewrite len_nil, N.add_0_r. exact Hm.
    + rewrite <- EE in *. destruct (last_entry_contig _ _ Hc1) as [l [L1 [L2 L3]]]; [now rewrite EE|].
      unfold next_pterm. rewrite L1. replace (prev + len E1) with (e_idx l) by lia.
      apply pm_of_term_at. now apply (da_nil_agree _ _ Ed).
  - set (p1 := {| pb_idx := pb_idx p; pb_term := pb_term p;
                  pents := filter (fun e => e_idx e <? e_idx d) (pents p) ++ d :: rest1 |}).
    assert (Hpb : pb_idx p1 = pb_idx p) by reflexivity.
    assert (Hpe : pents p1 = filter (fun e => e_idx e <? e_idx d) (pents p) ++ d :: rest1) by reflexivity.
    destruct (da_suffix p E1) as [A HA]. rewrite Ed in HA.
    assert (HcA : contig (prev + 1 + len A) (d :: rest1)).
    { rewrite HA in Hc1. now apply contig_app in Hc1. }
    assert (Hne : E1 <> []) by (rewrite HA; now destruct A).
    destruct (last_entry_contig _ _ Hc1 Hne) as [l [L1 [L2 L3]]].
    pose proof (contig_in _ _ _ Hc1 L2) as Hlr.
    assert (Hl : last_entry (d :: rest1) = Some l).
    { rewrite <- L1, HA. symmetry. now apply last_entry_app_ne. }
    assert (Hlin : In l (d :: rest1)).
    { destruct (last_entry_contig _ _ HcA) as [l' [L1' [L2' _]]]; [easy|]. congruence. }
    assert (Hd : e_idx d = prev + 1 + len A) by now destruct HcA.
    (* every entry of p1 has index <= prev + len E1 *)
    assert (Hall : forall e, In e (pents p1) -> e_idx e <= prev + len E1).
    { intros e He. rewrite Hpe in He. apply in_app_or in He. destruct He as [He|He].
      - apply filter_in_lt in He. pose proof (contig_in _ _ _ HcA Hlin). lia.
      - assert (In e E1) by (rewrite HA; apply in_or_app; now right).
        pose proof (contig_in _ _ _ Hc1 H). lia. }
    split.
    + unfold next_pterm. rewrite L1. replace (prev + len E1) with (e_idx l) by lia.
      apply pm_of_term_at. rewrite pta_above by lia. rewrite Hpe.
      rewrite lookup_app_r.
      * now rewrite (lookup_in_contig _ _ _ HcA Hlin).
      * intros e He. apply filter_in_lt in He. pose proof (contig_in _ _ _ HcA Hlin). lia.
    + unfold fa_log. rewrite da_none.
      * destruct E2 as [|d2 rest2]; [now rewrite app_nil_r|]. unfold p1 at 1 2. cbn [pb_idx pb_term]. f_equal.
        rewrite Hpe, filter_lt_all.
        -- now rewrite <- app_assoc.
        -- intros e He. apply Hall in He. destruct Hc2 as [Hd2 _]. lia.
      * intros e He. pose proof (contig_in _ _ _ Hc2 He). rewrite pta_above by lia.
        rewrite lookup_none_out; [reflexivity|]. intros e' He'. apply Hall in He'. lia.
Qed.

Lemma fa_two_step : forall p prev pterm E1 E2,
  contig (pb_idx p + 1) (pents p) -> pb_idx p <= prev ->
  p_prev_matches p prev pterm = true -> contig (prev + 1) (E1 ++ E2) ->
  let p1 := fst (p_filter_append p prev pterm E1) in
  p_prev_matches p1 (prev + len E1) (next_pterm pterm E1) = true /\
  fst (p_filter_append p1 (prev + len E1) (next_pterm pterm E1) E2) = fst (p_filter_append p prev pterm (E1 ++ E2)).
Proof.
  intros p prev pterm E1 E2 Hc Hb Hm Hce. cbv zeta. rewrite !(fa_fst p prev pterm) by exact Hm.
  destruct (fa_log_two_step _ _ _ _ _ Hc Hb Hm Hce) as [G1 G2].
  split; [exact G1|]. now rewrite (fa_fst _ _ _ _ G1).
Qed.

(* ------------------------------------------------------------------ *)
(* after a non-empty accepted filter-append the log reaches the covered index *)
(* ------------------------------------------------------------------ *)
Lemma fa_last_ge : forall p prev es,
  contig (pb_idx p + 1) (pents p) -> pb_idx p <= prev -> contig (prev + 1) es -> es <> [] ->
  prev + len es <= p_last_entry_id (fa_log p es).
Proof.
  intros p prev es Hc Hb Hce Hne.
  destruct (last_entry_contig _ _ Hce Hne) as [l [L1 [L2 L3]]].
  pose proof (contig_in _ _ _ Hce L2) as Hlr.
  unfold fa_log. destruct (drop_agreeing p es) as [|d rest] eqn:Ed.
  - destruct (da_nil_agree _ _ Ed _ L2) as [Ht _]. rewrite pta_above in Ht by lia.
    destruct (lookup (pents p) (e_idx l)) as [x|] eqn:El; [|easy].
    apply lookup_some in El. destruct El as [X1 X2].
    assert (Hpne : pents p <> []) by (intros E0; now rewrite E0 in X1).
    destruct (last_entry_contig _ _ Hc Hpne) as [z [Z1 [Z2 Z3]]].
    pose proof (contig_in _ _ _ Hc X1). unfold p_last_entry_id. rewrite Z1. lia.
  - destruct (da_suffix p es) as [A HA]. rewrite Ed in HA.
    unfold p_last_entry_id. cbn [pents]. rewrite last_entry_app_ne by easy.
    replace (last_entry (d :: rest)) with (Some l).
    + lia.
    + rewrite <- L1, HA. now rewrite last_entry_app_ne.
Qed.

Lemma fa_log_nil : forall p, fa_log p [] = p.
Proof. reflexivity. Qed.

(* ------------------------------------------------------------------ *)
(* normal form of an accepted step                                      *)
(* ------------------------------------------------------------------ *)
Definition acc_commit (p' : plog) (c : N) (r : request) : N :=
  N.max c (N.min (rq_commit r) (N.min (p_last_entry_id p') (rq_prev r + len (rq_entries r)))).

Definition acc_state (s : pstate) (r : request) : pstate :=
  let p' := fa_log (ps_log s) (rq_entries r) in
  {| ps_log := p'; ps_term := rq_term r; ps_commit := acc_commit p' (ps_commit s) r |}.

Definition acc_lm (p : plog) (es : list entry) : option (N * N) :=
  match es with [] => p_last_log_id p | _ => lid_of (last_entry es) end.

Definition acc_ack (p : plog) (r : request) : resp := RSuccess (rq_term r) (acc_lm p (rq_entries r)).

Lemma check_legal_accept : forall p T r, (rq_term r <? T) = false ->
  p_prev_matches p (rq_prev r) (rq_pterm r) = true -> exists lm, p_check_legal p T r = RSuccess T lm.
Proof.
  intros p T r Ht Hm. unfold p_check_legal. rewrite Ht. unfold p_prev_matches in Hm.
  destruct ((rq_prev r =? 0) && (rq_pterm r =? 0)); [eauto|]. cbn [orb] in Hm.
  destruct (p_term_at p (rq_prev r)) as [t|]; [|easy]. rewrite Hm. eauto.
Qed.

Lemma wf_accept : forall s r, (rq_term r <? ps_term s) = false ->
  p_prev_matches (ps_log s) (rq_prev r) (rq_pterm r) = true ->
  p_follower_wf s r = (acc_state s r, acc_ack (ps_log s) r).
Proof.
  intros s r Ht Hm. unfold p_follower_wf. rewrite Ht.
  replace (N.max (ps_term s) (rq_term r)) with (rq_term r) by lia.
  unfold p_follower_handle.
  destruct (check_legal_accept (ps_log s) (rq_term r) r) as [lm Hl]; [lia|exact Hm|]. rewrite Hl.
  assert (Hpair : (match rq_entries r with
                   | [] => (ps_log s, p_last_log_id (ps_log s))
                   | _ :: _ => p_filter_append (ps_log s) (rq_prev r) (rq_pterm r) (rq_entries r)
                   end) = (fa_log (ps_log s) (rq_entries r), acc_lm (ps_log s) (rq_entries r))).
  { destruct (rq_entries r) as [|x es] eqn:Ee; [reflexivity|].
    rewrite (surjective_pairing (p_filter_append _ _ _ _)).
    rewrite (fa_fst _ _ _ _ Hm), (fa_snd _ _ _ _ Hm). reflexivity. }
  rewrite Hpair. unfold acc_state, acc_ack, acc_commit. cbv zeta. f_equal. f_equal.
  unfold follower_commit.
  set (m := N.min (p_last_entry_id (fa_log (ps_log s) (rq_entries r))) (rq_prev r + len (rq_entries r))).
  destruct (ps_commit s <? rq_commit r) eqn:E1.
  - destruct (ps_commit s <? N.min (rq_commit r) m) eqn:E2; lia.
  - lia.
Qed.

Lemma wf_higher : forall s r, (rq_term r <? ps_term s) = true -> p_follower_wf s r = (s, RHigher (ps_term s)).
Proof. intros s r Ht. unfold p_follower_wf. now rewrite Ht. Qed.

(* ------------------------------------------------------------------ *)
(* merging two consecutive requests                                     *)
(* ------------------------------------------------------------------ *)
Definition merge2 (r1 r2 : request) : request :=
  {| rq_term := rq_term r1; rq_prev := rq_prev r1; rq_pterm := rq_pterm r1;
     rq_entries := rq_entries r1 ++ rq_entries r2;
     rq_commit := N.max (rq_commit r1) (rq_commit r2) |}.

Lemma merge_all_cons : forall r1 r2 rest, merge_all r1 (r2 :: rest) = merge_all (merge2 r1 r2) rest.
Proof. reflexivity. Qed.

Definition link (r1 r2 : request) : Prop :=
  rq_term r2 = rq_term r1 /\
  rq_prev r2 = rq_prev r1 + len (rq_entries r1) /\
  rq_pterm r2 = next_pterm (rq_pterm r1) (rq_entries r1) /\
  rq_commit r1 <= rq_commit r2.

Lemma two_step : forall s r1 r2,
  contig (pb_idx (ps_log s) + 1) (pents (ps_log s)) -> pb_idx (ps_log s) <= rq_prev r1 ->
  (rq_term r1 <? ps_term s) = false ->
  p_prev_matches (ps_log s) (rq_prev r1) (rq_pterm r1) = true ->
  link r1 r2 -> contig (rq_prev r1 + 1) (rq_entries r1 ++ rq_entries r2) ->
  let s1 := acc_state s r1 in
  (rq_term r2 <? ps_term s1) = false /\
  p_prev_matches (ps_log s1) (rq_prev r2) (rq_pterm r2) = true /\
  acc_state s1 r2 = acc_state s (merge2 r1 r2).
Proof.
  intros s r1 r2 Hc Hb Ht Hm [L1 [L2 [L3 L4]]] Hce. cbv zeta.
  destruct (fa_log_two_step _ _ _ _ _ Hc Hb Hm Hce) as [G1 G2].
  split; [cbn [acc_state ps_term]; lia|].
  split; [cbn [acc_state ps_log]; rewrite L2, L3; exact G1|].
  unfold acc_state at 1 3. cbn [ps_log ps_term ps_commit acc_state merge2 rq_entries rq_term].
  rewrite G2. f_equal; [easy|].
  unfold acc_commit. cbn [merge2 rq_commit rq_prev rq_entries]. rewrite len_app, L2.
  set (L1' := p_last_entry_id (fa_log (ps_log s) (rq_entries r1))).
  set (L2' := p_last_entry_id (fa_log (ps_log s) (rq_entries r1 ++ rq_entries r2))).
  assert (HL : L2' = L1' \/ rq_prev r1 + len (rq_entries r1) + len (rq_entries r2) <= L2').
  { assert (Hd : rq_entries r2 = [] \/ rq_entries r2 <> []) by (destruct (rq_entries r2); [left|right]; easy).
    destruct Hd as [E2|E2].
    - left. unfold L2'. now rewrite E2, app_nil_r.
    - right. unfold L2'.
      replace (rq_prev r1 + len (rq_entries r1) + len (rq_entries r2)) with (rq_prev r1 + len (rq_entries r1 ++ rq_entries r2)) by (rewrite len_app; lia).
      apply fa_last_ge; auto. intros E0. apply app_eq_nil in E0. now destruct E0. }
  lia.
Qed.

(* ------------------------------------------------------------------ *)
(* chains                                                               *)
(* ------------------------------------------------------------------ *)
Definition all_entries (r1 : request) (rest : list request) : list entry :=
  rq_entries r1 ++ concat (map rq_entries rest).

Lemma merge_all_fields : forall rest r1,
  rq_term (merge_all r1 rest) = rq_term r1 /\ rq_prev (merge_all r1 rest) = rq_prev r1 /\
  rq_pterm (merge_all r1 rest) = rq_pterm r1 /\ rq_entries (merge_all r1 rest) = all_entries r1 rest.
Proof.
  induction rest as [|r2 rest IH]; intros r1.
  - unfold all_entries. cbn [merge_all map concat]. now rewrite app_nil_r.
  - rewrite merge_all_cons. destruct (IH (merge2 r1 r2)) as [I1 [I2 [I3 I4]]].
    rewrite I1, I2, I3, I4. unfold all_entries. cbn [merge2 rq_term rq_prev rq_pterm rq_entries map concat].
    now rewrite app_assoc.
Qed.

Lemma chain_cons : forall r1 r2 rest, chain r1 (r2 :: rest) <-> link r1 r2 /\ chain r2 rest.
Proof. intros. cbn [chain]. unfold link, next_pterm. tauto. Qed.

Lemma next_pterm_app : forall pt E1 E2, next_pterm (next_pterm pt E1) E2 = next_pterm pt (E1 ++ E2).
Proof.
  intros pt E1 E2. destruct E2 as [|x E2].
  - now rewrite app_nil_r.
  - unfold next_pterm at 1 3. rewrite last_entry_app_ne by easy.
    destruct (last_entry (x :: E2)) eqn:E; [reflexivity|]. apply last_entry_nil_iff in E. easy.
Qed.

Lemma chain_merge2 : forall r1 r2 rest, link r1 r2 -> chain r2 rest -> chain (merge2 r1 r2) rest.
Proof.
  intros r1 r2 [|r3 rest] [L1 [L2 [L3 L4]]] Hch; [exact I|].
  apply chain_cons in Hch. destruct Hch as [[M1 [M2 [M3 M4]]] Hch]. apply chain_cons. split; [|exact Hch].
  unfold link. cbn [merge2 rq_term rq_prev rq_pterm rq_entries rq_commit].
  rewrite len_app, <- next_pterm_app, <- L3. repeat split; lia.
Qed.

(* ------------------------------------------------------------------ *)
(* the sequential run of an accepted chain                              *)
(* ------------------------------------------------------------------ *)
Lemma run_seq_cons_accept : forall s r rs, (rq_term r <? ps_term s) = false ->
  p_prev_matches (ps_log s) (rq_prev r) (rq_pterm r) = true ->
  p_run_seq s (r :: rs) = (fst (p_run_seq (acc_state s r) rs),
                           acc_ack (ps_log s) r :: snd (p_run_seq (acc_state s r) rs)).
Proof.
  intros s r rs Ht Hm. cbn [p_run_seq]. rewrite (wf_accept _ _ Ht Hm).
  destruct (p_run_seq (acc_state s r) rs). reflexivity.
Qed.

(* what one sender of the chain is told *)
Definition ack_ok (T : N) (r : request) (a : resp) : Prop :=
  exists lm, a = RSuccess T lm /\ (rq_entries r <> [] -> lm = lid_of (last_entry (rq_entries r))).

Lemma acc_ack_ok : forall p r, ack_ok (rq_term r) r (acc_ack p r).
Proof.
  intros p r. exists (acc_lm p (rq_entries r)). split; [reflexivity|].
  intros Hne. unfold acc_lm. now destruct (rq_entries r).
Qed.

Lemma acc_ack_nil : forall p r, rq_entries r = [] -> acc_ack p r = RSuccess (rq_term r) (p_last_log_id p).
Proof. intros p r E. unfold acc_ack. now rewrite E. Qed.

Lemma seq_accept : forall rest r1 s,
  contig (pb_idx (ps_log s) + 1) (pents (ps_log s)) -> pb_idx (ps_log s) <= rq_prev r1 ->
  (rq_term r1 <? ps_term s) = false ->
  p_prev_matches (ps_log s) (rq_prev r1) (rq_pterm r1) = true ->
  chain r1 rest -> contig (rq_prev r1 + 1) (all_entries r1 rest) ->
  fst (p_run_seq s (r1 :: rest)) = acc_state s (merge_all r1 rest) /\
  Forall2 (ack_ok (rq_term r1)) (r1 :: rest) (snd (p_run_seq s (r1 :: rest))) /\
  (all_entries r1 rest = [] ->
   Forall (fun a => a = RSuccess (rq_term r1) (p_last_log_id (ps_log s))) (snd (p_run_seq s (r1 :: rest)))).
Proof.
  induction rest as [|r2 rest IH]; intros r1 s Hc Hb Ht Hm Hch Hce.
  - rewrite (run_seq_cons_accept _ _ _ Ht Hm). cbn [p_run_seq fst snd merge_all].
    split; [reflexivity|]. split.
    + constructor; [apply acc_ack_ok|constructor].
    + unfold all_entries. cbn [map concat]. rewrite app_nil_r. intros E.
      constructor; [now apply acc_ack_nil|constructor].
  - apply chain_cons in Hch. destruct Hch as [Hl Hch].
    assert (Hce2 : contig (rq_prev r1 + 1) (rq_entries r1 ++ rq_entries r2)).
    { unfold all_entries in Hce. cbn [map concat] in Hce. rewrite app_assoc in Hce.
      now apply contig_app in Hce. }
    destruct (two_step _ _ _ Hc Hb Ht Hm Hl Hce2) as [T2 [M2 Eq]].
    assert (Hce12 : contig (rq_prev (merge2 r1 r2) + 1) (all_entries (merge2 r1 r2) rest)).
    { unfold all_entries in *. cbn [map concat merge2 rq_prev rq_entries] in *. now rewrite <- app_assoc. }
    destruct (IH (merge2 r1 r2) s Hc Hb Ht Hm (chain_merge2 _ _ _ Hl Hch) Hce12) as [I1 [I2 I3]].
    rewrite (run_seq_cons_accept s (merge2 r1 r2)) in I1, I2, I3 by assumption.
    cbn [fst snd] in I1, I2, I3. cbn [merge2 rq_term] in I2, I3.
    rewrite (run_seq_cons_accept _ _ _ Ht Hm), (run_seq_cons_accept _ _ _ T2 M2), Eq.
    cbn [fst snd]. rewrite merge_all_cons. split; [exact I1|].
    destruct Hl as [L1 [L2 [L3 L4]]]. split.
    + constructor; [apply acc_ack_ok|]. constructor; [rewrite <- L1; apply acc_ack_ok|].
      inversion I2; subst. assumption.
    + intros E. unfold all_entries in E. cbn [map concat] in E.
      apply app_eq_nil in E. destruct E as [E1 E2]. pose proof E2 as E2'. apply app_eq_nil in E2. destruct E2 as [E2 E3].
      assert (E12 : all_entries (merge2 r1 r2) rest = []).
      { unfold all_entries. cbn [merge2 rq_entries]. now rewrite E1, E2, E3. }
      specialize (I3 E12). inversion I3; subst.
      constructor; [now apply acc_ack_nil|]. constructor; [|assumption].
      rewrite acc_ack_nil by exact E2. cbn [acc_state ps_log]. rewrite E1, fa_log_nil, L1. reflexivity.
Qed.

(* ------------------------------------------------------------------ *)
(* list helpers for the acknowledgement conjuncts                       *)
(* ------------------------------------------------------------------ *)
Lemma last_cons_default {A} : forall (l : list A) a d, last (a :: l) d = last l a.
Proof. induction l as [|b l IH]; intros a d; [reflexivity|]. cbn [last] in *. destruct l; [reflexivity|apply IH]. Qed.

Lemma last_in {A} : forall (l : list A) x, In (last l x) (x :: l).
Proof.
  induction l as [|a l IH]; intros x; [now left|]. rewrite last_cons_default. right. apply IH.
Qed.

Lemma Forall2_last {A B} (R : A -> B -> Prop) : forall l1 l2 x d, Forall2 R (x :: l1) l2 -> R (last l1 x) (last l2 d).
Proof.
  induction l1 as [|x' l1 IH]; intros l2 x d H; inversion H as [|? y ? l2' Hxy Hr]; subst.
  - inversion Hr; subst. exact Hxy.
  - rewrite !last_cons_default. apply IH. exact Hr.
Qed.

Lemma Forall2_nth {A B} (R : A -> B -> Prop) : forall l1 l2 k x y, Forall2 R l1 l2 ->
  nth_error l1 k = Some x -> nth_error l2 k = Some y -> R x y.
Proof.
  intros l1 l2 k x y H. revert k. induction H as [|a b l1 l2 Hab H IH]; intros [|k] H1 H2; try easy.
  - cbn in H1, H2. congruence.
  - cbn in H1, H2. eapply IH; eauto.
Qed.

Lemma Forall2_Forall_r {A B} (R : A -> B -> Prop) (Q : B -> Prop) : forall l1 l2,
  Forall2 R l1 l2 -> (forall x y, R x y -> Q y) -> Forall Q l2.
Proof. intros l1 l2 H HQ. induction H; constructor; eauto. Qed.

Lemma Forall2_len {A B} (R : A -> B -> Prop) : forall l1 l2, Forall2 R l1 l2 -> length l1 = length l2.
Proof. intros l1 l2 H. induction H; cbn [length]; congruence. Qed.

Lemma Forall_last {A} (P : A -> Prop) : forall l d, Forall P l -> l <> [] -> P (last l d).
Proof.
  induction l as [|a l IH]; intros d H Hne; [easy|]. inversion H; subst.
  destruct l as [|b l]; [assumption|]. rewrite last_cons_default.
  apply IH; easy.
Qed.

(* ------------------------------------------------------------------ *)
(* positions inside a chain                                             *)
(* ------------------------------------------------------------------ *)
Lemma all_entries_cons : forall r1 r2 rest, all_entries r1 (r2 :: rest) = rq_entries r1 ++ all_entries r2 rest.
Proof. reflexivity. Qed.

Lemma chain_nth : forall rest r1 k r, chain r1 rest -> contig (rq_prev r1 + 1) (all_entries r1 rest) ->
  nth_error (r1 :: rest) k = Some r ->
  contig (rq_prev r + 1) (rq_entries r) /\
  rq_prev r + len (rq_entries r) <= rq_prev r1 + len (all_entries r1 rest) /\
  rq_prev r1 <= rq_prev r.
Proof.
  induction rest as [|r2 rest IH]; intros r1 k r Hch Hce Hn.
  - destruct k as [|k]; [|now destruct k]. cbn in Hn. injection Hn as <-.
    unfold all_entries in *. cbn [map concat] in *. rewrite app_nil_r in *. split; [easy|lia].
  - rewrite all_entries_cons in *. apply contig_app in Hce. destruct Hce as [Hc1 Hc2].
    destruct k as [|k].
    + cbn in Hn. injection Hn as <-. split; [easy|]. rewrite len_app. lia.
    + apply chain_cons in Hch. destruct Hch as [[L1 [L2 [L3 L4]]] Hch]. cbn [nth_error] in Hn.
      replace (rq_prev r1 + 1 + len (rq_entries r1)) with (rq_prev r2 + 1) in Hc2 by lia.
      destruct (IH r2 k r Hch Hc2 Hn) as [I1 [I2 I3]]. split; [easy|]. rewrite len_app. lia.
Qed.

Lemma all_entries_last : forall rest r1, rq_entries (last rest r1) <> [] ->
  last_entry (all_entries r1 rest) = last_entry (rq_entries (last rest r1)).
Proof.
  induction rest as [|r2 rest IH]; intros r1 Hne.
  - unfold all_entries. cbn [map concat last]. now rewrite app_nil_r.
  - rewrite all_entries_cons. rewrite last_cons_default in Hne. rewrite last_cons_default. rewrite <- (IH r2 Hne).
    apply last_entry_app_ne. intros E0. pose proof (IH r2 Hne) as Hl. rewrite E0 in Hl.
    symmetry in Hl. apply last_entry_nil_iff in Hl. easy.
Qed.

Lemma concat_nil_all : forall rest : list request, (forall r, In r rest -> rq_entries r = []) ->
  concat (map rq_entries rest) = [].
Proof.
  induction rest as [|r rest IH]; intros H; [reflexivity|]. cbn [map concat].
  rewrite (H r (or_introl eq_refl)), IH; [reflexivity|]. intros. apply H. now right.
Qed.

Lemma all_entries_last_nonempty : forall rest r1 k r, nth_error (r1 :: rest) k = Some r -> rq_entries r <> [] ->
  (forall j r', (k < j)%nat -> nth_error (r1 :: rest) j = Some r' -> rq_entries r' = []) ->
  last_entry (all_entries r1 rest) = last_entry (rq_entries r).
Proof.
  induction rest as [|r2 rest IH]; intros r1 k r Hn Hne Hlater.
  - destruct k as [|k]; [|now destruct k]. cbn in Hn. injection Hn as <-.
    unfold all_entries. cbn [map concat]. now rewrite app_nil_r.
  - destruct k as [|k].
    + cbn in Hn. injection Hn as <-. unfold all_entries. rewrite concat_nil_all; [now rewrite app_nil_r|].
      intros r' Hin. apply In_nth_error in Hin. destruct Hin as [j Hj].
      apply (Hlater (S j) r'); [lia|exact Hj].
    + rewrite all_entries_cons. cbn [nth_error] in Hn.
      assert (I : last_entry (all_entries r2 rest) = last_entry (rq_entries r)).
      { apply (IH r2 k r Hn Hne). intros j r' Hj Hn'. apply (Hlater (S j) r'); [lia|exact Hn']. }
      rewrite <- I. apply last_entry_app_ne. intros E0. rewrite E0 in I. symmetry in I.
      apply last_entry_nil_iff in I. easy.
Qed.

(* ------------------------------------------------------------------ *)
(* refused by term                                                      *)
(* ------------------------------------------------------------------ *)
Lemma seq_higher : forall rest r1 s, chain r1 rest -> (rq_term r1 <? ps_term s) = true ->
  fst (p_run_seq s (r1 :: rest)) = s /\
  Forall (fun a => a = RHigher (ps_term s)) (snd (p_run_seq s (r1 :: rest))).
Proof.
  induction rest as [|r2 rest IH]; intros r1 s Hch Ht.
  - cbn [p_run_seq]. rewrite (wf_higher _ _ Ht). cbn [fst snd]. split; [reflexivity|]. now constructor.
  - apply chain_cons in Hch. destruct Hch as [[L1 _] Hch].
    assert (Ht2 : (rq_term r2 <? ps_term s) = true) by (rewrite L1; exact Ht).
    destruct (IH r2 s Hch Ht2) as [I1 I2].
    change (p_run_seq s (r1 :: r2 :: rest)) with
      (let '(s', a) := p_follower_wf s r1 in let '(s'', out) := p_run_seq s' (r2 :: rest) in (s'', a :: out)).
    rewrite (wf_higher _ _ Ht). destruct (p_run_seq s (r2 :: rest)) as [s'' out]. cbn [fst snd] in *.
    split; [exact I1|]. now constructor.
Qed.

(* ------------------------------------------------------------------ *)
(* the whole chain: well-formedness as sent by one leader               *)
(* ------------------------------------------------------------------ *)
Definition chain_wf (r1 : request) (rest : list request) : Prop :=
  contig (rq_prev r1 + 1) (rq_entries (merge_all r1 rest)) /\
  terms_mono (N.max 1 (rq_pterm r1)) (rq_entries (merge_all r1 rest)) /\
  (rq_prev r1 = 0 -> rq_pterm r1 = 0).

Definition lm_le (lm lm' : option (N * N)) : Prop :=
  match lm, lm' with Some (i, _), Some (i', _) => i <= i' | _, _ => True end.

(* everything the later theorems need about an accepted chain, in one place *)
Lemma accept_core : forall s r1 rest,
  p_wf (ps_log s) -> (rq_prev r1 = 0 -> pb_idx (ps_log s) = 0) -> chain r1 rest -> chain_wf r1 rest ->
  (rq_term r1 <? ps_term s) = false ->
  p_prev_matches (ps_log s) (rq_prev r1) (rq_pterm r1) = true ->
  p_follower_wf s (merge_all r1 rest) =
    (acc_state s (merge_all r1 rest), RSuccess (rq_term r1) (acc_lm (ps_log s) (all_entries r1 rest))) /\
  fst (p_run_seq s (r1 :: rest)) = acc_state s (merge_all r1 rest) /\
  Forall2 (ack_ok (rq_term r1)) (r1 :: rest) (snd (p_run_seq s (r1 :: rest))) /\
  (all_entries r1 rest = [] ->
   Forall (fun a => a = RSuccess (rq_term r1) (p_last_log_id (ps_log s))) (snd (p_run_seq s (r1 :: rest)))) /\
  contig (rq_prev r1 + 1) (all_entries r1 rest).
Proof.
  intros s r1 rest [Hc _] H0 Hch [Hce _] Ht Hm.
  destruct (merge_all_fields rest r1) as [F1 [F2 [F3 F4]]]. rewrite F4 in Hce.
  pose proof (prev_above _ _ _ Hc H0 Hm) as Hb.
  destruct (seq_accept rest r1 s Hc Hb Ht Hm Hch Hce) as [S1 [S2 S3]].
  split; [|auto]. rewrite wf_accept.
  - unfold acc_ack. now rewrite F1, F4.
  - now rewrite F1.
  - now rewrite F2, F3.
Qed.

Lemma acc_lm_ne : forall p es, es <> [] -> acc_lm p es = lid_of (last_entry es).
Proof. intros p [|x es] H; [easy|reflexivity]. Qed.

Lemma last_entry_eq_ne : forall l l', last_entry l = last_entry l' -> l' <> [] -> l <> [].
Proof.
  intros l l' E Hne E0. rewrite E0 in E. symmetry in E. apply last_entry_nil_iff in E. easy.
Qed.

(* ------------------------------------------------------------------ *)
(* C36, accepted case and refused-by-term case                          *)
(* ------------------------------------------------------------------ *)
(* Differences from the first formulation (see the counterexamples at the end of the file):
   - conjunct 3 carries the premise "the last request of the chain has entries, or no request has";
   - conjunct 4 is restricted to requests that carry entries.
   A heartbeat (entries = []) is answered with p_last_log_id of the follower's log at that moment,
   which may lie beyond everything the chain covers. *)
Theorem merge_equiv_accept : forall s r1 rest,
  p_wf (ps_log s) -> (rq_prev r1 = 0 -> pb_idx (ps_log s) = 0) -> chain r1 rest -> chain_wf r1 rest ->
  (rq_term r1 < ps_term s \/ p_prev_matches (ps_log s) (rq_prev r1) (rq_pterm r1) = true) ->
  let '(sm, am) := p_follower_wf s (merge_all r1 rest) in
  let '(ss, acks) := p_run_seq s (r1 :: rest) in
  sm = ss
  /\ Forall (fun a => resp_kind a = resp_kind am /\ resp_term a = resp_term am) acks
  /\ (forall t lm, am = RSuccess t lm ->
        rq_entries (last rest r1) <> [] \/ rq_entries (merge_all r1 rest) = [] ->
        exists t', last acks am = RSuccess t' lm)
  /\ (forall k r a, nth_error (r1 :: rest) k = Some r -> rq_entries r <> [] -> nth_error acks k = Some a ->
        forall t lm t' lm', a = RSuccess t lm -> am = RSuccess t' lm' ->
        match lm, lm' with Some (i, _), Some (i', _) => i <= i' | _, _ => True end).
Proof.
  intros s r1 rest Hwf H0 Hch Hcw Hor.
  destruct (rq_term r1 <? ps_term s) eqn:Ht.
  - (* refused by term: nothing changes, everybody is told the follower's term *)
    destruct (merge_all_fields rest r1) as [F1 _].
    rewrite wf_higher by (now rewrite F1).
    destruct (seq_higher rest r1 s Hch Ht) as [S1 S2].
    destruct (p_run_seq s (r1 :: rest)) as [ss acks]. cbn [fst snd] in S1, S2.
    split; [now subst|]. split; [|split].
    + eapply Forall_impl; [|exact S2]. intros a ->. easy.
    + intros t lm E. discriminate E.
    + intros k r a _ _ _ t lm t' lm' _ E. discriminate E.
  - assert (Hm : p_prev_matches (ps_log s) (rq_prev r1) (rq_pterm r1) = true) by (destruct Hor; [lia|easy]).
    destruct (accept_core s r1 rest Hwf H0 Hch Hcw Ht Hm) as [A1 [A2 [A3 [A4 A5]]]].
    destruct (merge_all_fields rest r1) as [F1 [F2 [F3 F4]]].
    rewrite A1. destruct (p_run_seq s (r1 :: rest)) as [ss acks]. cbn [fst snd] in A2, A3, A4.
    split; [now subst|]. split; [|split].
    + eapply Forall2_Forall_r; [exact A3|]. intros r a [lm [-> _]]. easy.
    + intros t lm E [Hlast|Hnil]; injection E as <- <-.
      * pose proof (Forall2_last _ _ _ _ (RSuccess (rq_term r1) (acc_lm (ps_log s) (all_entries r1 rest))) A3) as [lm [E1 E2]].
        exists (rq_term r1). rewrite E1, (E2 Hlast). f_equal.
        pose proof (all_entries_last rest r1 Hlast) as El. rewrite <- El.
        symmetry. apply acc_lm_ne. exact (last_entry_eq_ne _ _ El Hlast).
      * rewrite F4 in Hnil. specialize (A4 Hnil). exists (rq_term r1).
        assert (Hne : acks <> []) by (inversion A3; easy).
        rewrite (Forall_last _ _ (RSuccess (rq_term r1) (acc_lm (ps_log s) (all_entries r1 rest))) A4 Hne).
        now rewrite Hnil.
    + intros k r a Hk Hne Ha t lm t' lm' E E'. injection E' as <- <-.
      destruct (Forall2_nth _ _ _ _ _ _ A3 Hk Ha) as [lm0 [E1 E2]]. rewrite E1 in E. injection E as <- <-.
      rewrite (E2 Hne). destruct (chain_nth _ _ _ _ Hch A5 Hk) as [C1 [C2 C3]].
      destruct (last_entry_contig _ _ C1 Hne) as [l [L1 [L2 L3]]]. rewrite L1. cbn [lid_of option_map].
      assert (Hane : all_entries r1 rest <> []).
      { intros E0. rewrite E0, len_nil in C2. destruct (rq_entries r); [easy|]. rewrite len_cons in C2. lia. }
      destruct (last_entry_contig _ _ A5 Hane) as [l' [L1' [L2' L3']]].
      rewrite (acc_lm_ne _ _ Hane), L1'. cbn [lid_of option_map]. lia.
Qed.

(* the merged acknowledgement is the one of the last request that carries entries *)
Theorem merge_equiv_accept_last_nonempty : forall s r1 rest,
  p_wf (ps_log s) -> (rq_prev r1 = 0 -> pb_idx (ps_log s) = 0) -> chain r1 rest -> chain_wf r1 rest ->
  rq_term r1 >= ps_term s -> p_prev_matches (ps_log s) (rq_prev r1) (rq_pterm r1) = true ->
  forall k r, nth_error (r1 :: rest) k = Some r -> rq_entries r <> [] ->
  (forall j r', (k < j)%nat -> nth_error (r1 :: rest) j = Some r' -> rq_entries r' = []) ->
  nth_error (snd (p_run_seq s (r1 :: rest))) k = Some (snd (p_follower_wf s (merge_all r1 rest))).
Proof.
  intros s r1 rest Hwf H0 Hch Hcw Hge Hm k r Hk Hne Hlater.
  assert (Ht : (rq_term r1 <? ps_term s) = false) by lia.
  destruct (accept_core s r1 rest Hwf H0 Hch Hcw Ht Hm) as [A1 [A2 [A3 [A4 A5]]]].
  rewrite A1. cbn [snd].
  assert (Hlen : exists a, nth_error (snd (p_run_seq s (r1 :: rest))) k = Some a).
  { apply Forall2_len in A3. destruct (nth_error (snd (p_run_seq s (r1 :: rest))) k) eqn:E; [eauto|].
    apply nth_error_None in E. assert (nth_error (r1 :: rest) k <> None) by congruence.
    apply nth_error_Some in H. lia. }
  destruct Hlen as [a Ha]. rewrite Ha. f_equal.
  destruct (Forall2_nth _ _ _ _ _ _ A3 Hk Ha) as [lm [-> E2]]. f_equal. rewrite (E2 Hne).
  pose proof (all_entries_last_nonempty _ _ _ _ Hk Hne Hlater) as El. rewrite <- El.
  symmetry. apply acc_lm_ne. exact (last_entry_eq_ne _ _ El Hne).
Qed.

(* without heartbeats in the chain the first formulation holds verbatim *)
Theorem merge_equiv_accept_no_heartbeat : forall s r1 rest,
  p_wf (ps_log s) -> (rq_prev r1 = 0 -> pb_idx (ps_log s) = 0) -> chain r1 rest -> chain_wf r1 rest ->
  Forall (fun r => rq_entries r <> []) (r1 :: rest) ->
  (rq_term r1 < ps_term s \/ p_prev_matches (ps_log s) (rq_prev r1) (rq_pterm r1) = true) ->
  let '(sm, am) := p_follower_wf s (merge_all r1 rest) in
  let '(ss, acks) := p_run_seq s (r1 :: rest) in
  sm = ss
  /\ Forall (fun a => resp_kind a = resp_kind am /\ resp_term a = resp_term am) acks
  /\ (forall t lm, am = RSuccess t lm -> exists t', last acks am = RSuccess t' lm)
  /\ (forall k a, nth_error acks k = Some a -> forall t lm t' lm', a = RSuccess t lm -> am = RSuccess t' lm' ->
        match lm, lm' with Some (i, _), Some (i', _) => i <= i' | _, _ => True end).
Proof.
  intros s r1 rest Hwf H0 Hch Hcw Hnh Hor.
  pose proof (merge_equiv_accept s r1 rest Hwf H0 Hch Hcw Hor) as H.
  assert (Hlen : rq_term r1 >= ps_term s -> length (snd (p_run_seq s (r1 :: rest))) = length (r1 :: rest)).
  { intros Hge. assert (Ht : (rq_term r1 <? ps_term s) = false) by lia.
    assert (Hm : p_prev_matches (ps_log s) (rq_prev r1) (rq_pterm r1) = true) by (destruct Hor; [lia|easy]).
    destruct (accept_core s r1 rest Hwf H0 Hch Hcw Ht Hm) as [_ [_ [A3 _]]].
    apply Forall2_len in A3. now symmetry. }
  assert (Ham : forall t lm, snd (p_follower_wf s (merge_all r1 rest)) = RSuccess t lm -> rq_term r1 >= ps_term s).
  { intros t lm E. destruct (rq_term r1 <? ps_term s) eqn:Ht; [|lia].
    destruct (merge_all_fields rest r1) as [F1 _]. rewrite wf_higher in E by (now rewrite F1). discriminate E. }
  destruct (p_follower_wf s (merge_all r1 rest)) as [sm am].
  destruct (p_run_seq s (r1 :: rest)) as [ss acks]. cbn [snd] in Hlen, Ham.
  destruct H as [H1 [H2 [H3 H4]]]. split; [exact H1|]. split; [exact H2|]. split.
  - intros t lm E. apply (H3 t lm E). left.
    assert (Hin : In (last rest r1) (r1 :: rest))
      by apply last_in.
    rewrite Forall_forall in Hnh. now apply Hnh.
  - intros k a Ha t lm t' lm' E E'.
    assert (Hk : exists r, nth_error (r1 :: rest) k = Some r).
    { specialize (Hlen (Ham _ _ E')). destruct (nth_error (r1 :: rest) k) eqn:En; [eauto|].
      apply nth_error_None in En. assert (nth_error acks k <> None) by congruence.
      apply nth_error_Some in H. lia. }
    destruct Hk as [r Hk]. apply (H4 k r a Hk) with (t := t) (t' := t'); auto.
    rewrite Forall_forall in Hnh. apply Hnh. eapply nth_error_In; eauto.
Qed.

(* ------------------------------------------------------------------ *)
(* C36, rejected-prev case                                              *)
(* ------------------------------------------------------------------ *)
Definition conflict_ack (p : plog) (T prev : N) : resp :=
  match p_term_at p prev with
  | Some t => RConflict T (Some t)
                (Some (match p_first_index_for_term p t with Some i => i | None => prev - 1 end))
  | None => RConflict T None (Some ((match p_last_log_id p with Some (i, _) => i | None => 0 end) + 1))
  end.

Lemma conflict_ack_kind : forall p T prev, resp_kind (conflict_ack p T prev) = 1 /\ resp_term (conflict_ack p T prev) = T.
Proof. intros. unfold conflict_ack. destruct (p_term_at p prev); easy. Qed.

Lemma wf_conflict : forall s r, (rq_term r <? ps_term s) = false ->
  p_prev_matches (ps_log s) (rq_prev r) (rq_pterm r) = false ->
  p_follower_wf s r = ({| ps_log := ps_log s; ps_term := rq_term r; ps_commit := ps_commit s |},
                       conflict_ack (ps_log s) (rq_term r) (rq_prev r)).
Proof.
  intros s r Ht Hm. unfold p_follower_wf. rewrite Ht.
  replace (N.max (ps_term s) (rq_term r)) with (rq_term r) by lia.
  unfold p_follower_handle, p_check_legal, conflict_ack.
  replace (rq_term r <? rq_term r) with false by lia.
  unfold p_prev_matches in Hm. apply orb_false_iff in Hm. destruct Hm as [Hm1 Hm2]. rewrite Hm1.
  destruct (p_term_at (ps_log s) (rq_prev r)) as [t|]; [rewrite Hm2|]; reflexivity.
Qed.

Lemma seq_conflict : forall rest s,
  Forall (fun r => rq_term r = ps_term s /\ p_prev_matches (ps_log s) (rq_prev r) (rq_pterm r) = false) rest ->
  fst (p_run_seq s rest) = s /\
  Forall (fun a => resp_kind a = 1 /\ resp_term a = ps_term s) (snd (p_run_seq s rest)) /\
  length (snd (p_run_seq s rest)) = length rest.
Proof.
  induction rest as [|r rest IH]; intros s H; [cbn; auto|].
  inversion H as [|? ? [Hr1 Hr2] Hrest]; subst. cbn [p_run_seq].
  rewrite wf_conflict by (try lia; exact Hr2). rewrite Hr1.
  replace {| ps_log := ps_log s; ps_term := ps_term s; ps_commit := ps_commit s |} with s by now destruct s.
  destruct (IH s Hrest) as [I1 [I2 I3]]. destruct (p_run_seq s rest) as [s' out]. cbn [fst snd length] in *.
  split; [exact I1|]. split; [|now rewrite I3]. constructor; [apply conflict_ack_kind|exact I2].
Qed.

Lemma chain_terms : forall rest r1, chain r1 rest -> Forall (fun r => rq_term r = rq_term r1) rest.
Proof.
  induction rest as [|r2 rest IH]; intros r1 Hch; [constructor|].
  apply chain_cons in Hch. destruct Hch as [[L1 _] Hch]. constructor; [exact L1|].
  eapply Forall_impl; [|exact (IH r2 Hch)]. intros r Hr. cbn beta in Hr. congruence.
Qed.

Theorem merge_equiv_conflict : forall s r1 rest,
  chain r1 rest -> rq_term r1 >= ps_term s ->
  p_prev_matches (ps_log s) (rq_prev r1) (rq_pterm r1) = false ->
  let '(sm, am) := p_follower_wf s (merge_all r1 rest) in
  let '(s1, a1) := p_follower_wf s r1 in
  (* the merged run: log and commit index untouched, the term adopted, a conflict answer *)
  ps_log sm = ps_log s /\ ps_commit sm = ps_commit s /\ ps_term sm = rq_term r1 /\
  resp_kind am = 1 /\ resp_term am = rq_term r1 /\
  (* the first sequential step is the very same step *)
  s1 = sm /\ a1 = am /\
  (* the later requests, as long as none of them matches the unchanged log *)
  (Forall (fun r => p_prev_matches (ps_log s) (rq_prev r) (rq_pterm r) = false) rest ->
   let '(ss, acks) := p_run_seq s (r1 :: rest) in
   ss = sm /\ length acks = length (r1 :: rest) /\
   Forall (fun a => resp_kind a = 1 /\ resp_term a = resp_term am) acks).
Proof.
  intros s r1 rest Hch Hge Hm. assert (Ht : (rq_term r1 <? ps_term s) = false) by lia.
  destruct (merge_all_fields rest r1) as [F1 [F2 [F3 _]]].
  rewrite wf_conflict by (rewrite ?F1, ?F2, ?F3; assumption). rewrite F1, F2.
  rewrite (wf_conflict _ _ Ht Hm). cbn [ps_log ps_commit ps_term].
  pose proof (conflict_ack_kind (ps_log s) (rq_term r1) (rq_prev r1)) as [K1 K2].
  repeat (split; [easy|]). intros Hrest. cbn [p_run_seq]. rewrite (wf_conflict _ _ Ht Hm).
  set (s1 := {| ps_log := ps_log s; ps_term := rq_term r1; ps_commit := ps_commit s |}).
  assert (Hall : Forall (fun r => rq_term r = ps_term s1 /\
                                  p_prev_matches (ps_log s1) (rq_prev r) (rq_pterm r) = false) rest).
  { pose proof (chain_terms _ _ Hch) as Hts. rewrite Forall_forall in *. intros r Hr. split; [now apply Hts|now apply Hrest]. }
  destruct (seq_conflict rest s1 Hall) as [I1 [I2 I3]]. destruct (p_run_seq s1 rest) as [ss out].
  cbn [fst snd] in *. split; [exact I1|]. split; [cbn [length]; now rewrite I3|].
  rewrite K2. constructor; [easy|exact I2].
Qed.

(* ------------------------------------------------------------------ *)
(* the hypotheses are satisfiable: a concrete follower and a 3-request chain *)
(* ------------------------------------------------------------------ *)
Definition E (i t : N) : entry := {| e_idx := i; e_term := t; e_pl := 0 |}.
Definition Rq (t p pt : N) (es : list entry) (c : N) : request :=
  {| rq_term := t; rq_prev := p; rq_pterm := pt; rq_entries := es; rq_commit := c |}.
Definition St (es : list entry) (t c : N) : pstate :=
  {| ps_log := {| pb_idx := 0; pb_term := 0; pents := es |}; ps_term := t; ps_commit := c |}.

(* follower: four entries of term 1, of which 3 and 4 are a stale tail; leader of term 2 sends
   [2:t1, 3:t2] (conflict at 3 truncates 3..4), then [4:t2], then a heartbeat *)
Definition demo_s : pstate := St [E 1 1; E 2 1; E 3 1; E 4 1] 2 0.
Definition demo_r1 : request := Rq 2 1 1 [E 2 1; E 3 2] 1.
Definition demo_rest : list request := [Rq 2 3 2 [E 4 2] 2; Rq 2 4 2 [] 3].

Example demo_p_wf : p_wf (ps_log demo_s).
Proof. unfold p_wf. cbn. repeat split; lia. Qed.
Example demo_chain : chain demo_r1 demo_rest.
Proof. cbn. repeat split; lia. Qed.
Example demo_chain_wf : chain_wf demo_r1 demo_rest.
Proof. unfold chain_wf. cbn. repeat split; lia. Qed.
Example demo_prev0 : rq_prev demo_r1 = 0 -> pb_idx (ps_log demo_s) = 0.
Proof. reflexivity. Qed.
Example demo_matches : p_prev_matches (ps_log demo_s) (rq_prev demo_r1) (rq_pterm demo_r1) = true.
Proof. vm_compute. reflexivity. Qed.

Example demo_merged : merge_all demo_r1 demo_rest = Rq 2 1 1 [E 2 1; E 3 2; E 4 2] 3.
Proof. vm_compute. reflexivity. Qed.

(* merged run and sequential run side by side: same log [1:t1 2:t1 3:t2 4:t2], term 2, commit 3;
   the senders are told (3,t2), (4,t2), (4,t2), the merged answer is (4,t2) *)
Example demo_result :
  (p_follower_wf demo_s (merge_all demo_r1 demo_rest), p_run_seq demo_s (demo_r1 :: demo_rest)) =
  ((St [E 1 1; E 2 1; E 3 2; E 4 2] 2 3, RSuccess 2 (Some (4, 2))),
   (St [E 1 1; E 2 1; E 3 2; E 4 2] 2 3, [RSuccess 2 (Some (3, 2)); RSuccess 2 (Some (4, 2)); RSuccess 2 (Some (4, 2))])).
Proof. vm_compute. reflexivity. Qed.

(* the theorem applies to it *)
Example demo_instance :
  let '(sm, am) := p_follower_wf demo_s (merge_all demo_r1 demo_rest) in
  let '(ss, acks) := p_run_seq demo_s (demo_r1 :: demo_rest) in
  sm = ss /\ Forall (fun a => resp_kind a = resp_kind am /\ resp_term a = resp_term am) acks.
Proof.
  pose proof (merge_equiv_accept demo_s demo_r1 demo_rest demo_p_wf demo_prev0 demo_chain demo_chain_wf
                (or_intror demo_matches)) as H.
  destruct (p_follower_wf demo_s (merge_all demo_r1 demo_rest)) as [sm am].
  destruct (p_run_seq demo_s (demo_r1 :: demo_rest)) as [ss acks]. now destruct H as [H1 [H2 _]].
Qed.

(* rejected prev: the leader's prev (6,t2) is beyond the follower's log *)
Definition demo_c1 : request := Rq 2 6 2 [E 7 2] 5.
Definition demo_crest : list request := [Rq 2 7 2 [E 8 2] 6].
Example demo_conflict_hyps :
  chain demo_c1 demo_crest /\ rq_term demo_c1 >= ps_term demo_s /\
  p_prev_matches (ps_log demo_s) (rq_prev demo_c1) (rq_pterm demo_c1) = false /\
  Forall (fun r => p_prev_matches (ps_log demo_s) (rq_prev r) (rq_pterm r) = false) demo_crest.
Proof. cbn. repeat split; try lia. repeat constructor. Qed.
Example demo_conflict_result :
  (p_follower_wf demo_s (merge_all demo_c1 demo_crest), p_run_seq demo_s (demo_c1 :: demo_crest)) =
  ((demo_s, RConflict 2 None (Some 5)), (demo_s, [RConflict 2 None (Some 5); RConflict 2 None (Some 5)])).
Proof. vm_compute. reflexivity. Qed.

(* ------------------------------------------------------------------ *)
(* counterexamples to the first formulation (all hypotheses of merge_equiv_accept hold in A and B) *)
(* ------------------------------------------------------------------ *)
(* A. heartbeat at the END of the chain, follower log longer than the chain and agreeing with it:
      the heartbeat is answered with the follower's last log id (4,t1); the merged request is
      non-empty and answered with the covered id (2,t1).  So "the merged success carries the
      last-match of the last sequential answer" fails, and so does "each sequential match is a
      lower bound of the merged one" (4 > 2).  States are equal. *)
Definition cexA_r1 : request := Rq 2 1 1 [E 2 1] 0.
Definition cexA_rest : list request := [Rq 2 2 1 [] 0].
Example cexA_hyps : p_wf (ps_log demo_s) /\ chain cexA_r1 cexA_rest /\ chain_wf cexA_r1 cexA_rest /\
  p_prev_matches (ps_log demo_s) (rq_prev cexA_r1) (rq_pterm cexA_r1) = true.
Proof. unfold p_wf, chain_wf. cbn. repeat split; lia. Qed.
Example cexA :
  (p_follower_wf demo_s (merge_all cexA_r1 cexA_rest), p_run_seq demo_s (cexA_r1 :: cexA_rest)) =
  ((demo_s, RSuccess 2 (Some (2, 1))), (demo_s, [RSuccess 2 (Some (2, 1)); RSuccess 2 (Some (4, 1))])).
Proof. vm_compute. reflexivity. Qed.

(* B. heartbeat at the START, followed by a conflicting entry that truncates the stale tail:
      the heartbeat's answer (4,t1) names an entry that the very next request deletes; the merged
      answer is (2,t2).  Conjunct 3 holds here (last request has entries), conjunct 4 without the
      "carries entries" restriction fails at k = 0. *)
Definition cexB_r1 : request := Rq 2 1 1 [] 0.
Definition cexB_rest : list request := [Rq 2 1 1 [E 2 2] 0].
Example cexB_hyps : chain cexB_r1 cexB_rest /\ chain_wf cexB_r1 cexB_rest /\
  p_prev_matches (ps_log demo_s) (rq_prev cexB_r1) (rq_pterm cexB_r1) = true.
Proof. unfold chain_wf. cbn. repeat split; lia. Qed.
Example cexB :
  (p_follower_wf demo_s (merge_all cexB_r1 cexB_rest), p_run_seq demo_s (cexB_r1 :: cexB_rest)) =
  ((St [E 1 1; E 2 2] 2 0, RSuccess 2 (Some (2, 2))),
   (St [E 1 1; E 2 2] 2 0, [RSuccess 2 (Some (4, 1)); RSuccess 2 (Some (2, 2))])).
Proof. vm_compute. reflexivity. Qed.

(* C. why [chain] demands non-decreasing leader_commit: with leader_commit 4 then 1 the merged
      request (commit = max = 4, covering index 3) commits 3, the sequential run commits only 2.
      Only the commit index differs.  (A leader's commit index never decreases within a term, so
      requests sent back-to-back satisfy the hypothesis.) *)
Definition cexC_r1 : request := Rq 2 1 1 [E 2 1] 4.
Definition cexC_rest : list request := [Rq 2 2 1 [E 3 1] 1].
Example cexC :
  (p_follower_wf demo_s (merge_all cexC_r1 cexC_rest), p_run_seq demo_s (cexC_r1 :: cexC_rest)) =
  ((St [E 1 1; E 2 1; E 3 1; E 4 1] 2 3, RSuccess 2 (Some (3, 1))),
   (St [E 1 1; E 2 1; E 3 1; E 4 1] 2 2, [RSuccess 2 (Some (2, 1)); RSuccess 2 (Some (3, 1))])).
Proof. vm_compute. reflexivity. Qed.

(* D. why the chain must carry the pterm link (r2's own prev_log_term is not re-checked by the
      merge): r2 claims prev (2,t9) while r1's last entry is (2,t1).  Sequentially r2 is answered
      with a conflict and entry 3 is not appended; merged, it is. *)
Definition cexD_r1 : request := Rq 2 1 1 [E 2 1] 0.
Definition cexD_rest : list request := [Rq 2 2 9 [E 3 9] 0].
Example cexD :
  (p_follower_wf (St [E 1 1] 2 0) (merge_all cexD_r1 cexD_rest), p_run_seq (St [E 1 1] 2 0) (cexD_r1 :: cexD_rest)) =
  ((St [E 1 1; E 2 1; E 3 9] 2 0, RSuccess 2 (Some (3, 9))),
   (St [E 1 1; E 2 1] 2 0, [RSuccess 2 (Some (2, 1)); RConflict 2 (Some 1) (Some 1)])).
Proof. vm_compute. reflexivity. Qed.

Print Assumptions merge_equiv_accept.
Print Assumptions merge_equiv_accept_last_nonempty.
Print Assumptions merge_equiv_accept_no_heartbeat.
Print Assumptions merge_equiv_conflict.
Print Assumptions fa_two_step.
