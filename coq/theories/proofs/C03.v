(* C03 — the single-voter election shortcut. Proved on DE.Membership, the model of the code as it is now
   (Membership::is_single_node_cluster = initial_cluster_size == 1 && voters().is_empty(),
   RaftMembership::{new, voters, apply_config_change}, ElectionHandler::broadcast_vote_requests).
   The refutation of the variant before the fix is kept in proofs/C03hist.v. *)
From Coq Require Import NArith List Bool Lia Arith.
From DE Require Import Val BufLog LeaderCommit Membership proofs.C26.
Import ListNotations.
Open Scope N_scope.

Lemma half_lt (t s : N) : t / 2 < s -> t < 2 * s.
Proof.
  intros H. pose proof (N.mul_succ_div_gt t 2 ltac:(lia)) as G. nia.
Qed.

(* when the shortcut is taken: booted as a single node AND no other voting member now *)
Lemma is_single_run self init cs :
  is_single (run (mk self init) cs) =
  (N.of_nat (length init) =? 1) && match voters (run (mk self init) cs) with [] => true | _ => false end.
Proof. unfold is_single. rewrite run_init. reflexivity. Qed.

Theorem shortcut_taken_iff :
  forall (self : N) (init : list node) (cs : list change) (rs : list N),
    let m := run (mk self init) cs in
    (won m rs = true /\ asked m rs = false) <-> (length init = 1%nat /\ voters m = []).
Proof.
  intros self init cs rs. cbv zeta. set (m := run (mk self init) cs).
  assert (S : is_single m = (N.of_nat (length init) =? 1) && match voters m with [] => true | _ => false end)
    by apply is_single_run.
  unfold won, asked, elect. rewrite S. split.
  - destruct (N.eqb_spec (N.of_nat (length init)) 1) as [E|E]; cbn [andb].
    + destruct (voters m) eqn:V; [intros _; split; [lia|reflexivity]|].
      cbn [nth]. intros [_ H]. cbn in H. discriminate.
    + destruct (voters m); cbn [nth]; intros [H1 H2]; cbn in H1, H2; discriminate.
  - intros [L V]. rewrite L, V. cbn. split; reflexivity.
Qed.

(* THE FULL STATEMENT: over every history of AddNode / RemoveNode / Promote / BatchPromote / BatchRemove from every initial
   configuration, at every election moment and for every pattern of answers: a win without a granted vote implies that the
   current membership has no other voting member; with other voting members a win takes vote requests and granted votes of
   a strict majority of the CURRENT voters (self included). *)
Theorem shortcut_sound :
  forall (self : N) (init : list node) (cs : list change) (rs : list N),
    let m := run (mk self init) cs in
    won m rs = true ->
    (granted (length (voters m)) rs = 0 -> voters m = []) /\
    (voters m <> [] ->
       asked m rs = true /\ 1 <= granted (length (voters m)) rs /\
       N.of_nat (length (vset m)) < 2 * (1 + granted (length (voters m)) rs)).
Proof.
  intros self init cs rs. cbv zeta. set (m := run (mk self init) cs).
  unfold won, asked, elect, is_single, vset. intros Hw.
  destruct (voters m) as [|v vs] eqn:V.
  - split; [reflexivity|intros H; contradiction].
  - rewrite andb_false_r in Hw |- *. cbn [nth] in Hw |- *.
    destruct (N.ltb_spec ((N.of_nat (length (v :: vs)) + 1) / 2) (1 + granted (length (v :: vs)) rs)) as [Hlt|Hge];
      [|cbn in Hw; discriminate].
    apply half_lt in Hlt. cbn [length] in *. split.
    + intros G. rewrite G in Hlt. lia.
    + intros _. split; [reflexivity|]. split; lia.
Qed.

(* a node that started as a single-node cluster and was later expanded must win a real majority like any other *)
Theorem expanded_single_node_needs_majority :
  forall (init : list node) (self : N) (cs : list change) (rs : list N),
    length init = 1%nat ->
    let m := run (mk self init) cs in
    voters m <> [] -> won m rs = true ->
    asked m rs = true /\ N.of_nat (length (vset m)) < 2 * (1 + granted (length (voters m)) rs).
Proof.
  intros init self cs rs _. cbv zeta. intros Hv Hw.
  destruct (shortcut_sound self init cs rs Hw) as [_ H]. destruct (H Hv) as [A [_ B]]. split; assumption.
Qed.

(* non-vacuity: the documented expansion 1 -> 3; no grant: loses (and asks); two grants: wins; never expanded: shortcut *)
Example expansion_example :
  let m := run (mk 1 [nf 1]) [CAdd 2 S_PROMOTABLE; CAdd 3 S_PROMOTABLE; CBatchPromote [2; 3] S_ACTIVE] in
  voters m = [2; 3] /\ won m [0; 0] = false /\ asked m [0; 0] = true /\ won m [1; 0] = true /\
  elect (mk 1 [nf 1]) [] = [1; 0; 0] /\
  elect (run (mk 1 [nf 1]) [CAdd 2 S_PROMOTABLE]) [] = [1; 0; 0].
Proof. vm_compute. repeat split; reflexivity. Qed.

Example shortcut_sound_example :
  let m := run (mk 1 [nf 1; nf 2; nf 3]) [CAdd 4 S_PROMOTABLE] in
  won m [1; 0] = true /\ voters m = [2; 3] /\ granted 2 [1; 0] = 1 /\ won m [0; 0] = false.
Proof. vm_compute. repeat split; reflexivity. Qed.

(* RESIDUE (liveness, not this property): a node whose initial configuration had several nodes and whose membership shrank
   to itself alone cannot take the shortcut (initial size <> 1) and has nobody to ask: it never wins. The statement of C03
   only restricts WHEN the shortcut may be taken, so this is not a violation. *)
Theorem shrunk_cluster_never_elects :
  forall (self : N) (init : list node) (cs : list change) (rs : list N),
    length init <> 1%nat -> voters (run (mk self init) cs) = [] -> won (run (mk self init) cs) rs = false.
Proof.
  intros self init cs rs L V. unfold won, elect. rewrite is_single_run, V.
  destruct (N.eqb_spec (N.of_nat (length init)) 1) as [E|E]; [lia|]. reflexivity.
Qed.
Example shrunk_example :
  voters (run (mk 1 [nf 1; nf 2; nf 3]) [CBatchRemove [2; 3]]) = [] /\
  elect (run (mk 1 [nf 1; nf 2; nf 3]) [CBatchRemove [2; 3]]) [] = [0; 0; 0].
Proof. vm_compute. split; reflexivity. Qed.
