(* C03 — the single-voter election shortcut. Proved / refuted on DE.Membership (model of
   Membership::is_single_node_cluster, RaftMembership::{new, voters, apply_config_change} and
   ElectionHandler::broadcast_vote_requests). *)
From Coq Require Import NArith List Bool Lia Arith.
From DE Require Import Val BufLog LeaderCommit Membership proofs.C26.
Import ListNotations.
Open Scope N_scope.

(* the decision the code takes is a function of the INITIAL configuration size only, whatever happened since *)
Lemma is_single_run self init cs : is_single (run (mk self init) cs) = (N.of_nat (length init) =? 1).
Proof. unfold is_single. rewrite run_init. reflexivity. Qed.

Lemma shortcut_taken_iff_booted_alone self init cs rs :
  (won (run (mk self init) cs) rs = true /\ asked (run (mk self init) cs) rs = false) <-> length init = 1%nat.
Proof.
  unfold won, asked, elect. rewrite is_single_run. split.
  - destruct (N.eqb_spec (N.of_nat (length init)) 1) as [E|E]; [intros _; lia|].
    destruct (voters (run (mk self init) cs)); cbn [nth]; intros [H1 H2]; cbn in H1, H2; discriminate.
  - intros H. rewrite H. cbn. split; reflexivity.
Qed.

(* FULL STATEMENT (false on the code as it is, see shortcut_refuted):
     forall self init cs rs, let m := run (mk self init) cs in
       won m rs = true -> granted (length (voters m)) rs = 0 -> voters m = []. *)

(* node 1 boots alone, two learners join and are promoted (the documented expansion), node 1 then wins an election
   without a single vote although 2 and 3 are voting members *)
Theorem shortcut_refuted :
  exists (self : N) (init : list node) (cs : list change) (rs : list N),
    (1 <= length init <= 5)%nat /\
    let m := run (mk self init) cs in
    won m rs = true /\ asked m rs = false /\ granted (length (voters m)) rs = 0 /\ voters m = [2; 3].
Proof.
  exists 1, [nf 1], [CAdd 2 S_PROMOTABLE; CAdd 3 S_PROMOTABLE; CBatchPromote [2; 3] S_ACTIVE], [0; 0].
  split; [cbn; lia|]. vm_compute. repeat split; reflexivity.
Qed.

Lemma half_lt (t s : N) : t / 2 < s -> t < 2 * s.
Proof.
  intros H. pose proof (N.mul_succ_div_gt t 2 ltac:(lia)) as G. nia.
Qed.

(* outside the class "booted as a single node and expanded since": a win takes granted votes of a strict majority of
   the CURRENT voting members (self included), and a node with no other voter never gets there *)
Theorem shortcut_sound_outside_known :
  forall (self : N) (init : list node) (cs : list change) (rs : list N),
    let m := run (mk self init) cs in
    ~ (length init = 1%nat /\ voters m <> []) ->
    won m rs = true ->
    (granted (length (voters m)) rs = 0 -> voters m = []) /\
    (voters m <> [] ->
       asked m rs = true /\ 1 <= granted (length (voters m)) rs /\
       N.of_nat (length (vset m)) < 2 * (1 + granted (length (voters m)) rs)).
Proof.
  intros self init cs rs. cbv zeta. set (m := run (mk self init) cs).
  assert (S : is_single m = (N.of_nat (length init) =? 1)) by apply is_single_run.
  intros Hk Hw. unfold won, asked, elect in *. rewrite S in *.
  destruct (N.eqb_spec (N.of_nat (length init)) 1) as [E|E].
  - assert (L : length init = 1%nat) by lia.
    destruct (voters m) eqn:V; [split; [reflexivity|intros H; contradiction]|].
    exfalso. apply Hk. split; [exact L|]. discriminate.
  - unfold vset. destruct (voters m) as [|v vs] eqn:V; [cbn in Hw; discriminate|].
    cbn [nth] in Hw |- *.
    destruct (N.ltb_spec ((N.of_nat (length (v :: vs)) + 1) / 2) (1 + granted (length (v :: vs)) rs)) as [Hlt|Hge];
      [|cbn in Hw; discriminate].
    apply half_lt in Hlt. cbn [length] in *.
    split.
    + intros G. rewrite G in Hlt. lia.
    + intros _. split; [reflexivity|]. split; lia.
Qed.

(* non-vacuity: a 3-node cluster, one vote granted, one refused: wins with 2 of 3 *)
Example shortcut_sound_example :
  let m := run (mk 1 [nf 1; nf 2; nf 3]) [CAdd 4 S_PROMOTABLE] in
  won m [1; 0] = true /\ voters m = [2; 3] /\ granted 2 [1; 0] = 1 /\ won m [0; 0] = false.
Proof. vm_compute. repeat split; reflexivity. Qed.
