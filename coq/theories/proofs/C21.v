(* C21 — proofs over DE.MetaStore: the bincode round trip, every strict prefix of an encoded hard state
   is undecodable, and from these the outcome of a crash at every point of save_hard_state for the
   File and the RocksDB meta store under process-crash and power-loss semantics. *)
From Coq Require Import NArith Arith List Bool Lia.
From DE Require Import Val MetaStore.
Import ListNotations.
Open Scope N_scope.

(* ---------- bincode ---------- *)
Lemma of_le_bytes : forall k n, of_le (le_bytes k n) = n mod 256 ^ N.of_nat k.
Proof.
  induction k as [|k IH]; intros n.
  - cbn [le_bytes of_le]. change (N.of_nat 0) with 0. rewrite N.pow_0_r, N.mod_1_r. reflexivity.
  - cbn [le_bytes of_le]. rewrite IH.
    replace (N.of_nat (S k)) with (N.succ (N.of_nat k)) by lia.
    rewrite N.pow_succ_r by lia.
    rewrite N.mod_mul_r; [reflexivity|lia|].
    apply N.pow_nonzero. lia.
Qed.

Lemma of_le_bytes_small : forall k n, n < 256 ^ N.of_nat k -> of_le (le_bytes k n) = n.
Proof. intros k n H. rewrite of_le_bytes. apply N.mod_small. assumption. Qed.

Lemma decode_encode : forall h, wf_hs h -> decode (encode h) = Some h.
Proof.
  intros [t [[i vt c]|]] [Ht Hv]; cbn [h_term h_vote v_id v_term] in *.
  - destruct Hv as [Hi Hvt].
    unfold encode. cbn [h_term h_vote v_id v_term v_committed le_bytes app]. cbn [decode].
    change (1 =? 0) with false. change (1 =? 1) with true. cbn iota.
    pose proof (of_le_bytes_small 8 t Ht) as E1. cbn [le_bytes] in E1.
    pose proof (of_le_bytes_small 4 i Hi) as E2. cbn [le_bytes] in E2.
    pose proof (of_le_bytes_small 8 vt Hvt) as E3. cbn [le_bytes] in E3.
    destruct c.
    + change (1 =? 0) with false. change (1 =? 1) with true. cbn iota. rewrite E1, E2, E3. reflexivity.
    + change (0 =? 0) with true. cbn iota. rewrite E1, E2, E3. reflexivity.
  - unfold encode. cbn [h_term h_vote le_bytes app]. cbn [decode].
    change (0 =? 0) with true. cbn iota.
    pose proof (of_le_bytes_small 8 t Ht) as E1. cbn [le_bytes] in E1. rewrite E1. reflexivity.
Qed.

Lemma encode_length : forall h, length (encode h) = match h_vote h with None => 9%nat | Some _ => 22%nat end.
Proof. intros [t [[i vt c]|]]; reflexivity. Qed.

(* a torn write never looks like a value: every strict prefix is rejected by bincode *)
Lemma decode_prefix : forall h k, (k < length (encode h))%nat -> decode (firstn k (encode h)) = None.
Proof.
  intros [t [[i vt c]|]] k Hk; rewrite encode_length in Hk; cbn [h_vote] in Hk;
    unfold encode; cbn [h_term h_vote v_id v_term v_committed le_bytes app].
  - do 22 (destruct k as [|k]; [reflexivity|]). lia.
  - do 9 (destruct k as [|k]; [reflexivity|]). lia.
Qed.

(* ---------- File ---------- *)
Lemma trace_length : forall bs, length (f_save_trace bs) = S (length bs).
Proof. intros. unfold f_save_trace. rewrite map_length, seq_length. reflexivity. Qed.

Lemma trace_nth : forall bs k, (k <= length bs)%nat -> nth k (f_save_trace bs) None = Some (firstn k bs).
Proof.
  intros bs k Hk. unfold f_save_trace.
  rewrite (nth_indep _ None ((fun k => Some (firstn k bs)) 0%nat)) by (rewrite map_length, seq_length; lia).
  rewrite (map_nth (fun k => Some (firstn k bs))). rewrite seq_nth by lia. reflexivity.
Qed.

Lemma last_firstn : forall (A : Type) (l : list A) (k : nat) (d d' : A),
  (k < length l)%nat -> last (firstn (S k) l) d = nth k l d'.
Proof.
  intros A l. induction l as [|a l IH]; intros k d d' Hk; [cbn in Hk; lia|].
  destruct k as [|k].
  - reflexivity.
  - cbn [length] in Hk. change (firstn (S (S k)) (a :: l)) with (a :: firstn (S k) l).
    destruct (firstn (S k) l) as [|b r] eqn:Hf.
    + destruct l as [|b l]; [cbn in Hk; lia|discriminate].
    + change (last (a :: b :: r) d) with (last (b :: r) d). rewrite <- Hf. cbn [nth]. apply IH. lia.
Qed.

(* the file the OS holds when the process stops after cp steps of save_to_file *)
Lemma crash_cache : forall w h cp,
  fw_cache (f_save_crash w h cp) =
  match cp with
  | O => fw_cache w
  | S k => Some (firstn (Nat.min k (length (encode h))) (encode h))
  end.
Proof.
  intros w h cp. unfold f_save_crash. cbn [fw_cache]. destruct cp as [|k]; [reflexivity|].
  destruct (Nat.le_gt_cases k (length (encode h))) as [Hle|Hgt].
  - rewrite (last_firstn fcontent (f_save_trace (encode h)) k (fw_cache w) None) by (rewrite trace_length; lia).
    rewrite trace_nth by assumption. rewrite Nat.min_l by assumption. reflexivity.
  - rewrite firstn_all2 by (rewrite trace_length; lia).
    pose proof (trace_length (encode h)) as Hl.
    pose proof (last_firstn fcontent (f_save_trace (encode h)) (length (encode h)) (fw_cache w) None ltac:(lia)) as H.
    rewrite <- Hl in H at 1. rewrite firstn_all in H. rewrite H.
    rewrite trace_nth by lia. rewrite Nat.min_r by lia. reflexivity.
Qed.

Theorem fmeta_process_crash : forall w old new cp, wf_hs old -> wf_hs new ->
  fw_cache w = Some (encode old) ->
  f_outcomes Process (f_save_crash w new cp) =
  [ match cp with
    | O => Some old
    | S k => if (k <? length (encode new))%nat then None else Some new
    end ].
Proof.
  intros w old new cp Ho Hn Hw. cbn [f_outcomes]. rewrite crash_cache. f_equal.
  destruct cp as [|k].
  - rewrite Hw. cbn [f_load]. apply decode_encode. assumption.
  - cbn [f_load]. destruct (Nat.ltb_spec k (length (encode new))) as [Hlt|Hge].
    + rewrite Nat.min_l by lia. apply decode_prefix. assumption.
    + rewrite Nat.min_r by lia. rewrite firstn_all. apply decode_encode. assumption.
Qed.

Corollary fmeta_saved_survives_process_crash : forall w new, wf_hs new ->
  f_outcomes Process (f_save w new) = [Some new].
Proof.
  intros w new Hn. unfold f_save. cbn [f_outcomes]. rewrite crash_cache.
  rewrite Nat.min_r by lia. rewrite firstn_all. cbn [f_load]. rewrite decode_encode by assumption. reflexivity.
Qed.

(* every save has crash points at which the previously saved state is gone and the new one is not there *)
Corollary fmeta_atomic_refuted : forall w old new, wf_hs old -> wf_hs new -> fw_cache w = Some (encode old) ->
  forall cp, (1 <= cp <= length (encode new))%nat ->
    f_outcomes Process (f_save_crash w new cp) = [None].
Proof.
  intros w old new Ho Hn Hw cp Hcp. rewrite (fmeta_process_crash w old new cp Ho Hn Hw).
  destruct cp as [|k]; [lia|]. destruct (Nat.ltb_spec k (length (encode new))); [reflexivity|lia].
Qed.

(* power loss: nothing FileMetaStore ever wrote is synced, so even long after save returned the file
   may be back to any earlier state, including "absent" *)
Lemma hist_grows : forall w h cp, exists tl, fw_hist (f_save_crash w h cp) = fw_hist w ++ tl.
Proof. intros. eexists. reflexivity. Qed.

Theorem fmeta_power_loss_refuted : forall saves : list hs,
  In None (f_outcomes Power (fold_left f_save saves fw0)).
Proof.
  intros saves. cbn [f_outcomes].
  assert (H : forall w, In None (map f_load (fw_hist w)) -> In None (map f_load (fw_hist (fold_left f_save saves w)))).
  { induction saves as [|h saves IH]; intros w Hw; cbn [fold_left]; [assumption|].
    apply IH. unfold f_save. destruct (hist_grows w h (S (length (encode h)))) as [tl Htl].
    rewrite Htl. rewrite map_app. apply in_or_app. left. assumption. }
  apply H. left. reflexivity.
Qed.

(* ---------- RocksDB ---------- *)
Theorem rmeta_process_crash : forall w new cp, wf_hs new ->
  k_outcomes Process (k_save_crash w new cp) =
  [ match cp with O => f_load (kw_mem w) | S _ => Some new end ].
Proof.
  intros w new cp Hn. destruct cp as [|k]; cbn [k_save_crash k_outcomes kw_mem f_load]; [reflexivity|].
  rewrite decode_encode by assumption. reflexivity.
Qed.

Theorem rmeta_power_loss_synced : forall w old new cp, wf_hs old -> wf_hs new ->
  kw_unsynced w = [Some (encode old)] ->
  forall o, In o (k_outcomes Power (k_save_crash w new cp)) -> o = Some old \/ o = Some new.
Proof.
  intros w old new cp Ho Hn Hw o Hin. destruct cp as [|k]; cbn [k_save_crash k_outcomes kw_unsynced] in Hin.
  - rewrite Hw in Hin. cbn [map f_load] in Hin. rewrite decode_encode in Hin by assumption.
    destruct Hin as [H|[]]. left. symmetry. assumption.
  - rewrite Hw in Hin. cbn [map app f_load] in Hin. rewrite !decode_encode in Hin by assumption.
    destruct Hin as [H|[H|[]]]; [left|right]; symmetry; assumption.
Qed.

(* whatever was saved before, a put is never torn: the outcome of any crash is a value that was saved
   (or the initial absence), never an undecodable one *)
Definition saved_or_initial (saves : list hs) (o : option hs) : Prop := o = None \/ exists h, In h saves /\ o = Some h.

Theorem rmeta_never_undecodable : forall saves m, Forall wf_hs saves ->
  forall o, In o (k_outcomes m (fold_left k_save saves kw0)) -> saved_or_initial saves o.
Proof.
  intros saves m Hwf.
  assert (H : forall w done, Forall wf_hs saves ->
            (forall c, In c (kw_mem w :: kw_unsynced w) -> saved_or_initial done (f_load c)) ->
            forall c, In c (kw_mem (fold_left k_save saves w) :: kw_unsynced (fold_left k_save saves w)) ->
                      saved_or_initial (done ++ saves) (f_load c)).
  { clear Hwf. induction saves as [|h saves IH]; intros w done Hwf Hw c Hc; cbn [fold_left] in Hc.
    - rewrite app_nil_r. apply Hw. assumption.
    - inversion Hwf as [|? ? Hh Hrest]; subst.
      replace (done ++ h :: saves) with ((done ++ [h]) ++ saves) by (rewrite <- app_assoc; reflexivity).
      apply (IH (k_save w h) (done ++ [h]) Hrest); [|assumption].
      intros c' Hc'. unfold k_save, k_save_crash in Hc'. cbn [kw_mem kw_unsynced] in Hc'.
      assert (Hnew : saved_or_initial (done ++ [h]) (f_load (Some (encode h)))).
      { right. exists h. split; [apply in_or_app; right; left; reflexivity|]. cbn [f_load]. apply decode_encode. assumption. }
      destruct Hc' as [Hc'|Hc']; [subst c'; exact Hnew|].
      apply in_app_or in Hc'. destruct Hc' as [Hc'|[Hc'|[]]]; [|subst c'; exact Hnew].
      destruct (Hw c' (or_intror Hc')) as [Hn|[h' [Hin Hh']]]; [left; assumption|].
      right. exists h'. split; [apply in_or_app; left; assumption|assumption]. }
  intros o Hin.
  specialize (H kw0 [] Hwf).
  assert (H0 : forall c, In c (kw_mem kw0 :: kw_unsynced kw0) -> saved_or_initial [] (f_load c)).
  { intros c [Hc|[Hc|[]]]; subst c; left; reflexivity. }
  specialize (H H0). cbn [app] in H.
  destruct m; cbn [k_outcomes] in Hin.
  - destruct Hin as [Hin|[]]. subst o. apply H. left. reflexivity.
  - apply in_map_iff in Hin. destruct Hin as [c [Hc Hin]]. subst o. apply H. right. assumption.
Qed.

(* ---------- non-vacuity and witnesses ---------- *)
Definition hA : hs := {| h_term := 3; h_vote := Some {| v_id := 2; v_term := 3; v_committed := true |} |}.
Definition hB : hs := {| h_term := 4; h_vote := None |}.
Definition hC : hs := {| h_term := 5; h_vote := Some {| v_id := 1; v_term := 5; v_committed := false |} |}.
Lemma wf_A : wf_hs hA. Proof. unfold wf_hs, hA; cbn; lia. Qed.
Lemma wf_B : wf_hs hB. Proof. unfold wf_hs, hB; cbn; lia. Qed.
Lemma wf_C : wf_hs hC. Proof. unfold wf_hs, hC; cbn; lia. Qed.

Example file_crash_points_example :
  map (fun cp => f_outcomes Process (f_save_crash (f_save fw0 hA) hB cp)) (seq 0 11)
  = [[Some hA]; [None]; [None]; [None]; [None]; [None]; [None]; [None]; [None]; [None]; [Some hB]].
Proof. vm_compute. reflexivity. Qed.

Example file_world_example : fw_cache (f_save fw0 hA) = Some (encode hA) /\ length (encode hA) = 22%nat.
Proof. vm_compute. split; reflexivity. Qed.

Example rocks_synced_example :
  kw_unsynced (k_flush (k_save kw0 hA)) = [Some (encode hA)] /\
  k_outcomes Power (k_save (k_flush (k_save kw0 hA)) hB) = [Some hA; Some hB].
Proof. vm_compute. split; reflexivity. Qed.

(* without a WAL sync between saves, a power loss can return a state older than the previous one *)
Lemma rmeta_power_loss_unsynced_refuted :
  In (Some hA) (k_outcomes Power (k_save (k_save (k_save (k_flush kw0) hA) hB) hC)) /\
  In None (k_outcomes Power (k_save (k_save (k_save (k_flush kw0) hA) hB) hC)) /\
  Some hA <> Some hB /\ Some hA <> Some hC.
Proof. vm_compute. repeat split; try (intro H; discriminate); tauto. Qed.
