(* C14 — rejected writes are never applied.  Proved on DE.LeaderQ: a request answered NotLeader / invalid /
   resource-exhausted never has an entry in the log (so it can be neither replicated nor applied), including the
   writes buffered at a leader that steps down before flushing them. *)
From Coq Require Import NArith List Bool Lia Arith.
From DE Require Import Val LeaderQ proofs.LeaderQLemmas proofs.C29.
Import ListNotations.
Open Scope N_scope.

Definition rej (k : N) : Prop := k = K_NOTLEADER \/ k = K_INVALID \/ k = K_EXHAUSTED.

Record J (s : lq) : Prop := {
  j_log : forall id, In id (logids s) -> id < q_next s;
  j_buf : forall id, In id (q_pbuf s) -> id < q_next s /\ ~ In id (logids s);
  j_rej : forall r, In r (q_resp s) -> rej (rkind r) -> rid r < q_next s /\ ~ In (rid r) (logids s) /\ ~ In (rid r) (q_pbuf s) }.

Record jx (s s' : lq) : Prop := {
  jx_log : q_log s' = q_log s; jx_buf : q_pbuf s' = q_pbuf s; jx_next : q_next s' = q_next s;
  jx_resp : forall r, In r (q_resp s') -> In r (q_resp s) \/ ~ rej (rkind r) }.

Lemma jx_refl s : jx s s. Proof. constructor; try reflexivity. intros r H; left; exact H. Qed.
Lemma jx_trans a b c : jx a b -> jx b c -> jx a c.
Proof.
  intros [L1 B1 N1 R1] [L2 B2 N2 R2]. constructor; try congruence.
  intros r H. destruct (R2 r H) as [H'|H']; [apply R1; exact H' | right; exact H'].
Qed.
Lemma J_jx s s' : jx s s' -> J s -> J s'.
Proof.
  intros [L B N R] [Jl Jb Jr]. unfold logids in *. constructor; unfold logids; rewrite ?L, ?B, ?N.
  - exact Jl.
  - exact Jb.
  - intros r Hr Hk. destruct (R r Hr) as [H|H]; [apply Jr; assumption | contradiction].
Qed.

Ltac norej_h H :=
  first [ apply all_kind_kind in H; rewrite H; intros [E|[E|E]]; discriminate E
        | apply in_map_iff in H; destruct H as [? [<- _]]; intros [E|[E|E]]; discriminate E
        | apply in_app_or in H; destruct H as [H|H]; [norej_h H | norej_h H]
        | cbn [In] in H; repeat (destruct H as [<-|H]; [intros [E|[E|E]]; discriminate E|]); contradiction ].
Ltac norej := let r := fresh "r" in let H := fresh "H" in intros r H; norej_h H.

Lemma jx_answer s rs : (forall r, In r rs -> ~ rej (rkind r)) -> jx s (answer s rs).
Proof.
  intros K. constructor; try reflexivity. intros r. cbn. rewrite in_app_iff. intros [H|H]; [left; exact H | right; apply K; exact H].
Qed.
Ltac jx0 := constructor; cbn; try reflexivity; intros ? H; left; exact H.
Lemma jx_set_pend s a b c d e : jx s (set_pend s a b c d e). Proof. jx0. Qed.
Lemma jx_set_vol s a b c d e f g h i : jx s (set_vol s a b c d e f g h i). Proof. jx0. Qed.
Lemma jx_set_lease s b : jx s (set_lease s b). Proof. jx0. Qed.
Lemma jx_set_hb s b : jx s (set_hb s b). Proof. jx0. Qed.
Lemma jx_set_commit s b : jx s (set_commit s b). Proof. jx0. Qed.
Lemma jx_set_bufs s b c d : jx s (set_bufs s (q_pbuf s) b c d). Proof. jx0. Qed.

Lemma J_next s : J s -> J (set_next s (q_next s + 1)).
Proof.
  intros [Jl Jb Jr]. constructor; cbn [q_next set_next upd q_pbuf q_resp]; unfold logids in *; cbn [q_log set_next upd].
  - intros id H. specialize (Jl id H). lia.
  - intros id H. destruct (Jb id H). split; [lia | assumption].
  - intros r H K. destruct (Jr r H K) as [? [? ?]]. split; [lia | split; assumption].
Qed.

(* a response of any kind to the request that was just issued *)
Lemma J_fresh s k a : J s -> J (answer (set_next s (q_next s + 1)) [(q_next s, k, a)]).
Proof.
  intros I. pose proof I as [Jl Jb Jr]. destruct (J_next s I) as [Jl' Jb' Jr']. constructor.
  - exact Jl'.
  - exact Jb'.
  - intros r. cbn [q_resp answer upd set_next]. rewrite in_app_iff. intros [H|[<-|[]]] K.
    + apply Jr'; assumption.
    + cbn [rid fst q_next answer set_next upd q_pbuf]. unfold logids. cbn [q_log answer set_next upd]. split; [lia|]. split.
      * intros H. specialize (Jl _ H). lia.
      * intros H. destruct (Jb _ H). lia.
Qed.

Lemma J_step_write s k : J s -> J (push_write s k).
Proof.
  intros I. unfold push_write. cbn [q_leader set_next upd q_cfg q_pbuf].
  destruct (q_leader s); [|apply J_fresh; exact I].
  destruct (full _ _); [apply J_fresh; exact I|]. destruct (k =? 3); [apply J_fresh; exact I|].
  pose proof I as [Jl Jb Jr]. constructor; cbn [q_next q_pbuf q_resp set_bufs set_next upd]; unfold logids in *; cbn [q_log set_bufs set_next upd].
  - intros id H. specialize (Jl id H). lia.
  - intros id H. apply in_app_or in H. destruct H as [H|[<-|[]]].
    + destruct (Jb id H). split; [lia | assumption].
    + split; [lia|]. intros H. specialize (Jl _ H). lia.
  - intros r H K. destruct (Jr r H K) as [H1 [H2 H3]]. split; [lia|]. split; [exact H2|].
    intros H4. apply in_app_or in H4. destruct H4 as [H4|[H4|[]]]; [contradiction | lia].
Qed.

Lemma J_step_read s k : J s -> J (push_read s k).
Proof.
  intros I. unfold push_read. cbn [q_leader set_next upd q_cfg q_pbuf q_linbuf q_leaseq q_evq].
  destruct (q_leader s).
  - destruct (_ =? P_LIN); [destruct (full _ _); [apply J_fresh; exact I|]|
      destruct (_ =? P_LEASE); (destruct (full _ _); [apply J_fresh; exact I|])];
    (eapply J_jx; [|apply J_next; exact I]); jx0.
  - destruct (nonleader_policy _ _); apply J_fresh; exact I.
Qed.

Lemma J_step_scan s : J s -> J (push_scan s).
Proof. intros I. unfold push_scan. cbn [q_leader set_next upd]. destruct (q_leader s); apply J_fresh; exact I. Qed.

Lemma logids_app l1 l2 :
  flat_map (fun e : N * option N => match snd e with Some i => [i] | None => [] end) (l1 ++ l2) =
  flat_map (fun e : N * option N => match snd e with Some i => [i] | None => [] end) l1 ++
  flat_map (fun e : N * option N => match snd e with Some i => [i] | None => [] end) l2.
Proof. apply flat_map_app. Qed.

Lemma J_step_join s : J s -> J (join s).
Proof.
  intros I. unfold join. cbn [q_leader set_next upd]. destruct (q_leader s); cbn [negb]; [|apply J_fresh; exact I].
  destruct (J_next s I) as [Jl Jb Jr]. unfold logids in *.
  constructor; cbn [q_next q_pbuf q_resp set_pend set_log reset_hb set_hb set_vol set_next upd] in *; unfold logids;
    cbn [q_log set_pend set_log reset_hb set_hb set_vol set_next upd] in *; rewrite ?logids_app; cbn [flat_map snd]; rewrite ?app_nil_r; assumption.
Qed.

Lemma logids_map t w : flat_map (fun e : N * option N => match snd e with Some i => [i] | None => [] end) (map (fun i => (t, Some i)) w) = w.
Proof. induction w as [|x w IH]; cbn; [reflexivity | f_equal; exact IH]. Qed.

(* the only way into the log: the propose buffer handed to execute_and_process_raft_rpc *)
Lemma J_exec_rpc s w r :
  J s -> q_pbuf s = [] ->
  (forall id, In id w -> id < q_next s /\ forall x, In x (q_resp s) -> rej (rkind x) -> rid x <> id) ->
  J (exec_rpc s w r).
Proof.
  intros [Jl Jb Jr] Hb Hw. unfold exec_rpc.
  set (s1 := set_log s _).
  set (s2 := match w with [] => s1 | _ => _ end).
  assert (I2 : J s2).
  { assert (I1 : J s1).
    { subst s1. constructor; cbn [q_next q_pbuf q_resp set_log upd]; unfold logids in *; cbn [q_log set_log upd]; rewrite ?logids_app, ?logids_map.
      - intros id H. apply in_app_or in H. destruct H as [H|H]; [apply Jl; exact H | apply Hw; exact H].
      - rewrite Hb. intros ? [].
      - intros x H K. destruct (Jr x H K) as [H1 [H2 H3]]. split; [exact H1|]. split; [|exact H3].
        intros H4. apply in_app_or in H4. destruct H4 as [H4|H4]; [contradiction|]. destruct (Hw _ H4) as [_ H5]. exact (H5 x H K eq_refl). }
    subst s2. destruct w; [exact I1|]. eapply J_jx; [apply jx_set_pend | exact I1]. }
  destruct r; [exact I2|]. eapply J_jx; [|exact I2].
  destruct (negb _); [apply jx_answer; norej|]. destruct (_ && _); [apply jx_answer; norej | apply jx_set_pend].
Qed.

Lemma jx_lease_read s id : jx s (lease_read s id).
Proof.
  unfold lease_read. destruct (q_lease s); [apply jx_answer; norej|].
  destruct (c_single _); [eapply jx_trans; [apply jx_set_lease | apply jx_answer; norej] | apply jx_set_pend].
Qed.
Lemma jx_fold_lease l : forall s, jx s (fold_left lease_read l s).
Proof. induction l as [|x l IH]; intros s; cbn [fold_left]; [apply jx_refl | eapply jx_trans; [apply jx_lease_read | apply IH]]. Qed.

(* the state handed to exec_rpc by flush / tick: propose buffer taken *)
Lemma J_taken s lin : J s -> let s0 := set_bufs s [] lin (q_leaseq s) (q_evq s) in
  J s0 /\ q_pbuf s0 = [] /\ (forall id, In id (q_pbuf s) -> id < q_next s0 /\ forall x, In x (q_resp s0) -> rej (rkind x) -> rid x <> id).
Proof.
  intros [Jl Jb Jr] s0. split; [|split; [reflexivity|]].
  - constructor; cbn [q_next q_pbuf q_resp set_bufs upd]; unfold logids in *; cbn [q_log set_bufs upd]; try assumption.
    + intros ? [].
    + intros r H K. destruct (Jr r H K) as [? [? ?]]. split; [assumption|]. split; [assumption | intros []].
  - intros id H. cbn [q_next q_resp set_bufs upd s0]. split; [apply Jb; exact H|].
    intros x Hx K E. destruct (Jr x Hx K) as [_ [_ H3]]. rewrite E in H3. contradiction.
Qed.

Lemma J_step_flush s : J s -> J (flush s).
Proof.
  intros I. unfold flush. destruct (negb (q_leader s)); [exact I|].
  set (s1 := match q_pbuf s with [] => _ | _ => _ end).
  assert (I1 : J s1).
  { subst s1. destruct (J_taken s [] I) as [I0 [B0 W0]]. cbv zeta in *.
    destruct (q_pbuf s) eqn:Ep, (q_linbuf s) eqn:El; try exact I.
    - apply J_exec_rpc; [exact I0 | exact B0 | intros ? []].
    - apply J_exec_rpc; [eapply J_jx; [apply jx_set_hb | exact I0] | exact B0 | exact W0].
    - apply J_exec_rpc; [exact I0 | exact B0 | exact W0]. }
  eapply J_jx; [|exact I1]. eapply jx_trans; [|apply jx_answer; norej].
  eapply jx_trans; [|apply jx_fold_lease]. apply jx_set_bufs.
Qed.

Lemma jx_drain_pca s c : jx s (drain_pca s c).
Proof. unfold drain_pca. eapply jx_trans; [apply jx_set_pend | apply jx_answer; norej]. Qed.
Lemma jx_advance s c : jx s (advance s c).
Proof.
  unfold advance. eapply jx_trans; [|apply jx_drain_pca]. unfold drain_pcw.
  eapply jx_trans; [apply jx_set_commit | apply jx_set_pend].
Qed.
Lemma jx_serve_preads s u : jx s (serve_preads s u).
Proof.
  unfold serve_preads. eapply jx_trans; [apply jx_set_pend | apply jx_answer].
  intros r H. apply in_flat_map in H. destruct H as [e [_ H]]. apply in_map_iff in H. destruct H as [? [<- _]].
  intros [E|[E|E]]; discriminate E.
Qed.
Lemma jx_drain_please s : jx s (drain_please s).
Proof. unfold drain_please. eapply jx_trans; [apply jx_set_pend | apply jx_answer; norej]. Qed.

Lemma jx_step_ack s m : jx s (ack s m).
Proof.
  unfold ack. destruct (_ || _); [apply jx_refl|].
  set (s1 := if q_match s <? m then _ else s).
  assert (X1 : jx s s1) by (subst s1; destruct (q_match s <? m); [apply jx_set_vol | apply jx_refl]).
  set (s2 := match new_commit s1 with Some c => advance s1 c | None => s1 end).
  assert (X2 : jx s s2) by (subst s2; destruct (new_commit s1); [eapply jx_trans; [exact X1 | apply jx_advance] | exact X1]).
  destruct (majority s2); [|exact X2].
  eapply jx_trans; [exact X2|]. eapply jx_trans; [|apply jx_serve_preads]. eapply jx_trans; [apply jx_set_lease | apply jx_drain_please].
Qed.
Lemma jx_step_flushed s : jx s (flushed s).
Proof.
  unfold flushed. destruct (negb _); [apply jx_refl|]. destruct (c_single _).
  - destruct (_ <? _); [|apply jx_refl]. eapply jx_trans; [apply jx_advance|]. eapply jx_trans; [apply jx_set_lease | apply jx_drain_please].
  - destruct (new_commit s); [apply jx_advance | apply jx_refl].
Qed.
Lemma jx_step_apply s fl : jx s (apply s fl).
Proof.
  unfold apply. destruct (negb _); [apply jx_set_vol|].
  destruct (apply_results _ _ _ _ _) as [[pwa flx] out] eqn:E.
  destruct (apply_results_spec _ _ _ _ _ _ _ _ E) as [_ [_ H3]].
  eapply jx_trans; [|apply jx_serve_preads]. eapply jx_trans; [|apply jx_answer].
  - eapply jx_trans; [apply jx_set_vol|]. eapply jx_trans; [apply jx_set_vol | apply jx_set_pend].
  - intros r Hr. destruct (H3 r Hr) as [[]|[Hk _]]. rewrite Hk. intros [E'|[E'|E']]; discriminate E'.
Qed.
Lemma jx_sweep s : jx s (sweep s).
Proof. unfold sweep. eapply jx_trans; [apply jx_set_pend | apply jx_answer; norej]. Qed.

Lemma J_step_tick s dt : J s -> J (tick s dt).
Proof.
  intros I. unfold tick. set (s1 := set_vol s _ _ _ _ _ _ (q_now s + dt) _ _).
  assert (I1 : J s1) by (eapply J_jx; [apply jx_set_vol | exact I]).
  destruct (negb (q_leader s1)); [exact I1|].
  eapply J_jx; [apply jx_sweep|]. destruct (q_hb s1 <=? q_now s1); [|exact I1].
  destruct (J_taken s1 (q_linbuf s1) I1) as [I0 [B0 W0]]. cbv zeta in *.
  apply J_exec_rpc; [eapply J_jx; [apply jx_set_hb | exact I0] | exact B0 | exact W0].
Qed.

Lemma jx_step_higher s : jx s (higher_term s).
Proof.
  unfold higher_term. destruct (negb _); [apply jx_refl|]. cbv zeta.
  eapply jx_trans; [|apply jx_answer; norej]. eapply jx_trans; [apply jx_set_vol | apply jx_set_pend].
Qed.

(* leaving: everything still held is answered; the propose buffer is emptied *)
Lemma J_clear s rs :
  J s -> (forall r, In r rs -> rej (rkind r) -> In (rid r) (q_pbuf s)) ->
  forall a b c d e, J (answer (set_pend (set_bufs s [] [] [] []) a b c d e) rs).
Proof.
  intros [Jl Jb Jr] Hrs a b c d e.
  constructor; cbn [q_next q_pbuf q_resp answer set_pend set_bufs upd]; unfold logids in *; cbn [q_log answer set_pend set_bufs upd].
  - exact Jl.
  - intros ? [].
  - intros r H K. apply in_app_or in H. destruct H as [H|H].
    + destruct (Jr r H K) as [? [? ?]]. split; [assumption|]. split; [assumption | intros []].
    + destruct (Jb _ (Hrs r H K)). split; [assumption|]. split; [assumption | intros []].
Qed.

Lemma J_drop_all s : J s -> J (drop_all s).
Proof.
  intros I. unfold drop_all. cbv zeta. eapply J_jx; [apply jx_set_vol|].
  apply J_clear; [exact I|]. intros r H K. apply all_kind_kind in H. rewrite H in K. destruct K as [E|[E|E]]; discriminate E.
Qed.

Lemma J_step_down s : J s -> J (step_down s).
Proof.
  intros I. unfold step_down. destruct (negb _); [exact I|]. cbv zeta. apply J_drop_all.
  apply J_clear; [exact I|]. intros r H K.
  repeat (apply in_app_or in H; destruct H as [H|H]);
    try (apply all_kind_kind in H; rewrite H in K; destruct K as [E|[E|E]]; discriminate E).
  unfold all_kind in H. apply in_map_iff in H. destruct H as [x [<- Hx]]. exact Hx.
Qed.

Lemma J_step_fatal s : J s -> J (fatal s).
Proof.
  intros I. unfold fatal. destruct (negb _); [exact I|]. cbv zeta. apply J_drop_all.
  eapply J_jx; [|exact I]. eapply jx_trans; [|apply jx_answer; norej].
  eapply jx_trans; [apply jx_set_bufs | apply jx_set_pend].
Qed.

Lemma J_step s o : J s -> J (step s o).
Proof.
  destruct o; cbn [step]; intros I.
  - apply J_step_write, I. - apply J_step_read, I. - apply J_step_scan, I. - apply J_step_join, I.
  - apply J_step_flush, I. - eapply J_jx; [apply jx_step_ack | exact I]. - eapply J_jx; [apply jx_step_flushed | exact I].
  - eapply J_jx; [apply jx_step_apply | exact I]. - apply J_step_tick, I. - eapply J_jx; [apply jx_step_higher | exact I].
  - apply J_step_down, I. - apply J_step_fatal, I.
Qed.
Lemma J_init c noop : J (init c noop).
Proof. constructor; cbn; intros; contradiction. Qed.
Lemma J_run ops : forall s, J s -> J (run s ops).
Proof. induction ops as [|o ops IH]; intros s I; cbn [run fold_left]; [exact I | apply IH, J_step, I]. Qed.

(* A request that was answered NotLeader, invalid-argument or resource-exhausted has no entry in the log — at the
   moment of the answer and at any later time: it cannot be replicated or applied anywhere, so retrying it
   elsewhere cannot apply it twice.  Covers the writes buffered at a leader that steps down before flushing. *)
Theorem rejected_never_logged :
  forall (c : cfg) (noop : bool) (ops : list op) (id k aux : N),
    let s := run (init c noop) ops in
    In (id, k, aux) (q_resp s) -> k = K_NOTLEADER \/ k = K_INVALID \/ k = K_EXHAUSTED ->
    forall idx t, entry_at s idx <> Some (t, Some id).
Proof.
  intros c noop ops id k aux s H K idx t E.
  destruct (j_rej _ (J_run ops _ (J_init c noop)) _ H K) as [_ [Hn _]]. apply Hn. cbn [rid fst].
  unfold logids. apply in_flat_map. exists (t, Some id). split; [|left; reflexivity].
  unfold entry_at in E. destruct (idx =? 0); [discriminate|]. eapply nth_error_In. exact E.
Qed.

(* the buffered-writes clause made explicit: whatever is in the propose buffer when the leader steps down is
   answered NotLeader *)
Theorem buffered_writes_rejected_on_step_down :
  forall (s : lq) (id : N), q_leader s = true -> In id (q_pbuf s) -> In (id, K_NOTLEADER, 0) (q_resp (step s OStepDown)).
Proof.
  intros s id L H. cbn [step]. unfold step_down. rewrite L. cbn [negb]. cbv zeta. unfold drop_all. cbv zeta.
  cbn [q_resp set_vol answer set_pend set_bufs upd]. apply in_or_app. left. apply in_or_app. right.
  do 5 (apply in_or_app; right). apply in_or_app. left. unfold all_kind. apply in_map_iff. exists id. split; [reflexivity | exact H].
Qed.

Example rejected_example :
  let s := run (init cfg_ex true) [OWrite 0; OWrite 3; OWrite 2; OStepDown; OWrite 0] in
  q_resp s = [(1, K_INVALID, 0); (0, K_NOTLEADER, 0); (2, K_NOTLEADER, 0); (3, K_NOTLEADER, 0)] /\ q_log s = [].
Proof. vm_compute. split; reflexivity. Qed.
Example accepted_example :
  q_log (run (init cfg_ex true) [OWrite 0; OWrite 3; OWrite 2; OFlush]) = [(1, Some 0); (1, Some 2)].
Proof. vm_compute. reflexivity. Qed.
