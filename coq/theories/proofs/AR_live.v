(* AR_live — no reachable state of DE.AbstractRaft is a dead end: from every reachable state there is a finite
   continuation (timeouts of one node, grants by all others, its election, a no-op, acceptance by every node, commit)
   that ends in a state with a leader of a fresh term whose whole log is on every node and committed.
   This is the possibility ("recoverability") half of C32: which continuation the real cluster takes, and how fast,
   depends on timers and scheduling and is explored, not proved. *)
From Coq Require Import NArith List Bool Lia ZifyBool ZifyN ZifyNat PeanoNat.
From DE Require Import AbstractRaft.
From DE.proofs Require Import AR_election AR_logs AR_complete AR_sms.
Import ListNotations.
Open Scope N_scope.

(* ------------------------------------------------------------------ *)
(* the up-to-date order has a maximum on every non-empty list          *)
(* ------------------------------------------------------------------ *)
Lemma utd_refl a : up_to_date a a = true.
Proof. unfold up_to_date. destruct a; cbn. lia. Qed.
Lemma utd_total a b : up_to_date a b = true \/ up_to_date b a = true.
Proof. unfold up_to_date. destruct a, b; cbn. lia. Qed.
Lemma utd_trans a b c : up_to_date a b = true -> up_to_date b c = true -> up_to_date a c = true.
Proof. unfold up_to_date. destruct a, b, c; cbn. lia. Qed.

Lemma utd_max (f : N -> N * N) l : l <> [] ->
  exists n, In n l /\ forall v, In v l -> up_to_date (f v) (f n) = true.
Proof.
  induction l as [|a l IH]; [congruence|]. intros _. destruct l as [|b l'].
  - exists a. split; [now left|]. intros v [<-|[]]. apply utd_refl.
  - destruct IH as (n & Hn & Hmax); [congruence|].
    destruct (utd_total (f a) (f n)) as [H|H].
    + exists n. split; [now right|]. intros v [<-|Hv]; auto.
    + exists a. split; [now left|]. intros v [<-|Hv]; [apply utd_refl|]. eapply utd_trans; eauto.
Qed.

Definition maxl (l : list N) : N := fold_right N.max 0 l.
Lemma maxl_ge l x : In x l -> x <= maxl l.
Proof. unfold maxl. induction l as [|a l IH]; cbn; [tauto|]. intros [<-|H]; [lia|]. specialize (IH H). lia. Qed.

(* ------------------------------------------------------------------ *)
(* a full-log AppendEntries whose last entry is of a term above everything the follower holds
   leaves the follower with exactly the leader log                      *)
(* ------------------------------------------------------------------ *)
Lemma firstn_len_id {A} (l : list A) : firstn (length l) l = l.
Proof. apply firstn_all. Qed.

Lemma merge_full G l L T :
  glog G l -> glog G L -> sorted l -> (forall e, In e l -> a_term e <= T) -> G T = L ->
  (exists e, nth_error L (pred (length L)) = Some e /\ a_term e = T) ->
  merge_from l 0 (firstn (length L) (skipn 0 L)) = L.
Proof.
  intros Gl GL Sl Tl GT (e & He & Te).
  destruct (merge_dich l L (glog_lmc G l L Gl GL) (length L) 0 eq_refl) as [[-> H]| ->]; [lia| |apply firstn_len_id].
  cbn [Nat.add] in H. rewrite firstn_len_id in H.
  assert (Hlen : (length l <= length L)%nat).
  { destruct (Nat.le_gt_cases (length l) (length L)) as [|Hgt]; [assumption|exfalso].
    assert (HL : (0 < length L)%nat) by (apply nth_error_Some_lt in He; lia).
    destruct (nth_error_lt_Some (pred (length l)) l) as [e' He']; [lia|].
    assert (He0 : nth_error l (pred (length L)) = Some e).
    { rewrite <- He. rewrite <- H at 2. symmetry. apply nth_error_firstn_lt. lia. }
    assert (a_term e <= a_term e') by (refine (Sl _ _ _ _ _ He0 He'); lia).
    assert (a_term e' <= T) by (apply Tl; eapply nth_error_In; eauto).
    assert (Et : a_term e' = T) by lia.
    pose proof (Gl _ _ He') as E. rewrite Et, GT in E.
    pose proof (firstn_eq_len _ _ _ (eq_sym E)). lia. }
  rewrite <- H. symmetry. apply firstn_all2. exact Hlen.
Qed.

Section Live.
Variable nodes : list N.

Inductive star : astate -> astate -> Prop :=
| star0 s : star s s
| starS s s' s'' : star s s' -> astep nodes s' s'' -> star s s''.

Lemma star_trans s1 s2 s3 : star s1 s2 -> star s2 s3 -> star s1 s3.
Proof. intros A B. induction B; eauto using star. Qed.

Lemma star_reach s s' : reach nodes s -> star s s' -> reach nodes s'.
Proof. intros R St. induction St; eauto using reach. Qed.

Lemma star1 s s' : astep nodes s s' -> star s s'.
Proof. intros H. eapply starS; [apply star0|exact H]. Qed.

(* everything except terms, votes and candidacies *)
Definition same_base (s s' : astate) : Prop :=
  a_log s' = a_log s /\ a_commit s' = a_commit s /\ g_leaders s' = g_leaders s /\ g_llog s' = g_llog s /\
  g_lcommit s' = g_lcommit s /\ g_acks s' = g_acks s.

Lemma same_base_refl s : same_base s s.
Proof. repeat split. Qed.
Lemma same_base_trans s1 s2 s3 : same_base s1 s2 -> same_base s2 s3 -> same_base s1 s3.
Proof. unfold same_base. intros (A1&A2&A3&A4&A5&A6) (B1&B2&B3&B4&B5&B6). repeat split; congruence. Qed.

(* phase A: k+1 election timeouts of n *)
Lemma timeouts n : In n nodes -> forall k s, exists s',
  star s s' /\ same_base s s' /\ a_cur s' n = a_cur s n + N.of_nat (S k) /\
  (forall m, m <> n -> a_cur s' m = a_cur s m) /\
  In (n, a_cur s' n, last_id (a_log s n)) (g_cand s') /\ In (n, a_cur s' n, n) (g_votes s').
Proof.
  intros Hn. induction k as [|k IH]; intros s.
  - eexists. split; [apply star1, (STimeout nodes s n Hn)|]. cbn. unfold upd. rewrite N.eqb_refl.
    split; [unfold same_base; cbn; repeat split|]. split; [lia|]. split; [|split; now left].
    intros m Hm. destruct (N.eqb_spec m n); congruence.
  - destruct (IH s) as (s1 & St & SB & Hc & Ho & _ & _).
    eexists. split; [eapply starS; [exact St|apply (STimeout nodes s1 n Hn)]|]. cbn. unfold upd. rewrite N.eqb_refl.
    split; [exact SB|]. split; [lia|]. destruct SB as (Hl & _). rewrite Hl. split; [|split; now left].
    intros m Hm. destruct (N.eqb_spec m n); [congruence|auto].
Qed.

(* phase B: every node of l grants its vote to the candidate n of term T *)
Lemma grants n T last : forall l s,
  NoDup l -> ~ In n l -> incl l nodes -> In (n, T, last) (g_cand s) ->
  (forall v, In v l -> a_cur s v < T /\ up_to_date (last_id (a_log s v)) last = true) ->
  exists s', star s s' /\ same_base s s' /\ g_cand s' = g_cand s /\
    (forall v, In v l -> a_cur s' v = T /\ In (v, T, n) (g_votes s')) /\
    (forall m, ~ In m l -> a_cur s' m = a_cur s m) /\
    (forall x, In x (g_votes s) -> In x (g_votes s')).
Proof.
  induction l as [|v l IH]; intros s ND Hnl Hin Hc Hall.
  - exists s. split; [apply star0|]. split; [apply same_base_refl|].
    split; [reflexivity|]. split; [intros ? []|]. split; auto.
  - inversion ND as [|? ? Hvl ND']; subst.
    destruct (Hall v (or_introl eq_refl)) as (Hlt & Hup).
    assert (Hvn : v <> n) by (intros ->; apply Hnl; now left).
    pose proof (SVoteGrant nodes s v n T last (Hin v (or_introl eq_refl)) Hc Hvn ltac:(lia) Hup (or_introl Hlt)) as St.
    match type of St with astep _ _ ?x => set (s1 := x) in * end.
    destruct (IH s1) as (s' & St' & SB & Hcand & Hv' & Ho & Hsup); auto.
    + intros H; apply Hnl; now right.
    + intros x Hx; apply Hin; now right.
    + intros w Hw. subst s1; cbn. unfold upd. destruct (N.eqb_spec w v) as [->|]; [contradiction|].
      apply Hall; now right.
    + exists s'. split; [eapply star_trans; [apply star1, St|exact St']|].
      split; [eapply same_base_trans; [|exact SB]; subst s1; unfold same_base; cbn; repeat split|].
      split; [rewrite Hcand; reflexivity|].
      split; [|split].
      * intros w [<-|Hw]; [|auto]. split.
        -- rewrite (Ho v Hvl). subst s1; cbn. unfold upd. now rewrite N.eqb_refl.
        -- apply Hsup. subst s1; cbn. now left.
      * intros m Hm. rewrite Ho by (intros H; apply Hm; now right).
        subst s1; cbn. unfold upd. destruct (N.eqb_spec m v) as [->|]; [exfalso; apply Hm; now left|reflexivity].
      * intros x Hx. apply Hsup. subst s1; cbn. now right.
Qed.

(* phase E: every node of l accepts the whole log of the leader n of term T *)
Lemma accepts n T : forall l s, reach nodes s ->
  NoDup l -> ~ In n l -> incl l nodes -> In (n, T) (g_leaders s) ->
  (forall v, In v l -> a_cur s v = T) ->
  (exists e, nth_error (g_llog s T) (pred (length (g_llog s T))) = Some e /\ a_term e = T) ->
  exists s', star s s' /\ (forall m, a_cur s' m = a_cur s m) /\
    g_leaders s' = g_leaders s /\ g_llog s' = g_llog s /\ g_lcommit s' = g_lcommit s /\
    (forall v, In v l -> a_log s' v = g_llog s T /\ In (v, T, N.of_nat (length (g_llog s T))) (g_acks s')) /\
    (forall m, ~ In m l -> a_log s' m = a_log s m /\ a_commit s' m = a_commit s m) /\
    (forall x, In x (g_acks s) -> In x (g_acks s')).
Proof.
  induction l as [|v l IH]; intros s R ND Hnl Hin Hld Hcur Hlast.
  - exists s. split; [apply star0|]. do 4 (split; [reflexivity|]). split; [intros ? []|].
    split; [intros; split; reflexivity|auto].
  - inversion ND as [|? ? Hvl ND']; subst.
    assert (Hvn : v <> n) by (intros ->; apply Hnl; now left).
    pose proof (Hcur v (or_introl eq_refl)) as Hcv.
    pose proof (reach_linv nodes s R) as LI.
    assert (St : astep nodes s
      {| a_cur := upd (a_cur s) v T;
         a_vote := upd (a_vote s) v (if a_cur s v <? T then None else a_vote s v);
         a_log := upd (a_log s) v (merge_from (a_log s v) (N.to_nat 0) (slice (g_llog s T) 0 (N.of_nat (length (g_llog s T)))));
         a_commit := upd (a_commit s) v (N.max (a_commit s v) (N.min (g_lcommit s T) (0 + N.of_nat (length (g_llog s T)))));
         g_votes := g_votes s; g_cand := g_cand s; g_leaders := g_leaders s;
         g_llog := g_llog s; g_lcommit := g_lcommit s;
         g_acks := (v, T, 0 + N.of_nat (length (g_llog s T))) :: g_acks s |}).
    { apply (SAppendAccept nodes s v n T 0 (N.of_nat (length (g_llog s T))) (g_lcommit s T)); auto; try lia.
      apply Hin; now left. }
    match type of St with astep _ _ ?x => set (s1 := x) in * end.
    assert (Hlog1 : a_log s1 v = g_llog s T).
    { subst s1; cbn [a_log]. unfold upd. rewrite N.eqb_refl. rewrite slice_nat.
      change (N.to_nat 0) with 0%nat. rewrite Nat2N.id.
      apply (merge_full (g_llog s) (a_log s v) (g_llog s T) T); auto.
      - apply (l_glog_log _ LI).
      - apply (l_glog_llog _ LI).
      - apply (l_sorted_log _ LI).
      - intros e He. rewrite <- Hcv. apply (l_log_terms _ LI v e He). }
    destruct (IH s1) as (s' & St' & Hc' & Hld' & Hll' & Hlc' & Hv' & Ho' & Hsup); auto.
    + eapply reachS; eauto.
    + intros H; apply Hnl; now right.
    + intros x Hx; apply Hin; now right.
    + intros w Hw. subst s1; cbn [a_cur]. unfold upd. destruct (N.eqb_spec w v); [reflexivity|]. apply Hcur; now right.
    + exists s'. split; [eapply star_trans; [apply star1, St|exact St']|].
      split; [|split; [exact Hld'|split; [exact Hll'|split; [exact Hlc'|split; [|split]]]]].
      * intros m. rewrite Hc'. subst s1; cbn [a_cur]. unfold upd. destruct (N.eqb_spec m v) as [->|]; congruence.
      * intros w [<-|Hw].
        -- destruct (Ho' v Hvl) as (E1 & _). rewrite E1, Hlog1. split; [reflexivity|].
           apply Hsup. subst s1; cbn [g_acks]. left. f_equal.
        -- apply (Hv' w Hw).
      * intros m Hm. destruct (Ho' m) as (E1 & E2); [intros H; apply Hm; now right|].
        rewrite E1, E2. subst s1; cbn [a_log a_commit]. unfold upd.
        destruct (N.eqb_spec m v) as [->|]; [exfalso; apply Hm; now left|split; reflexivity].
      * intros x Hx. apply Hsup. subst s1; cbn [g_acks]. now right.
Qed.

(* phase G: an empty AppendEntries carrying the leader's commit index brings every node of l to it *)
Lemma commits n T : forall l s, reach nodes s ->
  NoDup l -> ~ In n l -> incl l nodes -> In (n, T) (g_leaders s) ->
  (forall v, In v l -> a_cur s v = T /\ a_log s v = g_llog s T) ->
  N.of_nat (length (g_llog s T)) <= g_lcommit s T ->
  exists s', star s s' /\ (forall m, a_cur s' m = a_cur s m) /\ (forall m, a_log s' m = a_log s m) /\
    g_leaders s' = g_leaders s /\ g_llog s' = g_llog s /\ g_lcommit s' = g_lcommit s /\
    (forall v, In v l -> a_commit s' v = N.of_nat (length (g_llog s T))) /\
    (forall m, ~ In m l -> a_commit s' m = a_commit s m).
Proof.
  induction l as [|v l IH]; intros s R ND Hnl Hin Hld Hall Hlc.
  - exists s. split; [apply star0|]. do 5 (split; [reflexivity|]). split; [intros ? []|auto].
  - inversion ND as [|? ? Hvl ND']; subst.
    assert (Hvn : v <> n) by (intros ->; apply Hnl; now left).
    destruct (Hall v (or_introl eq_refl)) as (Hcv & Hlv).
    pose proof (commit_within_log nodes s R v) as Hcw. rewrite Hlv in Hcw.
    set (len := N.of_nat (length (g_llog s T))) in *.
    assert (St : astep nodes s
      {| a_cur := upd (a_cur s) v T;
         a_vote := upd (a_vote s) v (if a_cur s v <? T then None else a_vote s v);
         a_log := upd (a_log s) v (merge_from (a_log s v) (N.to_nat len) (slice (g_llog s T) len 0));
         a_commit := upd (a_commit s) v (N.max (a_commit s v) (N.min len (len + 0)));
         g_votes := g_votes s; g_cand := g_cand s; g_leaders := g_leaders s;
         g_llog := g_llog s; g_lcommit := g_lcommit s;
         g_acks := (v, T, len + 0) :: g_acks s |}).
    { apply (SAppendAccept nodes s v n T len 0 len); auto; try (subst len; lia).
      - apply Hin; now left.
      - rewrite Hlv. reflexivity.
      - rewrite Hlv. subst len; lia. }
    match type of St with astep _ _ ?x => set (s1 := x) in * end.
    assert (Hlog1 : forall m, a_log s1 m = a_log s m).
    { intros m. subst s1; cbn [a_log]. unfold upd. destruct (N.eqb_spec m v) as [->|]; [|reflexivity].
      rewrite slice_nat. cbn [N.to_nat firstn merge_from]. reflexivity. }
    destruct (IH s1) as (s' & St' & Hc' & Hl' & Hld' & Hll' & Hlc' & Hv' & Ho'); auto.
    + eapply reachS; eauto.
    + intros H; apply Hnl; now right.
    + intros x Hx; apply Hin; now right.
    + intros w Hw. rewrite Hlog1. destruct (Hall w (or_intror Hw)) as (A & B). split; [|exact B].
      subst s1; cbn [a_cur]. unfold upd. destruct (N.eqb_spec w v); [reflexivity|exact A].
    + exists s'. split; [eapply star_trans; [apply star1, St|exact St']|].
      split; [|split; [|split; [exact Hld'|split; [exact Hll'|split; [exact Hlc'|split]]]]].
      * intros m. rewrite Hc'. subst s1; cbn [a_cur]. unfold upd. destruct (N.eqb_spec m v) as [->|]; congruence.
      * intros m. rewrite Hl'. apply Hlog1.
      * intros w [<-|Hw]; [|apply (Hv' w Hw)].
        rewrite (Ho' v Hvl). subst s1; cbn [a_commit]. unfold upd. rewrite N.eqb_refl. subst len; lia.
      * intros m Hm. rewrite Ho' by (intros H; apply Hm; now right).
        subst s1; cbn [a_commit]. unfold upd.
        destruct (N.eqb_spec m v) as [->|]; [exfalso; apply Hm; now left|reflexivity].
Qed.

Lemma snoc_last (L : list aentry) e : nth_error (L ++ [e]) (pred (length (L ++ [e]))) = Some e.
Proof. rewrite app_length. cbn [length]. rewrite Nat.add_1_r. cbn [pred]. rewrite nth_error_app2, Nat.sub_diag by lia. reflexivity. Qed.

(* the healed state: one leader of its current term, everybody in that term with the leader's log, all of it
   committed everywhere *)
Definition healed (s : astate) (n : N) : Prop :=
  In n nodes /\ In (n, a_cur s n) (g_leaders s) /\
  (forall m, In m nodes -> a_cur s m = a_cur s n /\ a_log s m = a_log s n /\
                           a_commit s m = N.of_nat (length (a_log s n))) /\
  0 < a_commit s n.

Theorem recoverable : nodes <> [] -> NoDup nodes -> forall s, reach nodes s ->
  exists s' n, star s s' /\ healed s' n /\ (forall m, In m nodes -> a_cur s m < a_cur s' n).
Proof.
  intros Hne ND s R.
  destruct (utd_max (fun v => last_id (a_log s v)) nodes Hne) as (n & Hn & Hmax).
  set (B := N.max (maxl (map (a_cur s) nodes)) (maxl (map snd (g_leaders s)))).
  assert (HB1 : forall m, In m nodes -> a_cur s m <= B).
  { intros m Hm. pose proof (maxl_ge _ _ (in_map (a_cur s) _ _ Hm)). subst B; lia. }
  assert (HB2 : forall m t, In (m, t) (g_leaders s) -> t <= B).
  { intros m t Hm. pose proof (maxl_ge _ _ (in_map snd _ _ Hm)) as H. cbn [snd] in H. subst B; lia. }
  (* A *)
  destruct (timeouts n Hn (N.to_nat (B - a_cur s n)) s) as (s1 & St1 & SB1 & Hc1 & Ho1 & Hcand1 & Hvote1).
  pose proof (HB1 n Hn) as HBn.
  assert (HT : a_cur s1 n = B + 1) by lia.
  destruct SB1 as (L1 & C1 & Ld1 & Ll1 & Lc1 & Ak1).
  (* B *)
  set (others := filter (fun v => negb (v =? n)) nodes).
  assert (NDo : NoDup others) by (apply NoDup_filter; exact ND).
  assert (Hno : ~ In n others).
  { intros H. apply filter_In in H. destruct H as (_ & H). rewrite N.eqb_refl in H. discriminate. }
  assert (Hio : incl others nodes) by (intros x Hx; apply filter_In in Hx; tauto).
  assert (Hot : forall v, In v nodes -> v = n \/ In v others).
  { intros v Hv. destruct (N.eqb_spec v n) as [->|Hne']; [now left|right].
    apply filter_In. split; [exact Hv|]. apply N.eqb_neq in Hne'. now rewrite Hne'. }
  destruct (grants n (a_cur s1 n) (last_id (a_log s n)) others s1 NDo Hno Hio Hcand1)
    as (s2 & St2 & SB2 & Hcand2 & Hv2 & Ho2 & Hsup2).
  { intros v Hv. assert (Hvn : v <> n) by (intros ->; contradiction).
    rewrite (Ho1 v Hvn), L1. split; [pose proof (HB1 v (Hio v Hv)); lia|apply Hmax, Hio, Hv]. }
  destruct SB2 as (L2 & C2 & Ld2 & Ll2 & Lc2 & Ak2).
  assert (HT2 : a_cur s2 n = B + 1) by (rewrite (Ho2 n Hno); exact HT).
  assert (Hcur2 : forall v, In v nodes -> a_cur s2 v = B + 1).
  { intros v Hv. destruct (Hot v Hv) as [->|Hv']; [exact HT2|]. rewrite <- HT. apply (Hv2 v Hv'). }
  assert (R2 : reach nodes s2) by (eapply star_reach; [exact R|eapply star_trans; eauto]).
  (* C: election *)
  assert (Hmaj : majority nodes nodes).
  { split; [exact ND|]. split; [apply incl_refl|]. destruct nodes; [congruence|cbn; lia]. }
  assert (St3 : astep nodes s2
    {| a_cur := a_cur s2; a_vote := a_vote s2; a_log := a_log s2; a_commit := a_commit s2;
       g_votes := g_votes s2; g_cand := g_cand s2;
       g_leaders := (n, a_cur s2 n) :: g_leaders s2;
       g_llog := upd (g_llog s2) (a_cur s2 n) (a_log s2 n);
       g_lcommit := upd (g_lcommit s2) (a_cur s2 n) (a_commit s2 n); g_acks := g_acks s2 |}).
  { apply (SBecomeLeader nodes s2 n nodes (last_id (a_log s n))); auto.
    - rewrite Hcand2, HT2, <- HT. exact Hcand1.
    - intros m Hm. rewrite Ld2, Ld1, HT2 in Hm. pose proof (HB2 _ _ Hm). lia.
    - intros v Hv. rewrite HT2, <- HT. destruct (Hot v Hv) as [->|Hv']; [apply Hsup2, Hvote1|apply (Hv2 v Hv')]. }
  match type of St3 with astep _ _ ?x => set (s3 := x) in * end.
  (* D: no-op *)
  set (e := {| a_term := a_cur s3 n; a_pl := 0 |}).
  assert (St4 : astep nodes s3
    {| a_cur := a_cur s3; a_vote := a_vote s3;
       a_log := upd (a_log s3) n (a_log s3 n ++ [e]); a_commit := a_commit s3;
       g_votes := g_votes s3; g_cand := g_cand s3; g_leaders := g_leaders s3;
       g_llog := upd (g_llog s3) (a_cur s3 n) (a_log s3 n ++ [e]);
       g_lcommit := g_lcommit s3; g_acks := g_acks s3 |}).
  { apply (SLeaderAppend nodes s3 n 0). subst s3; cbn. now left. }
  match type of St4 with astep _ _ ?x => set (s4 := x) in * end.
  assert (R4 : reach nodes s4) by (eapply reachS; [eapply reachS; [exact R2|exact St3]|exact St4]).
  set (T := B + 1) in *.
  assert (Hcur4 : forall v, In v nodes -> a_cur s4 v = T) by (intros v Hv; apply (Hcur2 v Hv)).
  assert (Hll4 : g_llog s4 T = a_log s2 n ++ [e]).
  { subst s4 s3; cbn. unfold upd. rewrite HT2, N.eqb_refl. reflexivity. }
  assert (Hlog4 : a_log s4 n = a_log s2 n ++ [e]).
  { subst s4 s3; cbn. unfold upd. rewrite N.eqb_refl. reflexivity. }
  assert (Hld4 : In (n, T) (g_leaders s4)) by (subst s4 s3; cbn; left; now rewrite HT2).
  assert (He : a_term e = T) by (subst e s3; cbn; exact HT2).
  (* E: replication to everybody *)
  destruct (accepts n T others s4 R4 NDo Hno Hio Hld4) as (s5 & St5 & Hc5 & Hld5 & Hll5 & Hlc5 & Hv5 & Ho5 & Hsup5).
  { intros v Hv. apply Hcur4, Hio, Hv. }
  { rewrite Hll4. exists e. split; [apply snoc_last|exact He]. }
  assert (R5 : reach nodes s5) by (eapply star_reach; eauto).
  destruct (Ho5 n Hno) as (Hlog5 & Hcm5).
  set (len := N.of_nat (length (a_log s2 n ++ [e]))).
  assert (Hlen : len = N.of_nat (length (a_log s2 n)) + 1) by (subst len; rewrite app_length; cbn; lia).
  assert (Hlogs5 : forall m, In m nodes -> a_log s5 m = a_log s2 n ++ [e]).
  { intros m Hm. destruct (Hot m Hm) as [->|Hm']; [now rewrite Hlog5|]. rewrite <- Hll4. apply (Hv5 m Hm'). }
  (* F: commit *)
  assert (St6 : astep nodes s5
    {| a_cur := a_cur s5; a_vote := a_vote s5; a_log := a_log s5;
       a_commit := upd (a_commit s5) n len;
       g_votes := g_votes s5; g_cand := g_cand s5; g_leaders := g_leaders s5; g_llog := g_llog s5;
       g_lcommit := upd (g_lcommit s5) (a_cur s5 n) (N.max (g_lcommit s5 (a_cur s5 n)) len);
       g_acks := g_acks s5 |}).
  { apply (SAdvanceCommit nodes s5 n len nodes); auto.
    - rewrite Hld5, Hc5, (Hcur4 n Hn). exact Hld4.
    - rewrite Hcm5. pose proof (commit_within_log nodes s2 R2 n) as H.
      change (a_commit s4 n) with (a_commit s2 n). lia.
    - rewrite Hlog5, Hlog4. subst len; lia.
    - rewrite Hlog5, Hlog4, Hc5, (Hcur4 n Hn). unfold term_at.
      destruct (N.eqb_spec len 0) as [H0|_]; [lia|].
      replace (N.to_nat (len - 1)) with (pred (length (a_log s2 n ++ [e]))) by (subst len; lia).
      now rewrite snoc_last.
    - intros v Hv. destruct (Hot v Hv) as [->|Hv']; [now left|right]. exists len. split; [lia|].
      rewrite Hc5, (Hcur4 n Hn). destruct (Hv5 v Hv') as (_ & H). rewrite Hll4 in H. exact H. }
  match type of St6 with astep _ _ ?x => set (s6 := x) in * end.
  assert (R6 : reach nodes s6) by (eapply reachS; eauto).
  assert (Hcur6 : forall v, In v nodes -> a_cur s6 v = T).
  { intros v Hv. change (a_cur s6 v) with (a_cur s5 v). rewrite Hc5. apply Hcur4, Hv. }
  assert (Hll6 : g_llog s6 T = a_log s2 n ++ [e]) by (change (g_llog s6) with (g_llog s5); now rewrite Hll5).
  assert (Hld6 : In (n, T) (g_leaders s6)) by (change (g_leaders s6) with (g_leaders s5); now rewrite Hld5).
  (* G: the commit index reaches everybody *)
  destruct (commits n T others s6 R6 NDo Hno Hio Hld6) as (s7 & St7 & Hc7 & Hl7 & Hld7 & Hll7 & Hlc7 & Hv7 & Ho7).
  { intros v Hv. split; [apply Hcur6, Hio, Hv|]. rewrite Hll6. change (a_log s6 v) with (a_log s5 v). apply Hlogs5, Hio, Hv. }
  { rewrite Hll6. fold len. subst s6; cbn [g_lcommit]. unfold upd. rewrite Hc5, (Hcur4 n Hn), N.eqb_refl. lia. }
  exists s7, n. split.
  { eapply star_trans; [|exact St7]. eapply starS; [|exact St6].
    eapply star_trans; [|exact St5]. eapply starS; [|exact St4]. eapply starS; [|exact St3].
    eapply star_trans; eauto. }
  assert (Hlogn7 : a_log s7 n = a_log s2 n ++ [e]).
  { rewrite Hl7. change (a_log s6 n) with (a_log s5 n). apply Hlogs5, Hn. }
  assert (Hcmn7 : a_commit s7 n = len).
  { rewrite (Ho7 n Hno). subst s6; cbn [a_commit]. unfold upd. now rewrite N.eqb_refl. }
  split; [|intros m Hm; rewrite Hc7, (Hcur6 n Hn); pose proof (HB1 m Hm); lia].
  split; [exact Hn|]. split; [rewrite Hld7, Hc7, (Hcur6 n Hn); exact Hld6|]. split; [|rewrite Hcmn7; lia].
  intros m Hm. rewrite !Hc7, (Hcur6 m Hm), (Hcur6 n Hn), Hlogn7. split; [reflexivity|]. split.
  - rewrite Hl7. change (a_log s6 m) with (a_log s5 m). apply Hlogs5, Hm.
  - destruct (Hot m Hm) as [->|Hm']; [exact Hcmn7|]. rewrite (Hv7 m Hm'), Hll6. reflexivity.
Qed.

End Live.

Print Assumptions recoverable.

(* non-vacuity: the premises are met by the reachable example state x6 of AR_election (3 nodes, a leader of term 1
   with one committed entry) *)
Example recoverable_from_x6 : exists s' n, star Example.nodes3 Example.x6 s' /\ healed Example.nodes3 s' n /\ 1 < a_cur s' n.
Proof.
  destruct (recoverable Example.nodes3 ltac:(discriminate) ltac:(repeat constructor; cbn; intuition discriminate) Example.x6 Example.reach_x6)
    as (s' & n & St & H & Hlt).
  exists s', n. split; [exact St|]. split; [exact H|]. specialize (Hlt 1 ltac:(now left)). cbn in Hlt. lia.
Qed.
