(* C32 (deterministic progress core) — "once faults stop and a majority is up, the cluster elects a
   leader, accepts writes and applies every committed entry on every live voter within a bounded time"
   is a liveness statement over randomised timers and is not provable on these models.  What is proved
   here is the deterministic part that the bound rests on: under fair delivery every replication round
   strictly advances a lagging follower, so a follower that is [lag] entries behind a stable leader
   holds the leader's whole log after at most ceil(lag / cap) accepted rounds (cap = per-request entry
   limit, >= 1).

   Leader side: Repl.retrieve / Repl.build_request on the buffered log (BufLog.v) as coded, related to
   the plain log by C19 (Inv, entry_term_agree).  Follower side: PLog.p_filter_append, with C07's
   follower_agrees_upto_covered for the agreement after one request.

   RESTRICTION (stated in every theorem): the leader has not purged its log (pg_idx b = 0) and the
   follower has no purge boundary either (pb_idx F = 0); a peer behind the purge boundary is served by
   a snapshot, not by AppendEntries (Repl.leader_prepare routes it to [snaps]).  No axioms. *)
From Coq Require Import NArith List Bool Lia ZifyBool ZifyN.
From DE Require Import Val BufLog PLog Repl.
From DE.proofs Require Import C08 C07 C19.
Import ListNotations.
Open Scope N_scope.

(* NOTE on names: C19 (imported last) has a lemma called [contig_prefix]; the function of Repl.v is
   written [Repl.contig_prefix] below.  [lookup_some] and [contig_app] are C19's versions. *)

(* ------------------------------------------------------------------ *)
(* 0. slices of a contiguous list                                       *)
(* ------------------------------------------------------------------ *)
Lemma range_empty : forall l lo hi, hi < lo -> range l lo hi = [].
Proof.
  intros l lo hi Hlt. unfold range. induction l as [|x l IH]; [reflexivity|].
  cbn [filter]. destruct (in_range lo hi x) eqn:E; unfold in_range in E; [lia | exact IH].
Qed.

Lemma range_shift : forall l n lo hi, contig n l -> lo < n -> range l lo hi = range l n hi.
Proof.
  intros l n lo hi Hc Hlt. unfold range. apply filter_ext_in. intros e He.
  pose proof (contig_in _ _ _ Hc He) as Hr. unfold in_range.
  destruct (lo <=? e_idx e) eqn:E1; destruct (n <=? e_idx e) eqn:E2; try reflexivity; lia.
Qed.

(* the slice lo..hi of a contiguous list that covers it: contiguous from lo, hi + 1 - lo entries *)
Lemma range_contig : forall l n lo hi, contig n l -> n <= lo -> lo <= hi + 1 -> hi < n + len l ->
  contig lo (range l lo hi) /\ len (range l lo hi) = hi + 1 - lo.
Proof.
  induction l as [|x l IH]; intros n lo hi Hc Hn Hlo Hhi.
  - cbn [length] in Hhi. cbn [range filter contig length]. split; [exact I | lia].
  - destruct (N.eq_dec lo (hi + 1)) as [Heq | Hne].
    { rewrite range_empty by lia. cbn [contig length]. split; [exact I | lia]. }
    pose proof Hc as [Hx Hc']. rewrite len_cons in Hhi.
    unfold range. cbn [filter]. fold (range l lo hi).
    destruct (in_range lo hi x) eqn:E; unfold in_range in E.
    + assert (Hlo' : lo = n) by lia. subst lo.
      rewrite (range_shift l (n + 1) n hi Hc') by lia.
      destruct (IH (n + 1) (n + 1) hi Hc') as [I1 I2]; [lia | lia | lia |].
      cbn [contig]. rewrite len_cons, I2. split; [split; [exact Hx | exact I1] | lia].
    + apply (IH (n + 1)); [exact Hc' | lia | lia | lia].
Qed.

Lemma range_incl : forall l lo hi e, In e (range l lo hi) -> In e l /\ lo <= e_idx e <= hi.
Proof.
  intros l lo hi e He. unfold range in He. apply filter_In in He. destruct He as [He1 He2].
  unfold in_range in He2. split; [exact He1 | lia].
Qed.

(* ------------------------------------------------------------------ *)
(* 1. the leader's request for a lagging peer                           *)
(* ------------------------------------------------------------------ *)
(* facts about an unpurged leader log *)
Lemma leader_log_facts : forall b, Inv b -> p_wf (abs b) -> pg_idx b = 0 ->
  contig 1 (ents b) /\ bmax b = len (ents b) /\ p_last_idx (abs b) = bmax b.
Proof.
  intros b HI Hwf Hpg. destruct (wf_facts b Hwf) as [Hc _]. rewrite Hpg in Hc.
  destruct (bmax_facts b HI Hwf) as [B0 B1].
  destruct (ents b) as [|x l] eqn:E.
  - destruct B0 as [B0 _]; [reflexivity |]. split; [exact Hc |].
    unfold p_last_idx. cbn [abs pents pb_idx]. rewrite E, Hpg, B0. cbn [last_entry rev length].
    split; reflexivity.
  - rewrite <- E in *. destruct B1 as [_ [B1 B2]]; [rewrite E; discriminate |].
    split; [exact Hc |]. split; [lia | symmetry; exact B2].
Qed.

(* the heart-beat round (no new client entries) request for a peer whose next index is [next] *)
Definition hb_request (b : buf) (term commit cap next : N) : request :=
  build_request b term commit next (retrieve b [] (bmax b) cap next).

(* it is the request Repl.leader_prepare assembles for that peer in a round without client entries
   (an unpurged log never routes a peer to the snapshot path) *)
Lemma hb_request_is_leader_prepare : forall b cap term commit p next,
  Inv b -> p_wf (abs b) -> pg_idx b = 0 ->
  leader_prepare b cap term commit [(p, next)] [] = (b, [(p, hb_request b term commit cap next)], []).
Proof.
  intros b cap term commit p next HI Hwf Hpg.
  destruct (bmax_facts b HI Hwf) as [B0 B1].
  assert (Hmin : (1 <? bmin b) = false).
  { destruct (ents b) as [|x l] eqn:E.
    - destruct B0 as [_ B0]; [reflexivity |]. rewrite B0. reflexivity.
    - rewrite <- E in B1. destruct B1 as [B1 _]; [rewrite E; discriminate |]. rewrite B1, Hpg. reflexivity. }
  unfold leader_prepare, generate_new, hb_request. cbn [fold_right]. rewrite Hmin. reflexivity.
Qed.

Theorem request_nonempty_and_exact :
  forall b term commit cap next,
    Inv b -> p_wf (abs b) -> pg_idx b = 0 (* the leader has not purged *) ->
    1 <= cap -> 1 <= next -> next <= bmax b ->
    let r := build_request b term commit next (retrieve b [] (bmax b) cap next) in
    rq_prev r = next - 1 /\
    rq_entries r = range (ents b) next (N.min (bmax b) (next + cap - 1)) /\
    length (rq_entries r) = N.to_nat (N.min cap (bmax b - next + 1)) /\
    rq_entries r <> [] /\
    (next = 1 -> rq_pterm r = 0) /\
    (1 < next -> p_term_at (abs b) (next - 1) = Some (rq_pterm r)) /\
    built_from (abs b) (rq_prev r) (rq_pterm r) (rq_entries r).
Proof.
  intros b term commit cap next HI Hwf Hpg Hcap Hn1 Hn2 r.
  destruct (leader_log_facts b HI Hwf Hpg) as [Hc [Hlen _]].
  set (hi := N.min (bmax b) (next + cap - 1)).
  assert (Hret : retrieve b [] (bmax b) cap next = range (ents b) next hi).
  { unfold retrieve. rewrite app_nil_r.
    destruct (N.leb_spec next (bmax b)) as [_ | Hgt]; [| lia].
    subst hi. destruct (N.leb_spec cap (bmax b - next)) as [Hle | Hlt].
    - f_equal. lia.
    - f_equal. lia. }
  destruct (range_contig (ents b) 1 next hi Hc) as [Hrc Hrl]; [lia | subst hi; lia | subst hi; lia |].
  assert (Hent : rq_entries r = range (ents b) next hi).
  { subst r. unfold build_request. cbn [rq_entries]. rewrite Hret.
    replace (next - 1 + 1) with next by lia. apply contig_prefix_id. exact Hrc. }
  assert (Hprev : rq_prev r = next - 1) by reflexivity.
  assert (Hpt : rq_pterm r = match p_term_at (abs b) (next - 1) with Some t => t | None => 0 end).
  { subst r. unfold build_request. cbn [rq_pterm]. rewrite (entry_term_agree b (next - 1) HI Hwf). reflexivity. }
  assert (Hl : length (rq_entries r) = N.to_nat (N.min cap (bmax b - next + 1))).
  { rewrite Hent. rewrite <- (Nat2N.id (length (range (ents b) next hi))). f_equal.
    rewrite Hrl. subst hi. lia. }
  assert (Hp1 : next = 1 -> rq_pterm r = 0).
  { intros ->. rewrite Hpt. unfold p_term_at. cbn [abs pb_idx pb_term pents]. rewrite Hpg.
    change (1 - 1) with 0.
    rewrite (lookup_contig_none (ents b) 1 0 Hc) by lia. reflexivity. }
  assert (Hp2 : 1 < next -> p_term_at (abs b) (next - 1) = Some (rq_pterm r)).
  { intros Hgt. rewrite Hpt. unfold p_term_at. cbn [abs pb_idx pb_term pents].
    destruct (lookup_contig (ents b) 1 (next - 1) Hc) as [e [E1 _]]; [lia |].
    rewrite E1. reflexivity. }
  split; [exact Hprev |]. split; [exact Hent |]. split; [exact Hl |].
  split.
  { intros Hnil. rewrite Hnil in Hl. cbn [length] in Hl. lia. }
  split; [exact Hp1 |]. split; [exact Hp2 |].
  unfold built_from. rewrite Hprev, Hent.
  split; [replace (next - 1 + 1) with next by lia; exact Hrc |].
  split.
  - intros e He. apply range_incl in He. destruct He as [He _].
    unfold p_entry. cbn [abs pents]. apply (lookup_in_contig _ _ _ Hc He).
  - destruct (N.eq_dec next 1) as [-> | Hne].
    + left. split; [reflexivity | apply Hp1; reflexivity].
    + right. split; [lia | apply Hp2; lia].
Qed.

(* the request is Raft-shaped on the term side too (needed for well-formedness of the follower log
   after the request, C19.p_filter_append_gapfree) *)
Lemma request_terms_mono :
  forall b term commit cap next,
    Inv b -> p_wf (abs b) -> pg_idx b = 0 -> 1 <= cap -> 1 <= next -> next <= bmax b ->
    let r := build_request b term commit next (retrieve b [] (bmax b) cap next) in
    terms_mono (N.max 1 (rq_pterm r)) (rq_entries r) /\ (rq_prev r = 0 -> rq_pterm r = 0).
Proof.
  intros b term commit cap next HI Hwf Hpg Hcap Hn1 Hn2 r.
  destruct (request_nonempty_and_exact b term commit cap next HI Hwf Hpg Hcap Hn1 Hn2)
    as [Hprev [Hent [_ [_ [Hp1 [Hp2 _]]]]]]. fold r in Hprev, Hent, Hp1, Hp2.
  destruct (leader_log_facts b HI Hwf Hpg) as [Hc _].
  pose proof Hwf as [_ [Hm _]]. cbn [abs pb_idx pb_term pents] in Hm.
  split.
  - rewrite Hent. unfold range. apply (tm_filter_lo _ _ (N.max 1 (pg_term b))); [| exact Hm].
    intros e He Hr. unfold in_range in Hr.
    pose proof (tm_in _ _ _ Hm He) as H1e.
    destruct (N.eq_dec next 1) as [Heq | Hne].
    + rewrite (Hp1 Heq). lia.
    + assert (Hgt : 1 < next) by lia. specialize (Hp2 Hgt).
      destruct (pta_some_in (abs b) (next - 1) (rq_pterm r)) as [e0 [E1 [E2 E3]]];
        [cbn [abs pb_idx]; lia | exact Hp2 |].
      cbn [abs pents] in E1.
      assert (Hord : e_term e0 <= e_term e)
        by (apply (tm_ordered (ents b) 1 (N.max 1 (pg_term b)) e0 e Hc Hm E1 He); lia).
      lia.
  - intros H0. apply Hp1. rewrite Hprev in H0. lia.
Qed.

(* ------------------------------------------------------------------ *)
(* 2. one accepted round strictly advances the follower                 *)
(* ------------------------------------------------------------------ *)
Lemma p_filter_append_pb : forall p prev pterm es,
  pb_idx (fst (p_filter_append p prev pterm es)) = pb_idx p.
Proof.
  intros p prev pterm es. unfold p_filter_append.
  destruct (p_prev_matches p prev pterm); [| reflexivity].
  destruct (drop_agreeing p es); reflexivity.
Qed.

Theorem round_advances :
  forall b term commit cap next F,
    Inv b -> p_wf (abs b) -> pg_idx b = 0 (* leader: nothing purged *) ->
    1 <= cap -> 1 <= next -> next <= bmax b ->
    p_wf F -> pb_idx F = 0 (* follower: nothing purged *) ->
    agree_upto F (abs b) (next - 1) -> same_term_same_entry F (abs b) ->
    (1 < next -> exists e, p_entry F (next - 1) = Some e) ->
    let r := build_request b term commit next (retrieve b [] (bmax b) cap next) in
    let F' := fst (p_filter_append F (rq_prev r) (rq_pterm r) (rq_entries r)) in
    let n := len (rq_entries r) in
    p_prev_matches F (rq_prev r) (rq_pterm r) = true /\
    1 <= n /\ n = N.min cap (bmax b - next + 1) /\
    agree_upto F' (abs b) (next - 1 + n) /\
    (forall i, 1 <= i -> i <= next - 1 + n ->
               exists e, p_entry F' i = Some e /\ p_entry (abs b) i = Some e) /\
    p_wf F' /\ pb_idx F' = 0 /\ next - 1 + n <= p_last_idx F'.
Proof.
  intros b term commit cap next F HI Hwf Hpg Hcap Hn1 Hn2 HwfF HpbF Ha Hs Hheld r F' n.
  destruct (request_nonempty_and_exact b term commit cap next HI Hwf Hpg Hcap Hn1 Hn2)
    as [Hprev [Hent [Hl [Hne [Hp1 [Hp2 Hbf]]]]]]. fold r in Hprev, Hent, Hl, Hne, Hp1, Hp2, Hbf.
  destruct (request_terms_mono b term commit cap next HI Hwf Hpg Hcap Hn1 Hn2) as [Htm Hz].
  fold r in Htm, Hz.
  destruct (leader_log_facts b HI Hwf Hpg) as [Hc [Hlen HlastL]].
  assert (Hn : n = N.min cap (bmax b - next + 1)) by (subst n; rewrite Hl; lia).
  (* prev matches on the follower *)
  assert (Hpm : p_prev_matches F (rq_prev r) (rq_pterm r) = true).
  { unfold p_prev_matches. destruct (N.eq_dec next 1) as [Heq | Hneq].
    - rewrite Hprev, (Hp1 Heq), Heq. reflexivity.
    - assert (Hgt : 1 < next) by lia. destruct (Hheld Hgt) as [e He].
      assert (HeL : p_entry (abs b) (next - 1) = Some e).
      { rewrite <- He. symmetry. apply Ha; [lia | lia | cbn [abs pb_idx]; lia]. }
      specialize (Hp2 Hgt). unfold p_term_at in Hp2. unfold p_entry in HeL. rewrite HeL in Hp2.
      injection Hp2 as Hp2.
      rewrite Hprev. unfold p_term_at. unfold p_entry in He. rewrite He.
      rewrite Hp2, N.eqb_refl. apply orb_true_r. }
  assert (Hp0 : rq_prev r = 0 -> pb_idx F = 0) by (intros _; exact HpbF).
  (* agreement up to the covered index: C07 *)
  pose proof (follower_agrees_upto_covered F (abs b) (rq_prev r) (rq_pterm r) (rq_entries r)
                HwfF Hwf Hbf) as Hcov.
  rewrite Hprev in Hcov at 1. specialize (Hcov Ha Hs Hpm Hp0). cbv zeta in Hcov.
  fold F' in Hcov. rewrite Hprev in Hcov. fold n in Hcov.
  (* well-formedness of the new follower log: C19 *)
  destruct (p_filter_append_gapfree F (rq_prev r) (rq_pterm r) (rq_entries r) HwfF) as [HwfF' _];
    [destruct Hbf as [Hbc _]; exact Hbc | exact Htm | exact Hz | exact Hpm | exact Hp0 |].
  fold F' in HwfF'.
  assert (HpbF' : pb_idx F' = 0) by (subst F'; rewrite p_filter_append_pb; exact HpbF).
  assert (Hhold : forall i, 1 <= i -> i <= next - 1 + n ->
                    exists e, p_entry F' i = Some e /\ p_entry (abs b) i = Some e).
  { intros i Hi1 Hi2.
    destruct (lookup_contig (ents b) 1 i Hc) as [e [E1 _]]; [lia |].
    exists e. split; [| exact E1].
    rewrite (Hcov i Hi2); [exact E1 | lia | cbn [abs pb_idx]; lia]. }
  split; [exact Hpm |]. split; [lia |]. split; [exact Hn |]. split; [exact Hcov |].
  split; [exact Hhold |]. split; [exact HwfF' |]. split; [exact HpbF' |].
  destruct HwfF' as [HcF' _]. rewrite (p_last_idx_len F' HcF'), HpbF'. rewrite HpbF' in HcF'.
  destruct (Hhold (next - 1 + n)) as [e [E1 _]]; [lia | lia |].
  unfold p_entry in E1. apply lookup_some in E1. destruct E1 as [E1 E2].
  pose proof (contig_in _ _ _ HcF' E1). lia.
Qed.

(* ------------------------------------------------------------------ *)
(* 3. catching up: ceil(lag / cap) rounds                               *)
(* ------------------------------------------------------------------ *)
(* one round: the leader sends the heart-beat request for next := (follower's last index) + 1, the
   follower applies it *)
Definition round (b : buf) (term commit cap : N) (F : plog) : plog :=
  let r := hb_request b term commit cap (p_last_idx F + 1) in
  fst (p_filter_append F (rq_prev r) (rq_pterm r) (rq_entries r)).

Fixpoint iterate (b : buf) (term commit cap : N) (k : nat) (F : plog) : plog :=
  match k with
  | O => F
  | S k' => round b term commit cap (iterate b term commit cap k' F)
  end.

(* the loop invariant *)
Definition CInv (b : buf) (F : plog) (a : N) : Prop :=
  p_wf F /\ pb_idx F = 0 /\ p_last_idx F = a /\ a <= bmax b /\
  agree_upto F (abs b) a /\ same_term_same_entry F (abs b).

(* a follower that agrees with the leader on everything it holds satisfies the second half of Log
   Matching trivially *)
Lemma agree_all_same_term : forall F L,
  p_wf F -> pb_idx F = 0 -> pb_idx L = 0 -> agree_upto F L (p_last_idx F) -> same_term_same_entry F L.
Proof.
  intros F L HwfF HpbF HpbL Ha i e e' HF HL _.
  destruct HwfF as [HcF _]. pose proof (p_last_idx_len F HcF) as Hlast. rewrite HpbF in HcF, Hlast.
  pose proof HF as HF'. unfold p_entry in HF'. apply lookup_some in HF'. destruct HF' as [Hin Hidx].
  pose proof (contig_in _ _ _ HcF Hin) as Hr.
  assert (Heq : p_entry F i = p_entry L i) by (apply Ha; lia).
  rewrite HF, HL in Heq. injection Heq as Heq. exact Heq.
Qed.

(* a follower with nothing beyond prev simply appends the request *)
Lemma nothing_beyond_append : forall F prev pterm es,
  p_wf F -> pb_idx F = 0 -> p_prev_matches F prev pterm = true -> contig (p_last_idx F + 1) es ->
  pents (fst (p_filter_append F prev pterm es)) = pents F ++ es.
Proof.
  intros F prev pterm es HwfF HpbF Hpm Hc. destruct HwfF as [HcF _].
  pose proof (p_last_idx_len F HcF) as Hlast. rewrite HpbF in HcF, Hlast.
  unfold p_filter_append. rewrite Hpm. destruct es as [|d rest].
  - cbn [drop_agreeing fst]. rewrite app_nil_r. reflexivity.
  - pose proof Hc as [Hd _]. cbn [drop_agreeing].
    assert (Hnone : p_term_at F (e_idx d) = None).
    { unfold p_term_at. rewrite (lookup_contig_none (pents F) 1 (e_idx d) HcF) by lia.
      rewrite HpbF. reflexivity. }
    rewrite Hnone. cbn [fst pents]. f_equal. apply filter_lt_all.
    intros e He. pose proof (contig_in _ _ _ HcF He). lia.
Qed.

(* when the follower already holds the whole log the request is empty and nothing changes *)
Lemma round_idle : forall b term commit cap F, bmax b <= p_last_idx F -> round b term commit cap F = F.
Proof.
  intros b term commit cap F Hle. unfold round, hb_request, build_request, retrieve.
  cbn [rq_prev rq_pterm rq_entries].
  destruct (N.leb_spec (p_last_idx F + 1) (bmax b)) as [Hc | _]; [lia |].
  cbn [app Repl.contig_prefix]. unfold p_filter_append.
  destruct (p_prev_matches F _ _); reflexivity.
Qed.

Lemma round_step : forall b term commit cap F a,
  Inv b -> p_wf (abs b) -> pg_idx b = 0 -> 1 <= cap ->
  CInv b F a -> CInv b (round b term commit cap F) (N.min (bmax b) (a + cap)).
Proof.
  intros b term commit cap F a HI Hwf Hpg Hcap [HwfF [HpbF [Hlast [Hab [Ha Hs]]]]].
  destruct (N.eq_dec a (bmax b)) as [Heq | Hneq].
  - rewrite round_idle by lia. replace (N.min (bmax b) (a + cap)) with a by lia.
    exact (conj HwfF (conj HpbF (conj Hlast (conj Hab (conj Ha Hs))))).
  - assert (Hn1 : 1 <= a + 1) by lia. assert (Hn2 : a + 1 <= bmax b) by lia.
    pose proof HwfF as [HcF _]. pose proof (p_last_idx_len F HcF) as HlenF.
    rewrite HpbF in HcF, HlenF.
    assert (Ha' : agree_upto F (abs b) (a + 1 - 1)) by (replace (a + 1 - 1) with a by lia; exact Ha).
    assert (Hheld : 1 < a + 1 -> exists e, p_entry F (a + 1 - 1) = Some e).
    { intros Hgt. destruct (lookup_contig (pents F) 1 (a + 1 - 1) HcF) as [e [E1 _]]; [lia |].
      exists e. exact E1. }
    destruct (round_advances b term commit cap (a + 1) F HI Hwf Hpg Hcap Hn1 Hn2 HwfF HpbF Ha' Hs Hheld)
      as [Hpm [Hn0 [Hn [Hcov [_ [HwfF' [HpbF' _]]]]]]].
    destruct (request_nonempty_and_exact b term commit cap (a + 1) HI Hwf Hpg Hcap Hn1 Hn2)
      as [_ [_ [_ [_ [_ [_ [Hbc _]]]]]]].
    unfold round, hb_request. rewrite Hlast.
    set (r := build_request b term commit (a + 1) (retrieve b [] (bmax b) cap (a + 1))) in *.
    set (F' := fst (p_filter_append F (rq_prev r) (rq_pterm r) (rq_entries r))) in *.
    assert (Hpe : pents F' = pents F ++ rq_entries r).
    { subst F'. apply nothing_beyond_append; [exact HwfF | exact HpbF | exact Hpm |].
      rewrite Hlast. replace (rq_prev r) with (a + 1 - 1) in Hbc by reflexivity.
      replace (a + 1 - 1 + 1) with (a + 1) in Hbc by lia. exact Hbc. }
    assert (HlastF' : p_last_idx F' = a + len (rq_entries r)).
    { destruct HwfF' as [HcF' _]. rewrite (p_last_idx_len F' HcF'), HpbF', Hpe, len_app. lia. }
    assert (Hnew : a + len (rq_entries r) = N.min (bmax b) (a + cap)) by lia.
    replace (a + 1 - 1 + len (rq_entries r)) with (a + len (rq_entries r)) in Hcov by lia.
    rewrite <- Hnew. unfold CInv.
    split; [exact HwfF' |]. split; [exact HpbF' |]. split; [exact HlastF' |]. split; [lia |].
    split; [exact Hcov |].
    apply agree_all_same_term; [exact HwfF' | exact HpbF' | exact Hpg |].
    rewrite HlastF'. exact Hcov.
Qed.

Lemma iterate_inv : forall b term commit cap F a0,
  Inv b -> p_wf (abs b) -> pg_idx b = 0 -> 1 <= cap -> CInv b F a0 ->
  forall k, CInv b (iterate b term commit cap k F) (N.min (bmax b) (a0 + N.of_nat k * cap)).
Proof.
  intros b term commit cap F a0 HI Hwf Hpg Hcap H0 k. induction k as [|k IH].
  - cbn [iterate]. change (N.of_nat 0) with 0. rewrite N.mul_0_l, N.add_0_r.
    pose proof H0 as [_ [_ [_ [Hab _]]]]. replace (N.min (bmax b) a0) with a0 by lia. exact H0.
  - cbn [iterate].
    pose proof (round_step b term commit cap _ _ HI Hwf Hpg Hcap IH) as Hstep.
    rewrite Nat2N.inj_succ, N.mul_succ_l.
    replace (N.min (bmax b) (a0 + (N.of_nat k * cap + cap)))
      with (N.min (bmax b) (N.min (bmax b) (a0 + N.of_nat k * cap) + cap)) by lia.
    exact Hstep.
Qed.

(* a follower that agrees with the unpurged leader on everything up to the leader's last index, and
   has exactly that many entries, holds the leader's log *)
Lemma agree_full_eq : forall b F,
  Inv b -> p_wf (abs b) -> pg_idx b = 0 -> CInv b F (bmax b) -> pents F = pents (abs b).
Proof.
  intros b F HI Hwf Hpg [HwfF [HpbF [Hlast [_ [Ha _]]]]].
  destruct (leader_log_facts b HI Hwf Hpg) as [Hc [Hlen _]].
  destruct HwfF as [HcF _]. pose proof (p_last_idx_len F HcF) as HlenF. rewrite HpbF in HcF, HlenF.
  cbn [abs pents].
  assert (Hl : length (pents F) = length (ents b)) by lia.
  rewrite (C19.contig_prefix (pents F) (ents b) 1 HcF Hc).
  - rewrite Hl. apply firstn_all.
  - intros e He. pose proof (contig_in _ _ _ HcF He) as Hr.
    assert (Heq : p_entry F (e_idx e) = p_entry (abs b) (e_idx e))
      by (apply Ha; [lia | lia | cbn [abs pb_idx]; lia]).
    unfold p_entry in Heq. cbn [abs pents] in Heq.
    rewrite (lookup_in_contig _ _ _ HcF He) in Heq. symmetry in Heq.
    apply lookup_some in Heq. destruct Heq as [Heq _]. exact Heq.
Qed.

Theorem catchup_rounds :
  forall b term commit cap F a0,
    Inv b -> p_wf (abs b) -> pg_idx b = 0 (* leader: nothing purged *) -> 1 <= cap ->
    p_wf F -> pb_idx F = 0 (* follower: nothing purged *) ->
    p_last_idx F = a0 -> a0 <= bmax b -> agree_upto F (abs b) a0 ->
    (* after k rounds: agreement and last index at min(bmax, a0 + k * cap); the rest of the loop
       invariant is kept too *)
    (forall k, let Fk := iterate b term commit cap k F in
               let ak := N.min (bmax b) (a0 + N.of_nat k * cap) in
               agree_upto Fk (abs b) ak /\ p_last_idx Fk = ak /\
               p_wf Fk /\ pb_idx Fk = 0 /\ same_term_same_entry Fk (abs b)) /\
    (* hence ceil((bmax b - a0) / cap) rounds are enough to hold the leader's whole log *)
    (forall k, bmax b - a0 <= N.of_nat k * cap ->
               pents (iterate b term commit cap k F) = pents (abs b)).
Proof.
  intros b term commit cap F a0 HI Hwf Hpg Hcap HwfF HpbF Hlast Hab Ha.
  assert (H0 : CInv b F a0).
  { unfold CInv. split; [exact HwfF |]. split; [exact HpbF |]. split; [exact Hlast |].
    split; [exact Hab |]. split; [exact Ha |].
    apply agree_all_same_term; [exact HwfF | exact HpbF | exact Hpg | rewrite Hlast; exact Ha]. }
  pose proof (iterate_inv b term commit cap F a0 HI Hwf Hpg Hcap H0) as Hk.
  split.
  - intros k Fk ak. destruct (Hk k) as [K1 [K2 [K3 [_ [K5 K6]]]]]. fold Fk ak in K1, K2, K3, K5, K6.
    exact (conj K5 (conj K3 (conj K1 (conj K2 K6)))).
  - intros k Hle. apply (agree_full_eq b _ HI Hwf Hpg).
    pose proof (Hk k) as Hkk.
    replace (N.min (bmax b) (a0 + N.of_nat k * cap)) with (bmax b) in Hkk by lia.
    exact Hkk.
Qed.

(* ------------------------------------------------------------------ *)
(* 4. a concrete run                                                    *)
(* ------------------------------------------------------------------ *)
(* leader: 7 entries over the terms 1, 2, 3, built through the buffered log's append path *)
Definition ex_es : list entry :=
  [mk 1 1 101; mk 2 1 102; mk 3 1 103; mk 4 2 204; mk 5 2 205; mk 6 3 306; mk 7 3 307].
Definition ex_b : buf := b_append buf0 ex_es.
(* follower: holds the first two entries *)
Definition ex_F : plog := {| pb_idx := 0; pb_term := 0; pents := [mk 1 1 101; mk 2 1 102] |}.
(* what is seen of a request: prev, prev term, indexes carried *)
Definition req_view (r : request) : N * N * list N := (rq_prev r, rq_pterm r, map e_idx (rq_entries r)).

(* leader term 3, commit 0, cap = 3: lag = 5, so ceil(5 / 3) = 2 rounds carry [3;4;5] and [6;7]; the
   third round is a pure heart-beat (empty request) and changes nothing *)
Example catchup_example :
  let it k := iterate ex_b 3 0 3 k ex_F in
  let rq k := req_view (hb_request ex_b 3 0 3 (p_last_idx (it k) + 1)) in
  rq 0%nat = (2, 1, [3; 4; 5]) /\ pents (it 1%nat) = firstn 5 ex_es /\
  rq 1%nat = (5, 2, [6; 7])    /\ pents (it 2%nat) = ex_es /\
  rq 2%nat = (7, 3, [])        /\ pents (it 3%nat) = ex_es /\
  pents (it 1%nat) <> pents (abs ex_b) /\
  pents (it 2%nat) = pents (abs ex_b).
Proof.
  vm_compute. repeat split; try reflexivity. intro H; discriminate H.
Qed.

(* an empty follower lags by 7: exactly ceil(7 / 3) = 3 rounds, carrying [1;2;3], [4;5;6], [7]; two
   rounds are not enough, so the bound of catchup_rounds is tight here *)
Example catchup_example_three_rounds :
  let it k := iterate ex_b 3 0 3 k plog0 in
  let rq k := req_view (hb_request ex_b 3 0 3 (p_last_idx (it k) + 1)) in
  rq 0%nat = (0, 0, [1; 2; 3]) /\ pents (it 1%nat) = firstn 3 ex_es /\
  rq 1%nat = (3, 1, [4; 5; 6]) /\ pents (it 2%nat) = firstn 6 ex_es /\
  rq 2%nat = (6, 3, [7])       /\ pents (it 3%nat) = ex_es /\
  pents (it 2%nat) <> pents (abs ex_b) /\
  pents (it 3%nat) = pents (abs ex_b).
Proof.
  vm_compute. repeat split; try reflexivity. intro H; discriminate H.
Qed.

(* the hypotheses of the theorems hold for this leader and follower (non-vacuity), and the general
   bound gives the same answer: 7 - 2 <= 2 * 3 *)
Lemma ex_b_ok : Inv ex_b /\ p_wf (abs ex_b) /\ pg_idx ex_b = 0.
Proof.
  destruct Inv_buf0 as [HI0 Hwf0].
  assert (Hsh : shaped (abs buf0) (OAppend ex_es)).
  { unfold shaped. split; [discriminate |]. shape_lists. s_bounded. }
  destruct (refine_step buf0 (OAppend ex_es) HI0 Hwf0 Hsh) as [R1 [R2 _]].
  split; [exact R1 |]. split; [exact R2 | reflexivity].
Qed.

Example catchup_example_by_theorem : pents (iterate ex_b 3 0 3 2 ex_F) = pents (abs ex_b).
Proof.
  destruct ex_b_ok as [HI [Hwf Hpg]].
  assert (HwfF : p_wf ex_F) by (unfold p_wf; vm_compute; repeat split; discriminate).
  assert (Ha : agree_upto ex_F (abs ex_b) 2).
  { intros i Hi HF HL. cbn [pb_idx ex_F] in HF.
    assert (Hcases : i = 1 \/ i = 2) by lia.
    destruct Hcases as [-> | ->]; vm_compute; reflexivity. }
  destruct (catchup_rounds ex_b 3 0 3 ex_F 2 HI Hwf Hpg) as [_ Hfin];
    [lia | exact HwfF | reflexivity | reflexivity | vm_compute; discriminate | exact Ha |].
  apply Hfin. vm_compute. discriminate.
Qed.

Print Assumptions request_nonempty_and_exact.
Print Assumptions round_advances.
Print Assumptions catchup_rounds.
Print Assumptions catchup_example.
Print Assumptions catchup_example_by_theorem.
