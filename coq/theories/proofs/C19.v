(* C19 — the buffered log (BufLog.v, "as coded") refines the plain log (PLog.v) on Raft-shaped
   operation sequences; plus the follower half of C08 on the plain log.

   NOTE: compiles against PLog.v.proposed (not the original PLog.v).  Three corrections of the spec
   were necessary, all marked "CHANGED (C19)" there:
     1. p_wf gets a third conjunct  pb_idx p = 0 -> pb_term p = 0 ;
     2. shaped (OPurge cidx _) additionally requires 1 <= cidx ;
     3. shaped (OAppend es) / shaped (OFilter _ _ es) additionally require idx_bounded es
        (every index <= U64_MAX = 2^64-1).
   Main results: Inv_buf0, answers_agree, refine_step, refine_run, p_filter_append_gapfree,
   demo_shaped (non-vacuity).  No axioms. *)
From Coq Require Import NArith List Bool Lia ZifyBool ZifyN.
From DE Require Import Val BufLog PLog.
Import ListNotations.
Open Scope N_scope.
Arguments N.add : simpl never.
Arguments N.sub : simpl never.
Arguments N.ltb : simpl never.
Arguments N.leb : simpl never.
Arguments N.eqb : simpl never.
Arguments N.max : simpl never.
Arguments N.min : simpl never.
Arguments N.of_nat : simpl never.

Notation len l := (N.of_nat (length l)).

(* ------------------------------------------------------------------ *)
(* 1. contiguous lists                                                  *)
(* ------------------------------------------------------------------ *)
Lemma len_cons {A} (x : A) l : len (x :: l) = 1 + len l.
Proof. cbn [length]. lia. Qed.
Lemma len_app {A} (l1 l2 : list A) : len (l1 ++ l2) = len l1 + len l2.
Proof. rewrite app_length. lia. Qed.

Lemma contig_in : forall l n e, contig n l -> In e l -> n <= e_idx e < n + len l.
Proof.
  induction l as [|x l IH]; intros n e Hc Hin; [easy|].
  cbn [contig] in Hc. destruct Hc as [Hx Hc]. rewrite len_cons.
  destruct Hin as [->|Hin]; [lia|]. specialize (IH _ _ Hc Hin). lia.
Qed.

Lemma contig_app : forall l1 l2 n, contig n (l1 ++ l2) <-> contig n l1 /\ contig (n + len l1) l2.
Proof.
  induction l1 as [|x l1 IH]; intros l2 n; cbn [app contig].
  - replace (n + len []) with n by (cbn; lia). tauto.
  - rewrite IH, len_cons. replace (n + (1 + len l1)) with (n + 1 + len l1) by lia. tauto.
Qed.

Lemma lookup_some : forall l i e, lookup l i = Some e -> In e l /\ e_idx e = i.
Proof. intros l i e H. apply find_some in H. destruct H as [H1 H2]. split; [easy|lia]. Qed.

Lemma lookup_none : forall l i e, lookup l i = None -> In e l -> e_idx e <> i.
Proof. intros l i e H Hin. pose proof (find_none _ _ H _ Hin) as H1. cbn in H1. lia. Qed.

Lemma contig_unique : forall l n e e', contig n l -> In e l -> In e' l -> e_idx e = e_idx e' -> e = e'.
Proof.
  induction l as [|x l IH]; intros n e e' Hc H1 H2 Heq; [easy|].
  destruct Hc as [Hx Hc].
  destruct H1 as [<-|H1], H2 as [<-|H2]; try easy.
  - pose proof (contig_in _ _ _ Hc H2). lia.
  - pose proof (contig_in _ _ _ Hc H1). lia.
  - eapply IH; eauto.
Qed.

Lemma lookup_in_contig : forall l n e, contig n l -> In e l -> lookup l (e_idx e) = Some e.
Proof.
  induction l as [|x l IH]; intros n e Hc Hin; [easy|].
  destruct Hc as [Hx Hc]. unfold lookup. cbn [find].
  destruct Hin as [->|Hin].
  - rewrite N.eqb_refl. reflexivity.
  - pose proof (contig_in _ _ _ Hc Hin).
    destruct (e_idx x =? e_idx e) eqn:E; [lia|]. eapply IH; eauto.
Qed.

Lemma contig_nth : forall l n i, contig n l -> n <= i < n + len l -> exists e, In e l /\ e_idx e = i.
Proof.
  induction l as [|x l IH]; intros n i Hc Hi.
  - cbn in Hi. lia.
  - destruct Hc as [Hx Hc]. rewrite len_cons in Hi.
    destruct (N.eq_dec i n) as [->|Hne].
    + exists x. split; [now left|easy].
    + destruct (IH (n + 1) i Hc) as [e [He1 He2]]; [lia|]. exists e. split; [now right|easy].
Qed.

Lemma lookup_contig : forall l n i, contig n l -> n <= i < n + len l ->
  exists e, lookup l i = Some e /\ In e l /\ e_idx e = i.
Proof.
  intros l n i Hc Hi. destruct (contig_nth _ _ _ Hc Hi) as [e [He1 He2]].
  exists e. subst i. split; [eapply lookup_in_contig; eauto|easy].
Qed.

Lemma lookup_contig_none : forall l n i, contig n l -> ~ (n <= i < n + len l) -> lookup l i = None.
Proof.
  intros l n i Hc Hi. destruct (lookup l i) as [e|] eqn:E; [|easy].
  apply lookup_some in E. destruct E as [E1 E2]. pose proof (contig_in _ _ _ Hc E1). lia.
Qed.

Lemma front_idx_contig : forall l n, contig n l -> l <> [] -> front_idx l = n.
Proof. intros [|x l] n Hc Hne; [easy|]. destruct Hc. easy. Qed.

Lemma last_entry_app : forall l e, last_entry (l ++ [e]) = Some e.
Proof. intros. unfold last_entry. rewrite rev_unit. reflexivity. Qed.

Lemma last_entry_nil_iff : forall l, last_entry l = None <-> l = [].
Proof.
  intros l. unfold last_entry. split.
  - destruct (rev l) eqn:E; [|easy]. intros _. apply (f_equal (@rev _)) in E. rewrite rev_involutive in E. easy.
  - intros ->. reflexivity.
Qed.

Lemma back_idx_last : forall l, back_idx l = match last_entry l with Some e => e_idx e | None => 0 end.
Proof. intros. unfold back_idx, last_entry. destruct (rev l); reflexivity. Qed.

Lemma last_entry_app_ne : forall l1 l2, l2 <> [] -> last_entry (l1 ++ l2) = last_entry l2.
Proof.
  intros l1 l2 Hne. destruct (exists_last Hne) as [l' [a ->]].
  rewrite app_assoc, !last_entry_app. reflexivity.
Qed.

Lemma last_entry_contig : forall l n, contig n l -> l <> [] ->
  exists e, last_entry l = Some e /\ In e l /\ e_idx e + 1 = n + len l.
Proof.
  intros l n Hc Hne. destruct (exists_last Hne) as [l' [a ->]].
  exists a. rewrite last_entry_app. split; [easy|]. split; [apply in_or_app; right; now left|].
  apply contig_app in Hc. destruct Hc as [_ [Ha _]]. rewrite len_app. cbn [length]. lia.
Qed.

Lemma back_idx_contig : forall l n, contig n l -> l <> [] -> back_idx l + 1 = n + len l.
Proof.
  intros l n Hc Hne. destruct (last_entry_contig _ _ Hc Hne) as [e [E1 [_ E2]]].
  rewrite back_idx_last, E1. easy.
Qed.

Lemma skipn_last_entry : forall (l : list entry) k, skipn k l <> [] -> last_entry (skipn k l) = last_entry l.
Proof.
  intros l k Hne. rewrite <- (firstn_skipn k l) at 2. symmetry. apply last_entry_app_ne. easy.
Qed.

(* filters of a contiguous list by an index threshold *)
Lemma filter_lt_nil : forall l n m, contig n l -> m <= n -> filter (fun e => e_idx e <? m) l = [].
Proof.
  induction l as [|x l IH]; intros n m Hc Hm; [easy|]. destruct Hc as [Hx Hc]. cbn [filter].
  destruct (e_idx x <? m) eqn:E; [lia|]. eapply IH; eauto. lia.
Qed.

Lemma filter_lt_all : forall l m, (forall e, In e l -> e_idx e < m) -> filter (fun e => e_idx e <? m) l = l.
Proof.
  induction l as [|x l IH]; intros m H; [easy|]. cbn [filter].
  pose proof (H x (or_introl eq_refl)). destruct (e_idx x <? m) eqn:E; [|lia].
  f_equal. apply IH. intros. apply H. now right.
Qed.

Lemma contig_filter_lt_app : forall l n m D, contig n l -> n <= m <= n + len l -> contig m D ->
  contig n (filter (fun e => e_idx e <? m) l ++ D).
Proof.
  induction l as [|x l IH]; intros n m D Hc Hm HD.
  - cbn in *. replace n with m by lia. easy.
  - pose proof Hc as Hc0. destruct Hc as [Hx Hc]. rewrite len_cons in Hm. cbn [filter].
    destruct (e_idx x <? m) eqn:E.
    + cbn [app contig]. split; [easy|]. apply IH; auto. lia.
    + rewrite (filter_lt_nil l (n + 1) m) by (auto; lia). cbn [app]. replace n with m by lia. easy.
Qed.

Lemma filter_gt_contig : forall l n c, contig n l -> n <= c + 1 ->
  contig (c + 1) (filter (fun e => c <? e_idx e) l).
Proof.
  induction l as [|x l IH]; intros n c Hc Hn; [easy|]. pose proof Hc as Hc0. destruct Hc as [Hx Hc].
  cbn [filter]. destruct (c <? e_idx x) eqn:E.
  - assert (c + 1 = n) as -> by lia.
    assert (filter (fun e => c <? e_idx e) l = l) as ->; [|easy].
    clear IH. assert (forall e, In e l -> c < e_idx e) as H.
    { intros e He. pose proof (contig_in _ _ _ Hc He). lia. }
    clear -H. induction l as [|y l IH]; [easy|]. cbn [filter].
    pose proof (H y (or_introl eq_refl)). destruct (c <? e_idx y) eqn:E; [|lia].
    f_equal. apply IH. intros. apply H. now right.
  - eapply IH; eauto. lia.
Qed.

(* ------------------------------------------------------------------ *)
(* 2. non-decreasing terms                                              *)
(* ------------------------------------------------------------------ *)
Lemma tm_weaken : forall l lo lo', lo' <= lo -> terms_mono lo l -> terms_mono lo' l.
Proof. intros [|x l] lo lo' H Hm; [easy|]. destruct Hm. split; [lia|easy]. Qed.

Lemma tm_in : forall l lo e, terms_mono lo l -> In e l -> lo <= e_term e.
Proof.
  induction l as [|x l IH]; intros lo e Hm Hin; [easy|]. destruct Hm as [H1 H2].
  destruct Hin as [->|Hin]; [easy|]. specialize (IH _ _ H2 Hin). lia.
Qed.

Lemma tm_app : forall l1 l2 lo t, terms_mono lo l1 -> (forall e, In e l1 -> e_term e <= t) -> lo <= t ->
  terms_mono t l2 -> terms_mono lo (l1 ++ l2).
Proof.
  induction l1 as [|x l1 IH]; intros l2 lo t H1 H2 H3 H4; cbn [app].
  - eapply tm_weaken; eauto.
  - destruct H1 as [Ha Hb]. split; [easy|]. eapply IH; eauto.
    + intros. apply H2. now right.
    + apply H2. now left.
Qed.

Lemma tm_filter : forall f l lo, terms_mono lo l -> terms_mono lo (filter f l).
Proof.
  induction l as [|x l IH]; intros lo H; [easy|]. destruct H as [H1 H2]. cbn [filter].
  destruct (f x).
  - split; [easy|]. apply IH; easy.
  - apply IH. eapply tm_weaken; eauto.
Qed.

Lemma tm_ordered : forall l n lo e e', contig n l -> terms_mono lo l -> In e l -> In e' l ->
  e_idx e <= e_idx e' -> e_term e <= e_term e'.
Proof.
  induction l as [|x l IH]; intros n lo e e' Hc Hm H1 H2 Hle; [easy|].
  destruct Hc as [Hx Hc]. destruct Hm as [Ha Hb].
  destruct H1 as [<-|H1], H2 as [<-|H2].
  - lia.
  - eapply tm_in; eauto.
  - pose proof (contig_in _ _ _ Hc H1). lia.
  - eapply IH; eauto.
Qed.

(* ------------------------------------------------------------------ *)
(* 3. the plain log: drop_agreeing, well-formedness of every step, C08  *)
(* ------------------------------------------------------------------ *)
Definition agree (p : plog) (e : entry) : bool :=
  match p_term_at p (e_idx e) with
  | Some t => (t =? e_term e) && (e_idx e <=? p_last_idx p)
  | None => false
  end.

Fixpoint dropw {A} (f : A -> bool) (l : list A) : list A :=
  match l with [] => [] | x :: l' => if f x then dropw f l' else l end.

Lemma drop_agreeing_dropw : forall p es, drop_agreeing p es = dropw (agree p) es.
Proof.
  induction es as [|e es IH]; [easy|]. cbn [drop_agreeing dropw]. unfold agree.
  destruct (p_term_at p (e_idx e)); [|easy].
  destruct ((n =? e_term e) && (e_idx e <=? p_last_idx p)); easy.
Qed.

Lemma dropw_incl {A} (f : A -> bool) : forall l e, In e (dropw f l) -> In e l.
Proof.
  induction l as [|x l IH]; intros e H; [easy|]. cbn [dropw] in H.
  destruct (f x); [right; auto|easy].
Qed.

Lemma dropw_skipn {A} (f : A -> bool) : forall k l,
  (forall e, In e (firstn k l) -> f e = true) ->
  match skipn k l with [] => True | e :: _ => f e = false end ->
  dropw f l = skipn k l.
Proof.
  induction k as [|k IH]; intros l H1 H2.
  - cbn [skipn] in *. destruct l as [|x l]; [easy|]. cbn [dropw]. rewrite H2. reflexivity.
  - destruct l as [|x l]; [easy|]. cbn [skipn firstn dropw] in *.
    rewrite (H1 x (or_introl eq_refl)). apply IH; [|easy]. intros e He. apply H1. now right.
Qed.

Lemma dropw_position {A} (f : A -> bool) : forall l,
  match position (fun e => negb (f e)) l with
  | None => dropw f l = []
  | Some pos => dropw f l = skipn pos l /\ skipn pos l <> []
  end.
Proof.
  induction l as [|x l IH]; [easy|]. cbn [position dropw].
  destruct (f x); cbn [negb].
  - destruct (position (fun e => negb (f e)) l); cbn [option_map skipn]; easy.
  - cbn [skipn]. easy.
Qed.

Lemma take_while_spec {A} (g : A -> bool) : forall l,
  (forall e, In e (firstn (take_while g l) l) -> g e = true) /\
  match skipn (take_while g l) l with [] => True | e :: _ => g e = false end.
Proof.
  induction l as [|x l [IH1 IH2]]; [easy|]. cbn [take_while].
  destruct (g x) eqn:E.
  - cbn [firstn skipn]. split; [|easy]. intros e [<-|H]; auto.
  - cbn [firstn skipn]. split; [easy|easy].
Qed.

Lemma p_last_idx_len : forall p, contig (pb_idx p + 1) (pents p) -> p_last_idx p = pb_idx p + len (pents p).
Proof.
  intros p Hc. unfold p_last_idx. destruct (pents p) as [|x l] eqn:E.
  - cbn. lia.
  - destruct (last_entry_contig (x :: l) _ Hc) as [e [E1 [_ E2]]]; [easy|]. rewrite E1. lia.
Qed.

Lemma p_last_entry_in : forall p e, last_entry (pents p) = Some e -> In e (pents p).
Proof.
  intros p e H. unfold last_entry in H. destruct (rev (pents p)) eqn:E; [easy|].
  injection H as ->. apply in_rev. rewrite E. now left.
Qed.

Lemma pta_in : forall p e, contig (pb_idx p + 1) (pents p) -> In e (pents p) -> p_term_at p (e_idx e) = Some (e_term e).
Proof. intros p e Hc Hin. unfold p_term_at. erewrite lookup_in_contig; eauto. Qed.

Lemma pta_some_in : forall p i t, pb_idx p < i -> p_term_at p i = Some t ->
  exists e, In e (pents p) /\ e_idx e = i /\ e_term e = t.
Proof.
  intros p i t Hi H. unfold p_term_at in H. destruct (lookup (pents p) i) as [e|] eqn:E.
  - apply lookup_some in E. exists e. injection H as <-. tauto.
  - destruct ((0 <? pb_idx p) && (i =? pb_idx p)) eqn:E2; [lia|easy].
Qed.

Definition Good (p : plog) (j tj : N) : Prop :=
  pb_idx p <= j <= p_last_idx p /\
  (forall e, In e (pents p) -> e_idx e <= j -> e_term e <= tj) /\ pb_term p <= tj.

Lemma prev_good : forall p prev pterm, p_wf p -> (prev = 0 -> pterm = 0) -> (prev = 0 -> pb_idx p = 0) ->
  p_prev_matches p prev pterm = true -> Good p prev pterm.
Proof.
  intros p prev pterm [Hc [Hm Hz]] H0 H1 Hpm. pose proof (p_last_idx_len p Hc) as Hl.
  unfold p_prev_matches in Hpm. apply orb_true_iff in Hpm. destruct Hpm as [Hpm|Hpm].
  - assert (prev = 0) by lia. assert (pterm = 0) by lia. subst. specialize (H1 eq_refl).
    unfold Good. rewrite (Hz H1). split; [lia|]. split; [|lia].
    intros e He Hi. pose proof (contig_in _ _ _ Hc He). lia.
  - unfold p_term_at in Hpm. destruct (lookup (pents p) prev) as [e0|] eqn:E.
    + apply lookup_some in E. destruct E as [E1 E2]. pose proof (contig_in _ _ _ Hc E1).
      assert (e_term e0 = pterm) by lia. subst. unfold Good. split; [lia|]. split.
      * intros e He Hi. eapply tm_ordered; eauto.
      * pose proof (tm_in _ _ _ Hm E1). lia.
    + destruct ((0 <? pb_idx p) && (prev =? pb_idx p)) eqn:E2; [|easy].
      assert (prev = pb_idx p) by lia. assert (pb_term p = pterm) by lia. subst. unfold Good.
      split; [lia|]. split; [|lia]. intros e He Hi. pose proof (contig_in _ _ _ Hc He). lia.
Qed.

Lemma dropw_good : forall p, p_wf p -> forall es j tj, contig (j + 1) es -> terms_mono tj es -> Good p j tj ->
  match dropw (agree p) es with
  | [] => True
  | d :: rest => exists j' tj', Good p j' tj' /\ contig (j' + 1) (d :: rest) /\ terms_mono tj' (d :: rest)
  end.
Proof.
  intros p [Hc [Hm Hz]]. induction es as [|e es IH]; intros j tj Hce Hme Hg; [easy|].
  cbn [dropw]. destruct (agree p e) eqn:Ea.
  - destruct Hce as [He Hce]. destruct Hme as [Hte Hme]. apply (IH (j + 1) (e_term e)); auto.
    destruct Hg as [Hj [Hg1 Hg2]]. unfold agree in Ea.
    destruct (p_term_at p (e_idx e)) as [t|] eqn:Et; [|easy].
    assert (t = e_term e) by lia. assert (e_idx e <= p_last_idx p) by lia. subst t.
    destruct (pta_some_in p (e_idx e) (e_term e)) as [e0 [E1 [E2 E3]]]; [lia|easy|].
    unfold Good. split; [lia|]. split; [|lia].
    intros e' He' Hi. rewrite <- E3.
    apply (tm_ordered (pents p) (pb_idx p + 1) (N.max 1 (pb_term p)) e' e0); auto. lia.
  - exists j, tj. easy.
Qed.

Lemma filter_wf : forall p j tj d rest, p_wf p -> Good p j tj -> contig (j + 1) (d :: rest) ->
  terms_mono tj (d :: rest) -> 1 <= e_term d ->
  p_wf {| pb_idx := pb_idx p; pb_term := pb_term p;
          pents := filter (fun e => e_idx e <? e_idx d) (pents p) ++ d :: rest |}.
Proof.
  intros p j tj d rest [Hc [Hm Hz]] [Hj [Hg1 Hg2]] HcD HmD H1.
  pose proof (p_last_idx_len p Hc) as Hl. pose proof HcD as [Hd _]. pose proof HmD as [Htd HmD'].
  unfold p_wf. cbn [pb_idx pb_term pents]. split; [|split; [|easy]].
  - apply contig_filter_lt_app; auto; [lia|]. rewrite Hd. easy.
  - apply tm_app with (t := e_term d).
    + apply tm_filter. easy.
    + intros e He. apply filter_In in He. destruct He as [He1 He2].
      assert (e_term e <= tj) by (apply Hg1; [easy|lia]). lia.
    + lia.
    + split; [lia|easy].
Qed.

Theorem p_filter_append_gapfree : forall p prev pterm es, p_wf p -> contig (prev + 1) es ->
  terms_mono (N.max 1 pterm) es -> (prev = 0 -> pterm = 0) ->
  p_prev_matches p prev pterm = true -> (prev = 0 -> pb_idx p = 0) ->
  let p' := fst (p_filter_append p prev pterm es) in
  p_wf p' /\
  (forall e, In e (pents p) -> (forall d, In d (drop_agreeing p es) -> e_idx e < e_idx d) -> In e (pents p')) /\
  (forall e, In e (drop_agreeing p es) -> In e (pents p')).
Proof.
  intros p prev pterm es Hwf Hce Hme H0 Hpm H1. unfold p_filter_append. rewrite Hpm.
  pose proof (prev_good _ _ _ Hwf H0 H1 Hpm) as Hg.
  assert (terms_mono pterm es) as Hme' by (eapply tm_weaken; [|eauto]; lia).
  pose proof (dropw_good p Hwf es prev pterm Hce Hme' Hg) as HD.
  rewrite drop_agreeing_dropw. destruct (dropw (agree p) es) as [|d rest] eqn:ED; cbn [fst].
  - split; [easy|]. split; [auto|easy].
  - destruct HD as [j' [tj' [Hg' [HcD HmD]]]].
    assert (1 <= e_term d) as Hd1.
    { assert (In d es) by (apply (dropw_incl (agree p)); rewrite ED; now left).
      pose proof (tm_in _ _ _ Hme H). lia. }
    split; [eapply filter_wf; eauto|]. cbn [pents]. split.
    + intros e He Hlt. apply in_or_app. left. apply filter_In. split; [easy|].
      specialize (Hlt d (or_introl eq_refl)). lia.
    + intros e He. apply in_or_app. now right.
Qed.

Lemma p_last_term_ge : forall p, p_wf p ->
  (forall e, In e (pents p) -> e_term e <= p_last_term p) /\ N.max 1 (pb_term p) <= N.max 1 (p_last_term p).
Proof.
  intros p [Hc [Hm Hz]]. unfold p_last_term. destruct (last_entry (pents p)) as [l|] eqn:E.
  - pose proof (p_last_entry_in _ _ E) as Hin. split.
    + intros e He. eapply tm_ordered; eauto.
      destruct (last_entry_contig _ _ Hc) as [l' [E1 [_ E2]]]; [intros Hn; rewrite Hn in Hin; easy|].
      rewrite E in E1. injection E1 as <-. pose proof (contig_in _ _ _ Hc He). lia.
    + pose proof (tm_in _ _ _ Hm Hin). lia.
  - apply last_entry_nil_iff in E. rewrite E. split; [easy|lia].
Qed.

Lemma tm_filter_lo : forall f l lo lo', (forall e, In e l -> f e = true -> lo' <= e_term e) ->
  terms_mono lo l -> terms_mono lo' (filter f l).
Proof.
  induction l as [|x l IH]; intros lo lo' H Hm; [easy|]. destruct Hm as [H1 H2]. cbn [filter].
  destruct (f x) eqn:E.
  - split; [apply H; [now left|easy]|]. apply tm_filter. easy.
  - eapply IH; eauto. intros. apply H; [now right|easy].
Qed.

Lemma p_step_wf : forall p o, p_wf p -> shaped p o -> p_wf (fst (p_step p o)).
Proof.
  intros p o Hwf Hs. pose proof Hwf as [Hc [Hm Hz]]. destruct o as [es|prev pterm es|cidx cterm| |c]; cbn [p_step fst].
  - destruct Hs as [Hne [Hce [Hme _]]]. unfold p_wf, p_append. cbn [pb_idx pb_term pents].
    destruct (p_last_term_ge p Hwf) as [Hl1 Hl2].
    split; [|split; [|easy]].
    + apply contig_app. split; [easy|]. rewrite p_last_idx_len in Hce by easy.
      replace (pb_idx p + 1 + len (pents p)) with (pb_idx p + len (pents p) + 1) by lia. easy.
    + apply tm_app with (t := N.max 1 (p_last_term p)); auto.
      intros e He. specialize (Hl1 e He). lia.
  - destruct Hs as [Hce [Hme [_ [H0 Hr]]]].
    destruct (p_filter_append p prev pterm es) as [p' r] eqn:E. cbn [fst].
    replace p' with (fst (p_filter_append p prev pterm es)) by (rewrite E; easy).
    destruct (p_prev_matches p prev pterm) eqn:Epm.
    + apply p_filter_append_gapfree; auto. intros Hp. apply Hr. auto.
    + unfold p_filter_append. rewrite Epm. easy.
  - destruct Hs as [Hc1 [Hpb [_ [_ [Hct [_ Hge]]]]]]. unfold p_wf, p_purge. cbn [pb_idx pb_term pents].
    split; [|split].
    + eapply filter_gt_contig; eauto. lia.
    + eapply tm_filter_lo; eauto. intros e He Hf. specialize (Hge e He). lia.
    + lia.
  - unfold p_wf, p_reset. cbn [pb_idx pb_term pents]. easy.
  - easy.
Qed.

(* ------------------------------------------------------------------ *)
(* 4. association maps                                                  *)
(* ------------------------------------------------------------------ *)
Definition keys (m : amap) : list N := map fst m.

Lemma aget_aupd : forall m k f t, aget (aupd m k f) t = if k =? t then Some (f (aget m k)) else aget m t.
Proof.
  induction m as [|[k' v] m IH]; intros k f t.
  - cbn [aupd aget]. destruct (k =? t); reflexivity.
  - cbn [aupd aget]. destruct (k' =? k) eqn:E1; cbn [aget].
    + assert (k' = k) by lia. subst k'. destruct (k =? t); reflexivity.
    + rewrite IH. destruct (k' =? t) eqn:E2; [|reflexivity].
      destruct (k =? t) eqn:E3; [lia|reflexivity].
Qed.

Lemma keys_aupd : forall m k f x, In x (keys (aupd m k f)) <-> x = k \/ In x (keys m).
Proof.
  induction m as [|[k' v] m IH]; intros k f x.
  - cbn. intuition.
  - cbn [aupd]. destruct (k' =? k) eqn:E.
    + assert (k' = k) by lia. subst. cbn. intuition.
    + unfold keys in *. cbn [map fst In]. rewrite IH. intuition.
Qed.

Lemma nodup_aupd : forall m k f, NoDup (keys m) -> NoDup (keys (aupd m k f)).
Proof.
  induction m as [|[k' v] m IH]; intros k f H.
  - cbn. constructor; [easy|constructor].
  - cbn [aupd]. destruct (k' =? k) eqn:E; [exact H|].
    unfold keys in *. cbn [map fst] in *. inversion H as [|? ? H1 H2]; subst. constructor.
    + intros Hin. apply (keys_aupd m k f k') in Hin. destruct Hin as [->|Hin]; [lia|easy].
    + apply IH. easy.
Qed.

Lemma aget_notin : forall m k, ~ In k (keys m) -> aget m k = None.
Proof.
  induction m as [|[k' v] m IH]; intros k H; [easy|]. cbn [aget]. cbn in H.
  destruct (k' =? k) eqn:E; [exfalso; apply H; left; lia|]. apply IH. tauto.
Qed.

Lemma keys_adel : forall m k x, In x (keys (adel m k)) -> In x (keys m).
Proof.
  induction m as [|[k' v] m IH]; intros k x H; [easy|]. cbn [adel] in H.
  destruct (k' =? k); [now right|]. unfold keys in *. cbn [map fst In] in *.
  destruct H as [H|H]; [now left|right; eauto].
Qed.

Lemma nodup_adel : forall m k, NoDup (keys m) -> NoDup (keys (adel m k)).
Proof.
  induction m as [|[k' v] m IH]; intros k H; [easy|]. cbn [adel].
  unfold keys in *. cbn [map fst] in *. inversion H as [|? ? H1 H2]; subst.
  destruct (k' =? k); [easy|]. cbn [map fst]. constructor; [|apply IH; easy].
  intros Hin. apply H1. eapply keys_adel; eauto.
Qed.

Lemma aget_adel : forall m k t, NoDup (keys m) -> aget (adel m k) t = if k =? t then None else aget m t.
Proof.
  induction m as [|[k' v] m IH]; intros k t H.
  - cbn. destruct (k =? t); reflexivity.
  - unfold keys in H. cbn [map fst] in H. inversion H as [|? ? H1 H2]; subst.
    cbn [adel aget]. destruct (k' =? k) eqn:E1.
    + assert (k' = k) by lia. subst k'. destruct (k =? t) eqn:E2; [|reflexivity].
      assert (k = t) by lia. subst. apply aget_notin. easy.
    + cbn [aget]. rewrite IH by easy. destruct (k' =? t) eqn:E2; [|reflexivity].
      destruct (k =? t) eqn:E3; [lia|reflexivity].
Qed.

(* ------------------------------------------------------------------ *)
(* 5. first / last index of a term                                      *)
(* ------------------------------------------------------------------ *)
Lemma fw_app_one : forall l e t, first_with_term (l ++ [e]) t =
  match first_with_term l t with Some v => Some v | None => if e_term e =? t then Some (e_idx e) else None end.
Proof.
  unfold first_with_term. induction l as [|x l IH]; intros e t; cbn [app find].
  - destruct (e_term e =? t); reflexivity.
  - destruct (e_term x =? t); [reflexivity|]. apply IH.
Qed.

Lemma lw_app_one : forall l e t, last_with_term (l ++ [e]) t =
  if e_term e =? t then Some (e_idx e) else last_with_term l t.
Proof.
  intros. unfold last_with_term, first_with_term. rewrite rev_unit. cbn [find].
  destruct (e_term e =? t); reflexivity.
Qed.

Lemma fw_in : forall l t v, first_with_term l t = Some v -> exists e, In e l /\ e_idx e = v /\ e_term e = t.
Proof.
  intros l t v H. unfold first_with_term in H. destruct (find (fun e => e_term e =? t) l) as [e|] eqn:E; [|easy].
  apply find_some in E. destruct E as [E1 E2]. injection H as <-. exists e. split; [easy|]. split; [easy|lia].
Qed.

Lemma lw_in : forall l t v, last_with_term l t = Some v -> exists e, In e l /\ e_idx e = v /\ e_term e = t.
Proof.
  intros l t v H. apply fw_in in H. destruct H as [e [H1 H2]]. exists e. split; [|easy]. apply in_rev. easy.
Qed.

Definition TermIdx (tf tl : amap) (l : list entry) : Prop :=
  NoDup (keys tf) /\ NoDup (keys tl) /\
  (forall t, aget tf t = first_with_term l t) /\ (forall t, aget tl t = last_with_term l t).

Lemma upd_term_idx_cons : forall tf tl e es, upd_term_idx tf tl (e :: es) =
  upd_term_idx (aupd tf (e_term e) (fun o => match o with Some v => N.min v (e_idx e) | None => e_idx e end))
               (aupd tl (e_term e) (fun o => match o with Some v => N.max v (e_idx e) | None => e_idx e end)) es.
Proof. reflexivity. Qed.

Lemma upd_term_idx_ok : forall es l tf tl n, TermIdx tf tl l -> (forall x, In x l -> e_idx x < n) -> contig n es ->
  TermIdx (fst (upd_term_idx tf tl es)) (snd (upd_term_idx tf tl es)) (l ++ es).
Proof.
  induction es as [|e es IH]; intros l tf tl n Hti Hl Hc.
  - cbn. rewrite app_nil_r. easy.
  - destruct Hc as [He Hc]. rewrite upd_term_idx_cons.
    replace (l ++ e :: es) with ((l ++ [e]) ++ es) by (rewrite <- app_assoc; reflexivity).
    apply IH with (n := n + 1); auto.
    + destruct Hti as [N1 [N2 [Hf Hl']]]. split; [apply nodup_aupd; easy|]. split; [apply nodup_aupd; easy|]. split.
      * intros t. rewrite aget_aupd, fw_app_one. destruct (e_term e =? t) eqn:E.
        -- assert (e_term e = t) by lia. subst t. rewrite Hf.
           destruct (first_with_term l (e_term e)) as [v|] eqn:Ev; [|reflexivity].
           apply fw_in in Ev. destruct Ev as [x [X1 [X2 _]]]. specialize (Hl x X1). f_equal. lia.
        -- rewrite Hf. destruct (first_with_term l t); reflexivity.
      * intros t. rewrite aget_aupd, lw_app_one. destruct (e_term e =? t) eqn:E; [|apply Hl'].
        rewrite Hl'. destruct (last_with_term l (e_term e)) as [v|] eqn:Ev; [|reflexivity].
        apply lw_in in Ev. destruct Ev as [x [X1 [X2 _]]]. specialize (Hl x X1). f_equal. lia.
    + intros x Hx. apply in_app_or in Hx. destruct Hx as [Hx|[<-|[]]]; [specialize (Hl x Hx)|]; lia.
Qed.

(* ------------------------------------------------------------------ *)
(* 6. TermSegments: the cache is sound for every index present in the log *)
(* ------------------------------------------------------------------ *)
Definition seg_sound (s : segs) (l : list entry) : Prop :=
  forall i t e, seg_get s i = Some t -> In e l -> e_idx e = i -> e_term e = t.
Definition SegOk (s : segs) (l : list entry) : Prop := (sg_lt s = 0 -> sg_hist s = []) /\ seg_sound s l.

Lemma find_last_le_app : forall h ls lt i,
  find_last_le (h ++ [(ls, lt)]) i = if ls <=? i then Some lt else find_last_le h i.
Proof. intros. unfold find_last_le. rewrite fold_left_app. reflexivity. Qed.

Lemma seg_append1_lt : forall s e i t, (sg_lt s = 0 -> sg_hist s = []) -> i < e_idx e ->
  seg_get (seg_on_append1 s e) i = Some t -> seg_get s i = Some t.
Proof.
  intros s e i t Hh Hi. unfold seg_on_append1.
  destruct (e_term e =? sg_lt s) eqn:E1.
  - destruct (e_idx e <? sg_ls s) eqn:E2; [|easy].
    unfold seg_get; cbn [sg_lt sg_ls sg_count sg_hist].
    destruct (sg_lt s =? 0); [easy|].
    destruct (e_idx e <=? i) eqn:E3; [lia|]. destruct (sg_ls s <=? i) eqn:E4; [lia|]. easy.
  - destruct (sg_lt s =? 0) eqn:E2.
    + unfold seg_get; cbn [sg_lt sg_ls sg_count sg_hist]. rewrite Hh by lia.
      destruct (e_term e =? 0); [easy|]. destruct (e_idx e <=? i) eqn:E3; [lia|].
      destruct (SEG_MAX <? sg_count s); easy.
    + unfold seg_get; cbn [sg_lt sg_ls sg_count sg_hist]. rewrite E2.
      destruct (e_term e =? 0); [easy|]. destruct (e_idx e <=? i) eqn:E3; [lia|].
      destruct (sg_count s <? SEG_MAX) eqn:E4.
      * assert (SEG_MAX <? sg_count s + 1 = false) as -> by (unfold SEG_MAX in *; lia).
        assert (SEG_MAX <? sg_count s = false) as -> by (unfold SEG_MAX in *; lia).
        rewrite find_last_le_app. destruct (sg_ls s <=? i); easy.
      * assert (SEG_MAX <? sg_count s + 1 = true) as -> by (unfold SEG_MAX in *; lia). easy.
Qed.

Lemma seg_append1_ge : forall s e i, e_term e <> 0 -> e_idx e <= i ->
  seg_get (seg_on_append1 s e) i = Some (e_term e).
Proof.
  intros s e i Ht Hi. unfold seg_on_append1.
  destruct (e_term e =? sg_lt s) eqn:E1.
  - assert (e_term e = sg_lt s) as Heq by lia. destruct (e_idx e <? sg_ls s) eqn:E2.
    + unfold seg_get; cbn [sg_lt sg_ls sg_count sg_hist]. destruct (sg_lt s =? 0) eqn:E3; [lia|].
      destruct (e_idx e <=? i) eqn:E4; [|lia]. rewrite Heq. reflexivity.
    + unfold seg_get. destruct (sg_lt s =? 0) eqn:E3; [lia|].
      destruct (sg_ls s <=? i) eqn:E4; [|lia]. rewrite Heq. reflexivity.
  - destruct (sg_lt s =? 0) eqn:E2; unfold seg_get; cbn [sg_lt sg_ls sg_count sg_hist];
      (destruct (e_term e =? 0) eqn:E3; [lia|]); (destruct (e_idx e <=? i) eqn:E4; [|lia]); reflexivity.
Qed.

Lemma seg_append1_ltne : forall s e, e_term e <> 0 -> sg_lt (seg_on_append1 s e) <> 0.
Proof.
  intros s e Ht. unfold seg_on_append1.
  destruct (e_term e =? sg_lt s) eqn:E1.
  - destruct (e_idx e <? sg_ls s); cbn [sg_lt]; lia.
  - destruct (sg_lt s =? 0); cbn [sg_lt]; lia.
Qed.

Lemma segok_append1 : forall s l e, SegOk s l -> (forall x, In x l -> e_idx x < e_idx e) -> e_term e <> 0 ->
  SegOk (seg_on_append1 s e) (l ++ [e]).
Proof.
  intros s l e [Hh Hs] Hl Ht. split.
  - intros H0. exfalso. eapply seg_append1_ltne; eauto.
  - intros i t x Hg Hx Hi. apply in_app_or in Hx. destruct Hx as [Hx|[<-|[]]].
    + specialize (Hl x Hx). apply (Hs i t x); auto. eapply seg_append1_lt; eauto. lia.
    + rewrite seg_append1_ge in Hg by (auto; lia). congruence.
Qed.

Lemma segok_append : forall es l s n, SegOk s l -> (forall x, In x l -> e_idx x < n) -> contig n es ->
  (forall e, In e es -> e_term e <> 0) -> SegOk (seg_on_append s es) (l ++ es).
Proof.
  induction es as [|e es IH]; intros l s n Hok Hl Hc Ht.
  - cbn. rewrite app_nil_r. easy.
  - destruct Hc as [He Hc]. unfold seg_on_append. cbn [fold_left]. fold (seg_on_append (seg_on_append1 s e) es).
    replace (l ++ e :: es) with ((l ++ [e]) ++ es) by (rewrite <- app_assoc; reflexivity).
    apply IH with (n := n + 1); auto.
    + apply segok_append1; auto.
      * intros x Hx. specialize (Hl x Hx). lia.
      * apply Ht. now left.
    + intros x Hx. apply in_app_or in Hx. destruct Hx as [Hx|[<-|[]]]; [specialize (Hl x Hx)|]; lia.
    + intros. apply Ht. now right.
Qed.

(* ------------------------------------------------------------------ *)
(* 7. insert_to_memory behind the current tail                          *)
(* ------------------------------------------------------------------ *)
Lemma ins1_app : forall l e, (forall x, In x l -> e_idx x < e_idx e) -> ins1 l e = l ++ [e].
Proof.
  induction l as [|x l IH]; intros e H; [easy|]. cbn [ins1 app].
  pose proof (H x (or_introl eq_refl)).
  destruct (e_idx e <? e_idx x) eqn:E1; [lia|]. destruct (e_idx e =? e_idx x) eqn:E2; [lia|].
  f_equal. apply IH. intros. apply H. now right.
Qed.

Lemma ins_all_app : forall es l n, (forall x, In x l -> e_idx x < n) -> contig n es -> ins_all l es = l ++ es.
Proof.
  induction es as [|e es IH]; intros l n Hl Hc.
  - cbn. rewrite app_nil_r. reflexivity.
  - destruct Hc as [He Hc]. unfold ins_all. cbn [fold_left]. fold (ins_all (ins1 l e) es).
    rewrite ins1_app by (intros x Hx; specialize (Hl x Hx); lia).
    rewrite (IH (l ++ [e]) (n + 1)); auto.
    + rewrite <- app_assoc. reflexivity.
    + intros x Hx. apply in_app_or in Hx. destruct Hx as [Hx|[<-|[]]]; [specialize (Hl x Hx)|]; lia.
Qed.

Definition Inv (b : buf) : Prop :=
  bmin b = front_idx (ents b) /\ bmax b = back_idx (ents b) /\
  idx_bounded (ents b) /\
  TermIdx (tfirst b) (tlast b) (ents b) /\
  SegOk (sg b) (ents b).

Lemma back_idx_in : forall l, l <> [] -> exists e, In e l /\ back_idx l = e_idx e /\ last_entry l = Some e.
Proof.
  intros l Hne. destruct (exists_last Hne) as [l' [a ->]]. exists a.
  rewrite back_idx_last, last_entry_app. split; [apply in_or_app; right; now left|easy].
Qed.

Lemma insert_ok : forall b es n, Inv b -> (forall x, In x (ents b) -> e_idx x <> 0) ->
  (forall x, In x (ents b) -> e_idx x < n) -> contig n es -> es <> [] -> n <> 0 ->
  (forall e, In e es -> e_term e <> 0) -> idx_bounded es ->
  Inv (b_insert b es) /\ ents (b_insert b es) = ents b ++ es /\
  pg_idx (b_insert b es) = pg_idx b /\ pg_term (b_insert b es) = pg_term b.
Proof.
  intros b es n [Hmin [Hmax [Hbd [Hti Hsg]]]] Hnz Hl Hc Hne Hn Ht Hbe.
  destruct es as [|first es']; [easy|]. pose proof Hc as [Hf _]. unfold b_insert.
  set (es := first :: es') in *.
  pose proof (upd_term_idx_ok es (ents b) (tfirst b) (tlast b) n Hti Hl Hc) as Hti'.
  destruct (upd_term_idx (tfirst b) (tlast b) es) as [tf tl]. cbn [fst snd] in Hti'.
  cbn [ents pg_idx pg_term]. rewrite (ins_all_app es (ents b) n) by easy.
  split; [|easy]. unfold Inv. cbn [ents bmin bmax tfirst tlast sg].
  destruct (back_idx_in es Hne) as [le [Hle1 [Hle2 Hle3]]]. rewrite Hle3.
  pose proof (contig_in _ _ _ Hc Hle1) as Hle4.
  split; [|split; [|split; [|split]]].
  - destruct (ents b) as [|x l] eqn:E.
    + cbn [app]. rewrite Hmin. cbn [front_idx]. subst es. cbn [front_idx].
      destruct ((e_idx first <? 0) || (0 =? 0)) eqn:E2; [easy|lia].
    + cbn [app front_idx]. rewrite Hmin. cbn [front_idx].
      pose proof (Hl x (or_introl eq_refl)). pose proof (Hnz x (or_introl eq_refl)).
      destruct ((e_idx first <? e_idx x) || (e_idx x =? 0)) eqn:E2; [lia|easy].
  - rewrite back_idx_last, last_entry_app_ne, Hle3 by easy.
    assert (bmax b < e_idx le) as Hlt.
    { rewrite Hmax. destruct (ents b) as [|x l] eqn:E; [cbn; lia|].
      destruct (back_idx_in (x :: l)) as [y [Y1 [Y2 _]]]; [easy|]. rewrite Y2. specialize (Hl y Y1). lia. }
    destruct (bmax b <? e_idx le) eqn:E2; [easy|lia].
  - intros e He. apply in_app_or in He. destruct He; auto.
  - easy.
  - eapply segok_append; eauto.
Qed.

(* ------------------------------------------------------------------ *)
(* 8. remove_range: targeted repair of the per-term maps                *)
(* ------------------------------------------------------------------ *)
Section Repair.
  Variables (cond : N -> N -> bool) (newv oldv : N -> option N).
  Definition rstep (m : amap) (t : N) : amap :=
    match aget m t with
    | Some cur => if cond t cur
                  then match newv t with Some i => aupd m t (fun _ => i) | None => adel m t end
                  else m
    | None => m
    end.
  Hypothesis Hkeep : forall t cur, oldv t = Some cur -> cond t cur = false -> newv t = Some cur.
  Hypothesis Hnone : forall t, oldv t = None -> newv t = None.

  Lemma rstep_ok : forall m t, NoDup (keys m) -> aget m t = oldv t ->
    NoDup (keys (rstep m t)) /\ aget (rstep m t) t = newv t /\
    forall t', t' <> t -> aget (rstep m t) t' = aget m t'.
  Proof.
    intros m t Hnd Ha. unfold rstep. destruct (aget m t) as [cur|] eqn:E.
    - destruct (cond t cur) eqn:Ec.
      + destruct (newv t) as [i|] eqn:En.
        * split; [apply nodup_aupd; easy|]. split.
          -- rewrite aget_aupd, N.eqb_refl. reflexivity.
          -- intros t' Hne. rewrite aget_aupd. destruct (t =? t') eqn:E2; [lia|easy].
        * split; [apply nodup_adel; easy|]. split.
          -- rewrite aget_adel, N.eqb_refl by easy. reflexivity.
          -- intros t' Hne. rewrite aget_adel by easy. destruct (t =? t') eqn:E2; [lia|easy].
      + split; [easy|]. split; [|easy]. rewrite E. symmetry. apply Hkeep; [congruence|easy].
    - split; [easy|]. split; [|easy]. rewrite E. symmetry. apply Hnone. congruence.
  Qed.

  Lemma repair_ok : forall ts m, NoDup ts -> NoDup (keys m) -> (forall t, In t ts -> aget m t = oldv t) ->
    NoDup (keys (fold_left rstep ts m)) /\
    (forall t, In t ts -> aget (fold_left rstep ts m) t = newv t) /\
    (forall t, ~ In t ts -> aget (fold_left rstep ts m) t = aget m t).
  Proof.
    induction ts as [|t ts IH]; intros m Hts Hnd Hold; [easy|]. cbn [fold_left].
    inversion Hts as [|? ? Hnin Hts']; subst.
    destruct (rstep_ok m t Hnd (Hold t (or_introl eq_refl))) as [R1 [R2 R3]].
    destruct (IH (rstep m t) Hts' R1) as [I1 [I2 I3]].
    { intros t' Ht'. rewrite R3; [apply Hold; now right|]. intros ->. easy. }
    split; [easy|]. split.
    - intros t' [<-|Ht']; [|auto]. rewrite I3; easy.
    - intros t' Hn. rewrite I3 by (intros H; apply Hn; now right). apply R3. intros ->. apply Hn. now left.
  Qed.
End Repair.

Lemma find_filter_keep {A} (f g : A -> bool) : forall l e, find f l = Some e -> g e = true ->
  find f (filter g l) = Some e.
Proof.
  induction l as [|x l IH]; intros e Hf Hg; [easy|]. cbn [find filter] in *.
  destruct (f x) eqn:Ef.
  - injection Hf as ->. rewrite Hg. cbn [find]. rewrite Ef. reflexivity.
  - destruct (g x); [cbn [find]; rewrite Ef|]; apply IH; easy.
Qed.

Lemma find_filter_same {A} (f g : A -> bool) : forall l, (forall e, In e l -> f e = true -> g e = true) ->
  find f (filter g l) = find f l.
Proof.
  induction l as [|x l IH]; intros H; [easy|]. cbn [find filter].
  destruct (f x) eqn:Ef.
  - rewrite (H x (or_introl eq_refl) Ef). cbn [find]. rewrite Ef. reflexivity.
  - destruct (g x); [cbn [find]; rewrite Ef|]; apply IH; intros; apply H; auto; now right.
Qed.

Lemma find_filter_none {A} (f g : A -> bool) : forall l, find f l = None -> find f (filter g l) = None.
Proof.
  intros l H. destruct (find f (filter g l)) as [e|] eqn:E; [|easy].
  apply find_some in E. destruct E as [E1 E2]. apply filter_In in E1. destruct E1 as [E1 _].
  pose proof (find_none _ _ H _ E1). congruence.
Qed.

Lemma rev_filter {A} (g : A -> bool) : forall l, rev (filter g l) = filter g (rev l).
Proof.
  induction l as [|x l IH]; [easy|]. cbn [rev filter]. rewrite filter_app. cbn [filter].
  destruct (g x); cbn [rev]; rewrite IH; [reflexivity|]. rewrite app_nil_r. reflexivity.
Qed.

Lemma min_idx_term_le : forall es t m, (forall e, In e es -> e_idx e <> 0) ->
  let r := fold_left (fun m e => if e_term e =? t then (if m =? 0 then e_idx e else N.min m (e_idx e)) else m) es m in
  (m <> 0 -> r <> 0 /\ r <= m) /\ (forall e, In e es -> e_term e = t -> r <> 0 /\ r <= e_idx e).
Proof.
  induction es as [|x es IH]; intros t m Hnz; cbn [fold_left].
  - split; [lia|easy].
  - assert (forall e, In e es -> e_idx e <> 0) as Hnz' by (intros; apply Hnz; now right).
    pose proof (Hnz x (or_introl eq_refl)) as Hx.
    destruct (e_term x =? t) eqn:E.
    + destruct (m =? 0) eqn:Em.
      * destruct (IH t (e_idx x) Hnz') as [I1 I2]. specialize (I1 Hx). split; [lia|].
        intros e [<-|He] Het; [easy|auto].
      * destruct (IH t (N.min m (e_idx x)) Hnz') as [I1 I2].
        assert (N.min m (e_idx x) <> 0) as Hmin by lia. specialize (I1 Hmin). split; [lia|].
        intros e [<-|He] Het; [lia|auto].
    + destruct (IH t m Hnz') as [I1 I2]. split; [easy|].
      intros e [<-|He] Het; [lia|auto].
Qed.

Lemma max_idx_term_ge : forall es t m,
  let r := fold_left (fun m e => if e_term e =? t then N.max m (e_idx e) else m) es m in
  m <= r /\ (forall e, In e es -> e_term e = t -> e_idx e <= r).
Proof.
  induction es as [|x es IH]; intros t m; cbn [fold_left].
  - split; [lia|easy].
  - destruct (e_term x =? t) eqn:E.
    + destruct (IH t (N.max m (e_idx x))) as [I1 I2]. split; [lia|].
      intros e [<-|He] Het; [lia|auto].
    + destruct (IH t m) as [I1 I2]. split; [easy|]. intros e [<-|He] Het; [lia|auto].
Qed.

Lemma terms_of_in : forall es t, In t (terms_of es) <-> exists e, In e es /\ e_term e = t.
Proof.
  intros es t. unfold terms_of. rewrite nodup_In, in_map_iff. split; intros [e [H1 H2]]; exists e; tauto.
Qed.

Lemma remove_range_termidx : forall l tf tl g, TermIdx tf tl l -> (forall e, In e l -> e_idx e <> 0) ->
  let removed := filter g l in
  let kept := filter (fun e => negb (g e)) l in
  TermIdx
    (fold_left (fun m t =>
              match aget m t with
              | Some cur => if min_idx_term removed t <=? cur
                            then match first_with_term kept t with
                                 | Some i => aupd m t (fun _ => i) | None => adel m t end
                            else m
              | None => m end) (terms_of removed) tf)
    (fold_left (fun m t =>
              match aget m t with
              | Some cur => if cur <=? max_idx_term removed t
                            then match last_with_term kept t with
                                 | Some i => aupd m t (fun _ => i) | None => adel m t end
                            else m
              | None => m end) (terms_of removed) tl)
    kept.
Proof.
  intros l tf tl g [N1 [N2 [Hf Hl]]] Hnz removed kept.
  assert (forall e, In e removed -> e_idx e <> 0) as Hnzr.
  { intros e He. apply filter_In in He. apply Hnz. tauto. }
  assert (forall t, ~ In t (terms_of removed) -> forall e, In e l -> e_term e = t -> negb (g e) = true) as Hother.
  { intros t Hn e He Het. destruct (g e) eqn:Eg; [|easy]. exfalso. apply Hn. apply terms_of_in.
    exists e. split; [apply filter_In; easy|easy]. }
  pose proof (repair_ok (fun t cur => min_idx_term removed t <=? cur) (first_with_term kept) (first_with_term l)) as R1.
  pose proof (repair_ok (fun t cur => cur <=? max_idx_term removed t) (last_with_term kept) (last_with_term l)) as R2.
  unfold rstep in R1, R2.
  destruct (R1) with (ts := terms_of removed) (m := tf) as [A1 [A2 A3]]; auto.
  { intros t cur Ho Hc. unfold first_with_term in *. 
    destruct (find (fun e => e_term e =? t) l) as [e0|] eqn:E0; [|easy]. cbn [option_map] in Ho.
    injection Ho as Ho. pose proof (find_some _ _ E0) as [F1 F2].
    unfold kept. erewrite find_filter_keep; eauto. 
    { cbn [option_map]. congruence. }
    destruct (g e0) eqn:Eg; [|easy]. exfalso.
    assert (In e0 removed) as Hr by (apply filter_In; easy).
    destruct (min_idx_term_le removed t 0 Hnzr) as [_ M]. destruct (M e0 Hr) as [M1 M2]; [lia|].
    unfold min_idx_term in Hc. lia. }
  { intros t Ho. unfold first_with_term in *. 
    destruct (find (fun e => e_term e =? t) l) eqn:E0; [easy|]. unfold kept. rewrite find_filter_none; easy. }
  { apply NoDup_nodup. }
  destruct (R2) with (ts := terms_of removed) (m := tl) as [B1 [B2 B3]]; auto.
  { intros t cur Ho Hc. unfold last_with_term, first_with_term in *.
    destruct (find (fun e => e_term e =? t) (rev l)) as [e0|] eqn:E0; [|easy]. cbn [option_map] in Ho.
    injection Ho as Ho. pose proof (find_some _ _ E0) as [F1 F2]. apply in_rev in F1.
    unfold kept. rewrite rev_filter. erewrite find_filter_keep; eauto.
    { cbn [option_map]. congruence. }
    destruct (g e0) eqn:Eg; [|easy]. exfalso.
    assert (In e0 removed) as Hr by (apply filter_In; easy).
    destruct (max_idx_term_ge removed t 0) as [_ M]. specialize (M e0 Hr). 
    unfold max_idx_term in Hc. lia. }
  { intros t Ho. unfold last_with_term, first_with_term in *.
    destruct (find (fun e => e_term e =? t) (rev l)) eqn:E0; [easy|]. unfold kept.
    rewrite rev_filter, find_filter_none; easy. }
  { apply NoDup_nodup. }
  split; [easy|]. split; [easy|]. split.
  - intros t. destruct (in_dec N.eq_dec t (terms_of removed)) as [Hin|Hn]; [auto|].
    rewrite A3, Hf by easy. unfold first_with_term, kept. rewrite find_filter_same; [easy|].
    intros e He Het. apply (Hother t Hn); [easy|lia].
  - intros t. destruct (in_dec N.eq_dec t (terms_of removed)) as [Hin|Hn]; [auto|].
    rewrite B3, Hl by easy. unfold last_with_term, first_with_term, kept. rewrite rev_filter, find_filter_same; [easy|].
    intros e He Het. apply in_rev in He. apply (Hother t Hn); [easy|lia].
Qed.

Lemma remove_range_ok : forall b lo hi, Inv b -> (forall e, In e (ents b) -> e_idx e <> 0) ->
  Inv (b_remove_range b lo hi).
Proof.
  intros b lo hi [Hmin [Hmax [Hbd [Hti [Hh Hs]]]]] Hnz. unfold b_remove_range, Inv.
  cbn [ents bmin bmax tfirst tlast sg]. split; [easy|]. split; [easy|]. split; [|split].
  - intros e He. apply filter_In in He. apply Hbd. tauto.
  - apply (remove_range_termidx (ents b) (tfirst b) (tlast b) (in_range lo hi)); easy.
  - split; [easy|]. intros i t e Hg He Hi. apply filter_In in He. eapply Hs; eauto. tauto.
Qed.

(* ------------------------------------------------------------------ *)
(* 9. the queries agree                                                 *)
(* ------------------------------------------------------------------ *)
Lemma wf_facts : forall b, p_wf (abs b) ->
  contig (pg_idx b + 1) (ents b) /\ (forall e, In e (ents b) -> e_idx e <> 0) /\
  (forall e, In e (ents b) -> e_term e <> 0).
Proof.
  intros b [Hc [Hm _]]. cbn [abs pb_idx pb_term pents] in *. split; [easy|]. split.
  - intros e He. pose proof (contig_in _ _ _ Hc He). lia.
  - intros e He. pose proof (tm_in _ _ _ Hm He). lia.
Qed.

Lemma Inv_buf0 : Inv buf0 /\ p_wf (abs buf0).
Proof.
  split.
  - unfold Inv, buf0, TermIdx, SegOk, seg_sound, idx_bounded. cbn.
    repeat split; try easy; constructor.
  - unfold p_wf, abs, buf0. cbn. easy.
Qed.

Lemma bmax_facts : forall b, Inv b -> p_wf (abs b) ->
  (ents b = [] -> bmax b = 0 /\ bmin b = 0) /\
  (ents b <> [] -> bmin b = pg_idx b + 1 /\ bmax b + 1 = pg_idx b + 1 + len (ents b) /\ bmax b = p_last_idx (abs b)).
Proof.
  intros b [Hmin [Hmax _]] Hwf. destruct (wf_facts b Hwf) as [Hc _]. split.
  - intros E. rewrite Hmin, Hmax, E. easy.
  - intros Hne. rewrite Hmin, Hmax. rewrite (front_idx_contig _ _ Hc Hne).
    pose proof (back_idx_contig _ _ Hc Hne). split; [easy|]. split; [easy|].
    rewrite p_last_idx_len by easy. cbn [abs pb_idx pents]. lia.
Qed.

Lemma entry_term_agree : forall b i, Inv b -> p_wf (abs b) -> b_entry_term b i = p_term_at (abs b) i.
Proof.
  intros b i HI Hwf. destruct (wf_facts b Hwf) as [Hc _]. destruct (bmax_facts b HI Hwf) as [B0 B1].
  unfold b_entry_term, p_term_at. cbn [abs pb_idx pb_term pents].
  destruct (ents b) as [|x l] eqn:E.
  - destruct B0 as [-> _]; [easy|]. cbn [lookup find orb]. rewrite N.eqb_refl. reflexivity.
  - rewrite <- E in *. destruct B1 as [Bm [Bx _]]; [rewrite E; easy|].
    destruct ((bmax b =? 0) || (i <? bmin b) || (bmax b <? i)) eqn:Eo.
    + rewrite (lookup_contig_none _ _ i Hc) by lia. reflexivity.
    + destruct (lookup_contig _ _ i Hc) as [e [E1 [E2 E3]]]; [lia|]. rewrite E1.
      destruct (seg_get (sg b) i) as [t|] eqn:Es; [|reflexivity].
      destruct HI as [_ [_ [_ [_ [_ Hs]]]]]. rewrite (Hs i t e Es E2 E3). reflexivity.
Qed.

Lemma last_log_id_agree : forall b, Inv b -> p_wf (abs b) -> b_last_log_id b = p_last_log_id (abs b).
Proof.
  intros b HI Hwf. destruct (wf_facts b Hwf) as [Hc [Hnz _]]. destruct (bmax_facts b HI Hwf) as [B0 B1].
  unfold b_last_log_id, p_last_log_id. cbn [abs pb_idx pb_term pents].
  destruct (ents b) as [|x l] eqn:E.
  - destruct B0 as [-> _]; easy.
  - rewrite <- E in *. assert (ents b <> []) as Hne by (rewrite E; easy).
    destruct (back_idx_in _ Hne) as [e [E1 [E2 E3]]]. destruct HI as [_ [Hmax _]].
    rewrite E3, Hmax, E2. specialize (Hnz e E1). destruct (0 <? e_idx e) eqn:E0; [|lia].
    rewrite (lookup_in_contig _ _ _ Hc E1). reflexivity.
Qed.

Theorem answers_agree : forall b, Inv b -> p_wf (abs b) ->
  forall i t lo hi, answers_b b i t lo hi = answers_p (abs b) i t lo hi.
Proof.
  intros b HI Hwf i t lo hi. unfold answers_b, answers_p.
  rewrite (entry_term_agree b i HI Hwf), (last_log_id_agree b HI Hwf).
  destruct HI as [Hmin [Hmax [_ [[_ [_ [Hf Hl]]] _]]]].
  rewrite Hf, Hl, Hmin, Hmax.
  unfold p_first_idx, p_last_entry_id, p_first_index_for_term, p_last_index_for_term, p_range.
  cbn [abs pents]. rewrite back_idx_last.
  replace (front_idx (ents b)) with (match ents b with e :: _ => e_idx e | [] => 0 end) by (destruct (ents b); easy).
  reflexivity.
Qed.

(* ------------------------------------------------------------------ *)
(* 10. the simple steps                                                 *)
(* ------------------------------------------------------------------ *)
Lemma abs_ext : forall b' i t l, pg_idx b' = i -> pg_term b' = t -> ents b' = l ->
  abs b' = {| pb_idx := i; pb_term := t; pents := l |}.
Proof. intros b' i t l <- <- <-. reflexivity. Qed.

Lemma reset_inv : forall b, Inv (b_reset b).
Proof.
  intros b. unfold Inv, b_reset, TermIdx, SegOk, seg_sound, idx_bounded. cbn.
  repeat split; try easy; constructor.
Qed.

Lemma in_range_hi : forall d e, e_idx e <= U64_MAX -> negb (in_range d 18446744073709551615 e) = (e_idx e <? d).
Proof. intros d e H. unfold in_range, U64_MAX in *. lia. Qed.

Lemma in_range_lo : forall c e, negb (in_range 0 c e) = (c <? e_idx e).
Proof. intros c e. unfold in_range. lia. Qed.

Lemma purge_ok : forall b c t, Inv b -> p_wf (abs b) -> Inv (b_purge b c t) /\ abs (b_purge b c t) = p_purge (abs b) c t.
Proof.
  intros b c t HI Hwf. destruct (wf_facts b Hwf) as [Hc [Hnz _]].
  pose proof (remove_range_ok b 0 c HI Hnz) as [_ [_ [Hbd [Hti Hsg]]]]. split.
  - unfold Inv, b_purge. cbn [ents bmin bmax tfirst tlast sg]. easy.
  - unfold b_purge, b_remove_range, abs, p_purge. cbn [ents pg_idx pg_term pb_idx pb_term pents]. f_equal.
    apply filter_ext. intros e. apply in_range_lo.
Qed.

(* ------------------------------------------------------------------ *)
(* 11. filter_out_conflicts_and_append                                  *)
(* ------------------------------------------------------------------ *)
Lemma dropw_split {A} (f : A -> bool) : forall l, exists a, l = a ++ dropw f l /\ forall x, In x a -> f x = true.
Proof.
  induction l as [|y l [a0 [H1 H2]]]; [exists []; easy|]. cbn [dropw]. destruct (f y) eqn:E.
  - exists (y :: a0). split; [cbn [app]; f_equal; easy|]. intros x [<-|H]; auto.
  - exists []. easy.
Qed.

Lemma position_ext {A} (f g : A -> bool) : forall l, (forall x, In x l -> f x = g x) -> position f l = position g l.
Proof.
  induction l as [|y l IH]; intros H; [easy|]. cbn [position]. rewrite (H y (or_introl eq_refl)).
  rewrite IH; [reflexivity|]. intros. apply H. now right.
Qed.

Lemma contig_prefix : forall A L n, contig n A -> contig n L -> incl A L -> A = firstn (length A) L.
Proof.
  induction A as [|a A IH]; intros L n HA HL Hi; [easy|].
  destruct HA as [Ha HA]. destruct L as [|x L]; [exfalso; apply (Hi a); now left|].
  destruct HL as [Hx HL]. cbn [length firstn].
  assert (a = x).
  { destruct (Hi a (or_introl eq_refl)) as [H|H]; [easy|]. pose proof (contig_in _ _ _ HL H). lia. }
  subst. f_equal. apply (IH L (e_idx x + 1)); auto. intros y Hy.
  destruct (Hi y (or_intror Hy)) as [H|H]; [|easy]. pose proof (contig_in _ _ _ HA Hy). subst. lia.
Qed.

Lemma filter_lt_firstn : forall L n k, contig n L -> filter (fun e => e_idx e <? n + N.of_nat k) L = firstn k L.
Proof.
  induction L as [|x L IH]; intros n k Hc.
  - rewrite firstn_nil. easy.
  - destruct k as [|k].
    + cbn [firstn]. apply (filter_lt_nil _ n); [easy|lia].
    + destruct Hc as [Hx Hc]. cbn [filter firstn].
      destruct (e_idx x <? n + N.of_nat (S k)) eqn:E; [|lia]. f_equal.
      rewrite <- (IH (n + 1) k Hc). replace (n + N.of_nat (S k)) with (n + 1 + N.of_nat k) by lia. reflexivity.
Qed.

Lemma reset_case : forall p es, p_wf p -> pb_idx p = 0 -> contig 1 es ->
  (forall e', In e' (pents p) -> exists e, In e es /\ e_idx e = e_idx e') -> consistent_with p es ->
  match dropw (agree p) es with
  | [] => pents p = es
  | d :: rest => filter (fun e => e_idx e <? e_idx d) (pents p) ++ d :: rest = es
  end.
Proof.
  intros p es [Hc [Hm Hz]] Hpb Hce Hcov Hcons. rewrite Hpb in Hc. replace (0 + 1) with 1 in Hc by lia.
  destruct (dropw_split (agree p) es) as [A [HA1 HA2]].
  assert (incl A (pents p)) as Hincl.
  { intros a Ha. assert (In a es) as Hae by (rewrite HA1; apply in_or_app; now left).
    specialize (HA2 a Ha). unfold agree in HA2.
    destruct (p_term_at p (e_idx a)) as [t|] eqn:Et; [|easy]. pose proof (contig_in _ _ _ Hce Hae).
    destruct (pta_some_in p (e_idx a) t) as [e0 [E1 [E2 E3]]]; [lia|easy|].
    assert (a = e0) as ->; [|easy]. apply Hcons; auto. lia. }
  pose proof Hce as Hce'. rewrite HA1 in Hce'. apply contig_app in Hce'. destruct Hce' as [HcA HcD].
  pose proof (contig_prefix A (pents p) 1 HcA Hc Hincl) as HAp.
  destruct (dropw (agree p) es) as [|d rest] eqn:ED.
  - rewrite app_nil_r in HA1. subst A.
    assert (incl (pents p) es) as Hincl2.
    { intros e' He'. destruct (Hcov e' He') as [e [E1 E2]].
      assert (e = e') as <-; [|easy].
      apply (contig_unique (pents p) 1); [exact Hc|apply Hincl; exact E1|exact He'|exact E2]. }
    pose proof (contig_prefix (pents p) es 1 Hc Hce Hincl2) as HLp.
    assert (length es = length (pents p)) as Hlen.
    { apply (f_equal (@length _)) in HAp, HLp. rewrite firstn_length in HAp, HLp. lia. }
    rewrite Hlen, firstn_all in HAp. easy.
  - destruct HcD as [Hd _]. rewrite Hd. rewrite filter_lt_firstn by easy. rewrite <- HAp. easy.
Qed.

Lemma tail_ok : forall b d rest, Inv b -> p_wf (abs b) -> contig (e_idx d) (d :: rest) -> e_idx d <> 0 ->
  (forall e, In e (d :: rest) -> e_term e <> 0) -> idx_bounded (d :: rest) ->
  let b' := if e_idx d <=? bmax b
            then b_insert (b_remove_range b (e_idx d) 18446744073709551615) (d :: rest)
            else b_append b (d :: rest) in
  Inv b' /\ abs b' = {| pb_idx := pg_idx b; pb_term := pg_term b;
                        pents := filter (fun e => e_idx e <? e_idx d) (ents b) ++ d :: rest |}.
Proof.
  intros b d rest HI Hwf HcD Hd Ht Hbd. destruct (wf_facts b Hwf) as [Hc [Hnz _]]. cbv zeta.
  destruct (e_idx d <=? bmax b) eqn:E.
  - pose proof (remove_range_ok b (e_idx d) 18446744073709551615 HI Hnz) as HI1.
    set (b1 := b_remove_range b (e_idx d) 18446744073709551615) in *.
    assert (ents b1 = filter (fun e => e_idx e <? e_idx d) (ents b)) as Hb1.
    { unfold b1, b_remove_range. cbn [ents]. apply filter_ext_in. intros e He. apply in_range_hi.
      destruct HI as [_ [_ [Hb _]]]. apply Hb. easy. }
    destruct (insert_ok b1 (d :: rest) (e_idx d) HI1) as [I1 [I2 [I3 I4]]]; auto; try easy.
    + intros x Hx. rewrite Hb1 in Hx. apply filter_In in Hx. apply Hnz. tauto.
    + intros x Hx. rewrite Hb1 in Hx. apply filter_In in Hx. lia.
    + split; [easy|]. apply abs_ext; [rewrite I3; reflexivity|rewrite I4; reflexivity|]. rewrite I2, Hb1. reflexivity.
  - assert (forall x, In x (ents b) -> e_idx x < e_idx d) as Hlt.
    { intros x Hx. destruct (bmax_facts b HI Hwf) as [_ B1]. destruct B1 as [_ [B2 _]]; [intros E0; rewrite E0 in Hx; easy|].
      pose proof (contig_in _ _ _ Hc Hx). lia. }
    unfold b_append. destruct (insert_ok b (d :: rest) (e_idx d) HI) as [I1 [I2 [I3 I4]]]; auto; try easy.
    split; [easy|]. apply abs_ext; [easy|easy|]. rewrite I2, filter_lt_all by easy. reflexivity.
Qed.

Lemma bmax_ltb : forall b i, Inv b -> p_wf (abs b) -> pg_idx b < i -> (bmax b <? i) = (p_last_idx (abs b) <? i).
Proof.
  intros b i HI Hwf Hi. destruct (wf_facts b Hwf) as [Hc _]. destruct (bmax_facts b HI Hwf) as [B0 B1].
  pose proof (p_last_idx_len (abs b) Hc) as Hl. cbn [abs pb_idx pents] in Hl.
  destruct (ents b) as [|x l] eqn:E.
  - destruct B0 as [B0 _]; [easy|]. rewrite B0, Hl. cbn [length]. lia.
  - destruct B1 as [_ [_ B1]]; [easy|]. rewrite B1. reflexivity.
Qed.

Lemma filter_ok : forall b prev pterm es, Inv b -> p_wf (abs b) -> shaped (abs b) (OFilter prev pterm es) ->
  Inv (fst (b_filter_append b prev pterm es)) /\
  abs (fst (b_filter_append b prev pterm es)) = fst (p_filter_append (abs b) prev pterm es) /\
  snd (b_filter_append b prev pterm es) = snd (p_filter_append (abs b) prev pterm es).
Proof.
  intros b prev pterm es HI Hwf [Hce [Hme [Hbe [H0 Hr]]]].
  destruct (wf_facts b Hwf) as [Hc [Hnz Htnz]].
  assert (forall e, In e es -> e_term e <> 0) as Hte.
  { intros e He. pose proof (tm_in _ _ _ Hme He). lia. }
  set (spec := p_filter_append (abs b) prev pterm es).
  set (Q := fun br : buf * option (N * N) => Inv (fst br) /\ abs (fst br) = fst spec /\ snd br = snd spec).
  change (Q (b_filter_append b prev pterm es)).
  unfold b_filter_append. cbv zeta.
  destruct ((prev =? 0) && (pterm =? 0)) eqn:Ez.
  - (* the reset branch *)
    assert (prev = 0) by lia. assert (pterm = 0) by lia. subst prev pterm.
    destruct Hr as [Hpb [_ [Hcov Hcons]]]; [easy|].
    replace (0 + 1) with 1 in Hce by lia.
    pose proof (reset_case (abs b) es Hwf Hpb Hce Hcov Hcons) as HR.
    assert (spec = match dropw (agree (abs b)) es with
                   | [] => (abs b, lid_of (last_entry es))
                   | d :: rest => ({| pb_idx := pb_idx (abs b); pb_term := pb_term (abs b);
                        pents := filter (fun e => e_idx e <? e_idx d) (pents (abs b)) ++ d :: rest |},
                        lid_of (last_entry es)) end) as Hspec.
    { unfold spec, p_filter_append, p_prev_matches. rewrite Ez, drop_agreeing_dropw. reflexivity. }
    unfold Q. cbn [fst snd]. rewrite Hspec.
    destruct es as [|e0 es'] eqn:Ees.
    + cbn [dropw] in *. cbn [fst snd]. unfold b_append, b_insert. split; [apply reset_inv|]. split; [|easy].
      unfold abs, b_reset. cbn [pg_idx pg_term ents]. cbn [abs pents] in HR. rewrite HR. reflexivity.
    + rewrite <- Ees in *. unfold b_append.
      destruct (insert_ok (b_reset b) es 1 (reset_inv b)) as [I1 [I2 [I3 I4]]]; auto; try easy.
      { rewrite Ees. easy. }
      split; [easy|]. split.
      * cbn [app b_reset ents pg_idx pg_term] in I2, I3, I4. rewrite (abs_ext _ _ _ _ I3 I4 I2).
        destruct (dropw (agree (abs b)) es) as [|d rest]; cbn [fst].
        -- cbn [abs pents] in HR. rewrite <- HR. reflexivity.
        -- rewrite HR. reflexivity.
      * destruct (dropw (agree (abs b)) es); reflexivity.
  - (* a real previous entry *)
    rewrite (entry_term_agree b prev HI Hwf).
    destruct (p_term_at (abs b) prev) as [t|] eqn:Ept.
    2: { assert (spec = (abs b, p_last_log_id (abs b))) as Hspec.
         { unfold spec, p_filter_append, p_prev_matches. rewrite Ez, Ept. reflexivity. }
         unfold Q. rewrite Hspec. cbn [fst snd]. split; [easy|]. split; [easy|]. apply last_log_id_agree; easy. }
    destruct (t =? pterm) eqn:Et; cbn [negb].
    2: { assert (spec = (abs b, p_last_log_id (abs b))) as Hspec.
         { unfold spec, p_filter_append, p_prev_matches. rewrite Ez, Ept, Et. reflexivity. }
         unfold Q. rewrite Hspec. cbn [fst snd]. split; [easy|]. split; [easy|]. apply last_log_id_agree; easy. }
    assert (p_prev_matches (abs b) prev pterm = true) as Hpm.
    { unfold p_prev_matches. rewrite Ept, Et. apply orb_true_r. }
    assert (prev = 0 -> pb_idx (abs b) = 0) as H1.
    { intros ->. exfalso. unfold p_term_at in Ept. destruct (lookup (pents (abs b)) 0) as [e|] eqn:El.
      - apply lookup_some in El. destruct El as [E1 E2]. apply (Hnz e); easy.
      - destruct ((0 <? pb_idx (abs b)) && (0 =? pb_idx (abs b))) eqn:E2; [lia|easy]. }
    pose proof (prev_good _ _ _ Hwf H0 H1 Hpm) as Hg.
    assert (terms_mono pterm es) as Hme' by (eapply tm_weaken; [|eauto]; lia).
    pose proof (dropw_good (abs b) Hwf es prev pterm Hce Hme' Hg) as HD.
    assert (spec = match dropw (agree (abs b)) es with
                   | [] => (abs b, lid_of (last_entry es))
                   | d :: rest => ({| pb_idx := pb_idx (abs b); pb_term := pb_term (abs b);
                        pents := filter (fun e => e_idx e <? e_idx d) (pents (abs b)) ++ d :: rest |},
                        lid_of (last_entry es)) end) as Hspec.
    { unfold spec, p_filter_append. rewrite Hpm, drop_agreeing_dropw. reflexivity. }
    assert (forall e, In e es -> pg_idx b < e_idx e) as Hes_lo.
    { intros e He. pose proof (contig_in _ _ _ Hce He). destruct Hg as [Hg _]. cbn [abs pb_idx] in Hg. lia. }
    assert (forall e, In e es ->
      ((bmax b <? e_idx e) || negb (match b_entry_term b (e_idx e) with Some t' => t' =? e_term e | None => false end))
      = negb (agree (abs b) e)) as Hpred.
    { intros e He. rewrite entry_term_agree by easy. unfold agree. rewrite (bmax_ltb b (e_idx e)) by auto.
      destruct (p_term_at (abs b) (e_idx e)) as [t'|]; [lia|].
      destruct (p_last_idx (abs b) <? e_idx e); reflexivity. }
    (* what the tail insertion does, for the two slow-path branches and the fast path *)
    assert (forall d rest, dropw (agree (abs b)) es = d :: rest ->
              let b' := if e_idx d <=? bmax b
                        then b_insert (b_remove_range b (e_idx d) 18446744073709551615) (d :: rest)
                        else b_append b (d :: rest) in
              Q (b', lid_of (last_entry es))) as Htail.
    { intros d rest ED. rewrite ED in HD, Hspec. destruct HD as [j' [tj' [[Hj' _] [HcD _]]]].
      assert (forall e, In e (d :: rest) -> In e es) as Hsub.
      { intros e He. apply (dropw_incl (agree (abs b))). rewrite ED. easy. }
      pose proof HcD as [Hd _].
      destruct (tail_ok b d rest HI Hwf) as [T1 T2]; auto.
      - rewrite Hd. easy.
      - lia.
      - intros e He. apply Hbe. auto.
      - cbv zeta. unfold Q. rewrite Hspec. cbn [fst snd]. split; [easy|]. split; [|easy]. rewrite T2. reflexivity. }
    set (skip := take_while (fun e => e_idx e <=? bmax b) es).
    destruct (take_while_spec (fun e => e_idx e <=? bmax b) es) as [Hov Htl]. fold skip in Hov, Htl.
    match goal with |- Q (if ?c then _ else _) => destruct c eqn:Eos end.
    + (* fast path *)
      assert (dropw (agree (abs b)) es = skipn skip es) as HDeq.
      { apply dropw_skipn.
        - destruct (firstn skip es) as [|first ov'] eqn:Eov; [easy|]. rewrite <- Eov in *.
          assert (forall e, In e (firstn skip es) -> In e es) as Hsub.
          { intros e He. rewrite <- (firstn_skipn skip es). apply in_or_app. now left. }
          pose proof Hce as Hce2. rewrite <- (firstn_skipn skip es) in Hce2. apply contig_app in Hce2.
          destruct Hce2 as [Hcov _].
          assert (firstn skip es <> []) as Hne by (rewrite Eov; easy).
          destruct (last_entry_contig _ _ Hcov Hne) as [lo [L1 [L2 L3]]]. rewrite L1 in Eos.
          assert (In first (firstn skip es)) as Hfi by (rewrite Eov; now left).
          assert (sg_ls (sg b) <= e_idx first /\ e_term first = sg_lt (sg b) /\ e_term lo = sg_lt (sg b)) as [S1 [S2 S3]] by lia.
          intros e He. pose proof (Hov e He) as Hle. pose proof (Hes_lo e (Hsub e He)) as Hlo.
          pose proof (contig_in _ _ _ Hcov He) as Hie. pose proof (contig_in _ _ _ Hcov Hfi) as Hif.
          assert (e_idx first = prev + 1) as Hfp by (rewrite Eov in Hcov; destruct Hcov; easy).
          assert (e_term first <= e_term e) as Ht1.
          { apply (tm_ordered es (prev + 1) (N.max 1 pterm)); auto. lia. }
          assert (e_term e <= e_term lo) as Ht2.
          { apply (tm_ordered es (prev + 1) (N.max 1 pterm)); auto. lia. }
          pose proof (Hte first (Hsub _ Hfi)) as Htf.
          destruct (bmax_facts b HI Hwf) as [B0 B1].
          assert (ents b <> []) as HLne. { intros E0. destruct (B0 E0) as [B _]. lia. }
          destruct (B1 HLne) as [Bm [Bx Bl]].
          destruct (lookup_contig _ _ (e_idx e) Hc) as [e0 [E1 [E2 E3]]]; [lia|].
          assert (seg_get (sg b) (e_idx e) = Some (sg_lt (sg b))) as Hsg.
          { unfold seg_get. destruct (sg_lt (sg b) =? 0) eqn:Z; [lia|].
            destruct (sg_ls (sg b) <=? e_idx e) eqn:Z2; [easy|lia]. }
          destruct HI as [_ [_ [_ [_ [_ Hs]]]]]. pose proof (Hs _ _ _ Hsg E2 E3) as Hte0.
          unfold agree. rewrite <- E3. rewrite (pta_in (abs b) e0) by easy. lia.
        - destruct (skipn skip es) as [|d rest] eqn:Esk; [easy|].
          assert (In d es) as Hd. { rewrite <- (firstn_skipn skip es), Esk. apply in_or_app. right. now left. }
          pose proof (Hpred d Hd) as Hp. destruct (agree (abs b) d); [|easy]. cbn [negb] in Hp. lia. }
      destruct (skipn skip es) as [|d rest] eqn:Esk.
      * rewrite HDeq in Hspec. unfold Q. rewrite Hspec. cbn [fst snd]. easy.
      * pose proof (Htail d rest HDeq) as HT. cbv zeta in HT.
        destruct (e_idx d <=? bmax b) eqn:E; [lia|].
        replace (last_entry (d :: rest)) with (last_entry es); [easy|].
        rewrite <- Esk. symmetry. apply skipn_last_entry. rewrite Esk. easy.
    + (* slow path: scan for the first conflict *)
      rewrite (position_ext _ (fun e => negb (agree (abs b) e)) es Hpred).
      pose proof (dropw_position (agree (abs b)) es) as HP.
      destruct (position (fun e => negb (agree (abs b) e)) es) as [pos|].
      * destruct HP as [HP1 HP2]. destruct (skipn pos es) as [|d rest] eqn:Esk; [easy|].
        pose proof (Htail d rest HP1) as HT. cbv zeta in HT.
        replace (last_entry (d :: rest)) with (last_entry es).
        2: { rewrite <- Esk. symmetry. apply skipn_last_entry. rewrite Esk. easy. }
        destruct (e_idx d <=? bmax b); easy.
      * rewrite HP in Hspec. unfold Q. rewrite Hspec. cbn [fst snd]. easy.
Qed.

(* ------------------------------------------------------------------ *)
(* 12. the refinement theorems                                          *)
(* ------------------------------------------------------------------ *)
Lemma append_ok : forall b es, Inv b -> p_wf (abs b) -> shaped (abs b) (OAppend es) ->
  Inv (b_append b es) /\ abs (b_append b es) = p_append (abs b) es.
Proof.
  intros b es HI Hwf [Hne [Hce [Hme Hbe]]]. destruct (wf_facts b Hwf) as [Hc [Hnz _]].
  pose proof (p_last_idx_len (abs b) Hc) as Hl. unfold b_append.
  destruct (insert_ok b es (p_last_idx (abs b) + 1) HI) as [I1 [I2 [I3 I4]]]; auto.
  - intros x Hx. pose proof (contig_in _ _ _ Hc Hx). cbn [abs pb_idx pents] in Hl. lia.
  - lia.
  - intros e He. pose proof (tm_in _ _ _ Hme He). lia.
  - split; [easy|]. apply abs_ext; easy.
Qed.

Theorem refine_step : forall b o, Inv b -> p_wf (abs b) -> shaped (abs b) o ->
  Inv (fst (step b o)) /\ p_wf (abs (fst (step b o))) /\ abs (fst (step b o)) = fst (p_step (abs b) o)
  /\ (match o with OAlloc _ => True | _ => snd (step b o) = snd (p_step (abs b) o) end).
Proof.
  intros b o HI Hwf Hs. pose proof (p_step_wf (abs b) o Hwf Hs) as Hwf'.
  assert (Inv (fst (step b o)) /\ abs (fst (step b o)) = fst (p_step (abs b) o) /\
          (match o with OAlloc _ => True | _ => snd (step b o) = snd (p_step (abs b) o) end)) as [R1 [R2 R3]].
  { destruct o as [es|prev pterm es|cidx cterm| |c]; cbn [step p_step fst snd].
    - destruct (append_ok b es HI Hwf Hs). easy.
    - destruct (filter_ok b prev pterm es HI Hwf Hs) as [F1 [F2 F3]].
      destruct (b_filter_append b prev pterm es) as [b' r]. destruct (p_filter_append (abs b) prev pterm es) as [p' r'].
      cbn [fst snd] in *. rewrite F3. easy.
    - destruct (purge_ok b cidx cterm HI Hwf). easy.
    - split; [apply reset_inv|]. easy.
    - unfold b_alloc. cbn [fst snd]. split; [|easy]. destruct HI as [I1 [I2 [I3 [I4 I5]]]]. unfold Inv. cbn [ents bmin bmax tfirst tlast sg]. easy. }
  rewrite R2. easy.
Qed.

Fixpoint shaped_run (p : plog) (ops : list op) : Prop :=
  match ops with [] => True | o :: os => shaped p o /\ shaped_run (fst (p_step p o)) os end.

Theorem refine_run : forall ops b, Inv b -> p_wf (abs b) -> shaped_run (abs b) ops ->
  let b' := fold_left (fun s o => fst (step s o)) ops b in
  Inv b' /\ p_wf (abs b') /\ abs b' = fold_left (fun s o => fst (p_step s o)) ops (abs b).
Proof.
  induction ops as [|o ops IH]; intros b HI Hwf Hs; cbn [fold_left].
  - easy.
  - destruct Hs as [Hs1 Hs2]. destruct (refine_step b o HI Hwf Hs1) as [R1 [R2 [R3 _]]].
    rewrite <- R3 in Hs2. destruct (IH _ R1 R2 Hs2) as [A [B C]].
    split; [exact A|]. split; [exact B|]. rewrite C, R3. reflexivity.
Qed.

(* non-vacuity: a shaped run with an append, a conflict truncation, a purge and another append *)
Definition E (i t : N) : entry := {| e_idx := i; e_term := t; e_pl := i + 100 * t |}.
Definition demo_ops : list op :=
  [ OAppend [E 1 1; E 2 1; E 3 2];
    OFilter 1 1 [E 2 1; E 3 3; E 4 3];
    OPurge 2 1;
    OAppend [E 5 4] ].

Lemma idx_bounded_forallb : forall es, forallb (fun e => e_idx e <=? U64_MAX) es = true -> idx_bounded es.
Proof. intros es H e He. rewrite forallb_forall in H. specialize (H e He). lia. Qed.

Ltac step_state :=
  match goal with |- shaped_run ?p (?o :: ?os) =>
    let p' := eval vm_compute in (fst (p_step p o)) in
    change (shaped p o /\ shaped_run p' os) end.
Ltac in_cases :=
  let e := fresh "e" in let H := fresh "H" in
  intros e H; cbn [In pents] in H;
  repeat (destruct H as [<-|H]; [cbn [e_idx e_term]; lia|]); destruct H.
Ltac s_bounded := apply idx_bounded_forallb; vm_compute; reflexivity.
Ltac shape_lists :=
  split; [vm_compute; repeat split|];
  split; [vm_compute; repeat split; easy|].

Example demo_shaped : shaped_run (abs buf0) demo_ops.
Proof.
  unfold demo_ops.
  step_state. split.
  { unfold shaped. split; [easy|]. shape_lists. s_bounded. }
  step_state. split.
  { unfold shaped. shape_lists. split; [s_bounded|]. split; [lia|]. intros [H _]. lia. }
  step_state. split.
  { unfold shaped. split; [lia|]. split; [cbn [pb_idx]; lia|]. split; [in_cases|].
    split; [vm_compute; easy|]. split; [lia|]. split; in_cases. }
  step_state. split.
  { unfold shaped. split; [easy|]. shape_lists. s_bounded. }
  exact I.
Qed.

Example demo_result :
  abs (fold_left (fun s o => fst (step s o)) demo_ops buf0) =
  {| pb_idx := 2; pb_term := 1; pents := [E 3 3; E 4 3; E 5 4] |}.
Proof. vm_compute. reflexivity. Qed.

Print Assumptions refine_run.
Print Assumptions answers_agree.
Print Assumptions p_filter_append_gapfree.
