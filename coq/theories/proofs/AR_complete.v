(* AR_complete — leader completeness (T3). *)
From Coq Require Import NArith List Bool Lia ZifyBool ZifyN PeanoNat.
From DE Require Import AbstractRaft.
From DE.proofs Require Import AR_election AR_logs.
Import ListNotations.
Open Scope N_scope.

Definition holds (s : astate) (t i : N) (L : list aentry) : Prop := prefix L i = prefix (g_llog s t) i.

(* v accepted the leader log of term t up to (at least) i, or is the leader of t *)
Definition acked (s : astate) (v t i : N) : Prop :=
  i <= N.of_nat (length (g_llog s t)) /\
  ((exists m, i <= m /\ In (v,t,m) (g_acks s)) \/ In (v,t) (g_leaders s)).

Definition own (s : astate) (t i : N) : Prop := 0 < i /\ term_at (g_llog s t) i = t.

(* every existing leader of a term strictly between t and hi holds the prefix *)
Definition mid (s : astate) (t i hi : N) : Prop :=
  forall t'' l'', t < t'' -> t'' < hi -> In (l'',t'') (g_leaders s) -> holds s t i (g_llog s t'').

Definition covers (last : N * N) (t i : N) : Prop :=
  t < snd last \/ (snd last = t /\ i <= fst last).

Definition qacked (nodes : list N) (s : astate) (t i : N) : Prop :=
  exists vs, majority nodes vs /\ forall v, In v vs -> acked s v t i.

(* ------------------------------------------------------------------ *)
(* small facts                                                          *)
(* ------------------------------------------------------------------ *)
Lemma prefix_app_le (l x : list aentry) i : i <= N.of_nat (length l) -> prefix (l ++ x) i = prefix l i.
Proof. intros H. unfold prefix. apply firstn_app_le. lia. Qed.

Lemma term_at_app_le (l x : list aentry) i : i <= N.of_nat (length l) -> term_at (l ++ x) i = term_at l i.
Proof.
  intros H. unfold term_at. destruct (N.eqb_spec i 0); [reflexivity|].
  rewrite nth_error_app1 by lia. reflexivity.
Qed.

Lemma last_id_term l : snd (last_id l) = term_at l (N.of_nat (length l)).
Proof.
  unfold last_id, term_at. cbn [snd].
  induction l as [|e l _] using rev_ind; [reflexivity|].
  rewrite rev_app_distr. cbn [rev app]. rewrite app_length. cbn [length].
  destruct (N.eqb_spec (N.of_nat (length l + 1)) 0); [lia|].
  replace (N.to_nat (N.of_nat (length l + 1) - 1)) with (length l) by lia.
  rewrite nth_error_app2 by lia. rewrite Nat.sub_diag. reflexivity.
Qed.

Lemma last_id_fst l : fst (last_id l) = N.of_nat (length l).
Proof. reflexivity. Qed.

Lemma covers_up_to_date mine cand t i :
  covers mine t i -> up_to_date mine cand = true -> covers cand t i.
Proof. unfold covers, up_to_date. intros [H|[H1 H2]] U; lia. Qed.

Lemma term_at_prefix_eq l L i k : prefix l i = prefix L i -> 0 < k -> k <= i -> term_at l k = term_at L k.
Proof.
  intros E H0 Hk. unfold term_at. destruct (N.eqb_spec k 0); [lia|].
  unfold prefix in E. rewrite (firstn_eq_nth _ (N.to_nat (k - 1)) _ _ E) by lia. reflexivity.
Qed.

(* a log that holds (t,i) with entry i of term t has a last id that covers (t,i) *)
Lemma covers_of_holds s t i l :
  holds s t i l -> own s t i -> i <= N.of_nat (length (g_llog s t)) -> sorted l -> covers (last_id l) t i.
Proof.
  intros Hh [H0 Ht] Hi S. unfold holds in Hh.
  pose proof (prefix_len _ _ _ Hh Hi) as Hl.
  pose proof (term_at_prefix_eq _ _ i i Hh H0 (N.le_refl _)) as Et. rewrite Ht in Et.
  pose proof (sorted_nondecreasing _ S i (N.of_nat (length l)) H0 Hl (N.le_refl _)) as Hm.
  unfold covers. rewrite last_id_term, last_id_fst. lia.
Qed.

(* a glog-log whose last id covers (t,i) holds (t,i), provided the leader logs of the terms in between do *)
Lemma covers_to_holds G L' t i tb :
  glog G L' -> covers (last_id L') t i -> 0 < i ->
  (forall e, In e L' -> a_term e < tb) ->
  (forall lt, t < lt -> lt < tb -> G lt <> [] -> prefix (G lt) i = prefix (G t) i) ->
  (forall e, In e (G t) -> a_term e <= t) -> i <= N.of_nat (length (G t)) ->
  prefix L' i = prefix (G t) i.
Proof.
  intros GL C H0 Hb Hmid Ht Hi.
  unfold covers in C. rewrite last_id_term, last_id_fst in C.
  set (n := N.of_nat (length L')) in *.
  assert (Hn : 0 < n).
  { destruct C as [C|[_ C]]; [|lia]. unfold term_at in C.
    destruct (N.eqb_spec n 0); lia. }
  destruct (has_index_nth L' n) as (e & He & Te & Se); [apply has_index_spec; lia|].
  pose proof (GL _ _ He) as E. rewrite Se in E. rewrite <- Te in E.
  (* E : firstn n L' = firstn n (G lt) *)
  set (lt := term_at L' n) in *.
  assert (EL : prefix L' n = prefix (G lt) n) by exact E.
  destruct C as [C|[C1 C2]].
  - assert (Hlt : lt < tb). { rewrite Te. apply Hb. eapply nth_error_In; eauto. }
    assert (Hne : G lt <> []).
    { intros Z. rewrite Z in E. rewrite firstn_nil in E. apply (f_equal (@length _)) in E.
      rewrite firstn_length in E. cbn in E. lia. }
    pose proof (Hmid lt C Hlt Hne) as Hm.
    destruct (N.le_gt_cases i n) as [Hin|Hin].
    + rewrite <- Hm. eapply prefix_le; eauto.
    + exfalso.
      assert (E1 : nth_error (G lt) (N.to_nat (n - 1)) = Some e).
      { rewrite <- He. symmetry. apply (firstn_eq_nth (N.to_nat n)); [exact E|lia]. }
      assert (E2 : nth_error (G t) (N.to_nat (n - 1)) = Some e).
      { rewrite <- E1. symmetry. apply (firstn_eq_nth (N.to_nat i)); [exact Hm|lia]. }
      apply nth_error_In in E2. apply Ht in E2. lia.
  - rewrite C1 in EL. eapply prefix_le; eauto.
Qed.

Section Complete.
Variable nodes : list N.

(* ------------------------------------------------------------------ *)
(* monotonicity of the ghost history over one step                      *)
(* ------------------------------------------------------------------ *)
Lemma leaders_mono s s' : astep nodes s s' -> forall x, In x (g_leaders s) -> In x (g_leaders s').
Proof. intros H x Hx. step_cases H; auto. now right. Qed.

Lemma votes_mono s s' : astep nodes s s' -> forall x, In x (g_votes s) -> In x (g_votes s').
Proof. intros H x Hx. step_cases H; auto; now right. Qed.

Lemma acks_mono s s' : astep nodes s s' -> forall x, In x (g_acks s) -> In x (g_acks s').
Proof. intros H x Hx. step_cases H; auto; now right. Qed.

Lemma llog_prefix_step s s' tau i : binv nodes s -> astep nodes s s' ->
  i <= N.of_nat (length (g_llog s tau)) -> prefix (g_llog s' tau) i = prefix (g_llog s tau) i.
Proof.
  intros B H Hi. destruct (step_gext nodes s s' B H tau) as (x & -> & _). now apply prefix_app_le.
Qed.

Lemma llog_term_at_step s s' tau i : binv nodes s -> astep nodes s s' ->
  i <= N.of_nat (length (g_llog s tau)) -> term_at (g_llog s' tau) i = term_at (g_llog s tau) i.
Proof.
  intros B H Hi. destruct (step_gext nodes s s' B H tau) as (x & -> & _). now apply term_at_app_le.
Qed.

Lemma llog_len_step s s' tau : binv nodes s -> astep nodes s s' ->
  N.of_nat (length (g_llog s tau)) <= N.of_nat (length (g_llog s' tau)).
Proof.
  intros B H. destruct (step_gext nodes s s' B H tau) as (x & -> & _). rewrite app_length. lia.
Qed.

Lemma acked_fwd s s' v t i : binv nodes s -> astep nodes s s' -> acked s v t i -> acked s' v t i.
Proof.
  intros B H [Hi Ha]. split.
  - pose proof (llog_len_step s s' t B H). lia.
  - destruct Ha as [(m & Hm & Hin)|Hin]; [left; exists m; split; auto; eapply acks_mono; eauto|].
    right. eapply leaders_mono; eauto.
Qed.

Lemma own_fwd s s' t i : binv nodes s -> astep nodes s s' ->
  i <= N.of_nat (length (g_llog s t)) -> own s t i -> own s' t i.
Proof. intros B H Hi [H0 Ht]. split; [exact H0|]. now rewrite (llog_term_at_step s s' t i B H Hi). Qed.

Lemma own_back s s' t i : binv nodes s -> astep nodes s s' ->
  i <= N.of_nat (length (g_llog s t)) -> own s' t i -> own s t i.
Proof. intros B H Hi [H0 Ht]. split; [exact H0|]. now rewrite <- (llog_term_at_step s s' t i B H Hi). Qed.

Lemma acked_le s v t i : binv nodes s -> acked s v t i -> t <= a_cur s v.
Proof.
  intros B [_ [(m & _ & Hin)|Hin]]; [eapply b_ack_le; eauto|eapply b_leader_le; eauto].
Qed.

(* the obligations on the intermediate leaders can only grow *)
Lemma mid_back s s' t i hi : binv nodes s -> linv s -> astep nodes s s' ->
  i <= N.of_nat (length (g_llog s t)) -> mid s' t i hi -> mid s t i hi.
Proof.
  intros B L H Hi M t'' l'' H1 H2 Hin.
  pose proof (M t'' l'' H1 H2 (leaders_mono s s' H _ Hin)) as Hh. unfold holds in *.
  rewrite (llog_prefix_step s s' t i B H Hi) in Hh.
  destruct (step_gext nodes s s' B H t'') as (x & E & Hx). rewrite E in Hh.
  destruct x as [|e x]; [now rewrite app_nil_r in Hh|].
  destruct (N.le_gt_cases i (N.of_nat (length (g_llog s t'')))) as [Hle|Hgt].
  - now rewrite prefix_app_le in Hh.
  - exfalso. unfold prefix in Hh.
    pose proof (firstn_eq_nth _ (length (g_llog s t'')) _ _ Hh ltac:(lia)) as Hn.
    rewrite nth_error_app2 in Hn by lia. rewrite Nat.sub_diag in Hn. cbn in Hn.
    symmetry in Hn. apply nth_error_In in Hn. apply (l_llog_terms _ L) in Hn.
    rewrite (Hx (ex_intro _ l'' Hin) e (or_introl eq_refl)) in Hn. lia.
Qed.

Lemma mid_weaken s t i hi hi' : hi' <= hi -> mid s t i hi -> mid s t i hi'.
Proof. intros Hle M t'' l'' H1 H2 Hin. apply (M t'' l''); auto. lia. Qed.

(* what is newly acked in a step is held by the acker, who is in that term *)
Lemma acked_step s s' v' t' i : binv nodes s -> linv s -> astep nodes s s' ->
  acked s' v' t' i -> acked s v' t' i \/ (a_cur s' v' = t' /\ holds s' t' i (a_log s' v')).
Proof.
  intros B L H [Hi Ha]. unfold holds. step_cases H; try (left; split; assumption).
  - (* SBecomeLeader *)
    unfold upd in *. destruct (N.eqb_spec t' (a_cur s0 n)) as [->|Hne].
    + destruct Ha as [(m & Hm & Hin)|[Hin|Hin]].
      * destruct (b_ack_leader _ _ B _ _ _ Hin) as [l0 Hl0]. exfalso. eapply Hnl; eauto.
      * inversion Hin; subst. right. split; reflexivity.
      * exfalso. eapply Hnl; eauto.
    + left. split; [exact Hi|]. destruct Ha as [Ha|[Hin|Hin]]; auto.
      inversion Hin; subst. congruence.
  - (* SLeaderAppend *)
    unfold upd in *. destruct (N.eqb_spec t' (a_cur s0 n)) as [->|Hne]; [|left; split; assumption].
    destruct Ha as [(m & Hm & Hin)|Hin].
    + left. pose proof (b_ack_len _ _ B _ _ _ Hin). split; [lia|]. left. eauto.
    + pose proof (b_leader_uniq _ _ B _ _ _ Hin Hl). subst v'. right.
      split; [reflexivity|]. now rewrite N.eqb_refl.
  - (* SAppendAccept *)
    destruct Ha as [(m & Hm & [Hin|Hin])|Hin].
    + inversion Hin; subst. right. unfold upd. rewrite N.eqb_refl. split; [reflexivity|].
      eapply prefix_le; [|exact Hm].
      eapply accept_result; eauto using l_glog_log, l_glog_llog.
    + left. split; [exact Hi|]. left. eauto.
    + left. split; [exact Hi|]. now right.
Qed.

Lemma holds_transfer s s' v' t' i : binv nodes s -> linv s -> astep nodes s s' ->
  acked s v' t' i -> holds s t' i (a_log s v') -> mid s' t' i (a_cur s' v' + 1) ->
  holds s' t' i (a_log s' v').
Proof.
  intros B L H A Hh M. pose proof (acked_le _ _ _ _ B A) as Hle'. destruct A as [Hi _].
  unfold holds in *. rewrite (llog_prefix_step s s' t' i B H Hi).
  pose proof (prefix_len _ _ _ Hh Hi) as Hlen.
  step_cases H; try exact Hh.
  - (* SLeaderAppend *)
    unfold upd. destruct (N.eqb_spec v' n) as [->|Hne]; [|exact Hh].
    now rewrite prefix_app_le.
  - (* SAppendAccept *)
    unfold upd in *. destruct (N.eqb_spec v' f) as [->|Hne]; [|exact Hh].
    assert (E : prefix (a_log s0 f) i = prefix (g_llog s0 t) i).
    { destruct (N.eqb_spec t' t) as [->|Hne]; [exact Hh|].
      rewrite Hh. symmetry. apply (M t l); auto; lia. }
    rewrite (accept_keeps _ _ prev k i Hprev E). congruence.
Qed.

(* ------------------------------------------------------------------ *)
(* the invariants                                                       *)
(* ------------------------------------------------------------------ *)
Record cinv (s : astate) : Prop := {
  c_V : forall v t i, acked s v t i -> mid s t i (a_cur s v + 1) -> holds s t i (a_log s v);
  c_W : forall v t i t' c last, acked s v t i -> own s t i -> t < t' ->
        In (v,t',c) (g_votes s) -> In (c,t',last) (g_cand s) -> mid s t i (t' + 1) -> covers last t i;
  c_C : forall c last, In (c, a_cur s c, last) (g_cand s) ->
        (forall m, ~ In (m, a_cur s c) (g_leaders s)) -> last_id (a_log s c) = last;
  c_E : forall l' t', In (l',t') (g_leaders s) ->
        exists Q, majority nodes Q /\ forall v, In v Q -> In (v,t',l') (g_votes s) /\
          forall t i, t < t' -> acked s v t i -> own s t i -> mid s t i t' -> holds s t i (g_llog s t');
  c_L : forall t, g_lcommit s t = 0 \/ (own s t (g_lcommit s t) /\ qacked nodes s t (g_lcommit s t))
}.

Lemma cinv_init : cinv ainit.
Proof.
  constructor; cbn; intros; try contradiction; auto.
  destruct H as [_ [(m & _ & [])|[]]].
Qed.

Lemma cV_step s s' : binv nodes s -> linv s -> cinv s -> astep nodes s s' ->
  forall v t i, acked s' v t i -> mid s' t i (a_cur s' v + 1) -> holds s' t i (a_log s' v).
Proof.
  intros B L C H v' t' i A M.
  destruct (acked_step s s' v' t' i B L H A) as [A0|[_ Hh]]; [|exact Hh].
  eapply holds_transfer; eauto.
  apply (c_V _ C); [exact A0|].
  eapply mid_weaken; [|eapply mid_back; eauto; apply A0].
  pose proof (cur_mono nodes s s' H v'). lia.
Qed.

Lemma cW_step s s' : binv nodes s -> linv s -> cinv s -> astep nodes s s' ->
  forall va ta i tv cv lastv, acked s' va ta i -> own s' ta i -> ta < tv ->
    In (va,tv,cv) (g_votes s') -> In (cv,tv,lastv) (g_cand s') -> mid s' ta i (tv + 1) ->
    covers lastv ta i.
Proof.
  intros B L C H va ta i tv cv lastv A O Ltv Vv Cc M.
  pose proof (binv_step nodes s s' B H) as B'.
  destruct (acked_step s s' va ta i B L H A) as [A0|[Ecur _]].
  2:{ pose proof (b_votes_le _ _ B' _ _ _ Vv). lia. }
  pose proof A0 as [Hi _].
  pose proof (own_back s s' ta i B H Hi O) as O0.
  pose proof (mid_back s s' ta i (tv + 1) B L H Hi M) as M0.
  clear A O M B'.
  step_cases H; try (eapply (c_W _ C); eauto; fail).
  - (* STimeout *)
    destruct Vv as [Ev|Vv]; destruct Cc as [Ec|Cc].
    + inversion Ev; inversion Ec; subst.
      apply (covers_of_holds s0); auto using l_sorted_log.
      apply (c_V _ C); [exact A0|]. eapply mid_weaken; [|exact M0]. lia.
    + inversion Ev; subst. pose proof (b_cand_le _ _ B _ _ _ Cc). lia.
    + inversion Ec; subst. destruct (b_vote_cand _ _ B _ _ _ Vv) as [l0 Hl0].
      pose proof (b_cand_le _ _ B _ _ _ Hl0). lia.
    + eapply (c_W _ C); eauto.
  - (* SVoteGrant *)
    destruct Vv as [Ev|Vv]; [|eapply (c_W _ C); eauto].
    inversion Ev; subst. rewrite (b_cand_uniq _ _ B _ _ _ _ Cc Hc).
    eapply covers_up_to_date; [|exact Hup].
    apply (covers_of_holds s0); auto using l_sorted_log.
    apply (c_V _ C); [exact A0|]. eapply mid_weaken; [|exact M0]. lia.
Qed.

Lemma cC_step s s' : binv nodes s -> cinv s -> astep nodes s s' ->
  forall cc lastc, In (cc, a_cur s' cc, lastc) (g_cand s') ->
    (forall m, ~ In (m, a_cur s' cc) (g_leaders s')) -> last_id (a_log s' cc) = lastc.
Proof.
  intros B C H cc lastc Cc Nl.
  step_cases H.
  - (* STimeout *)
    unfold upd in *. destruct (N.eqb_spec cc n) as [->|Hne].
    + destruct Cc as [Ec|Cc]; [now inversion Ec|].
      pose proof (b_cand_le _ _ B _ _ _ Cc). lia.
    + destruct Cc as [Ec|Cc]; [inversion Ec; congruence|]. eapply (c_C _ C); eauto.
  - (* SVoteGrant *)
    unfold upd in *. destruct (N.eqb_spec cc v) as [->|Hne]; [|eapply (c_C _ C); eauto].
    pose proof (b_cand_le _ _ B _ _ _ Cc). assert (E : t = a_cur s0 v) by lia. subst t.
    eapply (c_C _ C); eauto.
  - (* SVoteDeny *)
    unfold upd in *. destruct (N.eqb_spec cc v) as [->|Hne]; [|eapply (c_C _ C); eauto].
    pose proof (b_cand_le _ _ B _ _ _ Cc). lia.
  - (* SBecomeLeader *)
    eapply (c_C _ C); eauto. intros m Hm. eapply Nl. right. exact Hm.
  - (* SLeaderAppend *)
    unfold upd. destruct (N.eqb_spec cc n) as [->|Hne]; [|eapply (c_C _ C); eauto].
    exfalso. eapply Nl; eauto.
  - (* SAppendAccept *)
    unfold upd in *. destruct (N.eqb_spec cc f) as [->|Hne]; [|eapply (c_C _ C); eauto].
    exfalso. eapply Nl; eauto.
  - (* SAppendReject *)
    unfold upd in *. destruct (N.eqb_spec cc f) as [->|Hne]; [|eapply (c_C _ C); eauto].
    destruct Hex as [l0 Hl0]. exfalso. eapply Nl; eauto.
  - (* SAdvanceCommit *)
    eapply (c_C _ C); eauto.
Qed.

Lemma leader_dec (ls : list (N * N)) t : (exists m, In (m,t) ls) \/ (forall m, ~ In (m,t) ls).
Proof.
  induction ls as [|[a b] ls [IH|IH]].
  - right. intros m [].
  - left. destruct IH as [m Hm]. exists m. now right.
  - destruct (N.eqb_spec b t) as [->|Hne].
    + left. exists a. now left.
    + right. intros m [E|Hm]; [inversion E; congruence|eapply IH; eauto].
Qed.

Lemma llog_nonempty_leader s t : binv nodes s -> g_llog s t <> [] -> exists m, In (m,t) (g_leaders s).
Proof.
  intros B Hne. destruct (leader_dec (g_leaders s) t) as [E|Nl]; [exact E|].
  exfalso. apply Hne. now apply (b_llog_nil _ _ B).
Qed.

Lemma cE_old s s' : binv nodes s -> linv s -> cinv s -> astep nodes s s' ->
  forall l' t', In (l',t') (g_leaders s) ->
    exists Q, majority nodes Q /\ forall v, In v Q -> In (v,t',l') (g_votes s') /\
      forall t i, t < t' -> acked s' v t i -> own s' t i -> mid s' t i t' -> holds s' t i (g_llog s' t').
Proof.
  intros B L C H l' t' Hin.
  pose proof (binv_step nodes s s' B H) as B'.
  destruct (c_E _ C l' t' Hin) as (Q & M & HQ). exists Q. split; [exact M|].
  intros v Hv. destruct (HQ v Hv) as [Hvote HH]. split; [eapply votes_mono; eauto|].
  intros t i Hlt A O Mid.
  destruct (acked_step s s' v t i B L H A) as [A0|[Ecur _]].
  2:{ pose proof (b_votes_le _ _ B' _ _ _ (votes_mono s s' H _ Hvote)). lia. }
  pose proof A0 as [Hi _].
  pose proof (HH t i Hlt A0 (own_back s s' t i B H Hi O) (mid_back s s' t i t' B L H Hi Mid)) as Hh.
  unfold holds in *. pose proof (prefix_len _ _ _ Hh Hi) as Hi'.
  rewrite (llog_prefix_step s s' t i B H Hi), (llog_prefix_step s s' t' i B H Hi'). exact Hh.
Qed.

Lemma cE_step s s' : binv nodes s -> linv s -> cinv s -> astep nodes s s' ->
  forall l' t', In (l',t') (g_leaders s') ->
    exists Q, majority nodes Q /\ forall v, In v Q -> In (v,t',l') (g_votes s') /\
      forall t i, t < t' -> acked s' v t i -> own s' t i -> mid s' t i t' -> holds s' t i (g_llog s' t').
Proof.
  intros B L C H l' t' Hin.
  pose proof (cE_old s s' B L C H l' t') as Old.
  pose proof (binv_step nodes s s' B H) as B'.
  pose proof (fun v t i => acked_step s s' v t i B L H) as AS.
  pose proof (fun t i hi => mid_back s s' t i hi B L H) as MB.
  pose proof (fun t i => own_back s s' t i B H) as OB.
  step_cases H; try (apply Old; exact Hin).
  destruct Hin as [Enew|Hin]; [|apply Old; exact Hin].
  inversion Enew; subst l' t'. clear Old Enew.
  exists vs. split; [exact Hmaj|]. intros v Hv. split; [auto|].
  intros ta i Hlt A O Mid.
  destruct (AS v ta i A) as [A0|[Ecur _]].
  2:{ pose proof (b_votes_le _ _ B _ _ _ (Hvs v Hv)). lia. }
  pose proof A0 as [Hi _].
  pose proof (OB ta i Hi O) as O0. pose proof (MB ta i _ Hi Mid) as M0.
  assert (M1 : mid s0 ta i (a_cur s0 n + 1)).
  { intros t'' l'' H1 H2 Hl''. destruct (N.eqb_spec t'' (a_cur s0 n)) as [->|Hne].
    - exfalso. eapply Hnl; eauto.
    - apply (M0 t'' l''); auto. lia. }
  pose proof (c_W _ C v ta i (a_cur s0 n) n last A0 O0 Hlt (Hvs v Hv) Hc M1) as Cov.
  rewrite <- (c_C _ C n last Hc Hnl) in Cov.
  unfold holds. cbn [g_llog]. unfold upd. rewrite N.eqb_refl.
  destruct (N.eqb_spec ta (a_cur s0 n)) as [Eq|Hne]; [lia|].
  apply (covers_to_holds (g_llog s0) (a_log s0 n) ta i (a_cur s0 n)); auto.
  - apply l_glog_log; auto.
  - apply O0.
  - intros e He. pose proof (l_log_terms _ L _ _ He) as Hle.
    destruct (N.eqb_spec (a_term e) (a_cur s0 n)) as [Eq|Hne']; [|lia].
    exfalso. apply In_nth_error in He. destruct He as [j Hj].
    pose proof (l_glog_log _ L n _ _ Hj) as E. rewrite Eq, (b_llog_nil _ _ B _ Hnl), firstn_nil in E.
    apply (f_equal (@length _)) in E. rewrite firstn_length in E.
    apply nth_error_Some_lt in Hj. cbn [length] in E. lia.
  - intros lt H1 H2 Hne'. destruct (llog_nonempty_leader s0 lt B Hne') as [m Hm].
    apply (M0 lt m); auto.
  - intros e He. eapply l_llog_terms; eauto.
Qed.

Lemma qacked_fwd s s' t i : binv nodes s -> astep nodes s s' -> qacked nodes s t i -> qacked nodes s' t i.
Proof.
  intros B H (vs & M & Hv). exists vs. split; [exact M|]. intros v Hin. eapply acked_fwd; eauto.
Qed.

Lemma cL_step s s' : binv nodes s -> cinv s -> astep nodes s s' ->
  forall tc, g_lcommit s' tc = 0 \/ (own s' tc (g_lcommit s' tc) /\ qacked nodes s' tc (g_lcommit s' tc)).
Proof.
  intros B C H tc.
  assert (Old : g_lcommit s tc = 0 \/
                (own s' tc (g_lcommit s tc) /\ qacked nodes s' tc (g_lcommit s tc))).
  { destruct (c_L _ C tc) as [Z|[O Q]]; [now left|right]. split.
    - destruct Q as (vs & M & Hv). destruct vs as [|v0 vs].
      + destruct M as (_ & _ & M). cbn in M. lia.
      + destruct (Hv v0 (or_introl eq_refl)) as [Hi _]. eapply own_fwd; eauto.
    - eapply qacked_fwd; eauto. }
  step_cases H; try exact Old.
  unfold upd. destruct (N.eqb_spec tc (a_cur s0 n)) as [->|Hne]; [|exact Old].
  right. destruct (N.max_spec (g_lcommit s0 (a_cur s0 n)) N) as [[Hlt ->]|[Hge ->]].
  - pose proof (b_leader_log _ _ B _ Hl) as EL. split.
    + split; [lia|]. cbn [g_llog]. now rewrite <- EL.
    + exists vs. split; [exact Hmaj|]. intros v Hv. split.
      * cbn [g_llog]. rewrite <- EL. exact HN.
      * cbn [g_acks g_leaders]. destruct (Hvs v Hv) as [->|(m & Hm & Hin)]; [now right|left; eauto].
  - destruct Old as [Z|Old]; [lia|exact Old].
Qed.

Lemma cinv_step s s' : binv nodes s -> linv s -> cinv s -> astep nodes s s' -> cinv s'.
Proof.
  intros B L C H. constructor.
  - eapply cV_step; eauto.
  - eapply cW_step; eauto.
  - eapply cC_step; eauto.
  - eapply cE_step; eauto.
  - eapply cL_step; eauto.
Qed.

Lemma reach_cinv s : reach nodes s -> cinv s.
Proof.
  induction 1 as [|s s' R IH H]; [exact cinv_init|].
  eapply cinv_step; eauto using reach_binv, reach_linv.
Qed.

(* ------------------------------------------------------------------ *)
(* leader completeness, quorum form: within one state, by strong induction on the later term *)
(* ------------------------------------------------------------------ *)
Lemma complete_quorum s : cinv s ->
  forall t' l', In (l',t') (g_leaders s) -> forall t i, t < t' -> qacked nodes s t i -> own s t i ->
  holds s t i (g_llog s t').
Proof.
  intros C t'. induction t' as [t' IH] using (well_founded_induction N.lt_wf_0).
  intros l' Hin t i Hlt (vs & M & Hv) O.
  destruct (c_E _ C l' t' Hin) as (Q & MQ & HQ).
  destruct (majority_intersect _ _ _ M MQ) as (v & I1 & I2).
  destruct (HQ v I2) as [_ HH]. apply HH; auto.
  intros t'' l'' H1 H2 Hl''. apply (IH t'' H2 l'' Hl'' t i H1); auto. exists vs. auto.
Qed.

(* T3 *)
Theorem leader_completeness : forall s, reach nodes s ->
  forall t t' l', t < t' -> In (l',t') (g_leaders s) ->
  forall i, i <= g_lcommit s t -> i <= N.of_nat (length (g_llog s t)) ->
  prefix (g_llog s t') i = prefix (g_llog s t) i.
Proof.
  intros s R t t' l' Hlt Hin i Hi Hlen.
  pose proof (reach_cinv s R) as C.
  destruct (c_L _ C t) as [Z|[O Q]].
  - assert (i = 0) by lia. subst i. reflexivity.
  - pose proof (complete_quorum s C t' l' Hin t _ Hlt Q O) as Hh.
    eapply prefix_le; eauto.
Qed.

(* the committed index of a term is within that term's leader log, is an entry of that term, and is
   acknowledged by a majority *)
Theorem lcommit_facts : forall s, reach nodes s -> forall t, g_lcommit s t = 0 \/
  (g_lcommit s t <= N.of_nat (length (g_llog s t)) /\ term_at (g_llog s t) (g_lcommit s t) = t /\
   qacked nodes s t (g_lcommit s t)).
Proof.
  intros s R t. destruct (c_L _ (reach_cinv s R) t) as [Z|[[O1 O2] Q]]; [now left|right].
  repeat split; auto. destruct Q as (vs & M & Hv). destruct vs as [|v0 vs].
  - destruct M as (_ & _ & M). cbn in M. lia.
  - apply (Hv v0 (or_introl eq_refl)).
Qed.

End Complete.

Print Assumptions leader_completeness.
