(* AR_complete re-proved for the PROPOSED system DE.AbstractRaft: c_L gets a third case (the commit index a leader
   starts its term with is a committed prefix of an earlier term: [inh]), c_Llen is new, the commit witnesses
   (cwit / sinv, formerly AR_sms) move here because cL_step needs them at SBecomeLeader; cinv and sinv are proved by one
   joint induction (reach_both); leader completeness follows from the invariant by strong induction on the earlier term. *)
(* AR_complete — leader completeness (T3). *)
From Coq Require Import NArith List Bool Lia ZifyBool ZifyN PeanoNat.
From DE Require Import AbstractRaft.
From DE.proofs Require Import AR_election AR_logs.
Import ListNotations.
Open Scope N_scope.

Definition holds (s : astate) (t i : N) (L : list aentry) : Prop := prefix L i = prefix (g_llog s t) i.

(* v accepted the leader log of term t up to (at least) i, or is the leader of t *)
Definition acked (s : astate) (v t i : N) : Prop :=
  i <= N.of_nat (length (g_llog s t)) /\
  ((exists m, i <= m /\ In (v,t,m) (g_acks s)) \/ In (v,t) (g_leaders s)).

Definition own (s : astate) (t i : N) : Prop := 0 < i /\ term_at (g_llog s t) i = t.

(* every existing leader of a term strictly between t and hi holds the prefix *)
Definition mid (s : astate) (t i hi : N) : Prop :=
  forall t'' l'', t < t'' -> t'' < hi -> In (l'',t'') (g_leaders s) -> holds s t i (g_llog s t'').

Definition covers (last : N * N) (t i : N) : Prop :=
  t < snd last \/ (snd last = t /\ i <= fst last).

Definition qacked (nodes : list N) (s : astate) (t i : N) : Prop :=
  exists vs, majority nodes vs /\ forall v, In v vs -> acked s v t i.

(* the committed prefix of n is a committed prefix of the leader log of some term tw <= cur n *)
Definition cwit (s : astate) (n tw : N) : Prop :=
  tw <= a_cur s n /\ (exists m, In (m,tw) (g_leaders s)) /\
  a_commit s n <= g_lcommit s tw /\ holds s tw (a_commit s n) (a_log s n).

Definition sinv (s : astate) : Prop := forall n, a_commit s n = 0 \/ exists tw, cwit s n tw.

(* the commit index the leader of t started its term with (AbstractRaft, SBecomeLeader): a committed prefix of
   an earlier term tw that its log holds *)
Definition inh (s : astate) (t : N) : Prop :=
  exists tw, tw < t /\ (exists m, In (m,tw) (g_leaders s)) /\
    g_lcommit s t <= g_lcommit s tw /\ holds s tw (g_lcommit s t) (g_llog s t).

(* ------------------------------------------------------------------ *)
(* small facts                                                          *)
(* ------------------------------------------------------------------ *)
Lemma prefix_app_le (l x : list aentry) i : i <= N.of_nat (length l) -> prefix (l ++ x) i = prefix l i.
Proof. intros H. unfold prefix. apply firstn_app_le. lia. Qed.

Lemma term_at_app_le (l x : list aentry) i : i <= N.of_nat (length l) -> term_at (l ++ x) i = term_at l i.
Proof.
  intros H. unfold term_at. destruct (N.eqb_spec i 0); [reflexivity|].
  rewrite nth_error_app1 by lia. reflexivity.
Qed.

Lemma last_id_term l : snd (last_id l) = term_at l (N.of_nat (length l)).
Proof.
  unfold last_id, term_at. cbn [snd].
  induction l as [|e l _] using rev_ind; [reflexivity|].
  rewrite rev_app_distr. cbn [rev app]. rewrite app_length. cbn [length].
  destruct (N.eqb_spec (N.of_nat (length l + 1)) 0); [lia|].
  replace (N.to_nat (N.of_nat (length l + 1) - 1)) with (length l) by lia.
  rewrite nth_error_app2 by lia. rewrite Nat.sub_diag. reflexivity.
Qed.

Lemma last_id_fst l : fst (last_id l) = N.of_nat (length l).
Proof. reflexivity. Qed.

Lemma covers_up_to_date mine cand t i :
  covers mine t i -> up_to_date mine cand = true -> covers cand t i.
Proof. unfold covers, up_to_date. intros [H|[H1 H2]] U; lia. Qed.

Lemma term_at_prefix_eq l L i k : prefix l i = prefix L i -> 0 < k -> k <= i -> term_at l k = term_at L k.
Proof.
  intros E H0 Hk. unfold term_at. destruct (N.eqb_spec k 0); [lia|].
  unfold prefix in E. rewrite (firstn_eq_nth _ (N.to_nat (k - 1)) _ _ E) by lia. reflexivity.
Qed.

(* a log that holds (t,i) with entry i of term t has a last id that covers (t,i) *)
Lemma covers_of_holds s t i l :
  holds s t i l -> own s t i -> i <= N.of_nat (length (g_llog s t)) -> sorted l -> covers (last_id l) t i.
Proof.
  intros Hh [H0 Ht] Hi S. unfold holds in Hh.
  pose proof (prefix_len _ _ _ Hh Hi) as Hl.
  pose proof (term_at_prefix_eq _ _ i i Hh H0 (N.le_refl _)) as Et. rewrite Ht in Et.
  pose proof (sorted_nondecreasing _ S i (N.of_nat (length l)) H0 Hl (N.le_refl _)) as Hm.
  unfold covers. rewrite last_id_term, last_id_fst. lia.
Qed.

(* a glog-log whose last id covers (t,i) holds (t,i), provided the leader logs of the terms in between do *)
Lemma covers_to_holds G L' t i tb :
  glog G L' -> covers (last_id L') t i -> 0 < i ->
  (forall e, In e L' -> a_term e < tb) ->
  (forall lt, t < lt -> lt < tb -> G lt <> [] -> prefix (G lt) i = prefix (G t) i) ->
  (forall e, In e (G t) -> a_term e <= t) -> i <= N.of_nat (length (G t)) ->
  prefix L' i = prefix (G t) i.
Proof.
  intros GL C H0 Hb Hmid Ht Hi.
  unfold covers in C. rewrite last_id_term, last_id_fst in C.
  set (n := N.of_nat (length L')) in *.
  assert (Hn : 0 < n).
  { destruct C as [C|[_ C]]; [|lia]. unfold term_at in C.
    destruct (N.eqb_spec n 0); lia. }
  destruct (has_index_nth L' n) as (e & He & Te & Se); [apply has_index_spec; lia|].
  pose proof (GL _ _ He) as E. rewrite Se in E. rewrite <- Te in E.
  (* E : firstn n L' = firstn n (G lt) *)
  set (lt := term_at L' n) in *.
  assert (EL : prefix L' n = prefix (G lt) n) by exact E.
  destruct C as [C|[C1 C2]].
  - assert (Hlt : lt < tb). { rewrite Te. apply Hb. eapply nth_error_In; eauto. }
    assert (Hne : G lt <> []).
    { intros Z. rewrite Z in E. rewrite firstn_nil in E. apply (f_equal (@length _)) in E.
      rewrite firstn_length in E. cbn in E. lia. }
    pose proof (Hmid lt C Hlt Hne) as Hm.
    destruct (N.le_gt_cases i n) as [Hin|Hin].
    + rewrite <- Hm. eapply prefix_le; eauto.
    + exfalso.
      assert (E1 : nth_error (G lt) (N.to_nat (n - 1)) = Some e).
      { rewrite <- He. symmetry. apply (firstn_eq_nth (N.to_nat n)); [exact E|lia]. }
      assert (E2 : nth_error (G t) (N.to_nat (n - 1)) = Some e).
      { rewrite <- E1. symmetry. apply (firstn_eq_nth (N.to_nat i)); [exact Hm|lia]. }
      apply nth_error_In in E2. apply Ht in E2. lia.
  - rewrite C1 in EL. eapply prefix_le; eauto.
Qed.

Section Complete.
Variable nodes : list N.

(* ------------------------------------------------------------------ *)
(* monotonicity of the ghost history over one step                      *)
(* ------------------------------------------------------------------ *)
Lemma leaders_mono s s' : astep nodes s s' -> forall x, In x (g_leaders s) -> In x (g_leaders s').
Proof. intros H x Hx. step_cases H; auto. now right. Qed.

Lemma votes_mono s s' : astep nodes s s' -> forall x, In x (g_votes s) -> In x (g_votes s').
Proof. intros H x Hx. step_cases H; auto; now right. Qed.

Lemma acks_mono s s' : astep nodes s s' -> forall x, In x (g_acks s) -> In x (g_acks s').
Proof. intros H x Hx. step_cases H; auto; now right. Qed.

Lemma llog_prefix_step s s' tau i : binv nodes s -> astep nodes s s' ->
  i <= N.of_nat (length (g_llog s tau)) -> prefix (g_llog s' tau) i = prefix (g_llog s tau) i.
Proof.
  intros B H Hi. destruct (step_gext nodes s s' B H tau) as (x & -> & _). now apply prefix_app_le.
Qed.

Lemma llog_term_at_step s s' tau i : binv nodes s -> astep nodes s s' ->
  i <= N.of_nat (length (g_llog s tau)) -> term_at (g_llog s' tau) i = term_at (g_llog s tau) i.
Proof.
  intros B H Hi. destruct (step_gext nodes s s' B H tau) as (x & -> & _). now apply term_at_app_le.
Qed.

Lemma llog_len_step s s' tau : binv nodes s -> astep nodes s s' ->
  N.of_nat (length (g_llog s tau)) <= N.of_nat (length (g_llog s' tau)).
Proof.
  intros B H. destruct (step_gext nodes s s' B H tau) as (x & -> & _). rewrite app_length. lia.
Qed.

Lemma acked_fwd s s' v t i : binv nodes s -> astep nodes s s' -> acked s v t i -> acked s' v t i.
Proof.
  intros B H [Hi Ha]. split.
  - pose proof (llog_len_step s s' t B H). lia.
  - destruct Ha as [(m & Hm & Hin)|Hin]; [left; exists m; split; auto; eapply acks_mono; eauto|].
    right. eapply leaders_mono; eauto.
Qed.

Lemma own_fwd s s' t i : binv nodes s -> astep nodes s s' ->
  i <= N.of_nat (length (g_llog s t)) -> own s t i -> own s' t i.
Proof. intros B H Hi [H0 Ht]. split; [exact H0|]. now rewrite (llog_term_at_step s s' t i B H Hi). Qed.

Lemma own_back s s' t i : binv nodes s -> astep nodes s s' ->
  i <= N.of_nat (length (g_llog s t)) -> own s' t i -> own s t i.
Proof. intros B H Hi [H0 Ht]. split; [exact H0|]. now rewrite <- (llog_term_at_step s s' t i B H Hi). Qed.

Lemma acked_le s v t i : binv nodes s -> acked s v t i -> t <= a_cur s v.
Proof.
  intros B [_ [(m & _ & Hin)|Hin]]; [eapply b_ack_le; eauto|eapply b_leader_le; eauto].
Qed.

(* the obligations on the intermediate leaders can only grow *)
Lemma mid_back s s' t i hi : binv nodes s -> linv s -> astep nodes s s' ->
  i <= N.of_nat (length (g_llog s t)) -> mid s' t i hi -> mid s t i hi.
Proof.
  intros B L H Hi M t'' l'' H1 H2 Hin.
  pose proof (M t'' l'' H1 H2 (leaders_mono s s' H _ Hin)) as Hh. unfold holds in *.
  rewrite (llog_prefix_step s s' t i B H Hi) in Hh.
  destruct (step_gext nodes s s' B H t'') as (x & E & Hx). rewrite E in Hh.
  destruct x as [|e x]; [now rewrite app_nil_r in Hh|].
  destruct (N.le_gt_cases i (N.of_nat (length (g_llog s t'')))) as [Hle|Hgt].
  - now rewrite prefix_app_le in Hh.
  - exfalso. unfold prefix in Hh.
    pose proof (firstn_eq_nth _ (length (g_llog s t'')) _ _ Hh ltac:(lia)) as Hn.
    rewrite nth_error_app2 in Hn by lia. rewrite Nat.sub_diag in Hn. cbn in Hn.
    symmetry in Hn. apply nth_error_In in Hn. apply (l_llog_terms _ L) in Hn.
    rewrite (Hx (ex_intro _ l'' Hin) e (or_introl eq_refl)) in Hn. lia.
Qed.

Lemma mid_weaken s t i hi hi' : hi' <= hi -> mid s t i hi -> mid s t i hi'.
Proof. intros Hle M t'' l'' H1 H2 Hin. apply (M t'' l''); auto. lia. Qed.

(* what is newly acked in a step is held by the acker, who is in that term *)
Lemma acked_step s s' v' t' i : binv nodes s -> linv s -> astep nodes s s' ->
  acked s' v' t' i -> acked s v' t' i \/ (a_cur s' v' = t' /\ holds s' t' i (a_log s' v')).
Proof.
  intros B L H [Hi Ha]. unfold holds. step_cases H; try (left; split; assumption).
  - (* SBecomeLeader *)
    unfold upd in *. destruct (N.eqb_spec t' (a_cur s0 n)) as [->|Hne].
    + destruct Ha as [(m & Hm & Hin)|[Hin|Hin]].
      * destruct (b_ack_leader _ _ B _ _ _ Hin) as [l0 Hl0]. exfalso. eapply Hnl; eauto.
      * inversion Hin; subst. right. split; reflexivity.
      * exfalso. eapply Hnl; eauto.
    + left. split; [exact Hi|]. destruct Ha as [Ha|[Hin|Hin]]; auto.
      inversion Hin; subst. congruence.
  - (* SLeaderAppend *)
    unfold upd in *. destruct (N.eqb_spec t' (a_cur s0 n)) as [->|Hne]; [|left; split; assumption].
    destruct Ha as [(m & Hm & Hin)|Hin].
    + left. pose proof (b_ack_len _ _ B _ _ _ Hin). split; [lia|]. left. eauto.
    + pose proof (b_leader_uniq _ _ B _ _ _ Hin Hl). subst v'. right.
      split; [reflexivity|]. now rewrite N.eqb_refl.
  - (* SAppendAccept *)
    destruct Ha as [(m & Hm & [Hin|Hin])|Hin].
    + inversion Hin; subst. right. unfold upd. rewrite N.eqb_refl. split; [reflexivity|].
      eapply prefix_le; [|exact Hm].
      eapply accept_result; eauto using l_glog_log, l_glog_llog.
    + left. split; [exact Hi|]. left. eauto.
    + left. split; [exact Hi|]. now right.
Qed.

Lemma holds_transfer s s' v' t' i : binv nodes s -> linv s -> astep nodes s s' ->
  acked s v' t' i -> holds s t' i (a_log s v') -> mid s' t' i (a_cur s' v' + 1) ->
  holds s' t' i (a_log s' v').
Proof.
  intros B L H A Hh M. pose proof (acked_le _ _ _ _ B A) as Hle'. destruct A as [Hi _].
  unfold holds in *. rewrite (llog_prefix_step s s' t' i B H Hi).
  pose proof (prefix_len _ _ _ Hh Hi) as Hlen.
  step_cases H; try exact Hh.
  - (* SLeaderAppend *)
    unfold upd. destruct (N.eqb_spec v' n) as [->|Hne]; [|exact Hh].
    now rewrite prefix_app_le.
  - (* SAppendAccept *)
    unfold upd in *. destruct (N.eqb_spec v' f) as [->|Hne]; [|exact Hh].
    assert (E : prefix (a_log s0 f) i = prefix (g_llog s0 t) i).
    { destruct (N.eqb_spec t' t) as [->|Hne]; [exact Hh|].
      rewrite Hh. symmetry. apply (M t l); auto; lia. }
    rewrite (accept_keeps _ _ prev k i Hprev E). congruence.
Qed.

(* ------------------------------------------------------------------ *)
(* the invariants                                                       *)
(* ------------------------------------------------------------------ *)
Record cinv (s : astate) : Prop := {
  c_V : forall v t i, acked s v t i -> mid s t i (a_cur s v + 1) -> holds s t i (a_log s v);
  c_W : forall v t i t' c last, acked s v t i -> own s t i -> t < t' ->
        In (v,t',c) (g_votes s) -> In (c,t',last) (g_cand s) -> mid s t i (t' + 1) -> covers last t i;
  c_C : forall c last, In (c, a_cur s c, last) (g_cand s) ->
        (forall m, ~ In (m, a_cur s c) (g_leaders s)) -> last_id (a_log s c) = last;
  c_E : forall l' t', In (l',t') (g_leaders s) ->
        exists Q, majority nodes Q /\ forall v, In v Q -> In (v,t',l') (g_votes s) /\
          forall t i, t < t' -> acked s v t i -> own s t i -> mid s t i t' -> holds s t i (g_llog s t');
  c_L : forall t, g_lcommit s t = 0 \/ (own s t (g_lcommit s t) /\ qacked nodes s t (g_lcommit s t)) \/ inh s t;
  c_Llen : forall t, g_lcommit s t <= N.of_nat (length (g_llog s t))
}.

Lemma cinv_init : cinv ainit.
Proof.
  constructor; cbn; intros; try contradiction; auto; try lia.
  destruct H as [_ [(m & _ & [])|[]]].
Qed.

Lemma cV_step s s' : binv nodes s -> linv s -> cinv s -> astep nodes s s' ->
  forall v t i, acked s' v t i -> mid s' t i (a_cur s' v + 1) -> holds s' t i (a_log s' v).
Proof.
  intros B L C H v' t' i A M.
  destruct (acked_step s s' v' t' i B L H A) as [A0|[_ Hh]]; [|exact Hh].
  eapply holds_transfer; eauto.
  apply (c_V _ C); [exact A0|].
  eapply mid_weaken; [|eapply mid_back; eauto; apply A0].
  pose proof (cur_mono nodes s s' H v'). lia.
Qed.

Lemma cW_step s s' : binv nodes s -> linv s -> cinv s -> astep nodes s s' ->
  forall va ta i tv cv lastv, acked s' va ta i -> own s' ta i -> ta < tv ->
    In (va,tv,cv) (g_votes s') -> In (cv,tv,lastv) (g_cand s') -> mid s' ta i (tv + 1) ->
    covers lastv ta i.
Proof.
  intros B L C H va ta i tv cv lastv A O Ltv Vv Cc M.
  pose proof (binv_step nodes s s' B H) as B'.
  destruct (acked_step s s' va ta i B L H A) as [A0|[Ecur _]].
  2:{ pose proof (b_votes_le _ _ B' _ _ _ Vv). lia. }
  pose proof A0 as [Hi _].
  pose proof (own_back s s' ta i B H Hi O) as O0.
  pose proof (mid_back s s' ta i (tv + 1) B L H Hi M) as M0.
  clear A O M B'.
  step_cases H; try (eapply (c_W _ C); eauto; fail).
  - (* STimeout *)
    destruct Vv as [Ev|Vv]; destruct Cc as [Ec|Cc].
    + inversion Ev; inversion Ec; subst.
      apply (covers_of_holds s0); auto using l_sorted_log.
      apply (c_V _ C); [exact A0|]. eapply mid_weaken; [|exact M0]. lia.
    + inversion Ev; subst. pose proof (b_cand_le _ _ B _ _ _ Cc). lia.
    + inversion Ec; subst. destruct (b_vote_cand _ _ B _ _ _ Vv) as [l0 Hl0].
      pose proof (b_cand_le _ _ B _ _ _ Hl0). lia.
    + eapply (c_W _ C); eauto.
  - (* SVoteGrant *)
    destruct Vv as [Ev|Vv]; [|eapply (c_W _ C); eauto].
    inversion Ev; subst. rewrite (b_cand_uniq _ _ B _ _ _ _ Cc Hc).
    eapply covers_up_to_date; [|exact Hup].
    apply (covers_of_holds s0); auto using l_sorted_log.
    apply (c_V _ C); [exact A0|]. eapply mid_weaken; [|exact M0]. lia.
Qed.

Lemma cC_step s s' : binv nodes s -> cinv s -> astep nodes s s' ->
  forall cc lastc, In (cc, a_cur s' cc, lastc) (g_cand s') ->
    (forall m, ~ In (m, a_cur s' cc) (g_leaders s')) -> last_id (a_log s' cc) = lastc.
Proof.
  intros B C H cc lastc Cc Nl.
  step_cases H.
  - (* STimeout *)
    unfold upd in *. destruct (N.eqb_spec cc n) as [->|Hne].
    + destruct Cc as [Ec|Cc]; [now inversion Ec|].
      pose proof (b_cand_le _ _ B _ _ _ Cc). lia.
    + destruct Cc as [Ec|Cc]; [inversion Ec; congruence|]. eapply (c_C _ C); eauto.
  - (* SVoteGrant *)
    unfold upd in *. destruct (N.eqb_spec cc v) as [->|Hne]; [|eapply (c_C _ C); eauto].
    pose proof (b_cand_le _ _ B _ _ _ Cc). assert (E : t = a_cur s0 v) by lia. subst t.
    eapply (c_C _ C); eauto.
  - (* SVoteDeny *)
    unfold upd in *. destruct (N.eqb_spec cc v) as [->|Hne]; [|eapply (c_C _ C); eauto].
    pose proof (b_cand_le _ _ B _ _ _ Cc). lia.
  - (* SBecomeLeader *)
    eapply (c_C _ C); eauto. intros m Hm. eapply Nl. right. exact Hm.
  - (* SLeaderAppend *)
    unfold upd. destruct (N.eqb_spec cc n) as [->|Hne]; [|eapply (c_C _ C); eauto].
    exfalso. eapply Nl; eauto.
  - (* SAppendAccept *)
    unfold upd in *. destruct (N.eqb_spec cc f) as [->|Hne]; [|eapply (c_C _ C); eauto].
    exfalso. eapply Nl; eauto.
  - (* SAppendReject *)
    unfold upd in *. destruct (N.eqb_spec cc f) as [->|Hne]; [|eapply (c_C _ C); eauto].
    destruct Hex as [l0 Hl0]. exfalso. eapply Nl; eauto.
  - (* SAdvanceCommit *)
    eapply (c_C _ C); eauto.
Qed.

Lemma leader_dec (ls : list (N * N)) t : (exists m, In (m,t) ls) \/ (forall m, ~ In (m,t) ls).
Proof.
  induction ls as [|[a b] ls [IH|IH]].
  - right. intros m [].
  - left. destruct IH as [m Hm]. exists m. now right.
  - destruct (N.eqb_spec b t) as [->|Hne].
    + left. exists a. now left.
    + right. intros m [E|Hm]; [inversion E; congruence|eapply IH; eauto].
Qed.

Lemma llog_nonempty_leader s t : binv nodes s -> g_llog s t <> [] -> exists m, In (m,t) (g_leaders s).
Proof.
  intros B Hne. destruct (leader_dec (g_leaders s) t) as [E|Nl]; [exact E|].
  exfalso. apply Hne. now apply (b_llog_nil _ _ B).
Qed.

Lemma cE_old s s' : binv nodes s -> linv s -> cinv s -> astep nodes s s' ->
  forall l' t', In (l',t') (g_leaders s) ->
    exists Q, majority nodes Q /\ forall v, In v Q -> In (v,t',l') (g_votes s') /\
      forall t i, t < t' -> acked s' v t i -> own s' t i -> mid s' t i t' -> holds s' t i (g_llog s' t').
Proof.
  intros B L C H l' t' Hin.
  pose proof (binv_step nodes s s' B H) as B'.
  destruct (c_E _ C l' t' Hin) as (Q & M & HQ). exists Q. split; [exact M|].
  intros v Hv. destruct (HQ v Hv) as [Hvote HH]. split; [eapply votes_mono; eauto|].
  intros t i Hlt A O Mid.
  destruct (acked_step s s' v t i B L H A) as [A0|[Ecur _]].
  2:{ pose proof (b_votes_le _ _ B' _ _ _ (votes_mono s s' H _ Hvote)). lia. }
  pose proof A0 as [Hi _].
  pose proof (HH t i Hlt A0 (own_back s s' t i B H Hi O) (mid_back s s' t i t' B L H Hi Mid)) as Hh.
  unfold holds in *. pose proof (prefix_len _ _ _ Hh Hi) as Hi'.
  rewrite (llog_prefix_step s s' t i B H Hi), (llog_prefix_step s s' t' i B H Hi'). exact Hh.
Qed.

Lemma cE_step s s' : binv nodes s -> linv s -> cinv s -> astep nodes s s' ->
  forall l' t', In (l',t') (g_leaders s') ->
    exists Q, majority nodes Q /\ forall v, In v Q -> In (v,t',l') (g_votes s') /\
      forall t i, t < t' -> acked s' v t i -> own s' t i -> mid s' t i t' -> holds s' t i (g_llog s' t').
Proof.
  intros B L C H l' t' Hin.
  pose proof (cE_old s s' B L C H l' t') as Old.
  pose proof (binv_step nodes s s' B H) as B'.
  pose proof (fun v t i => acked_step s s' v t i B L H) as AS.
  pose proof (fun t i hi => mid_back s s' t i hi B L H) as MB.
  pose proof (fun t i => own_back s s' t i B H) as OB.
  step_cases H; try (apply Old; exact Hin).
  destruct Hin as [Enew|Hin]; [|apply Old; exact Hin].
  inversion Enew; subst l' t'. clear Old Enew.
  exists vs. split; [exact Hmaj|]. intros v Hv. split; [auto|].
  intros ta i Hlt A O Mid.
  destruct (AS v ta i A) as [A0|[Ecur _]].
  2:{ pose proof (b_votes_le _ _ B _ _ _ (Hvs v Hv)). lia. }
  pose proof A0 as [Hi _].
  pose proof (OB ta i Hi O) as O0. pose proof (MB ta i _ Hi Mid) as M0.
  assert (M1 : mid s0 ta i (a_cur s0 n + 1)).
  { intros t'' l'' H1 H2 Hl''. destruct (N.eqb_spec t'' (a_cur s0 n)) as [->|Hne].
    - exfalso. eapply Hnl; eauto.
    - apply (M0 t'' l''); auto. lia. }
  pose proof (c_W _ C v ta i (a_cur s0 n) n last A0 O0 Hlt (Hvs v Hv) Hc M1) as Cov.
  rewrite <- (c_C _ C n last Hc Hnl) in Cov.
  unfold holds. cbn [g_llog]. unfold upd. rewrite N.eqb_refl.
  destruct (N.eqb_spec ta (a_cur s0 n)) as [Eq|Hne]; [lia|].
  apply (covers_to_holds (g_llog s0) (a_log s0 n) ta i (a_cur s0 n)); auto.
  - apply l_glog_log; auto.
  - apply O0.
  - intros e He. pose proof (l_log_terms _ L _ _ He) as Hle.
    destruct (N.eqb_spec (a_term e) (a_cur s0 n)) as [Eq|Hne']; [|lia].
    exfalso. apply In_nth_error in He. destruct He as [j Hj].
    pose proof (l_glog_log _ L n _ _ Hj) as E. rewrite Eq, (b_llog_nil _ _ B _ Hnl), firstn_nil in E.
    apply (f_equal (@length _)) in E. rewrite firstn_length in E.
    apply nth_error_Some_lt in Hj. cbn [length] in E. lia.
  - intros lt H1 H2 Hne'. destruct (llog_nonempty_leader s0 lt B Hne') as [m Hm].
    apply (M0 lt m); auto.
  - intros e He. eapply l_llog_terms; eauto.
Qed.

Lemma qacked_fwd s s' t i : binv nodes s -> astep nodes s s' -> qacked nodes s t i -> qacked nodes s' t i.
Proof.
  intros B H (vs & M & Hv). exists vs. split; [exact M|]. intros v Hin. eapply acked_fwd; eauto.
Qed.

Lemma lcommit_no_leader s t : binv nodes s -> cinv s -> (forall m, ~ In (m,t) (g_leaders s)) -> g_lcommit s t = 0.
Proof.
  intros B C Nl. pose proof (c_Llen _ C t) as H. rewrite (b_llog_nil _ _ B _ Nl) in H. cbn in H. lia.
Qed.

Lemma lcommit_mono_leader s s' : astep nodes s s' -> forall t', (exists m, In (m,t') (g_leaders s)) ->
  g_lcommit s t' <= g_lcommit s' t'.
Proof.
  intros H t' [m Hm]. step_cases H; try lia.
  - unfold upd. destruct (N.eqb_spec t' (a_cur s0 n)) as [->|Hne]; [|lia]. exfalso. eapply Hnl; eauto.
  - unfold upd. destruct (N.eqb_spec t' (a_cur s0 n)); subst; lia.
Qed.

Lemma cLlen_step s s' : binv nodes s -> cinv s -> sinv s -> astep nodes s s' ->
  forall tc, g_lcommit s' tc <= N.of_nat (length (g_llog s' tc)).
Proof.
  intros B C S H tc.
  assert (Old : g_lcommit s tc <= N.of_nat (length (g_llog s' tc))).
  { pose proof (c_Llen _ C tc). pose proof (llog_len_step s s' tc B H). lia. }
  step_cases H; try exact Old.
  - (* SBecomeLeader *)
    unfold upd in *. destruct (N.eqb_spec tc (a_cur s0 n)) as [E|Hne]; [|exact Old]. clear Old E.
    destruct (S n) as [Z|[tw (W1 & W2 & W3 & W4)]]; [lia|].
    eapply prefix_len; [exact W4|]. pose proof (c_Llen _ C tw). lia.
  - (* SAdvanceCommit *)
    unfold upd in *. destruct (N.eqb_spec tc (a_cur s0 n)) as [E|Hne]; [|exact Old]. subst tc.
    pose proof (b_leader_log _ _ B _ Hl) as EL. rewrite <- EL in Old |- *. lia.
Qed.

Lemma cL_of s' tc c : g_lcommit s' tc = c ->
  (c = 0 \/ (own s' tc c /\ qacked nodes s' tc c) \/
   (exists tw, tw < tc /\ (exists m, In (m,tw) (g_leaders s')) /\ c <= g_lcommit s' tw /\ holds s' tw c (g_llog s' tc))) ->
  g_lcommit s' tc = 0 \/ (own s' tc (g_lcommit s' tc) /\ qacked nodes s' tc (g_lcommit s' tc)) \/ inh s' tc.
Proof. intros <- H. exact H. Qed.

Ltac use_cL c := match goal with |- _ \/ _ \/ inh ?x ?t => apply (cL_of x t c) end.

Lemma cL_step s s' : binv nodes s -> cinv s -> sinv s -> astep nodes s s' ->
  forall tc, g_lcommit s' tc = 0 \/ (own s' tc (g_lcommit s' tc) /\ qacked nodes s' tc (g_lcommit s' tc)) \/ inh s' tc.
Proof.
  intros B C S H tc.
  assert (Old : g_lcommit s tc = 0 \/
                (own s' tc (g_lcommit s tc) /\ qacked nodes s' tc (g_lcommit s tc)) \/
                (exists tw, tw < tc /\ (exists m, In (m,tw) (g_leaders s')) /\
                   g_lcommit s tc <= g_lcommit s' tw /\ holds s' tw (g_lcommit s tc) (g_llog s' tc))).
  { destruct (c_L _ C tc) as [Z|[[O Q]|(tw & Htw & (m & Hm) & Hle & Hh)]]; [now left|right; left|right; right].
    - split.
      + destruct Q as (vs & M & Hv). destruct vs as [|v0 vs].
        * destruct M as (_ & _ & M). cbn in M. lia.
        * destruct (Hv v0 (or_introl eq_refl)) as [Hi _]. eapply own_fwd; eauto.
      + eapply qacked_fwd; eauto.
    - exists tw. split; [exact Htw|]. split; [exists m; eapply leaders_mono; eauto|].
      split; [pose proof (lcommit_mono_leader s s' H tw (ex_intro _ m Hm)); lia|].
      unfold holds in *.
      rewrite (llog_prefix_step s s' tc _ B H (c_Llen _ C tc)).
      rewrite (llog_prefix_step s s' tw (g_lcommit s tc) B H); [exact Hh|].
      pose proof (c_Llen _ C tw). lia. }
  step_cases H; try (unfold inh; proj_simpl; exact Old).
  - (* SBecomeLeader *)
    destruct (N.eqb_spec tc (a_cur s0 n)) as [E|Hne].
    2:{ use_cL (g_lcommit s0 tc); [|exact Old].
        cbn [g_lcommit]. unfold upd. destruct (N.eqb_spec tc (a_cur s0 n)); [contradiction|reflexivity]. }
    subst tc. clear Old.
    use_cL (a_commit s0 n); [cbn [g_lcommit]; unfold upd; now rewrite N.eqb_refl|].
    destruct (S n) as [Z|[tw (W1 & (m & W2) & W3 & W4)]]; [now left|right; right].
    assert (Hne : tw <> a_cur s0 n) by (intros ->; eapply Hnl; eauto).
    exists tw. split; [lia|]. split; [exists m; now right|].
    unfold holds in *. cbn [g_lcommit g_llog]. unfold upd.
    destruct (N.eqb_spec tw (a_cur s0 n)) as [E|_]; [contradiction|].
    rewrite N.eqb_refl. split; [exact W3|exact W4].
  - (* SAdvanceCommit *)
    destruct (N.eqb_spec tc (a_cur s0 n)) as [E|Hne].
    2:{ use_cL (g_lcommit s0 tc); [|exact Old].
        cbn [g_lcommit]. unfold upd. destruct (N.eqb_spec tc (a_cur s0 n)); [contradiction|reflexivity]. }
    subst tc.
    use_cL (N.max (g_lcommit s0 (a_cur s0 n)) N); [cbn [g_lcommit]; unfold upd; now rewrite N.eqb_refl|].
    destruct (N.max_spec (g_lcommit s0 (a_cur s0 n)) N) as [[Hlt E]|[Hge E]]; rewrite E in *; clear E.
    + right. left. pose proof (b_leader_log _ _ B _ Hl) as EL. split.
      * split; [lia|]. cbn [g_llog]. now rewrite <- EL.
      * exists vs. split; [exact Hmaj|]. intros v Hv. split.
        -- cbn [g_llog]. rewrite <- EL. exact HN.
        -- cbn [g_acks g_leaders]. destruct (Hvs v Hv) as [->|(m & Hm & Hin)]; [now right|left; eauto].
    + destruct Old as [Z|Old]; [lia|right; exact Old].
Qed.

Lemma cinv_step s s' : binv nodes s -> linv s -> cinv s -> sinv s -> astep nodes s s' -> cinv s'.
Proof.
  intros B L C S H. constructor.
  - eapply cV_step; eauto.
  - eapply cW_step; eauto.
  - eapply cC_step; eauto.
  - eapply cE_step; eauto.
  - eapply cL_step; eauto.
  - eapply cLlen_step; eauto.
Qed.

(* ------------------------------------------------------------------ *)
(* leader completeness, quorum form: within one state, by strong induction on the later term *)
(* ------------------------------------------------------------------ *)
Lemma complete_quorum s : cinv s ->
  forall t' l', In (l',t') (g_leaders s) -> forall t i, t < t' -> qacked nodes s t i -> own s t i ->
  holds s t i (g_llog s t').
Proof.
  intros C t'. induction t' as [t' IH] using (well_founded_induction N.lt_wf_0).
  intros l' Hin t i Hlt (vs & M & Hv) O.
  destruct (c_E _ C l' t' Hin) as (Q & MQ & HQ).
  destruct (majority_intersect _ _ _ M MQ) as (v & I1 & I2).
  destruct (HQ v I2) as [_ HH]. apply HH; auto.
  intros t'' l'' H1 H2 Hl''. apply (IH t'' H2 l'' Hl'' t i H1); auto. exists vs. auto.
Qed.

(* committed prefixes, from the invariant alone: by strong induction on the earlier term (an inherited commit index
   is a committed prefix of a still earlier term) *)
Lemma complete_cinv s : cinv s -> forall t t' l', t < t' -> In (l',t') (g_leaders s) ->
  forall i, i <= g_lcommit s t -> prefix (g_llog s t') i = prefix (g_llog s t) i.
Proof.
  intros C t. induction t as [t IH] using (well_founded_induction N.lt_wf_0).
  intros t' l' Hlt Hin i Hi.
  destruct (c_L _ C t) as [Z|[[O Q]|(tw & Htw & _ & Hle & Hh)]].
  - assert (i = 0) by lia. subst i. reflexivity.
  - pose proof (complete_quorum s C t' l' Hin t _ Hlt Q O) as Hh. eapply prefix_le; eauto.
  - unfold holds in Hh. rewrite (prefix_le _ _ _ i Hh Hi). apply (IH tw Htw t' l'); [lia|exact Hin|lia].
Qed.

Lemma committed_in_later_inv s : cinv s -> forall t t' l' i, t <= t' -> In (l',t') (g_leaders s) ->
  i <= g_lcommit s t -> prefix (g_llog s t') i = prefix (g_llog s t) i.
Proof.
  intros C t t' l' i Hle Hin Hi. destruct (N.eqb_spec t t') as [->|Hne]; [reflexivity|].
  eapply complete_cinv; eauto. lia.
Qed.

(* ------------------------------------------------------------------ *)
(* the commit witnesses (moved here from AR_sms: cL_step needs them at SBecomeLeader) *)
(* ------------------------------------------------------------------ *)
Lemma sinv_init : sinv ainit.
Proof. intros n. now left. Qed.

Lemma cwit_keep s s' n' tw : binv nodes s -> cinv s -> astep nodes s s' ->
  a_commit s' n' = a_commit s n' ->
  (prefix (a_log s' n') (a_commit s n') = prefix (a_log s n') (a_commit s n')) ->
  cwit s n' tw -> cwit s' n' tw.
Proof.
  intros B C H Ec El (H1 & (m & H2) & H3 & H4).
  split; [pose proof (cur_mono nodes s s' H n'); lia|].
  split; [exists m; eapply leaders_mono; eauto|].
  split; [rewrite Ec; pose proof (lcommit_mono_leader s s' H tw (ex_intro _ m H2)); lia|].
  unfold holds in *. rewrite Ec, El, H4. symmetry. apply llog_prefix_step; auto.
  pose proof (c_Llen _ C tw). lia.
Qed.

Lemma sinv_step s s' : binv nodes s -> linv s -> cinv s -> sinv s -> astep nodes s s' -> sinv s'.
Proof.
  intros B L C S H n'.
  pose proof (fun tw Ec El => cwit_keep s s' n' tw B C H Ec El) as Keep.
  pose proof (c_Llen _ C) as LL.
  pose proof (committed_in_later_inv s C) as CL.
  assert (Same : a_commit s' n' = a_commit s n' -> a_log s' n' = a_log s n' ->
                 a_commit s' n' = 0 \/ exists tw, cwit s' n' tw).
  { intros Ec El. destruct (S n') as [Z|[tw W]]; [left; congruence|right].
    exists tw. apply Keep; auto. now rewrite El. }
  step_cases H; try (apply Same; reflexivity).
  - (* SLeaderAppend *)
    unfold upd in *. destruct (N.eqb_spec n' n) as [E|Hne]; [|apply Same; reflexivity]. subst n'.
    destruct (S n) as [Z|[tw W]]; [now left|right]. exists tw. apply Keep; auto.
    apply prefix_app_le. destruct W as (_ & _ & W3 & W4). unfold holds in W4.
    eapply prefix_len; [exact W4|]. specialize (LL tw). lia.
  - (* SAppendAccept *)
    clear Keep. unfold upd in *. destruct (N.eqb_spec n' f) as [E|Hne]; [|apply Same; reflexivity]. subst n'.
    clear Same. unfold cwit, holds. cbn [a_cur a_commit a_log g_leaders g_lcommit g_llog].
    rewrite !N.eqb_refl.
    set (R0 := merge_from (a_log s0 f) (N.to_nat prev) (slice (g_llog s0 t) prev k)).
    assert (E1 : prefix R0 (prev + k) = prefix (g_llog s0 t) (prev + k)).
    { eapply accept_result; eauto using l_glog_log, l_glog_llog. }
    destruct (N.max_spec (a_commit s0 f) (N.min lc (prev + k))) as [[Hlt ->]|[Hge ->]].
    + right. exists t. split; [lia|]. split; [eauto|]. split; [lia|].
      eapply prefix_le; [exact E1|lia].
    + destruct (S f) as [Z|[tw (W1 & W2 & W3 & W4)]]; [now left|right]. unfold holds in W4.
      exists tw. split; [lia|]. split; [exact W2|]. split; [exact W3|].
      assert (E0 : prefix (a_log s0 f) (a_commit s0 f) = prefix (g_llog s0 t) (a_commit s0 f)).
      { rewrite W4. symmetry. eapply CL; eauto. lia. }
      unfold R0. rewrite (accept_keeps _ _ prev k _ Hprev E0). congruence.
  - (* SAdvanceCommit *)
    unfold upd in *. destruct (N.eqb_spec n' n) as [E|Hne]; [|apply Same; reflexivity]. subst n'.
    right. exists (a_cur s0 n). unfold cwit, holds. cbn [a_cur a_commit a_log g_leaders g_lcommit g_llog].
    rewrite !N.eqb_refl. split; [lia|]. split; [eauto|]. split; [lia|].
    now rewrite (b_leader_log _ _ B _ Hl).
Qed.

Lemma reach_both s : reach nodes s -> cinv s /\ sinv s.
Proof.
  induction 1 as [|s s' R [IC IS] H]; [split; [exact cinv_init|exact sinv_init]|].
  pose proof (reach_binv nodes s R) as B. pose proof (reach_linv nodes s R) as L.
  split; [eapply cinv_step; eauto|eapply sinv_step; eauto].
Qed.

Lemma reach_cinv s : reach nodes s -> cinv s.
Proof. intros R. apply (reach_both s R). Qed.

Lemma reach_sinv s : reach nodes s -> sinv s.
Proof. intros R. apply (reach_both s R). Qed.

(* T3 *)
Theorem leader_completeness : forall s, reach nodes s ->
  forall t t' l', t < t' -> In (l',t') (g_leaders s) ->
  forall i, i <= g_lcommit s t -> i <= N.of_nat (length (g_llog s t)) ->
  prefix (g_llog s t') i = prefix (g_llog s t) i.
Proof.
  intros s R t t' l' Hlt Hin i Hi _. eapply complete_cinv; eauto using reach_cinv.
Qed.

(* the committed index of a term is within that term's leader log; it is 0, or an entry of that term acknowledged
   by a majority, or the commit index the leader started with: a committed prefix of an earlier term *)
Theorem lcommit_facts : forall s, reach nodes s -> forall t,
  g_lcommit s t <= N.of_nat (length (g_llog s t)) /\
  (g_lcommit s t = 0 \/
   (term_at (g_llog s t) (g_lcommit s t) = t /\ qacked nodes s t (g_lcommit s t)) \/
   (exists tw, tw < t /\ g_lcommit s t <= g_lcommit s tw /\
      prefix (g_llog s t) (g_lcommit s t) = prefix (g_llog s tw) (g_lcommit s t))).
Proof.
  intros s R t. pose proof (reach_cinv s R) as C. split; [apply (c_Llen _ C)|].
  destruct (c_L _ C t) as [Z|[[[O1 O2] Q]|(tw & H1 & _ & H2 & H3)]]; [now left|right; left|right; right].
  - split; assumption.
  - exists tw. repeat split; assumption.
Qed.

End Complete.

Print Assumptions leader_completeness.
