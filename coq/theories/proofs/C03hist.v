(* C03 — HISTORY. The variant of the code before the fix (Membership::is_single_node_cluster = initial_cluster_size == 1,
   immutable after start-up) and the refutation that was the finding `shortcut-with-other-voters`. Nothing here describes
   the current code; DE.Membership.is_single is the repaired definition and proofs/C03.v proves the full statement on it. *)
From Coq Require Import NArith List Bool Lia Arith.
From DE Require Import Val BufLog LeaderCommit Membership proofs.C26 proofs.C03.
Import ListNotations.
Open Scope N_scope.

Definition is_single_v0 (m : mstate) : bool := m_init m =? 1.
Definition elect_v0 (m : mstate) (rs : list N) : list N :=
  if is_single_v0 m then [1; 0; 0]
  else match voters m with
       | [] => [0; 0; 0]
       | vs => let total := N.of_nat (length vs) + 1 in
               let succeed := 1 + granted (length vs) rs in
               [if total / 2 <? succeed then 1 else 0; 1; N.of_nat (length vs)]
       end.
Definition won_v0 (m : mstate) (rs : list N) : bool := nth 0 (elect_v0 m rs) 0 =? 1.
Definition asked_v0 (m : mstate) (rs : list N) : bool := nth 1 (elect_v0 m rs) 0 =? 1.

(* the previous variant decided on the INITIAL configuration size only *)
Theorem v0_shortcut_taken_iff_booted_alone self init cs rs :
  (won_v0 (run (mk self init) cs) rs = true /\ asked_v0 (run (mk self init) cs) rs = false) <-> length init = 1%nat.
Proof.
  unfold won_v0, asked_v0, elect_v0, is_single_v0. rewrite run_init. cbn [mk m_init]. split.
  - destruct (N.eqb_spec (N.of_nat (length init)) 1) as [E|E]; [intros _; lia|].
    destruct (voters (run (mk self init) cs)); cbn [nth]; intros [H1 H2]; cbn in H1, H2; discriminate.
  - intros H. rewrite H. cbn. split; reflexivity.
Qed.

(* node 1 boots alone, two learners join and are promoted (the documented expansion): the previous variant let node 1 win
   an election without a single vote although 2 and 3 were voting members *)
Theorem v0_shortcut_refuted :
  exists (self : N) (init : list node) (cs : list change) (rs : list N),
    (1 <= length init <= 5)%nat /\
    let m := run (mk self init) cs in
    won_v0 m rs = true /\ asked_v0 m rs = false /\ granted (length (voters m)) rs = 0 /\ voters m = [2; 3].
Proof.
  exists 1, [nf 1], [CAdd 2 S_PROMOTABLE; CAdd 3 S_PROMOTABLE; CBatchPromote [2; 3] S_ACTIVE], [0; 0].
  split; [cbn; lia|]. vm_compute. repeat split; reflexivity.
Qed.

(* the same witness on the current code: it loses *)
Example v0_witness_on_current_code :
  let m := run (mk 1 [nf 1]) [CAdd 2 S_PROMOTABLE; CAdd 3 S_PROMOTABLE; CBatchPromote [2; 3] S_ACTIVE] in
  won_v0 m [0; 0] = true /\ won m [0; 0] = false.
Proof. vm_compute. split; reflexivity. Qed.

(* the two variants agree on every history in which the shortcut question does not arise *)
Theorem v0_agrees_outside_known_class :
  forall (self : N) (init : list node) (cs : list change) (rs : list N),
    let m := run (mk self init) cs in
    ~ (length init = 1%nat /\ voters m <> []) -> elect_v0 m rs = elect m rs.
Proof.
  intros self init cs rs. cbv zeta. set (m := run (mk self init) cs). intros Hk.
  unfold elect_v0, elect, is_single_v0, is_single. unfold m at 1 3. rewrite run_init. cbn [mk m_init]. fold m.
  destruct (N.eqb_spec (N.of_nat (length init)) 1) as [E|E]; cbn [andb]; [|reflexivity].
  destruct (voters m) eqn:V; [reflexivity|]. exfalso. apply Hk. split; [lia|discriminate].
Qed.
