(* C37 — client writes are applied exactly as submitted. Proved on DE.Codec. *)
From Coq Require Import NArith List Bool Lia.
From DE Require Import Val KV Codec.
Import ListNotations.
Open Scope N_scope.

(* the Command a WriteOperation must become *)
Definition cmd_of_wop (o : wop) : acmd :=
  match o with
  | WInsert k v ttl => AInsert k v (match ttl with Some t => ttl_norm t | None => None end)
  | WDelete k => ADelete k
  | WCas k e v => ACas k e v
  end.

(* consecutive indexes, one term: what the leader's batch looks like after decode *)
Fixpoint number (first term : N) (cs : list acmd) : list apply_entry :=
  match cs with
  | [] => []
  | c :: rest => {| a_index := first; a_term := term; a_cmd := c |} :: number (first + 1) term rest
  end.

(* WriteOperation -> proto -> Command: key, value, expected value unchanged; ttl unchanged up to 0 = no expiration *)
Lemma wop_roundtrip o : proto_to_cmd (op_to_proto o) = Some (cmd_of_wop o).
Proof.
  destruct o as [k v [t|]|k|k e v]; cbn [op_to_proto proto_to_cmd cmd_of_wop]; try reflexivity.
Qed.

(* proto -> WriteOperation -> proto -> Command = proto -> Command (the server-side hop of the gRPC path is transparent) *)
Lemma grpc_hop_transparent w o : proto_to_op w = Some o -> proto_to_cmd (op_to_proto o) = proto_to_cmd w.
Proof.
  destruct w as [[k v t|k|k e v]|]; cbn [proto_to_op]; intros H; inversion H; subst; cbn [op_to_proto proto_to_cmd]; try reflexivity.
  destruct (t =? 0) eqn:E; [reflexivity | rewrite E; reflexivity].
Qed.

Lemma embedded_single c : proto_to_cmd (op_to_proto (embedded_submit c)) = Some (expected_cmd c).
Proof.
  rewrite wop_roundtrip. destruct c as [k v|k v t|k|k e v]; reflexivity.
Qed.

Lemma grpc_single c :
  exists o, proto_to_op (grpc_submit c) = Some o /\ proto_to_cmd (op_to_proto o) = Some (expected_cmd c).
Proof.
  destruct c as [k v|k v t|k|k e v]; cbn [grpc_submit proto_to_op]; eexists; (split; [reflexivity|]);
    rewrite wop_roundtrip; cbn [cmd_of_wop expected_cmd]; try reflexivity.
  unfold ttl_norm. destruct (t =? 0) eqn:E; [reflexivity | rewrite E; reflexivity].
Qed.

Lemma decode_assign : forall ws cmds first term,
  map proto_to_cmd ws = map Some cmds ->
  decode_entries (assign first term (to_payloads ws)) = Some (number first term cmds).
Proof.
  induction ws as [|w ws IH]; intros [|c cmds] first term H; cbn [map] in H; try discriminate; [reflexivity|].
  inversion H as [[Hw Hrest]].
  cbn [to_payloads map assign decode_entries e_payload e_index e_term number].
  rewrite Hw. fold (to_payloads ws). rewrite (IH cmds (first + 1) term Hrest). reflexivity.
Qed.

Theorem embedded_path_correct first term cs :
  embedded_path first term cs = Some (number first term (map expected_cmd cs)).
Proof.
  unfold embedded_path. apply decode_assign.
  rewrite !map_map. apply map_ext. intros c. apply embedded_single.
Qed.

Lemma grpc_ops cs :
  exists ops,
    fold_right (fun c acc => match proto_to_op (grpc_submit c), acc with
                             | Some o, Some l => Some (o :: l) | _, _ => None end) (Some []) cs = Some ops /\
    map (fun o => proto_to_cmd (op_to_proto o)) ops = map (fun c => Some (expected_cmd c)) cs.
Proof.
  induction cs as [|c cs IH]; cbn [fold_right map]; [exists []; split; reflexivity|].
  destruct IH as [ops [Hf Hm]]. destruct (grpc_single c) as [o [Ho Hc]].
  exists (o :: ops). rewrite Hf, Ho. split; [reflexivity|]. cbn [map]. rewrite Hc, Hm. reflexivity.
Qed.

Theorem grpc_path_correct first term cs :
  grpc_path first term cs = Some (number first term (map expected_cmd cs)).
Proof.
  unfold grpc_path. destruct (grpc_ops cs) as [ops [Hf Hm]]. rewrite Hf.
  apply decode_assign. rewrite !map_map. rewrite Hm. reflexivity.
Qed.

Lemma number_length first term cs : length (number first term cs) = length cs.
Proof. revert first. induction cs as [|c cs IH]; intros first; cbn [number length]; [reflexivity | rewrite IH; reflexivity]. Qed.

Lemma number_nth : forall cs first term i d,
  (i < length cs)%nat ->
  nth i (number first term cs) d =
  {| a_index := first + N.of_nat i; a_term := term; a_cmd := nth i cs ANoop |}.
Proof.
  induction cs as [|c cs IH]; intros first term i d Hi; cbn [length] in Hi; [lia|].
  destruct i as [|i]; cbn [number nth].
  - rewrite N.add_0_r. reflexivity.
  - rewrite IH by lia. f_equal. lia.
Qed.

(* ttl exactness: every non-zero TTL arrives unchanged; 0 arrives as "no expiration" *)
Lemma ttl_nonzero_exact k v t : t <> 0 -> expected_cmd (CPutTtl k v t) = AInsert k v (Some t).
Proof. intros H. cbn [expected_cmd]. unfold ttl_norm. destruct (N.eqb_spec t 0); [contradiction | reflexivity]. Qed.

Lemma ttl_zero_is_no_expiration k v : expected_cmd (CPutTtl k v 0) = AInsert k v None.
Proof. reflexivity. Qed.

(* decode never yields Some 0 as a TTL *)
Lemma decoded_ttl_never_zero w k v t : proto_to_cmd w = Some (AInsert k v (Some t)) -> t <> 0.
Proof.
  destruct w as [[k' v' t'|k'|k' e' v']|]; cbn [proto_to_cmd]; intros H; inversion H as [[Hk Hv Ht]].
  destruct (N.eqb_spec t' 0); [discriminate | congruence].
Qed.

(* ---- non-vacuity ---- *)
Example ex_paths :
  let cs := [CPut [] []; CPutTtl [1] [2] 0; CPutTtl [1] [] 18446744073709551615; CDelete []; CCas [1] None []; CCas [] (Some []) [3]; CCas [1] (Some [2; 3]) [4]] in
  embedded_path 5 2 cs = grpc_path 5 2 cs /\
  embedded_path 5 2 cs = Some (number 5 2 [AInsert [] [] None; AInsert [1] [2] None; AInsert [1] [] (Some 18446744073709551615);
                                           ADelete []; ACas [1] None []; ACas [] (Some []) [3]; ACas [1] (Some [2; 3]) [4]]).
Proof. vm_compute. split; reflexivity. Qed.

Example ex_missing_operation_rejected :
  decode_entries [{| e_index := 1; e_term := 1; e_payload := Some (PLCommand None) |}] = None /\
  decode_entries [{| e_index := 1; e_term := 1; e_payload := None |}] = None /\
  decode_entries [{| e_index := 1; e_term := 1; e_payload := Some PLConfig |}] = Some [{| a_index := 1; a_term := 1; a_cmd := ANoop |}].
Proof. vm_compute. repeat split. Qed.
